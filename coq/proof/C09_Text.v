(* C09 proofs about the rule-file parser (model/C09_Text.v): the hand-written line parser accepts exactly the
   language of linePattern with the same submatches; what it rejects; round trip with the canonical printer;
   comment and blank-line handling; rules come out in line order; and first-match stated on rule FILES. *)
From Hy Require Import model.C09_ACL model.C09_IPString model.C09_Text proof.C09_ACL proof.C09_IPString.
From Coq Require Import ZArith Lia Sorting.Sorted.
Local Open Scope N_scope.

(* ---------- prefixes ---------- *)

Lemma has_prefix_spec p : forall s, has_prefix p s = true <-> exists r, s = p ++ r.
Proof.
  induction p as [|x p IH]; intros s.
  - cbn. split; [intros _; now exists s | reflexivity].
  - destruct s as [|y s]; cbn [has_prefix].
    + split; [discriminate | intros [r H]; discriminate].
    + rewrite andb_true_iff, byte_eqb_true, IH. split.
      * intros [-> [r ->]]. now exists r.
      * intros [r H]. injection H as -> ->. split; [reflexivity | now exists r].
Qed.

Lemma skipn_app_exact {A} (p r : list A) : skipn (length p) (p ++ r) = r.
Proof. induction p; [reflexivity | assumption]. Qed.

Lemma strip1_some ps : forall s s', strip1 ps s = Some s' -> exists p, In p ps /\ s = p ++ s'.
Proof.
  induction ps as [|p ps IH]; intros s s' H; cbn [strip1] in H; [discriminate|].
  destruct (has_prefix p s) eqn:E.
  - apply has_prefix_spec in E as [r ->]. rewrite skipn_app_exact in H. injection H as <-.
    exists p. split; [now left | reflexivity].
  - destruct (IH _ _ H) as [q [Hq ->]]. exists q. split; [now right | reflexivity].
Qed.

Lemma strip1_none ps s : strip1 ps s = None <-> Forall (fun p => has_prefix p s = false) ps.
Proof.
  induction ps as [|p ps IH]; cbn [strip1].
  - split; [constructor | reflexivity].
  - destruct (has_prefix p s) eqn:E.
    + split; [discriminate | intros H; inversion H; congruence].
    + rewrite IH. split; [now constructor | intros H; now inversion H].
Qed.

Lemma has_prefix_app p s z : has_prefix p s = true -> has_prefix p (s ++ z) = true.
Proof. rewrite !has_prefix_spec. intros [r ->]. exists (r ++ z). now rewrite app_assoc. Qed.

Lemma strip1_none_prefix ps s z : strip1 ps (s ++ z) = None -> strip1 ps s = None.
Proof.
  rewrite !strip1_none. apply Forall_impl. intros p H.
  destruct (has_prefix p s) eqn:E; [|reflexivity]. now rewrite (has_prefix_app _ _ z E) in H.
Qed.

(* ---------- TrimSpace ---------- *)

Lemma tlg_suffix ps : forall fuel s, exists pre, s = pre ++ trim_left_gen ps fuel s.
Proof.
  induction fuel as [|f IH]; intros s; cbn [trim_left_gen]; [now exists []|].
  destruct (strip1 ps s) as [s'|] eqn:E; [|now exists []].
  apply strip1_some in E as [p [_ ->]]. destruct (IH s') as [pre H].
  exists (p ++ pre). now rewrite <- app_assoc, <- H.
Qed.

Lemma tlg_fix ps : Forall (fun p => p <> []) ps ->
  forall fuel s, (length s <= fuel)%nat -> strip1 ps (trim_left_gen ps fuel s) = None.
Proof.
  intros Hne. induction fuel as [|f IH]; intros s Hl; cbn [trim_left_gen].
  - destruct s; [|cbn in Hl; lia]. apply strip1_none. apply Forall_forall. intros p Hp.
    rewrite Forall_forall in Hne. specialize (Hne p Hp). destruct p; [congruence | reflexivity].
  - destruct (strip1 ps s) as [s'|] eqn:E; [|exact E].
    apply IH. apply strip1_some in E as [p [Hp ->]]. rewrite Forall_forall in Hne. specialize (Hne p Hp).
    rewrite app_length in Hl. destruct p; [congruence | cbn [length] in Hl; lia].
Qed.

Lemma tlg_id ps fuel s : strip1 ps s = None -> trim_left_gen ps fuel s = s.
Proof. intros H. destruct fuel; cbn [trim_left_gen]; [reflexivity | now rewrite H]. Qed.

Definition rspace_runes : list str := map (@rev byte) space_runes.

(* no white-space rune at the front / at the end *)
Definition lclean (s : str) : Prop := strip1 space_runes s = None.
Definition rclean (s : str) : Prop := strip1 rspace_runes (rev s) = None.

Lemma space_runes_ne : Forall (fun p : str => p <> []) space_runes.
Proof. unfold space_runes. repeat constructor; discriminate. Qed.

Lemma rspace_runes_ne : Forall (fun p : str => p <> []) rspace_runes.
Proof. unfold rspace_runes, space_runes. cbn [map rev app]. repeat constructor; discriminate. Qed.

Lemma trim_id s : lclean s -> rclean s -> trim_space_u s = s.
Proof.
  intros L R. unfold trim_space_u, trim_left_u. rewrite (tlg_id _ _ _ L).
  unfold trim_right_u. fold rspace_runes. rewrite (tlg_id _ _ _ R). apply rev_involutive.
Qed.

Lemma trim_clean s : lclean (trim_space_u s) /\ rclean (trim_space_u s).
Proof.
  unfold trim_space_u. set (s1 := trim_left_u s).
  assert (L1 : lclean s1) by (apply (tlg_fix _ space_runes_ne); lia).
  unfold trim_right_u. fold rspace_runes. set (X := trim_left_gen rspace_runes (length s1) (rev s1)).
  split.
  - destruct (tlg_suffix rspace_runes (length s1) (rev s1)) as [pre H]. fold X in H.
    apply (f_equal (@rev byte)) in H. rewrite rev_involutive, rev_app_distr in H.
    unfold lclean in *. rewrite H in L1. now apply strip1_none_prefix in L1.
  - unfold rclean. rewrite rev_involutive. apply (tlg_fix _ rspace_runes_ne). rewrite rev_length. lia.
Qed.

Lemma trim_idem s : trim_space_u (trim_space_u s) = trim_space_u s.
Proof. destruct (trim_clean s). now apply trim_id. Qed.

Lemma trim_infix s : exists pre post, s = pre ++ trim_space_u s ++ post.
Proof.
  unfold trim_space_u, trim_left_u, trim_right_u.
  destruct (tlg_suffix space_runes (length s) s) as [pre H]. set (s1 := trim_left_gen space_runes (length s) s) in *.
  destruct (tlg_suffix (map (@rev byte) space_runes) (length s1) (rev s1)) as [post H2].
  apply (f_equal (@rev byte)) in H2. rewrite rev_involutive, rev_app_distr in H2.
  exists pre, (rev post). now rewrite <- H2.
Qed.

Lemma has_byte_app c a b : has_byte c (a ++ b) = has_byte c a || has_byte c b.
Proof. induction a as [|d a IH]; [reflexivity|]. cbn [app has_byte]. now rewrite IH, orb_assoc. Qed.

Lemma trim_nobyte c s : has_byte c s = false -> has_byte c (trim_space_u s) = false.
Proof.
  destruct (trim_infix s) as [pre [post H]]. intros Hc. rewrite H, !has_byte_app in Hc.
  apply orb_false_elim in Hc as [_ Hc]. now apply orb_false_elim in Hc as [Hc _].
Qed.

Lemma lclean_word c t : is_word c = true -> lclean (c :: t).
Proof. unfold lclean. intros H. destruct c; try discriminate H; reflexivity. Qed.

Lemma rclean_paren s : rclean (s ++ [")"%byte]).
Proof. unfold rclean. rewrite rev_unit. reflexivity. Qed.

(* ASCII white space only: trimmed to nothing *)
Lemma strip1_ascii_space c t : is_space c = true -> strip1 space_runes (c :: t) = Some t.
Proof. intros H. destruct c; try discriminate H; reflexivity. Qed.

Lemma tlg_ascii_spaces : forall sp fuel, forallb is_space sp = true -> (length sp <= fuel)%nat ->
  trim_left_gen space_runes fuel sp = [].
Proof.
  induction sp as [|c sp IH]; intros fuel H Hl.
  - now destruct fuel.
  - cbn [forallb] in H. apply andb_prop in H as [Hc Hs]. destruct fuel as [|f]; [cbn in Hl; lia|].
    cbn [trim_left_gen]. rewrite (strip1_ascii_space c sp Hc). apply IH; [exact Hs | cbn in Hl; lia].
Qed.

Lemma trim_ascii_spaces sp : forallb is_space sp = true -> trim_space_u sp = [].
Proof.
  intros H. unfold trim_space_u, trim_left_u. rewrite (tlg_ascii_spaces sp _ H) by lia. reflexivity.
Qed.

(* ---------- the pieces of parseLine ---------- *)

Lemma span_word_spec : forall s w r, span_word s = (w, r) ->
  s = w ++ r /\ forallb is_word w = true /\ match r with [] => True | c :: _ => is_word c = false end.
Proof.
  induction s as [|c t IH]; intros w r H; cbn [span_word] in H.
  - injection H as <- <-. auto.
  - destruct (is_word c) eqn:E.
    + destruct (span_word t) as [w' r'] eqn:E2. injection H as <- <-.
      destruct (IH _ _ eq_refl) as (H1 & H2 & H3). subst t. cbn [app forallb]. now rewrite E, H2.
    + injection H as <- <-. cbn. auto.
Qed.

Lemma span_word_app : forall w r, forallb is_word w = true ->
  match r with [] => True | c :: _ => is_word c = false end -> span_word (w ++ r) = (w, r).
Proof.
  induction w as [|c w IH]; intros r Hw Hr; cbn [app].
  - destruct r as [|d r]; [reflexivity|]. cbn [span_word]. now rewrite Hr.
  - cbn [forallb] in Hw. apply andb_prop in Hw as [Hc Hw]. cbn [span_word]. now rewrite Hc, (IH r Hw Hr).
Qed.

Lemma drop_re_space_spec : forall s, exists sp, s = sp ++ drop_re_space s /\ forallb is_re_space sp = true.
Proof.
  induction s as [|c t [sp [H1 H2]]]; [now exists []|]. cbn [drop_re_space].
  destruct (is_re_space c) eqn:E.
  - exists (c :: sp). cbn [app forallb]. now rewrite E, H2, <- H1.
  - now exists [].
Qed.

Lemma drop_re_space_app : forall sp r, forallb is_re_space sp = true ->
  match r with [] => True | c :: _ => is_re_space c = false end -> drop_re_space (sp ++ r) = r.
Proof.
  induction sp as [|c sp IH]; intros r Hs Hr; cbn [app].
  - destruct r as [|d r]; [reflexivity|]. cbn [drop_re_space]. now rewrite Hr.
  - cbn [forallb] in Hs. apply andb_prop in Hs as [Hc Hs]. cbn [drop_re_space]. now rewrite Hc, (IH r Hs Hr).
Qed.

Lemma unsnoc_spec s b c : unsnoc s = Some (b, c) <-> s = b ++ [c].
Proof.
  unfold unsnoc. split.
  - destruct (rev s) as [|d r] eqn:E; [discriminate|]. intros H. injection H as <- <-.
    apply (f_equal (@rev byte)) in E. rewrite rev_involutive in E. exact E.
  - intros ->. now rewrite rev_unit, rev_involutive.
Qed.

Lemma unsnoc_none s : unsnoc s = None <-> s = [].
Proof.
  unfold unsnoc. split.
  - destruct (rev s) eqn:E; [|discriminate]. intros _.
    apply (f_equal (@rev byte)) in E. now rewrite rev_involutive in E.
  - now intros ->.
Qed.

(* Split then Join is the identity, and no piece contains the separator *)
Lemma join_split sep : forall s, join sep (split_on sep s) = s /\ Forall (fun x => has_byte sep x = false) (split_on sep s)
                                 /\ split_on sep s <> [].
Proof.
  induction s as [|c t (IH1 & IH2 & IH3)]; [cbn; repeat split; [repeat constructor | discriminate]|].
  cbn [split_on]. destruct (Byte.eqb c sep) eqn:E.
  - apply byte_eqb_true in E. subst c. repeat split; [| constructor; [reflexivity | exact IH2] | discriminate].
    destruct (split_on sep t) as [|x r]; [congruence|]. rewrite join_cons2. cbn [app]. now rewrite IH1.
  - destruct (split_on sep t) as [|x r]; [congruence|]. repeat split; [| | discriminate].
    + destruct r as [|y r]; [cbn [join] in *; now rewrite IH1|]. rewrite join_cons2 in *. cbn [app]. now rewrite IH1.
    + inversion IH2; subst. constructor; [|assumption]. cbn [has_byte]. now rewrite E.
Qed.

(* ---------- the language of linePattern ---------- *)

Definition word (w : str) : Prop := w <> [] /\ forallb is_word w = true.         (* \w+ *)
Definition re_spaces (sp : str) : Prop := forallb is_re_space sp = true.          (* \s* *)
Definition field (f : str) : Prop := f <> [] /\ has_byte comma f = false.         (* [^,]+ *)

(* the three shapes ^(\w+)\s*\(([^,]+)\)$, ...,([^,]+)\)$ and ...,([^,]+),([^,]+)\)$ with what parseLine makes of
   the submatches (TrimSpace of groups 2-4; an unset group is "") *)
Inductive line_lang : str -> trule -> Prop :=
| LL1 w sp f1 : word w -> re_spaces sp -> field f1 ->
    line_lang (w ++ sp ++ "("%byte :: f1 ++ [")"%byte]) (mkTRule w (trim_space_u f1) [] [])
| LL2 w sp f1 f2 : word w -> re_spaces sp -> field f1 -> field f2 ->
    line_lang (w ++ sp ++ "("%byte :: f1 ++ comma :: f2 ++ [")"%byte]) (mkTRule w (trim_space_u f1) (trim_space_u f2) [])
| LL3 w sp f1 f2 f3 : word w -> re_spaces sp -> field f1 -> field f2 -> field f3 ->
    line_lang (w ++ sp ++ "("%byte :: f1 ++ comma :: f2 ++ comma :: f3 ++ [")"%byte])
              (mkTRule w (trim_space_u f1) (trim_space_u f2) (trim_space_u f3)).

Lemma nonempty_true (s : str) : nonempty s = true <-> s <> [].
Proof. destruct s; cbn; split; congruence. Qed.

Lemma re_space_not_word c : is_re_space c = true -> is_word c = false.
Proof. intros H. destruct c; try discriminate H; reflexivity. Qed.

(* the common part of the three shapes *)
Lemma parse_line_shape w sp fs :
  word w -> re_spaces sp -> fs <> [] -> Forall (fun f => has_byte comma f = false) fs ->
  parse_line (w ++ sp ++ "("%byte :: join comma fs ++ [")"%byte]) = parse_fields w fs.
Proof.
  intros [Hw1 Hw2] Hsp Hfs Hnc. unfold parse_line.
  rewrite (span_word_app w _ Hw2).
  - assert (nonempty w = true) as -> by now apply nonempty_true.
    rewrite (drop_re_space_app sp _ Hsp) by reflexivity. cbn [Byte.eqb].
    change (Byte.eqb "("%byte "("%byte) with true. cbv iota.
    assert (U : unsnoc (join comma fs ++ [")"%byte]) = Some (join comma fs, ")"%byte)) by now apply unsnoc_spec.
    rewrite U. change (Byte.eqb ")"%byte ")"%byte) with true. cbv iota.
    now rewrite split_join.
  - destruct sp as [|c sp]; [reflexivity|]. cbn [app]. cbn [forallb] in Hsp. apply andb_prop in Hsp as [Hc _].
    now apply re_space_not_word.
Qed.

Lemma parse_line_complete l t : line_lang l t -> parse_line l = Some t.
Proof.
  intros H. destruct H as [w sp f1 Hw Hs [N1 C1] | w sp f1 f2 Hw Hs [N1 C1] [N2 C2] | w sp f1 f2 f3 Hw Hs [N1 C1] [N2 C2] [N3 C3]].
  - change (f1 ++ [")"%byte]) with (join comma [f1] ++ [")"%byte]).
    rewrite (parse_line_shape w sp [f1] Hw Hs); [|discriminate | now repeat constructor].
    cbn [parse_fields]. apply nonempty_true in N1. now rewrite N1.
  - replace (f1 ++ comma :: f2 ++ [")"%byte]) with (join comma [f1; f2] ++ [")"%byte])
      by (cbn [join]; repeat (rewrite <- app_assoc; cbn [app]); reflexivity).
    rewrite (parse_line_shape w sp [f1; f2] Hw Hs); [|discriminate | now repeat constructor].
    cbn [parse_fields]. apply nonempty_true in N1, N2. now rewrite N1, N2.
  - replace (f1 ++ comma :: f2 ++ comma :: f3 ++ [")"%byte]) with (join comma [f1; f2; f3] ++ [")"%byte])
      by (cbn [join]; repeat (rewrite <- app_assoc; cbn [app]); reflexivity).
    rewrite (parse_line_shape w sp [f1; f2; f3] Hw Hs); [|discriminate | now repeat constructor].
    cbn [parse_fields]. apply nonempty_true in N1, N2, N3. now rewrite N1, N2, N3.
Qed.

Lemma parse_line_sound l t : parse_line l = Some t -> line_lang l t.
Proof.
  unfold parse_line. destruct (span_word l) as [w r1] eqn:E1.
  destruct (span_word_spec _ _ _ E1) as (Hl & Hw & _).
  destruct (nonempty w) eqn:Nw; [|discriminate]. apply nonempty_true in Nw.
  destruct (drop_re_space_spec r1) as [sp [Hr1 Hsp]].
  destruct (drop_re_space r1) as [|c r3]; [discriminate|].
  destruct (Byte.eqb c "("%byte) eqn:Ec; [|discriminate]. apply byte_eqb_true in Ec. subst c.
  destruct (unsnoc r3) as [[body last]|] eqn:Eu; [|discriminate]. apply unsnoc_spec in Eu.
  destruct (Byte.eqb last ")"%byte) eqn:El; [|discriminate]. apply byte_eqb_true in El. subst last.
  destruct (join_split comma body) as (Hj & Hnc & _).
  assert (Hline : l = w ++ sp ++ "("%byte :: join comma (split_on comma body) ++ [")"%byte])
    by (rewrite Hj, Hl, Hr1, Eu; reflexivity).
  assert (W : word w) by (split; assumption).
  intros Hp. destruct (split_on comma body) as [|f1 [|f2 [|f3 [|f4 r]]]]; cbn [parse_fields] in Hp; try discriminate.
  - destruct (nonempty f1) eqn:N1; [|discriminate]. injection Hp as <-. rewrite Hline. cbn [join].
    inversion Hnc; subst. apply LL1; auto. split; [now apply nonempty_true | assumption].
  - destruct (nonempty f1) eqn:N1; [|discriminate]. destruct (nonempty f2) eqn:N2; [|discriminate].
    injection Hp as <-. rewrite Hline. cbn [join]. rewrite <- app_assoc. cbn [app].
    inversion Hnc as [|? ? C1 Hnc']; subst. inversion Hnc' as [|? ? C2 _]; subst.
    apply LL2; auto; (split; [now apply nonempty_true | assumption]).
  - destruct (nonempty f1) eqn:N1; [|discriminate]. destruct (nonempty f2) eqn:N2; [|discriminate].
    destruct (nonempty f3) eqn:N3; [|discriminate].
    injection Hp as <-. rewrite Hline. cbn [join]. rewrite <- !app_assoc. cbn [app]. rewrite <- !app_assoc. cbn [app].
    inversion Hnc as [|? ? C1 Hnc']; subst. inversion Hnc' as [|? ? C2 Hnc'']; subst. inversion Hnc'' as [|? ? C3 _]; subst.
    apply LL3; auto; (split; [now apply nonempty_true | assumption]).
  - destruct (nonempty f1); [|discriminate]. destruct (nonempty f2); [|discriminate].
    destruct (nonempty f3); discriminate.
Qed.

(* the hand-written parser accepts exactly the language of the pattern, with the same submatches *)
Theorem parse_line_lang l t : parse_line l = Some t <-> line_lang l t.
Proof. split; [apply parse_line_sound | apply parse_line_complete]. Qed.

Theorem parse_line_rejects l : parse_line l = None <-> ~ exists t, line_lang l t.
Proof.
  split.
  - intros H [t Ht]. apply parse_line_complete in Ht. congruence.
  - intros H. destruct (parse_line l) as [t|] eqn:E; [|reflexivity]. exfalso. apply H. exists t. now apply parse_line_sound.
Qed.

(* some of the lines the pattern must reject, in the kernel: empty field, four fields, no fields, \v before the
   parenthesis, no outbound name, text after the closing parenthesis, no parentheses, a non-ASCII name,
   missing closing parenthesis, a space inside the name *)
Example rejected_lines :
  map parse_line
    [ [x61;x28;x62;x2c;x29]; [x61;x28;x2c;x62;x29]; [x61;x28;x29]; [x61;x28;x62;x2c;x63;x2c;x64;x2c;x65;x29];
      [x61;x0b;x28;x78;x29]; [x28;x78;x29]; [x61;x28;x78;x29;x20;x79]; [x61;x20;x78]; [xc3;xa9;x28;x78;x29];
      [x61;x28;x78]; [x61;x62;x20;x63;x28;x78;x29] ]
  = repeat None 11.
Proof. vm_compute. reflexivity. Qed.

(* ... and some it accepts: a parenthesis inside the address, \f and \r before the parenthesis, Unicode white
   space around a field, an empty middle field written as a space *)
Example accepted_lines :
  map parse_line
    [ [x61;x28;x62;x29;x63;x29]; [x61;x0c;x0d;x28;x78;x29]; [x61;x28;xc2;xa0;x78;xe3;x80;x80;x29];
      [x61;x28;x78;x2c;x20;x2c;x79;x29] ]
  = [ Some (mkTRule [x61] [x62;x29;x63] [] []); Some (mkTRule [x61] [x78] [] []); Some (mkTRule [x61] [x78] [] []);
      Some (mkTRule [x61] [x78] [] [x79]) ].
Proof. vm_compute. reflexivity. Qed.

(* ---------- the canonical printer ---------- *)

Definition clean_field (f : str) : Prop := has_byte comma f = false /\ trim_space_u f = f.

(* the rule records the parser can return *)
Definition wf_trule (t : trule) : Prop :=
  word (t_ob t) /\ clean_field (t_addr t) /\ clean_field (t_pp t) /\ clean_field (t_hijack t).

Lemma clean_field_trim f : has_byte comma f = false -> clean_field (trim_space_u f).
Proof. intros H. split; [now apply trim_nobyte | apply trim_idem]. Qed.

Lemma clean_field_nil : clean_field [].
Proof. split; reflexivity. Qed.

Theorem parse_line_image l t : parse_line l = Some t -> wf_trule t.
Proof.
  intros H. apply parse_line_sound in H.
  destruct H as [w sp f1 Hw Hs [N1 C1] | w sp f1 f2 Hw Hs [N1 C1] [N2 C2] | w sp f1 f2 f3 Hw Hs [N1 C1] [N2 C2] [N3 C3]];
    unfold wf_trule; cbn [t_ob t_addr t_pp t_hijack]; repeat split;
    try apply Hw; try apply trim_idem; try (now apply trim_nobyte); try reflexivity.
Qed.

Lemma fld_field f : has_byte comma f = false -> field (fld f).
Proof. intros H. destruct f; [split; [discriminate | reflexivity] | split; [discriminate | exact H]]. Qed.

Lemma trim_fld f : trim_space_u f = f -> trim_space_u (fld f) = f.
Proof. destruct f; [reflexivity | auto]. Qed.

Theorem print_parse t : wf_trule t -> parse_line (print_rule t) = Some t.
Proof.
  destruct t as [ob a pp hj]. unfold wf_trule. cbn [t_ob t_addr t_pp t_hijack].
  intros (Hw & [Ca Ta] & [Cp Tp] & [Ch Th]). apply parse_line_complete. unfold print_rule. cbn [t_ob t_addr t_pp t_hijack].
  destruct hj as [|h hj].
  - destruct pp as [|p pp].
    + pose proof (LL1 ob [] (fld a) Hw eq_refl (fld_field a Ca)) as H. rewrite (trim_fld a Ta) in H. exact H.
    + assert (Fp : field (p :: pp)) by (split; [discriminate | exact Cp]).
      pose proof (LL2 ob [] (fld a) (p :: pp) Hw eq_refl (fld_field a Ca) Fp) as H.
      rewrite (trim_fld a Ta), Tp in H. exact H.
  - assert (Fh : field (h :: hj)) by (split; [discriminate | exact Ch]).
    pose proof (LL3 ob [] (fld a) (fld pp) (h :: hj) Hw eq_refl (fld_field a Ca) (fld_field pp Cp) Fh) as H.
    rewrite (trim_fld a Ta), (trim_fld pp Tp), Th in H. cbn [app] in H |- *. rewrite <- app_assoc. exact H.
Qed.

(* round trip for every rule record the grammar accepts *)
Theorem line_round_trip l t : parse_line l = Some t -> parse_line (print_rule t) = Some t.
Proof. intros H. apply print_parse. now apply (parse_line_image l). Qed.

(* ---------- bytes that cannot occur in a parsed rule ---------- *)

Definition free (x : byte) (t : trule) : Prop :=
  has_byte x (t_ob t) = false /\ has_byte x (t_addr t) = false /\ has_byte x (t_pp t) = false /\ has_byte x (t_hijack t) = false.

Lemma parse_line_free x l t : parse_line l = Some t -> has_byte x l = false -> free x t.
Proof.
  intros H Hx. apply parse_line_sound in H.
  destruct H as [w sp f1 Hw Hs F1 | w sp f1 f2 Hw Hs F1 F2 | w sp f1 f2 f3 Hw Hs F1 F2 F3];
    unfold free; cbn [t_ob t_addr t_pp t_hijack];
    repeat (rewrite has_byte_app in Hx; cbn [has_byte] in Hx);
    repeat match goal with H : (_ || _) = false |- _ => apply orb_false_elim in H; destruct H end;
    repeat split; try (apply trim_nobyte); auto.
Qed.

Lemma print_rule_free x t :
  Byte.eqb "("%byte x = false -> Byte.eqb ")"%byte x = false -> Byte.eqb comma x = false -> Byte.eqb x20 x = false ->
  free x t -> has_byte x (print_rule t) = false.
Proof.
  intros E1 E2 E3 E4 (H1 & H2 & H3 & H4). unfold print_rule.
  assert (F : forall f, has_byte x f = false -> has_byte x (fld f) = false).
  { intros [|c f] Hf; [cbn [fld has_byte]; now rewrite E4 | exact Hf]. }
  destruct (t_hijack t) as [|h hj] eqn:Eh.
  - destruct (t_pp t) as [|p pp] eqn:Ep; cbn [has_byte] in H3;
      rewrite !has_byte_app; cbn [has_byte]; rewrite ?has_byte_app; cbn [has_byte];
      rewrite H1, (F _ H2), E1, E2, ?E3, ?H3; reflexivity.
  - cbn [has_byte] in H4.
    rewrite !has_byte_app. cbn [has_byte]. rewrite !has_byte_app. cbn [has_byte]. rewrite !has_byte_app. cbn [has_byte].
    rewrite H1, (F _ H2), (F _ H3), H4, E1, E2, E3. reflexivity.
Qed.

(* ---------- ParseTextRules: lines ---------- *)

(* a line that ParseTextRules accepts: nothing left after comment removal and trimming, or a rule *)
Definition line_ok (l : str) : Prop := nonempty (clean_line l) = false \/ parse_line (clean_line l) <> None.

(* line i (counted from 0) of ls carries the rule t *)
Definition rule_at (ls : list str) (i : nat) (t : trule) : Prop :=
  exists l, nth_error ls i = Some l /\ nonempty (clean_line l) = true /\ parse_line (clean_line l) = Some t.

Lemma rule_at_0 l ls t : rule_at (l :: ls) 0 t <-> nonempty (clean_line l) = true /\ parse_line (clean_line l) = Some t.
Proof.
  unfold rule_at. cbn [nth_error]. split.
  - intros [l' [H1 H2]]. injection H1 as <-. exact H2.
  - intros H. exists l. auto.
Qed.

Lemma rule_at_S l ls i t : rule_at (l :: ls) (S i) t <-> rule_at ls i t.
Proof. reflexivity. Qed.

Lemma rule_at_fun ls i t t' : rule_at ls i t -> rule_at ls i t' -> t = t'.
Proof. intros [l [H1 [_ H2]]] [l' [H1' [_ H2']]]. congruence. Qed.

Definition lnum_lt (a b : nat * trule) : Prop := (fst a < fst b)%nat.

Lemma parse_lines_rules : forall ls base lrs, parse_lines ls base = PRules lrs ->
  (forall n t, In (n, t) lrs <-> exists i, n = (base + i)%nat /\ rule_at ls i t) /\
  StronglySorted lnum_lt lrs /\ Forall (fun x => (base <= fst x)%nat) lrs /\ Forall line_ok ls.
Proof.
  induction ls as [|l ls IH]; intros base lrs H; cbn [parse_lines] in H.
  - injection H as <-. repeat split; try constructor.
    + intros [].
    + intros [i [_ [l [Hl _]]]]. destruct i; discriminate.
  - destruct (nonempty (clean_line l)) eqn:N.
    + destruct (parse_line (clean_line l)) as [r|] eqn:P; [|discriminate].
      destruct (parse_lines ls (S base)) as [rs|] eqn:R; [|discriminate]. injection H as <-.
      destruct (IH _ _ R) as (I1 & I2 & I3 & I4). repeat split.
      * intros [Hin|Hin].
        -- injection Hin as <- <-. exists O. split; [lia | now apply rule_at_0].
        -- apply I1 in Hin as [i [-> Hi]]. exists (S i). split; [lia | exact Hi].
      * intros [[|i] [-> Hi]].
        -- apply rule_at_0 in Hi as [_ Hi]. left. rewrite Nat.add_0_r. congruence.
        -- right. apply I1. exists i. split; [lia | exact Hi].
      * constructor; [exact I2|]. eapply Forall_impl; [|exact I3]. intros [n t] Hn. unfold lnum_lt. cbn [fst] in *. lia.
      * constructor; [cbn [fst]; lia|]. eapply Forall_impl; [|exact I3]. intros [n t] Hn. cbn [fst] in *. lia.
      * constructor; [|exact I4]. right. congruence.
    + destruct (IH _ _ H) as (I1 & I2 & I3 & I4). repeat split.
      * intros Hin. apply I1 in Hin as [i [-> Hi]]. exists (S i). split; [lia | exact Hi].
      * intros [[|i] [-> Hi]].
        -- apply rule_at_0 in Hi as [Hi _]. congruence.
        -- apply I1. exists i. split; [lia | exact Hi].
      * exact I2.
      * eapply Forall_impl; [|exact I3]. intros [n t] Hn. cbn [fst] in *. lia.
      * constructor; [|exact I4]. now left.
Qed.

Lemma parse_lines_error : forall ls base n c, parse_lines ls base = PSyntax n c ->
  exists i l, n = (base + i)%nat /\ nth_error ls i = Some l /\ c = clean_line l /\ nonempty c = true /\
              parse_line c = None /\ Forall line_ok (firstn i ls).
Proof.
  induction ls as [|l ls IH]; intros base n c H; cbn [parse_lines] in H; [discriminate|].
  destruct (nonempty (clean_line l)) eqn:N.
  - destruct (parse_line (clean_line l)) as [r|] eqn:P.
    + destruct (parse_lines ls (S base)) as [rs|n' c'] eqn:R; [discriminate|]. injection H as <- <-.
      destruct (IH _ _ _ R) as (i & l' & -> & H2 & H3 & H4 & H5 & H6).
      exists (S i), l'. split; [lia|]. split; [exact H2|]. split; [exact H3|]. split; [exact H4|]. split; [exact H5|].
      cbn [firstn]. constructor; [|exact H6]. right. congruence.
    + injection H as <- <-. exists O, l. split; [lia|]. repeat split; auto. constructor.
  - destruct (IH _ _ _ H) as (i & l' & -> & H2 & H3 & H4 & H5 & H6).
    exists (S i), l'. split; [lia|]. split; [exact H2|]. split; [exact H3|]. split; [exact H4|]. split; [exact H5|].
    cbn [firstn]. constructor; [now left | exact H6].
Qed.

Lemma parse_lines_ok : forall ls base, Forall line_ok ls -> exists lrs, parse_lines ls base = PRules lrs.
Proof.
  induction ls as [|l ls IH]; intros base H; [now exists []|]. inversion H as [|? ? Hl Hls]; subst.
  cbn [parse_lines]. destruct (IH (S base) Hls) as [rs R]. destruct (nonempty (clean_line l)) eqn:N.
  - destruct Hl as [Hl|Hl]; [congruence|]. destruct (parse_line (clean_line l)) as [r|]; [|congruence].
    rewrite R. now eexists.
  - rewrite R. now eexists.
Qed.

(* ---------- comments and blank lines ---------- *)

Lemma strip_comment_nohash l : has_byte hash l = false -> strip_comment l = l.
Proof.
  induction l as [|c l IH]; [reflexivity|]. cbn [has_byte strip_comment]. intros H.
  apply orb_false_elim in H as [H1 H2]. now rewrite H1, (IH H2).
Qed.

Lemma strip_comment_app l c : has_byte hash l = false -> strip_comment (l ++ hash :: c) = l.
Proof.
  induction l as [|d l IH]; cbn [app has_byte strip_comment].
  - intros _. unfold hash. now rewrite byte_eqb_refl.
  - intros H. apply orb_false_elim in H as [H1 H2]. now rewrite H1, (IH H2).
Qed.

Lemma strip_comment_free l : has_byte hash (strip_comment l) = false.
Proof.
  induction l as [|c l IH]; [reflexivity|]. cbn [strip_comment]. destruct (Byte.eqb c hash) eqn:E; [reflexivity|].
  cbn [has_byte]. now rewrite E.
Qed.

Lemma strip_comment_sub x l : has_byte x l = false -> has_byte x (strip_comment l) = false.
Proof.
  induction l as [|c l IH]; [reflexivity|]. cbn [has_byte strip_comment]. intros H.
  apply orb_false_elim in H as [H1 H2]. destruct (Byte.eqb c hash); [reflexivity|]. cbn [has_byte]. now rewrite H1, IH.
Qed.

(* an inline comment changes nothing *)
Theorem comment_ignored l c : has_byte hash l = false -> clean_line (l ++ hash :: c) = clean_line l.
Proof. intros H. unfold clean_line. now rewrite (strip_comment_app l c H), (strip_comment_nohash l H). Qed.

Lemma space_not_hash sp : forallb is_space sp = true -> has_byte hash sp = false.
Proof.
  induction sp as [|c sp IH]; [reflexivity|]. cbn [forallb has_byte]. intros H. apply andb_prop in H as [Hc Hs].
  rewrite (IH Hs), orb_false_r. destruct c; try discriminate Hc; reflexivity.
Qed.

(* a line of white space, or white space and a comment, is blank *)
Theorem comment_line_blank sp c : forallb is_space sp = true -> clean_line (sp ++ hash :: c) = [] /\ clean_line sp = [].
Proof.
  intros H. unfold clean_line.
  rewrite (strip_comment_app sp c (space_not_hash sp H)), (strip_comment_nohash sp (space_not_hash sp H)).
  split; now apply trim_ascii_spaces.
Qed.

Definition rules_only (r : presult) : option (list trule) :=
  match r with PRules l => Some (map snd l) | PSyntax _ _ => None end.

Lemma rules_only_step r n (p : presult) :
  rules_only (match p with PRules rs => PRules ((n, r) :: rs) | e => e end) = option_map (cons r) (rules_only p).
Proof. now destruct p. Qed.

Lemma rules_only_base : forall ls b b', rules_only (parse_lines ls b) = rules_only (parse_lines ls b').
Proof.
  induction ls as [|l ls IH]; intros b b'; [reflexivity|]. cbn [parse_lines].
  destruct (nonempty (clean_line l)); [|apply IH].
  destruct (parse_line (clean_line l)); [|reflexivity]. specialize (IH (S b) (S b')).
  destruct (parse_lines ls (S b)), (parse_lines ls (S b')); cbn [rules_only map snd] in *; congruence.
Qed.

(* a blank or comment-only line can be deleted (or inserted) anywhere: same rules in the same order, only
   the line numbers of the later rules shift *)
Theorem blank_line_ignored : forall pre l post b, nonempty (clean_line l) = false ->
  rules_only (parse_lines (pre ++ l :: post) b) = rules_only (parse_lines (pre ++ post) b).
Proof.
  induction pre as [|p pre IH]; intros l post b N; cbn [app parse_lines].
  - rewrite N. apply rules_only_base.
  - destruct (nonempty (clean_line p)); [|now apply IH].
    destruct (parse_line (clean_line p)); [|reflexivity]. specialize (IH l post (S b) N).
    destruct (parse_lines (pre ++ l :: post) (S b)), (parse_lines (pre ++ post) (S b)); cbn [rules_only map snd] in *; congruence.
Qed.

(* ---------- round trip of whole files ---------- *)

Lemma nth_error_split_free sep text i l : nth_error (split_on sep text) i = Some l -> has_byte sep l = false.
Proof.
  intros H. apply nth_error_In in H. destruct (join_split sep text) as (_ & F & _).
  rewrite Forall_forall in F. now apply F.
Qed.

Lemma clean_line_sub x l : has_byte x l = false -> has_byte x (clean_line l) = false.
Proof. intros H. unfold clean_line. apply trim_nobyte. now apply strip_comment_sub. Qed.

Lemma clean_line_nohash l : has_byte hash (clean_line l) = false.
Proof. unfold clean_line. apply trim_nobyte. apply strip_comment_free. Qed.

(* what ParseTextRules returns: records the printer round-trips, free of '#' and of newlines *)
Definition file_rule_ok (t : trule) : Prop := wf_trule t /\ free hash t /\ free newline t.

Lemma parse_text_rules_ok text lrs : parse_text text = PRules lrs -> Forall file_rule_ok (map snd lrs).
Proof.
  intros H. apply parse_lines_rules in H as (H1 & _). apply Forall_forall. intros t Ht.
  apply in_map_iff in Ht as [[n t'] [<- Hin]]. cbn [snd].
  apply H1 in Hin as [i [_ [l (Hl & N & P)]]]. split; [|split].
  - apply (parse_line_image _ _ P).
  - apply (parse_line_free hash _ _ P (clean_line_nohash l)).
  - apply (parse_line_free newline _ _ P (clean_line_sub _ _ (nth_error_split_free _ _ _ _ Hl))).
Qed.

Lemma print_rule_clean t : wf_trule t -> free hash t -> clean_line (print_rule t) = print_rule t.
Proof.
  intros W F. unfold clean_line.
  rewrite strip_comment_nohash by (apply print_rule_free; auto; reflexivity).
  apply trim_id.
  - destruct W as ([Hne Hw] & _). unfold print_rule. destruct (t_ob t) as [|c w]; [congruence|].
    cbn [app]. apply lclean_word. cbn [forallb] in Hw. now apply andb_prop in Hw as [Hc _].
  - unfold print_rule. rewrite app_comm_cons, !app_assoc. apply rclean_paren.
Qed.

Lemma print_rule_nonempty t : nonempty (print_rule t) = true.
Proof.
  unfold print_rule. apply nonempty_true. intros H. apply (f_equal (@length byte)) in H.
  rewrite !app_length in H. cbn [length] in H. rewrite !app_length in H. cbn [length] in H. lia.
Qed.

Lemma parse_lines_print : forall ts base, Forall file_rule_ok ts ->
  parse_lines (map print_rule ts) base = PRules (combine (seq base (length ts)) ts).
Proof.
  induction ts as [|t ts IH]; intros base H; [reflexivity|]. inversion H as [|? ? (W & Fh & Fn) Hts]; subst.
  cbn [map parse_lines length seq combine]. rewrite (print_rule_clean t W Fh), print_rule_nonempty, (print_parse t W).
  now rewrite (IH (S base) Hts).
Qed.

(* printing the rules ParseTextRules returned, one per line, and parsing that text again yields the same
   rules in the same order, on lines 1, 2, ... *)
Theorem file_round_trip text lrs : parse_text text = PRules lrs ->
  parse_text (print_file (map snd lrs)) = PRules (combine (seq 1 (length lrs)) (map snd lrs)).
Proof.
  intros H. pose proof (parse_text_rules_ok _ _ H) as Hok. unfold parse_text, print_file.
  destruct (map snd lrs) as [|t ts] eqn:E.
  - apply (f_equal (@length trule)) in E. rewrite map_length in E. destruct lrs; [reflexivity | discriminate].
  - rewrite split_join.
    + rewrite (parse_lines_print _ 1 Hok). rewrite <- E at 1. now rewrite map_length.
    + discriminate.
    + apply Forall_forall. intros x Hx. apply in_map_iff in Hx as [t' [<- Ht']].
      rewrite Forall_forall in Hok. destruct (Hok t' Ht') as (W & Fh & Fn). apply print_rule_free; auto; reflexivity.
Qed.

(* ---------- Compile (ParseTextRules text): first match on rule FILES ---------- *)

(* line n (counted from 1, as ParseTextRules and the error messages count) of the file carries the rule t *)
Definition file_rule (text : str) (n : nat) (t : trule) : Prop :=
  (1 <= n)%nat /\ rule_at (split_on newline text) (n - 1) t.

Lemma parse_text_in text lrs : parse_text text = PRules lrs ->
  (forall n t, In (n, t) lrs <-> file_rule text n t) /\ StronglySorted lnum_lt lrs.
Proof.
  intros H. apply parse_lines_rules in H as (H1 & H2 & _). split; [|exact H2].
  intros n t. rewrite H1. unfold file_rule. split.
  - intros [i [-> Hi]]. split; [lia|]. now replace (1 + i - 1)%nat with i by lia.
  - intros [Hn Hr]. exists (n - 1)%nat. split; [lia | exact Hr].
Qed.

(* Compile o ParseTextRules keeps file order: the compiled rules are the compilations of the rule lines, in
   increasing line order *)
Theorem compile_text_order obs text csize rs : compile_text obs text csize = Ok rs ->
  exists lrs, parse_text text = PRules lrs /\
              (forall n t, In (n, t) lrs <-> file_rule text n t) /\ StronglySorted lnum_lt lrs /\
              Forall2 (fun lt r => compile_rule obs (snd lt) = Ok r) lrs rs.
Proof.
  unfold compile_text. destruct (parse_text text) as [lrs|] eqn:P; [|discriminate]. intros H.
  exists lrs. destruct (parse_text_in _ _ P) as [H1 H2]. split; [reflexivity|]. split; [exact H1|]. split; [exact H2|].
  apply compile_order in H. clear P H1 H2. revert rs H.
  induction lrs as [|x lrs IH]; intros rs H; cbn [map] in H; inversion H; subst; constructor; auto.
Qed.

Lemma sorted_app_lt (l1 : list (nat * trule)) x l2 : StronglySorted lnum_lt (l1 ++ x :: l2) ->
  forall y, In y (l1 ++ x :: l2) -> (fst y < fst x)%nat -> In y l1.
Proof.
  induction l1 as [|a l1 IH]; intros S y Hy Hlt; cbn [app] in *.
  - inversion S as [|? ? _ Hall]; subst. destruct Hy as [<-|Hy]; [lia|].
    rewrite Forall_forall in Hall. specialize (Hall y Hy). unfold lnum_lt in Hall. lia.
  - inversion S as [|? ? S' Hall]; subst. destruct Hy as [<-|Hy]; [now left|]. right. now apply IH.
Qed.

Lemma Forall2_In_l {A B} (R : A -> B -> Prop) l1 l2 x : Forall2 R l1 l2 -> In x l1 -> exists y, In y l2 /\ R x y.
Proof.
  induction 1 as [|a b l1 l2 Hab Hl IH]; intros Hin; [destruct Hin|]. destruct Hin as [<-|Hin].
  - exists b. split; [now left | exact Hab].
  - destruct (IH Hin) as [y [Hy Hr]]. exists y. split; [now right | exact Hr].
Qed.

(* first match, on the text of a rule file: the decision is that of the rule on the smallest-numbered line
   whose compiled rule matches; no such line = no decision (the engine then uses the default outbound) *)
Theorem file_first_match obs text csize rs q :
  compile_text obs text csize = Ok rs ->
  let h := norm_host (q_host q) in
  (exists n t r,
      file_rule text n t /\ compile_rule obs t = Ok r /\ rule_match r h (q_proto q) (q_port q) = true /\
      (forall n' t' r', (n' < n)%nat -> file_rule text n' t' -> compile_rule obs t' = Ok r' ->
                        rule_match r' h (q_proto q) (q_port q) = false) /\
      fresh rs q = (Some (r_ob r), r_hijack r))
  \/ ((forall n t r, file_rule text n t -> compile_rule obs t = Ok r -> rule_match r h (q_proto q) (q_port q) = false) /\
      fresh rs q = (None, [])).
Proof.
  intros H h. destruct (compile_text_order _ _ _ _ H) as (lrs & P & Hin & Hs & F2).
  destruct (fresh_spec rs q) as [(pre & r & post & -> & Hpre & Hr & Hf) | [Hall Hf]].
  - left. apply Forall2_app_inv_r in F2 as (lpre & lrest & F2a & F2b & ->).
    inversion F2b as [|[n t] ? lpost ? Hc F2c]; subst. cbn [snd] in Hc.
    exists n, t, r. split; [apply Hin; apply in_or_app; right; now left|].
    split; [exact Hc|]. split; [exact Hr|]. split; [|exact Hf].
    + intros n' t' r' Hlt Hfr Hc'. apply Hin in Hfr.
      pose proof (sorted_app_lt lpre (n, t) lpost Hs (n', t') Hfr Hlt) as Hp.
      destruct (Forall2_In_l _ _ _ _ F2a Hp) as [r'' [Hr'' Hc'']]. cbn [snd] in Hc''.
      assert (r'' = r') by congruence. subst. rewrite Forall_forall in Hpre. now apply Hpre.
  - right. split; [|exact Hf]. intros n t r Hfr Hc. apply Hin in Hfr.
    destruct (Forall2_In_l _ _ _ _ F2 Hfr) as [r'' [Hr'' Hc'']]. cbn [snd] in Hc''.
    assert (r'' = r) by congruence. subst. rewrite Forall_forall in Hall. now apply Hall.
Qed.

(* a file with a line that is neither blank, comment nor rule is rejected as a whole, and so is a file with a rule
   line Compile refuses *)
Theorem compile_text_rejects obs text csize :
  (exists n l, nth_error (split_on newline text) n = Some l /\ ~ line_ok l) -> compile_text obs text csize = Err EInvalid.
Proof.
  intros (n & l & Hn & Hbad). unfold compile_text, parse_text.
  destruct (parse_lines (split_on newline text) 1) as [lrs|] eqn:P; [|reflexivity].
  apply parse_lines_rules in P as (_ & _ & _ & F). rewrite Forall_forall in F. exfalso. apply Hbad, F.
  now apply nth_error_In in Hn.
Qed.

(* ---------- statements used by props/C09.v ---------- *)

Lemma line_round_trip_wf l t : parse_line l = Some t -> wf_trule t /\ parse_line (print_rule t) = Some t.
Proof. intros H. split; [now apply (parse_line_image l) | now apply (line_round_trip l)]. Qed.

Lemma file_rules text lrs : parse_text text = PRules lrs ->
  (forall n t, In (n, t) lrs <-> file_rule text n t) /\ StronglySorted lnum_lt lrs /\
  Forall line_ok (split_on newline text).
Proof.
  intros H. destruct (parse_text_in _ _ H) as [H1 H2]. split; [exact H1|]. split; [exact H2|].
  now apply parse_lines_rules in H as (_ & _ & _ & H).
Qed.

Lemma file_error text n c : parse_text text = PSyntax n c ->
  exists i l, n = (1 + i)%nat /\ nth_error (split_on newline text) i = Some l /\ c = clean_line l /\ nonempty c = true /\
              parse_line c = None /\ Forall line_ok (firstn i (split_on newline text)).
Proof. apply parse_lines_error. Qed.

Lemma file_total text : Forall line_ok (split_on newline text) -> exists lrs, parse_text text = PRules lrs.
Proof. apply parse_lines_ok. Qed.

(* ---------- an example file, in the kernel ---------- *)

(* "# rules\n\n  b (1.2.3.0/24 , tcp/80)  # web\na(suffix:x.y)\n" *)
Definition ex_file : str :=
  [x23;x20;x72;x75;x6c;x65;x73;x0a; x0a;
   x20;x20;x62;x20;x28;x31;x2e;x32;x2e;x33;x2e;x30;x2f;x32;x34;x20;x2c;x20;x74;x63;x70;x2f;x38;x30;x29;x20;x20;x23;x20;x77;x65;x62;x0a;
   x61;x28;x73;x75;x66;x66;x69;x78;x3a;x78;x2e;x79;x29;x0a].

Example ex_file_parses :
  parse_text ex_file =
  PRules [(3%nat, mkTRule [x62] [x31;x2e;x32;x2e;x33;x2e;x30;x2f;x32;x34] [x74;x63;x70;x2f;x38;x30] []);
          (4%nat, mkTRule [x61] [x73;x75;x66;x66;x69;x78;x3a;x78;x2e;x79] [] [])].
Proof. vm_compute. reflexivity. Qed.

Example ex_file_compiles : exists rs, compile_text ex_obs ex_file 16 = Ok rs /\ length rs = 2%nat.
Proof. eexists. split; vm_compute; reflexivity. Qed.
