(* C10 proofs: the negotiation decision functions equal the lattice specification, bounds,
   fall-back, reported = enforced below 2^63 (and its refutation above), header codec. *)
From Hy Require Import model.C10_Negotiate.
From Coq Require Import ZArith Lia ZifyBool ZifyNat ZifyN Bool.
Ltac Zify.zify_post_hook ::= Z.div_mod_to_equations.
Local Open Scope N_scope.

Ltac bdestr :=
  repeat match goal with
  | |- context [N.eqb ?a ?b] => destruct (N.eqb_spec a b)
  | |- context [N.ltb ?a ?b] => destruct (N.ltb_spec a b)
  | |- context [N.leb ?a ?b] => destruct (N.leb_spec a b)
  | H : context [N.eqb ?a ?b] |- _ => destruct (N.eqb_spec a b)
  | H : context [N.ltb ?a ?b] |- _ => destruct (N.ltb_spec a b)
  | H : context [N.leb ?a ?b] |- _ => destruct (N.leb_spec a b)
  end; cbn [andb orb negb fst snd] in *.

(* ------------------------------------------------------------------ decisions = specification *)

Lemma server_spec c rx : fst (server_decide c rx) = spec_server c rx.
Proof.
  unfold server_decide, spec_server, spec_rate, server_value, client_value.
  destruct (s_ignore c); [reflexivity|].
  bdestr; bdestr; try reflexivity; try lia; cbn [fst]; f_equal; lia.
Qed.

Lemma client_spec c r : fst (client_decide c r) = spec_client c r.
Proof.
  unfold client_decide, spec_client, spec_rate, server_declared, server_value, client_value.
  destruct (r_auto r).
  - cbn [fst]. bdestr; reflexivity.
  - bdestr; bdestr; try reflexivity; try lia; cbn [fst]; f_equal; lia.
Qed.

Lemma server_reported c rx : snd (server_decide c rx) = reported (fst (server_decide c rx)).
Proof.
  unfold server_decide, reported. destruct (s_ignore c); [reflexivity|].
  bdestr; bdestr; try reflexivity; try lia.
Qed.

Lemma client_reported c r : snd (client_decide c r) = reported (fst (client_decide c r)).
Proof.
  unfold client_decide, reported. destruct (r_auto r); [reflexivity|].
  bdestr; bdestr; try reflexivity; try lia.
Qed.

(* ------------------------------------------------------------------ never exceeds *)

Lemma server_never_exceeds c rx r :
  fst (server_decide c rx) = Brutal r ->
  s_ignore c = false /\ 0 < r /\ 0 < rx /\ r <= rx /\ (0 < s_max_tx c -> r <= s_max_tx c) /\
  (r = rx \/ r = s_max_tx c).
Proof.
  unfold server_decide. destruct (s_ignore c); [discriminate|].
  bdestr; bdestr; cbn [fst]; intros E; inversion E; subst; lia.
Qed.

Lemma client_never_exceeds c resp r :
  fst (client_decide c resp) = Brutal r ->
  r_auto resp = false /\ 0 < r /\ 0 < c_max_tx c /\ r <= c_max_tx c /\
  (0 < r_rx resp -> r <= r_rx resp) /\ (r = c_max_tx c \/ r = r_rx resp).
Proof.
  unfold client_decide. destruct (r_auto resp); [discriminate|].
  bdestr; bdestr; cbn [fst]; intros E; inversion E; subst; lia.
Qed.

(* ------------------------------------------------------------------ falls back *)

Lemma server_falls_back c rx :
  fst (server_decide c rx) = Configured <-> (s_ignore c = true \/ rx = 0).
Proof.
  unfold server_decide. destruct (s_ignore c); [cbn; tauto|].
  bdestr; bdestr; cbn [fst]; split; intros HH; try discriminate; try reflexivity;
    try (right; lia); destruct HH as [HH|HH]; try discriminate; lia.
Qed.

Lemma client_falls_back c resp :
  fst (client_decide c resp) = Configured <-> (r_auto resp = true \/ c_max_tx c = 0).
Proof.
  unfold client_decide. destruct (r_auto resp); [cbn; tauto|].
  bdestr; bdestr; cbn [fst]; split; intros HH; try discriminate; try reflexivity;
    try (right; lia); destruct HH as [HH|HH]; try discriminate; lia.
Qed.

(* ------------------------------------------------------------------ reported = enforced *)

Lemma to_i64_small r : r < 9223372036854775808 -> to_i64 r = Z.of_N r.
Proof. unfold to_i64. intros H. destruct (N.ltb_spec r 9223372036854775808); [reflexivity|lia]. Qed.

Lemma to_i64_iff r : r <= MaxU64 -> (to_i64 r = Z.of_N r <-> r < 9223372036854775808).
Proof.
  unfold to_i64, MaxU64. intros Hr.
  destruct (N.ltb_spec r 9223372036854775808); split; intros; try reflexivity; lia.
Qed.

Lemma to_i64_neg r : 9223372036854775808 <= r -> r <= MaxU64 -> (to_i64 r < 0)%Z.
Proof.
  unfold to_i64, MaxU64. intros H1 H2.
  destruct (N.ltb_spec r 9223372036854775808); lia.
Qed.

Lemma server_reported_is_enforced c vals :
  let so := server_auth c vals in
  so_connect_tx so = reported (so_decision so) /\
  so_installed so = install (so_decision so) (s_type c) /\
  ((forall r, so_decision so = Brutal r -> r < 9223372036854775808) ->
   enforced_as_reported (so_decision so) (s_type c) (so_installed so) (so_connect_tx so)).
Proof.
  unfold server_auth.
  pose proof (server_reported c (req_from_header vals)) as Hr.
  destruct (server_decide c (req_from_header vals)) as [d tx] eqn:E. cbn [fst snd] in Hr.
  cbn [so_connect_tx so_decision so_installed]. repeat split; auto.
  intros Hb. unfold enforced_as_reported. destruct d as [r|]; cbn [reported] in Hr; subst tx.
  - split; [reflexivity|]. cbn [install]. unfold use_brutal. rewrite to_i64_small; auto.
  - split; reflexivity.
Qed.

Lemma client_reported_is_enforced c vals :
  let co := client_connect c vals in
  co_info_tx co = reported (co_decision co) /\
  co_installed co = install (co_decision co) (c_type c) /\
  ((forall r, co_decision co = Brutal r -> r < 9223372036854775808) ->
   enforced_as_reported (co_decision co) (c_type c) (co_installed co) (co_info_tx co)).
Proof.
  unfold client_connect.
  pose proof (client_reported c (resp_from_header vals)) as Hr.
  destruct (client_decide c (resp_from_header vals)) as [d tx] eqn:E. cbn [fst snd] in Hr.
  cbn [co_info_tx co_decision co_installed]. repeat split; auto.
  intros Hb. unfold enforced_as_reported. destruct d as [r|]; cbn [reported] in Hr; subst tx.
  - split; [reflexivity|]. cbn [install]. unfold use_brutal. rewrite to_i64_small; auto.
  - split; reflexivity.
Qed.

(* whatever the client's header says, a server with 0 < MaxTx < 2^63 enforces a rate in (0, MaxTx] *)
Lemma server_enforced_bounded c vals b :
  0 < s_max_tx c -> s_max_tx c < 9223372036854775808 ->
  so_installed (server_auth c vals) = IBrutal b ->
  (0 < b <= Z.of_N (s_max_tx c))%Z /\ Z.of_N (so_connect_tx (server_auth c vals)) = b.
Proof.
  intros H0 H1. unfold server_auth.
  pose proof (server_reported c (req_from_header vals)) as Hr.
  destruct (server_decide c (req_from_header vals)) as [d tx] eqn:E. cbn [fst snd] in Hr.
  cbn [so_installed so_connect_tx].
  destruct d as [r|].
  - pose proof (server_never_exceeds c (req_from_header vals) r) as Hn. rewrite E in Hn.
    specialize (Hn eq_refl). cbn [install reported] in *. unfold use_brutal. subst tx.
    rewrite to_i64_small by lia. intros I; inversion I; subst. lia.
  - cbn [install]. destruct (s_type c); discriminate.
Qed.

Lemma client_enforced_bounded c vals b :
  c_max_tx c < 9223372036854775808 ->
  co_installed (client_connect c vals) = IBrutal b ->
  (0 < b <= Z.of_N (c_max_tx c))%Z /\ Z.of_N (co_info_tx (client_connect c vals)) = b.
Proof.
  intros H1. unfold client_connect.
  pose proof (client_reported c (resp_from_header vals)) as Hr.
  destruct (client_decide c (resp_from_header vals)) as [d tx] eqn:E. cbn [fst snd] in Hr.
  cbn [co_installed co_info_tx].
  destruct d as [r|].
  - pose proof (client_never_exceeds c (resp_from_header vals) r) as Hn. rewrite E in Hn.
    specialize (Hn eq_refl). cbn [install reported] in *. unfold use_brutal. subst tx.
    rewrite to_i64_small by lia. intros I; inversion I; subst. lia.
  - cbn [install]. destruct (c_type c); discriminate.
Qed.

(* the finding: above 2^63 the reported rate is not the enforced one *)
Lemma reported_is_enforced_refuted :
  exists (c : server_cfg) (vals : list (list byte)) (r : N) (b : Z),
    server_cfg_ok c = true /\ s_ignore c = false /\
    so_decision (server_auth c vals) = Brutal r /\
    so_connect_tx (server_auth c vals) = r /\
    so_installed (server_auth c vals) = IBrutal b /\
    (b < 0)%Z /\ Z.of_N r <> b.
Proof.
  exists (mkSrv false 0 0 TBbr), [str_max], MaxU64, (-1)%Z.
  vm_compute. repeat split; try reflexivity; discriminate.
Qed.

(* exactly when: any negotiated rate at or above 2^63 is installed as a negative ByteCount *)
Lemma brutal_above_2p63 r :
  r <= MaxU64 ->
  (install (Brutal r) TBbr = IBrutal (Z.of_N r) <-> r < 9223372036854775808).
Proof.
  intros Hr. cbn [install]. unfold use_brutal. rewrite <- (to_i64_iff r Hr).
  split; intros H; [inversion H; congruence | congruence].
Qed.

(* ------------------------------------------------------------------ decimal codec *)

Lemma dval_acc_ge a s : a <= dval_acc a s.
Proof.
  revert a. induction s as [|c t IH]; intros a; cbn; [lia|].
  specialize (IH (dstep a c)). unfold dval_acc in IH. unfold dstep in *. lia.
Qed.

Lemma dval_acc_app a s1 s2 : dval_acc a (s1 ++ s2) = dval_acc (dval_acc a s1) s2.
Proof. unfold dval_acc. apply fold_left_app. Qed.

Lemma cutoff10_val : cutoff10 = 1844674407370955162.
Proof. reflexivity. Qed.

(* the parser on an all-digit string saturates at 2^64-1 *)
Lemma parse_loop_digits s : forall n, n <= MaxU64 -> forallb is_digit s = true ->
  fst (parse_loop n s) = N.min (dval_acc n s) MaxU64 /\
  (snd (parse_loop n s) = PNone <-> dval_acc n s <= MaxU64) /\
  snd (parse_loop n s) <> PSyntax.
Proof.
  induction s as [|c t IH]; intros n Hn Hd.
  - cbn [parse_loop fst snd dval_acc fold_left].
    split; [lia|]. split; [split; [intros _; exact Hn | reflexivity] | discriminate].
  - cbn [forallb] in Hd. apply andb_true_iff in Hd. destruct Hd as [Hc Ht].
    cbn [parse_loop]. rewrite Hc.
    change (dval_acc n (c :: t)) with (dval_acc (dstep n c) t).
    pose proof (dval_acc_ge (dstep n c) t) as Hge. unfold dstep in *.
    assert (Hd9 : b2n c - 48 <= 9) by (unfold is_digit in Hc; lia).
    rewrite cutoff10_val. unfold MaxU64 in *.
    destruct (N.leb_spec 1844674407370955162 n).
    + cbn [fst snd]. split; [lia|]. split; [split; [discriminate | lia] | discriminate].
    + destruct (N.ltb_spec 18446744073709551615 (n * 10 + (b2n c - 48))).
      * cbn [fst snd]. split; [lia|]. split; [split; [discriminate | lia] | discriminate].
      * apply IH; auto.
Qed.

Lemma parse_wellformed s : s <> [] -> forallb is_digit s = true ->
  parse_rx s = N.min (dval s) MaxU64.
Proof.
  intros Hne Hd. unfold parse_rx, parse_uint, dval.
  destruct s as [|c t]; [congruence|].
  apply (parse_loop_digits (c :: t) 0); [unfold MaxU64; lia | exact Hd].
Qed.

(* a non-digit stops the parser: 0, unless the digits before it already overflowed *)
Lemma parse_loop_nondigit pre : forall n c t, n <= MaxU64 ->
  forallb is_digit pre = true -> is_digit c = false ->
  fst (parse_loop n (pre ++ c :: t)) = if MaxU64 <? dval_acc n pre then MaxU64 else 0.
Proof.
  induction pre as [|p pre IH]; intros n c t Hn Hd Hc.
  - cbn [app parse_loop]. rewrite Hc. cbn. destruct (N.ltb_spec MaxU64 n); [lia|reflexivity].
  - cbn [forallb] in Hd. apply andb_true_iff in Hd. destruct Hd as [Hp Hpre].
    cbn [app parse_loop]. rewrite Hp.
    change (dval_acc n (p :: pre)) with (dval_acc (dstep n p) pre).
    pose proof (dval_acc_ge (dstep n p) pre) as Hge. unfold dstep in *.
    assert (Hd9 : b2n p - 48 <= 9) by (unfold is_digit in Hp; lia).
    rewrite cutoff10_val. unfold MaxU64 in *.
    destruct (N.leb_spec 1844674407370955162 n).
    + cbn [fst]. destruct (N.ltb_spec 18446744073709551615 (dval_acc (n * 10 + (b2n p - 48)) pre)); [reflexivity|lia].
    + destruct (N.ltb_spec 18446744073709551615 (n * 10 + (b2n p - 48))).
      * cbn [fst]. destruct (N.ltb_spec 18446744073709551615 (dval_acc (n * 10 + (b2n p - 48)) pre)); [reflexivity|lia].
      * apply IH; auto.
Qed.

Lemma parse_malformed pre c t :
  forallb is_digit pre = true -> is_digit c = false ->
  parse_rx (pre ++ c :: t) = if MaxU64 <? dval pre then MaxU64 else 0.
Proof.
  intros Hd Hc. unfold parse_rx, parse_uint, dval.
  destruct (pre ++ c :: t) eqn:E; [destruct pre; discriminate|]. rewrite <- E.
  apply parse_loop_nondigit; auto. unfold MaxU64; lia.
Qed.

Lemma parse_rx_le s : parse_rx s <= MaxU64.
Proof.
  unfold parse_rx, parse_uint. destruct s as [|c t]; [cbn; unfold MaxU64; lia|].
  assert (H : forall s n, n <= MaxU64 -> fst (parse_loop n s) <= MaxU64).
  { clear. induction s as [|c t IH]; intros n Hn; cbn [parse_loop]; [exact Hn|].
    destruct (is_digit c); [|cbn; unfold MaxU64; lia].
    destruct (cutoff10 <=? n); [cbn; lia|].
    destruct (N.ltb_spec MaxU64 (n * 10 + (b2n c - 48))); [cbn; lia|]. apply IH; lia. }
  apply H. unfold MaxU64; lia.
Qed.

(* formatting *)

Lemma is_digit_digit_byte d : d <= 9 -> is_digit (digit_byte d) = true /\ b2n (digit_byte d) - 48 = d.
Proof.
  intros Hd. unfold is_digit, digit_byte. rewrite b2n_n2b_small by lia. lia.
Qed.

Lemma fmt_aux_app fuel : forall n acc, fmt_aux fuel n acc = fmt_aux fuel n [] ++ acc.
Proof.
  induction fuel as [|f IH]; intros n acc; cbn [fmt_aux]; [reflexivity|].
  destruct (n / 10 =? 0); [reflexivity|].
  rewrite (IH (n / 10) (_ :: acc)), (IH (n / 10) [_]). rewrite <- app_assoc. reflexivity.
Qed.

Lemma fmt_aux_ok fuel : forall n, n < 10 ^ N.of_nat fuel -> (1 <= fuel)%nat ->
  forallb is_digit (fmt_aux fuel n []) = true /\ dval_acc 0 (fmt_aux fuel n []) = n /\
  fmt_aux fuel n [] <> [].
Proof.
  induction fuel as [|f IH]; intros n Hn Hf; [lia|].
  cbn [fmt_aux].
  assert (Hm : n mod 10 <= 9) by (pose proof (N.mod_lt n 10); lia).
  destruct (is_digit_digit_byte (n mod 10) Hm) as [Hdig Hval].
  destruct (N.eqb_spec (n / 10) 0) as [Hz|Hz].
  - cbn [forallb]. rewrite Hdig. repeat split; try discriminate.
    cbn. unfold dstep. rewrite Hval. pose proof (N.div_mod n 10). lia.
  - rewrite fmt_aux_app.
    assert (Hf1 : (1 <= f)%nat).
    { destruct f; [|lia]. cbn in Hn. exfalso. apply Hz. apply N.div_small. lia. }
    assert (Hlt : n / 10 < 10 ^ N.of_nat f).
    { rewrite Nat2N.inj_succ, N.pow_succ_r' in Hn. apply N.div_lt_upper_bound; lia. }
    destruct (IH (n / 10) Hlt Hf1) as (Ha & Hb & Hc).
    rewrite forallb_app, Ha. cbn [forallb]. rewrite Hdig. repeat split.
    + rewrite dval_acc_app, Hb. cbn. unfold dstep. rewrite Hval. pose proof (N.div_mod n 10). lia.
    + intros E. apply app_eq_nil in E. destruct E; discriminate.
Qed.

Lemma format_uint_ok n : n <= MaxU64 ->
  forallb is_digit (format_uint n) = true /\ dval (format_uint n) = n /\ format_uint n <> [].
Proof.
  intros Hn. unfold format_uint, dval. apply fmt_aux_ok; [|lia].
  unfold MaxU64 in Hn. change (10 ^ N.of_nat 20) with 100000000000000000000. lia.
Qed.

Lemma parse_format n : n <= MaxU64 -> parse_rx (format_uint n) = n.
Proof.
  intros Hn. destruct (format_uint_ok n Hn) as (Hd & Hv & Hne).
  rewrite parse_wellformed by assumption. rewrite Hv. lia.
Qed.

Lemma bytes_eq_true a : forall b, bytes_eq a b = true -> a = b.
Proof.
  induction a as [|x a IH]; intros [|y b] H; cbn in H; try discriminate; [reflexivity|].
  apply andb_true_iff in H. destruct H as [H1 H2]. apply Byte.byte_dec_bl in H1. f_equal; auto.
Qed.

Lemma format_not_auto n : n <= MaxU64 -> bytes_eq (format_uint n) str_auto = false.
Proof.
  intros Hn. destruct (bytes_eq (format_uint n) str_auto) eqn:E; [|reflexivity].
  apply bytes_eq_true in E. destruct (format_uint_ok n Hn) as (Hd & _ & _).
  rewrite E in Hd. vm_compute in Hd. discriminate.
Qed.

Lemma req_roundtrip n : n <= MaxU64 -> req_from_header (req_to_header n) = n.
Proof. intros Hn. unfold req_from_header, req_to_header, hget. apply parse_format; exact Hn. Qed.

Lemma resp_roundtrip n auto : n <= MaxU64 ->
  resp_from_header (resp_to_header (mkResp n auto)) = mkResp (if auto then 0 else n) auto.
Proof.
  intros Hn. unfold resp_from_header, resp_to_header. cbn [r_auto r_rx].
  destruct auto; cbn [hget].
  - reflexivity.
  - rewrite format_not_auto by exact Hn. rewrite parse_format by exact Hn. reflexivity.
Qed.

Lemma header_missing_or_empty :
  req_from_header [] = 0 /\ req_from_header [[]] = 0 /\
  resp_from_header [] = mkResp 0 false /\ resp_from_header [[]] = mkResp 0 false.
Proof. repeat split. Qed.

Lemma header_roundtrip n auto : n <= MaxU64 ->
  req_from_header (req_to_header n) = n /\
  resp_from_header (resp_to_header (mkResp n auto)) = mkResp (if auto then 0 else n) auto.
Proof. intros H. split; [exact (req_roundtrip n H) | exact (resp_roundtrip n auto H)]. Qed.

Lemma header_decode :
  (req_from_header [] = 0 /\ req_from_header [[]] = 0 /\
   resp_from_header [] = mkResp 0 false /\ resp_from_header [[]] = mkResp 0 false) /\
  (forall s, s <> [] -> forallb is_digit s = true -> parse_rx s = N.min (dval s) MaxU64) /\
  (forall pre c t, forallb is_digit pre = true -> is_digit c = false ->
     parse_rx (pre ++ c :: t) = if MaxU64 <? dval pre then MaxU64 else 0) /\
  (forall s, parse_rx s <= MaxU64).
Proof.
  exact (conj header_missing_or_empty (conj parse_wellformed (conj parse_malformed parse_rx_le))).
Qed.

(* ------------------------------------------------------------------ the whole handshake *)

Lemma handshake_spec s c :
  c_max_rx c <= MaxU64 -> s_max_rx s <= MaxU64 ->
  let '(so, co) := handshake s c in
  so_auth_tx so = c_max_rx c /\
  so_decision so = spec_server s (c_max_rx c) /\
  co_decision co = spec_client c (mkResp (s_max_rx s) (s_ignore s)) /\
  so_connect_tx so = reported (so_decision so) /\
  co_info_tx co = reported (co_decision co) /\
  so_installed so = install (so_decision so) (s_type s) /\
  co_installed co = install (co_decision co) (c_type c).
Proof.
  intros Hc Hs. unfold handshake.
  pose proof (server_reported_is_enforced s (req_to_header (c_max_rx c))) as (Hsr & Hsi & _).
  unfold server_auth in *. rewrite req_roundtrip in * by exact Hc.
  pose proof (server_spec s (c_max_rx c)) as Hss.
  pose proof (server_reported s (c_max_rx c)) as Hsrep.
  destruct (server_decide s (c_max_rx c)) as [d tx] eqn:E. cbn [fst snd] in *.
  cbn [so_resp so_auth_tx so_decision so_connect_tx so_installed] in *.
  unfold client_connect. rewrite resp_roundtrip by exact Hs.
  assert (Hcs : forall r, fst (client_decide c r) = spec_client c r) by (intros; apply client_spec).
  assert (Hcr : forall r, snd (client_decide c r) = reported (fst (client_decide c r))) by (intros; apply client_reported).
  assert (Hsame : spec_client c (mkResp (if s_ignore s then 0 else s_max_rx s) (s_ignore s)) =
                  spec_client c (mkResp (s_max_rx s) (s_ignore s))).
  { unfold spec_client, server_declared. cbn [r_auto r_rx]. destruct (s_ignore s); reflexivity. }
  specialize (Hcs (mkResp (if s_ignore s then 0 else s_max_rx s) (s_ignore s))).
  specialize (Hcr (mkResp (if s_ignore s then 0 else s_max_rx s) (s_ignore s))).
  destruct (client_decide c _) as [d2 tx2] eqn:E2. cbn [fst snd] in *.
  cbn [co_decision co_info_tx co_installed].
  repeat split; auto. congruence.
Qed.

(* ------------------------------------------------------------------ non-vacuity: the hypotheses of the
   theorems are satisfiable and the interesting branches are reached on concrete inputs *)

Example ex_server_caps : server_decide (mkSrv false 100000 0 TBbr) 200000 = (Brutal 100000, 100000).
Proof. reflexivity. Qed.
Example ex_server_client_smaller : server_decide (mkSrv false 100000 0 TBbr) 70000 = (Brutal 70000, 70000).
Proof. reflexivity. Qed.
Example ex_server_unlimited : server_decide (mkSrv false 0 0 TReno) 70000 = (Brutal 70000, 70000).
Proof. reflexivity. Qed.
Example ex_server_unknown : server_decide (mkSrv false 100000 0 TReno) 0 = (Configured, 0).
Proof. reflexivity. Qed.
Example ex_server_ignore : server_decide (mkSrv true 100000 0 TReno) 70000 = (Configured, 0).
Proof. reflexivity. Qed.
Example ex_client_min : client_decide (mkCli 123456 0 TBbr) (mkResp 100000 false) = (Brutal 100000, 100000).
Proof. reflexivity. Qed.
Example ex_client_unlimited : client_decide (mkCli 123456 0 TBbr) (mkResp 0 false) = (Brutal 123456, 123456).
Proof. reflexivity. Qed.
Example ex_client_unknown_own : client_decide (mkCli 0 0 TBbr) (mkResp 100000 false) = (Configured, 0).
Proof. reflexivity. Qed.
Example ex_client_auto : client_decide (mkCli 123456 0 TBbr) (mkResp 0 true) = (Configured, 0).
Proof. reflexivity. Qed.

(* TestClientServerHandshakeInfo, second configuration: server MaxRx 100000, client MaxTx 123456 *)
Example ex_handshake :
  let '(so, co) := handshake (mkSrv false 0 100000 TBbr) (mkCli 123456 0 TBbr) in
  co_info_tx co = 100000 /\ co_installed co = IBrutal 100000%Z /\
  so_connect_tx so = 0 /\ so_installed so = IBbr /\ server_cfg_ok (mkSrv false 0 100000 TBbr) = true.
Proof. vm_compute. repeat split. Qed.

Example ex_cfg_floor :
  server_cfg_ok (mkSrv false 65535 0 TBbr) = false /\ server_cfg_ok (mkSrv false 65536 0 TBbr) = true /\
  server_cfg_ok (mkSrv false 0 1 TBbr) = false /\ server_cfg_ok (mkSrv false 0 0 TBbr) = true.
Proof. vm_compute. repeat split. Qed.

Example ex_format_max : format_uint MaxU64 = str_max /\ format_uint 0 = [x30].
Proof. vm_compute. split; reflexivity. Qed.

(* "18446744073709551616" (2^64) saturates; "99999999999999999999abc" saturates before the junk is
   seen; "12a", "+5", "-1", "1e3" are 0 *)
Example ex_parse :
  parse_uint [x31;x38;x34;x34;x36;x37;x34;x34;x30;x37;x33;x37;x30;x39;x35;x35;x31;x36;x31;x36] = (MaxU64, PRange) /\
  parse_uint ([x39;x39;x39;x39;x39;x39;x39;x39;x39;x39;x39;x39;x39;x39;x39;x39;x39;x39;x39;x39] ++ [x61;x62;x63]) = (MaxU64, PRange) /\
  parse_uint [x31;x32;x61] = (0, PSyntax) /\ parse_uint [x2b;x35] = (0, PSyntax) /\
  parse_uint [x2d;x31] = (0, PSyntax) /\ parse_uint [x31;x65;x33] = (0, PSyntax) /\
  parse_uint [x30;x30;x37] = (7, PNone) /\ parse_uint str_max = (MaxU64, PNone).
Proof. vm_compute. repeat split. Qed.

(* ------------------------------------------------------------------ one connection, several POST /auth *)

Lemma reauth_does_not_renegotiate c st rq :
  cs_auth st = true ->
  serve_auth c st rq = (st, R233 (mkResp (s_max_rx c) (s_ignore c))).
Proof. intros H. unfold serve_auth. rewrite H. reflexivity. Qed.

Lemma run_authenticated_frozen c st : forall rqs,
  cs_auth st = true ->
  serve_run c st rqs = (st, map (fun _ => (R233 (mkResp (s_max_rx c) (s_ignore c)), cs_installed st)) rqs).
Proof.
  induction rqs as [|rq t IH]; intros H; [reflexivity|].
  cbn [serve_run map]. rewrite (reauth_does_not_renegotiate c st rq H).
  rewrite (IH H). reflexivity.
Qed.

Lemma serve_run_app c : forall a st b,
  serve_run c st (a ++ b) =
  (fst (serve_run c (fst (serve_run c st a)) b), snd (serve_run c st a) ++ snd (serve_run c (fst (serve_run c st a)) b)).
Proof.
  induction a as [|rq t IH]; intros st b.
  - cbn. destruct (serve_run c st b); reflexivity.
  - cbn [app serve_run]. destruct (serve_auth c st rq) as [st1 rp].
    rewrite (IH st1 b). destruct (serve_run c st1 t) as [st2 rps]. cbn [fst snd].
    destruct (serve_run c st2 b) as [st3 rps']. reflexivity.
Qed.

Lemma auth_tx_is_declared c vals : so_auth_tx (server_auth c vals) = req_from_header vals.
Proof. unfold server_auth. destruct (server_decide c (req_from_header vals)). reflexivity. Qed.

Lemma resp_is_configured c vals : so_resp (server_auth c vals) = mkResp (s_max_rx c) (s_ignore c).
Proof. unfold server_auth. destruct (server_decide c (req_from_header vals)). reflexivity. Qed.

Lemma run_rejected_prefix c : forall pre st,
  cs_auth st = false -> Forall (fun r : auth_req => snd r = false) pre ->
  let st' := fst (serve_run c st pre) in
  cs_auth st' = false /\ cs_installed st' = cs_installed st /\ cs_connects st' = cs_connects st /\
  cs_authcalls st' = cs_authcalls st ++ map (fun r : auth_req => req_from_header (fst r)) pre /\
  snd (serve_run c st pre) = map (fun _ => (RMasq, cs_installed st)) pre.
Proof.
  induction pre as [|rq t IH]; intros st Ha Hf.
  - cbn. rewrite app_nil_r. repeat split; auto.
  - inversion Hf as [|? ? Hrq Ht]; subst.
    set (st1 := mkConn false (cs_installed st) (cs_connects st) (cs_authcalls st ++ [so_auth_tx (server_auth c (fst rq))])).
    assert (E : serve_auth c st rq = (st1, RMasq)) by (unfold serve_auth; rewrite Ha, Hrq; reflexivity).
    specialize (IH st1 eq_refl Ht). cbn zeta in IH.
    cbn zeta. cbn [serve_run]. rewrite E.
    destruct (serve_run c st1 t) as [st2 rps]. cbn [fst snd] in *.
    destruct IH as (I1 & I2 & I3 & I4 & I5).
    repeat split; try assumption.
    + rewrite I4. subst st1. cbn [cs_authcalls map]. rewrite <- app_assoc, auth_tx_is_declared. reflexivity.
    + cbn [map]. rewrite I5. reflexivity.
Qed.

Lemma set_cc_default i : set_cc IDefault i = i.
Proof. destruct i; reflexivity. Qed.

Lemma first_accepted_auth_decides c pre vals post :
  Forall (fun r : auth_req => snd r = false) pre ->
  let r := serve_run c conn_init (pre ++ (vals, true) :: post) in
  let so := server_auth c vals in
  cs_auth (fst r) = true /\
  cs_installed (fst r) = so_installed so /\
  cs_connects (fst r) = [so_connect_tx so] /\
  cs_authcalls (fst r) = map (fun r : auth_req => req_from_header (fst r)) pre ++ [so_auth_tx so] /\
  snd r = map (fun _ => (RMasq, IDefault)) pre ++
          (R233 (so_resp so), so_installed so) ::
          map (fun _ => (R233 (so_resp so), so_installed so)) post.
Proof.
  intros Hf. cbn zeta. rewrite serve_run_app.
  destruct (run_rejected_prefix c pre conn_init eq_refl Hf) as (P1 & P2 & P3 & P4 & P5).
  cbn [fst snd]. rewrite P5.
  set (st0 := fst (serve_run c conn_init pre)) in *.
  set (so := server_auth c vals).
  set (st1 := mkConn true (set_cc (cs_installed st0) (so_installed so)) (cs_connects st0 ++ [so_connect_tx so])
                     (cs_authcalls st0 ++ [so_auth_tx so])).
  assert (E : serve_auth c st0 (vals, true) = (st1, R233 (so_resp so)))
    by (unfold serve_auth; rewrite P1; reflexivity).
  cbn [serve_run]. rewrite E.
  rewrite (run_authenticated_frozen c st1 post eq_refl). cbn [fst snd].
  subst st1. cbn [cs_auth cs_installed cs_connects cs_authcalls].
  rewrite P2, P3, P4. cbn [conn_init cs_installed cs_connects cs_authcalls app].
  rewrite set_cc_default. subst so. rewrite !resp_is_configured.
  repeat split; reflexivity.
Qed.

(* with the reported = enforced clause of the single request: after ANY history of auth requests on a connection,
   the one Connect event and the controller on the connection are those of the first accepted request *)
Lemma connection_reported_is_enforced c pre vals post :
  Forall (fun r : auth_req => snd r = false) pre ->
  let st := fst (serve_run c conn_init (pre ++ (vals, true) :: post)) in
  let so := server_auth c vals in
  (forall r, so_decision so = Brutal r -> r < 9223372036854775808) ->
  exists tx, cs_connects st = [tx] /\ enforced_as_reported (so_decision so) (s_type c) (cs_installed st) tx.
Proof.
  intros Hf. cbn zeta. intros Hb.
  destruct (first_accepted_auth_decides c pre vals post Hf) as (_ & H2 & H3 & _).
  cbn zeta in H2, H3. exists (so_connect_tx (server_auth c vals)). split; [exact H3|].
  rewrite H2. exact (proj2 (proj2 (server_reported_is_enforced c vals)) Hb).
Qed.

(* non-vacuity: 1 MB/s, then 50 MB/s and 0 on the same connection *)
Lemma reauth_example :
  let c := mkSrv false 0 0 TBbr in
  let r := serve_run c conn_init [([[x31;x30;x30;x30;x30;x30;x30]], true); ([[x35;x30;x30;x30;x30;x30;x30;x30]], true); ([[x30]], true)] in
  cs_connects (fst r) = [1000000] /\ cs_installed (fst r) = IBrutal 1000000 /\
  map snd (snd r) = [IBrutal 1000000; IBrutal 1000000; IBrutal 1000000].
Proof. vm_compute. repeat split; reflexivity. Qed.
