(* C10 proofs: handshakes made from one reused client Config are independent of each other. *)
From Hy Require Import model.C10_Negotiate model.C10_Reuse proof.C10_Negotiate.
Local Open Scope N_scope.

(* every handshake of a sequence is the handshake a FRESH Config holding the caller's current limits would
   make, and it leaves the object's limits as the caller set them *)
Lemma client_seq_fresh : forall steps c,
  client_seq c steps =
  map (fun p : client_cfg * seq_step =>
         (fst p, client_connect (fst p) (snd (snd p)), req_to_header (c_max_rx (fst p))))
      (combine (cfg_in_force c steps) steps).
Proof.
  induction steps as [|[u vals] t IH]; intros c; cbn [client_seq cfg_in_force combine map new_client fst snd].
  - reflexivity.
  - rewrite IH. reflexivity.
Qed.

Lemma cfg_in_force_length : forall steps c, length (cfg_in_force c steps) = length steps.
Proof. induction steps as [|[u v] t IH]; intros c; cbn [cfg_in_force length]; [reflexivity | now rewrite IH]. Qed.

(* no caller writes: the object keeps its original limits through the whole sequence *)
Lemma cfg_in_force_const : forall steps c,
  Forall (fun s : seq_step => fst s = None) steps -> cfg_in_force c steps = map (fun _ => c) steps.
Proof.
  induction steps as [|[u v] t IH]; intros c H; cbn [cfg_in_force map]; [reflexivity|].
  inversion H as [|x l Hx Ht]; subst. cbn [fst] in Hx. subst u. cbn [set_bw]. now rewrite IH.
Qed.

(* the i-th handshake of a sequence without caller writes: whatever was answered before (auto, numbers, 0,
   junk, in any order), the decision is the specification's for the ORIGINAL limits and THIS answer *)
Theorem reused_config_history_independent : forall c pre vals post,
  Forall (fun s : seq_step => fst s = None) (pre ++ (None, vals) :: post) ->
  nth_error (client_seq c (pre ++ (None, vals) :: post)) (length pre) =
    Some (c, client_connect c vals, req_to_header (c_max_rx c)) /\
  co_decision (client_connect c vals) = spec_client c (resp_from_header vals).
Proof.
  intros c pre vals post H. split.
  - rewrite client_seq_fresh, (cfg_in_force_const _ c H).
    rewrite nth_error_map.
    assert (E : nth_error (combine (map (fun _ : seq_step => c) (pre ++ (None, vals) :: post)) (pre ++ (None, vals) :: post))
                          (length pre) = Some (c, (None, vals))).
    { clear H. induction pre as [|x pre IH]; cbn [app map combine length nth_error]; [reflexivity | exact IH]. }
    exact (eq_trans (f_equal (option_map _) E) eq_refl).
  - unfold client_connect. pose proof (client_spec c (resp_from_header vals)) as S.
    destruct (client_decide c (resp_from_header vals)) as [d tx]. cbn [co_decision fst] in *. exact S.
Qed.

(* the instance the seeded history is: answered auto, then answered with a number - the second handshake is
   Brutal at min(own, declared) *)
Example auto_then_number :
  let c := mkCli 123456 0 TBbr in
  map (fun r => (c_max_tx (fst (fst r)), co_decision (snd (fst r))))
      (client_seq c [(None, [[x61;x75;x74;x6f]]); (None, [[x31;x30;x30;x30;x30;x30]]); (None, [[x30]]); (None, [])]) =
  [(123456, Configured); (123456, Brutal 100000); (123456, Brutal 123456); (123456, Brutal 123456)].
Proof. vm_compute. reflexivity. Qed.
