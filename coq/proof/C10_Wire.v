(* C10 o C11 - proofs.  The sender a negotiated decision `Brutal r` installs (r < 2^50) releases, over any interval
   of any call history, at most a bounded burst plus (reported rate / 0.8) x interval bytes, and is never stalled:
   C11's pacer and bandwidth theorems applied to the sender C10 says was installed. *)
From Hy Require Import lib.F64 model.C10_Wire proof.C10_Negotiate proof.C11_Pacer proof.C11_Brutal proof.C11_Float.
From Coq Require Import ZArith NArith Lia Bool List.
Import ListNotations.
Local Open Scope Z_scope.

(* ------------------------------------------------------------------ the seam: C10's `installed` is C11's brutal_init *)

(* the two models convert the uint64 rate to congestion.ByteCount the same way *)
Lemma to_i64_is_wrap64 (tx : N) : (tx <= MaxU64)%N -> to_i64 tx = wrap64 (Z.of_N tx).
Proof.
  intro H. unfold to_i64. rewrite wrap64_spec. unfold MaxU64 in H.
  destruct (N.ltb_spec tx 9223372036854775808) as [L|L].
  - rewrite Z.mod_small by lia. lia.
  - assert (E : (Z.of_N tx + 2 ^ 63) mod 2 ^ 64 = Z.of_N tx + 2 ^ 63 - 2 ^ 64).
    { symmetry. apply Z.mod_unique with (q := 1); lia. }
    rewrite E. lia.
Qed.

Lemma sender_of_use_brutal (tx : N) dis : (tx <= MaxU64)%N ->
  sender_of (use_brutal tx) dis = Some (brutal_init (Z.of_N tx) dis).
Proof.
  intro H. unfold use_brutal, sender_of, brutal_init. rewrite (to_i64_is_wrap64 tx H).
  rewrite (wrap64_small (wrap64 (Z.of_N tx))); [reflexivity|].
  rewrite wrap64_spec. pose proof (Z.mod_pos_bound (Z.of_N tx + 2 ^ 63) (2 ^ 64) ltac:(lia)). unfold two63. lia.
Qed.

Lemma sender_of_install r t dis : (r < 2 ^ 50)%N ->
  install (Brutal r) t = IBrutal (Z.of_N r) /\
  sender_of (install (Brutal r) t) dis = Some (brutal_init (Z.of_N r) dis).
Proof.
  intro H. assert (H63 : (r < 9223372036854775808)%N) by (change (2 ^ 50)%N with 1125899906842624%N in H; lia).
  cbn [install]. split.
  - unfold use_brutal. now rewrite to_i64_small.
  - apply sender_of_use_brutal. unfold MaxU64. lia.
Qed.

(* ------------------------------------------------------------------ histories: prefixes and concatenation *)

Lemma brun_app : forall l1 b l2, brun b (l1 ++ l2) = brun (brun b l1) l2.
Proof. induction l1 as [|o l1 IH]; intros b l2; [reflexivity|]. cbn [app brun]. apply IH. Qed.

Lemma hist_ok_prefix : forall l1 l2 cur tot, hist_ok cur tot (l1 ++ l2) -> hist_ok cur tot l1.
Proof.
  induction l1 as [|o l1 IH]; intros l2 cur tot H; [exact I|].
  destruct o as [t size|t a n|s|]; cbn [app hist_ok] in *; try (eapply IH; exact H).
  destruct H as (H1 & H2 & H3 & H4 & H5 & H6).
  refine (conj H1 (conj H2 (conj H3 (conj H4 (conj H5 _))))). eapply IH; exact H6.
Qed.

(* every state a history passes through hands the pacer a bandwidth in [rate, floor(1.25 rate)] *)
Lemma bandwidth_along bps dis l :
  0 <= bps < 2 ^ 50 -> hist_ok 0 0 l ->
  forall l1 l2, l = l1 ++ l2 -> bps <= bandwidth (brun (brutal_init bps dis) l1) <= 5 * bps / 4.
Proof.
  intros Hb Hok l1 l2 ->. apply hist_ok_prefix in Hok.
  exact (proj2 (proj2 (proj2 (sender_bandwidth_bound bps dis l1 Hb Hok)))).
Qed.

(* ------------------------------------------------------------------ sender-level hypotheses give C11's pacer-level ones *)

Lemma b_budget_psend b p t size :
  b_pacer b = set_mds p (b_mds b) ->
  psend_budget p (mkS (bandwidth b) (b_mds b) t size) = b_budget b t.
Proof. intro H. unfold psend_budget, b_budget. cbn [s_bw s_mds s_t]. now rewrite H. Qed.

Lemma wire_ok_sends_ok B M : 0 <= B -> forall l b p,
  b_pacer b = set_mds p (b_mds b) ->
  (forall l1 l2, l = l1 ++ l2 -> 0 <= bandwidth (brun b l1) <= B) ->
  wire_ok B M b l -> sends_ok B M p (psends_of b l).
Proof.
  intros HB. induction l as [|o l IH]; intros b p Hp Hbw Hw; [exact I|].
  cbn [wire_ok] in Hw. destruct Hw as [Ho Hw].
  assert (Hbw' : forall l1 l2, l = l1 ++ l2 -> 0 <= bandwidth (brun (fst (bstep b o)) l1) <= B).
  { intros l1 l2 E. apply (Hbw (o :: l1) l2). now rewrite E. }
  pose proof (Hbw [] (o :: l) eq_refl) as Hb0. cbn [brun] in Hb0.
  destruct o as [t size|t a n|s|].
  - destruct Ho as ((Hm & Hs & Ht) & Hle & Hgap).
    cbn [psends_of sends_ok]. cbn [bstep fst] in *.
    assert (Hl : p_last (b_pacer b) = p_last p) by (rewrite Hp; reflexivity).
    rewrite Hl in Hle, Hgap.
    refine (conj _ (conj _ (conj _ _))).
    + unfold send_ok. cbn [s_bw s_mds s_t s_size]. rewrite (b_budget_psend b p t size Hp).
      repeat split; lia.
    + exact Hle.
    + cbn [s_bw s_t]. assert (0 <= t - p_last p) by lia. nia.
    + apply IH; [|exact Hbw'|exact Hw].
      cbn [on_sent b_pacer b_mds psend_step s_bw s_mds s_t s_size]. rewrite Hp. symmetry. apply sent_set_mds.
  - change (psends_of b (OEvent t a n :: l)) with (psends_of (fst (bstep b (OEvent t a n))) l).
    destruct (bstep_event_fields b t a n) as [E1 E2].
    apply IH; [rewrite E1, E2; exact Hp|exact Hbw'|exact Hw].
  - cbn [psends_of bstep fst] in *. apply IH; [|exact Hbw'|exact Hw].
    cbn [on_set_mds b_pacer b_mds]. rewrite Hp. reflexivity.
  - cbn [psends_of bstep fst] in *. apply IH; [exact Hp|exact Hbw'|exact Hw].
Qed.

Lemma bytes_of_psends : forall l b, bytes_of (psends_of b l) = sent_bytes l.
Proof.
  induction l as [|o l IH]; intro b; [reflexivity|].
  destruct o as [t size|t a n|s|]; cbn [psends_of sent_bytes]; rewrite ?IH; try reflexivity.
  unfold bytes_of. cbn [fold_right s_size]. fold (bytes_of (psends_of (fst (bstep b (OSent t size))) l)).
  now rewrite IH.
Qed.

Lemma last_psends : forall l b s0, s_t (last (s0 :: psends_of b l) s0) = last_sent l (s_t s0).
Proof.
  induction l as [|o l IH]; intros b s0; [reflexivity|].
  destruct o as [t size|t a n|s|]; cbn [psends_of last_sent]; try apply IH.
  set (s1 := mkS (bandwidth b) (b_mds b) t size).
  change (last (s0 :: s1 :: psends_of (fst (bstep b (OSent t size))) l) s0)
    with (last (s1 :: psends_of (fst (bstep b (OSent t size))) l) s0).
  rewrite (last_default _ s1 s0 s1). rewrite IH. reflexivity.
Qed.

(* the time of the last send does not precede the previous one *)
Lemma last_sent_mono B M : forall l b,
  wire_ok B M b l -> p_last (b_pacer b) <= last_sent l (p_last (b_pacer b)).
Proof.
  induction l as [|o l IH]; intros b Hw; [cbn; lia|].
  cbn [wire_ok] in Hw. destruct Hw as [Ho Hw]. specialize (IH _ Hw).
  destruct o as [t size|t a n|s|]; cbn [last_sent].
  - destruct Ho as (_ & Hle & _). cbn [bstep fst on_sent b_pacer sent p_last] in IH. lia.
  - destruct (bstep_event_fields b t a n) as [E1 _]. rewrite E1 in IH. exact IH.
  - cbn [bstep fst on_set_mds b_pacer set_mds p_last] in IH. exact IH.
  - exact IH.
Qed.

(* ------------------------------------------------------------------ the rate bound for the installed sender *)

Section Wire.
Variable r : N.
Variable dis : bool.
Hypothesis Hr : (0 < r < 2 ^ 50)%N.

Let R := Z.of_N r.
Let B := comp_rate r.
Let b0 := brutal_init R dis.

Lemma R_range : 0 < R < 2 ^ 50.
Proof. unfold R. change (2 ^ 50)%N with 1125899906842624%N in Hr. change (2 ^ 50) with 1125899906842624. lia. Qed.

Lemma B_range : R <= B /\ 0 <= B.
Proof. pose proof R_range. unfold B, comp_rate. fold R. split; [apply Z.div_le_lower_bound; lia|apply Z.div_pos; lia]. Qed.

(* over ANY interval of ANY call history of the installed sender *)
Theorem wire_rate_bound M pre t0 sz0 mid :
  maxBurstPacingDelayMultiplier * MinPacingDelay_ns * B < two63 -> M <= mds_limit ->
  hist_ok 0 0 (pre ++ OSent t0 sz0 :: mid) ->
  let b1 := brun b0 pre in
  wire_first M b1 t0 sz0 -> wire_ok B M (on_sent b1 t0 sz0) mid ->
  sent_bytes (OSent t0 sz0 :: mid) <= burst_bound B M + B * (last_sent mid t0 - t0) / ns_per_s /\
  t0 <= last_sent mid t0.
Proof.
  intros HB HM Hok b1 Hf Hw.
  pose proof R_range as HR. destruct B_range as [HRB HB0].
  assert (HR' : 0 <= R < 2 ^ 50) by lia.
  pose proof (bandwidth_along R dis _ HR' Hok) as Hbw. fold b0 in Hbw.
  set (p := prun pacer_init (psends_of b0 pre)).
  assert (Hp : b_pacer b1 = set_mds p (b_mds b1)) by (apply pacer_of_brun_init).
  set (s := mkS (bandwidth b1) (b_mds b1) t0 sz0).
  assert (Hs : send_ok B M p s).
  { destruct Hf as (Hm & Hsz & Ht).
    pose proof (Hbw pre (OSent t0 sz0 :: mid) eq_refl) as Hb. fold b1 in Hb.
    unfold send_ok. rewrite (b_budget_psend b1 p t0 sz0 Hp : psend_budget p s = _).
    subst s. cbn [s_bw s_mds s_t s_size]. unfold B, comp_rate. fold R. lia. }
  assert (Hl : sends_ok B M (psend_step p s) (psends_of (on_sent b1 t0 sz0) mid)).
  { apply (wire_ok_sends_ok B M HB0); [| |exact Hw].
    - cbn [on_sent b_pacer b_mds]. unfold s, psend_step. cbn [s_bw s_mds s_t s_size]. rewrite Hp. symmetry. apply sent_set_mds.
    - intros l1 l2 E.
      assert (E2 : brun (on_sent b1 t0 sz0) l1 = brun b0 (pre ++ OSent t0 sz0 :: l1)).
      { rewrite brun_app. reflexivity. }
      rewrite E2.
      pose proof (Hbw (pre ++ OSent t0 sz0 :: l1) l2) as Hb.
      rewrite <- app_assoc in Hb. cbn [app] in Hb. rewrite <- E in Hb. specialize (Hb eq_refl).
      unfold B, comp_rate. fold R. lia. }
  pose proof (rate_upper_bound B M HB HM p s _ Hs Hl) as Hb.
  change (OSent t0 sz0 :: mid) with ([OSent t0 sz0] ++ mid) at 1.
  assert (Eb : bytes_of (s :: psends_of (on_sent b1 t0 sz0) mid) = sent_bytes (OSent t0 sz0 :: mid)).
  { cbn [sent_bytes]. unfold bytes_of. cbn [fold_right]. fold (bytes_of (psends_of (on_sent b1 t0 sz0) mid)).
    rewrite bytes_of_psends. reflexivity. }
  rewrite Eb, last_psends in Hb. cbn [s_t s] in Hb. cbn [app]. split; [exact Hb|].
  pose proof (last_sent_mono B M mid _ Hw) as Hm. cbn [on_sent b_pacer sent p_last] in Hm. exact Hm.
Qed.

(* the same against any limit L the rate does not exceed (own configured limit, peer's declared limit) *)
Corollary wire_rate_bound_limit (L : N) M pre t0 sz0 mid :
  (r <= L)%N ->
  maxBurstPacingDelayMultiplier * MinPacingDelay_ns * B < two63 -> 0 <= M <= mds_limit ->
  hist_ok 0 0 (pre ++ OSent t0 sz0 :: mid) ->
  let b1 := brun b0 pre in
  wire_first M b1 t0 sz0 -> wire_ok B M (on_sent b1 t0 sz0) mid ->
  sent_bytes (OSent t0 sz0 :: mid) <=
    burst_bound (comp_rate L) M + comp_rate L * (last_sent mid t0 - t0) / ns_per_s.
Proof.
  intros HL HB HM Hok b1 Hf Hw.
  destruct (wire_rate_bound M pre t0 sz0 mid HB (proj2 HM) Hok Hf Hw) as [H1 H2].
  destruct B_range as [HRB HB0].
  assert (HBL : B <= comp_rate L).
  { unfold B, comp_rate. apply Z.div_le_mono; lia. }
  pose proof (burst_bound_mono B (comp_rate L) M M ltac:(lia) ltac:(lia)) as Hbb.
  assert (B * (last_sent mid t0 - t0) / ns_per_s <= comp_rate L * (last_sent mid t0 - t0) / ns_per_s).
  { apply Z.div_le_mono; [unfold ns_per_s; lia|]. apply Z.mul_le_mono_nonneg_r; lia. }
  lia.
Qed.

(* never stalled: after ANY call history the pacer is driven with a positive bandwidth in [rate, rate/0.8];
   TimeUntilSend never panics; waiting until the time it announces yields budget for a full datagram; if the
   budget is still short at `now`, the announced time is strictly later than now and at most
   max(MinPacingDelay, time for one datagram at the REPORTED rate + 1 ns) after the last send *)
Theorem wire_never_stalled l :
  hist_ok 0 0 l ->
  let b := brun b0 l in
  let p := b_pacer b in
  R <= bandwidth b <= B /\ p_mds p = b_mds b /\
  (exists w, b_time_until_send b = Ok w) /\
  (forall w, 0 <= p_budget p < b_mds b -> b_mds b <= mds_limit -> 0 < p_last p ->
     b_time_until_send b = Ok w -> p_last p <= w < two63 -> B * (w - p_last p) < two63 ->
     has_pacing_budget b w = true) /\
  (forall now w, 0 <= p_budget p <= two63 / 2 -> 0 <= b_mds b <= mds_limit ->
     0 < p_last p <= now -> now < two63 -> B * (now - p_last p) < two63 ->
     has_pacing_budget b now = false -> b_time_until_send b = Ok w -> p_last p <= w ->
     now < w /\ w - p_last p <= Z.max MinPacingDelay_ns (ns_per_s * b_mds b / R + 1)).
Proof.
  intros Hok b p. pose proof R_range as HR. destruct B_range as [HRB HB0].
  assert (Hbw : R <= bandwidth b <= B).
  { pose proof (proj2 (proj2 (proj2 (sender_bandwidth_bound R dis l ltac:(lia) Hok)))) as H. exact H. }
  assert (Hm : p_mds p = b_mds b).
  { unfold p, b, b0. rewrite (pacer_of_brun_init R dis l). reflexivity. }
  assert (H63 : bandwidth b < two63).
  { unfold B, comp_rate in Hbw. fold R in Hbw. unfold two63.
    assert (5 * R / 4 <= 5 * R) by (apply Z.div_le_upper_bound; lia). change (2 ^ 50) with 1125899906842624 in HR. lia. }
  refine (conj Hbw (conj Hm (conj _ (conj _ _)))).
  - unfold b_time_until_send, time_until_send. fold p.
    destruct (p_mds p <=? p_budget p); [eexists; reflexivity|].
    rewrite (wrapu64_small (bandwidth b)) by (unfold two64, two63 in *; lia).
    destruct (bandwidth b =? 0) eqn:E; [apply Z.eqb_eq in E; lia|]. eexists; reflexivity.
  - intros w Hb Hmd Hl Ht Hw Hgap. unfold has_pacing_budget, b_budget. fold p. apply Z.leb_le. rewrite <- Hm.
    apply (wakeup_suffices (bandwidth b) p w); try lia; [exact Ht|].
    assert (0 <= w - p_last p) by lia. nia.
  - intros now w Hb Hmd Hl Hn Hgap Hs Ht Hw.
    unfold has_pacing_budget, b_budget in Hs. fold p in Hs. apply Z.leb_gt in Hs. rewrite <- Hm in *.
    apply (rearm_progress (bandwidth b) R p now w); try lia; try assumption.
    assert (0 <= now - p_last p) by lia. nia.
Qed.

End Wire.

(* ------------------------------------------------------------------ C10's decisions *)

(* server side: whatever header the client sent *)
Theorem server_wire c vals r dis :
  so_decision (server_auth c vals) = Brutal r -> (r < 2 ^ 50)%N ->
  so_connect_tx (server_auth c vals) = r /\
  sender_of (so_installed (server_auth c vals)) dis = Some (brutal_init (Z.of_N r) dis) /\
  (0 < r)%N /\ (r <= req_from_header vals)%N /\ ((0 < s_max_tx c)%N -> (r <= s_max_tx c)%N).
Proof.
  intros Hd Hr.
  destruct (server_reported_is_enforced c vals) as (H1 & H2 & _). cbv zeta in H1, H2.
  rewrite Hd in H1, H2. cbn [reported] in H1.
  destruct (sender_of_install r (s_type c) dis Hr) as [_ Hs].
  split; [exact H1|]. split; [rewrite H2; exact Hs|].
  unfold server_auth in Hd. destruct (server_decide c (req_from_header vals)) as [d tx] eqn:E. cbn [so_decision] in Hd.
  pose proof (server_never_exceeds c (req_from_header vals) r) as Hn. rewrite E in Hn. cbn [fst] in Hn.
  destruct (Hn Hd) as (_ & P1 & _ & P2 & P3 & _). repeat split; assumption.
Qed.

(* client side: whatever header the server answered *)
Theorem client_wire c vals r dis :
  co_decision (client_connect c vals) = Brutal r -> (r < 2 ^ 50)%N ->
  co_info_tx (client_connect c vals) = r /\
  sender_of (co_installed (client_connect c vals)) dis = Some (brutal_init (Z.of_N r) dis) /\
  (0 < r)%N /\ (r <= c_max_tx c)%N /\
  ((0 < r_rx (resp_from_header vals))%N -> (r <= r_rx (resp_from_header vals))%N).
Proof.
  intros Hd Hr.
  destruct (client_reported_is_enforced c vals) as (H1 & H2 & _). cbv zeta in H1, H2.
  rewrite Hd in H1, H2. cbn [reported] in H1.
  destruct (sender_of_install r (c_type c) dis Hr) as [_ Hs].
  split; [exact H1|]. split; [rewrite H2; exact Hs|].
  unfold client_connect in Hd. destruct (client_decide c (resp_from_header vals)) as [d tx] eqn:E. cbn [co_decision] in Hd.
  pose proof (client_never_exceeds c (resp_from_header vals) r) as Hn. rewrite E in Hn. cbn [fst] in Hn.
  destruct (Hn Hd) as (_ & P1 & _ & P2 & P3 & _). repeat split; assumption.
Qed.

(* the bound with the REPORTED rate, and hence with either side's limit, server side *)
Theorem server_wire_bound c vals r dis b0 M pre t0 sz0 mid :
  so_decision (server_auth c vals) = Brutal r -> (r < 2 ^ 50)%N ->
  sender_of (so_installed (server_auth c vals)) dis = Some b0 ->
  let rep := so_connect_tx (server_auth c vals) in
  maxBurstPacingDelayMultiplier * MinPacingDelay_ns * comp_rate rep < two63 -> 0 <= M <= mds_limit ->
  hist_ok 0 0 (pre ++ OSent t0 sz0 :: mid) ->
  wire_first M (brun b0 pre) t0 sz0 -> wire_ok (comp_rate rep) M (on_sent (brun b0 pre) t0 sz0) mid ->
  let dt := last_sent mid t0 - t0 in
  let bound (L : N) := burst_bound (comp_rate L) M + comp_rate L * dt / ns_per_s in
  0 <= dt /\
  sent_bytes (OSent t0 sz0 :: mid) <= bound rep /\
  sent_bytes (OSent t0 sz0 :: mid) <= bound (req_from_header vals) /\
  ((0 < s_max_tx c)%N -> sent_bytes (OSent t0 sz0 :: mid) <= bound (s_max_tx c)).
Proof.
  intros Hd Hr Hs rep. destruct (server_wire c vals r dis Hd Hr) as (E & Hs' & P0 & P1 & P2).
  fold rep in E. rewrite Hs' in Hs. injection Hs as <-. rewrite E. clear rep E.
  intros HB HM Hok Hf Hw dt bound.
  assert (Hr' : (0 < r < 2 ^ 50)%N) by (split; assumption).
  destruct (wire_rate_bound r dis Hr' M pre t0 sz0 mid HB (proj2 HM) Hok Hf Hw) as [H1 H2].
  refine (conj _ (conj H1 (conj _ _))).
  - unfold dt. lia.
  - exact (wire_rate_bound_limit r dis Hr' _ M pre t0 sz0 mid P1 HB HM Hok Hf Hw).
  - intro H. exact (wire_rate_bound_limit r dis Hr' _ M pre t0 sz0 mid (P2 H) HB HM Hok Hf Hw).
Qed.

(* ... client side *)
Theorem client_wire_bound c vals r dis b0 M pre t0 sz0 mid :
  co_decision (client_connect c vals) = Brutal r -> (r < 2 ^ 50)%N ->
  sender_of (co_installed (client_connect c vals)) dis = Some b0 ->
  let rep := co_info_tx (client_connect c vals) in
  maxBurstPacingDelayMultiplier * MinPacingDelay_ns * comp_rate rep < two63 -> 0 <= M <= mds_limit ->
  hist_ok 0 0 (pre ++ OSent t0 sz0 :: mid) ->
  wire_first M (brun b0 pre) t0 sz0 -> wire_ok (comp_rate rep) M (on_sent (brun b0 pre) t0 sz0) mid ->
  let dt := last_sent mid t0 - t0 in
  let bound (L : N) := burst_bound (comp_rate L) M + comp_rate L * dt / ns_per_s in
  0 <= dt /\
  sent_bytes (OSent t0 sz0 :: mid) <= bound rep /\
  sent_bytes (OSent t0 sz0 :: mid) <= bound (c_max_tx c) /\
  ((0 < r_rx (resp_from_header vals))%N -> sent_bytes (OSent t0 sz0 :: mid) <= bound (r_rx (resp_from_header vals))).
Proof.
  intros Hd Hr Hs rep. destruct (client_wire c vals r dis Hd Hr) as (E & Hs' & P0 & P1 & P2).
  fold rep in E. rewrite Hs' in Hs. injection Hs as <-. rewrite E. clear rep E.
  intros HB HM Hok Hf Hw dt bound.
  assert (Hr' : (0 < r < 2 ^ 50)%N) by (split; assumption).
  destruct (wire_rate_bound r dis Hr' M pre t0 sz0 mid HB (proj2 HM) Hok Hf Hw) as [H1 H2].
  refine (conj _ (conj H1 (conj _ _))).
  - unfold dt. lia.
  - exact (wire_rate_bound_limit r dis Hr' _ M pre t0 sz0 mid P1 HB HM Hok Hf Hw).
  - intro H. exact (wire_rate_bound_limit r dis Hr' _ M pre t0 sz0 mid (P2 H) HB HM Hok Hf Hw).
Qed.

(* both sides of one handshake through the real header encoding: the limits are the CONFIGURED numbers of the peer *)
Theorem handshake_wire s c :
  (c_max_rx c <= MaxU64)%N -> (s_max_rx s <= MaxU64)%N ->
  let '(so, co) := handshake s c in
  (forall r, so_decision so = Brutal r -> (r < 2 ^ 50)%N ->
     so_connect_tx so = r /\ (0 < r)%N /\ (r <= c_max_rx c)%N /\ ((0 < s_max_tx s)%N -> (r <= s_max_tx s)%N) /\
     forall dis, sender_of (so_installed so) dis = Some (brutal_init (Z.of_N r) dis)) /\
  (forall r, co_decision co = Brutal r -> (r < 2 ^ 50)%N ->
     co_info_tx co = r /\ (0 < r)%N /\ (r <= c_max_tx c)%N /\ ((0 < s_max_rx s)%N -> (r <= s_max_rx s)%N) /\
     forall dis, sender_of (co_installed co) dis = Some (brutal_init (Z.of_N r) dis)).
Proof.
  intros Hc Hs. unfold handshake. split.
  - intros r Hd Hr. destruct (server_wire s _ r false Hd Hr) as (E & _ & P0 & P1 & P2).
    rewrite req_roundtrip in P1 by exact Hc.
    refine (conj E (conj P0 (conj P1 (conj P2 _)))). intro dis. exact (proj1 (proj2 (server_wire s _ r dis Hd Hr))).
  - intros r Hd Hr. rewrite resp_is_configured in *.
    destruct (client_wire c _ r false Hd Hr) as (E & _ & P0 & P1 & P2).
    refine (conj E (conj P0 (conj P1 (conj _ _)))).
    + intro H. pose proof (resp_roundtrip (s_max_rx s) (s_ignore s) Hs) as Rt. rewrite Rt in P2. cbn [r_rx] in P2.
      unfold client_connect in Hd. rewrite Rt in Hd.
      destruct (client_decide c _) as [d tx] eqn:Ed. cbn [co_decision] in Hd.
      pose proof (client_never_exceeds c (mkResp (if s_ignore s then 0%N else s_max_rx s) (s_ignore s)) r) as Hn.
      rewrite Ed in Hn. cbn [fst] in Hn.
      destruct (Hn Hd) as (Ha & _). cbn [r_auto] in Ha. rewrite Ha in P2. exact (P2 H).
    + intro dis. exact (proj1 (proj2 (client_wire c _ r dis Hd Hr))).
Qed.

(* ------------------------------------------------------------------ non-vacuity *)

Ltac zdecide := vm_compute; repeat split; try discriminate; try reflexivity.

(* a server without a send limit, a client declaring 65536 B/s: the reported rate is 65536; the installed sender, with
   datagram size 1200, sends the whole initial burst at t = 1 s, sees 40 acked / 10 lost (ack rate 0.8, bandwidth
   81920 = floor(1.25 x 65536)) and sends one more datagram exactly when it is covered: the hypotheses of the bound
   hold and it is met with equality. *)
Example wire_example :
  let c := mkSrv false 0 0 TBbr in
  let vals := [[x36;x35;x35;x33;x36]] in
  let pre := [OSetMds 1200] in
  let mid := [OEvent 1000000001 40 10; OSent 1014648438 1200] in
  let b0 := brutal_init 65536 false in
  so_decision (server_auth c vals) = Brutal 65536 /\ so_connect_tx (server_auth c vals) = 65536%N /\
  sender_of (so_installed (server_auth c vals)) false = Some b0 /\
  comp_rate 65536 = 81920 /\
  maxBurstPacingDelayMultiplier * MinPacingDelay_ns * comp_rate 65536 < two63 /\
  hist_ok 0 0 (pre ++ OSent 1000000000 12000 :: mid) /\
  wire_first 1200 (brun b0 pre) 1000000000 12000 /\
  wire_ok (comp_rate 65536) 1200 (on_sent (brun b0 pre) 1000000000 12000) mid /\
  sent_bytes (OSent 1000000000 12000 :: mid) = 13200 /\
  burst_bound (comp_rate 65536) 1200 + comp_rate 65536 * (last_sent mid 1000000000 - 1000000000) / ns_per_s = 13200 /\
  windows_ok (comp_rate 65536) (burst_bound (comp_rate 65536) 1200) (sends_of (pre ++ OSent 1000000000 12000 :: mid)) = true.
Proof. zdecide. Qed.

(* the concrete range of rates for which the burst term cannot overflow, with the constants of this build *)
Lemma burst_range_ok r : (r <= 1800000000000)%N ->
  maxBurstPacingDelayMultiplier * MinPacingDelay_ns * comp_rate r < two63.
Proof.
  intro H. unfold comp_rate.
  assert (5 * Z.of_N r / 4 <= 2250000000000) by (apply Z.div_le_upper_bound; lia).
  assert (0 <= 5 * Z.of_N r / 4) by (apply Z.div_pos; lia).
  change (maxBurstPacingDelayMultiplier * MinPacingDelay_ns) with 4000000. unfold two63. lia.
Qed.
