(* C11 proofs, part 2: the sender (window floor, ack-rate table). *)
From Hy Require Import model.C11_Pacer model.C11_Brutal proof.C11_Pacer.
From Coq Require Import ZArith Lia ZifyBool Bool List.
Import ListNotations.
Local Open Scope Z_scope.

Lemma window_floor : forall bps mds rate rtt,
  mds <= cwndNoRTT -> mds <= cwnd_of bps mds rate rtt.
Proof.
  intros bps mds rate rtt H. unfold cwnd_of.
  destruct (rtt <=? 0) eqn:E1; [exact H|].
  match goal with |- context [if ?c <? mds then _ else _] => destruct (c <? mds) eqn:E2 end; lia.
Qed.

Lemma window_floor_b : forall b rtt inflight,
  b_mds b <= cwndNoRTT ->
  b_mds b <= cwnd b rtt /\ (inflight <= b_mds b -> can_send b rtt inflight = true).
Proof.
  intros b rtt inflight H. pose proof (window_floor (b_bps b) (b_mds b) (b_rate b) rtt H) as W.
  split; [exact W|]. intro. unfold can_send. apply Z.leb_le. unfold cwnd. lia.
Qed.

(* ---------- the five-slot table against the specification ---------- *)

Lemma params_brutal : pktInfoSlotCount = 5 /\ minSampleCount = 50 /\ minAckRate_num = 4 /\ minAckRate_den = 5.
Proof. repeat split; reflexivity. Qed.

Definition key (s r : Z) (ts : Z) : bool := (ts =? s) && (ts mod 5 =? r).
Definition total (l : list ev) : Z := cnt (fun e => e_ack e + e_loss e) (fun _ => true) l.

Definition ev_ok (cur : Z) (e : ev) : Prop := 0 <= e_sec e <= cur /\ 0 <= e_ack e /\ 0 <= e_loss e.

Lemma cnt_ext : forall f P Q l, (forall e, In e l -> P (e_sec e) = Q (e_sec e)) -> cnt f P l = cnt f Q l.
Proof.
  induction l as [|e l IH]; intro H; [reflexivity|]. cbn [cnt].
  rewrite (H e (or_introl eq_refl)). rewrite IH; [reflexivity|]. intros. apply H. right. assumption.
Qed.

Lemma cnt_false : forall f l, cnt f (fun _ => false) l = 0.
Proof. induction l; cbn [cnt]; lia. Qed.

Lemma cnt_nonneg : forall f P l, (forall e, In e l -> 0 <= f e) -> 0 <= cnt f P l.
Proof.
  induction l as [|e l IH]; intro H; cbn [cnt]; [lia|].
  pose proof (H e (or_introl eq_refl)). specialize (IH (fun e' h => H e' (or_intror h))).
  destruct (P (e_sec e)); lia.
Qed.

Lemma cnt_le_total_a : forall P cur l, Forall (ev_ok cur) l -> 0 <= cnt e_ack P l /\ 0 <= cnt e_loss P l /\ cnt e_ack P l + cnt e_loss P l <= total l.
Proof.
  induction l as [|e l IH]; intro H; unfold total in *; cbn [cnt]; [lia|].
  inversion H as [|? ? He Hl]; subst. specialize (IH Hl). destruct He as (_ & ? & ?).
  destruct (P (e_sec e)); lia.
Qed.

Lemma cnt_split5 : forall f P l,
  cnt f P l = cnt f (fun ts => P ts && (ts mod 5 =? 0)) l + cnt f (fun ts => P ts && (ts mod 5 =? 1)) l +
              cnt f (fun ts => P ts && (ts mod 5 =? 2)) l + cnt f (fun ts => P ts && (ts mod 5 =? 3)) l +
              cnt f (fun ts => P ts && (ts mod 5 =? 4)) l.
Proof.
  induction l as [|e l IH]; [reflexivity|]. cbn [cnt]. rewrite IH.
  pose proof (Z.mod_pos_bound (e_sec e) 5 ltac:(lia)).
  destruct (P (e_sec e)); cbn [andb]; [|lia].
  assert (C : e_sec e mod 5 = 0 \/ e_sec e mod 5 = 1 \/ e_sec e mod 5 = 2 \/ e_sec e mod 5 = 3 \/ e_sec e mod 5 = 4) by lia.
  destruct C as [C|[C|[C|[C|C]]]]; rewrite C; cbn; lia.
Qed.

Record slot_ok (r : Z) (sl : slot) (evs : list ev) (cur : Z) : Prop := mkSO {
  so_ts : 0 <= sl_ts sl <= cur;
  so_res : sl_ts sl mod 5 = r \/ sl_ts sl = 0;
  so_cur : cur mod 5 = r -> sl_ts sl = cur;
  so_ack : sl_ack sl = cnt e_ack (key (sl_ts sl) r) evs;
  so_loss : sl_loss sl = cnt e_loss (key (sl_ts sl) r) evs;
  so_max : forall e, In e evs -> e_sec e mod 5 = r -> e_sec e <= sl_ts sl }.

Definition inv (slots : list slot) (evs : list ev) (cur : Z) : Prop :=
  exists s0 s1 s2 s3 s4, slots = [s0; s1; s2; s3; s4] /\
    slot_ok 0 s0 evs cur /\ slot_ok 1 s1 evs cur /\ slot_ok 2 s2 evs cur /\ slot_ok 3 s3 evs cur /\ slot_ok 4 s4 evs cur.

(* a slot other than the one the new event falls in *)
Lemma slot_ok_other : forall r sl evs cur c a l,
  slot_ok r sl evs cur -> cur <= c -> c mod 5 <> r ->
  slot_ok r sl ((c, a, l) :: evs) c.
Proof.
  intros r sl evs cur c a l [H1 H2 H3 H4 H5 H6] Hc Hr.
  assert (K : key (sl_ts sl) r c = false).
  { unfold key. destruct (c mod 5 =? r) eqn:E; [apply Z.eqb_eq in E; contradiction|]. apply andb_false_r. }
  split; try assumption.
  - lia.
  - intro; contradiction.
  - cbn [cnt]. change (e_sec (c, a, l)) with c. rewrite K. lia.
  - cbn [cnt]. change (e_sec (c, a, l)) with c. rewrite K. lia.
  - intros e [<-|Hin] He; [change (e_sec (c, a, l)) with c in He; contradiction|]. apply H6; assumption.
Qed.

(* the slot the new event falls in: accumulate or reset *)
Lemma slot_ok_hit : forall r sl evs cur c a l,
  slot_ok r sl evs cur -> 0 <= cur <= c -> c mod 5 = r ->
  (forall e, In e evs -> e_sec e <= cur) ->
  let sl' := if sl_ts sl =? c then mkSlot c (sl_ack sl + a) (sl_loss sl + l) else mkSlot c a l in
  slot_ok r sl' ((c, a, l) :: evs) c.
Proof.
  intros r sl evs cur c a l [H1 H2 H3 H4 H5 H6] Hc Hr Hle sl'.
  assert (K : key c r c = true).
  { unfold key. rewrite Z.eqb_refl. apply Z.eqb_eq in Hr. rewrite Hr. reflexivity. }
  destruct (sl_ts sl =? c) eqn:E.
  - apply Z.eqb_eq in E. subst sl'. split; cbn [sl_ts sl_ack sl_loss].
    + lia.
    + left; assumption.
    + reflexivity.
    + cbn [cnt]. change (e_sec (c, a, l)) with c. rewrite K. rewrite H4, E. change (e_ack (c, a, l)) with a. lia.
    + cbn [cnt]. change (e_sec (c, a, l)) with c. rewrite K. rewrite H5, E. change (e_loss (c, a, l)) with l. lia.
    + intros e [<-|Hin] He; [change (e_sec (c, a, l)) with c; lia|]. specialize (H6 e Hin He). lia.
  - apply Z.eqb_neq in E. subst sl'. split; cbn [sl_ts sl_ack sl_loss].
    + lia.
    + left; assumption.
    + reflexivity.
    + cbn [cnt]. change (e_sec (c, a, l)) with c. rewrite K. change (e_ack (c, a, l)) with a.
      rewrite (cnt_ext _ (key c r) (fun _ => false)); [rewrite cnt_false; lia|].
      intros e Hin. unfold key. destruct (e_sec e =? c) eqn:E1; [|reflexivity].
      apply Z.eqb_eq in E1. destruct (e_sec e mod 5 =? r) eqn:E2; [|reflexivity].
      apply Z.eqb_eq in E2. specialize (H6 e Hin E2). specialize (Hle e Hin). lia.
    + cbn [cnt]. change (e_sec (c, a, l)) with c. rewrite K. change (e_loss (c, a, l)) with l.
      rewrite (cnt_ext _ (key c r) (fun _ => false)); [rewrite cnt_false; lia|].
      intros e Hin. unfold key. destruct (e_sec e =? c) eqn:E1; [|reflexivity].
      apply Z.eqb_eq in E1. destruct (e_sec e mod 5 =? r) eqn:E2; [|reflexivity].
      apply Z.eqb_eq in E2. specialize (H6 e Hin E2). specialize (Hle e Hin). lia.
    + intros e [<-|Hin] He; [change (e_sec (c, a, l)) with c; lia|]. specialize (H6 e Hin He). specialize (Hle e Hin). lia.
Qed.

(* what one slot contributes to the sums of updateAckRate, against the specification *)
Definition inw (f : slot -> Z) (m : Z) (sl : slot) : Z := if sl_ts sl <? m then 0 else f sl.

Lemma slot_window : forall r sl evs cur, 0 <= r < 5 ->
  slot_ok r sl evs cur -> (forall e, In e evs -> 0 <= e_sec e <= cur) ->
  inw sl_ack (cur - 5) sl = cnt e_ack (fun ts => inwin cur ts && (ts mod 5 =? r)) evs /\
  inw sl_loss (cur - 5) sl = cnt e_loss (fun ts => inwin cur ts && (ts mod 5 =? r)) evs.
Proof.
  intros r sl evs cur Hr [H1 H2 H3 H4 H5 H6] Hev. unfold inw.
  destruct (sl_ts sl <? cur - 5) eqn:E.
  - apply Z.ltb_lt in E.
    assert (X : forall e, In e evs -> inwin cur (e_sec e) && (e_sec e mod 5 =? r) = false).
    { intros e Hin. destruct (e_sec e mod 5 =? r) eqn:E2; [|apply andb_false_r].
      apply Z.eqb_eq in E2. specialize (H6 e Hin E2). unfold inwin.
      destruct (cur - 4 <=? e_sec e) eqn:E3; [apply Z.leb_le in E3; lia|reflexivity]. }
    split; (rewrite (cnt_ext _ _ (fun _ => false)); [rewrite cnt_false; reflexivity|exact X]).
  - apply Z.ltb_ge in E.
    assert (X : forall e, In e evs -> key (sl_ts sl) r (e_sec e) = inwin cur (e_sec e) && (e_sec e mod 5 =? r)).
    { intros e Hin. unfold key, inwin. specialize (Hev e Hin).
      destruct (e_sec e mod 5 =? r) eqn:E2; [|rewrite !andb_false_r; reflexivity].
      apply Z.eqb_eq in E2. specialize (H6 e Hin E2). rewrite !andb_true_r.
      destruct (e_sec e =? sl_ts sl) eqn:E3.
      - apply Z.eqb_eq in E3. symmetry. apply andb_true_iff. split; apply Z.leb_le; [|lia].
        destruct (Z.eq_dec (sl_ts sl) (cur - 5)) as [Q|Q]; [exfalso|lia].
        assert (cur mod 5 = r).
        { destruct H2 as [H2|H2].
          - rewrite <- H2, Q. replace (cur - 5) with (cur + (-1) * 5) by lia. rewrite Z.mod_add by lia. reflexivity.
          - rewrite <- E2, E3, H2. assert (cur = 5) by lia. subst cur. reflexivity. }
        specialize (H3 H). lia.
      - apply Z.eqb_neq in E3. symmetry. apply andb_false_iff.
        destruct (Z_lt_le_dec (e_sec e) (cur - 4)) as [L|L]; [left; apply Z.leb_gt; lia|exfalso].
        destruct H2 as [H2|H2].
        + (* same residue, distance < 5 *)
          pose proof (Z.div_mod (e_sec e) 5 ltac:(lia)). pose proof (Z.div_mod (sl_ts sl) 5 ltac:(lia)).
          rewrite E2 in H. rewrite H2 in H0. lia.
        + lia. }
    split; [rewrite H4|rewrite H5]; apply cnt_ext; exact X.
Qed.

Definition sumw (f : slot -> Z) (m : Z) (slots : list slot) : Z := fold_right (fun s a => inw f m s + a) 0 slots.

Lemma sumw_nonneg : forall f m slots, Forall (fun s => 0 <= f s) slots -> 0 <= sumw f m slots.
Proof.
  induction slots as [|s slots IH]; intro H; [cbn; lia|].
  inversion H; subst. specialize (IH H3). unfold sumw in *. cbn [fold_right]. unfold inw at 1.
  destruct (sl_ts s <? m); lia.
Qed.

Lemma ws_gen : forall slots acc m,
  0 <= fst acc -> 0 <= snd acc ->
  Forall (fun s => 0 <= sl_ack s /\ 0 <= sl_loss s) slots ->
  fst acc + sumw sl_ack m slots < two64 -> snd acc + sumw sl_loss m slots < two64 ->
  fold_left (fun acc s => if sl_ts s <? m then acc
                          else (wrapu64 (fst acc + sl_ack s), wrapu64 (snd acc + sl_loss s))) slots acc
  = (fst acc + sumw sl_ack m slots, snd acc + sumw sl_loss m slots).
Proof.
  induction slots as [|s slots IH]; intros acc m Ha Hl Hs H1 H2.
  - cbn. destruct acc; cbn. f_equal; lia.
  - inversion Hs as [|? ? [Hs1 Hs2] Hs']; subst.
    assert (N1 : 0 <= sumw sl_ack m slots).
    { apply sumw_nonneg. eapply Forall_impl; [|exact Hs']. cbn. intros ? [? ?]. assumption. }
    assert (N2 : 0 <= sumw sl_loss m slots).
    { apply sumw_nonneg. eapply Forall_impl; [|exact Hs']. cbn. intros ? [? ?]. assumption. }
    cbn [fold_left sumw fold_right] in *. fold (sumw sl_ack m slots) in *. fold (sumw sl_loss m slots) in *.
    unfold inw in *. destruct (sl_ts s <? m).
    + rewrite IH; try assumption; try lia. f_equal; lia.
    + rewrite !wrapu64_small by lia.
      rewrite IH; cbn [fst snd]; try assumption; try lia. f_equal; lia.
Qed.

Lemma total_cons : forall c a l evs, total ((c, a, l) :: evs) = a + l + total evs.
Proof. intros. unfold total. cbn [cnt]. reflexivity. Qed.

Lemma rem5 : forall c, 0 <= c -> Z.rem c 5 = c mod 5.
Proof. intros. apply Z.rem_mod_nonneg; lia. Qed.

Lemma on_event_inv : forall b evs cur t a l,
  inv (b_slots b) evs cur -> Forall (ev_ok cur) evs ->
  0 <= cur <= Z.quot t ns_per_s -> 0 <= t < two63 -> 0 <= a -> 0 <= l ->
  total (evt t a l :: evs) < two64 ->
  let c := Z.quot t ns_per_s in
  let A := cnt e_ack (inwin c) (evt t a l :: evs) in
  let L := cnt e_loss (inwin c) (evt t a l :: evs) in
  exists b', on_event b t a l = Ok b' /\
    inv (b_slots b') (evt t a l :: evs) c /\ Forall (ev_ok c) (evt t a l :: evs) /\
    b_rate b' = (if b_disable b then f_one else rate_f A L) /\
    b_rateq b' = (if b_disable b then (1, 1) else rate_q A L) /\
    b_bps b' = b_bps b /\ b_mds b' = b_mds b /\ b_pacer b' = b_pacer b /\ b_disable b' = b_disable b.
Proof.
  intros b evs cur t a l (s0 & s1 & s2 & s3 & s4 & Hsl & K0 & K1 & K2 & K3 & K4) Hev Hc Ht Ha Hl Htot c A L.
  unfold evt in *. fold c in Htot, A, L |- *.
  assert (Hc63 : c < two63).
  { unfold c. rewrite quot_div by lia. apply Z.div_lt_upper_bound; unfold ns_per_s, two63 in *; lia. }
  assert (Hle : forall e, In e evs -> e_sec e <= cur).
  { intros e Hin. rewrite Forall_forall in Hev. destruct (Hev e Hin). lia. }
  assert (Hev' : Forall (ev_ok c) ((c, a, l) :: evs)).
  { constructor; [unfold ev_ok; cbn; lia|]. rewrite Forall_forall in *. intros e Hin. destruct (Hev e Hin) as (? & ? & ?). unfold ev_ok. lia. }
  assert (Hle' : forall e, In e ((c, a, l) :: evs) -> 0 <= e_sec e <= c).
  { intros e Hin. rewrite Forall_forall in Hev'. destruct (Hev' e Hin). lia. }
  assert (Htot' : a + l + total evs < two64) by (rewrite <- (total_cons c a l evs); exact Htot).
  (* no counter wraps: every slot holds at most the total number of packets reported so far *)
  assert (Bnd : forall P, 0 <= cnt e_ack P evs /\ 0 <= cnt e_loss P evs /\ cnt e_ack P evs + cnt e_loss P evs <= total evs).
  { intro P. apply cnt_le_total_a with (cur := cur). assumption. }
  assert (Bnd' : forall P, 0 <= cnt e_ack P ((c, a, l) :: evs) /\ 0 <= cnt e_loss P ((c, a, l) :: evs) /\
                           cnt e_ack P ((c, a, l) :: evs) + cnt e_loss P ((c, a, l) :: evs) <= a + l + total evs).
  { intro P. rewrite <- (total_cons c a l evs). apply cnt_le_total_a with (cur := c). assumption. }
  rename Htot' into Htot2. unfold on_event. fold c. unfold pktInfoSlotCount. rewrite rem5 by lia.
  pose proof (Z.mod_pos_bound c 5 ltac:(lia)) as Hm.
  destruct (c mod 5 <? 0) eqn:E; [apply Z.ltb_lt in E; lia|]. clear E.
  (* the state after the table update, with the invariant re-established *)
  assert (Hnew : exists n0 n1 n2 n3 n4,
     upd_slot (Z.to_nat (c mod 5))
       (let s := nth (Z.to_nat (c mod 5)) (b_slots b) slot_default in
        if sl_ts s =? c then mkSlot c (wrapu64 (sl_ack s + a)) (wrapu64 (sl_loss s + l)) else mkSlot c a l)
       (b_slots b) = [n0; n1; n2; n3; n4] /\
     slot_ok 0 n0 ((c, a, l) :: evs) c /\ slot_ok 1 n1 ((c, a, l) :: evs) c /\ slot_ok 2 n2 ((c, a, l) :: evs) c /\
     slot_ok 3 n3 ((c, a, l) :: evs) c /\ slot_ok 4 n4 ((c, a, l) :: evs) c).
  { rewrite Hsl.
    assert (Hw : forall r s, slot_ok r s evs cur ->
              (if sl_ts s =? c then mkSlot c (wrapu64 (sl_ack s + a)) (wrapu64 (sl_loss s + l)) else mkSlot c a l) =
              (if sl_ts s =? c then mkSlot c (sl_ack s + a) (sl_loss s + l) else mkSlot c a l)).
    { intros r s K. destruct (sl_ts s =? c); [|reflexivity].
      destruct (Bnd (key (sl_ts s) r)) as (B1 & B2 & B3). rewrite <- (so_ack _ _ _ _ K), <- (so_loss _ _ _ _ K) in *.
      rewrite !wrapu64_small by lia. reflexivity. }
    assert (C : c mod 5 = 0 \/ c mod 5 = 1 \/ c mod 5 = 2 \/ c mod 5 = 3 \/ c mod 5 = 4) by lia.
    destruct C as [C|[C|[C|[C|C]]]]; rewrite C;
      [change (Z.to_nat 0) with 0%nat|change (Z.to_nat 1) with 1%nat|change (Z.to_nat 2) with 2%nat|change (Z.to_nat 3) with 3%nat|change (Z.to_nat 4) with 4%nat];
      cbn [nth upd_slot].
    - rewrite (Hw 0 s0 K0). do 5 eexists. split; [reflexivity|].
      refine (conj _ (conj _ (conj _ (conj _ _))));
        try (apply slot_ok_other with (cur := cur); [assumption|lia|lia]);
        apply slot_ok_hit with (cur := cur); assumption || lia.
    - rewrite (Hw 1 s1 K1). do 5 eexists. split; [reflexivity|].
      refine (conj _ (conj _ (conj _ (conj _ _))));
        try (apply slot_ok_other with (cur := cur); [assumption|lia|lia]);
        apply slot_ok_hit with (cur := cur); assumption || lia.
    - rewrite (Hw 2 s2 K2). do 5 eexists. split; [reflexivity|].
      refine (conj _ (conj _ (conj _ (conj _ _))));
        try (apply slot_ok_other with (cur := cur); [assumption|lia|lia]);
        apply slot_ok_hit with (cur := cur); assumption || lia.
    - rewrite (Hw 3 s3 K3). do 5 eexists. split; [reflexivity|].
      refine (conj _ (conj _ (conj _ (conj _ _))));
        try (apply slot_ok_other with (cur := cur); [assumption|lia|lia]);
        apply slot_ok_hit with (cur := cur); assumption || lia.
    - rewrite (Hw 4 s4 K4). do 5 eexists. split; [reflexivity|].
      refine (conj _ (conj _ (conj _ (conj _ _))));
        try (apply slot_ok_other with (cur := cur); [assumption|lia|lia]);
        apply slot_ok_hit with (cur := cur); assumption || lia. }
  cbv zeta in Hnew. destruct Hnew as (n0 & n1 & n2 & n3 & n4 & Hupd & N0 & N1 & N2 & N3 & N4).
  cbv zeta. rewrite Hupd.
  (* the sums of updateAckRate are the window counts of the specification *)
  assert (HW : window_sums [n0; n1; n2; n3; n4] (wrap64 (c - 5)) = (A, L)).
  { rewrite wrap64_small by (unfold two63 in *; lia). unfold window_sums.
    pose proof (slot_window 0 n0 _ c ltac:(lia) N0 Hle') as [A0 L0].
    pose proof (slot_window 1 n1 _ c ltac:(lia) N1 Hle') as [A1 L1].
    pose proof (slot_window 2 n2 _ c ltac:(lia) N2 Hle') as [A2 L2].
    pose proof (slot_window 3 n3 _ c ltac:(lia) N3 Hle') as [A3 L3].
    pose proof (slot_window 4 n4 _ c ltac:(lia) N4 Hle') as [A4 L4].
    assert (SA : sumw sl_ack (c - 5) [n0; n1; n2; n3; n4] = A).
    { unfold sumw. cbn [fold_right]. rewrite A0, A1, A2, A3, A4. unfold A. rewrite (cnt_split5 e_ack (inwin c)). lia. }
    assert (SL : sumw sl_loss (c - 5) [n0; n1; n2; n3; n4] = L).
    { unfold sumw. cbn [fold_right]. rewrite L0, L1, L2, L3, L4. unfold L. rewrite (cnt_split5 e_loss (inwin c)). lia. }
    destruct (Bnd' (inwin c)) as (B1 & B2 & B3). fold A L in B1, B2, B3.
    rewrite ws_gen; cbn [fst snd]; try lia.
    - rewrite SA, SL. reflexivity.
    - repeat constructor;
        match goal with
        | |- 0 <= sl_ack ?n => match goal with K : slot_ok ?r n _ _ |- _ => rewrite (so_ack _ _ _ _ K); apply (Bnd' (key (sl_ts n) r)) end
        | |- 0 <= sl_loss ?n => match goal with K : slot_ok ?r n _ _ |- _ => rewrite (so_loss _ _ _ _ K); apply (Bnd' (key (sl_ts n) r)) end
        end. }
  unfold update_ack_rate, pktInfoSlotCount. rewrite HW.
  destruct (b_disable b) eqn:Ed.
  - eexists. split; [reflexivity|]. cbn [b_slots b_rate b_rateq b_bps b_mds b_pacer b_disable].
    split; [exists n0, n1, n2, n3, n4; refine (conj _ (conj _ (conj _ (conj _ (conj _ _))))); assumption || reflexivity|].
    refine (conj _ (conj _ (conj _ (conj _ (conj _ (conj _ _)))))); try assumption; reflexivity.
  - eexists. split; [reflexivity|]. cbn [b_slots b_rate b_rateq b_bps b_mds b_pacer b_disable].
    split; [exists n0, n1, n2, n3, n4; refine (conj _ (conj _ (conj _ (conj _ (conj _ _))))); assumption || reflexivity|].
    refine (conj _ (conj _ (conj _ (conj _ (conj _ (conj _ _)))))); try assumption; reflexivity.
Qed.

(* ---------- histories ---------- *)

Definition rate_spec (b : brutal) (evs : list ev) (cur : Z) : Prop :=
  let A := cnt e_ack (inwin cur) evs in
  let L := cnt e_loss (inwin cur) evs in
  b_rate b = (if b_disable b then f_one else rate_f A L) /\
  b_rateq b = (if b_disable b then (1, 1) else rate_q A L).

Lemma brun_inv : forall l b evs cur,
  inv (b_slots b) evs cur -> Forall (ev_ok cur) evs -> 0 <= cur -> rate_spec b evs cur ->
  hist_ok cur (total evs) l ->
  let b' := brun b l in
  let st := ev_hist l (evs, cur) in
  inv (b_slots b') (fst st) (snd st) /\ rate_spec b' (fst st) (snd st) /\
  b_disable b' = b_disable b /\ b_bps b' = b_bps b.
Proof.
  induction l as [|o l IH]; intros b evs cur Hinv Hev Hcur Hrate Hok.
  - cbn [brun ev_hist fold_left fst snd]. exact (conj Hinv (conj Hrate (conj eq_refl eq_refl))).
  - destruct o as [t size|t a n|s|].
    + (* OnPacketSent: the table and the rate are untouched *)
      cbn [hist_ok] in Hok. cbn [brun bstep fst ev_hist fold_left ev_step].
      specialize (IH (on_sent b t size) evs cur Hinv Hev Hcur Hrate Hok). exact IH.
    + cbn [hist_ok] in Hok. destruct Hok as (Ht & Hc & Ha & Hn & Htot & Hok).
      destruct (on_event_inv b evs cur t a n Hinv Hev ltac:(lia) Ht Ha Hn
                  ltac:(unfold evt; rewrite total_cons; lia))
        as (b1 & E & I1 & I2 & R1 & R2 & F1 & F2 & F3 & F4).
      cbn [brun bstep ev_hist fold_left ev_step fst]. rewrite E. cbn [fst].
      assert (Hc0 : 0 <= Z.quot t ns_per_s) by lia.
      assert (RS : rate_spec b1 (evt t a n :: evs) (Z.quot t ns_per_s)).
      { unfold rate_spec. rewrite F4. split; assumption. }
      assert (Hok' : hist_ok (Z.quot t ns_per_s) (total (evt t a n :: evs)) l).
      { unfold evt. rewrite total_cons. replace (a + n + total evs) with (total evs + a + n) by lia. exact Hok. }
      specialize (IH b1 (evt t a n :: evs) (Z.quot t ns_per_s) I1 I2 Hc0 RS Hok').
      cbv zeta in IH. destruct IH as (J1 & J2 & J3 & J4).
      refine (conj J1 (conj J2 (conj _ _))); congruence.
    + cbn [hist_ok] in Hok. cbn [brun bstep fst ev_hist fold_left ev_step].
      specialize (IH (on_set_mds b s) evs cur Hinv Hev Hcur Hrate Hok). exact IH.
    + cbn [hist_ok] in Hok. cbn [brun bstep fst ev_hist fold_left ev_step].
      specialize (IH b evs cur Hinv Hev Hcur Hrate Hok). exact IH.
Qed.

Lemma inv_init : inv (repeat (mkSlot 0 0 0) (Z.to_nat pktInfoSlotCount)) [] 0.
Proof.
  exists (mkSlot 0 0 0), (mkSlot 0 0 0), (mkSlot 0 0 0), (mkSlot 0 0 0), (mkSlot 0 0 0).
  split; [reflexivity|].
  refine (conj _ (conj _ (conj _ (conj _ _)))); (split; cbn; try lia; try (right; reflexivity); try reflexivity; intros; contradiction).
Qed.

Lemma ack_rate_value : forall bps dis l,
  hist_ok 0 0 l ->
  let b := brun (brutal_init bps dis) l in
  let st := ev_hist l ([], 0) in
  let A := cnt e_ack (inwin (snd st)) (fst st) in
  let L := cnt e_loss (inwin (snd st)) (fst st) in
  b_rate b = (if dis then f_one else rate_f A L) /\
  b_rateq b = (if dis then (1, 1) else rate_q A L).
Proof.
  intros bps dis l Hok.
  pose proof (brun_inv l (brutal_init bps dis) [] 0) as H.
  cbn [b_slots brutal_init] in H.
  specialize (H inv_init (Forall_nil _) ltac:(lia)).
  assert (R0 : rate_spec (brutal_init bps dis) [] 0).
  { unfold rate_spec. cbn [b_rate b_rateq b_disable brutal_init cnt]. destruct dis; split; reflexivity. }
  specialize (H R0 Hok). cbv zeta in H. destruct H as (_ & (R1 & R2) & D & _).
  cbv zeta. rewrite D in R1, R2. cbn [b_disable brutal_init] in R1, R2. split; assumption.
Qed.

(* ---------- the exact (rational) rate: value and range ---------- *)

Lemma cnt_bounds : forall P cur l, Forall (ev_ok cur) l ->
  0 <= cnt e_ack P l /\ 0 <= cnt e_loss P l /\ cnt e_ack P l + cnt e_loss P l <= total l.
Proof. exact cnt_le_total_a. Qed.

Lemma rate_q_cases : forall A L, 0 <= A -> 0 <= L -> A + L < two64 ->
  (A + L < 50 -> rate_q A L = (1, 1)) /\
  (50 <= A + L -> 5 * A < 4 * (A + L) -> rate_q A L = (4, 5)) /\
  (50 <= A + L -> 4 * (A + L) <= 5 * A -> rate_q A L = (A, A + L)).
Proof.
  intros A L HA HL HS. unfold rate_q, minSampleCount, minAckRate_num, minAckRate_den.
  rewrite wrapu64_small by lia.
  destruct (A + L <? 50) eqn:E1; [apply Z.ltb_lt in E1|apply Z.ltb_ge in E1].
  - repeat split; intros; try lia; reflexivity.
  - destruct (A * 5 <? 4 * (A + L)) eqn:E2; [apply Z.ltb_lt in E2|apply Z.ltb_ge in E2];
      repeat split; intros; try lia; try reflexivity.
Qed.

Lemma rate_q_range : forall A L, 0 <= A -> 0 <= L -> A + L < two64 ->
  let n := fst (rate_q A L) in let d := snd (rate_q A L) in
  0 < d /\ 4 * d <= 5 * n /\ n <= d.
Proof.
  intros A L HA HL HS. destruct (rate_q_cases A L HA HL HS) as (C1 & C2 & C3). cbv zeta.
  destruct (Z_lt_le_dec (A + L) 50) as [Q|Q]; [rewrite (C1 Q); cbn; lia|].
  destruct (Z_lt_le_dec (5 * A) (4 * (A + L))) as [Q2|Q2]; [rewrite (C2 Q Q2); cbn; lia|].
  rewrite (C3 Q Q2). cbn [fst snd]. lia.
Qed.

(* hist_ok keeps the totals in range and every batch well-formed *)
Lemma hist_wf : forall l evs cur,
  Forall (ev_ok cur) evs -> 0 <= cur -> total evs < two64 -> hist_ok cur (total evs) l ->
  let st := ev_hist l (evs, cur) in
  Forall (ev_ok (snd st)) (fst st) /\ total (fst st) < two64.
Proof.
  induction l as [|o l IH]; intros evs cur Hev Hc Ht Hok.
  - cbn. split; assumption.
  - destruct o as [t size|t a n|s|]; cbn [hist_ok] in Hok; cbn [ev_hist fold_left ev_step fst];
      try (apply IH; assumption).
    destruct Hok as (Ht1 & Hc1 & Ha & Hn & Htot & Hok).
    apply IH.
    + constructor; [unfold ev_ok, evt; cbn; lia|].
      rewrite Forall_forall in *. intros e Hin. destruct (Hev e Hin) as (? & ? & ?). unfold ev_ok. lia.
    + lia.
    + unfold evt. rewrite total_cons. lia.
    + unfold evt. rewrite total_cons. replace (a + n + total evs) with (total evs + a + n) by lia. exact Hok.
Qed.

(* the full statement about the loss-compensation factor in exact arithmetic *)
Lemma ack_rate_q_full : forall bps dis l,
  hist_ok 0 0 l ->
  let b := brun (brutal_init bps dis) l in
  let st := ev_hist l ([], 0) in
  let A := cnt e_ack (inwin (snd st)) (fst st) in
  let L := cnt e_loss (inwin (snd st)) (fst st) in
  let n := fst (b_rateq b) in let d := snd (b_rateq b) in
  0 < d /\ 4 * d <= 5 * n /\ n <= d /\
  (dis = true -> b_rateq b = (1, 1)) /\
  (A + L < 50 -> b_rateq b = (1, 1)) /\
  (dis = false -> 50 <= A + L -> 4 * (A + L) <= 5 * A -> b_rateq b = (A, A + L)) /\
  (dis = false -> 50 <= A + L -> 5 * A < 4 * (A + L) -> b_rateq b = (4, 5)).
Proof.
  intros bps dis l Hok.
  pose proof (ack_rate_value bps dis l Hok) as [_ R]. cbv zeta in R.
  pose proof (hist_wf l [] 0 (Forall_nil _) ltac:(lia) ltac:(cbn; unfold two64; lia) Hok) as [W1 W2]. cbv zeta in W1, W2.
  cbv zeta. set (st := ev_hist l ([], 0)) in *.
  destruct (cnt_bounds (inwin (snd st)) _ _ W1) as (B1 & B2 & B3).
  set (A := cnt e_ack (inwin (snd st)) (fst st)) in *. set (L := cnt e_loss (inwin (snd st)) (fst st)) in *.
  assert (HS : A + L < two64) by lia.
  destruct (rate_q_cases A L B1 B2 HS) as (C1 & C2 & C3).
  pose proof (rate_q_range A L B1 B2 HS) as RR. cbv zeta in RR.
  rewrite R. destruct dis.
  - cbn [fst snd]. repeat split; intros; try lia; try reflexivity; discriminate.
  - destruct RR as (R1 & R2 & R3). repeat split; intros; try assumption; try discriminate; auto.
Qed.

(* ---------- the pacer bandwidth against the configured rate (exact arithmetic) ---------- *)

(* bandwidth = trunc(bps / ackRate).  For the exact rate n/d in [0.8, 1]:
   bps <= floor(bps * d / n) <= floor(1.25 * bps). *)
Lemma bandwidth_bound_q : forall bps n d,
  0 <= bps -> 0 < d -> 4 * d <= 5 * n -> n <= d ->
  bps <= bps * d / n <= 5 * bps / 4.
Proof.
  intros bps n d Hb Hd H1 H2. assert (Hn : 0 < n) by lia. split.
  - apply Z.div_le_lower_bound; [lia|]. nia.
  - apply Z.div_le_lower_bound; [lia|].
    pose proof (Z.mul_div_le (bps * d) n Hn) as Q.
    assert (n * (4 * (bps * d / n)) <= n * (5 * bps)) by nia.
    apply Z.mul_le_mono_pos_l in H; assumption.
Qed.

(* the same two inequalities for the float computation the code performs, evaluated in the kernel
   on a grid of rates and ack rates (boundary values of both); a test, not a proof for all inputs *)
Definition bw_grid_rates : list Z :=
  [65536; 65537; 99999; 1000000; 3200000; 12500000; 125000000; 1250000000; 5000000000; 6249999999;
   1125899906842623 (* 2^50 - 1 *)].
Definition bw_grid_acks : list (Z * Z) :=
  [(40, 10); (4000, 1000); (41, 9); (50, 0); (49, 1); (999, 1); (4001, 1000); (8001, 2000); (81, 20); (100, 21); (3, 0)].
Definition bw_grid_ok : bool :=
  forallb (fun bps => forallb (fun al =>
     let r := rate_f (fst al) (snd al) in
     let bw := bandwidth_of bps r in
     (bps <=? bw) && (bw <=? 5 * bps / 4) && fleb min_ack_rate r && fleb r f_one) bw_grid_acks) bw_grid_rates.
Example bandwidth_bound_grid : bw_grid_ok = true.
Proof. vm_compute. reflexivity. Qed.

Lemma min_ack_rate_bits_ok : bits min_ack_rate = minAckRate_bits.
Proof. vm_compute. reflexivity. Qed.

(* ---------- non-vacuity of the history theorems ---------- *)

(* 45 acked + 5 lost in second 3, 30 + 30 in second 5, then a batch 6 s later: the first two have
   left the window, 60 + 10 remain: rate 6/7; one more lossy batch clamps at 4/5 *)
Example ack_hist_ex :
  let l := [OEvent 3100000000 45 5; OSent 3200000000 1200; OEvent 5000000001 30 30; OSetMds 1452;
            OEvent 11999999999 60 10] in
  hist_ok 0 0 l /\
  b_rateq (brun (brutal_init 1000000 false) l) = (60, 70) /\
  b_rateq (brun (brutal_init 1000000 false) (l ++ [OEvent 12000000000 0 10])) = (4, 5) /\
  bits (b_rate (brun (brutal_init 1000000 false) (l ++ [OEvent 12000000000 0 10]))) = minAckRate_bits /\
  b_rateq (brun (brutal_init 1000000 true) l) = (1, 1).
Proof. vm_compute. repeat split; try discriminate; reflexivity. Qed.

(* ---------- the sender drives the pacer exactly as a pacer-level send history ---------- *)

Lemma set_mds_twice : forall p a c, set_mds (set_mds p a) c = set_mds p c.
Proof. reflexivity. Qed.

Lemma sent_set_mds : forall bw p m t size, set_mds (sent bw (set_mds p m) t size) m = sent bw (set_mds p m) t size.
Proof. reflexivity. Qed.

Lemma bstep_event_fields : forall b t a n,
  b_pacer (fst (bstep b (OEvent t a n))) = b_pacer b /\ b_mds (fst (bstep b (OEvent t a n))) = b_mds b.
Proof.
  intros. cbn [bstep]. unfold on_event.
  destruct (_ <? 0); [split; reflexivity|].
  destruct (update_ack_rate _ _ _) as [r q]. split; reflexivity.
Qed.

Lemma pacer_of_brun : forall l b p,
  b_pacer b = set_mds p (b_mds b) ->
  b_pacer (brun b l) = set_mds (prun p (psends_of b l)) (b_mds (brun b l)).
Proof.
  induction l as [|o l IH]; intros b p H; [exact H|].
  destruct o as [t size|t a n|s|].
  - cbn [brun psends_of]. cbn [bstep fst]. apply IH.
    cbn [on_sent b_pacer b_mds prun psend_step s_bw s_mds s_t s_size]. rewrite H.
    symmetry. apply sent_set_mds.
  - change (brun b (OEvent t a n :: l)) with (brun (fst (bstep b (OEvent t a n))) l).
    change (psends_of b (OEvent t a n :: l)) with (psends_of (fst (bstep b (OEvent t a n))) l).
    destruct (bstep_event_fields b t a n) as [E1 E2]. apply IH. rewrite E1, E2. exact H.
  - cbn [brun psends_of bstep fst]. apply IH. cbn [on_set_mds b_pacer b_mds]. rewrite H. reflexivity.
  - cbn [brun psends_of bstep fst]. apply IH. exact H.
Qed.

Lemma pacer_of_brun_init : forall bps dis l,
  let b := brun (brutal_init bps dis) l in
  b_pacer b = set_mds (prun pacer_init (psends_of (brutal_init bps dis) l)) (b_mds b).
Proof. intros. apply pacer_of_brun. reflexivity. Qed.
