(* C11 proofs, part 3: the arguments OnPacketSent does not read (bytesInFlight, packetNumber,
   isRetransmittable) are irrelevant to the sender - in particular a packet that is not
   ack-eliciting is charged to the pacer like any other, so the rate bound of proof/C11_Pacer.v
   speaks about every byte released through the pacing gate. *)
From Hy Require Import model.C11_Calls proof.C11_Pacer proof.C11_Brutal.
From Coq Require Import ZArith Bool List Lia.
Import ListNotations.
Local Open Scope Z_scope.

Lemma on_packet_sent_erase : forall b t infl pn size rx,
  on_packet_sent b t infl pn size rx = on_sent b t size.
Proof. reflexivity. Qed.

Lemma kstep_erase : forall b c, kstep b c = bstep b (erase c).
Proof. intros b [t infl pn size rx|t a l|s|]; reflexivity. Qed.

Lemma krun_erase : forall l b, krun b l = brun b (map erase l).
Proof.
  induction l as [|c l IH]; intros b; [reflexivity|].
  cbn [krun map brun]. rewrite kstep_erase. apply IH.
Qed.

Lemma ksends_erase : forall l b, ksends_of b l = psends_of b (map erase l).
Proof.
  induction l as [|c l IH]; intros b; [reflexivity|].
  cbn [ksends_of map psends_of]. rewrite kstep_erase.
  destruct c as [t infl pn size rx|t a n|s|]; cbn [erase]; rewrite IH; reflexivity.
Qed.

(* one call: whatever the three unread arguments are, the resulting sender is the same *)
Lemma sent_args_irrelevant : forall b t size infl pn rx infl' pn' rx',
  on_packet_sent b t infl pn size rx = on_packet_sent b t infl' pn' size rx'.
Proof. reflexivity. Qed.

(* whole histories *)
Lemma calls_irrelevant : forall b l l',
  same_calls l l' ->
  krun b l = krun b l' /\ ksends_of b l = ksends_of b l'.
Proof.
  intros b l l' H. unfold same_calls in H.
  rewrite !krun_erase, !ksends_erase, H. split; reflexivity.
Qed.

Lemma set_flag_same : forall r l, same_calls l (map (set_flag r) l).
Proof.
  intros r l. unfold same_calls. rewrite map_map. apply map_ext.
  intros [t infl pn size rx|t a n|s|]; reflexivity.
Qed.

(* every query the send loop makes answers the same, whatever the flags were *)
Lemma flag_irrelevant : forall b l r now,
  let b1 := krun b l in
  let b2 := krun b (map (set_flag r) l) in
  b1 = b2 /\
  b_budget b1 now = b_budget b2 now /\
  has_pacing_budget b1 now = has_pacing_budget b2 now /\
  b_time_until_send b1 = b_time_until_send b2 /\
  ksends_of b l = ksends_of b (map (set_flag r) l).
Proof.
  intros b l r now b1 b2.
  destruct (calls_irrelevant b l (map (set_flag r) l) (set_flag_same r l)) as [E1 E2].
  subst b1 b2. rewrite <- E1. repeat split; try reflexivity. exact E2.
Qed.

(* every released byte is in the pacer-level history *)
Lemma bytes_of_cons : forall s l, bytes_of (s :: l) = s_size s + bytes_of l.
Proof. reflexivity. Qed.

Lemma bytes_of_ksends : forall l b, bytes_of (ksends_of b l) = released l.
Proof.
  induction l as [|c l IH]; intros b; [reflexivity|].
  destruct c as [t infl pn size rx|t a n|s|]; cbn [ksends_of released]; rewrite ?bytes_of_cons, IH; reflexivity.
Qed.

Lemma released_retrans_le : forall l,
  Forall (fun c => match c with KSent _ _ _ size _ => 0 <= size | _ => True end) l ->
  released_retrans l <= released l.
Proof.
  induction 1 as [|c l Hc _ IH]; [cbn; lia|].
  destruct c as [t infl pn size [|]|t a n|s|]; cbn [released released_retrans]; lia.
Qed.

(* the sender's pacer is the pacer-level state reached by ALL its sends *)
Lemma pacer_of_krun_init : forall bps dis l,
  let b := krun (brutal_init bps dis) l in
  b_pacer b = set_mds (prun pacer_init (ksends_of (brutal_init bps dis) l)) (b_mds b) /\
  bytes_of (ksends_of (brutal_init bps dis) l) = released l.
Proof.
  intros bps dis l b. subst b. split; [|apply bytes_of_ksends].
  rewrite krun_erase, ksends_erase. apply pacer_of_brun_init.
Qed.

(* ---------- non-vacuity: packets that are not ack-eliciting do drain the bucket ----------
   1 MB/s, ten full datagrams flagged isRetransmittable = false at one instant: the initial burst
   is used up, the pacing gate is closed and re-opens 1.28 ms later; with a retransmittable packet
   in between the state is the same as with the flags exchanged. *)
Example nonretrans_drains :
  let b0 := brutal_init 1000000 false in
  let ten := repeat (KSent 1000000000 0 0 1280 false) 10 in
  has_pacing_budget b0 1000000000 = true /\
  has_pacing_budget (krun b0 ten) 1000000000 = false /\
  b_time_until_send (krun b0 ten) = Ok 1001280000 /\
  has_pacing_budget (krun b0 ten) 1001280000 = true /\
  released ten = 12800 /\ released_retrans ten = 0 /\
  krun b0 (KSent 1000000000 0 0 1280 true :: KSent 1000000000 1280 1 1280 false :: nil) =
  krun b0 (KSent 1000000000 0 0 1280 false :: KSent 1000000000 0 7 1280 true :: nil).
Proof. vm_compute. repeat split; reflexivity. Qed.
