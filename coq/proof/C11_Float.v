(* C11 proofs, part 3: the binary64 steps, via Flocq (IEEE754.BinarySingleNaN / PrimFloat).
   Coq's primitive floats are specified by the axioms of Coq.Floats.FloatAxioms (each primitive
   operation equals the SpecFloat operation); Flocq relates those to real-number rounding.
   Results: float64(bps) is exact below 2^53; the pacer bandwidth trunc(float64(bps)/ackRate) lies in
   [bps, floor(1.25*bps)] for every ack rate in [0.8f, 1]; the ack rate the sender stores is always
   such a float. *)
From Coq Require Import ZArith Reals Floats Lia Lra Psatz Bool List.
From Flocq Require Import Core BinarySingleNaN PrimFloat.
From Hy Require Import lib.F64 model.C11_Pacer model.C11_Brutal proof.C11_Pacer proof.C11_Brutal.
Import ListNotations.
Local Open Scope Z_scope.


Lemma of_Z_B : forall z, Prim2B (of_Z z) = binary_normalize prec emax Hprec Hmax mode_NE z 0 false.
Proof.
  intro z. unfold of_Z, f64_prec, f64_emax.
  change 53 with prec. change 1024 with emax.
  rewrite binary_normalize_equiv. fold (B2Prim (binary_normalize prec emax Hprec Hmax mode_NE z 0 false)).
  apply Prim2B_B2Prim.
Qed.

Lemma of_Z_R : forall z, Z.abs z < 2 ^ 53 ->
  B2R (Prim2B (of_Z z)) = IZR z /\ is_finite (Prim2B (of_Z z)) = true.
Proof.
  intros z Hz. rewrite of_Z_B.
  pose proof (binary_normalize_correct prec emax Hprec Hmax mode_NE z 0 false) as H.
  cbv zeta in H.
  assert (F : F2R (Float radix2 z 0) = IZR z) by (unfold F2R; simpl; ring).
  rewrite F in H.
  assert (G : generic_format radix2 (FLT_exp (3 - emax - prec) prec) (IZR z)).
  { apply generic_format_FLT. exists (Float radix2 z 0); [symmetry; exact F| |].
    - simpl. exact Hz.
    - simpl. unfold emax, prec. lia. }
  rewrite round_generic in H; [|apply valid_rnd_N|exact G].
  rewrite Rlt_bool_true in H.
  - destruct H as (H1 & H2 & _). split; assumption.
  - rewrite <- abs_IZR. apply Rlt_le_trans with (IZR (2 ^ 53)); [apply IZR_lt; exact Hz|].
    change (bpow radix2 emax) with (IZR (2 ^ 1024)). apply IZR_le. unfold emax. lia.
Qed.


Local Existing Instance Hprec.
Local Existing Instance Hmax.
Notation fexp64 := (FLT_exp (3 - emax - prec) prec).
Notation rnd64 := (round radix2 fexp64 ZnearestE).

Lemma gen_int : forall z, Z.abs z < 2 ^ 53 -> generic_format radix2 fexp64 (IZR z).
Proof.
  intros z Hz. apply generic_format_FLT. exists (Float radix2 z 0).
  - unfold F2R; simpl; ring.
  - simpl. exact Hz.
  - simpl. unfold emax, prec. lia.
Qed.

Lemma gen_quarter : forall z, Z.abs z < 2 ^ 53 -> generic_format radix2 fexp64 (IZR z / 4).
Proof.
  intros z Hz. apply generic_format_FLT. exists (Float radix2 z (-2)).
  - unfold F2R; simpl. lra.
  - simpl. exact Hz.
  - simpl. unfold emax, prec. lia.
Qed.

Lemma div_bound : forall bps (y : binary_float prec emax),
  0 <= bps < 2 ^ 50 -> is_finite y = true -> (4 / 5 <= B2R y <= 1)%R ->
  let q := Bdiv mode_NE (Prim2B (of_Z bps)) y in
  is_finite q = true /\ (IZR bps <= B2R q <= IZR (5 * bps) / 4)%R.
Proof.
  intros bps y Hb Fy Hy q.
  destruct (of_Z_R bps ltac:(lia)) as [Xr Xf].
  assert (Y0 : B2R y <> 0%R) by (intro E0; rewrite E0 in Hy; destruct Hy as [Hy1 Hy2]; lra).
  pose proof (Bdiv_correct prec emax Hprec Hmax mode_NE (Prim2B (of_Z bps)) y Y0) as D.
  rewrite Xr in D. fold q in D.
  assert (B0 : (0 <= IZR bps)%R) by (apply IZR_le; lia).
  assert (R1 : (IZR bps <= IZR bps / B2R y)%R).
  { apply Rle_trans with (IZR bps / 1)%R; [lra|]. unfold Rdiv. apply Rmult_le_compat_l; [lra|].
    apply Rinv_le_contravar; lra. }
  assert (R2 : (IZR bps / B2R y <= IZR (5 * bps) / 4)%R).
  { rewrite mult_IZR. unfold Rdiv. 
    apply Rle_trans with (IZR bps * / (4 / 5))%R.
    - apply Rmult_le_compat_l; [lra|]. apply Rinv_le_contravar; lra.
    - lra. }
  assert (M1 : (IZR bps <= round radix2 fexp64 (round_mode mode_NE) (IZR bps / B2R y))%R).
  { rewrite <- (round_generic radix2 fexp64 (round_mode mode_NE) (IZR bps)) at 1.
    - apply round_le; [apply FLT_exp_valid; exact Hprec|apply valid_rnd_N|exact R1].
    - apply gen_int. lia. }
  assert (M2 : (round radix2 fexp64 (round_mode mode_NE) (IZR bps / B2R y) <= IZR (5 * bps) / 4)%R).
  { rewrite <- (round_generic radix2 fexp64 (round_mode mode_NE) (IZR (5 * bps) / 4)).
    - apply round_le; [apply FLT_exp_valid; exact Hprec|apply valid_rnd_N|exact R2].
    - apply gen_quarter. lia. }
  rewrite Rlt_bool_true in D.
  - destruct D as (D1 & D2 & _). split; [rewrite D2; exact Xf|]. rewrite D1. split; assumption.
  - rewrite Rabs_pos_eq by (apply Rle_trans with (IZR bps); [exact B0|exact M1]).
    apply Rle_lt_trans with (IZR (5 * bps) / 4)%R; [exact M2|].
    apply Rlt_le_trans with (IZR (2 ^ 53)).
    + assert (IZR (5 * bps) < IZR (2 ^ 53))%R by (apply IZR_lt; lia). assert (0 <= IZR (5 * bps))%R by (apply IZR_le; lia). lra.
    + change (bpow radix2 emax) with (IZR (2 ^ 1024)). apply IZR_le. unfold emax. lia.
Qed.


Lemma trunc_bound : forall (q : binary_float prec emax) bps,
  0 <= bps < 2 ^ 50 -> is_finite q = true -> (IZR bps <= B2R q <= IZR (5 * bps) / 4)%R ->
  exists t, sf_trunc (B2SF q) = Some t /\ bps <= t <= 5 * bps / 4.
Proof.
  intros q bps Hb Fq [L U].
  assert (UZ : forall t, (IZR t <= IZR (5 * bps) / 4)%R -> t <= 5 * bps / 4).
  { intros t Ht. apply Z.div_le_lower_bound; [lia|]. apply le_IZR. rewrite mult_IZR. lra. }
  destruct q as [s|s| |s m e Hme]; try discriminate.
  - simpl in L, U. exists 0. split; [reflexivity|]. apply le_IZR in L. split; [lia|]. apply UZ. exact U.
  - simpl B2SF. unfold sf_trunc. unfold B2R in L, U.
    destruct s.
    + exfalso. assert (F2R (Float radix2 (cond_Zopp true (Z.pos m)) e) < 0)%R.
      { apply F2R_lt_0. simpl. lia. }
      assert (0 <= IZR bps)%R by (apply IZR_le; lia). lra.
    + unfold F2R in L, U. simpl Fnum in L, U. simpl Fexp in L, U. simpl cond_Zopp in L, U.
      destruct (0 <=? e) eqn:E.
      * apply Z.leb_le in E. exists (Z.pos m * 2 ^ e). split; [reflexivity|].
        assert (V : IZR (Z.pos m * 2 ^ e) = (IZR (Z.pos m) * bpow radix2 e)%R).
        { rewrite mult_IZR. f_equal. rewrite <- IZR_Zpower by exact E. reflexivity. }
        rewrite <- V in L, U. split; [apply le_IZR; exact L|apply UZ; exact U].
      * apply Z.leb_gt in E. set (k := 2 ^ (- e)).
        assert (Hk : 0 < k) by (apply Z.pow_pos_nonneg; lia).
        assert (Bk : bpow radix2 e = (/ IZR k)%R).
        { replace e with (- (- e)) at 1 by lia. rewrite bpow_opp. f_equal.
          rewrite <- IZR_Zpower by lia. reflexivity. }
        rewrite Bk in L, U.
        rewrite Z.quot_div_nonneg by lia. fold k.
        exists (Z.pos m / k). split; [reflexivity|].
        pose proof (Z.div_mod (Z.pos m) k ltac:(lia)) as DM.
        pose proof (Z.mod_pos_bound (Z.pos m) k Hk) as MB.
        assert (Kp : (0 < IZR k)%R) by (apply IZR_lt; exact Hk).
        assert (E1 : IZR (Z.pos m) = (IZR k * IZR (Z.pos m / k) + IZR (Z.pos m mod k))%R).
        { rewrite <- mult_IZR, <- plus_IZR. f_equal. exact DM. }
        assert (M0 : (0 <= IZR (Z.pos m mod k))%R) by (apply IZR_le; lia).
        assert (M1 : (IZR (Z.pos m mod k) < IZR k)%R) by (apply IZR_lt; lia).
        set (v := (IZR (Z.pos m) * / IZR k)%R) in *.
        assert (V1 : (IZR (Z.pos m / k) <= v)%R).
        { unfold v. rewrite E1. apply Rmult_le_reg_r with (IZR k); [exact Kp|].
          rewrite Rmult_assoc, Rinv_l by lra. lra. }
        assert (V2 : (v < IZR (Z.pos m / k) + 1)%R).
        { unfold v. rewrite E1. apply Rmult_lt_reg_r with (IZR k); [exact Kp|].
          rewrite Rmult_assoc, Rinv_l by lra. lra. }
        split.
        -- assert (IZR bps < IZR (Z.pos m / k) + 1)%R by lra.
           rewrite <- plus_IZR in H. apply lt_IZR in H. lia.
        -- apply UZ. lra.
Qed.


Lemma mar_sf : Prim2SF min_ack_rate = S754_finite false 7205759403792794 (-53).
Proof. vm_compute. reflexivity. Qed.
Lemma one_sf : Prim2SF f_one = S754_finite false 4503599627370496 (-52).
Proof. vm_compute. reflexivity. Qed.

Lemma mar_R : (4 / 5 <= B2R (Prim2B min_ack_rate))%R /\ is_finite (Prim2B min_ack_rate) = true.
Proof.
  unfold Prim2B. rewrite B2R_SF2B, is_finite_SF2B. rewrite mar_sf. split; [|reflexivity].
  unfold SF2R, F2R. simpl. lra.
Qed.

Lemma one_R : B2R (Prim2B f_one) = 1%R /\ is_finite (Prim2B f_one) = true.
Proof.
  unfold Prim2B. rewrite B2R_SF2B, is_finite_SF2B. rewrite one_sf. split; [|reflexivity].
  unfold SF2R, F2R. simpl. lra.
Qed.

Lemma rate_real : forall r,
  fleb min_ack_rate r = true -> fleb r f_one = true ->
  is_finite (Prim2B r) = true /\ (4 / 5 <= B2R (Prim2B r) <= 1)%R.
Proof.
  intros r H1 H2. unfold fleb in *. rewrite leb_equiv in H1, H2.
  destruct mar_R as [M1 M2]. destruct one_R as [O1 O2].
  assert (F : is_finite (Prim2B r) = true).
  { unfold Bleb in H1, H2. rewrite !B2SF_Prim2B in H1, H2. rewrite mar_sf in H1. rewrite one_sf in H2.
    rewrite <- is_finite_SF_B2SF, B2SF_Prim2B.
    destruct (Prim2SF r) as [s|s| |s m e]; try reflexivity.
    - destruct s; [discriminate H1|discriminate H2].
    - discriminate H1. }
  split; [exact F|].
  rewrite Bleb_correct in H1, H2 by assumption.
  revert H1 H2. case Rle_bool_spec; [intro L1|discriminate]. case Rle_bool_spec; [intro L2|discriminate]. intros _ _.
  rewrite O1 in L2. lra.
Qed.

(* the float theorem: for every rate below 2^50 B/s and every ack rate in [0.8f, 1] the bandwidth
   the pacer is given lies between the configured rate and floor(1.25 * rate) *)
Lemma bandwidth_bound_f64 : forall bps r,
  0 <= bps < 2 ^ 50 -> fleb min_ack_rate r = true -> fleb r f_one = true ->
  bps <= bandwidth_of bps r <= 5 * bps / 4.
Proof.
  intros bps r Hb H1 H2. destruct (rate_real r H1 H2) as [Fr Rr].
  pose proof (div_bound bps (Prim2B r) Hb Fr Rr) as [Fq Rq]. cbv zeta in Fq, Rq.
  destruct (trunc_bound _ bps Hb Fq Rq) as (t & T1 & T2).
  unfold bandwidth_of, to_int64, fdiv.
  rewrite <- div_equiv in T1. rewrite B2SF_Prim2B in T1. rewrite T1.
  assert (5 * bps / 4 < 2 ^ 63).
  { apply Z.div_lt_upper_bound; lia. }
  replace ((-9223372036854775808 <=? t) && (t <? 9223372036854775808))%bool with true; [exact T2|].
  symmetry. apply andb_true_intro. split; [apply Z.leb_le|apply Z.ltb_lt]; lia.
Qed.


Lemma gen_two64 : generic_format radix2 fexp64 (IZR (2 ^ 64)).
Proof.
  apply generic_format_FLT. exists (Float radix2 1 64).
  - unfold F2R; simpl. lra.
  - simpl. lia.
  - simpl. unfold emax, prec. lia.
Qed.

(* float64(z) for a uint64 value: finite, the rounding of z, between 0 and 2^64 *)
Lemma of_Z_u64 : forall z, 0 <= z < 2 ^ 64 ->
  B2R (Prim2B (of_Z z)) = rnd64 (IZR z) /\ is_finite (Prim2B (of_Z z)) = true /\
  (0 <= rnd64 (IZR z) <= IZR (2 ^ 64))%R.
Proof.
  intros z Hz. rewrite of_Z_B.
  pose proof (binary_normalize_correct prec emax Hprec Hmax mode_NE z 0 false) as H. cbv zeta in H.
  assert (F : F2R (Float radix2 z 0) = IZR z) by (unfold F2R; simpl; ring).
  rewrite F in H.
  assert (Z0 : (0 <= IZR z)%R) by (apply IZR_le; lia).
  assert (Z1 : (IZR z <= IZR (2 ^ 64))%R) by (apply IZR_le; lia).
  assert (R0 : (0 <= rnd64 (IZR z))%R).
  { apply round_ge_generic; [apply FLT_exp_valid; exact Hprec|apply valid_rnd_N|apply generic_format_0|exact Z0]. }
  assert (R1 : (rnd64 (IZR z) <= IZR (2 ^ 64))%R).
  { apply round_le_generic; [apply FLT_exp_valid; exact Hprec|apply valid_rnd_N|apply gen_two64|exact Z1]. }
  change (round_mode mode_NE) with ZnearestE in H.
  rewrite Rlt_bool_true in H.
  - destruct H as (H1 & H2 & _). repeat split; assumption.
  - rewrite Rabs_pos_eq by exact R0. apply Rle_lt_trans with (IZR (2 ^ 64)); [exact R1|].
    change (bpow radix2 emax) with (IZR (2 ^ 1024)). apply IZR_lt. unfold emax. lia.
Qed.

Lemma mar_le_one : fleb min_ack_rate f_one = true /\ fleb min_ack_rate min_ack_rate = true /\ fleb f_one f_one = true.
Proof. vm_compute. repeat split. Qed.

(* the stored ack rate is always a float in [0.8f, 1] *)
Lemma rate_f_range : forall A L, 0 <= A -> 0 <= L -> A + L < two64 ->
  fleb min_ack_rate (rate_f A L) = true /\ fleb (rate_f A L) f_one = true.
Proof.
  intros A L HA HL HS. destruct mar_le_one as (C1 & C2 & C3).
  unfold rate_f. rewrite wrapu64_small by lia.
  destruct (A + L <? minSampleCount) eqn:E; [split; assumption|].
  apply Z.ltb_ge in E. unfold minSampleCount in E.
  set (S := A + L) in *.
  destruct (of_Z_u64 A ltac:(unfold two64 in *; lia)) as (XA & FA & A0 & A1).
  destruct (of_Z_u64 S ltac:(unfold two64 in *; lia)) as (XS & FS & S0 & S1).
  assert (S50 : (50 <= rnd64 (IZR S))%R).
  { apply round_ge_generic; [apply FLT_exp_valid; exact Hprec|apply valid_rnd_N|apply (gen_int 50); lia|apply IZR_le; exact E]. }
  assert (AS : (rnd64 (IZR A) <= rnd64 (IZR S))%R).
  { apply round_le; [apply FLT_exp_valid; exact Hprec|apply valid_rnd_N|apply IZR_le; unfold S; lia]. }
  set (r := fdiv (of_Z A) (of_Z S)).
  assert (Pr : Prim2B r = Bdiv mode_NE (Prim2B (of_Z A)) (Prim2B (of_Z S))) by apply div_equiv.
  pose proof (Bdiv_correct prec emax Hprec Hmax mode_NE (Prim2B (of_Z A)) (Prim2B (of_Z S))) as D.
  rewrite XA, XS in D. specialize (D ltac:(lra)). rewrite <- Pr in D.
  change (round_mode mode_NE) with ZnearestE in D.
  set (q := (rnd64 (IZR A) / rnd64 (IZR S))%R) in *.
  assert (Q0 : (0 <= q)%R) by (unfold q; apply Rmult_le_pos; [lra|apply Rlt_le, Rinv_0_lt_compat; lra]).
  assert (Q1 : (q <= 1)%R).
  { unfold q. apply Rmult_le_reg_r with (rnd64 (IZR S)); [lra|].
    unfold Rdiv. rewrite Rmult_assoc, Rinv_l by lra. lra. }
  assert (RQ0 : (0 <= rnd64 q)%R).
  { apply round_ge_generic; [apply FLT_exp_valid; exact Hprec|apply valid_rnd_N|apply generic_format_0|exact Q0]. }
  assert (RQ1 : (rnd64 q <= 1)%R).
  { apply round_le_generic; [apply FLT_exp_valid; exact Hprec|apply valid_rnd_N|apply (gen_int 1); lia|exact Q1]. }
  rewrite Rlt_bool_true in D.
  2:{ rewrite Rabs_pos_eq by exact RQ0. apply Rle_lt_trans with 1%R; [exact RQ1|].
      change (bpow radix2 emax) with (IZR (2 ^ 1024)). apply IZR_lt. unfold emax. lia. }
  destruct D as (D1 & D2 & _). rewrite FA in D2.
  destruct mar_R as [M1 M2]. destruct one_R as [O1 O2].
  assert (LE1 : fleb r f_one = true).
  { unfold fleb. rewrite leb_equiv, Bleb_correct by assumption. rewrite D1, O1. apply Rle_bool_true. exact RQ1. }
  unfold fltb. rewrite ltb_equiv, Bltb_correct by assumption.
  case Rlt_bool_spec; intro C.
  - split; assumption.
  - split; [|exact LE1]. unfold fleb. rewrite leb_equiv, Bleb_correct by assumption. apply Rle_bool_true. exact C.
Qed.


(* ---------- every reachable sender state ---------- *)

Lemma brun_bps : forall l b, b_bps (brun b l) = b_bps b.
Proof.
  induction l as [|o l IH]; intro b; [reflexivity|].
  change (brun b (o :: l)) with (brun (fst (bstep b o)) l). rewrite IH.
  destruct o as [t size|t a n|s|]; try reflexivity.
  cbn [bstep]. unfold on_event. destruct (_ <? 0); [reflexivity|].
  destruct (update_ack_rate _ _ _) as [r q]. reflexivity.
Qed.

(* after ANY call history (batch times non-negative and non-decreasing, fewer than 2^64 packets
   reported) of a sender configured with a rate below 2^50 B/s: the stored ack rate is a float in
   [0.8f, 1], it is 1 when compensation is disabled, and the bandwidth handed to the pacer lies in
   [rate, floor(1.25 * rate)] *)
Lemma sender_bandwidth_bound : forall bps dis l,
  0 <= bps < 2 ^ 50 -> hist_ok 0 0 l ->
  let b := brun (brutal_init bps dis) l in
  fleb min_ack_rate (b_rate b) = true /\ fleb (b_rate b) f_one = true /\
  (dis = true -> b_rate b = f_one) /\
  bps <= bandwidth b <= 5 * bps / 4.
Proof.
  intros bps dis l Hb Hok b.
  pose proof (ack_rate_value bps dis l Hok) as [R _]. cbv zeta in R. fold b in R.
  pose proof (hist_wf l [] 0 (Forall_nil _) ltac:(lia) ltac:(cbn; unfold two64; lia) Hok) as [W1 W2]. cbv zeta in W1, W2.
  set (st := ev_hist l ([], 0)) in *.
  destruct (cnt_bounds (inwin (snd st)) _ _ W1) as (B1 & B2 & B3).
  assert (RR : fleb min_ack_rate (b_rate b) = true /\ fleb (b_rate b) f_one = true).
  { rewrite R. destruct dis.
    - destruct mar_le_one as (C1 & C2 & C3). split; assumption.
    - apply rate_f_range; lia. }
  destruct RR as [R1 R2].
  refine (conj R1 (conj R2 (conj _ _))).
  - intro Hd. rewrite R, Hd. reflexivity.
  - assert (Eb : b_bps b = bps).
    { unfold b. rewrite brun_bps. cbn [b_bps brutal_init]. apply wrap64_small. unfold two63. lia. }
    unfold bandwidth. rewrite Eb. apply bandwidth_bound_f64; assumption.
Qed.
