(* C11 proofs, part 1: the token-bucket pacer. *)
From Hy Require Import model.C11_Pacer.
From Coq Require Import ZArith Lia Bool List.
Import ListNotations.
Local Open Scope Z_scope.

(* ---------- wrap ---------- *)

Lemma wrap64_spec : forall z, wrap64 z = (z + 2 ^ 63) mod 2 ^ 64 - 2 ^ 63.
Proof.
  intro z. unfold wrap64. change (2 ^ 63) with two63. change (2 ^ 64) with two64.
  destruct ((- two63 <=? z) && (z <? two63)) eqn:E; [|reflexivity].
  apply andb_true_iff in E. destruct E as [E1 E2].
  apply Z.leb_le in E1. apply Z.ltb_lt in E2.
  rewrite Z.mod_small; unfold two63, two64 in *; lia.
Qed.

Lemma wrapu64_spec : forall z, wrapu64 z = z mod 2 ^ 64.
Proof.
  intro z. unfold wrapu64. change (2 ^ 64) with two64.
  destruct ((0 <=? z) && (z <? two64)) eqn:E; [|reflexivity].
  apply andb_true_iff in E. destruct E as [E1 E2].
  apply Z.leb_le in E1. apply Z.ltb_lt in E2.
  rewrite Z.mod_small; lia.
Qed.

Lemma wrap64_small : forall z, - two63 <= z < two63 -> wrap64 z = z.
Proof.
  intros z H. unfold wrap64.
  replace ((- two63 <=? z) && (z <? two63)) with true; [reflexivity|].
  symmetry. apply andb_true_iff. split; [apply Z.leb_le|apply Z.ltb_lt]; lia.
Qed.

Lemma wrapu64_small : forall z, 0 <= z < two64 -> wrapu64 z = z.
Proof.
  intros z H. unfold wrapu64.
  replace ((0 <=? z) && (z <? two64)) with true; [reflexivity|].
  symmetry. apply andb_true_iff. split; [apply Z.leb_le|apply Z.ltb_lt]; lia.
Qed.

(* ---------- facts about the constants (re-checked whenever gen/ParamsC11.v changes) ---------- *)

Lemma params_pacer :
  1 <= maxBurstPackets <= 1000 /\ 0 < maxBurstPacingDelayMultiplier * MinPacingDelay_ns <= 1000000000 /\
  0 < MinPacingDelay_ns <= 1000000000 /\ 0 < InitialPacketSize <= 65536.
Proof. cbv. repeat split; discriminate. Qed.

Lemma quot_div : forall a, 0 <= a -> Z.quot a ns_per_s = a / ns_per_s.
Proof. intros. apply Z.quot_div_nonneg; unfold ns_per_s; lia. Qed.

(* ---------- max_burst ---------- *)

Definition mds_limit : Z := 4294967296.   (* 2^32: any datagram size below this keeps every product in range *)

Lemma max_burst_val : forall bw p,
  0 <= bw -> maxBurstPacingDelayMultiplier * MinPacingDelay_ns * bw < two63 ->
  0 <= p_mds p <= mds_limit ->
  max_burst bw p = burst_bound bw (p_mds p).
Proof.
  intros bw p Hbw Hov Hm. unfold max_burst, burst_bound.
  pose proof params_pacer as [[P1 P2] [[P3 P4] _]].
  rewrite (wrap64_small (maxBurstPacingDelayMultiplier * MinPacingDelay_ns)) by (unfold two63; lia).
  rewrite (wrap64_small (maxBurstPacingDelayMultiplier * MinPacingDelay_ns * bw)) by (unfold two63 in *; nia).
  rewrite (wrap64_small (maxBurstPackets * p_mds p)) by (unfold two63, mds_limit in *; nia).
  rewrite quot_div by nia. reflexivity.
Qed.

Lemma burst_bound_mono : forall b B m M, 0 <= b <= B -> 0 <= m <= M -> burst_bound b m <= burst_bound B M.
Proof.
  intros b B m M Hb Hm. unfold burst_bound.
  pose proof params_pacer as [[P1 P2] [[P3 P4] _]].
  apply Z.max_le_compat.
  - apply Z.div_le_mono; [unfold ns_per_s; lia|]. nia.
  - nia.
Qed.

Lemma burst_bound_ge_mds : forall b m, 0 <= m -> m <= burst_bound b m.
Proof.
  intros b m Hm. unfold burst_bound. pose proof params_pacer as [[P1 P2] _].
  etransitivity; [|apply Z.le_max_r]. nia.
Qed.

(* ---------- Budget in the range without overflow ---------- *)

Lemma budget_first : forall bw p now, p_last p = 0 -> budget bw p now = max_burst bw p.
Proof. intros bw p now H. unfold budget. rewrite H. reflexivity. Qed.

Lemma budget_val : forall bw p now,
  0 < p_last p <= now -> now < two63 ->
  0 <= bw -> bw * (now - p_last p) < two63 ->
  0 <= p_budget p <= two63 / 2 ->
  budget bw p now = Z.min (max_burst bw p) (p_budget p + bw * (now - p_last p) / ns_per_s).
Proof.
  intros bw p now Hle Hn Hbw Hov Hb. unfold budget.
  destruct (p_last p =? 0) eqn:E; [apply Z.eqb_eq in E; lia|].
  rewrite (wrap64_small (now - p_last p)) by (unfold two63 in *; lia).
  assert (0 <= bw * (now - p_last p)) by nia.
  rewrite (wrap64_small (bw * (now - p_last p))) by (unfold two63 in *; lia).
  rewrite quot_div by assumption.
  assert (0 <= bw * (now - p_last p) / ns_per_s <= two63 / 4).
  { split; [apply Z.div_pos; unfold ns_per_s; lia|].
    apply Z.div_le_upper_bound; unfold ns_per_s, two63 in *; [lia|]. cbn. lia. }
  rewrite wrap64_small by (unfold two63 in *; cbn in *; lia).
  destruct (_ <? 0) eqn:E2; [apply Z.ltb_lt in E2; lia|]. reflexivity.
Qed.

Lemma budget_le_burst : forall bw p now, budget bw p now <= max_burst bw p.
Proof.
  intros. unfold budget. destruct (p_last p =? 0); [lia|]. apply Z.le_min_l.
Qed.

(* ---------- TimeUntilSend ---------- *)

Lemma ceil_ok : forall diff bw, 0 < bw -> 0 <= diff ->
  let d := diff / bw in
  let d' := if 0 <? diff mod bw then d + 1 else d in
  diff <= d' * bw /\ d' * bw < diff + bw /\ 0 <= d' <= diff.
Proof.
  intros diff bw Hbw Hd d d'. subst d d'.
  pose proof (Z.div_mod diff bw ltac:(lia)) as DM.
  pose proof (Z.mod_pos_bound diff bw Hbw) as MB.
  assert (0 <= diff / bw) by (apply Z.div_pos; lia).
  destruct (0 <? diff mod bw) eqn:E; [apply Z.ltb_lt in E|apply Z.ltb_ge in E]; nia.
Qed.

(* the value TimeUntilSend computes when it announces a time, without wrap *)
Lemma tus_val : forall bw p,
  0 < bw < two63 -> 0 <= p_budget p < p_mds p -> p_mds p <= mds_limit ->
  exists d, time_until_send bw p = Ok (wrap64 (p_last p + Z.max MinPacingDelay_ns d)) /\
            ns_per_s * (p_mds p - p_budget p) <= d * bw /\
            d * bw < ns_per_s * (p_mds p - p_budget p) + bw /\
            0 <= d < two63.
Proof.
  intros bw p Hbw Hb Hm. unfold time_until_send.
  destruct (p_mds p <=? p_budget p) eqn:E; [apply Z.leb_le in E; lia|].
  rewrite (wrapu64_small (p_mds p - p_budget p)) by (unfold two64, mds_limit in *; lia).
  rewrite (wrapu64_small (ns_per_s * _)) by (unfold two64, mds_limit, ns_per_s in *; lia).
  rewrite (wrapu64_small bw) by (unfold two64, two63 in *; lia).
  destruct (bw =? 0) eqn:E0; [apply Z.eqb_eq in E0; lia|].
  set (diff := ns_per_s * (p_mds p - p_budget p)).
  assert (Hd : 0 <= diff) by (unfold diff, ns_per_s; lia).
  assert (Hd2 : diff <= 4294967296000000000) by (unfold diff, ns_per_s, mds_limit in *; lia).
  pose proof (ceil_ok diff bw ltac:(lia) Hd) as C. cbv zeta in C.
  destruct (0 <? diff mod bw) eqn:Em.
  - rewrite (wrapu64_small (diff / bw + 1)) by (unfold two64; lia).
    exists (diff / bw + 1). rewrite (wrap64_small (diff / bw + 1)) by (unfold two63; lia).
    split; [reflexivity|]. unfold two63. lia.
  - exists (diff / bw). rewrite (wrap64_small (diff / bw)) by (unfold two63; lia).
    split; [reflexivity|]. unfold two63. lia.
Qed.

(* waiting until the announced time yields budget for a full datagram *)
Lemma wakeup_suffices : forall bw p w,
  0 < bw < two63 ->
  0 <= p_budget p < p_mds p -> p_mds p <= mds_limit ->
  0 < p_last p ->
  time_until_send bw p = Ok w ->
  p_last p <= w < two63 -> bw * (w - p_last p) < two63 ->
  p_mds p <= budget bw p w.
Proof.
  intros bw p w Hbw Hb Hm Hl Ht Hw Hov.
  destruct (tus_val bw p Hbw Hb Hm) as (d & E & D1 & D2 & D3).
  rewrite E in Ht. injection Ht as Ht.
  pose proof params_pacer as [[P1 P2] [[P3 P4] [P5 P6]]].
  assert (Hw2 : w = p_last p + Z.max MinPacingDelay_ns d).
  { rewrite <- Ht. rewrite wrap64_spec in *.
    set (x := p_last p + Z.max MinPacingDelay_ns d) in *.
    assert (0 < x < 2 ^ 64) by (unfold x, two63 in *; lia).
    destruct (Z_lt_le_dec x (2 ^ 63)) as [L|L].
    - rewrite Z.mod_small by lia. lia.
    - exfalso. assert ((x + 2 ^ 63) mod 2 ^ 64 = x - 2 ^ 63).
      { symmetry. apply Z.mod_unique with (q := 1); lia. }
      lia. }
  rewrite budget_val; try lia.
  2:{ unfold two63, mds_limit in *; cbn; lia. }
  apply Z.min_glb.
  - unfold max_burst. etransitivity; [|apply Z.le_max_r].
    rewrite wrap64_small by (unfold two63, mds_limit in *; nia). nia.
  - assert (d <= w - p_last p) by lia.
    assert (ns_per_s * (p_mds p - p_budget p) <= bw * (w - p_last p)) by nia.
    assert (p_mds p - p_budget p <= bw * (w - p_last p) / ns_per_s).
    { apply Z.div_le_lower_bound; unfold ns_per_s in *; lia. }
    lia.
Qed.

(* no busy loop: if the budget at `now` is still short (whatever the bandwidth is by now), the time
   announced by a fresh TimeUntilSend lies strictly in the future, and not further than the time the
   smallest possible bandwidth needs for one datagram (or the minimum pacing delay) *)
Lemma rearm_progress : forall bw bwmin p now w,
  0 < bwmin <= bw -> bw < two63 ->
  0 <= p_budget p <= two63 / 2 -> 0 <= p_mds p <= mds_limit ->
  0 < p_last p <= now -> now < two63 -> bw * (now - p_last p) < two63 ->
  budget bw p now < p_mds p ->
  time_until_send bw p = Ok w ->
  p_last p <= w ->
  now < w /\ w - p_last p <= Z.max MinPacingDelay_ns (ns_per_s * p_mds p / bwmin + 1).
Proof.
  intros bw bwmin p now w Hbw Hbw2 Hb Hm Hl Hn Hov Hshort Ht Hw.
  pose proof params_pacer as [[P1 P2] [[P3 P4] [P5 P6]]].
  assert (Hbm : p_budget p < p_mds p).
  { destruct (Z_lt_le_dec (p_budget p) (p_mds p)) as [L|L]; [exact L|exfalso].
    (* budgetAtLastSent >= mds would give Budget(now) >= mds *)
    rewrite budget_val in Hshort; try lia.
    assert (0 <= bw * (now - p_last p) / ns_per_s) by (apply Z.div_pos; unfold ns_per_s; nia).
    assert (p_mds p <= max_burst bw p).
    { unfold max_burst. etransitivity; [|apply Z.le_max_r].
      rewrite wrap64_small by (unfold two63, mds_limit in *; nia). nia. }
    lia. }
  destruct (tus_val bw p ltac:(lia) ltac:(lia) ltac:(lia)) as (d & E & D1 & D2 & D3).
  rewrite E in Ht. injection Ht as Ht.
  assert (Hw2 : w = p_last p + Z.max MinPacingDelay_ns d).
  { rewrite <- Ht. rewrite wrap64_spec in *.
    set (x := p_last p + Z.max MinPacingDelay_ns d) in *.
    assert (0 < x < 2 ^ 64) by (unfold x, two63 in *; lia).
    destruct (Z_lt_le_dec x (2 ^ 63)) as [L|L].
    - rewrite Z.mod_small by lia. lia.
    - exfalso. assert ((x + 2 ^ 63) mod 2 ^ 64 = x - 2 ^ 63).
      { symmetry. apply Z.mod_unique with (q := 1); lia. }
      lia. }
  split.
  - (* budget short at now  ==>  bw*(now-last) < 1e9*(mds-b) <= d*bw  ==>  now - last < d *)
    rewrite budget_val in Hshort; try lia.
    assert (p_mds p <= max_burst bw p).
    { unfold max_burst. etransitivity; [|apply Z.le_max_r].
      rewrite wrap64_small by (unfold two63, mds_limit in *; nia). nia. }
    apply Z.min_lt_iff in Hshort. destruct Hshort as [?|Hs]; [lia|].
    assert (bw * (now - p_last p) / ns_per_s < p_mds p - p_budget p) by lia.
    assert (bw * (now - p_last p) < ns_per_s * (p_mds p - p_budget p)).
    { destruct (Z_lt_le_dec (bw * (now - p_last p)) (ns_per_s * (p_mds p - p_budget p))) as [L|L]; [exact L|exfalso].
      apply Z.div_le_lower_bound in L; unfold ns_per_s in *; lia. }
    assert (now - p_last p < d) by nia. lia.
  - rewrite Hw2. replace (p_last p + Z.max MinPacingDelay_ns d - p_last p) with (Z.max MinPacingDelay_ns d) by lia.
    apply Z.max_le_compat_l.
    (* d*bw < 1e9*(mds-b) + bw  ==>  d <= 1e9*mds/bwmin + 1 *)
    assert (0 <= ns_per_s * p_mds p / bwmin) by (apply Z.div_pos; unfold ns_per_s; lia).
    destruct (Z_le_gt_dec d (ns_per_s * p_mds p / bwmin + 1)) as [L|G]; [exact L|exfalso].
    assert (ns_per_s * p_mds p / bwmin + 1 <= d - 1) by lia.
    assert (ns_per_s * p_mds p < bwmin * (ns_per_s * p_mds p / bwmin + 1)).
    { pose proof (Z.div_mod (ns_per_s * p_mds p) bwmin ltac:(lia)).
      pose proof (Z.mod_pos_bound (ns_per_s * p_mds p) bwmin ltac:(lia)). lia. }
    assert (bwmin * (ns_per_s * p_mds p / bwmin + 1) <= bw * (d - 1)) by nia.
    unfold ns_per_s in *. nia.
Qed.

(* ---------- rate conformance: the token-bucket telescoping invariant ---------- *)

Section Rate.
Variables B M : Z.
Hypothesis HB : maxBurstPacingDelayMultiplier * MinPacingDelay_ns * B < two63.
Hypothesis HM : M <= mds_limit.

Lemma burst_bound_small : 0 <= B -> 0 <= M -> 0 <= burst_bound B M <= two63 / 2.
Proof.
  intros. pose proof params_pacer as [[P1 P2] [[P3 P4] _]]. unfold burst_bound. split.
  - etransitivity; [|apply Z.le_max_r]. nia.
  - apply Z.max_lub.
    + apply Z.div_le_upper_bound; [unfold ns_per_s; lia|].
      change (two63 / 2) with 4611686018427387904. unfold ns_per_s, two63 in *. lia.
    + change (two63 / 2) with 4611686018427387904. unfold mds_limit in *. nia.
Qed.

Lemma send_step : forall p s, send_ok B M p s ->
  let p1 := psend_step p s in
  p_last p1 = s_t s /\ p_mds p1 = s_mds s /\
  p_budget p1 = psend_budget p s - s_size s /\
  psend_budget p s <= burst_bound B M /\
  0 <= p_budget p1 <= burst_bound B M.
Proof.
  intros p s (Hbw & Hmds & Hsz & Ht) p1.
  assert (Hbb : psend_budget p s <= burst_bound B M).
  { unfold psend_budget. etransitivity; [apply budget_le_burst|].
    rewrite max_burst_val; cbn [p_mds set_mds].
    - apply burst_bound_mono; lia.
    - lia.
    - pose proof params_pacer as [_ [[P3 P4] _]]. nia.
    - lia. }
  pose proof (burst_bound_small ltac:(lia) ltac:(lia)) as BS.
  assert (Hpb : p_budget p1 = psend_budget p s - s_size s).
  { unfold p1, psend_step, sent. cbn [p_budget]. fold (psend_budget p s).
    destruct (psend_budget p s <? s_size s) eqn:E; [apply Z.ltb_lt in E; lia|].
    apply wrap64_small. unfold two63 in *. cbn in BS. lia. }
  repeat split; try reflexivity; try exact Hpb; try exact Hbb; lia.
Qed.

Lemma floor_add : forall a b, 0 <= a -> 0 <= b -> a / ns_per_s + b / ns_per_s <= (a + b) / ns_per_s.
Proof.
  intros a b Ha Hb. unfold ns_per_s.
  pose proof (Z.div_mod a 1000000000 ltac:(lia)). pose proof (Z.mod_pos_bound a 1000000000 ltac:(lia)).
  pose proof (Z.div_mod b 1000000000 ltac:(lia)). pose proof (Z.mod_pos_bound b 1000000000 ltac:(lia)).
  pose proof (Z.div_mod (a + b) 1000000000 ltac:(lia)). pose proof (Z.mod_pos_bound (a + b) 1000000000 ltac:(lia)).
  lia.
Qed.

Lemma tele : forall l p,
  0 < p_last p -> 0 <= p_budget p <= burst_bound B M -> sends_ok B M p l ->
  bytes_of l + p_budget (prun p l) <= p_budget p + B * (p_last (prun p l) - p_last p) / ns_per_s /\
  p_last p <= p_last (prun p l) /\ 0 <= p_budget (prun p l).
Proof.
  induction l as [|s l IH]; intros p Hl Hb Hok.
  - cbn. rewrite Z.sub_diag, Z.mul_0_r. cbn. lia.
  - cbn [sends_ok] in Hok. destruct Hok as (Hs & Hle & Hov & Hrest).
    pose proof (send_step p s Hs) as (L1 & L2 & L3 & L4 & L5). cbv zeta in *.
    destruct Hs as (Hbw & Hmds & Hsz & Ht).
    assert (0 <= B) by lia. assert (0 <= M) by lia.
    pose proof (burst_bound_small ltac:(lia) ltac:(lia)) as BS.
    specialize (IH (psend_step p s) ltac:(lia) L5 Hrest). destruct IH as (I1 & I2 & I3).
    cbn [prun bytes_of fold_right]. fold (bytes_of l).
    rewrite L1, L3 in *.
    (* the budget at this send is at most the old budget plus what accrued at rate B *)
    assert (Hbud : psend_budget p s <= p_budget p + B * (s_t s - p_last p) / ns_per_s).
    { unfold psend_budget. rewrite budget_val; cbn [p_last p_budget set_mds]; try lia.
      etransitivity; [apply Z.le_min_r|]. apply Zplus_le_compat_l.
      apply Z.div_le_mono; [unfold ns_per_s; lia|]. nia. }
    set (tf := p_last (prun (psend_step p s) l)) in *.
    assert (0 <= B * (s_t s - p_last p)) by nia.
    assert (0 <= B * (tf - s_t s)) by nia.
    pose proof (floor_add _ _ H1 H2) as FA.
    replace (B * (s_t s - p_last p) + B * (tf - s_t s)) with (B * (tf - p_last p)) in FA by ring.
    repeat split; lia.
Qed.

Lemma last_default : forall (l : list psend) x d d', last (x :: l) d = last (x :: l) d'.
Proof.
  induction l as [|y l IH]; intros x d d'; [reflexivity|].
  change (last (x :: y :: l) d) with (last (y :: l) d).
  change (last (x :: y :: l) d') with (last (y :: l) d'). apply IH.
Qed.

Lemma prun_last : forall l p s, p_last (prun p (s :: l)) = s_t (last (s :: l) s).
Proof.
  induction l as [|s' l IH]; intros p s.
  - reflexivity.
  - change (prun p (s :: s' :: l)) with (prun (psend_step p s) (s' :: l)).
    rewrite IH. change (last (s :: s' :: l) s) with (last (s' :: l) s).
    f_equal. apply last_default.
Qed.

Lemma rate_upper_bound : forall p s l,
  send_ok B M p s -> sends_ok B M (psend_step p s) l ->
  bytes_of (s :: l) <= burst_bound B M + B * (s_t (last (s :: l) s) - s_t s) / ns_per_s.
Proof.
  intros p s l Hs Hl.
  pose proof (send_step p s Hs) as (L1 & L2 & L3 & L4 & L5). cbv zeta in *.
  pose proof (tele l (psend_step p s)) as T.
  destruct Hs as (Hbw & Hmds & Hsz & Ht).
  specialize (T ltac:(lia) L5 Hl). destruct T as (T1 & T2 & T3).
  rewrite <- prun_last with (p := p).
  change (prun p (s :: l)) with (prun (psend_step p s) l).
  cbn [bytes_of fold_right]. fold (bytes_of l).
  rewrite L1, L3 in *. lia.
Qed.

End Rate.

(* ---------- non-vacuity ---------- *)

Ltac zdecide := vm_compute; repeat split; try discriminate; try reflexivity.

(* 64 KB/s, datagram 1200, bucket empty after a send at t = 1 s: wake-up 18.31 ms later *)
Example wakeup_ex_low :
  let p := mkP 0 1200 1000000000 in let bw := 65536 in
  time_until_send bw p = Ok 1018310547 /\
  (0 < bw < two63) /\ (0 <= p_budget p < p_mds p) /\ p_mds p <= mds_limit /\ 0 < p_last p /\
  (p_last p <= 1018310547 < two63) /\ bw * (1018310547 - p_last p) < two63 /\
  budget bw p 1018310547 = 1200 /\ budget bw p 1018310546 = 1199.
Proof. zdecide. Qed.

(* 5e9 B/s (40 Gbit/s) compensated to 6.25e9, datagram 1452, 7 bytes left: the minimum pacing delay applies *)
Example wakeup_ex_high :
  let p := mkP 7 1452 3600000000000 in let bw := 6250000000 in
  time_until_send bw p = Ok 3600001000000 /\
  bw * (3600001000000 - p_last p) < two63 /\
  budget bw p 3600001000000 = 6250007.
Proof. zdecide. Qed.

(* a history that satisfies the hypotheses of the rate theorem and meets the bound with equality:
   the full burst, then one datagram exactly when it is covered *)
Example rate_ex :
  let B := 81920 in let M := 1200 in
  let s1 := mkS 65536 1200 1000000000 12000 in
  let s2 := mkS 81920 1200 1014648438 1200 in
  send_ok B M pacer_init s1 /\ sends_ok B M (psend_step pacer_init s1) [s2] /\
  bytes_of [s1; s2] = 13200 /\
  burst_bound B M + B * (s_t s2 - s_t s1) / ns_per_s = 13200.
Proof. zdecide. Qed.
