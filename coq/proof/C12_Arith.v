(* C12 proofs, layer 3 arithmetic: the VM fast paths of lib/F64x.v are the plain functions.
   No property of a floating-point result is used anywhere: qdiv checks its candidate quotient with integers. *)
From Hy Require Import lib.F64 lib.F64x model.C12_Queue model.C12_Sender proof.C12_Sender.
From Coq Require Import ZArith Lia Bool.
Local Open Scope Z_scope.

Definition in64 (x : Z) : Prop := - 9223372036854775808 <= x < 9223372036854775808.

Lemma i64w_eq : forall x, i64w x = wrap64 x.
Proof.
  intros. unfold i64w. rewrite (wrap64_mod x). unfold x_two63, x_two64, C12_Sender.two63, two64.
  destruct ((-9223372036854775808 <=? x) && (x <? 9223372036854775808)) eqn:E; [|reflexivity].
  rewrite Z.mod_small; lia.
Qed.

Lemma i64w_range : forall x, in64 (i64w x).
Proof.
  intros. unfold in64, i64w, x_two63, x_two64.
  destruct ((-9223372036854775808 <=? x) && (x <? 9223372036854775808)) eqn:E; [lia|].
  pose proof (Z.mod_pos_bound (x + 9223372036854775808) 18446744073709551616 ltac:(lia)). lia.
Qed.

Lemma i64w_id : forall x, in64 x -> i64w x = x.
Proof. intros x H. unfold in64 in H. unfold i64w. replace ((-9223372036854775808 <=? x) && (x <? 9223372036854775808)) with true by lia. reflexivity. Qed.

Lemma u64w_eq : forall x, u64w x = x mod 18446744073709551616.
Proof.
  intros. unfold u64w, x_two64. destruct ((0 <=? x) && (x <? 18446744073709551616)) eqn:E; [|reflexivity].
  rewrite Z.mod_small; lia.
Qed.

Lemma u64w_range : forall x, 0 <= u64w x < 18446744073709551616.
Proof. intros. rewrite u64w_eq. apply Z.mod_pos_bound. lia. Qed.

(* a non-zero int64 is a non-zero uint64 *)
Lemma u64w_nonzero : forall x, in64 x -> x <> 0 -> u64w x <> 0.
Proof.
  intros x H N. unfold in64 in H. rewrite u64w_eq. intro E.
  apply Z.mod_divide in E; [|lia]. destruct E as (k & E). lia.
Qed.

Lemma qdiv_try_spec : forall a b q, 0 < b -> qdiv_try a b q = true -> q = a / b.
Proof.
  intros a b q Hb H. unfold qdiv_try in H. apply andb_prop in H. destruct H as (H & H3).
  apply andb_prop in H. destruct H as (H1 & H2).
  apply Z.div_unique with (r := a - q * b); lia.
Qed.

Lemma qdiv_spec : forall a b, qdiv a b = a / b.
Proof.
  intros. unfold qdiv. destruct ((0 <=? a) && (0 <? b)) eqn:E; [|reflexivity].
  assert (Hb : 0 < b) by lia. cbv zeta.
  repeat match goal with
  | |- (if qdiv_try a b ?q then _ else _) = _ => destruct (qdiv_try a b q) eqn:?
  end; try reflexivity; eapply qdiv_try_spec; eauto.
Qed.

Lemma squot_spec : forall a b, squot a b = Z.quot a b.
Proof.
  intros. unfold squot. destruct ((0 <=? a) && (0 <? b)) eqn:E; [|reflexivity].
  rewrite qdiv_spec, Z.quot_div_nonneg by lia. reflexivity.
Qed.
