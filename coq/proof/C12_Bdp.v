(* C12 - the bandwidth-delay product behind the target window.
   getTargetCongestionWindow(gain) = gain x bdpFromRttAndBandwidth(min_rtt, bandwidth estimate), and falls back to
   gain x the INITIAL window (32 datagrams) when that product is zero ("no bandwidth sample yet").  The target window is
   what lets the sender fill the path, so "does not settle far below capacity" needs the product to be the path's real
   bandwidth-delay product for every min_rtt a path can have - in particular for round trips below a millisecond, where
   any arithmetic on whole milliseconds sees a zero duration.  The code multiplies nanoseconds by bits/s in int64 and
   divides afterwards; this file shows that this is the exact floor of min_rtt x bandwidth in bytes whenever the product
   fits int64 (min_rtt x bandwidth < 2^63 ns x bits/s: 1 s x 9.2 Gbit/s, 1 ms x 9.2 Tbit/s), and that a version working
   on truncated milliseconds is zero for EVERY sub-millisecond min_rtt whatever the bandwidth. *)
From Hy Require Import lib.Res lib.F64 lib.F64x model.C12_Queue model.C12_Sender model.C12_Full proof.C12_Sender proof.C12_Arith gen.ParamsC12.
From Coq Require Import ZArith Lia.
Local Open Scope Z_scope.

Lemma bdp_exact : forall rtt bw,
  0 <= rtt -> 0 <= bw -> rtt * bw < 9223372036854775808 ->
  bdp_of rtt bw = rtt * bw / 8000000000.
Proof.
  intros rtt bw Hr Hb Hp. unfold bdp_of, ns_second, c12_BytesPerSecond.
  destruct (Z.eq_dec rtt 0) as [->|Nr].
  - rewrite Z.mul_0_l. rewrite (i64w_id 0) by (unfold in64; lia). rewrite !squot_spec. reflexivity.
  - assert (Hbw : bw < 9223372036854775808) by nia.
    rewrite (i64w_id bw) by (unfold in64; lia).
    rewrite (i64w_id (rtt * bw)) by (unfold in64; nia).
    rewrite !squot_spec.
    assert (0 <= rtt * bw) by nia.
    rewrite (Z.quot_div_nonneg (rtt * bw) 8) by lia.
    rewrite Z.quot_div_nonneg by (try apply Z.div_pos; lia).
    rewrite Z.div_div by lia. reflexivity.
Qed.

(* as soon as the path holds n bytes (min_rtt x bandwidth >= n bytes, in ns x bits/s units), so does the product - for any
   positive min_rtt, however small *)
Lemma bdp_at_least : forall rtt bw n,
  0 <= rtt -> 0 <= bw -> rtt * bw < 9223372036854775808 -> 0 <= n ->
  n * 8000000000 <= rtt * bw -> n <= bdp_of rtt bw.
Proof.
  intros rtt bw n Hr Hb Hp Hn H. rewrite bdp_exact by assumption.
  apply Z.div_le_lower_bound; lia.
Qed.

Lemma bdp_zero_iff : forall rtt bw,
  0 <= rtt -> 0 <= bw -> rtt * bw < 9223372036854775808 ->
  (bdp_of rtt bw = 0 <-> rtt * bw < 8000000000).
Proof.
  intros rtt bw Hr Hb Hp. rewrite bdp_exact by assumption.
  assert (0 <= rtt * bw) by nia. split; intro E.
  - destruct (Z_lt_ge_dec (rtt * bw) 8000000000) as [L|G]; [exact L|].
    assert (1 <= rtt * bw / 8000000000) by (apply Z.div_le_lower_bound; lia). lia.
  - apply Z.div_small. lia.
Qed.

(* the same product computed from whole milliseconds and bytes/s (rtt.Milliseconds() x (bandwidth / BytesPerSecond) / 1000) *)
Definition bdp_of_ms (rtt bw : Z) : Z := squot (i64w (Z.quot rtt 1000000 * squot bw c12_BytesPerSecond)) 1000.

Lemma bdp_of_ms_sub_ms : forall rtt bw, 0 <= rtt < 1000000 -> bdp_of_ms rtt bw = 0.
Proof.
  intros rtt bw H. unfold bdp_of_ms. rewrite Z.quot_small by lia. rewrite Z.mul_0_l.
  rewrite (i64w_id 0) by (unfold in64; lia). rewrite squot_spec. reflexivity.
Qed.

(* 8 Gbit/s x 0.9 ms: the path holds 900000 bytes = 703 datagrams of 1280 bytes; the millisecond version says 0, and the
   target window falls back to gain x 32 datagrams *)
Lemma bdp_ms_example :
  bdp_of 900000 8000000000 = 900000 /\ bdp_of_ms 900000 8000000000 = 0.
Proof. split; [vm_compute; reflexivity|apply bdp_of_ms_sub_ms; lia]. Qed.
