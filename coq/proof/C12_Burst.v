(* C12 - the pacer does not cap the sending rate below the bandwidth it is given.
   The send loop is woken by the pacer's timer at most once per MinPacingDelay (TimeUntilSend never names an instant
   closer than that to the last packet), so a rate bw is sustained only if a wake-up one MinPacingDelay after the last
   packet may release what bw delivers in that time.  maxBurstSize's bandwidth-proportional term
   (maxBurstPacingDelayMultiplier x MinPacingDelay x bw / 10^9, evaluated in integer nanoseconds) grants 4 times that;
   the fallback of maxBurstPackets datagrams alone would be a ceiling of 10 datagrams per millisecond (~100 Mbit/s). *)
From Hy Require Import lib.Res model.C12_Queue model.C12_Sender proof.C12_Sender gen.ParamsC12.
From Coq Require Import ZArith Lia.
Local Open Scope Z_scope.

Lemma max_burst_covers_rate : forall p bw k,
  0 <= bw < 1000000000000 -> 0 < p_mds p <= c12_MaxPacketBufferSize -> 0 <= k <= maxBurstPacingDelayMultiplier ->
  k * c12_MinPacingDelayNs * bw / 1000000000 <= max_burst p bw.
Proof.
  intros p bw k Hbw Hm Hk. unfold max_burst, maxBurstPacingDelayMultiplier, maxBurstPackets in *. consts.
  rewrite (wrap64_id (4 * 1000000 * bw)) by (unfold two63; lia).
  rewrite Z.quot_div_nonneg by lia.
  assert (k * 1000000 * bw / 1000000000 <= 4 * 1000000 * bw / 1000000000) by (apply Z.div_le_mono; nia).
  lia.
Qed.

Lemma pacer_burst_sustains_rate : forall p bw,
  c12_minBps <= bw < 1000000000000 -> 0 < p_mds p <= c12_MaxPacketBufferSize ->
  0 < p_last p < 4611686018427387904 -> 0 <= p_budget p < 4611686018427387904 ->
  let q := c12_MinPacingDelayNs * bw / 1000000000 in
  4 * q <= max_burst p bw /\
  pacer_budget p bw (p_last p + c12_MinPacingDelayNs) = Z.min (max_burst p bw) (p_budget p + q) /\
  q <= pacer_budget p bw (p_last p + c12_MinPacingDelayNs).
Proof.
  intros p bw Hbw Hm Hl Hb q.
  pose proof (max_burst_covers_rate p bw 4 ltac:(unfold c12_minBps in *; lia) Hm ltac:(unfold maxBurstPacingDelayMultiplier; lia)) as M4.
  pose proof (max_burst_covers_rate p bw 1 ltac:(unfold c12_minBps in *; lia) Hm ltac:(unfold maxBurstPacingDelayMultiplier; lia)) as M1.
  assert (Q0 : 0 <= q) by (unfold q; consts; apply Z.div_pos; lia).
  assert (Q4 : 4 * q <= 4 * c12_MinPacingDelayNs * bw / 1000000000).
  { unfold q. consts. apply Z.div_le_lower_bound; [lia|].
    pose proof (Z.mul_div_le (1000000 * bw) 1000000000 ltac:(lia)). lia. }
  assert (Q1 : q < 1000000000) by (unfold q; consts; apply Z.div_lt_upper_bound; lia).
  assert (E : pacer_budget p bw (p_last p + c12_MinPacingDelayNs) = Z.min (max_burst p bw) (p_budget p + q)).
  { unfold pacer_budget. replace (p_last p =? 0) with false by lia.
    replace (p_last p + c12_MinPacingDelayNs - p_last p) with c12_MinPacingDelayNs by lia.
    unfold q in *. consts. rewrite (wrap64_id 1000000) by (unfold two63; lia).
    rewrite (wrap64_id (bw * 1000000)) by (unfold two63; lia).
    rewrite Z.quot_div_nonneg by lia. replace (bw * 1000000) with (1000000 * bw) by lia.
    rewrite wrap64_id by (unfold two63; lia).
    replace (p_budget p + 1000000 * bw / 1000000000 <? 0) with false by lia. reflexivity. }
  split; [lia|]. split; [exact E|]. rewrite E. replace (1 * c12_MinPacingDelayNs * bw) with (c12_MinPacingDelayNs * bw) in M1 by lia.
  fold q in M1. lia.
Qed.
