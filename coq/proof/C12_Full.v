(* C12 proofs, layer 3: the full sender (model/C12_Full.v) never panics on well-formed call sequences, keeps its
   well-formedness invariant (containers, gain / mode tables, cycle index), and its window fields evolve exactly as
   layer 2's skeleton does for SOME oracle values - so layer 2's window theorems hold of the full model with no oracle. *)
From Hy Require Import lib.Res lib.F64 lib.F64x model.C12_Queue model.C12_Sender model.C12_Full
  proof.C12_Ring proof.C12_PQ proof.C12_Layer1 proof.C12_Sender proof.C12_Arith.
From Coq Require Import ZArith Lia Bool List ZifyBool ZifyNat.
Import ListNotations.
Local Open Scope Z_scope.

Ltac rok H := rewrite H; cbn [bind].
Ltac ds s := destruct s as [tS tA tL tbs lst lat lS lA app eoa q r0 r1 a0 tr tAf].

(* ------------------------------------------------------------------ small arithmetic facts *)
Lemma i64w_diff_nonzero : forall a b, in64 a -> in64 b -> a <> b -> i64w (a - b) <> 0.
Proof.
  intros a b Ha Hb N E. unfold in64 in *. rewrite i64w_eq, wrap64_mod in E.
  unfold C12_Sender.two63, two64 in E.
  assert (M : (a - b + 9223372036854775808) mod 18446744073709551616 = 9223372036854775808) by lia.
  pose proof (Z.div_mod (a - b + 9223372036854775808) 18446744073709551616 ltac:(lia)) as D.
  rewrite M in D.
  assert (K : -1 <= (a - b + 9223372036854775808) / 18446744073709551616 <= 1).
  { split; [apply Z.div_le_lower_bound; lia|]. apply Z.lt_succ_r. apply Z.div_lt_upper_bound; lia. }
  lia.
Qed.

Lemma bw_from_delta_ok : forall b d, in64 d -> d <> 0 -> exists v, bw_from_delta b d = Ok v.
Proof.
  intros b d H N. unfold bw_from_delta. pose proof (u64w_nonzero d H N).
  destruct (u64w d =? 0) eqn:E; [lia|]. eauto.
Qed.

Lemma get_min_rtt_ok : forall minRtt rttMin, in64 minRtt -> in64 rttMin ->
  in64 (get_min_rtt minRtt rttMin) /\ get_min_rtt minRtt rttMin <> 0.
Proof.
  intros a b Ha Hb. unfold get_min_rtt. destruct (a =? 0) eqn:E1; cbn [negb].
  - destruct (b =? 0) eqn:E2; [unfold in64; lia|split; [exact Hb|lia]].
  - split; [exact Ha|lia].
Qed.

(* ------------------------------------------------------------------ invariants *)
Definition cse_ok (e : cse) : Prop := in64 (c_sentTime e) /\ in64 (c_lastAckedSentTime e).
Definition slot_ok (o : option cse) : Prop := match o with Some e => cse_ok e | None => True end.
Definition all_ok (l : list (option cse)) : Prop := Forall slot_ok l.

Definition sinv (s : sampler) : Prop :=
  pq_wf cse cse0 (sm_csm s) /\ all_ok (snd (pq_abs cse cse0 (sm_csm s))) /\
  rb_wf (sm_a0 s) /\ in64 (sm_lastAckedSentTime s).

Ltac sinv_tac := unfold sinv; cbn [sm_csm sm_a0 sm_lastAckedSentTime]; refine (conj _ (conj _ (conj _ _))); try assumption.

Lemma spec_get_ok : forall st pn e, all_ok (snd st) -> spec_get cse st pn = Some e -> cse_ok e.
Proof.
  intros st pn e H G. unfold spec_get in G. destruct (pn <? fst st); [discriminate|].
  destruct (nth_in_or_default (Z.to_nat (pn - fst st)) (snd st) None) as [I|D].
  - rewrite G in I. unfold all_ok in H. rewrite Forall_forall in H. exact (H _ I).
  - congruence.
Qed.

Lemma all_ok_app : forall a b, all_ok a -> all_ok b -> all_ok (a ++ b).
Proof. intros. apply Forall_app. auto. Qed.

Lemma all_ok_repeat_none : forall n, all_ok (repeat None n).
Proof. intros. apply Forall_forall. intros x I. apply repeat_spec in I. subst. exact I0 || exact Logic.I. Qed.

Lemma spec_emplace_ok : forall st pn e, all_ok (snd st) -> cse_ok e -> all_ok (snd (fst (spec_emplace cse st pn e))).
Proof.
  intros st pn e H He. unfold spec_emplace. destruct (snd st) eqn:ES.
  - cbn. constructor; [exact He|constructor].
  - destruct (pn <=? _); cbn [fst snd]; [rewrite ES; exact H|].
    apply all_ok_app; [exact H|]. apply all_ok_app; [apply all_ok_repeat_none|]. constructor; [exact He|constructor].
Qed.

Lemma strip_loop_ok : forall sl f, all_ok sl -> all_ok (fst (strip_loop cse sl f)).
Proof.
  induction sl as [|o t IH]; intros f H; cbn; [exact H|].
  destruct o; cbn; [exact H|]. apply IH. inversion H; assumption.
Qed.

Lemma upto_sl_ok : forall sl f pn, all_ok sl -> all_ok (fst (upto_sl cse sl f pn)).
Proof.
  induction sl as [|o t IH]; intros f pn H; cbn; [constructor|].
  destruct (f <? pn); cbn; [|exact H]. apply IH. inversion H; assumption.
Qed.

Lemma spec_upto_ok : forall st pn, all_ok (snd st) -> all_ok (snd (spec_upto cse st pn)).
Proof.
  intros st pn H. unfold spec_upto, strip. cbn [fst snd].
  pose proof (strip_loop_ok (fst (upto_sl cse (snd st) (fst st) pn)) (snd (upto_sl cse (snd st) (fst st) pn))
                (upto_sl_ok _ _ _ H)) as K.
  destruct (fst (strip_loop cse _ _)) eqn:E; cbn [snd]; [constructor|exact K].
Qed.

(* ------------------------------------------------------------------ a0Candidates: chooseA0Point never pops an empty ring *)
Lemma rb_nonempty : forall (r : ring ackpt), rb_wf r -> (0 < rb_len r)%nat ->
  exists x l, rb_list ackpt0 r = x :: l.
Proof.
  intros r W H. rewrite (rb_len_length ackpt ackpt0) in H.
  destruct (rb_list ackpt0 r) as [|x l]; [cbn in H; lia|eauto].
Qed.

Lemma rb_pop_ok : forall (r : ring ackpt), rb_wf r -> (0 < rb_len r)%nat ->
  exists x r', rb_pop ackpt0 r = Ok (x, r') /\ rb_wf r' /\ rb_len r' = (rb_len r - 1)%nat.
Proof.
  intros r W H. destruct (rb_nonempty r W H) as (x & l & E).
  destruct (rb_pop_refines ackpt ackpt0 r x l W E) as (r' & P & W' & L' & _).
  exists x, r'. split; [exact P|]. split; [exact W'|].
  rewrite !(rb_len_length ackpt ackpt0), L', E. cbn. lia.
Qed.

Lemma pop_n_ok : forall n (r : ring ackpt), rb_wf r -> (n <= rb_len r)%nat ->
  exists r', pop_n n r = Ok r' /\ rb_wf r'.
Proof.
  induction n as [|n IH]; intros r W H; cbn [pop_n]; [eauto|].
  destruct (rb_pop_ok r W ltac:(lia)) as (x & r1 & E & W1 & L1). rok E. cbn [snd]. apply IH; [exact W1|lia].
Qed.

Lemma pop_while_ok : forall fuel k (r : ring ackpt), rb_wf r -> 0 <= k -> (rb_len r < fuel)%nat ->
  exists r', pop_while fuel k r = Ok r' /\ rb_wf r'.
Proof.
  induction fuel as [|f IH]; intros k r W Hk H; [lia|]. cbn [pop_while].
  destruct (k <? Z.of_nat (rb_len r) - 1) eqn:E; [|eauto].
  destruct (rb_pop_ok r W ltac:(lia)) as (x & r1 & P & W1 & L1). rok P. cbn [snd]. apply IH; [exact W1|lia|lia].
Qed.

Lemma a0_scan_ok : forall n (r : ring ackpt) i tot, rb_wf r -> 0 <= i -> i + Z.of_nat n <= Z.of_nat (rb_len r) ->
  exists o, a0_scan n r i tot = Ok o /\ (forall j, o = Some j -> i <= j < i + Z.of_nat n).
Proof.
  induction n as [|n IH]; intros r i tot W Hi H; cbn [a0_scan].
  - eexists. split; [reflexivity|]. discriminate.
  - destruct (rb_offset_refines ackpt ackpt0 r i W ltac:(lia)) as (j & E & _). rok E.
    destruct (tot <? snd (rb_get ackpt0 r j)).
    + eexists. split; [reflexivity|]. intros j0 Ej. injection Ej as <-. lia.
    + destruct (IH r (i + 1) tot W ltac:(lia) ltac:(lia)) as (o & Eo & Ho). exists o. split; [exact Eo|].
      intros j0 Ej. specialize (Ho j0 Ej). lia.
Qed.

Lemma choose_a0_ok : forall (r : ring ackpt) tot, rb_wf r ->
  exists o r', choose_a0 r tot = Ok (o, r') /\ rb_wf r'.
Proof.
  intros r tot W. unfold choose_a0.
  destruct (rb_empty r) eqn:EE; [eauto|].
  assert (Hpos : (0 < rb_len r)%nat).
  { destruct (rb_len r) eqn:EL; [|lia]. exfalso.
    assert (X : rb_list ackpt0 r = []).
    { pose proof (rb_len_length ackpt ackpt0 r) as LL. rewrite EL in LL. destruct (rb_list ackpt0 r); [reflexivity|discriminate]. }
    apply (rb_empty_iff ackpt ackpt0 r W) in X. congruence. }
  destruct (rb_nonempty r W Hpos) as (x & l & EL).
  destruct (rb_len r =? 1)%nat eqn:E1.
  - destruct (rb_front_refines ackpt ackpt0 r x l W EL) as (i & F & _). rok F. eauto.
  - destruct (a0_scan_ok (rb_len r - 1) r 1 tot W ltac:(lia) ltac:(lia)) as (o & Eo & Ho). rok Eo.
    destruct o as [i|].
    + specialize (Ho i eq_refl).
      destruct (rb_offset_refines ackpt ackpt0 r (i - 1) W ltac:(lia)) as (j & E & _). rok E.
      destruct (pop_n_ok (Z.to_nat (i - 1)) r W ltac:(lia)) as (r' & P & W'). rok P. eauto.
    + destruct (rb_back_refines ackpt ackpt0 r W) as (j & B & _); [rewrite EL; discriminate|]. rok B.
      destruct (pop_while_ok (S (rb_len r)) 0 r W ltac:(lia) ltac:(lia)) as (r' & P & W'). rok P. eauto.
Qed.

(* ------------------------------------------------------------------ the sampler *)
Lemma sm_app_limited_inv : forall s, sinv s -> sinv (sm_app_limited s).
Proof. intros s H. ds s. exact H. Qed.

Lemma sm_reset_tracker_inv : forall s h t, sinv s -> sinv (sm_reset_tracker s h t).
Proof. intros s h t H. ds s. exact H. Qed.

Lemma sm_get_ok : forall s pn, sinv s ->
  exists o, pq_get cse0 (sm_csm s) pn = Ok o /\ slot_ok o.
Proof.
  intros s pn (W & A & _). rewrite (get_refines cse cse0 _ pn W). eexists. split; [reflexivity|].
  destruct (spec_get cse _ pn) eqn:G; [|exact I]. eapply spec_get_ok; eauto.
Qed.

Lemma sm_on_lost_ok : forall s pn b, sinv s -> exists s' t, sm_on_lost s pn b = Ok (s', t) /\ sinv s'.
Proof.
  intros s pn b H. destruct (sm_get_ok s pn H) as (o & G & _). ds s. unfold sm_on_lost. cbn [sm_csm] in G.
  rok G. eexists _, _. split; [reflexivity|]. exact H.
Qed.

Lemma sm_lost_loop_ok : forall lost s last, sinv s -> exists s' t, sm_lost_loop s lost last = Ok (s', t) /\ sinv s'.
Proof.
  induction lost as [|p t IH]; intros s last H; cbn [sm_lost_loop]; [eauto|].
  destruct (sm_on_lost_ok s (fst p) (snd p) H) as (s1 & t1 & E & H1). rok E. cbn [fst snd]. apply IH. exact H1.
Qed.

Lemma sm_on_acked_ok : forall oa s ackTime pn, sinv s -> in64 ackTime ->
  exists s' b, sm_on_acked oa s ackTime pn = Ok (s', b) /\ sinv s' /\ in64 (bs_rtt b).
Proof.
  assert (Z0 : in64 0) by (unfold in64; lia).
  intros oa s ackTime pn H Ht. destruct (sm_get_ok s pn H) as (o & G & Ho).
  ds s. unfold sm_on_acked. cbn [sm_csm] in G. rok G.
  destruct H as (W & A & WA & L). cbn [sm_csm sm_a0 sm_lastAckedSentTime] in *.
  destruct o as [sp|]; [|eexists _, _; split; [reflexivity|]; split; [sinv_tac|exact Z0]].
  destruct Ho as (Hs & Hl). cbv zeta.
  destruct (c_lastAckedSentTime sp =? 0) eqn:E0.
  { eexists _, _. split; [reflexivity|]. split; [sinv_tac|exact Z0]. }
  assert (SR : exists v, (if c_lastAckedSentTime sp <? c_sentTime sp
                          then bw_from_delta (i64w (s_sent (c_sts sp) - c_tbsAtLastAcked sp))
                                             (i64w (c_sentTime sp - c_lastAckedSentTime sp))
                          else Ok infBandwidth) = Ok v).
  { destruct (c_lastAckedSentTime sp <? c_sentTime sp) eqn:E1; [|eauto].
    apply bw_from_delta_ok; [apply i64w_range|]. apply i64w_diff_nonzero; [assumption|assumption|lia]. }
  destruct SR as (sr & SR). rok SR.
  assert (CA : exists o r', (if oa then choose_a0 a0 (s_acked (c_sts sp)) else Ok (None, a0)) = Ok (o, r') /\
                            rb_wf r').
  { destruct oa; [apply choose_a0_ok; assumption|eauto]. }
  destruct CA as (o & r' & CA & W'). rok CA. cbn [fst snd].
  destruct (i64w (ackTime - fst _) <=? 0) eqn:E2.
  { eexists _, _. split; [reflexivity|]. split; [sinv_tac|exact Z0]. }
  match goal with |- context [bw_from_delta ?b ?d] => destruct (bw_from_delta_ok b d) as (ar & AR) end;
    [apply i64w_range|lia|].
  rok AR. eexists _, _. split; [reflexivity|]. split; [sinv_tac|apply i64w_range].
Qed.

Lemma sm_ack_loop_ok : forall oa acked s now lastSt rtt maxBw appl, sinv s -> in64 now -> in64 rtt ->
  exists r, sm_ack_loop oa s now acked lastSt rtt maxBw appl = Ok r /\ sinv (fst (fst (fst (fst r)))) /\
            in64 (snd (fst (fst r))).
Proof.
  induction acked as [|p t IH]; intros s now lastSt rtt maxBw appl H Hn Hr; cbn [sm_ack_loop].
  - eexists. split; [reflexivity|]. split; [exact H|exact Hr].
  - destruct (sm_on_acked_ok oa s now (fst p) H Hn) as (s1 & b & E & H1 & Hb). rok E. cbn [fst snd].
    destruct (negb (s_valid (bs_state b))); [apply IH; assumption|].
    assert (Hr' : in64 (if bs_rtt b =? 0 then rtt else Z.min rtt (bs_rtt b))).
    { destruct (bs_rtt b =? 0); [exact Hr|]. unfold in64 in *. lia. }
    destruct (maxBw <? bs_bw b); apply IH; assumption.
Qed.

Lemma sm_on_ack_event_end_ok : forall oa s bw isNew round, sinv s ->
  exists s' x, sm_on_ack_event_end oa s bw isNew round = Ok (s', x) /\ sinv s'.
Proof.
  intros oa s bw isNew round H. ds s. unfold sm_on_ack_event_end.
  destruct (i64w (tA - tAf) =? 0); [eauto|]. cbv zeta.
  destruct H as (W & A & WA & L). cbn [sm_csm sm_a0 sm_lastAckedSentTime] in *.
  match goal with |- context [if ?c then rb_push _ _ ?v else _] => destruct c end.
  - match goal with |- context [rb_push _ _ ?v] => destruct (rb_push_refines ackpt ackpt0 a0 v WA) as (r' & E & W' & _) end.
    rok E. eexists _, _. split; [reflexivity|]. sinv_tac.
  - cbn [bind]. eexists _, _. split; [reflexivity|]. sinv_tac.
Qed.

Lemma sm_on_cong_ok : forall oa s now acked lost best round, sinv s -> in64 now ->
  exists s' ce, sm_on_cong oa s now acked lost best round = Ok (s', ce) /\ sinv s' /\ in64 (ce_rtt ce).
Proof.
  assert (ZI : in64 infRTT) by (unfold in64, infRTT; lia).
  intros oa s now acked lost best round H Hn. unfold sm_on_cong.
  destruct (sm_lost_loop_ok lost s sts0 H) as (s1 & t1 & E1 & H1). rok E1. cbn [fst snd].
  destruct acked as [|a0 at0]; [eexists _, _; split; [reflexivity|]; split; [exact H1|exact ZI]|].
  destruct (sm_ack_loop_ok oa (a0 :: at0) s1 now sts0 infRTT 0 false H1 Hn ZI) as (r & E2 & H2 & Hrtt). rok E2.
  destruct r as ((((s2 & lastAck) & rtt) & smb) & appl). cbn [fst snd] in H2, Hrtt.
  match goal with |- context [sm_on_ack_event_end oa s2 ?b ?n ?rd] =>
    destruct (sm_on_ack_event_end_ok oa s2 b n rd H2) as (s3 & x & E3 & H3) end.
  rok E3. cbn [fst snd]. eexists _, _. split; [reflexivity|]. split; [exact H3|exact Hrtt].
Qed.

Lemma sm_remove_obsolete_ok : forall s least, sinv s -> exists s', sm_remove_obsolete s least = Ok s' /\ sinv s'.
Proof.
  intros s least H. ds s. unfold sm_remove_obsolete. destruct H as (W & A & WA & L).
  cbn [sm_csm sm_a0 sm_lastAckedSentTime] in *.
  destruct (remove_upto_refines cse cse0 q least W) as (q' & E & W' & A'). rok E.
  eexists. split; [reflexivity|]. sinv_tac.
  rewrite A'. apply spec_upto_ok. exact A.
Qed.

Lemma sm_on_sent_ok : forall oa s now pn bytes bif retx, sinv s -> in64 now -> 0 <= pn ->
  exists s', sm_on_sent oa s now pn bytes bif retx = Ok s' /\ sinv s'.
Proof.
  intros oa s now pn bytes bif retx H Hn Hpn. ds s. unfold sm_on_sent.
  destruct H as (W & A & WA & L). cbn [sm_csm sm_a0 sm_lastAckedSentTime] in *.
  destruct (negb retx); [eexists; split; [reflexivity|]; sinv_tac|]. cbv zeta.
  assert (X : exists tbs' lst' lat' r0' r1' a0',
    (if bif =? 0
     then if oa
          then a0' <- rb_push ackpt0 (rb_clear ackpt0 a0) (snd (rap_update ackpt0 ackpt0 now tA)) ;;
               Ok (i64w (tS + bytes), now, now, fst (rap_update ackpt0 ackpt0 now tA),
                   snd (rap_update ackpt0 ackpt0 now tA), a0')
          else Ok (i64w (tS + bytes), now, now, r0, r1, a0)
     else Ok (tbs, lst, lat, r0, r1, a0)) =
    Ok (tbs', lst', lat', r0', r1', a0') /\ in64 lst' /\ rb_wf a0').
  { destruct (bif =? 0); [|eexists _, _, _, _, _, _; split; [reflexivity|split; assumption]].
    destruct oa; [|eexists _, _, _, _, _, _; split; [reflexivity|split; assumption]].
    destruct (rb_clear_refines ackpt ackpt0 a0) as (Wc & _).
    match goal with |- context [rb_push _ _ ?v] => destruct (rb_push_refines ackpt ackpt0 _ v Wc) as (r' & E & W' & _) end.
    rok E. eexists _, _, _, _, _, _. split; [reflexivity|split; assumption]. }
  destruct X as (tbs' & lst' & lat' & r0' & r1' & a0' & X & Hl & Wa). rok X.
  match goal with |- context [pq_emplace cse0 q pn (Some ?e)] =>
    destruct (emplace_refines cse cse0 q pn e W Hpn) as (q' & E & W' & A') end.
  rok E. cbn [fst]. eexists. split; [reflexivity|].
  sinv_tac.
  rewrite A'. apply spec_emplace_ok; [exact A|]. split; cbn; assumption.
Qed.

(* ------------------------------------------------------------------ the gain / mode machine *)
Lemma gain_table_len : Z.of_nat (length gain_table) = c12_gainCycleLength.
Proof. unfold gain_table. rewrite map_length. reflexivity. Qed.

Lemma gain_at_ok : forall off, 0 <= off < c12_gainCycleLength -> exists g, gain_at off = Ok g /\ In g gain_table.
Proof.
  intros off H. unfold gain_at. rewrite gain_table_len.
  replace ((0 <=? off) && (off <? c12_gainCycleLength)) with true by lia.
  eexists. split; [reflexivity|]. apply nth_In. pose proof gain_table_len. lia.
Qed.

Lemma enter_probe_bw_ok : forall rnd, 0 <= rnd ->
  exists off g, enter_probe_bw rnd = Ok (off, g) /\ 0 <= off < c12_gainCycleLength /\ In g gain_table.
Proof.
  intros rnd H. unfold enter_probe_bw. cbv zeta.
  assert (R : 0 <= Z.rem rnd (c12_gainCycleLength - 1) < c12_gainCycleLength - 1).
  { apply Z.rem_bound_pos; [exact H|unfold c12_gainCycleLength; lia]. }
  set (r := Z.rem rnd (c12_gainCycleLength - 1)) in *.
  destruct (gain_at_ok (if 1 <=? r then r + 1 else r)) as (g & E & I); [destruct (1 <=? r) eqn:E1; lia|].
  rok E. eexists _, _. split; [reflexivity|]. cbn [fst snd]. split; [destruct (1 <=? r) eqn:E1; lia|exact I].
Qed.

Lemma update_gain_cycle_ok : forall dtt pg off lcs now prior hl infl rtt tgt, 0 <= off < c12_gainCycleLength ->
  exists pg' off' lcs', update_gain_cycle dtt pg off lcs now prior hl infl rtt tgt = Ok (pg', off', lcs') /\
    0 <= off' < c12_gainCycleLength /\ (pg' = pg \/ In pg' gain_table).
Proof.
  intros dtt pg off lcs now prior hl infl rtt tgt H. unfold update_gain_cycle. cbv zeta.
  match goal with |- context [if ?c then (g <- _ ;; _) else _] => destruct c end;
    [|eexists _, _, _; split; [reflexivity|]; split; [exact H|left; reflexivity]].
  assert (R : 0 <= Z.rem (i64w (off + 1)) c12_gainCycleLength < c12_gainCycleLength).
  { rewrite i64w_id by (unfold in64, c12_gainCycleLength in *; lia).
    apply Z.rem_bound_pos; unfold c12_gainCycleLength in *; lia. }
  destruct (gain_at_ok _ R) as (g & E & I). rok E.
  match goal with |- context [if ?c then _ else _] => destruct c end;
    eexists _, _, _; (split; [reflexivity|]); (split; [exact R|]); [left; reflexivity|right; exact I].
Qed.

Definition ginv (P : prof) (md : Z) (full : bool) (pg cg : f64) : Prop :=
  (md = c12_modeStartup /\ pg = p_highGain P /\ cg = p_highCwndGain P) \/
  (md = c12_modeDrain /\ pg = p_drainGain P /\ cg = p_highCwndGain P /\ full = true) \/
  (md = c12_modeProbeBw /\ In pg gain_table /\ cg = p_cwndGainConst P /\ full = true) \/
  (md = c12_modeProbeRtt /\ pg = f_one /\ (cg = p_highCwndGain P \/ cg = p_cwndGainConst P)).

Definition ginv' (P : prof) (g : gstate) (full : bool) : Prop :=
  let '(md, pg, cg, off, lcs) := g in ginv P md full pg cg /\ 0 <= off < c12_gainCycleLength.

Lemma ginv_mono : forall P md f0 f1 pg cg, ginv P md f0 pg cg -> (f0 = true -> f1 = true) -> ginv P md f1 pg cg.
Proof. unfold ginv. intros. intuition. Qed.

Ltac modes := unfold c12_modeStartup, c12_modeDrain, c12_modeProbeBw, c12_modeProbeRtt in *.

Lemma exit_startup_or_drain_ok : forall P g full low rnd now, ginv' P g full -> 0 <= rnd ->
  exists g', exit_startup_or_drain P g full low rnd now = Ok g' /\ ginv' P g' full.
Proof.
  intros P ((((md & pg) & cg) & off) & lcs) full low rnd now (G & O) Hr. unfold exit_startup_or_drain.
  destruct (enter_probe_bw_ok rnd Hr) as (off' & g' & E & O' & I').
  destruct ((md =? c12_modeStartup) && full) eqn:C1.
  - assert (md = c12_modeStartup /\ full = true) as (-> & ->) by lia.
    replace (c12_modeDrain =? c12_modeDrain) with true by reflexivity. cbn [andb].
    destruct low.
    + rok E. cbn [fst snd]. eexists. split; [reflexivity|]. split; [|exact O'].
      right. right. left. auto.
    + eexists. split; [reflexivity|]. split; [|exact O]. right. left. auto.
  - destruct ((md =? c12_modeDrain) && low) eqn:C2.
    + assert (md = c12_modeDrain) as -> by lia. rok E. cbn [fst snd]. eexists. split; [reflexivity|]. split; [|exact O'].
      destruct G as [(X & _)|[(_ & _ & _ & F)|[(X & _)|(X & _)]]]; try (modes; discriminate).
      right. right. left. auto.
    + eexists. split; [reflexivity|]. split; assumption.
Qed.

Lemma enter_exit_probe_rtt_ok : forall P g full expired exq irs small exitAt rp ts rnd now, ginv' P g full -> 0 <= rnd ->
  exists g' ea rp' ts' al, enter_exit_probe_rtt P g full expired exq irs small exitAt rp ts rnd now = Ok (g', ea, rp', ts', al) /\
    ginv' P g' full.
Proof.
  intros P ((((md & pg) & cg) & off) & lcs) full expired exq irs small exitAt rp ts rnd now (G & O) Hr.
  unfold enter_exit_probe_rtt.
  destruct (enter_probe_bw_ok rnd Hr) as (off' & g' & E & O' & I').
  assert (CG : cg = p_highCwndGain P \/ cg = p_cwndGainConst P).
  { destruct G as [(_ & _ & X)|[(_ & _ & X & _)|[(_ & _ & X & _)|(_ & _ & X)]]]; auto. }
  set (enter := expired && negb exq && negb (md =? c12_modeProbeRtt)).
  assert (G1 : ginv' P (if enter then (c12_modeProbeRtt, f_one, cg, off, lcs) else (md, pg, cg, off, lcs)) full).
  { destruct enter; [|split; assumption]. split; [|exact O]. right. right. right. auto. }
  set (g1 := if enter then (c12_modeProbeRtt, f_one, cg, off, lcs) else (md, pg, cg, off, lcs)) in *.
  destruct (fst (fst (fst (fst g1))) =? c12_modeProbeRtt); [|eexists _, _, _, _, _; split; [reflexivity|exact G1]].
  destruct ((if enter then 0 else exitAt) =? 0).
  { destruct small; eexists _, _, _, _, _; (split; [reflexivity|exact G1]). }
  match goal with |- context [if ?c then _ else Ok (g1, _, _, ts, true)] => destruct c end;
    [|eexists _, _, _, _, _; split; [reflexivity|exact G1]].
  destruct (negb full) eqn:NF.
  - eexists _, _, _, _, _. split; [reflexivity|]. split; [left; auto|exact O].
  - rok E. cbn [fst snd]. eexists _, _, _, _, _. split; [reflexivity|]. split; [|exact O'].
    right. right. left. destruct full; [auto|discriminate].
Qed.

(* ------------------------------------------------------------------ whole events *)
Lemma wrap64_range : forall x, in64 (wrap64 x).
Proof. intros. rewrite <- i64w_eq. apply i64w_range. Qed.

Lemma calc_pacing_rate_ok : forall P best pg atFull pr det blo hnas icw cmp rttMin bl, in64 rttMin -> rttMin <> 0 ->
  exists r, calc_pacing_rate P best pg atFull pr det blo hnas icw cmp rttMin bl = Ok r.
Proof.
  intros P best pg atFull pr det blo hnas icw cmp rttMin bl H N. unfold calc_pacing_rate.
  destruct (best =? 0); [eauto|]. cbv zeta. destruct atFull; [eauto|].
  destruct (bw_from_delta_ok icw rttMin H N) as (v1 & E1). destruct (bw_from_delta_ok cmp rttMin H N) as (v2 & E2).
  destruct ((pr =? 0) && negb (rttMin =? 0)); [rok E1; eauto|].
  destruct det; [|cbn [bind]; eauto].
  match goal with |- context [if ?c then _ else Ok (pr, true, ?b)] => destruct c end; [|cbn [bind]; eauto].
  match goal with |- context [if ?c then _ else Ok (pr, true, ?b)] => destruct c end; [|cbn [bind]; eauto].
  rok E2. cbn [bind]. eauto.
Qed.

Definition pinv (w : wstate) (p : pacer) : Prop :=
  0 <= p_budget p /\ ((p_last p = 0 /\ c12_MaxPacketBufferSize <= p_budget p) \/ 0 < p_last p < 4611686018427387904) /\
  0 < p_mds p <= c12_MaxPacketBufferSize.

Definition finv (P : prof) (st : fstate) : Prop :=
  winv (fw st) /\ sinv (fs st) /\ in64 (m_minRtt (fm st)) /\
  ginv P (mode (fw st)) (atFullBw (fw st)) (m_pacingGain (fm st)) (m_cwndGain (fm st)) /\
  0 <= m_cycleOff (fm st) < c12_gainCycleLength /\ pinv (fw st) (fpc st).

Definition time_ok (now : Z) : Prop := 0 < now < 4611686018427387904.   (* monotime: zero means "unset" *)

(* well-formed calls: event times are monotime values (non-negative, below 2^62), rttStats.MinRTT() is an int64 and
   non-zero once congestion events are delivered, packet numbers and sizes are non-negative, the random draw is
   non-negative, a congestion event carries at least one packet, datagram sizes do not decrease *)
Definition fev_ok (m : Z) (e : fevent) : Prop :=
  match e with
  | FSent now bif pn bytes retx rttMin => time_ok now /\ 0 <= pn /\ in64 rttMin /\ 0 <= bytes
  | FCong now prior rttMin rnd acked lost =>
      time_ok now /\ in64 rttMin /\ rttMin <> 0 /\ 0 <= rnd /\ (acked <> [] \/ lost <> [])
  | FSetMds s => m <= s <= c12_MaxPacketBufferSize
  end.

Fixpoint fevs_ok (m : Z) (es : list fevent) : Prop :=
  match es with
  | [] => True
  | e :: t => fev_ok m e /\ fevs_ok (match e with FSetMds s => s | _ => m end) t
  end.

Lemma time_in64 : forall t, time_ok t -> in64 t.
Proof. unfold time_ok, in64. lia. Qed.

(* what OnCongestionEventEx does to the window fields IS layer 2's cong_event, for the oracle values the full
   model computes *)
Definition last_acked_of (acked : list (Z * Z)) : option Z := match acked with [] => None | _ => Some (last_pn acked) end.

Lemma w1_frame : forall w la hl,
  let w1 := match la with
            | Some a => let x := update_round w a in (update_recovery (fst x) a hl (snd x), snd x)
            | None => (w, false)
            end in
  mode (fst w1) = mode w /\ atFullBw (fst w1) = atFullBw w /\
  fst w1 = match la with
           | Some a => let x := update_round w a in update_recovery (fst x) a hl (snd x)
           | None => w
           end.
Proof.
  intros w [a|] hl; cbv zeta; cbn [fst snd]; [|auto].
  split; [|split; [|reflexivity]].
  - unfold update_recovery, update_round, set_rec, set_round.
    repeat match goal with |- context [if ?c then _ else _] => destruct c end; reflexivity.
  - unfold update_recovery, update_round, set_rec, set_round.
    repeat match goal with |- context [if ?c then _ else _] => destruct c end; reflexivity.
Qed.

Lemma tail_frame : forall w md f agg t h x ba ta bl,
  mode (calc_recovery (calc_cwnd (set_mode w md f) agg t h x ba ta) ba bl) = md /\
  atFullBw (calc_recovery (calc_cwnd (set_mode w md f) agg t h x ba ta) ba bl) = f.
Proof.
  intros. unfold calc_recovery, calc_cwnd, set_recwin, set_rec, set_cwnd, set_mode. cbn [mode recState recWin].
  repeat match goal with |- context [if ?c then _ else _] => destruct c end; split; reflexivity.
Qed.

Lemma f_cong_ok : forall P st now prior rttMin rnd acked lost, finv P st ->
  fev_ok (mds (fw st)) (FCong now prior rttMin rnd acked lost) ->
  exists st', f_cong P st now prior rttMin rnd acked lost = Ok st' /\ finv P st' /\ mds (fw st') = mds (fw st) /\
    fpc st' = fpc st /\
    exists o, fw st' = cong_event (fw st) (p_enableAckAgg P) prior (sum_bytes acked) (sum_bytes lost)
                                  (last_acked_of acked) (negb (is_nil lost)) o.
Proof.
  intros P st now prior rttMin rnd acked lost (W & S & MR & G & O & PI) (Ht & Hr & Hrn & Hrnd & Hne).
  unfold f_cong. cbv zeta.
  set (w0 := set_inflight (fw st) (wrap64 (prior - sum_bytes acked - sum_bytes lost))).
  fold (last_acked_of acked).
  destruct (w1_frame w0 (last_acked_of acked) (negb (is_nil lost))) as (FM & FF & FE). cbv zeta in FM, FF, FE.
  set (wr := match last_acked_of acked with
             | Some la => (update_recovery (fst (update_round w0 la)) la (negb (is_nil lost)) (snd (update_round w0 la)),
                           snd (update_round w0 la))
             | None => (w0, false)
             end) in *.
  set (w1 := fst wr) in *. set (irs := snd wr) in *.
  assert (FM0 : mode w1 = mode (fw st)) by (rewrite FM; reflexivity).
  assert (FF0 : atFullBw w1 = atFullBw (fw st)) by (rewrite FF; reflexivity).
  (* the sampler *)
  set (s0 := if prior <? _ then sm_app_limited (fs st) else fs st).
  assert (S0 : sinv s0) by (unfold s0; destruct (prior <? _); [apply sm_app_limited_inv|]; exact S).
  destruct (sm_on_cong_ok (p_overestimateAvoidance P) s0 now acked lost (wf_best (m_maxBw (fm st))) (roundCount w1) S0
              (time_in64 _ Ht)) as (s1 & ce & E1 & S1 & Hrtt).
  rok E1. cbn [fst snd].
  (* min rtt *)
  set (mr := if negb (ce_rtt ce =? infRTT) then maybe_update_min_rtt (m_minRtt (fm st)) (m_minRttTs (fm st)) now (ce_rtt ce)
             else (m_minRtt (fm st), m_minRttTs (fm st), false)).
  assert (MR1 : in64 (fst (fst mr))).
  { unfold mr, maybe_update_min_rtt. destruct (negb (ce_rtt ce =? infRTT)); [|exact MR]. cbv zeta.
    match goal with |- context [if ?c then _ else _] => destruct c end; cbn [fst]; assumption. }
  (* gain cycle *)
  match goal with |- context [bind (if mode w1 =? c12_modeProbeBw then ?a else ?b) _] =>
    assert (GC : exists pg' off' lcs', (if mode w1 =? c12_modeProbeBw then a else b) = Ok (pg', off', lcs') /\
                   0 <= off' < c12_gainCycleLength /\
                   (pg' = m_pacingGain (fm st) \/ (mode w1 = c12_modeProbeBw /\ In pg' gain_table)))
  end.
  { destruct (mode w1 =? c12_modeProbeBw) eqn:EM.
    - match goal with |- context [update_gain_cycle ?a ?b ?c ?d ?e ?f ?g ?h ?i ?j] =>
        destruct (update_gain_cycle_ok a b c d e f g h i j O) as (pg' & off' & lcs' & E & O' & I') end.
      eexists _, _, _. split; [exact E|]. split; [exact O'|]. destruct I'; [left; assumption|right; split; [lia|assumption]].
    - eexists _, _, _. split; [reflexivity|]. split; [exact O|left; reflexivity]. }
  destruct GC as (pg' & off' & lcs' & E2 & O2 & I2). rok E2. cbn [fst snd].
  (* full bandwidth flag: never reset *)
  match goal with |- context [if irs && negb (atFullBw w1) then ?a else ?b] =>
    set (fb := if irs && negb (atFullBw w1) then a else b) end.
  set (full1 := fst (fst (fst fb))).
  assert (FMono : atFullBw (fw st) = true -> full1 = true).
  { intros X. unfold full1, fb. rewrite FF0, X. rewrite andb_false_r. reflexivity. }
  assert (G0 : ginv' P (mode w1, pg', m_cwndGain (fm st), off', lcs') full1).
  { split; [|exact O2]. rewrite FM0. apply ginv_mono with (f0 := atFullBw (fw st)); [|exact FMono].
    destruct I2 as [->|(X & I2)]; [exact G|]. rewrite FM0 in X.
    destruct G as [(Y & _)|[(Y & _)|[(_ & _ & C & F)|(Y & _)]]]; try (rewrite X in Y; modes; discriminate).
    right. right. left. auto. }
  match goal with |- context [exit_startup_or_drain P ?g ?f ?l rnd now] =>
    destruct (exit_startup_or_drain_ok P g f l rnd now G0 Hrnd) as (g2 & E3 & G2) end.
  rok E3.
  match goal with |- context [enter_exit_probe_rtt P g2 ?f ?e ?q ?i ?sm ?ea ?rp ?ts rnd now] =>
    destruct (enter_exit_probe_rtt_ok P g2 f e q i sm ea rp ts rnd now G2 Hrnd) as (g3 & ea' & rp' & ts' & al & E4 & G3) end.
  rok E4. destruct g3 as ((((mode4 & pg5) & cg4) & off3) & lcs3). destruct G3 as (G3 & O3).
  set (s2 := if snd fb then sm_reset_tracker s1 0 (roundCount w1) else s1).
  assert (S2 : sinv s2) by (unfold s2; destruct (snd fb); [apply sm_reset_tracker_inv|]; exact S1).
  set (s4 := if al then sm_app_limited s2 else s2).
  assert (S4 : sinv s4) by (unfold s4; destruct al; [apply sm_app_limited_inv|]; exact S2).
  match goal with |- context [calc_pacing_rate P ?a ?b ?c ?d ?e ?f ?g ?h ?i rttMin ?k] =>
    destruct (calc_pacing_rate_ok P a b c d e f g h i rttMin k Hr Hrn) as (cp & E5) end.
  rok E5.
  assert (E6 : exists s5, match acked, lost with
                          | [], [] => Panic 13
                          | _, _ => sm_remove_obsolete s4 (least_unacked acked lost)
                          end = Ok s5 /\ sinv s5).
  { destruct acked; [destruct lost; [destruct Hne; congruence|]|]; apply sm_remove_obsolete_ok; exact S4. }
  destruct E6 as (s5 & E6 & S5). rok E6.
  eexists. split; [reflexivity|]. unfold finv. cbn [fw fm fpc fs m_minRtt m_pacingGain m_cwndGain m_cycleOff].
  match goal with |- context [calc_recovery (calc_cwnd (set_mode w1 mode4 full1) ?agg ?t ?h ?x ?ba ?ta) ?ba2 ?bl] =>
    set (o := mkO mode4 full1 t h x ba bl ta) end.
  assert (EQ : calc_recovery (calc_cwnd (set_mode w1 mode4 full1) (p_enableAckAgg P) (o_target o) (o_maxAckHeight o)
                 (o_excess o) (o_bytesAcked o) (o_totalAcked o)) (o_bytesAcked o) (o_bytesLost o) =
               cong_event (fw st) (p_enableAckAgg P) prior (sum_bytes acked) (sum_bytes lost) (last_acked_of acked)
                 (negb (is_nil lost)) o).
  { unfold cong_event. fold w0. cbv zeta. rewrite FE. reflexivity. }
  cbn [o_target o_maxAckHeight o_excess o_bytesAcked o_bytesLost o_totalAcked o] in EQ.
  destruct (cong_event_inv (fw st) (p_enableAckAgg P) prior (sum_bytes acked) (sum_bytes lost) (last_acked_of acked)
              (negb (is_nil lost)) o W) as (W' & M' & _).
  rewrite <- EQ in W', M'.
  match goal with |- context [calc_recovery (calc_cwnd (set_mode w1 mode4 full1) ?a ?b ?c ?d ?e ?f) ?g ?h] =>
    destruct (tail_frame w1 mode4 full1 a b c d e f h) as (TM & TF) end.
  split; [|split; [exact M'|split; [reflexivity|exists o; exact EQ]]].
  split; [exact W'|]. split; [exact S5|]. split; [exact MR1|]. rewrite TM, TF. split; [exact G3|]. split; [exact O3|].
  exact PI.
Qed.

Lemma pacer_budget_lt : forall p bw now, pacer_budget p bw now < 9223372036854775808.
Proof.
  intros. assert (MB : max_burst p bw < 9223372036854775808).
  { unfold max_burst. pose proof (wrap64_range (maxBurstPacingDelayMultiplier * c12_MinPacingDelayNs * bw)) as A.
    pose proof (wrap64_range (maxBurstPackets * p_mds p)) as B. unfold in64 in *.
    set (a := wrap64 (maxBurstPacingDelayMultiplier * c12_MinPacingDelayNs * bw)) in *.
    assert (Z.quot a 1000000000 < 9223372036854775808).
    { destruct (Z_lt_dec a 0).
      - pose proof (Z.quot_opp_l a 1000000000 ltac:(lia)). pose proof (Z.quot_pos (- a) 1000000000 ltac:(lia) ltac:(lia)). lia.
      - pose proof (Z.quot_le_upper_bound a 1000000000 a ltac:(lia)). nia. }
    lia. }
  unfold pacer_budget. destruct (p_last p =? 0); [exact MB|]. cbv zeta. lia.
Qed.

Lemma f_sent_ok : forall P st now bif pn bytes retx rttMin, finv P st ->
  fev_ok (mds (fw st)) (FSent now bif pn bytes retx rttMin) ->
  exists st', f_sent P st now bif pn bytes retx rttMin = Ok st' /\ finv P st' /\ fw st' = on_sent (fw st) pn bif /\
    p_mds (fpc st') = p_mds (fpc st).
Proof.
  intros P st now bif pn bytes retx rttMin (W & S & MR & G & O & PI) (Ht & Hpn & Hr & Hb).
  unfold f_sent, bw_for_pacer_f, pacing_rate_f.
  assert (PR : exists r, (if m_pacingRate (fm st) =? 0
                          then b <- bw_from_delta (initCW (fw st)) (get_min_rtt (m_minRtt (fm st)) rttMin) ;;
                               Ok (to_uint64 (fmul (p_highGain P) (of_Z b)))
                          else Ok (m_pacingRate (fm st))) = Ok r).
  { destruct (m_pacingRate (fm st) =? 0); [|eauto].
    destruct (get_min_rtt_ok _ _ MR Hr) as (A & B). destruct (bw_from_delta_ok (initCW (fw st)) _ A B) as (v & E).
    rok E. eauto. }
  destruct PR as (r & PR). rok PR.
  destruct (sm_on_sent_ok (p_overestimateAvoidance P) (fs st) now pn bytes bif retx S (time_in64 _ Ht) Hpn) as (s' & E & S').
  destruct (fm st) as [a1 a2 a3 a4 a5 a6 a7 a8 a9 a10 a11 a12 a13 a14 a15 a16 a17 a18 a19] eqn:EM.
  rok E. eexists. split; [reflexivity|]. unfold finv.
  cbn [fw fm fpc fs m_minRtt m_pacingGain m_cwndGain m_cycleOff] in *.
  split; [|split; [reflexivity|reflexivity]].
  split; [apply on_sent_inv; exact W|]. split; [exact S'|]. split; [exact MR|]. split; [exact G|]. split; [exact O|].
  destruct PI as (P1 & P2 & P3). unfold pinv, pacer_sent. cbn [p_budget p_last p_mds].
  split; [|split; [right; exact Ht|exact P3]].
  pose proof (pacer_budget_lt (fpc st) (bandwidth_for_pacer r) now) as BL.
  destruct (pacer_budget (fpc st) (bandwidth_for_pacer r) now <? bytes) eqn:EB; [lia|].
  rewrite i64w_id by (unfold in64; lia). lia.
Qed.

Lemma set_mds_flags : forall st s st', set_mds st s = Ok st' -> mode st' = mode st /\ atFullBw st' = atFullBw st.
Proof.
  intros st s st' H. unfold set_mds in H. destruct (s <? mds st); [discriminate|].
  repeat match type of H with
  | context [scale_window ?a ?b ?c] => destruct (scale_window a b c); cbn [bind] in H; try discriminate
  end.
  injection H as <-. split; reflexivity.
Qed.

Lemma f_set_mds_ok : forall P st s, finv P st -> fev_ok (mds (fw st)) (FSetMds s) ->
  exists st', f_set_mds st s = Ok st' /\ finv P st' /\ mds (fw st') = s /\ p_mds (fpc st') = s.
Proof.
  intros P st s (W & S & MR & G & O & PI) Hs. cbn [fev_ok] in Hs. unfold f_set_mds.
  destruct (set_mds_inv (fw st) s W Hs) as (w' & E & W' & M' & _). destruct (set_mds_flags _ _ _ E) as (FM & FF).
  rok E. eexists. split; [reflexivity|]. unfold finv. cbn [fw fm fpc fs].
  split; [|split; [exact M'|reflexivity]].
  split; [exact W'|]. split; [exact S|]. split; [exact MR|]. rewrite FM, FF. split; [exact G|]. split; [exact O|].
  destruct PI as (P1 & P2 & P3). unfold pinv. cbn [p_budget p_last p_mds]. destruct W as ((Wm & _) & _).
  split; [exact P1|]. split; [exact P2|lia].
Qed.

(* the sender's datagram size never exceeds the pacer's (equal after the first SetMaxDatagramSize) *)
Definition pm_inv (st : fstate) : Prop := mds (fw st) <= p_mds (fpc st).

Lemma fstep_ok : forall P st e, finv P st -> fev_ok (mds (fw st)) e ->
  exists st', fstep P st e = Ok st' /\ finv P st' /\
    mds (fw st') = match e with FSetMds s => s | _ => mds (fw st) end /\ (pm_inv st -> pm_inv st').
Proof.
  intros P st e I H. destruct e as [now bif pn bytes retx rttMin|now prior rttMin rnd acked lost|s]; cbn [fstep].
  - destruct (f_sent_ok P st now bif pn bytes retx rttMin I H) as (st' & E & I' & FW & PM).
    exists st'. split; [exact E|]. split; [exact I'|]. unfold pm_inv. rewrite FW, PM. cbn [on_sent mds]. auto.
  - destruct (f_cong_ok P st now prior rttMin rnd acked lost I H) as (st' & E & I' & M' & PC & _).
    exists st'. split; [exact E|]. split; [exact I'|]. unfold pm_inv. rewrite M', PC. auto.
  - destruct (f_set_mds_ok P st s I H) as (st' & E & I' & M' & PM).
    exists st'. split; [exact E|]. split; [exact I'|]. unfold pm_inv. rewrite M', PM. split; [reflexivity|lia].
Qed.

Lemma frun_ok : forall P es st, finv P st -> fevs_ok (mds (fw st)) es ->
  exists st', frun P st es = Ok st' /\ finv P st' /\ (pm_inv st -> pm_inv st').
Proof.
  intros P es. induction es as [|e t IH]; intros st I H; cbn [frun].
  - exists st. split; [reflexivity|]. split; [exact I|auto].
  - destruct H as (He & Ht). destruct (fstep_ok P st e I He) as (st1 & E & I1 & M1 & PM1). rok E.
    destruct (IH st1 I1) as (st' & E' & I' & PM'); [rewrite M1; exact Ht|].
    exists st'. split; [exact E'|]. split; [exact I'|auto].
Qed.

Lemma new_full_inv : forall P m icw mcw, 0 < m <= c12_MaxPacketBufferSize ->
  c12_minCongestionWindowPackets * m <= icw <= mcw -> mcw <= c12_MaxCongestionWindowPackets * m ->
  finv P (new_full P m icw mcw) /\ (m <= c12_InitialPacketSize -> pm_inv (new_full P m icw mcw)).
Proof.
  intros P m icw mcw Hm Hi Hx. split; [|intro; exact H].
  unfold finv, new_full. cbn [fw fm fs fpc].
  split; [apply new_sender_with_inv; assumption|].
  split.
  { unfold sinv, new_sampler. cbn [sm_csm sm_a0 sm_lastAckedSentTime].
    destruct (pq_new_wf cse cse0 c12_connectionStateMapQueueSize) as (Wq & Aq).
    split; [exact Wq|]. split; [rewrite Aq; constructor|]. split; [apply rb_init_wf|unfold in64; lia]. }
  unfold new_mach. cbn [m_minRtt m_pacingGain m_cwndGain m_cycleOff].
  split; [unfold in64; lia|]. split; [left; auto|]. split; [unfold c12_gainCycleLength; lia|].
  unfold pinv, new_pacer. cbn [p_budget p_last p_mds].
  unfold maxBurstPackets, c12_InitialPacketSize, c12_MaxPacketBufferSize. lia.
Qed.

(* ------------------------------------------------------------------ consequences for every reachable state *)
Definition params_ok (m icw mcw : Z) : Prop :=
  0 < m <= c12_MaxPacketBufferSize /\ c12_minCongestionWindowPackets * m <= icw <= mcw /\
  mcw <= c12_MaxCongestionWindowPackets * m.

Lemma reachable_inv : forall P m icw mcw es, params_ok m icw mcw -> fevs_ok m es ->
  exists st, frun P (new_full P m icw mcw) es = Ok st /\ finv P st /\ (m <= c12_InitialPacketSize -> pm_inv st).
Proof.
  intros P m icw mcw es (Hm & Hi & Hx) H. destruct (new_full_inv P m icw mcw Hm Hi Hx) as (I0 & PM0).
  destruct (frun_ok P es (new_full P m icw mcw) I0 H) as (st & E & I & PM). exists st. auto.
Qed.

Lemma frun_app : forall P es1 es2 st, frun P st (es1 ++ es2) = (st1 <- frun P st es1 ;; frun P st1 es2).
Proof.
  intros P es1. induction es1 as [|e t IH]; intros; cbn [frun app bind]; [reflexivity|].
  destruct (fstep P st e); cbn [bind]; auto.
Qed.

(* every step of the full model is a step of layer 2's window skeleton for some oracle values *)
Lemma fstep_refines : forall P st e st', finv P st -> fev_ok (mds (fw st)) e -> fstep P st e = Ok st' ->
  exists we, wstep (p_enableAckAgg P) (fw st) we = Ok (fw st').
Proof.
  intros P st e st' I H E. destruct e as [now bif pn bytes retx rttMin|now prior rttMin rnd acked lost|s]; cbn [fstep] in E.
  - destruct (f_sent_ok P st now bif pn bytes retx rttMin I H) as (st1 & E1 & _ & FW & _).
    rewrite E in E1. injection E1 as <-. exists (WSent pn bif). cbn [wstep]. rewrite FW. reflexivity.
  - destruct (f_cong_ok P st now prior rttMin rnd acked lost I H) as (st1 & E1 & _ & _ & _ & o & FW).
    rewrite E in E1. injection E1 as <-.
    exists (WCong prior (sum_bytes acked) (sum_bytes lost) (last_acked_of acked) (negb (is_nil lost)) o).
    cbn [wstep]. rewrite FW. reflexivity.
  - unfold f_set_mds in E. destruct (set_mds (fw st) s) as [w'| |] eqn:E1; cbn [bind] in E; try discriminate.
    injection E as <-. exists (WSetMds s). cbn [wstep fw]. exact E1.
Qed.

(* the pacing bandwidth of a reachable state: defined for every int64 rttStats.MinRTT() and at least the floor *)
Lemma full_pacing_floor : forall P st rttMin, finv P st -> in64 rttMin ->
  exists bw, f_bw_for_pacer P st rttMin = Ok bw /\ c12_minBps <= bw.
Proof.
  intros P st rttMin (W & S & MR & _) Hr. unfold f_bw_for_pacer, bw_for_pacer_f, pacing_rate_f.
  destruct (m_pacingRate (fm st) =? 0).
  - destruct (get_min_rtt_ok _ _ MR Hr) as (A & B). destruct (bw_from_delta_ok (initCW (fw st)) _ A B) as (v & E).
    rok E. cbn [bind]. eexists. split; [reflexivity|apply pacer_floor].
  - cbn [bind]. eexists. split; [reflexivity|apply pacer_floor].
Qed.

(* deadlock half: the announced wake-up time has budget for one datagram OF THE SENDER'S SIZE (what HasPacingBudget
   compares with), in every reachable state *)
Lemma full_wakeup_has_budget : forall P st rttMin bw, finv P st -> pm_inv st ->
  f_bw_for_pacer P st rttMin = Ok bw -> bw < 1000000000000 ->
  pacer_time_until_send (fpc st) bw = 0 \/ mds (fw st) <= pacer_budget (fpc st) bw (pacer_time_until_send (fpc st) bw).
Proof.
  intros P st rttMin bw (W & S & MR & G & O & (P1 & P2 & P3)) PM E Hbw.
  assert (Hfl : c12_minBps <= bw).
  { unfold f_bw_for_pacer, bw_for_pacer_f in E. destruct (pacing_rate_f P (fw st) (fm st) rttMin); cbn [bind] in E; try discriminate.
    injection E as <-. apply pacer_floor. }
  destruct P2 as [(L0 & B0)|L].
  - left. unfold pacer_time_until_send. replace (p_mds (fpc st) <=? p_budget (fpc st)) with true by lia. reflexivity.
  - destruct (pacer_wakeup_has_budget (fpc st) bw (conj Hfl Hbw) P3 P1 L) as [H|H]; [right|left; exact H].
    unfold pm_inv in PM. lia.
Qed.

(* ------------------------------------------------------------------ mode transitions *)
Definition gmode (g : gstate) : Z := fst (fst (fst (fst g))).
Definition gpg (g : gstate) : f64 := snd (fst (fst (fst g))).

(* maybeExitStartupOrDrain: STARTUP is left only at full bandwidth (to DRAIN, or through DRAIN to PROBE_BW when the
   in-flight is already at the target), DRAIN only to PROBE_BW and only when in-flight <= target; other modes untouched *)
Lemma exit_startup_or_drain_edges : forall P g full low rnd now g',
  exit_startup_or_drain P g full low rnd now = Ok g' ->
  (gmode g = c12_modeStartup ->
     (full = false /\ g' = g) \/
     (full = true /\ low = false /\ gmode g' = c12_modeDrain /\ gpg g' = p_drainGain P) \/
     (full = true /\ low = true /\ gmode g' = c12_modeProbeBw)) /\
  (gmode g = c12_modeDrain -> (low = false /\ g' = g) \/ (low = true /\ gmode g' = c12_modeProbeBw)) /\
  (gmode g <> c12_modeStartup -> gmode g <> c12_modeDrain -> g' = g).
Proof.
  intros P ((((md & pg) & cg) & off) & lcs) full low rnd now g' H. unfold exit_startup_or_drain in H. unfold gmode, gpg. cbn [fst snd].
  destruct ((md =? c12_modeStartup) && full) eqn:C1.
  - assert (md = c12_modeStartup /\ full = true) as (-> & ->) by lia.
    replace (c12_modeDrain =? c12_modeDrain) with true in H by reflexivity. cbn [andb] in H.
    destruct low.
    + destruct (enter_probe_bw rnd) as [e| |]; cbn [bind] in H; try discriminate. injection H as <-. cbn [fst snd].
      split; [intros _; right; right; auto|]. split; [modes; discriminate|]. intros X; congruence.
    + injection H as <-. cbn [fst snd]. split; [intros _; right; left; auto|]. split; [modes; discriminate|]. intros X; congruence.
  - destruct ((md =? c12_modeDrain) && low) eqn:C2.
    + assert (md = c12_modeDrain /\ low = true) as (-> & ->) by lia.
      destruct (enter_probe_bw rnd) as [e| |]; cbn [bind] in H; try discriminate. injection H as <-. cbn [fst snd].
      split; [modes; discriminate|]. split; [intros _; right; auto|]. intros _ X; congruence.
    + injection H as <-. cbn [fst snd]. split; [|split; [|reflexivity]].
      * intros ->. left. split; [|reflexivity]. replace (c12_modeStartup =? c12_modeStartup) with true in C1 by reflexivity.
        destruct full; [discriminate|reflexivity].
      * intros ->. left. split; [|reflexivity]. replace (c12_modeDrain =? c12_modeDrain) with true in C2 by reflexivity.
        destruct low; [discriminate|reflexivity].
Qed.

(* maybeEnterOrExitProbeRtt.  Entry: only when min_rtt expired and the connection is not exiting quiescence; the
   pacing gain becomes 1 and the exit time is cleared (or scheduled at now + 200 ms when the in-flight is already
   small).  Exit: only with a scheduled exit time that has passed AND a round trip passed since it was scheduled; the
   min-RTT timestamp is refreshed and the next mode is STARTUP before full bandwidth was reached, PROBE_BW after.
   Nothing else changes the mode here. *)
Lemma probe_rtt_edges : forall P g full expired exq irs small exitAt rp ts rnd now g' ea rp' ts' al,
  enter_exit_probe_rtt P g full expired exq irs small exitAt rp ts rnd now = Ok (g', ea, rp', ts', al) ->
  (gmode g <> c12_modeProbeRtt -> gmode g' = c12_modeProbeRtt ->
     expired = true /\ exq = false /\ gpg g' = f_one /\ al = true /\
     ((small = false /\ ea = 0) \/ (small = true /\ ea = i64w (now + c12_probeRttTimeNs) /\ rp' = false))) /\
  (gmode g <> c12_modeProbeRtt -> gmode g' <> c12_modeProbeRtt -> g' = g /\ ea = exitAt /\ rp' = rp /\ ts' = ts /\ al = false) /\
  (gmode g = c12_modeProbeRtt -> gmode g' <> c12_modeProbeRtt ->
     exitAt <> 0 /\ 0 <= i64w (now - exitAt) /\ (rp = true \/ irs = true) /\ rp' = true /\ ts' = now /\ al = true /\
     gmode g' = (if full then c12_modeProbeBw else c12_modeStartup)) /\
  (gmode g = c12_modeProbeRtt -> gmode g' = c12_modeProbeRtt -> g' = g /\ al = true /\ ts' = ts).
Proof.
  intros P ((((md & pg) & cg) & off) & lcs) full expired exq irs small exitAt rp ts rnd now g' ea rp' ts' al H.
  unfold enter_exit_probe_rtt in H. unfold gmode, gpg. cbn [fst snd].
  destruct (md =? c12_modeProbeRtt) eqn:EM.
  - assert (md = c12_modeProbeRtt) as -> by lia. rewrite andb_false_r in H. cbn [fst snd] in H.
    replace (c12_modeProbeRtt =? c12_modeProbeRtt) with true in H by reflexivity.
    split; [intros X; congruence|]. split; [intros X; congruence|].
    destruct (exitAt =? 0) eqn:E0.
    { destruct small; injection H as <- <- <- <- <-; cbn [fst snd]; (split; [intros _ X; congruence|]); intros; auto. }
    destruct ((0 <=? i64w (now - exitAt)) && (if irs then true else rp)) eqn:EC.
    + assert (0 <= i64w (now - exitAt) /\ (if irs then true else rp) = true) as (T1 & T2) by lia.
      destruct (negb full) eqn:NF.
      * injection H as <- <- <- <- <-. cbn [fst snd]. split.
        -- intros _ _. split; [lia|]. split; [exact T1|]. split; [destruct irs; auto|]. split; [exact T2|].
           split; [reflexivity|]. split; [reflexivity|]. destruct full; [discriminate|reflexivity].
        -- intros _ X. modes. discriminate.
      * destruct (enter_probe_bw rnd) as [e| |]; cbn [bind] in H; try discriminate.
        injection H as <- <- <- <- <-. cbn [fst snd]. split.
        -- intros _ _. split; [lia|]. split; [exact T1|]. split; [destruct irs; auto|]. split; [exact T2|].
           split; [reflexivity|]. split; [reflexivity|]. destruct full; [reflexivity|discriminate].
        -- intros _ X. modes. discriminate.
    + injection H as <- <- <- <- <-. cbn [fst snd]. split; [intros _ X; congruence|]. intros; auto.
  - assert (MN : md <> c12_modeProbeRtt) by lia. cbn [negb] in H. rewrite andb_true_r in H.
    destruct (expired && negb exq) eqn:EN.
    + assert (expired = true /\ exq = false) as (-> & ->) by (destruct expired, exq; cbn in EN; auto; discriminate).
      cbn [fst snd] in H. replace (c12_modeProbeRtt =? c12_modeProbeRtt) with true in H by reflexivity.
      replace (0 =? 0) with true in H by reflexivity.
      destruct small; injection H as <- <- <- <- <-; cbn [fst snd];
        (split; [intros _ _; repeat split; auto|]); (split; [intros _ X; congruence|]); split; intros X; congruence.
    + cbn [fst snd] in H. rewrite EM in H. injection H as <- <- <- <- <-. cbn [fst snd].
      split; [intros _ X; congruence|]. split; [intros; auto|]. split; intros X; congruence.
Qed.

Lemma fevs_ok_split : forall P t s0 e st, finv P s0 -> fevs_ok (mds (fw s0)) (t ++ [e]) -> frun P s0 t = Ok st ->
  fevs_ok (mds (fw s0)) t /\ fev_ok (mds (fw st)) e /\ finv P st.
Proof.
  intros P t. induction t as [|e1 t IH]; intros s0 e st I0 He E.
  - cbn [frun] in E. injection E as <-. cbn [app fevs_ok] in He. split; [exact I|]. split; [tauto|exact I0].
  - cbn [app fevs_ok] in He. destruct He as (He1 & He). cbn [frun] in E.
    destruct (fstep_ok P s0 e1 I0 He1) as (s1 & E1 & I1 & M1 & _). rewrite E1 in E. cbn [bind] in E.
    rewrite <- M1 in He. destruct (IH s1 e st I1 He E) as (A & B & C).
    split; [|split; [exact B|exact C]]. cbn [fevs_ok]. split; [exact He1|]. rewrite <- M1. exact A.
Qed.
