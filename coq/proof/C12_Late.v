(* C12 - the long-run clauses behind "neither deadlocks nor settles far below capacity":
   (1) the min-RTT time stamp and PROBE_RTT at the level of whole OnCongestionEventEx calls (model/C12_Full.v f_cong):
       the stamp is only ever set to the time of the event at hand; PROBE_RTT is entered only when the stamp is more than
       minRttExpiry old, and entering as well as leaving PROBE_RTT refresh it - so with a clock that does not go back
       PROBE_RTT is not re-entered within minRttExpiry of leaving it;
   (2) the pacer called LATE (long after the wake-up time it announced, e.g. after an application idle gap): as long
       as bandwidth x elapsed does not wrap the budget only grows, and when the int64 product has wrapped to a negative
       value the budget is a full burst; the variant that clamps a negative budget to zero is refuted. *)
From Hy Require Import lib.Res lib.F64 lib.F64x model.C12_Queue model.C12_Sender model.C12_Full
  proof.C12_Sender proof.C12_Arith proof.C12_Full gen.ParamsC12.
From Coq Require Import ZArith Lia Bool List ZifyBool ZifyNat.
Import ListNotations.
Local Open Scope Z_scope.

(* ------------------------------------------------------------------ (1) the min-RTT stamp *)
Lemma maybe_update_min_rtt_stamp : forall minRtt ts now sample,
  let r := maybe_update_min_rtt minRtt ts now sample in
  (snd (fst r) = ts \/ snd (fst r) = now) /\
  (snd r = true -> minRtt <> 0 /\ i64w (ts + c12_minRttExpiryNs) < now /\ snd (fst r) = now).
Proof.
  intros minRtt ts now sample. unfold maybe_update_min_rtt. cbv zeta.
  destruct (negb (minRtt =? 0) && (i64w (ts + c12_minRttExpiryNs) <? now)) eqn:E; cbn [orb fst snd].
  - split; [right; reflexivity|]. intros _. apply andb_true_iff in E as [E1 E2]. split; [|split; [|reflexivity]]; lia.
  - destruct ((sample <? minRtt) || (minRtt =? 0)); cbn [fst snd]; (split; [auto|discriminate]).
Qed.

Lemma exit_startup_or_drain_probe_rtt : forall P g full low rnd now g',
  exit_startup_or_drain P g full low rnd now = Ok g' ->
  (gmode g = c12_modeProbeRtt <-> gmode g' = c12_modeProbeRtt).
Proof.
  intros P g full low rnd now g' H. destruct (exit_startup_or_drain_edges _ _ _ _ _ _ _ H) as (A & B & C).
  destruct (Z.eq_dec (gmode g) c12_modeStartup) as [E|NE].
  - destruct (A E) as [(_ & ->)|[(_ & _ & X & _)|(_ & _ & X)]]; [tauto| |]; rewrite E, X; modes; split; discriminate.
  - destruct (Z.eq_dec (gmode g) c12_modeDrain) as [E2|NE2].
    + destruct (B E2) as [(_ & ->)|(_ & X)]; [tauto|]. rewrite E2, X. modes. split; discriminate.
    + rewrite (C NE NE2). tauto.
Qed.

Lemma f_cong_min_rtt_stamp : forall P st now prior rttMin rnd acked lost st',
  f_cong P st now prior rttMin rnd acked lost = Ok st' ->
  (m_minRttTs (fm st') = m_minRttTs (fm st) \/ m_minRttTs (fm st') = now) /\
  (mode (fw st) <> c12_modeProbeRtt -> mode (fw st') = c12_modeProbeRtt ->
     m_minRtt (fm st) <> 0 /\ i64w (m_minRttTs (fm st) + c12_minRttExpiryNs) < now /\ m_minRttTs (fm st') = now) /\
  (mode (fw st) = c12_modeProbeRtt -> mode (fw st') <> c12_modeProbeRtt -> m_minRttTs (fm st') = now).
Proof.
  intros P st now prior rttMin rnd acked lost st' H.
  unfold f_cong in H. cbv zeta in H.
  set (w0 := set_inflight (fw st) (wrap64 (prior - sum_bytes acked - sum_bytes lost))) in H.
  fold (last_acked_of acked) in H.
  destruct (w1_frame w0 (last_acked_of acked) (negb (is_nil lost))) as (FM & _ & _). cbv zeta in FM.
  set (wr := match last_acked_of acked with
             | Some la => (update_recovery (fst (update_round w0 la)) la (negb (is_nil lost)) (snd (update_round w0 la)),
                           snd (update_round w0 la))
             | None => (w0, false)
             end) in *.
  set (w1 := fst wr) in *.
  assert (FM0 : mode w1 = mode (fw st)) by (rewrite FM; reflexivity).
  match type of H with context [bind ?m _] => destruct m as [x| |] eqn:E1; cbn [bind] in H; try discriminate end.
  cbn [fst snd] in H.
  set (mr := if negb (ce_rtt (snd x) =? infRTT) then maybe_update_min_rtt (m_minRtt (fm st)) (m_minRttTs (fm st)) now (ce_rtt (snd x))
             else (m_minRtt (fm st), m_minRttTs (fm st), false)) in H.
  assert (MR : (snd (fst mr) = m_minRttTs (fm st) \/ snd (fst mr) = now) /\
               (snd mr = true -> m_minRtt (fm st) <> 0 /\ i64w (m_minRttTs (fm st) + c12_minRttExpiryNs) < now /\ snd (fst mr) = now)).
  { unfold mr. destruct (negb (ce_rtt (snd x) =? infRTT)).
    - apply maybe_update_min_rtt_stamp.
    - cbn [fst snd]. split; [left; reflexivity|discriminate]. }
  destruct MR as (MR1 & MR2).
  match type of H with context [bind ?m _] => destruct m as [gc| |] eqn:E2; cbn [bind] in H; try discriminate end.
  cbn [fst snd] in H.
  match type of H with context [bind (exit_startup_or_drain P ?g ?f ?l rnd now) _] =>
    set (g0 := g) in H; destruct (exit_startup_or_drain P g0 f l rnd now) as [g2| |] eqn:E3; cbn [bind] in H; try discriminate end.
  assert (G02 : gmode g0 = c12_modeProbeRtt <-> gmode g2 = c12_modeProbeRtt) by exact (exit_startup_or_drain_probe_rtt _ _ _ _ _ _ _ E3).
  assert (G0 : gmode g0 = mode (fw st)) by (unfold g0, gmode; cbn [fst snd]; exact FM0).
  match type of H with context [bind (enter_exit_probe_rtt P g2 ?f ?e ?q ?i ?sm ?ea ?rp ?ts rnd now) _] =>
    destruct (enter_exit_probe_rtt P g2 f e q i sm ea rp ts rnd now) as [pr| |] eqn:E4; cbn [bind] in H; try discriminate end.
  destruct pr as ((((g3 & exitAt1) & rp1) & ts2) & appl).
  destruct (probe_rtt_edges _ _ _ _ _ _ _ _ _ _ _ _ _ _ _ _ _ E4) as (PE1 & PE2 & PE3 & PE4).
  destruct g3 as ((((mode4 & pg5) & cg4) & off3) & lcs3).
  match type of H with context [bind ?m _] => destruct m as [cp| |] eqn:E5; cbn [bind] in H; try discriminate end.
  match type of H with context [bind ?m _] => destruct m as [s5| |] eqn:E6; cbn [bind] in H; try discriminate end.
  injection H as <-. cbn [fw fm m_minRttTs m_minRtt].
  match goal with |- context [calc_recovery (calc_cwnd (set_mode w1 mode4 ?f) ?a ?b ?c ?d ?e ?g) ?h ?i] =>
    destruct (tail_frame w1 mode4 f a b c d e g i) as (TM & _) end.
  rewrite TM. unfold gmode in PE1, PE2, PE3, PE4. cbn [fst snd] in PE1, PE2, PE3, PE4.
  assert (G2 : fst (fst (fst (fst g2))) = c12_modeProbeRtt <-> mode (fw st) = c12_modeProbeRtt) by (unfold gmode in G02, G0; rewrite <- G0; tauto).
  destruct (Z.eq_dec (mode (fw st)) c12_modeProbeRtt) as [EP|NP]; destruct (Z.eq_dec mode4 c12_modeProbeRtt) as [E4'|N4].
  - (* stays in PROBE_RTT *)
    destruct (PE4 (proj2 G2 EP) E4') as (_ & _ & ->). split; [exact MR1|]. split; [intros X; contradiction|intros _ X; contradiction].
  - (* leaves *)
    destruct (PE3 (proj2 G2 EP) N4) as (_ & _ & _ & _ & -> & _). split; [right; reflexivity|]. split; [intros X; contradiction|reflexivity].
  - (* enters *)
    assert (NG : fst (fst (fst (fst g2))) <> c12_modeProbeRtt) by tauto.
    destruct (PE1 NG E4') as (Hexp & _).
    assert (ts2 = snd (fst mr)).
    { unfold enter_exit_probe_rtt in E4. destruct g2 as ((((md & pg) & cg) & off) & lcs). cbn [fst snd] in NG.
      replace (md =? c12_modeProbeRtt) with false in E4 by lia. rewrite Hexp in E4.
      destruct (PE1 NG E4') as (_ & Hq & _). rewrite Hq in E4. cbn [andb negb fst snd] in E4.
      replace (c12_modeProbeRtt =? c12_modeProbeRtt) with true in E4 by reflexivity. cbn [Z.eqb] in E4.
      match type of E4 with context [if ?c then _ else _] => destruct c end; injection E4; intros; subst; reflexivity. }
    subst ts2. destruct (MR2 Hexp) as (M1 & M2 & M3). rewrite M3.
    split; [right; reflexivity|]. split; [intros _ _; auto|intros X; contradiction].
  - (* stays out *)
    assert (NG : fst (fst (fst (fst g2))) <> c12_modeProbeRtt) by tauto.
    destruct (PE2 NG N4) as (_ & _ & _ & -> & _). split; [exact MR1|]. split; [intros _ X; contradiction|intros X; contradiction].
Qed.

(* ------------------------------------------------------------------ (2) the pacer called late *)
Lemma max_burst_ge : forall p bw, 0 < p_mds p <= c12_MaxPacketBufferSize -> 10 * p_mds p <= max_burst p bw.
Proof.
  intros p bw H. unfold max_burst, maxBurstPackets. consts.
  rewrite (wrap64_id (10 * p_mds p)) by (unfold two63; lia). lia.
Qed.

(* no wrap: the budget never shrinks while time passes *)
Lemma pacer_budget_mono : forall p bw t0 now,
  0 <= bw -> 0 < p_last p -> p_last p <= t0 <= now -> now < 4611686018427387904 -> 0 <= p_budget p < 4611686018427387904 ->
  bw * (now - p_last p) < two63 ->
  pacer_budget p bw t0 <= pacer_budget p bw now.
Proof.
  intros p bw t0 now Hbw Hl Ht Hn Hb Hp. unfold pacer_budget. replace (p_last p =? 0) with false by lia.
  assert (E0 : 0 <= t0 - p_last p <= now - p_last p) by lia.
  rewrite (wrap64_id (t0 - p_last p)), (wrap64_id (now - p_last p)) by (unfold two63; lia).
  assert (P0 : 0 <= bw * (t0 - p_last p) <= bw * (now - p_last p)) by nia.
  rewrite (wrap64_id (bw * (t0 - p_last p))), (wrap64_id (bw * (now - p_last p))) by (unfold two63 in *; lia).
  assert (Q : 0 <= Z.quot (bw * (t0 - p_last p)) 1000000000 <= Z.quot (bw * (now - p_last p)) 1000000000).
  { rewrite !Z.quot_div_nonneg by lia. split; [apply Z.div_pos; lia|apply Z.div_le_mono; lia]. }
  assert (Q2 : Z.quot (bw * (now - p_last p)) 1000000000 < 4611686018427387904).
  { rewrite Z.quot_div_nonneg by lia. apply Z.div_lt_upper_bound; unfold two63 in *; lia. }
  rewrite (wrap64_id (p_budget p + Z.quot (bw * (t0 - p_last p)) 1000000000)) by (unfold two63; lia).
  rewrite (wrap64_id (p_budget p + Z.quot (bw * (now - p_last p)) 1000000000)) by (unfold two63; lia).
  replace (p_budget p + Z.quot (bw * (t0 - p_last p)) 1000000000 <? 0) with false by lia.
  replace (p_budget p + Z.quot (bw * (now - p_last p)) 1000000000 <? 0) with false by lia.
  lia.
Qed.

(* the wake-up time the pacer announces is behind the last send, by at most 1.452 s *)
Lemma pacer_tus_bounds : forall p bw,
  c12_minBps <= bw < 1000000000000 -> 0 < p_mds p <= c12_MaxPacketBufferSize -> 0 <= p_budget p ->
  0 < p_last p < 4611686018427387904 ->
  (pacer_time_until_send p bw = 0 /\ p_mds p <= p_budget p) \/
  (p_budget p < p_mds p /\ p_last p < pacer_time_until_send p bw <= p_last p + 1452000000000).
Proof.
  intros p bw Hbw Hm Hb Hl. unfold pacer_time_until_send. consts.
  destruct (p_mds p <=? p_budget p) eqn:E; [left; split; [reflexivity|lia]|right]. split; [lia|].
  set (need := p_mds p - p_budget p).
  assert (Hneed : 0 < need <= 1452) by (unfold need; lia).
  rewrite (u64_id need) by (unfold two64; lia).
  rewrite (u64_id (1000000000 * need)) by (unfold two64; lia).
  rewrite (u64_id bw) by (unfold two64; lia).
  set (diff := 1000000000 * need).
  set (d := diff / bw + (if 0 <? diff mod bw then 1 else 0)).
  assert (Hd : 0 <= d <= diff).
  { unfold d. pose proof (Z.div_mod diff bw ltac:(lia)). pose proof (Z.mod_pos_bound diff bw ltac:(lia)).
    assert (0 <= diff / bw) by (apply Z.div_pos; unfold diff; lia).
    assert (diff / bw <= diff) by (apply Z.div_le_upper_bound; unfold diff; nia).
    destruct (0 <? diff mod bw) eqn:E2; split; nia. }
  rewrite (wrap64_id d) by (unfold two63, diff in *; lia).
  rewrite wrap64_id by (unfold two63, diff in *; lia). unfold diff in *. lia.
Qed.

(* ... so, as long as bandwidth x elapsed does not wrap, a call at ANY time at or after the announced wake-up time
   (immediately, when TimeUntilSend is zero) finds budget for a datagram *)
Lemma pacer_late_has_budget : forall p bw now,
  c12_minBps <= bw < 1000000000000 -> 0 < p_mds p <= c12_MaxPacketBufferSize -> 0 <= p_budget p < 4611686018427387904 ->
  0 < p_last p -> p_last p <= now < 4611686018427387904 -> pacer_time_until_send p bw <= now ->
  bw * (now - p_last p) < two63 ->
  p_mds p <= pacer_budget p bw now.
Proof.
  intros p bw now Hbw Hm Hb Hl Hn Ht Hp.
  destruct (pacer_tus_bounds p bw Hbw Hm ltac:(lia) ltac:(lia)) as [(T0 & B0)|(B0 & T1)].
  - (* budgetAtLastSent already covers a datagram *)
    pose proof (pacer_budget_mono p bw (p_last p) now ltac:(consts; lia) Hl ltac:(lia) ltac:(lia) Hb Hp) as M.
    pose proof (max_burst_ge p bw Hm) as MB.
    assert (p_mds p <= pacer_budget p bw (p_last p)); [|lia].
    unfold pacer_budget. replace (p_last p =? 0) with false by lia.
    replace (p_last p - p_last p) with 0 by lia. rewrite (wrap64_id 0) by (unfold two63; lia).
    rewrite Z.mul_0_r. rewrite (wrap64_id 0) by (unfold two63; lia). cbn [Z.quot]. rewrite Z.add_0_r.
    rewrite wrap64_id by (unfold two63; lia). replace (p_budget p <? 0) with false by lia. lia.
  - pose proof (pacer_budget_mono p bw (pacer_time_until_send p bw) now ltac:(consts; lia) Hl ltac:(lia) ltac:(lia) Hb Hp) as M.
    destruct (pacer_wakeup_has_budget p bw Hbw Hm ltac:(lia) ltac:(lia)) as [W|W]; lia.
Qed.

(* the int64 product has wrapped to a (sufficiently) negative value: `if budget < 0 { budget = 1<<62 - 1 }` makes the
   budget a full burst, at least ten datagrams *)
Lemma pacer_budget_wrapped_negative : forall p bw now,
  0 < p_mds p <= c12_MaxPacketBufferSize -> 0 < p_last p -> 0 <= p_budget p < 4611686018427387904 ->
  wrap64 (bw * wrap64 (now - p_last p)) <= - (1000000000 * (p_budget p + 1)) ->
  pacer_budget p bw now = max_burst p bw /\ 10 * p_mds p <= pacer_budget p bw now.
Proof.
  intros p bw now Hm Hl Hb Hw. pose proof (max_burst_ge p bw Hm) as MB.
  assert (E : pacer_budget p bw now = max_burst p bw); [|rewrite E; auto].
  unfold pacer_budget. replace (p_last p =? 0) with false by lia.
  set (w := wrap64 (bw * wrap64 (now - p_last p))) in *.
  assert (Hr : - two63 <= w) by (unfold w; rewrite wrap64_mod; pose proof (Z.mod_pos_bound (bw * wrap64 (now - p_last p) + two63) two64 ltac:(unfold two64; lia)); lia).
  assert (Q : - 9223372037 <= Z.quot w 1000000000 <= - (p_budget p + 1)).
  { rewrite <- (Z.opp_involutive w), Z.quot_opp_l by lia. rewrite Z.quot_div_nonneg by lia. split.
    - assert (- w / 1000000000 <= 9223372037); [|lia]. apply Z.div_le_upper_bound; unfold two63 in *; lia.
    - assert (p_budget p + 1 <= - w / 1000000000); [|lia]. apply Z.div_le_lower_bound; lia. }
  rewrite wrap64_id by (unfold two63; lia).
  replace (p_budget p + Z.quot w 1000000000 <? 0) with true by lia.
  unfold max_burst in *. consts.
  assert (Z.quot (wrap64 (maxBurstPacingDelayMultiplier * 1000000 * bw)) 1000000000 <= 9223372037).
  { pose proof (wrap64_mod (maxBurstPacingDelayMultiplier * 1000000 * bw)) as X.
    pose proof (Z.mod_pos_bound (maxBurstPacingDelayMultiplier * 1000000 * bw + two63) two64 ltac:(unfold two64; lia)).
    destruct (Z_lt_dec (wrap64 (maxBurstPacingDelayMultiplier * 1000000 * bw)) 0).
    - set (y := wrap64 (maxBurstPacingDelayMultiplier * 1000000 * bw)) in *.
      rewrite <- (Z.opp_involutive y), Z.quot_opp_l by lia. rewrite Z.quot_div_nonneg by lia.
      pose proof (Z.div_pos (- y) 1000000000 ltac:(lia) ltac:(lia)). lia.
    - rewrite Z.quot_div_nonneg by lia. apply Z.div_le_upper_bound; unfold two63, two64 in *; lia. }
  rewrite (wrap64_id (maxBurstPackets * p_mds p)) in * by (unfold maxBurstPackets, two63; lia). unfold maxBurstPackets in *. lia.
Qed.

(* the variant `return min(maxBurstSize(), max(budget, 0))` *)
Definition pacer_budget_clamp0 (p : pacer) (bw now : Z) : Z :=
  if p_last p =? 0 then max_burst p bw else
  let b := wrap64 (p_budget p + Z.quot (wrap64 (bw * wrap64 (now - p_last p))) 1000000000) in
  Z.min (max_burst p bw) (Z.max b 0).

(* 1.25 GB/s, last packet sent at t = 1 s with nothing left of the budget, next call 11 s later: TimeUntilSend names an
   instant 10.99 s in the past, the real Budget is a full burst (5 MB), the clamped one is ZERO - HasPacingBudget stays false
   although nothing was sent for 11 s *)
Lemma clamp0_deadlocks :
  let p := mkP 0 1200 1000000000 in let bw := 1250000000 in let now := 12000000000 in
  pacer_time_until_send p bw = 1001000000 /\ pacer_time_until_send p bw < now /\
  wrap64 (bw * wrap64 (now - p_last p)) < 0 /\
  pacer_budget p bw now = 5000000 /\ pacer_budget_clamp0 p bw now = 0.
Proof. cbv zeta. vm_compute. repeat split; reflexivity. Qed.
