(* C12 proofs, layer 1c: operation sequences on the indexed queue, bookkeeping span, windowed max filter. *)
From Hy Require Import lib.Res model.C12_Queue proof.C12_Ring proof.C12_PQ.
From Coq Require Import ZArith Lia Bool List ZifyBool ZifyNat.
Import ListNotations.
Local Open Scope Z_scope.

Section Seq.
Variable T : Type.
Variable zeroT : T.

Inductive qop :=
| OEmplace (pn : Z) (e : T)      (* Emplace(pn, &e) *)
| OEmplaceNil (pn : Z)           (* Emplace(pn, nil) *)
| OGet (pn : Z)
| ORemove (pn : Z)
| OUpTo (pn : Z).

(* what one operation returns: Emplace -> bool, GetEntry / Remove -> the entry if present *)
Inductive qout := RBool (b : bool) | REntry (e : option T) | RUnit.

Definition impl_step (q : pq T) (o : qop) : Res (pq T * qout) :=
  match o with
  | OEmplace pn e => x <- pq_emplace zeroT q pn (Some e) ;; Ok (fst x, RBool (snd x))
  | OEmplaceNil pn => x <- pq_emplace zeroT q pn None ;; Ok (fst x, RBool (snd x))
  | OGet pn => x <- pq_get zeroT q pn ;; Ok (q, REntry x)
  | ORemove pn => x <- pq_remove zeroT q pn ;; Ok (fst x, REntry (snd x))
  | OUpTo pn => x <- pq_remove_upto zeroT q pn ;; Ok (x, RUnit)
  end.

Fixpoint impl_run (q : pq T) (ops : list qop) : Res (pq T * list qout) :=
  match ops with
  | [] => Ok (q, [])
  | o :: t => x <- impl_step q o ;; y <- impl_run (fst x) t ;; Ok (fst y, snd x :: snd y)
  end.

Definition spec_step (st : sstate T) (o : qop) : sstate T * qout :=
  match o with
  | OEmplace pn e => let x := spec_emplace T st pn e in (fst x, RBool (snd x))
  | OEmplaceNil pn => (st, RBool false)
  | OGet pn => (st, REntry (spec_get T st pn))
  | ORemove pn => (spec_remove T st pn, REntry (spec_get T st pn))
  | OUpTo pn => (spec_upto T st pn, RUnit)
  end.

Fixpoint spec_run (st : sstate T) (ops : list qop) : sstate T * list qout :=
  match ops with
  | [] => (st, [])
  | o :: t => let x := spec_step st o in let y := spec_run (fst x) t in (fst y, snd x :: snd y)
  end.

(* the only precondition: packet numbers handed to Emplace are non-negative (QUIC's are) *)
Definition op_ok (o : qop) : Prop := match o with OEmplace pn _ => 0 <= pn | _ => True end.

Lemma impl_step_refines : forall q o, pq_wf T zeroT q -> op_ok o ->
  exists q', impl_step q o = Ok (q', snd (spec_step (pq_abs T zeroT q) o)) /\ pq_wf T zeroT q' /\
             pq_abs T zeroT q' = fst (spec_step (pq_abs T zeroT q) o).
Proof.
  intros q o W Hok. destruct o as [pn e|pn|pn|pn|pn]; cbn [impl_step spec_step op_ok] in *.
  - destruct (emplace_refines T zeroT q pn e W Hok) as (q' & E & W' & A). rewrite E. cbn [bind fst snd]. eauto.
  - exists q. auto.
  - rewrite (get_refines T zeroT q pn W). cbn [bind fst snd]. eauto.
  - destruct (remove_refines T zeroT q pn W) as (q' & E & W' & A). rewrite E. cbn [bind fst snd]. eauto.
  - destruct (remove_upto_refines T zeroT q pn W) as (q' & E & W' & A). rewrite E. cbn [bind fst snd]. eauto.
Qed.

Lemma impl_run_refines : forall ops q, pq_wf T zeroT q -> Forall op_ok ops ->
  exists q', impl_run q ops = Ok (q', snd (spec_run (pq_abs T zeroT q) ops)) /\ pq_wf T zeroT q' /\
             pq_abs T zeroT q' = fst (spec_run (pq_abs T zeroT q) ops).
Proof.
  induction ops as [|o t IH]; intros q W HF; cbn [impl_run spec_run].
  - exists q. auto.
  - inversion HF as [|? ? Ho Ht]; subst.
    destruct (impl_step_refines q o W Ho) as (q1 & E1 & W1 & A1). rewrite E1. cbn [bind fst snd].
    destruct (IH q1 W1 Ht) as (q2 & E2 & W2 & A2). rewrite E2. cbn [bind fst snd]. rewrite A1 in *.
    exists q2. auto.
Qed.

(* ---------------- bookkeeping: slots = span first..last *)
Lemma slots_span : forall q, pq_wf T zeroT q ->
  (pq_is_empty q = true /\ pq_slots q = 0 /\ q_first q = invalidPacketNumber) \/
  (pq_is_empty q = false /\ 0 <= q_first q /\ pq_slots q = pq_last q - q_first q + 1 /\ 0 < pq_slots q).
Proof.
  intros q W. pose proof (wf_empty_iff T zeroT q W) as HE. pose proof (slots_len T zeroT q) as HS.
  destruct W as ((W & Hn & Hf) & Hh & He). unfold pq_last.
  destruct (pq_is_empty q) eqn:EM.
  - left. assert (A : snd (pq_abs T zeroT q) = []) by (apply HE; reflexivity). rewrite A in *. simpl in HS. auto.
  - right. assert (A : snd (pq_abs T zeroT q) <> []). { intro A. apply HE in A. congruence. }
    destruct (snd (pq_abs T zeroT q)); [congruence|]. simpl length in HS. split; auto. split; [apply Hf; discriminate|]. lia.
Qed.

Lemma last_is_spec_last : forall q, pq_wf T zeroT q -> pq_last q = spec_last T (pq_abs T zeroT q).
Proof.
  intros q W. pose proof (wf_empty_iff T zeroT q W) as HE. pose proof (slots_len T zeroT q) as HS.
  unfold pq_last, spec_last, spec_slots. destruct (pq_is_empty q) eqn:EM.
  - assert (A : snd (pq_abs T zeroT q) = []) by (apply HE; reflexivity). now rewrite A.
  - assert (A : snd (pq_abs T zeroT q) <> []). { intro A. apply HE in A. congruence. }
    destruct (snd (pq_abs T zeroT q)) eqn:E; [congruence|]. rewrite HS. cbn [fst pq_abs]. unfold pq_abs. cbn [fst]. lia.
Qed.

(* a successful Emplace makes pn the last packet; the slots in use are first..pn *)
Lemma emplace_last : forall q pn e q', pq_wf T zeroT q -> 0 <= pn ->
  pq_emplace zeroT q pn (Some e) = Ok (q', true) ->
  pq_wf T zeroT q' /\ pq_last q' = pn /\ pq_slots q' = pn - q_first q' + 1 /\
  (pq_is_empty q = true \/ (pq_last q < pn /\ q_first q' = q_first q)).
Proof.
  intros q pn e q' W Hpn E.
  destruct (emplace_refines T zeroT q pn e W Hpn) as (q1 & E1 & W1 & A1).
  rewrite E in E1. injection E1 as Eq Eb. subst q1.
  pose proof (last_is_spec_last q' W1) as HL. pose proof (last_is_spec_last q W) as HL0.
  pose proof (wf_empty_iff T zeroT q W) as HE.
  destruct (slots_span q' W1) as [(EM & _)|(EM & F0 & SP & _)].
  { (* q' cannot be empty *) exfalso. apply (wf_empty_iff T zeroT q' W1) in EM. rewrite A1 in EM.
    unfold spec_emplace in *. destruct (snd (pq_abs T zeroT q)); [discriminate|].
    destruct (pn <=? _); [discriminate|]. simpl in EM. destruct l; discriminate. }
  assert (HLast : pq_last q' = pn /\ (pq_is_empty q = true \/ (pq_last q < pn /\ q_first q' = q_first q))).
  { rewrite HL, HL0. unfold spec_last, spec_slots.
    assert (F' : q_first q' = fst (pq_abs T zeroT q')) by reflexivity. rewrite F', A1.
    unfold spec_emplace in *. destruct (snd (pq_abs T zeroT q)) as [|s sl] eqn:ES.
    - simpl. split; [lia|]. left. apply HE. reflexivity.
    - destruct (pn <=? fst (pq_abs T zeroT q) + Z.of_nat (length (s :: sl)) - 1) eqn:LE; [discriminate|].
      cbn [fst snd]. rewrite !app_length, repeat_length. cbn [length].
      destruct ((s :: sl) ++ repeat None _ ++ [Some e]) eqn:EE; [destruct sl; discriminate|].
      cbn [length] in LE. split; [lia|]. right. split; [lia|reflexivity]. }
  destruct HLast as (HL1 & HL2). split; [exact W1|]. split; [exact HL1|]. split; [lia|exact HL2].
Qed.

(* RemoveUpTo n: nothing below n remains; if anything remains, the last packet is unchanged,
   first >= max(old first, n), and the slots in use are first..last *)
Lemma upto_span : forall q n q', pq_wf T zeroT q -> pq_remove_upto zeroT q n = Ok q' ->
  pq_wf T zeroT q' /\
  (forall pn, 0 <= pn -> pn < n -> pq_get zeroT q' pn = Ok None) /\
  (forall pn, 0 <= pn -> n <= pn -> pq_get zeroT q' pn = pq_get zeroT q pn) /\
  (pq_is_empty q' = false ->
     pq_last q' = pq_last q /\ n <= q_first q' /\ q_first q <= q_first q' /\
     pq_slots q' = pq_last q - q_first q' + 1 /\ pq_slots q' <= pq_last q - Z.max (q_first q) n + 1).
Proof.
  intros q n q' W E.
  destruct (remove_upto_refines T zeroT q n W) as (q1 & E1 & W1 & A1). rewrite E in E1. injection E1 as <-.
  pose proof W as ((_ & _ & Hf) & Hh & _).
  split; [exact W1|]. split; [|split].
  - intros pn H0 H1. rewrite (get_refines T zeroT q' pn W1), A1. f_equal.
    rewrite spec_upto_get; auto. replace (pn <? n) with true by lia. reflexivity.
  - intros pn H0 H1. rewrite (get_refines T zeroT q' pn W1), (get_refines T zeroT q pn W), A1. f_equal.
    rewrite spec_upto_get; auto. replace (pn <? n) with false by lia. reflexivity.
  - intros EM.
    assert (NE : snd (pq_abs T zeroT q') <> []).
    { intro A. apply (wf_empty_iff T zeroT q' W1) in A. congruence. }
    rewrite A1 in NE.
    destruct (spec_upto_first T (pq_abs T zeroT q) n Hf NE) as (F1 & F2).
    pose proof (spec_upto_last T (pq_abs T zeroT q) n NE) as L1.
    rewrite <- A1 in F1, F2, L1. rewrite <- !last_is_spec_last in L1 by assumption.
    destruct (slots_span q' W1) as [(EM' & _)|(_ & _ & SP & _)]; [congruence|].
    change (fst (pq_abs T zeroT q')) with (q_first q') in *. change (fst (pq_abs T zeroT q)) with (q_first q) in *.
    repeat split; try lia.
Qed.

End Seq.

(* ------------------------------------------------------------------ windowed max filter *)
(* MaxFilter instance (bandwidth samples, round-trip times): after Update the best estimate is at
   least the new sample, the three estimates stay ordered (best >= second >= third) and their
   times stay ordered; this is the invariant Kathleen Nichols' algorithm maintains. *)
Definition wmax_ord (f : wfilt Z) : Prop :=
  fst (w2 f) <= fst (w1 f) <= fst (w0 f) /\ 0 <= snd (w0 f) <= snd (w1 f) /\ snd (w1 f) <= snd (w2 f) < two64.

Lemma sub64_small : forall a b, 0 <= b <= a -> a < two64 -> sub64 a b = a - b.
Proof. intros. unfold sub64. apply Z.mod_small. unfold two64 in *. lia. Qed.

Lemma wmax_update_ord : forall f s t, wmax_ord f -> snd (w2 f) <= t < two64 ->
  wmax_ord (wf_update 0 cmp_max f s t) /\ s <= wf_best (wf_update 0 cmp_max f s t) /\
  w_len (wf_update 0 cmp_max f s t) = w_len f.
Proof.
  intros f s t ((O1 & O2) & (T0 & T1) & (T2 & T3)) Ht.
  destruct f as [wl [s0 t0] [s1 t1] [s2 t2]]. cbn [w_len w0 w1 w2 fst snd] in *.
  unfold wf_update, wf_reset, wf_best, wmax_ord, cmp_max. cbn [w_len w0 w1 w2 fst snd].
  rewrite !sub64_small by lia.
  repeat match goal with
  | |- context [if ?c then _ else _] =>
      lazymatch c with
      | context [if _ then _ else _] => fail
      | _ => destruct c eqn:?
      end; cbn [w_len w0 w1 w2 fst snd orb andb]; rewrite ?sub64_small by lia
  end; lia.
Qed.
