(* C12 proofs, layer 1b: packetNumberIndexedQueue refines "first packet number + list of optional
   entries", i.e. a finite map from packet numbers to entries; it never panics; its bookkeeping
   (EntrySlotsUsed) is the packet-number span that is still live. *)
From Hy Require Import lib.Res model.C12_Queue proof.C12_Ring.
From Coq Require Import ZArith Lia Bool List ZifyBool ZifyNat.
Import ListNotations.
Local Open Scope Z_scope.

Section PQProofs.
Variable T : Type.
Variable zeroT : T.

Notation ew := (C12_Queue.ew T).
Notation ew0 := (C12_Queue.ew0 T zeroT).

Definition slot_of (e : ew) : option T := if fst e then Some (snd e) else None.

(* ---------------- the specification: (first, slots) *)
Definition sstate : Type := (Z * list (option T))%type.

Definition pq_abs (q : pq T) : sstate := (q_first q, map slot_of (rb_list ew0 (q_entries q))).

Fixpoint cnt (l : list (option T)) : Z :=
  match l with [] => 0 | Some _ :: t => 1 + cnt t | None :: t => cnt t end.

Definition hd_some (l : list (option T)) : Prop :=
  match l with None :: _ => False | _ => True end.

Fixpoint strip_loop (sl : list (option T)) (f : Z) : list (option T) * Z :=
  match sl with None :: t => strip_loop t (f + 1) | _ => (sl, f) end.

Definition strip (st : sstate) : sstate :=
  let x := strip_loop (snd st) (fst st) in
  match fst x with [] => (invalidPacketNumber, []) | _ => (snd x, fst x) end.

Definition spec_get (st : sstate) (pn : Z) : option T :=
  if pn <? fst st then None else nth (Z.to_nat (pn - fst st)) (snd st) None.

Definition spec_emplace (st : sstate) (pn : Z) (e : T) : sstate * bool :=
  match snd st with
  | [] => ((pn, [Some e]), true)
  | _ => if pn <=? fst st + Z.of_nat (length (snd st)) - 1 then (st, false)
         else ((fst st, snd st ++ repeat None (Z.to_nat (pn - fst st - Z.of_nat (length (snd st)))) ++ [Some e]), true)
  end.

Definition spec_remove (st : sstate) (pn : Z) : sstate :=
  match spec_get st pn with
  | None => st
  | Some _ =>
      let st1 := (fst st, upd (Z.to_nat (pn - fst st)) None (snd st)) in
      if pn =? fst st then strip st1 else st1
  end.

Fixpoint upto_sl (sl : list (option T)) (f pn : Z) : list (option T) * Z :=
  match sl with
  | s :: t => if f <? pn then upto_sl t (f + 1) pn else (sl, f)
  | [] => ([], f)
  end.

Definition spec_upto (st : sstate) (pn : Z) : sstate :=
  let x := upto_sl (snd st) (fst st) pn in strip (snd x, fst x).

(* EntrySlotsUsed and LastPacket at the level of the specification *)
Definition spec_slots (st : sstate) : Z := Z.of_nat (length (snd st)).
Definition spec_last (st : sstate) : Z :=
  match snd st with [] => invalidPacketNumber | _ => fst st + spec_slots st - 1 end.

(* ---------------- representation invariant *)
Definition pre_wf (q : pq T) : Prop :=
  rb_wf (q_entries q) /\ q_np q = cnt (snd (pq_abs q)) /\ (snd (pq_abs q) <> [] -> 0 <= q_first q).

Definition pq_wf (q : pq T) : Prop :=
  pre_wf q /\ hd_some (snd (pq_abs q)) /\ (snd (pq_abs q) = [] -> q_first q = invalidPacketNumber).

Ltac ssplit :=
  repeat match goal with
  | |- rb_wf _ => fail 1
  | |- _ /\ _ => split
  | |- pq_wf _ => unfold pq_wf
  | |- pre_wf _ => unfold pre_wf
  | |- _ -> _ => intro
  end.

Lemma nth_nil' : forall A n (d : A), nth n [] d = d.
Proof. destruct n; reflexivity. Qed.

Ltac dnat := rewrite ?nth_nil'; repeat match goal with |- context [match ?n with O => _ | S _ => _ end] => destruct n end; auto.

Lemma cnt_nonneg : forall l, 0 <= cnt l.
Proof. induction l as [|[x|] l IH]; cbn [cnt]; lia. Qed.

Lemma cnt_app : forall a b, cnt (a ++ b) = cnt a + cnt b.
Proof. induction a as [|[x|] a IH]; cbn [cnt app]; intros; rewrite ?IH; lia. Qed.

Lemma cnt_repeat_none : forall n, cnt (repeat None n) = 0.
Proof. induction n; cbn [cnt repeat]; auto. Qed.

Lemma cnt_upd_none : forall l k x, nth k l None = Some x -> cnt (upd k None l) = cnt l - 1.
Proof.
  induction l as [|[y|] l IH]; intros [|k] x H; cbn [cnt upd nth] in *; try discriminate; try lia;
    rewrite (IH k x H); lia.
Qed.

Lemma wf_empty_iff : forall q, pq_wf q -> (pq_is_empty q = true <-> snd (pq_abs q) = []).
Proof.
  intros q ((W & Hn & Hf) & Hh & He). unfold pq_is_empty. rewrite Hn.
  destruct (snd (pq_abs q)) as [|[x|] l]; cbn [cnt hd_some] in *.
  - split; auto.
  - pose proof (cnt_nonneg l). split; [lia|discriminate].
  - contradiction.
Qed.

Lemma slots_len : forall q, pq_slots q = Z.of_nat (length (snd (pq_abs q))).
Proof. intros. unfold pq_slots, pq_abs. simpl. now rewrite map_length, <- rb_len_length. Qed.

Lemma pq_new_wf : forall n, pq_wf (pq_new zeroT n) /\ pq_abs (pq_new zeroT n) = (invalidPacketNumber, []).
Proof.
  intros. unfold pq_wf, pre_wf, pq_abs, pq_new. cbn [q_entries q_np q_first fst snd]. rewrite rb_init_list.
  cbn [map cnt hd_some].
  split; [|reflexivity]. split; [split; [apply rb_init_wf|split; [reflexivity|congruence]]|split; [exact I|reflexivity]].
Qed.

(* ---------------- push_n *)
Lemma push_n_refines : forall n (r : ring ew) x, rb_wf r ->
  exists r', push_n zeroT r n x = Ok r' /\ rb_wf r' /\ rb_list ew0 r' = rb_list ew0 r ++ repeat x n.
Proof.
  induction n; intros r x W; simpl.
  - exists r. rewrite app_nil_r. auto.
  - destruct (rb_push_refines _ ew0 r x W) as (r1 & E & W1 & L1 & _). rewrite E. simpl.
    destruct (IHn r1 x W1) as (r' & E' & W' & L'). exists r'. split; [exact E'|]. split; [exact W'|].
    rewrite L', L1, <- app_assoc. reflexivity.
Qed.

(* ---------------- Emplace *)
Lemma emplace_refines : forall q pn e, pq_wf q -> 0 <= pn ->
  exists q', pq_emplace zeroT q pn (Some e) = Ok (q', snd (spec_emplace (pq_abs q) pn e)) /\
             pq_wf q' /\ pq_abs q' = fst (spec_emplace (pq_abs q) pn e).
Proof.
  intros q pn e Wq Hpn. pose proof (wf_empty_iff q Wq) as HE. pose proof (slots_len q) as HS.
  destruct Wq as ((W & Hn & Hf) & Hh & He).
  unfold pq_abs in *. cbn [fst snd] in *.
  remember (map slot_of (rb_list ew0 (q_entries q))) as sl eqn:Hsl.
  unfold pq_emplace. replace (pn =? invalidPacketNumber) with false by (unfold invalidPacketNumber, c12_invalidPacketNumber; lia).
  unfold spec_emplace. cbn [fst snd].
  destruct (pq_is_empty q) eqn:EM.
  - assert (HL : sl = []) by (apply HE; reflexivity). subst sl. rewrite HL.
    destruct (rb_push_refines _ ew0 (q_entries q) (true, e) W) as (r & E & Wr & Lr & _).
    rewrite E. cbn [bind fst snd]. eexists. split; [reflexivity|].
    apply map_eq_nil in HL.
    unfold pq_wf, pre_wf, pq_abs. cbn [q_entries q_np q_first fst snd]. rewrite Lr, HL.
    cbn [app map slot_of fst snd cnt hd_some]. ssplit; auto; try lia; try discriminate.
  - assert (HL : sl <> []).
    { intro A. apply HE in A. congruence. }
    destruct sl as [|s0 sl0]; [congruence|].
    unfold pq_last. rewrite EM, HS.
    replace (q_first q + (Z.of_nat (length (s0 :: sl0)) - 1)) with
            (q_first q + Z.of_nat (length (s0 :: sl0)) - 1) by lia.
    destruct (pn <=? q_first q + Z.of_nat (length (s0 :: sl0)) - 1) eqn:LE.
    + exists q. cbn [fst snd]. rewrite <- Hsl. split; [reflexivity|]. split; [|reflexivity].
      unfold pq_wf, pre_wf, pq_abs. cbn [fst snd]. rewrite <- Hsl. ssplit; auto.
    + destruct (push_n_refines (Z.to_nat (pn - q_first q - Z.of_nat (length (s0 :: sl0)))) (q_entries q) ew0 W) as (r1 & E1 & W1 & L1).
      rewrite E1. cbn [bind].
      destruct (rb_push_refines _ ew0 r1 (true, e) W1) as (r2 & E2 & W2 & L2 & _).
      rewrite E2. cbn [bind fst snd]. eexists. split; [reflexivity|].
      assert (HA : map slot_of (rb_list ew0 r2) =
                   (s0 :: sl0) ++ repeat None (Z.to_nat (pn - q_first q - Z.of_nat (length (s0 :: sl0)))) ++ [Some e]).
      { rewrite L2, L1, !map_app, <- Hsl. cbn [map slot_of fst snd]. rewrite <- app_assoc. f_equal. f_equal.
        clear. induction (Z.to_nat (pn - q_first q - Z.of_nat (length (s0 :: sl0)))); cbn [repeat map]; [reflexivity|].
        rewrite IHn. reflexivity. }
      unfold pq_wf, pre_wf, pq_abs. cbn [q_entries q_np q_first fst snd]. rewrite HA.
      ssplit; auto.
      * rewrite !cnt_app, cnt_repeat_none. change (cnt [Some e]) with (1 + 0). lia.
      * discriminate.
Qed.

Lemma emplace_nil_entry : forall q pn, pq_emplace zeroT q pn None = Ok (q, false).
Proof. reflexivity. Qed.

(* ---------------- getEntryWraper / GetEntry *)
Lemma wrapper_refines : forall q pn, pq_wf q ->
  (spec_get (pq_abs q) pn = None /\ pq_wrapper zeroT q pn = Ok None) \/
  (exists i, pq_wrapper zeroT q pn = Ok (Some i) /\
     0 <= pn - q_first q < pq_slots q /\
     spec_get (pq_abs q) pn = Some (snd (rb_get ew0 (q_entries q) i)) /\
     forall y, rb_wf (rb_set (q_entries q) i y) /\
               rb_list ew0 (rb_set (q_entries q) i y) = upd (Z.to_nat (pn - q_first q)) y (rb_list ew0 (q_entries q))).
Proof.
  intros q pn Wq. pose proof (wf_empty_iff q Wq) as HE. pose proof (slots_len q) as HS.
  destruct Wq as ((W & Hn & Hf) & Hh & He).
  unfold pq_wrapper, spec_get. simpl fst. simpl snd.
  destruct (pn =? invalidPacketNumber) eqn:E1.
  { left. simpl. split; auto. destruct (snd (pq_abs q)) eqn:ESL.
    - simpl in ESL. rewrite ESL. destruct (pn <? q_first q); auto. dnat.
    - assert (0 <= q_first q) by (apply Hf; congruence).
      replace (pn <? q_first q) with true; auto. unfold invalidPacketNumber, c12_invalidPacketNumber in E1. lia. }
  destruct (pq_is_empty q) eqn:E2.
  { left. simpl. split; auto. assert (A : snd (pq_abs q) = []) by (apply HE; reflexivity).
    simpl in A. rewrite A. destruct (pn <? q_first q); auto. dnat. }
  destruct (pn <? q_first q) eqn:E3.
  { left. simpl. auto. }
  simpl. destruct (pq_slots q <=? pn - q_first q) eqn:E4.
  { left. split; auto. apply nth_overflow. rewrite HS in E4. simpl in E4. lia. }
  destruct (rb_offset_refines _ ew0 (q_entries q) (pn - q_first q) W) as (i & EO & _ & G & S).
  { unfold pq_slots in E4. lia. }
  rewrite EO. simpl.
  assert (HN : nth (Z.to_nat (pn - q_first q)) (map slot_of (rb_list ew0 (q_entries q))) None =
               slot_of (rb_get ew0 (q_entries q) i)).
  { rewrite G. change None with (slot_of ew0). apply map_nth. }
  rewrite HN. unfold slot_of. destruct (fst (rb_get ew0 (q_entries q) i)) eqn:EP.
  - right. exists i. split; auto. split; [lia|]. split; auto. intros y. destruct (S y) as (A & B & _). auto.
  - left. auto.
Qed.

Lemma get_refines : forall q pn, pq_wf q -> pq_get zeroT q pn = Ok (spec_get (pq_abs q) pn).
Proof.
  intros q pn Wq. unfold pq_get.
  destruct (wrapper_refines q pn Wq) as [(A & B)|(i & B & _ & A & _)]; rewrite B, A; reflexivity.
Qed.

(* ---------------- clearup *)
Lemma strip_loop_hd : forall sl f, hd_some (fst (strip_loop sl f)).
Proof. induction sl as [|[x|] sl IH]; simpl; intros; auto. Qed.

Lemma strip_loop_cnt : forall sl f, cnt (fst (strip_loop sl f)) = cnt sl.
Proof. induction sl as [|[x|] sl IH]; simpl; intros; auto. Qed.

Lemma strip_loop_first : forall sl f, f <= snd (strip_loop sl f).
Proof. induction sl as [|[x|] sl IH]; simpl; intros; try lia. specialize (IH (f + 1)). lia. Qed.

Lemma clearup_loop_refines : forall l (r : ring ew) f fuel, rb_wf r -> rb_list ew0 r = l ->
  (length l < fuel)%nat ->
  exists r', clearup_loop zeroT fuel r f = Ok (r', snd (strip_loop (map slot_of l) f)) /\ rb_wf r' /\
             map slot_of (rb_list ew0 r') = fst (strip_loop (map slot_of l) f).
Proof.
  induction l as [|x l IH]; intros r f fuel W HL Hfuel; (destruct fuel as [|fuel]; [simpl in Hfuel; lia|]); simpl clearup_loop.
  - assert (E : rb_empty r = true) by (apply (rb_empty_iff _ ew0 r W); exact HL).
    rewrite E. exists r. simpl. rewrite HL. auto.
  - assert (E : rb_empty r = false).
    { destruct (rb_empty r) eqn:E; auto. apply (rb_empty_iff _ ew0 r W) in E. congruence. }
    rewrite E. destruct (rb_front_refines _ ew0 r x l W HL) as (i & EF & G). rewrite EF. simpl bind.
    rewrite G. cbn [map].
    assert (SX : slot_of x = if fst x then Some (snd x) else None) by reflexivity.
    destruct (fst x) eqn:EP; rewrite SX; cbn [strip_loop fst snd].
    + exists r. rewrite HL. cbn [map]. rewrite SX. auto.
    + destruct (rb_pop_refines _ ew0 r x l W HL) as (r1 & EPop & W1 & L1 & _). rewrite EPop. cbn [bind snd].
      apply IH; auto. simpl in Hfuel. lia.
Qed.

Lemma clearup_refines : forall q, pre_wf q ->
  exists q', pq_clearup zeroT q = Ok q' /\ pq_wf q' /\ pq_abs q' = strip (pq_abs q) /\ q_np q' = q_np q.
Proof.
  intros q (W & Hn & Hf). unfold pq_clearup.
  destruct (clearup_loop_refines (rb_list ew0 (q_entries q)) (q_entries q) (q_first q)
              (S (rb_len (q_entries q))) W eq_refl) as (r' & E & W' & L').
  { rewrite <- rb_len_length. lia. }
  rewrite E. simpl bind. simpl fst. simpl snd. eexists. split; [reflexivity|].
  pose proof (rb_empty_iff _ ew0 r' W') as HEm.
  unfold strip, pq_abs in *. simpl fst in *. simpl snd in *.
  set (sl := map slot_of (rb_list ew0 (q_entries q))) in *.
  pose proof (strip_loop_hd sl (q_first q)) as Hhd.
  pose proof (strip_loop_cnt sl (q_first q)) as Hcnt.
  pose proof (strip_loop_first sl (q_first q)) as Hfirst.
  destruct (fst (strip_loop sl (q_first q))) as [|s t] eqn:ES.
  - apply map_eq_nil in L'. assert (EE : rb_empty r' = true) by (apply HEm; exact L').
    rewrite EE. unfold pq_wf, pre_wf, pq_abs. simpl. rewrite L'. simpl.
    ssplit; auto; try congruence. simpl in Hcnt. lia.
  - assert (EE : rb_empty r' = false).
    { destruct (rb_empty r') eqn:EE; auto. apply (rb_empty_iff _ ew0 r' W') in EE. rewrite EE in L'. discriminate. }
    rewrite EE. unfold pq_wf, pre_wf, pq_abs. simpl. rewrite L'.
    ssplit; auto; try congruence.
    assert (NE : sl <> []). { intro A. rewrite A in ES. discriminate. } specialize (Hf NE). lia.
Qed.

(* ---------------- Remove *)
Lemma hd_upd : forall (l : list (option T)) k y, k <> 0%nat -> hd_some l -> hd_some (upd k y l).
Proof. intros [|a l] [|k] y; simpl; auto; congruence. Qed.

Lemma map_upd : forall (l : list ew) k y, map slot_of (upd k y l) = upd k (slot_of y) (map slot_of l).
Proof. induction l; destruct k; simpl; intros; auto. now rewrite IHl. Qed.

Lemma upd_nil_iff : forall A (l : list A) k y, upd k y l = [] <-> l = [].
Proof. intros A [|a l] [|k] y; simpl; split; congruence. Qed.

Lemma remove_refines : forall q pn, pq_wf q ->
  exists q', pq_remove zeroT q pn = Ok (q', spec_get (pq_abs q) pn) /\ pq_wf q' /\
             pq_abs q' = spec_remove (pq_abs q) pn.
Proof.
  intros q pn Wq. unfold pq_remove, spec_remove.
  destruct (wrapper_refines q pn Wq) as [(A & B)|(i & B & Rng & A & S)]; rewrite B, A; simpl bind.
  - exists q. auto.
  - destruct (S (false, snd (rb_get ew0 (q_entries q) i))) as (W1 & L1).
    destruct Wq as ((W & Hn & Hf) & Hh & He).
    set (q1 := mkPQ (rb_set (q_entries q) i (false, snd (rb_get ew0 (q_entries q) i))) (q_np q - 1) (q_first q)).
    assert (Habs1 : pq_abs q1 = (q_first q, upd (Z.to_nat (pn - q_first q)) None (snd (pq_abs q)))).
    { unfold pq_abs, q1. simpl. rewrite L1, map_upd. reflexivity. }
    assert (Hpre : pre_wf q1).
    { unfold pre_wf. rewrite Habs1. simpl snd. ssplit.
      - exact W1.
      - unfold q1; simpl q_np. unfold spec_get, pq_abs in A. cbn [fst snd] in A.
        replace (pn <? q_first q) with false in A by lia.
        unfold pq_abs. cbn [fst snd]. rewrite (cnt_upd_none _ _ _ A). unfold pq_abs in Hn. cbn [fst snd] in Hn. lia.
      - match goal with H : upd _ _ _ <> [] |- _ => apply Hf; intro E; apply H; apply upd_nil_iff; exact E end. }
    simpl fst. change (q_first q1) with (q_first q).
    destruct (pn =? q_first q) eqn:EQ.
    + destruct (clearup_refines q1 Hpre) as (q2 & E2 & W2 & A2 & _). fold q1. rewrite E2. simpl.
      exists q2. rewrite A2, Habs1. auto.
    + simpl. exists q1. split; [reflexivity|]. split; [|exact Habs1].
      split; [exact Hpre|]. rewrite Habs1. simpl snd. split.
      * apply hd_upd; auto. lia.
      * intros E. apply upd_nil_iff in E. auto.
Qed.

(* ---------------- RemoveUpTo *)
Lemma upto_loop_refines : forall l (r : ring ew) np f pn fuel, rb_wf r -> rb_list ew0 r = l ->
  (length l < fuel)%nat -> 0 <= f ->
  exists r', upto_loop zeroT fuel r np f pn =
             Ok (r', np - (cnt (map slot_of l) - cnt (fst (upto_sl (map slot_of l) f pn))), snd (upto_sl (map slot_of l) f pn)) /\
             rb_wf r' /\ map slot_of (rb_list ew0 r') = fst (upto_sl (map slot_of l) f pn) /\
             0 <= snd (upto_sl (map slot_of l) f pn).
Proof.
  induction l as [|x l IH]; intros r np f pn fuel W HL Hfuel Hf0; (destruct fuel as [|fuel]; [simpl in Hfuel; lia|]); simpl upto_loop.
  - assert (E : rb_empty r = true) by (apply (rb_empty_iff _ ew0 r W); exact HL).
    rewrite E. simpl. exists r. rewrite HL. ssplit; auto. f_equal. f_equal. f_equal. lia.
  - assert (E : rb_empty r = false).
    { destruct (rb_empty r) eqn:E; auto. apply (rb_empty_iff _ ew0 r W) in E. congruence. }
    rewrite E. replace (f =? invalidPacketNumber) with false by (unfold invalidPacketNumber, c12_invalidPacketNumber; lia).
    simpl negb. simpl andb. simpl map. simpl upto_sl. destruct (f <? pn) eqn:LT.
    + destruct (rb_front_refines _ ew0 r x l W HL) as (i & EF & G). rewrite EF. simpl bind. rewrite G.
      destruct (rb_pop_refines _ ew0 r x l W HL) as (r1 & EPop & W1 & L1 & _). rewrite EPop. simpl bind. simpl snd.
      destruct (IH r1 (if fst x then np - 1 else np) (f + 1) pn fuel W1 L1) as (r' & E' & W' & L' & F'); [simpl in Hfuel; lia|lia|].
      exists r'. rewrite E'. ssplit; auto. f_equal. f_equal. f_equal.
      assert (SX : slot_of x = if fst x then Some (snd x) else None) by reflexivity.
      rewrite SX. destruct (fst x); cbn [cnt]; lia.
    + exists r. rewrite HL. simpl. ssplit; auto. f_equal. f_equal. f_equal. lia.
Qed.

Lemma upto_sl_nonempty_first : forall sl f pn, fst (upto_sl sl f pn) <> [] -> pn <= snd (upto_sl sl f pn).
Proof.
  induction sl as [|s sl IH]; simpl; intros f pn H; [congruence|].
  destruct (f <? pn) eqn:E; simpl in *; [apply IH; auto|lia].
Qed.

Lemma remove_upto_refines : forall q pn, pq_wf q ->
  exists q', pq_remove_upto zeroT q pn = Ok q' /\ pq_wf q' /\ pq_abs q' = spec_upto (pq_abs q) pn.
Proof.
  intros q pn Wq. pose proof (wf_empty_iff q Wq) as HE. destruct Wq as ((W & Hn & Hf) & Hh & He).
  unfold pq_remove_upto, spec_upto.
  destruct (rb_list ew0 (q_entries q)) as [|x l] eqn:EL.
  - (* empty queue: the loop does nothing *)
    assert (E : rb_empty (q_entries q) = true) by (apply (rb_empty_iff _ ew0 _ W); exact EL).
    simpl upto_loop. rewrite E. simpl.
    assert (Hpre : pre_wf (mkPQ (q_entries q) (q_np q) (q_first q))) by (split; auto).
    destruct (clearup_refines _ Hpre) as (q2 & E2 & W2 & A2 & _). exists q2. split; [exact E2|]. split; [exact W2|].
    rewrite A2. unfold pq_abs. simpl. rewrite EL. simpl. reflexivity.
  - assert (F0 : 0 <= q_first q). { apply Hf. unfold pq_abs. simpl. rewrite EL. discriminate. }
    destruct (upto_loop_refines (x :: l) (q_entries q) (q_np q) (q_first q) pn (S (rb_len (q_entries q))) W EL)
      as (r' & E' & W' & L' & F'); [rewrite (rb_len_length _ ew0), EL; simpl; lia|exact F0|].
    rewrite E'. simpl bind.
    set (np' := q_np q - _) in *. set (f' := snd (upto_sl _ _ _)) in *.
    assert (Hpre : pre_wf (mkPQ r' np' f')).
    { unfold pre_wf, pq_abs. simpl. rewrite L'. ssplit; auto.
      unfold np'. unfold pq_abs in Hn. simpl in Hn. rewrite EL in Hn. lia. }
    destruct (clearup_refines _ Hpre) as (q2 & E2 & W2 & A2 & _). exists q2. split; [exact E2|]. split; [exact W2|].
    rewrite A2. unfold pq_abs. simpl. rewrite L', EL. reflexivity.
Qed.

(* ---------------- the specification is a finite map *)
Lemma spec_get_strip : forall f sl pn, 0 <= pn -> (sl <> [] -> 0 <= f) ->
  spec_get (strip (f, sl)) pn = spec_get (f, sl) pn.
Proof.
  intros f sl. revert f. induction sl as [|[x|] sl IH]; intros f pn Hpn Hf; unfold strip, spec_get; simpl.
  - destruct (pn <? invalidPacketNumber), (pn <? f); auto; dnat.
  - reflexivity.
  - specialize (IH (f + 1) pn Hpn). unfold strip, spec_get in IH. simpl in IH.
    assert (0 <= f) by (apply Hf; discriminate).
    rewrite IH by (intros; lia).
    destruct (pn <? f + 1) eqn:E1; destruct (pn <? f) eqn:E2; try lia; auto.
    + replace (pn - f) with 0 by lia. reflexivity.
    + replace (Z.to_nat (pn - f)) with (S (Z.to_nat (pn - (f + 1)))) by lia. reflexivity.
Qed.

(* after a successful Emplace the map is extended at pn; a refused Emplace changes nothing *)
Lemma spec_emplace_get : forall st pn e pn', 0 <= pn -> 0 <= pn' ->
  (snd st <> [] -> 0 <= fst st) ->
  spec_get (fst (spec_emplace st pn e)) pn' =
    if snd (spec_emplace st pn e) then (if pn' =? pn then Some e else spec_get st pn') else spec_get st pn'.
Proof.
  intros (f, sl0) pn e pn' Hpn Hpn' Hf. unfold spec_emplace. simpl fst. simpl snd.
  destruct sl0 as [|s sl'].
  - simpl. unfold spec_get. simpl.
    destruct (pn' =? pn) eqn:E.
    + replace (pn' <? pn) with false by lia. replace (pn' - pn) with 0 by lia. reflexivity.
    + destruct (pn' <? pn) eqn:E1.
      * destruct (pn' <? f); auto. destruct (Z.to_nat (pn' - f)); reflexivity.
      * destruct (Z.to_nat (pn' - pn)) eqn:E2; [lia|]. rewrite ?nth_nil'; try (destruct n);
        (destruct (pn' <? f); auto; destruct (Z.to_nat (pn' - f)); reflexivity).
  - assert (F0 : 0 <= f) by (apply Hf; discriminate). cbv iota.
    remember (s :: sl') as sl eqn:ESL.
    destruct (pn <=? f + Z.of_nat (length sl) - 1) eqn:LE; cbn [fst snd]; [reflexivity|].
    unfold spec_get. simpl fst. simpl snd.
    set (gap := Z.to_nat (pn - f - Z.of_nat (length sl))).
    destruct (pn' <? f) eqn:E0.
    { destruct (pn' =? pn) eqn:E; [lia|reflexivity]. }
    destruct (Z_lt_dec (pn' - f) (Z.of_nat (length sl))) as [In|Out].
    + rewrite app_nth1 by lia. replace (pn' =? pn) with false by lia. reflexivity.
    + rewrite app_nth2 by lia. rewrite (nth_overflow sl) by lia.
      destruct (pn' =? pn) eqn:E.
      * rewrite app_nth2 by (rewrite repeat_length; lia). rewrite repeat_length.
        replace (Z.to_nat (pn' - f) - length sl - gap)%nat with 0%nat by lia. reflexivity.
      * destruct (Z_lt_dec pn' pn).
        -- rewrite app_nth1 by (rewrite repeat_length; lia). apply nth_repeat.
        -- rewrite app_nth2 by (rewrite repeat_length; lia). rewrite repeat_length.
           destruct (Z.to_nat (pn' - f) - length sl - gap)%nat as [|k] eqn:E3; [lia|]. now destruct k.
Qed.

Lemma nth_upd_eq' : forall A i (x d : A) l, (i < length l)%nat -> nth i (upd i x l) d = x.
Proof. induction i; destruct l; simpl; intros; try lia; auto. apply IHi. lia. Qed.
Lemma nth_upd_neq' : forall A i j (x d : A) l, i <> j -> nth j (upd i x l) d = nth j l d.
Proof. induction i; destruct l; destruct j; simpl; intros; try lia; auto. Qed.

Lemma spec_remove_get : forall st pn pn', 0 <= pn' -> (snd st <> [] -> 0 <= fst st) ->
  spec_get (spec_remove st pn) pn' = if pn' =? pn then None else spec_get st pn'.
Proof.
  intros (f, sl) pn pn' Hpn' Hf. unfold spec_remove.
  destruct (spec_get (f, sl) pn) eqn:G.
  2:{ destruct (pn' =? pn) eqn:E; auto. replace pn' with pn by lia. exact G. }
  simpl fst. simpl snd.
  assert (HG : forall pn'', spec_get (f, upd (Z.to_nat (pn - f)) None sl) pn'' =
                            if pn'' =? pn then None else spec_get (f, sl) pn'').
  { intros pn''. unfold spec_get in *. simpl fst in *. simpl snd in *.
    destruct (pn <? f) eqn:E0; [discriminate|].
    destruct (pn'' <? f) eqn:E1.
    - destruct (pn'' =? pn); reflexivity.
    - destruct (pn'' =? pn) eqn:E.
      + replace pn'' with pn by lia. apply nth_upd_eq'.
        destruct (Nat.lt_ge_cases (Z.to_nat (pn - f)) (length sl)); auto. rewrite nth_overflow in G by lia. discriminate.
      + apply nth_upd_neq'. lia. }
  destruct (pn =? f) eqn:EQ.
  - rewrite spec_get_strip; auto. intros NE. apply Hf. simpl. intro A. apply NE. apply upd_nil_iff. exact A.
  - apply HG.
Qed.

Lemma upto_sl_get : forall sl f pn pn', 0 <= f ->
  spec_get (snd (upto_sl sl f pn), fst (upto_sl sl f pn)) pn' =
    if pn' <? pn then (if pn' <? snd (upto_sl sl f pn) then None else spec_get (f, sl) pn') else spec_get (f, sl) pn'.
Proof.
  induction sl as [|s sl IH]; intros f pn pn' Hf; simpl.
  - destruct (pn' <? pn); auto. unfold spec_get. simpl. destruct (pn' <? f); reflexivity.
  - destruct (f <? pn) eqn:E.
    + rewrite IH by lia. pose proof (strip_loop_first [] 0) as _.
      assert (Hmono : f + 1 <= snd (upto_sl sl (f + 1) pn)).
      { clear. revert f. induction sl; simpl; intros; try lia. destruct (f + 1 <? pn); simpl; try lia.
        specialize (IHsl (f + 1)). lia. }
      unfold spec_get. simpl fst. simpl snd.
      destruct (pn' <? pn) eqn:E1.
      * destruct (pn' <? snd (upto_sl sl (f + 1) pn)) eqn:E2; auto.
        replace (pn' <? f + 1) with false by lia. replace (pn' <? f) with false by lia.
        replace (Z.to_nat (pn' - f)) with (S (Z.to_nat (pn' - (f + 1)))) by lia. reflexivity.
      * replace (pn' <? f + 1) with false by lia. replace (pn' <? f) with false by lia.
        replace (Z.to_nat (pn' - f)) with (S (Z.to_nat (pn' - (f + 1)))) by lia. reflexivity.
    + simpl. destruct (pn' <? pn) eqn:E1; auto. unfold spec_get. simpl. replace (pn' <? f) with true by lia. reflexivity.
Qed.

(* after RemoveUpTo pn: nothing below pn remains, everything else is untouched *)
Lemma spec_upto_get : forall st pn pn', 0 <= pn' -> (snd st <> [] -> 0 <= fst st) -> hd_some (snd st) ->
  spec_get (spec_upto st pn) pn' = if pn' <? pn then None else spec_get st pn'.
Proof.
  intros (f, sl0) pn pn' Hpn' Hf Hh. unfold spec_upto. simpl fst. simpl snd.
  destruct sl0 as [|s sl'].
  - simpl. unfold strip, spec_get. simpl. destruct (pn' <? pn), (pn' <? invalidPacketNumber), (pn' <? f); auto; dnat.
  - assert (F0 : 0 <= f) by (apply Hf; discriminate). remember (s :: sl') as sl eqn:ESL.
    assert (Hmono : f <= snd (upto_sl sl f pn)).
    { clear. revert f. induction sl; simpl; intros; try lia. destruct (f <? pn); simpl; try lia.
      specialize (IHsl (f + 1)). lia. }
    rewrite spec_get_strip; auto; [|intros; lia].
    rewrite upto_sl_get by lia.
    destruct (pn' <? pn) eqn:E1; auto.
    destruct (pn' <? snd (upto_sl sl f pn)) eqn:E2; auto.
    (* pn' < pn but pn' >= new first: then the loop stopped because the list ran out or first >= pn *)
    destruct (fst (upto_sl sl f pn)) eqn:E3.
    + (* everything was removed: pn' is past the end of the old list *)
      assert (Hend : snd (upto_sl sl f pn) = f + Z.of_nat (length sl) \/ fst (upto_sl sl f pn) <> []).
      { clear. revert f. induction sl; simpl; intros; [left; lia|]. destruct (f <? pn); simpl.
        - destruct (IHsl (f + 1)) as [A|A]; [left; lia|right; auto].
        - right. discriminate. }
      destruct Hend as [A|A]; [|congruence].
      unfold spec_get. simpl. replace (pn' <? f) with false by lia. rewrite nth_overflow by lia. reflexivity.
    + assert (pn <= snd (upto_sl sl f pn)) by (apply upto_sl_nonempty_first; congruence). lia.
Qed.

(* bookkeeping: the slots in use are exactly the span first..last; RemoveUpTo pn leaves first >= pn *)
Lemma spec_upto_first : forall st pn, (snd st <> [] -> 0 <= fst st) ->
  snd (spec_upto st pn) <> [] -> pn <= fst (spec_upto st pn) /\ fst st <= fst (spec_upto st pn).
Proof.
  intros (f, sl) pn Hf. unfold spec_upto, strip. simpl fst. simpl snd.
  pose proof (strip_loop_first (fst (upto_sl sl f pn)) (snd (upto_sl sl f pn))) as H1.
  assert (Hmono : f <= snd (upto_sl sl f pn)).
  { clear. revert f. induction sl; simpl; intros; try lia. destruct (f <? pn); simpl; try lia.
    specialize (IHsl (f + 1)). lia. }
  destruct (fst (strip_loop (fst (upto_sl sl f pn)) (snd (upto_sl sl f pn)))) eqn:E; simpl; [congruence|].
  intros _. split; [|lia].
  assert (fst (upto_sl sl f pn) <> []).
  { intro A. rewrite A in E. simpl in E. discriminate. }
  pose proof (upto_sl_nonempty_first sl f pn H). lia.
Qed.

Lemma strip_loop_span : forall sl f,
  snd (strip_loop sl f) + Z.of_nat (length (fst (strip_loop sl f))) = f + Z.of_nat (length sl).
Proof. induction sl as [|[x|] sl IH]; simpl; intros; try lia. rewrite IH. lia. Qed.

Lemma upto_sl_span : forall sl f pn,
  snd (upto_sl sl f pn) + Z.of_nat (length (fst (upto_sl sl f pn))) = f + Z.of_nat (length sl).
Proof. induction sl; simpl; intros; try lia. destruct (f <? pn); simpl; try lia. rewrite IHsl. lia. Qed.

Lemma spec_upto_last : forall st pn, snd (spec_upto st pn) <> [] -> spec_last (spec_upto st pn) = spec_last st.
Proof.
  intros (f, sl) pn. unfold spec_upto, strip, spec_last, spec_slots. simpl fst. simpl snd.
  pose proof (strip_loop_span (fst (upto_sl sl f pn)) (snd (upto_sl sl f pn))) as H1.
  pose proof (upto_sl_span sl f pn) as H2.
  destruct (fst (strip_loop (fst (upto_sl sl f pn)) (snd (upto_sl sl f pn)))) eqn:E; simpl; [congruence|].
  intros _. destruct sl; simpl in *; [discriminate E|]. lia.
Qed.

End PQProofs.
