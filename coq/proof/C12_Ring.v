(* C12 proofs, layer 1a: the ring buffer refines a list (queue). *)
From Hy Require Import lib.Res model.C12_Queue.
From Coq Require Import ZArith Lia Bool List ZifyBool ZifyNat.
Import ListNotations.
Ltac Zify.zify_post_hook ::= Z.div_mod_to_equations.

Ltac brk :=
  repeat (cbv iota; match goal with
  | |- context [if (?a =? ?b)%nat then _ else _] => destruct (a =? b)%nat eqn:?
  | |- context [if (?a <=? ?b)%nat then _ else _] => destruct (a <=? b)%nat eqn:?
  | |- context [if (?a <? ?b)%nat then _ else _] => destruct (a <? b)%nat eqn:?
  end); cbv iota.

Section RingProofs.
Variable T : Type.
Variable zero : T.

(* position of the j-th element *)
Definition ridx (cap head j : nat) : nat := if (head + j <? cap)%nat then (head + j)%nat else (head + j - cap)%nat.

Definition rb_list (r : ring T) : list T :=
  map (fun j => nth (ridx (rb_cap r) (r_head r) j) (r_buf r) zero) (seq 0 (rb_len r)).

Definition rb_wf (r : ring T) : Prop :=
  ((r_head r < rb_cap r)%nat \/ (rb_cap r = 0 /\ r_head r = 0)%nat) /\
  ((r_tail r < rb_cap r)%nat \/ (rb_cap r = 0 /\ r_tail r = 0)%nat) /\
  (r_full r = true -> r_head r = r_tail r /\ (0 < rb_cap r)%nat).

Lemma upd_length : forall A i (x : A) l, length (upd i x l) = length l.
Proof. induction i; destruct l; simpl; auto. Qed.

Lemma nth_upd_eq : forall A i (x d : A) l, (i < length l)%nat -> nth i (upd i x l) d = x.
Proof. induction i; destruct l; simpl; intros; try lia; auto. apply IHi. lia. Qed.

Lemma nth_upd_neq : forall A i j (x d : A) l, i <> j -> nth j (upd i x l) d = nth j l d.
Proof. induction i; destruct l; destruct j; simpl; intros; try lia; auto. Qed.

Lemma rb_len_length : forall r, rb_len r = length (rb_list r).
Proof. intros. unfold rb_list. now rewrite map_length, seq_length. Qed.

Lemma rb_init_wf : forall n, rb_wf (rb_init zero n).
Proof.
  intros. unfold rb_wf, rb_init, rb_cap; simpl. rewrite repeat_length.
  repeat split; try discriminate; lia.
Qed.

Lemma rb_init_list : forall n, rb_list (rb_init zero n) = [].
Proof. intros. unfold rb_list, rb_len, rb_init; simpl. reflexivity. Qed.

Lemma rb_empty_iff : forall r, rb_wf r -> (rb_empty r = true <-> rb_list r = []).
Proof.
  intros r (Hh & Ht & Hf). rewrite <- length_zero_iff_nil, <- rb_len_length.
  unfold rb_empty, rb_len. destruct (r_full r) eqn:F.
  - destruct (Hf eq_refl). simpl. split; [discriminate | lia].
  - simpl. destruct (r_head r <=? r_tail r)%nat eqn:E; split; intros; try lia.
Qed.

Lemma rb_len_le_cap : forall r, rb_wf r -> (rb_len r <= rb_cap r)%nat.
Proof.
  intros r (Hh & Ht & Hf). unfold rb_len. destruct (r_full r); [lia|].
  destruct (r_head r <=? r_tail r)%nat eqn:E; lia.
Qed.

(* the tail is where element number Len would go *)
Lemma tail_is_ridx : forall r, rb_wf r -> r_full r = false -> (0 < rb_cap r)%nat ->
  r_tail r = ridx (rb_cap r) (r_head r) (rb_len r).
Proof.
  intros r (Hh & Ht & Hf) F C. unfold ridx, rb_len. rewrite F.
  destruct (r_head r <=? r_tail r)%nat eqn:E.
  - destruct (r_head r + (r_tail r - r_head r) <? rb_cap r)%nat eqn:E2; lia.
  - destruct (r_head r + (r_tail r + rb_cap r - r_head r) <? rb_cap r)%nat eqn:E2; lia.
Qed.

Lemma map_seq_ext : forall A (f g : nat -> A) n,
  (forall j, (j < n)%nat -> f j = g j) -> map f (seq 0 n) = map g (seq 0 n).
Proof. intros. apply map_ext_in. intros a Ha. apply in_seq in Ha. apply H. lia. Qed.

(* push without growing *)
Lemma push_nogrow : forall r t, rb_wf r -> r_full r = false -> (0 < rb_cap r)%nat ->
  exists r', rb_push zero r t = Ok r' /\ rb_wf r' /\ rb_list r' = rb_list r ++ [t] /\ rb_cap r' = rb_cap r.
Proof.
  intros r t W F C. pose proof (tail_is_ridx r W F C) as HT.
  pose proof (rb_len_le_cap r W) as HL.
  destruct W as (Hh & Ht & Hf).
  unfold rb_push. rewrite F. replace (rb_cap r =? 0)%nat with false by lia. cbn [orb]. cbv iota zeta.
  rewrite F. replace (rb_cap r <=? r_tail r)%nat with false by lia.
  eexists. split; [reflexivity|].
  assert (Hlen : rb_len r = if (r_head r <=? r_tail r)%nat then (r_tail r - r_head r)%nat else (r_tail r + rb_cap r - r_head r)%nat).
  { unfold rb_len. now rewrite F. }
  assert (HLt : (rb_len r < rb_cap r)%nat).
  { rewrite Hlen. destruct (r_head r <=? r_tail r)%nat eqn:E; lia. }
  set (tl := if (S (r_tail r) =? length (upd (r_tail r) t (r_buf r)))%nat then 0%nat else S (r_tail r)).
  assert (Htl : tl = if (S (r_tail r) =? rb_cap r)%nat then 0%nat else S (r_tail r)).
  { unfold tl. rewrite upd_length. reflexivity. }
  clearbody tl.
  assert (Hcap : forall fl, rb_cap (mkRing (upd (r_tail r) t (r_buf r)) (r_head r) tl fl) = rb_cap r).
  { intros. unfold rb_cap. simpl. apply upd_length. }
  assert (Hlen' : forall fl, fl = (if (tl =? r_head r)%nat then true else false) ->
            rb_len (mkRing (upd (r_tail r) t (r_buf r)) (r_head r) tl fl) = S (rb_len r)).
  { intros fl ->. unfold rb_len at 1. simpl. fold (rb_cap (mkRing (upd (r_tail r) t (r_buf r)) (r_head r) tl (if (tl =? r_head r)%nat then true else false))).
    rewrite Hcap. rewrite Hlen, Htl.
    destruct (S (r_tail r) =? rb_cap r)%nat eqn:E1; destruct (r_head r <=? r_tail r)%nat eqn:E2; brk; lia. }
  split; [|split].
  - unfold rb_wf. rewrite Hcap. cbn [r_head r_tail r_full].
    destruct (S (r_tail r) =? rb_cap r)%nat eqn:E1; destruct (tl =? r_head r)%nat eqn:E3;
      repeat split; intros; try discriminate; lia.
  - unfold rb_list at 1. rewrite Hlen' by reflexivity. rewrite Hcap. simpl r_head. simpl r_buf.
    rewrite seq_S, map_app. simpl. f_equal.
    + unfold rb_list. apply map_seq_ext. intros j Hj. apply nth_upd_neq.
      rewrite HT. unfold ridx.
      brk; lia.
    + f_equal. rewrite <- HT. apply nth_upd_eq. fold (rb_cap r). lia.
  - apply Hcap.
Qed.

Lemma nth_skipn' : forall (l : list T) h j, nth j (skipn h l) zero = nth (h + j) l zero.
Proof. induction l; destruct h; simpl; intros; auto. destruct j; auto. Qed.

Lemma nth_firstn' : forall (l : list T) h j, (j < h)%nat -> nth j (firstn h l) zero = nth j l zero.
Proof. induction l; destruct h; simpl; intros; auto; try lia. destruct j; auto. apply IHl. lia. Qed.

Lemma nth_rotate : forall (l : list T) h j, (h <= length l)%nat -> (j < length l)%nat ->
  nth j (skipn h l ++ firstn h l) zero = nth (ridx (length l) h j) l zero.
Proof.
  intros l h j Hh Hj. unfold ridx.
  destruct (h + j <? length l)%nat eqn:E.
  - rewrite app_nth1 by (rewrite skipn_length; lia). apply nth_skipn'.
  - rewrite app_nth2 by (rewrite skipn_length; lia). rewrite skipn_length.
    rewrite nth_firstn' by lia. f_equal. lia.
Qed.

(* grow on a full (or zero-capacity) ring *)
Lemma grow_ok : forall r, rb_wf r -> (r_full r = true \/ rb_cap r = 0%nat) ->
  let g := rb_grow zero r in
  rb_wf g /\ r_full g = false /\ (0 < rb_cap g)%nat /\ rb_list g = rb_list r /\
  rb_cap g = (if (rb_cap r =? 0)%nat then 1 else 2 * rb_cap r)%nat /\ rb_len r = rb_cap r.
Proof.
  intros r W Hfull. pose proof W as (Hh & Ht & Hf). intros g.
  assert (Hcapg : rb_cap g = (if (rb_cap r =? 0)%nat then 1 else 2 * rb_cap r)%nat).
  { unfold g, rb_grow, rb_cap. simpl. rewrite !app_length, skipn_length, firstn_length, repeat_length.
    fold (rb_cap r). destruct (rb_cap r =? 0)%nat eqn:E; lia. }
  assert (Hlenr : rb_len r = rb_cap r).
  { unfold rb_len. destruct (r_full r) eqn:F; [reflexivity|]. destruct Hfull; [discriminate|].
    destruct (r_head r <=? r_tail r)%nat; lia. }
  assert (Hleng : rb_len g = rb_cap r).
  { unfold rb_len, g, rb_grow. simpl. fold (rb_cap r). lia. }
  split; [|split; [|split; [|split; [|split]]]]; auto.
  - unfold rb_wf. rewrite Hcapg. unfold g, rb_grow. simpl. fold (rb_cap r).
    repeat split; try discriminate; destruct (rb_cap r =? 0)%nat eqn:E; lia.
  - rewrite Hcapg. destruct (rb_cap r =? 0)%nat eqn:E; lia.
  - unfold rb_list. rewrite Hleng, Hlenr. apply map_seq_ext. intros j Hj.
    rewrite Hcapg. unfold g, rb_grow. simpl r_head. simpl r_buf. fold (rb_cap r).
    unfold ridx at 1. replace (0 + j <? (if (rb_cap r =? 0)%nat then 1 else 2 * rb_cap r))%nat with true
      by (destruct (rb_cap r =? 0)%nat eqn:E; lia).
    simpl plus. rewrite app_nth1 by (rewrite app_length, skipn_length, firstn_length; fold (rb_cap r); lia).
    apply nth_rotate; fold (rb_cap r); lia.
Qed.

(* R3: PushBack refines "append" and never panics *)
Lemma rb_push_refines : forall r t, rb_wf r ->
  exists r', rb_push zero r t = Ok r' /\ rb_wf r' /\ rb_list r' = rb_list r ++ [t] /\
             (rb_cap r' = rb_cap r \/
              (rb_len r = rb_cap r /\ rb_cap r' = (if (rb_cap r =? 0)%nat then 1 else 2 * rb_cap r)%nat)).
Proof.
  intros r t W.
  destruct (r_full r || (rb_cap r =? 0)%nat) eqn:G.
  - assert (Hfull : r_full r = true \/ rb_cap r = 0%nat).
    { apply orb_true_iff in G. destruct G; [left; auto | right; lia]. }
    destruct (grow_ok r W Hfull) as (Wg & Fg & Cg & Lg & Capg & Lenr).
    destruct (push_nogrow (rb_grow zero r) t Wg Fg Cg) as (r' & E & W' & L' & C').
    exists r'. unfold rb_push in *. rewrite G.
    rewrite Fg in E. replace (rb_cap (rb_grow zero r) =? 0)%nat with false in E by lia. simpl in E.
    split; [exact E|]. split; [exact W'|]. split; [now rewrite L', Lg|]. right. split; [exact Lenr|]. now rewrite C', Capg.
  - apply orb_false_iff in G. destruct G as (F & C).
    destruct (push_nogrow r t W F) as (r' & E & W' & L' & C'); [lia|].
    exists r'. split; [exact E|]. split; [exact W'|]. split; [exact L'|]. left; exact C'.
Qed.

(* R4: PopFront refines "remove the first element"; on an empty ring it is Panic 2 *)
Lemma rb_pop_refines : forall r x l, rb_wf r -> rb_list r = x :: l ->
  exists r', rb_pop zero r = Ok (x, r') /\ rb_wf r' /\ rb_list r' = l /\ rb_cap r' = rb_cap r.
Proof.
  intros r x l W HL. pose proof (rb_len_le_cap r W) as HLe.
  assert (Hne : rb_empty r = false).
  { destruct (rb_empty r) eqn:E; auto. apply (rb_empty_iff r W) in E. congruence. }
  assert (Hlen : rb_len r = S (length l)) by (rewrite rb_len_length, HL; reflexivity).
  pose proof W as (Hh & Ht & Hf).
  unfold rb_pop. rewrite Hne. replace (rb_cap r <=? r_head r)%nat with false by lia.
  eexists. split.
  - f_equal. f_equal. unfold rb_list in HL. rewrite Hlen in HL. simpl in HL. injection HL as HL _.
    rewrite <- HL. unfold ridx. replace (r_head r + 0 <? rb_cap r)%nat with true by lia. f_equal. lia.
  - set (hd := if (S (r_head r) =? length (upd (r_head r) zero (r_buf r)))%nat then 0%nat else S (r_head r)).
    assert (Hhd : hd = if (S (r_head r) =? rb_cap r)%nat then 0%nat else S (r_head r)).
    { unfold hd. rewrite upd_length. reflexivity. }
    clearbody hd.
    assert (Hcap : rb_cap (mkRing (upd (r_head r) zero (r_buf r)) hd (r_tail r) false) = rb_cap r).
    { unfold rb_cap. simpl. apply upd_length. }
    assert (Hlen' : rb_len (mkRing (upd (r_head r) zero (r_buf r)) hd (r_tail r) false) = length l).
    { unfold rb_len at 1. simpl. fold (rb_cap (mkRing (upd (r_head r) zero (r_buf r)) hd (r_tail r) false)).
      rewrite Hcap, Hhd. unfold rb_len in Hlen. unfold rb_empty in Hne.
      destruct (r_full r) eqn:F.
      + destruct (Hf eq_refl). destruct (S (r_head r) =? rb_cap r)%nat eqn:E1; brk; lia.
      + simpl in Hne. destruct (r_head r <=? r_tail r)%nat eqn:E2;
          destruct (S (r_head r) =? rb_cap r)%nat eqn:E1; brk; lia. }
    split; [|split].
    + unfold rb_wf. rewrite Hcap. simpl. rewrite Hhd.
      repeat split; try discriminate; destruct (S (r_head r) =? rb_cap r)%nat eqn:E1; lia.
    + unfold rb_list at 1. rewrite Hlen', Hcap. simpl r_head. simpl r_buf.
      unfold rb_list in HL. rewrite Hlen in HL. simpl in HL. injection HL as _ HL.
      etransitivity; [|exact HL]. rewrite <- seq_shift, map_map. apply map_seq_ext. intros j Hj.
      rewrite nth_upd_neq.
      * f_equal. rewrite Hhd. unfold ridx.
        destruct (S (r_head r) =? rb_cap r)%nat eqn:E1; brk; lia.
      * rewrite Hhd. unfold ridx.
        destruct (S (r_head r) =? rb_cap r)%nat eqn:E1; brk; lia.
    + exact Hcap.
Qed.

Lemma rb_pop_empty : forall r, rb_wf r -> rb_list r = [] -> rb_pop zero r = Panic 2.
Proof. intros r W E. apply (rb_empty_iff r W) in E. unfold rb_pop. now rewrite E. Qed.

Lemma nth_map_seq : forall A (f : nat -> A) m n d, (n < m)%nat -> nth n (map f (seq 0 m)) d = f n.
Proof.
  intros. rewrite (nth_indep _ d (f 0%nat)) by (rewrite map_length, seq_length; lia).
  rewrite (map_nth f (seq 0 m) 0%nat n). rewrite seq_nth by lia. reflexivity.
Qed.

Lemma rb_list_nth : forall r n, (n < rb_len r)%nat ->
  nth n (rb_list r) zero = nth (ridx (rb_cap r) (r_head r) n) (r_buf r) zero.
Proof. intros. unfold rb_list. now rewrite nth_map_seq. Qed.

(* R6: Offset(k) for 0 <= k < Len is the k-th element; writing through the pointer updates it *)
Lemma rb_offset_refines : forall r k, rb_wf r -> (0 <= k < Z.of_nat (rb_len r))%Z ->
  exists i, rb_offset r k = Ok i /\ (i < rb_cap r)%nat /\
    rb_get zero r i = nth (Z.to_nat k) (rb_list r) zero /\
    forall y, rb_wf (rb_set r i y) /\ rb_list (rb_set r i y) = upd (Z.to_nat k) y (rb_list r) /\
              rb_cap (rb_set r i y) = rb_cap r.
Proof.
  intros r k W Hk. pose proof (rb_len_le_cap r W) as HLe. pose proof W as (Hh & Ht & Hf).
  assert (Hne : rb_empty r = false).
  { destruct (rb_empty r) eqn:E; auto. apply (rb_empty_iff r W) in E.
    rewrite rb_len_length, E in Hk. simpl in Hk. lia. }
  unfold rb_offset. rewrite Hne. replace (Z.of_nat (rb_len r) <=? k)%Z with false by lia. simpl.
  set (o := Z.rem (Z.of_nat (r_head r) + k) (Z.of_nat (rb_cap r))).
  assert (Ho : o = Z.of_nat (ridx (rb_cap r) (r_head r) (Z.to_nat k))).
  { unfold o. rewrite Z.rem_mod_nonneg by lia. unfold ridx.
    destruct (r_head r + Z.to_nat k <? rb_cap r)%nat eqn:E.
    - rewrite Z.mod_small by lia. lia.
    - symmetry. apply Z.mod_unique_pos with (q := 1%Z); lia. }
  replace (o <? 0)%Z with false by lia.
  exists (Z.to_nat o). split; [reflexivity|].
  assert (Hi : Z.to_nat o = ridx (rb_cap r) (r_head r) (Z.to_nat k)) by lia.
  rewrite Hi.
  assert (Hlt : (ridx (rb_cap r) (r_head r) (Z.to_nat k) < rb_cap r)%nat).
  { unfold ridx. destruct (r_head r + Z.to_nat k <? rb_cap r)%nat eqn:E; lia. }
  split; [exact Hlt|]. split.
  - unfold rb_get. rewrite rb_list_nth by lia. reflexivity.
  - intros y.
    assert (Hcap : rb_cap (rb_set r (ridx (rb_cap r) (r_head r) (Z.to_nat k)) y) = rb_cap r).
    { unfold rb_cap, rb_set. simpl. apply upd_length. }
    assert (Hlen : rb_len (rb_set r (ridx (rb_cap r) (r_head r) (Z.to_nat k)) y) = rb_len r).
    { unfold rb_len. fold (rb_cap (rb_set r (ridx (rb_cap r) (r_head r) (Z.to_nat k)) y)). rewrite Hcap. reflexivity. }
    assert (W' : rb_wf (rb_set r (ridx (rb_cap r) (r_head r) (Z.to_nat k)) y)).
    { unfold rb_wf. rewrite Hcap. exact W. }
    split; [exact W'|split; [|exact Hcap]].
    apply nth_ext with (d := zero) (d' := zero).
    + rewrite upd_length, <- !rb_len_length. exact Hlen.
    + intros n Hn. rewrite <- rb_len_length, Hlen in Hn.
      rewrite rb_list_nth by (rewrite Hlen; exact Hn). rewrite Hcap. simpl r_head. simpl r_buf.
      destruct (Nat.eq_dec n (Z.to_nat k)) as [->|Hneq].
      * rewrite nth_upd_eq by (fold (rb_cap r); lia).
        rewrite nth_upd_eq; [reflexivity|]. rewrite <- rb_len_length. lia.
      * rewrite nth_upd_neq by (unfold ridx; brk; lia).
        rewrite (nth_upd_neq _ (Z.to_nat k) n) by lia.
        rewrite rb_list_nth by exact Hn. reflexivity.
Qed.

(* R5: Front is the first element *)
Lemma rb_front_refines : forall r x l, rb_wf r -> rb_list r = x :: l ->
  exists i, rb_front r = Ok i /\ rb_get zero r i = x.
Proof.
  intros r x l W HL. pose proof (rb_len_le_cap r W) as HLe.
  assert (Hne : rb_empty r = false).
  { destruct (rb_empty r) eqn:E; auto. apply (rb_empty_iff r W) in E. congruence. }
  assert (Hlen : rb_len r = S (length l)) by (rewrite rb_len_length, HL; reflexivity).
  destruct W as (Hh & Ht & Hf).
  unfold rb_front. rewrite Hne. replace (rb_cap r <=? r_head r)%nat with false by lia.
  eexists. split; [reflexivity|].
  unfold rb_list in HL. rewrite Hlen in HL. simpl in HL. injection HL as HL _.
  rewrite <- HL. unfold rb_get, ridx. replace (r_head r + 0 <? rb_cap r)%nat with true by lia. f_equal. lia.
Qed.

Lemma rb_front_empty : forall r, rb_wf r -> rb_list r = [] -> rb_front r = Panic 5.
Proof. intros r W E. apply (rb_empty_iff r W) in E. unfold rb_front. now rewrite E. Qed.

(* Back is the last element *)
Lemma rb_back_refines : forall r, rb_wf r -> rb_list r <> [] ->
  exists i, rb_back r = Ok i /\ rb_get zero r i = last (rb_list r) zero.
Proof.
  intros r W Hne.
  assert (He : rb_empty r = false).
  { destruct (rb_empty r) eqn:E; auto. apply (rb_empty_iff r W) in E. congruence. }
  assert (Hpos : (0 < rb_len r)%nat).
  { rewrite rb_len_length. destruct (rb_list r); [congruence|simpl; lia]. }
  destruct (rb_offset_refines r (Z.of_nat (rb_len r) - 1) W) as (i & E & _ & G & _); [lia|].
  exists i. unfold rb_back. rewrite He. split; [exact E|].
  rewrite G. replace (Z.to_nat (Z.of_nat (rb_len r) - 1)) with (length (rb_list r) - 1)%nat
    by (rewrite <- rb_len_length; lia).
  clear. destruct (rb_list r) as [|a l] using rev_ind; [reflexivity|].
  rewrite app_length, last_last. simpl length. rewrite app_nth2 by lia.
  replace (length l + 1 - 1 - length l)%nat with 0%nat by lia. reflexivity.
Qed.

Lemma rb_clear_refines : forall r, rb_wf (rb_clear zero r) /\ rb_list (rb_clear zero r) = [] /\
  rb_cap (rb_clear zero r) = rb_cap r.
Proof.
  intros. unfold rb_clear. repeat split; unfold rb_wf, rb_cap; simpl; rewrite ?repeat_length; try discriminate; try lia.
Qed.

End RingProofs.
Arguments rb_list {T}. Arguments rb_wf {T}.
