(* C12 proofs, layer 2: window invariant for all oracle values, pacing floor, datagram-size rule,
   never-stalled (partial), bookkeeping bound over QUIC-consistent traces. *)
From Hy Require Import lib.Res model.C12_Queue model.C12_Sender proof.C12_Ring proof.C12_PQ proof.C12_Layer1.
From Coq Require Import ZArith Lia Bool List ZifyBool ZifyNat.
Import ListNotations.
Local Open Scope Z_scope.

Ltac consts := unfold c12_minCongestionWindowPackets, c12_MaxCongestionWindowPackets, c12_MaxPacketBufferSize,
  c12_initialCongestionWindowPackets, c12_minBps, c12_modeProbeRtt, c12_modeStartup, c12_recNotInRecovery,
  c12_recConservation, c12_recGrowth, c12_MinPacingDelayNs, invalidPacketNumber, c12_invalidPacketNumber in *.

Ltac brkz :=
  repeat (cbv iota; match goal with
  | |- context [if ?c then _ else _] =>
      lazymatch c with
      | context [if _ then _ else _] => fail
      | _ => destruct c eqn:?
      end
  end); cbv iota.

Definition winv (st : wstate) : Prop :=
  0 < mds st <= c12_MaxPacketBufferSize /\
  minCW st = c12_minCongestionWindowPackets * mds st /\
  minCW st <= cwnd st <= maxCW st /\
  minCW st <= initCW st <= maxCW st /\
  minCW st <= recWin st /\
  maxCW st <= c12_MaxCongestionWindowPackets * mds st /\
  0 <= cwndMinPacing st <= c12_MaxCongestionWindowPackets * mds st /\
  0 <= maxCWAdj st <= c12_MaxCongestionWindowPackets * mds st.

Lemma wrap64_id : forall x, - two63 <= x < two63 -> wrap64 x = x.
Proof.
  intros. unfold wrap64. destruct ((- two63 <=? x) && (x <? two63)); [reflexivity|].
  unfold two63, two64 in *. rewrite Z.mod_small; lia.
Qed.

Lemma wrap64_mod : forall x, wrap64 x = (x + two63) mod two64 - two63.
Proof.
  intros. unfold wrap64. destruct ((- two63 <=? x) && (x <? two63)) eqn:E; [|reflexivity].
  unfold two63, two64 in *. rewrite Z.mod_small; lia.
Qed.

Lemma u64_mod : forall x, u64 x = x mod two64.
Proof.
  intros. unfold u64. destruct ((0 <=? x) && (x <? two64)) eqn:E; [|reflexivity].
  unfold two64 in *. rewrite Z.mod_small; lia.
Qed.

Lemma u64_id : forall x, 0 <= x < two64 -> u64 x = x.
Proof. intros. rewrite u64_mod. apply Z.mod_small. assumption. Qed.

(* newBbrSender with any initial / maximum window: 4 datagrams <= initial <= maximum <= 20000 datagrams *)
Lemma new_sender_with_inv : forall m icw mcw, 0 < m <= c12_MaxPacketBufferSize ->
  c12_minCongestionWindowPackets * m <= icw <= mcw -> mcw <= c12_MaxCongestionWindowPackets * m ->
  winv (new_sender_with m icw mcw).
Proof.
  intros m icw mcw H Hi Hm. unfold winv, new_sender_with.
  cbn [mds minCW maxCW initCW cwndMinPacing maxCWAdj cwnd recWin mode recState]. consts. lia.
Qed.

Lemma new_sender_inv : forall m, 0 < m <= c12_MaxPacketBufferSize -> winv (new_sender m).
Proof.
  intros m H. unfold new_sender. apply new_sender_with_inv; [exact H| |]; consts; lia.
Qed.

(* ---------------- GetCongestionWindow range *)
Lemma get_cwnd_range : forall st, winv st ->
  c12_minCongestionWindowPackets * mds st <= get_cwnd st <= maxCW st.
Proof.
  intros st (Hm & Hmin & Hc & Hi & Hr & _). unfold get_cwnd. brkz; lia.
Qed.

(* ---------------- scaling *)
Lemma scale_ok : forall w old new, 0 < old <= new -> new <= c12_MaxPacketBufferSize ->
  0 <= w <= c12_MaxCongestionWindowPackets * old ->
  scale_window w old new = Ok (w * new / old).
Proof.
  intros w old new Ho Hn Hw. consts. unfold scale_window.
  destruct (old =? new) eqn:E.
  - assert (old = new) by lia. subst. rewrite Z.div_mul by lia. reflexivity.
  - assert (U1 : u64 old = old) by (apply u64_id; unfold two64; lia).
    assert (U2 : u64 new = new) by (apply u64_id; unfold two64; lia).
    assert (U3 : u64 w = w) by (apply u64_id; unfold two64; lia).
    rewrite U1, U2, U3. replace (old =? 0) with false by lia.
    assert (B : 0 <= w * new <= 20000 * 1452 * 1452) by nia.
    assert (U4 : u64 (w * new) = w * new) by (apply u64_id; unfold two64; lia).
    rewrite U4. f_equal. apply wrap64_id.
    assert (0 <= w * new / old) by (apply Z.div_pos; lia).
    assert (w * new / old <= w * new) by (apply Z.div_le_upper_bound; nia).
    unfold two63. lia.
Qed.

Lemma scale_mono : forall a b old new, 0 < old -> 0 <= new -> a <= b -> a * new / old <= b * new / old.
Proof. intros. apply Z.div_le_mono; nia. Qed.

Lemma scale_exact : forall k old new, 0 < old -> (k * old) * new / old = k * new.
Proof. intros. replace (k * old * new) with (k * new * old) by ring. apply Z.div_mul. lia. Qed.

(* ---------------- SetMaxDatagramSize *)
Lemma set_mds_inv : forall st s, winv st -> mds st <= s <= c12_MaxPacketBufferSize ->
  exists st', set_mds st s = Ok st' /\ winv st' /\ mds st' = s /\
    mode st' = mode st /\ recState st' = recState st.
Proof.
  intros st s (Hm & Hmin & Hc & Hi & Hr & Hmax & Hp & Ha) Hs.
  unfold set_mds. replace (s <? mds st) with false by lia.
  assert (Hmin4 : minCW st = 4 * mds st) by (consts; lia).
  assert (Hmaxb : maxCW st <= 20000 * mds st) by (consts; lia).
  rewrite (scale_ok (initCW st) (mds st) s), (scale_ok (maxCW st) (mds st) s),
          (scale_ok (cwndMinPacing st) (mds st) s), (scale_ok (maxCWAdj st) (mds st) s); try lia;
    try (consts; lia).
  cbn [bind]. eexists. split; [reflexivity|].
  assert (W : wrap64 (c12_minCongestionWindowPackets * s) = 4 * s).
  { consts. apply wrap64_id. unfold two63. lia. }
  rewrite W.
  (* facts about the rescaled windows *)
  assert (I1 : 4 * s <= initCW st * s / mds st).
  { rewrite <- (scale_exact 4 (mds st) s) by lia. apply scale_mono; lia. }
  assert (I2 : initCW st * s / mds st <= maxCW st * s / mds st) by (apply scale_mono; lia).
  assert (M2 : maxCW st * s / mds st <= 20000 * s).
  { rewrite <- (scale_exact 20000 (mds st) s) by lia. apply scale_mono; lia. }
  assert (P1 : 0 <= cwndMinPacing st * s / mds st <= 20000 * s).
  { split; [apply Z.div_pos; nia|]. rewrite <- (scale_exact 20000 (mds st) s) by lia. apply scale_mono; consts; lia. }
  assert (A1 : 0 <= maxCWAdj st * s / mds st <= 20000 * s).
  { split; [apply Z.div_pos; nia|]. rewrite <- (scale_exact 20000 (mds st) s) by lia. apply scale_mono; consts; lia. }
  unfold winv. cbn [mds minCW maxCW initCW cwndMinPacing maxCWAdj cwnd recWin mode recState].
  consts. repeat split; try lia; brkz; lia.
Qed.

Lemma set_mds_smaller_panics : forall st s, s < mds st -> set_mds st s = Panic 10.
Proof. intros. unfold set_mds. replace (s <? mds st) with true by lia. reflexivity. Qed.

(* ---------------- OnPacketSent / OnCongestionEventEx preserve the invariant, for all oracles *)
Lemma on_sent_inv : forall st pn b, winv st -> winv (on_sent st pn b).
Proof. intros st pn b H. exact H. Qed.

Definition same_params (a b : wstate) : Prop :=
  mds b = mds a /\ minCW b = minCW a /\ maxCW b = maxCW a /\ initCW b = initCW a /\
  cwndMinPacing b = cwndMinPacing a /\ maxCWAdj b = maxCWAdj a.

Ltac projs := cbn [mds minCW maxCW initCW cwndMinPacing maxCWAdj cwnd recWin mode recState atFullBw endRecoveryAt
  lastSent curRoundEnd roundCount inflight fst snd] in *.

Lemma update_round_frame : forall st la, same_params st (fst (update_round st la)) /\
  cwnd (fst (update_round st la)) = cwnd st /\ recWin (fst (update_round st la)) = recWin st /\
  recState (fst (update_round st la)) = recState st.
Proof. intros. unfold update_round, same_params, set_round. brkz; projs; repeat split; reflexivity. Qed.

Lemma update_recovery_frame : forall st la hl irs,
  same_params st (update_recovery st la hl irs) /\ cwnd (update_recovery st la hl irs) = cwnd st /\
  ((recWin (update_recovery st la hl irs) = recWin st) \/
   (recWin (update_recovery st la hl irs) = 0 /\ recState (update_recovery st la hl irs) = c12_recConservation)).
Proof.
  intros. unfold update_recovery, same_params, set_rec.
  destruct (negb (atFullBw st)); [repeat split; auto|].
  destruct (recState st =? c12_recNotInRecovery); [destruct hl|]; projs; repeat split; auto.
Qed.

Lemma calc_cwnd_frame : forall st agg t h x ba ta, minCW st <= maxCW st -> minCW st <= cwnd st <= maxCW st ->
  same_params st (calc_cwnd st agg t h x ba ta) /\ recWin (calc_cwnd st agg t h x ba ta) = recWin st /\
  recState (calc_cwnd st agg t h x ba ta) = recState st /\
  minCW st <= cwnd (calc_cwnd st agg t h x ba ta) <= maxCW st.
Proof.
  intros st agg t h x ba ta Hmm Hc. unfold calc_cwnd, cc_limits, same_params, set_cwnd.
  destruct (mode st =? c12_modeProbeRtt); projs; repeat split; auto; try lia.
Qed.

(* The upper limit has to come after BOTH growth branches.  With it applied in the STARTUP branch only
   (`cwnd = min(cwnd+bytesAcked, max)` there, nothing after the full-bandwidth branch) the window invariant is
   not preserved: at full bandwidth the window follows the target, which the code never caps. *)
Definition calc_cwnd_cap_in_startup_only (st : wstate) (enableAckAggStartup : bool)
           (target maxAckHeight excessAcked bytesAcked totalAcked : Z) : wstate :=
  if mode st =? c12_modeProbeRtt then st else
  let tw := cc_target_window st enableAckAggStartup target maxAckHeight excessAcked in
  let c := if atFullBw st then cc_grow st tw bytesAcked totalAcked
           else Z.min (cc_grow st tw bytesAcked totalAcked) (maxCW st) in
  set_cwnd st (Z.max c (minCW st)).

Lemma cap_in_startup_only_refuted : forall m, 0 < m <= c12_MaxPacketBufferSize ->
  exists st target bytesAcked, winv st /\ mds st = m /\
    maxCW st < cwnd (calc_cwnd_cap_in_startup_only st false target 0 0 bytesAcked 0) /\
    cwnd (calc_cwnd st false target 0 0 bytesAcked 0) = maxCW st.
Proof.
  intros m Hm.
  set (mx := c12_MaxCongestionWindowPackets * m).
  exists (set_mode (set_cwnd (new_sender m) mx) c12_modeProbeBw true), (2 * mx), m.
  assert (W : wrap64 (2 * mx + 0) = 2 * mx) by (rewrite Z.add_0_r; apply wrap64_id; unfold mx, two63; consts; lia).
  assert (W2 : wrap64 (mx + m) = mx + m) by (apply wrap64_id; unfold mx, two63; consts; lia).
  split; [|split; [reflexivity|]].
  - unfold winv, new_sender, new_sender_with, set_mode, set_cwnd. projs. unfold mx. consts. lia.
  - unfold calc_cwnd_cap_in_startup_only, calc_cwnd, cc_limits, cc_grow, cc_target_window, set_mode, set_cwnd,
      new_sender, new_sender_with. projs. fold mx. rewrite W, W2.
    replace (c12_modeProbeBw =? c12_modeProbeRtt) with false by (consts; reflexivity). projs.
    unfold mx. consts. lia.
Qed.

Lemma calc_recovery_frame : forall st ba bl,
  same_params st (calc_recovery st ba bl) /\ cwnd (calc_recovery st ba bl) = cwnd st /\
  (if recState st =? c12_recNotInRecovery then recWin (calc_recovery st ba bl) = recWin st
   else minCW st <= recWin (calc_recovery st ba bl)).
Proof.
  intros. unfold calc_recovery, same_params, set_recwin, set_rec.
  destruct (recState st =? c12_recNotInRecovery); [repeat split; auto|].
  destruct (recWin st =? 0); projs; repeat split; auto; lia.
Qed.

Lemma cong_event_inv : forall st agg p a l la hl o, winv st -> winv (cong_event st agg p a l la hl o) /\
  mds (cong_event st agg p a l la hl o) = mds st /\ maxCW (cong_event st agg p a l la hl o) = maxCW st.
Proof.
  intros st agg p a l la hl o (Hm & Hmin & Hc & Hi & Hr & Hmax & Hp & Ha).
  unfold cong_event.
  set (st0 := set_inflight st (wrap64 (p - a - l))).
  assert (F0 : same_params st st0 /\ cwnd st0 = cwnd st /\ recWin st0 = recWin st /\ recState st0 = recState st)
    by (unfold st0, same_params, set_inflight; projs; repeat split; reflexivity).
  set (st1 := match la with
              | Some la0 => let x := update_round st0 la0 in update_recovery (fst x) la0 hl (snd x)
              | None => st0 end).
  assert (F1 : same_params st st1 /\ cwnd st1 = cwnd st /\
               (recWin st1 = recWin st \/ (recWin st1 = 0 /\ recState st1 = c12_recConservation))).
  { destruct F0 as ((A1 & A2 & A3 & A4 & A5 & A6) & B & C & D). unfold st1. destruct la as [la0|].
    - cbv zeta. destruct (update_round_frame st0 la0) as ((R1 & R2 & R3 & R4 & R5 & R6) & RB & RC & RD).
      destruct (update_recovery_frame (fst (update_round st0 la0)) la0 hl (snd (update_round st0 la0)))
        as ((U1 & U2 & U3 & U4 & U5 & U6) & UB & UC).
      unfold same_params. split; [repeat split; congruence|]. split; [congruence|].
      destruct UC as [UC|UC]; [left; congruence|right; exact UC].
    - unfold same_params. repeat split; auto. }
  set (st2 := set_mode st1 (o_mode o) (o_atFull o)).
  assert (F2 : same_params st st2 /\ cwnd st2 = cwnd st /\ recWin st2 = recWin st1 /\ recState st2 = recState st1).
  { destruct F1 as ((A1 & A2 & A3 & A4 & A5 & A6) & B & C). unfold st2, same_params, set_mode. projs. repeat split; auto. }
  destruct F2 as ((A1 & A2 & A3 & A4 & A5 & A6) & B2 & C2 & D2).
  destruct (calc_cwnd_frame st2 agg (o_target o) (o_maxAckHeight o) (o_excess o) (o_bytesAcked o) (o_totalAcked o))
    as ((K1 & K2 & K3 & K4 & K5 & K6) & KR & KS & KC); [lia|lia|].
  set (st3 := calc_cwnd st2 agg (o_target o) (o_maxAckHeight o) (o_excess o) (o_bytesAcked o) (o_totalAcked o)) in *.
  destruct (calc_recovery_frame st3 (o_bytesAcked o) (o_bytesLost o)) as ((L1 & L2 & L3 & L4 & L5 & L6) & LC & LR).
  set (st4 := calc_recovery st3 (o_bytesAcked o) (o_bytesLost o)) in *.
  assert (HR : minCW st <= recWin st4).
  { destruct F1 as (_ & _ & [F|(F & G)]).
    - destruct (recState st3 =? c12_recNotInRecovery); [rewrite LR; lia|lia].
    - assert (E : (recState st3 =? c12_recNotInRecovery) = false).
      { rewrite KS, D2, G. consts. reflexivity. }
      rewrite E in LR. lia. }
  unfold winv. rewrite L1, L2, L3, L4, L5, L6, LC, K1, K2, K3, K4, K5, K6, A1, A2, A3, A4, A5, A6.
  repeat split; try lia.
Qed.

(* every reachable state of the window skeleton, for every event sequence and every oracle *)
Fixpoint mds_ok (m : Z) (es : list wevent) : Prop :=
  match es with
  | [] => True
  | WSetMds s :: t => m <= s <= c12_MaxPacketBufferSize /\ mds_ok s t
  | _ :: t => mds_ok m t
  end.

Lemma wrun_inv : forall es agg st, winv st -> mds_ok (mds st) es ->
  exists st', wrun agg st es = Ok st' /\ winv st'.
Proof.
  induction es as [|e t IH]; intros agg st W H; cbn [wrun].
  - eauto.
  - destruct e as [pn b|p a l la hl o|s]; cbn [wstep mds_ok bind] in *.
    + apply IH; auto.
    + destruct (cong_event_inv st agg p a l la hl o W) as (W' & M' & _). apply IH; auto. now rewrite M'.
    + destruct H as (Hs & Ht). destruct (set_mds_inv st s W Hs) as (st' & E & W' & M' & _).
      rewrite E. cbn [bind]. apply IH; auto. now rewrite M'.
Qed.

Lemma wrun_app : forall es1 es2 agg st, wrun agg st (es1 ++ es2) = (st1 <- wrun agg st es1 ;; wrun agg st1 es2).
Proof.
  induction es1 as [|e t IH]; intros; cbn [wrun app bind]; auto.
  destruct (wstep agg st e); cbn [bind]; auto.
Qed.

Lemma mds_ok_app : forall es1 es2 m, mds_ok m (es1 ++ es2) -> mds_ok m es1.
Proof.
  induction es1 as [|e t IH]; intros es2 m H; cbn [mds_ok app] in *; auto.
  destruct e; eauto. destruct H. split; eauto.
Qed.

(* ---------------- pacing floor, CanSend *)
Lemma pacer_floor : forall rate, c12_minBps <= bandwidth_for_pacer rate.
Proof. intros. unfold bandwidth_for_pacer. cbv zeta. brkz; lia. Qed.

(* float64(x) is x itself below 2^53 *)
Lemma f64_small : forall x, x < 9007199254740992 -> f64_of_u64 x = x.
Proof. intros x H. unfold f64_of_u64. replace (x <? 9007199254740992) with true by lia. reflexivity. Qed.

(* the value handed to the pacer is max(floor, bytes per second), the bytes-per-second value being the
   pacing rate (BITS per second) divided by BytesPerSecond *)
Lemma pacer_is_max : forall rate,
  bandwidth_for_pacer rate = Z.max c12_minBps (f64_of_u64 (u64 rate) / c12_BytesPerSecond).
Proof. intros. unfold bandwidth_for_pacer, pacer_bps. cbv zeta. brkz; lia. Qed.

Lemma pacer_units : forall rate, 0 <= rate < 9007199254740992 ->
  bandwidth_for_pacer rate = Z.max 65536 (rate / 8) /\
  (rate < 8 * 65536 -> bandwidth_for_pacer rate = 65536) /\
  (8 * 65536 <= rate -> bandwidth_for_pacer rate = rate / 8).
Proof.
  intros rate H. rewrite pacer_is_max.
  assert (U : u64 rate = rate) by (apply u64_id; unfold two64; lia).
  rewrite U, f64_small by lia. consts. unfold c12_BytesPerSecond.
  split; [reflexivity|]. split; intros; lia.
Qed.

(* the test on the pacing rate itself (bits/s against a bytes/s constant), division afterwards, is a different
   function: it hands the pacer less than the floor for every rate in [65536, 8*65536) bits/s *)
Definition bandwidth_for_pacer_floor_before_division (rate : Z) : Z :=
  if rate <? c12_minBps then c12_minBps else rate / c12_BytesPerSecond.

Lemma floor_before_division_refuted : forall rate, c12_minBps <= rate < c12_BytesPerSecond * c12_minBps ->
  bandwidth_for_pacer_floor_before_division rate < c12_minBps /\ bandwidth_for_pacer rate = c12_minBps.
Proof.
  intros rate H. unfold bandwidth_for_pacer_floor_before_division.
  replace (rate <? c12_minBps) with false by lia.
  destruct (pacer_units rate) as (_ & L & _); [consts; unfold c12_BytesPerSecond in *; lia|].
  consts. unfold c12_BytesPerSecond in *. split; [lia|]. apply L. lia.
Qed.

Lemma can_send_below_min : forall st b, winv st -> b < c12_minCongestionWindowPackets * mds st ->
  can_send st b = true.
Proof. intros st b W H. pose proof (get_cwnd_range st W). unfold can_send. lia. Qed.

(* the pacer: at the announced wake-up time there is budget for a full datagram *)
Lemma pacer_wakeup_has_budget : forall p bw,
  c12_minBps <= bw < 1000000000000 ->          (* pacing bandwidth: at least the floor, below 1 TB/s *)
  0 < p_mds p <= c12_MaxPacketBufferSize -> 0 <= p_budget p -> 0 < p_last p < 4611686018427387904 ->
  p_mds p <= pacer_budget p bw (pacer_time_until_send p bw) \/ pacer_time_until_send p bw = 0.
Proof.
  intros p bw Hbw Hm Hb Hl. unfold pacer_time_until_send. consts.
  destruct (p_mds p <=? p_budget p) eqn:E; [right; reflexivity|left].
  set (need := p_mds p - p_budget p).
  assert (Hneed : 0 < need <= 1452) by (unfold need; lia).
  assert (U1 : u64 need = need) by (apply u64_id; unfold two64; lia).
  assert (U2 : u64 (1000000000 * need) = 1000000000 * need) by (apply u64_id; unfold two64; lia).
  assert (U3 : u64 bw = bw) by (apply u64_id; unfold two64; lia).
  rewrite U1, U2, U3.
  set (diff := 1000000000 * need).
  set (d := diff / bw + (if 0 <? diff mod bw then 1 else 0)).
  assert (Hd : diff <= bw * d <= diff + bw /\ 0 <= d <= diff).
  { unfold d. pose proof (Z.div_mod diff bw ltac:(lia)). pose proof (Z.mod_pos_bound diff bw ltac:(lia)).
    assert (0 <= diff / bw) by (apply Z.div_pos; unfold diff; lia).
    assert (diff / bw <= diff) by (apply Z.div_le_upper_bound; unfold diff; nia).
    destruct (0 <? diff mod bw) eqn:E2; repeat split; nia. }
  destruct Hd as ((Hd1 & Hd1') & Hd2 & Hd3).
  assert (Wd : wrap64 d = d) by (apply wrap64_id; unfold two63, diff in *; lia).
  rewrite Wd.
  set (delay := Z.max 1000000 d).
  assert (Hdelay : d <= delay /\ 0 < delay <= 1000000000 * 1452) by (unfold delay, diff in *; lia).
  assert (Wt : wrap64 (p_last p + delay) = p_last p + delay) by (apply wrap64_id; unfold two63; lia).
  rewrite Wt. unfold pacer_budget. consts. replace (p_last p =? 0) with false by lia.
  replace (p_last p + delay - p_last p) with delay by lia.
  assert (W1 : wrap64 delay = delay) by (apply wrap64_id; unfold two63; lia). rewrite W1.
  assert (Hprod : 0 <= bw * delay < 2000000000000000000).
  { unfold delay, diff in *. destruct (Z.max_spec 1000000 d) as [(_ & ->)|(_ & ->)]; nia. }
  assert (W2 : wrap64 (bw * delay) = bw * delay) by (apply wrap64_id; unfold two63; lia). rewrite W2.
  assert (Hq : need <= Z.quot (bw * delay) 1000000000).
  { rewrite Z.quot_div_nonneg by lia. apply Z.div_le_lower_bound; [lia|]. unfold diff in *. nia. }
  assert (Hq2 : Z.quot (bw * delay) 1000000000 <= bw * delay).
  { rewrite Z.quot_div_nonneg by lia. apply Z.div_le_upper_bound; lia. }
  (* budget after the wait, capped by the burst size (>= 10 datagrams) *)
  assert (Hburst : p_mds p <= max_burst p bw).
  { unfold max_burst, maxBurstPackets. consts. rewrite (wrap64_id (10 * p_mds p)) by (unfold two63; lia). lia. }
  set (b1 := wrap64 (p_budget p + Z.quot (bw * delay) 1000000000)).
  destruct (b1 <? 0) eqn:E3; [lia|].
  assert (p_mds p <= b1); [|lia].
  unfold b1. destruct (Z_lt_dec (p_budget p + Z.quot (bw * delay) 1000000000) two63).
  - rewrite wrap64_id by (unfold two63 in *; lia). unfold need in *. lia.
  - (* the sum left the int64 range: then the wrapped value is negative, contradiction with E3 *)
    exfalso. unfold b1 in *. rewrite wrap64_mod in *. unfold two63, two64 in *.
    assert (p_budget p < 9223372036854775808 \/ 9223372036854775808 <= p_budget p) by lia.
    destruct H; lia.
Qed.

(* ---------------- seedPacketSize *)
Lemma seed_le_quic : forall quicSize byAddr, 0 < quicSize -> seed_packet_size quicSize byAddr <= quicSize.
Proof. intros. unfold seed_packet_size. replace (quicSize <=? 0) with false by lia. lia. Qed.

Lemma seed_is_min_or_addr : forall quicSize byAddr,
  seed_packet_size quicSize byAddr = (if quicSize <=? 0 then byAddr else Z.min quicSize byAddr).
Proof. reflexivity. Qed.

(* ---------------- bookkeeping over QUIC traces *)
Definition bk_inv (q : pq Z) (lastSentPn : Z) : Prop :=
  pq_wf Z 0 q /\ (pq_is_empty q = false -> pq_last q <= lastSentPn) /\ invalidPacketNumber <= lastSentPn.

Fixpoint last_sent_of (l0 : Z) (es : list qevent) : Z :=
  match es with
  | [] => l0
  | QSent pn _ _ :: t => last_sent_of pn t
  | _ :: t => last_sent_of l0 t
  end.

Lemma gets_ok : forall q l, pq_wf Z 0 q ->
  fold_left (fun (r : Res unit) (p : Z * Z) => _ <- r ;; _ <- pq_get 0 q (fst p) ;; Ok tt) l (Ok tt) = Ok tt.
Proof.
  intros q l W. induction l as [|p t IH] using rev_ind; [reflexivity|].
  rewrite fold_left_app. cbn [fold_left]. rewrite IH. cbn [bind].
  rewrite (get_refines Z 0 q (fst p) W). reflexivity.
Qed.

Lemma bk_step_inv : forall q l0 e, bk_inv q l0 -> sent_increasing_from l0 [e] = true ->
  exists q', bk_step q e = Ok q' /\ bk_inv q' (last_sent_of l0 [e]) /\
    match e with
    | QCong acked lost =>
        pq_slots q' <= Z.max 0 (l0 - least_unacked acked lost + 1) /\
        (forall pn, 0 <= pn -> pn < least_unacked acked lost -> pq_get 0 q' pn = Ok None)
    | QSent pn _ true => pq_get 0 q' pn <> Ok None
    | _ => True
    end.
Proof.
  intros q l0 e (W & HL & Hl0) Hinc. destruct e as [pn bytes retrans|acked lost|s]; cbn [bk_step last_sent_of].
  - cbn [sent_increasing_from] in Hinc. assert (Hpn : l0 < pn /\ 0 <= pn) by lia. destruct Hpn as (Hgt & Hpn).
    destruct retrans.
    + destruct (emplace_refines Z 0 q pn bytes W Hpn) as (q' & E & W' & A).
      assert (Hb : snd (spec_emplace Z (pq_abs Z 0 q) pn bytes) = true).
      { pose proof (last_is_spec_last Z 0 q W) as HLs. pose proof (wf_empty_iff Z 0 q W) as HE.
        unfold spec_emplace. destruct (snd (pq_abs Z 0 q)) eqn:ES; [reflexivity|].
        assert (EM : pq_is_empty q = false).
        { destruct (pq_is_empty q) eqn:EM; auto. apply (wf_empty_iff Z 0 q W) in EM. congruence. }
        specialize (HL EM). rewrite HLs in HL. unfold spec_last, spec_slots in HL. rewrite ES in HL.
        destruct (pn <=? _) eqn:LE; [|reflexivity]. lia. }
      rewrite Hb in E. rewrite E. cbn [bind fst]. exists q'. split; [reflexivity|].
      destruct (emplace_last Z 0 q pn bytes q' W Hpn E) as (_ & L' & _).
      split; [split; [exact W'|split; [intros; lia|consts; lia]]|].
      rewrite (get_refines Z 0 q' pn W'), A.
      pose proof W as ((_ & _ & Hf) & _).
      rewrite (spec_emplace_get Z (pq_abs Z 0 q) pn bytes pn Hpn Hpn Hf), Hb, Z.eqb_refl. discriminate.
    + exists q. split; [reflexivity|]. split; [|exact I]. split; [exact W|]. split; [intros EM; specialize (HL EM); lia|consts; lia].
  - rewrite (gets_ok q (lost ++ acked) W). cbn [bind].
    destruct (remove_upto_refines Z 0 q (least_unacked acked lost) W) as (q' & E & W' & A).
    rewrite E. exists q'. split; [reflexivity|].
    destruct (upto_span Z 0 q (least_unacked acked lost) q' W E) as (_ & Hbelow & _ & Hspan).
    split; [split; [exact W'|split; [|exact Hl0]]|split; [|exact Hbelow]].
    + intros EM. destruct (Hspan EM) as (L1 & _).
      assert (EM0 : pq_is_empty q = false).
      { destruct (pq_is_empty q) eqn:EM0; auto. exfalso.
        apply (wf_empty_iff Z 0 q W) in EM0.
        assert (X : pq_is_empty q' = true).
        { apply (wf_empty_iff Z 0 q' W'). rewrite A. unfold spec_upto. rewrite EM0. reflexivity. }
        congruence. }
      specialize (HL EM0). lia.
    + destruct (C12_Layer1.slots_span Z 0 q' W') as [(_ & S0 & _)|(EM & _ & _ & _)]; [lia|].
      destruct (Hspan EM) as (L1 & F1 & _ & S1 & _).
      assert (EM0 : pq_is_empty q = false).
      { destruct (pq_is_empty q) eqn:EM0; auto. exfalso.
        apply (wf_empty_iff Z 0 q W) in EM0.
        assert (X : pq_is_empty q' = true).
        { apply (wf_empty_iff Z 0 q' W'). rewrite A. unfold spec_upto. rewrite EM0. reflexivity. }
        congruence. }
      specialize (HL EM0). lia.
  - exists q. split; [reflexivity|]. split; [|exact I]. split; [exact W|]. split; auto.
Qed.

Lemma sent_increasing_cons : forall e t l0, sent_increasing_from l0 (e :: t) = true ->
  sent_increasing_from l0 [e] = true /\ sent_increasing_from (last_sent_of l0 [e]) t = true.
Proof. intros [pn b r|a l|s] t l0 H; cbn [sent_increasing_from last_sent_of] in *; try (split; [reflexivity|exact H]). lia. Qed.

Lemma bk_run_inv : forall es q l0, bk_inv q l0 -> sent_increasing_from l0 es = true ->
  exists q', bk_run q es = Ok q' /\ bk_inv q' (last_sent_of l0 es).
Proof.
  induction es as [|e t IH]; intros q l0 Hinv Hinc; cbn [bk_run].
  - exists q. auto.
  - destruct (sent_increasing_cons e t l0 Hinc) as (H1 & H2).
    destruct (bk_step_inv q l0 e Hinv H1) as (q1 & E1 & I1 & _). rewrite E1. cbn [bind].
    destruct (IH q1 _ I1 H2) as (q2 & E2 & I2). exists q2. split; [exact E2|].
    replace (last_sent_of l0 (e :: t)) with (last_sent_of (last_sent_of l0 [e]) t); [exact I2|].
    destruct e; reflexivity.
Qed.

Lemma bk_run_app : forall es1 es2 q, bk_run q (es1 ++ es2) = (q1 <- bk_run q es1 ;; bk_run q1 es2).
Proof.
  induction es1 as [|e t IH]; intros; cbn [bk_run app bind]; auto.
  destruct (bk_step q e); cbn [bind]; auto.
Qed.

Lemma sent_increasing_app : forall es1 es2 l0, sent_increasing_from l0 (es1 ++ es2) = true ->
  sent_increasing_from l0 es1 = true /\ sent_increasing_from (last_sent_of l0 es1) es2 = true.
Proof.
  induction es1 as [|e t IH]; intros es2 l0 H; cbn [app sent_increasing_from last_sent_of] in *; auto.
  destruct e; auto. apply andb_prop in H. destruct H as (H1 & H2). destruct (IH _ _ H2). rewrite H1. auto.
Qed.

Lemma quic_consistent_increasing : forall es l0 out m,
  quic_consistent_from l0 out m es = true -> sent_increasing_from l0 es = true.
Proof.
  induction es as [|e t IH]; intros l0 out m H; cbn [quic_consistent_from sent_increasing_from] in *; auto.
  destruct e as [pn b r|a l|s].
  - rewrite !andb_true_iff in H. destruct H as (((A & B) & C) & D). rewrite A, B. cbn [andb]. eapply IH; eauto.
  - rewrite !andb_true_iff in H. destruct H as (_ & D). eapply IH; eauto.
  - rewrite !andb_true_iff in H. destruct H as (_ & D). eapply IH; eauto.
Qed.
