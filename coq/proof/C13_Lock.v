(* C13 proofs, lock discipline (model/C13_Lock.v). *)
From Hy Require Import lib.Bytes lib.Res model.C13_Salamander model.C13_Lock proof.C13_Salamander.
From Coq Require Import ZArith List.
Import ListNotations.

Definition free := mkL false false.

Section LockProofs.

Variable H : list byte -> list byte.

(* what a call returns when nothing blocks it: the sequential model's value *)
Definition ret_of (psk : list byte) (c : call) (r : ret) : Prop :=
  match c with
  | CallW salt p uerr => exists wire n, r = RetW wire n uerr /\ write_to H psk salt p uerr = Ok (wire, n, uerr) /\
                                        n = match uerr with None => length p | Some _ => O end
  | CallR plen e => exists o, r = RetR o /\ read_iter H psk plen e = Ok o
  end.

Lemma step_call_free : forall psk c, exists r, step_call H psk c free = Ok (r, free) /\ ret_of psk c r.
Proof.
  intros psk [salt p uerr|plen e]; cbn [step_call].
  - unfold write_to_lk, write_to. cbn [wr_held rd_held free].
    destruct (obfuscate_total H psk salt p udpBufferSize) as [r E]. rewrite E. cbn [bind].
    eexists. split; [reflexivity|]. cbn [ret_of]. unfold write_to. rewrite E. cbn [bind].
    do 2 eexists. split; [reflexivity|]. split; reflexivity.
  - unfold read_iter_lk. cbn [wr_held rd_held free]. rewrite read_iter_eq. cbn [bind].
    eexists. split; [reflexivity|]. cbn [ret_of]. rewrite read_iter_eq. eexists. split; reflexivity.
Qed.

Lemma locks_released : forall psk cs, exists rets,
  run_calls H psk cs free = Ok (rets, free) /\ Forall2 (ret_of psk) cs rets /\ ~ In Stuck rets.
Proof.
  intros psk cs. induction cs as [|c t IH].
  - exists []. cbn. repeat split; auto.
  - destruct (step_call_free psk c) as [r [E R]]. destruct IH as [rets [E2 [F NS]]].
    exists (r :: rets). cbn [run_calls]. rewrite E. cbn [bind snd fst]. rewrite E2. cbn [bind snd fst].
    split; [reflexivity|]. split; [constructor; assumption|].
    intros [->|HIn]; [|exact (NS HIn)].
    destruct c; cbn [ret_of] in R.
    + destruct R as [w [n [R _]]]. discriminate.
    + destruct R as [o [R _]]. discriminate.
Qed.

(* the other direction (the outcome Stuck is real in the model): on a mutex left held every later
   call of that kind is stuck, whatever its arguments, and stays so *)
Lemma leaked_write_lock_blocks : forall psk rd cs rets l,
  run_calls H psk cs (mkL rd true) = Ok (rets, l) ->
  wr_held l = true /\ Forall2 (fun c r => match c with CallW _ _ _ => r = Stuck | CallR _ _ => True end) cs rets.
Proof.
  intros psk rd cs. revert rd. induction cs as [|c t IH]; intros rd rets l E.
  - cbn in E. inversion E; subst. split; [reflexivity|constructor].
  - cbn [run_calls] in E. destruct c as [salt p uerr|plen e]; cbn [step_call] in E.
    + unfold write_to_lk in E. cbn [wr_held] in E. cbn [bind snd fst] in E.
      destruct (run_calls H psk t (mkL rd true)) as [[rs l']| |] eqn:E2; cbn [bind] in E; try discriminate.
      inversion E; subst. destruct (IH _ _ _ E2) as [A B]. split; [exact A|constructor; auto].
    + unfold read_iter_lk in E. cbn [rd_held wr_held] in E. destruct rd.
      * cbn [bind snd fst] in E.
        destruct (run_calls H psk t (mkL true true)) as [[rs l']| |] eqn:E2; cbn [bind] in E; try discriminate.
        inversion E; subst. destruct (IH _ _ _ E2) as [A B]. split; [exact A|constructor; auto].
      * rewrite read_iter_eq in E. cbn [bind snd fst] in E.
        destruct (run_calls H psk t (mkL false true)) as [[rs l']| |] eqn:E2; cbn [bind] in E; try discriminate.
        inversion E; subst. destruct (IH _ _ _ E2) as [A B]. split; [exact A|constructor; auto].
Qed.

End LockProofs.
