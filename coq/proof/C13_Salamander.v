(* C13 proofs: closed forms of the model's functions, hash-parametric transparency, junk
   invisibility over arbitrary packet histories, totality, reader-schedule independence. *)
From Hy Require Import lib.Bytes lib.Res lib.Blake2b model.C13_Salamander.
From Coq Require Import ZArith Lia ZifyBool ZifyNat ZifyN.
Ltac Zify.zify_post_hook ::= Z.div_mod_to_equations.

Lemma salt_len_eq : smSaltLen = 8%nat. Proof. reflexivity. Qed.
Lemma key_len_eq : smKeyLen = 32%nat. Proof. reflexivity. Qed.
Lemma psk_min_eq : smPSKMinLen = 4%nat. Proof. reflexivity. Qed.
Lemma buf_size_eq : udpBufferSize = (2040 + 8)%nat. Proof. reflexivity. Qed.

(* ---- specification-level closed forms (pure functions) ---- *)

(* payload byte j (counted from i) XOR key byte (i+j) mod 32 *)
Fixpoint xor_cycle (k : list byte) (i : N) (p : list byte) : list byte :=
  match p with
  | [] => []
  | c :: t => bxor c (nth (N.to_nat (i mod 32)) k x00) :: xor_cycle k (i + 1) t
  end.

(* the payload a wire packet w decodes to under key psk *)
Definition plain (H : list byte -> list byte) (psk w : list byte) : list byte :=
  xor_cycle (H (psk ++ firstn 8 w)) 0 (skipn 8 w).

(* a received datagram is accepted by Deobfuscate into a plen-byte buffer *)
Definition accepts (plen : nat) (w : list byte) : bool :=
  Nat.ltb 8 (length w) && Nat.leb (length w - 8) plen.

(* what one incoming event makes ReadFrom return, if anything *)
Definition surface (H : list byte -> list byte) (psk : list byte) (plen : nat) (e : uev) : option rres :=
  let w := firstn 2048 (u_data e) in
  if accepts plen w then Some (mkR (length w - 8) (plain H psk w) (u_addr e) (u_err e))
  else match u_err e with
       | None => None
       | Some x => Some (mkR 0 [] (u_addr e) (Some x))
       end.

Definition olist {A} (o : option A) : list A := match o with Some a => [a] | None => [] end.

(* ---- the XOR loop ---- *)

Lemma xor_loop_ok : forall k p i room, (length p <= room)%nat ->
  xor_loop k i p room = Ok (xor_cycle k i p).
Proof.
  intros k p. induction p as [|c t IH]; intros i room Hr; [reflexivity|].
  cbn [length] in Hr. destruct room as [|r]; [lia|].
  cbn [xor_loop xor_cycle]. rewrite IH by lia. reflexivity.
Qed.

Lemma xor_loop_short : forall k p i room, (room < length p)%nat ->
  xor_loop k i p room = Panic 2.
Proof.
  intros k p. induction p as [|c t IH]; intros i room Hr; cbn [length] in Hr; [lia|].
  destruct room as [|r]; [reflexivity|]. cbn [xor_loop]. rewrite IH by lia. reflexivity.
Qed.

Lemma xor_cycle_length : forall k p i, length (xor_cycle k i p) = length p.
Proof. intros k p. induction p as [|c t IH]; intros i; cbn [xor_cycle length]; auto. Qed.

Lemma xor_cycle_invol : forall k p i, xor_cycle k i (xor_cycle k i p) = p.
Proof.
  intros k p. induction p as [|c t IH]; intros i; cbn [xor_cycle]; [reflexivity|].
  rewrite bxor_involutive, IH. reflexivity.
Qed.

Lemma xor_cycle_nth : forall k p i j, (j < length p)%nat ->
  nth j (xor_cycle k i p) x00 =
  bxor (nth j p x00) (nth (N.to_nat ((i + N.of_nat j) mod 32)) k x00).
Proof.
  intros k p. induction p as [|c t IH]; intros i j Hj; cbn [length] in Hj; [lia|].
  destruct j as [|j]; cbn [xor_cycle nth].
  - rewrite N.add_0_r. reflexivity.
  - rewrite IH by lia. do 3 f_equal. lia.
Qed.

Lemma idx_mod : forall j, N.to_nat ((0 + N.of_nat j) mod 32) = (j mod 32)%nat.
Proof. intros j. lia. Qed.

Section Proofs.

Variable H : list byte -> list byte.

(* ---- Obfuscate / Deobfuscate ---- *)

Lemma obfuscate_ok : forall psk salt p cap, length salt = 8%nat -> (length p + 8 <= cap)%nat ->
  obfuscate H psk salt p cap = Ok ((length p + 8)%nat, salt ++ xor_cycle (H (psk ++ salt)) 0 p).
Proof.
  intros psk salt p cap Hs Hc. unfold obfuscate, key_of. rewrite salt_len_eq.
  destruct (Nat.ltb cap (length p + 8)) eqn:E1; [apply Nat.ltb_lt in E1; lia|].
  destruct (Nat.ltb cap 8) eqn:E2; [apply Nat.ltb_lt in E2; lia|].
  rewrite xor_loop_ok by lia. reflexivity.
Qed.

Lemma obfuscate_short : forall psk salt p cap, (cap < length p + 8)%nat ->
  obfuscate H psk salt p cap = Ok (0%nat, []).
Proof.
  intros psk salt p cap Hc. unfold obfuscate. rewrite salt_len_eq.
  destruct (Nat.ltb cap (length p + 8)) eqn:E1; [reflexivity|apply Nat.ltb_ge in E1; lia].
Qed.

Lemma obfuscate_total : forall psk salt p cap, exists r, obfuscate H psk salt p cap = Ok r.
Proof.
  intros psk salt p cap. destruct (Nat.lt_ge_cases cap (length p + 8)) as [Hc|Hc].
  - rewrite obfuscate_short by lia. eauto.
  - unfold obfuscate, key_of. rewrite salt_len_eq.
    destruct (Nat.ltb cap (length p + 8)) eqn:E1; [apply Nat.ltb_lt in E1; lia|].
    destruct (Nat.ltb cap 8) eqn:E2; [apply Nat.ltb_lt in E2; lia|].
    rewrite xor_loop_ok by lia. cbn [bind]. eauto.
Qed.

Lemma deobfuscate_eq : forall psk w cap,
  deobfuscate H psk w cap =
  Ok (if accepts cap w then ((length w - 8)%nat, plain H psk w) else (0%nat, [])).
Proof.
  intros psk w cap. unfold deobfuscate, accepts, plain, key_of, slice_to. rewrite salt_len_eq.
  destruct (Nat.ltb 8 (length w)) eqn:E1; cbn [andb].
  - apply Nat.ltb_lt in E1.
    destruct (Nat.leb (length w - 8) cap) eqn:E2.
    + apply Nat.leb_le in E2.
      destruct ((Z.of_nat (length w) - Z.of_nat 8 <=? 0)%Z || (Z.of_nat cap <? Z.of_nat (length w) - Z.of_nat 8)%Z) eqn:E3; [lia|].
      destruct (Nat.leb 8 (length w)) eqn:E4; [|apply Nat.leb_gt in E4; lia].
      cbn [bind]. rewrite xor_loop_ok by (rewrite skipn_length; lia).
      cbn [bind]. do 3 f_equal. lia.
    + apply Nat.leb_gt in E2.
      destruct ((Z.of_nat (length w) - Z.of_nat 8 <=? 0)%Z || (Z.of_nat cap <? Z.of_nat (length w) - Z.of_nat 8)%Z) eqn:E3; [reflexivity|lia].
  - apply Nat.ltb_ge in E1.
    destruct ((Z.of_nat (length w) - Z.of_nat 8 <=? 0)%Z || (Z.of_nat cap <? Z.of_nat (length w) - Z.of_nat 8)%Z) eqn:E3; [reflexivity|lia].
Qed.

Lemma plain_length : forall psk w, length (plain H psk w) = (length w - 8)%nat.
Proof. intros. unfold plain. rewrite xor_cycle_length, skipn_length. reflexivity. Qed.

(* ---- one loop iteration of ReadFrom ---- *)

Lemma read_iter_eq : forall psk plen e, read_iter H psk plen e = Ok (surface H psk plen e).
Proof.
  intros psk plen e. unfold read_iter, surface. rewrite buf_size_eq. change (2040 + 8)%nat with 2048%nat.
  set (w := firstn 2048 (u_data e)).
  destruct (Nat.leb (length w) 0) eqn:E0.
  - apply Nat.leb_le in E0. unfold accepts.
    destruct (Nat.ltb 8 (length w)) eqn:E1; [apply Nat.ltb_lt in E1; lia|]. cbn [andb].
    destruct (u_err e); reflexivity.
  - rewrite deobfuscate_eq. cbn [bind]. unfold accepts.
    destruct (Nat.ltb 8 (length w)) eqn:E1; cbn [andb].
    + apply Nat.ltb_lt in E1. destruct (Nat.leb (length w - 8) plen) eqn:E2; cbn [fst snd].
      * destruct (Nat.ltb 0 (length w - 8)) eqn:E3; [|apply Nat.ltb_ge in E3; lia]. reflexivity.
      * cbn [Nat.ltb Nat.leb orb]. destruct (u_err e); reflexivity.
    + cbn [fst snd Nat.ltb Nat.leb orb]. destruct (u_err e); reflexivity.
Qed.

Lemma surface_junk : forall psk plen e, u_err e = None -> (length (u_data e) <= 8)%nat ->
  surface H psk plen e = None.
Proof.
  intros psk plen e He Hl. unfold surface, accepts.
  assert (length (firstn 2048 (u_data e)) <= 8)%nat by (rewrite firstn_length; lia).
  destruct (Nat.ltb 8 (length (firstn 2048 (u_data e)))) eqn:E; [apply Nat.ltb_lt in E; lia|].
  cbn [andb]. rewrite He. reflexivity.
Qed.

Lemma surface_error : forall psk plen e x, u_err e = Some x ->
  exists r, surface H psk plen e = Some r /\ r_err r = Some x /\ r_addr r = u_addr e.
Proof.
  intros psk plen e x He. unfold surface. destruct (accepts plen (firstn 2048 (u_data e))).
  - eexists. split; [reflexivity|]. cbn. auto.
  - rewrite He. eexists. split; [reflexivity|]. cbn. auto.
Qed.

Lemma surface_some_ok : forall psk plen e r, surface H psk plen e = Some r -> r_err r = None ->
  let w := firstn 2048 (u_data e) in
  (8 < length w)%nat /\ r_n r = (length w - 8)%nat /\ r_data r = plain H psk w /\
  length (r_data r) = r_n r /\ (r_n r <= plen)%nat /\ r_addr r = u_addr e /\ u_err e = None.
Proof.
  intros psk plen e r Hs Hr. cbv zeta. unfold surface in Hs.
  destruct (accepts plen (firstn 2048 (u_data e))) eqn:Ea.
  - inversion Hs; subst r; clear Hs. cbn [r_n r_data r_addr r_err] in *. unfold accepts in Ea.
    apply andb_prop in Ea. destruct Ea as [E1 E2]. apply Nat.ltb_lt in E1. apply Nat.leb_le in E2.
    rewrite plain_length. repeat split; auto.
  - destruct (u_err e); [|discriminate]. inversion Hs; subst r. cbn [r_err] in Hr. discriminate.
Qed.

Lemma counts_read : forall psk plen e r,
  read_iter H psk plen e = Ok (Some r) -> r_err r = None ->
  let w := firstn 2048 (u_data e) in
  (8 < length w)%nat /\ r_n r = (length w - 8)%nat /\ r_data r = plain H psk w /\
  length (r_data r) = r_n r /\ (r_n r <= plen)%nat /\ r_addr r = u_addr e /\ u_err e = None.
Proof.
  intros psk plen e r Hi Hr. rewrite read_iter_eq in Hi. inversion Hi as [Hs].
  apply surface_some_ok; assumption.
Qed.

Lemma error_surfaces : forall psk plen e x, u_err e = Some x ->
  exists r, read_iter H psk plen e = Ok (Some r) /\ r_err r = Some x /\ r_addr r = u_addr e.
Proof.
  intros psk plen e x He. destruct (surface_error psk plen e x He) as (r & Hs & Hr).
  exists r. split; [rewrite read_iter_eq, Hs; reflexivity|exact Hr].
Qed.

(* ---- ReadFrom, successive ReadFrom calls ---- *)

Lemma read_from_cons : forall psk plen e rest,
  read_from H psk plen (e :: rest) =
  match surface H psk plen e with
  | Some r => Ok (Some (r, rest))
  | None => read_from H psk plen rest
  end.
Proof. intros. cbn [read_from]. rewrite read_iter_eq. cbn [bind]. reflexivity. Qed.

Lemma read_from_total : forall psk plen evs, exists o, read_from H psk plen evs = Ok o.
Proof.
  intros psk plen evs. induction evs as [|e rest IH]; [cbn; eauto|].
  rewrite read_from_cons. destruct (surface H psk plen e); eauto.
Qed.

Lemma read_seq_nil : forall psk plens, read_seq H psk plens [] = Ok [].
Proof. intros psk [|pl t]; reflexivity. Qed.

Lemma read_seq_cons : forall psk pl t e rest,
  read_seq H psk (pl :: t) (e :: rest) =
  match surface H psk pl e with
  | Some r => rs <- read_seq H psk t rest ;; Ok (r :: rs)
  | None => read_seq H psk (pl :: t) rest
  end.
Proof.
  intros. cbn [read_seq]. rewrite read_from_cons.
  destruct (surface H psk pl e); cbn [bind]; reflexivity.
Qed.

Lemma read_seq_total : forall psk evs plens, exists rs, read_seq H psk plens evs = Ok rs.
Proof.
  intros psk evs. induction evs as [|e rest IH]; intros plens.
  - rewrite read_seq_nil. eauto.
  - destruct plens as [|pl t]; [cbn; eauto|]. rewrite read_seq_cons.
    destruct (surface H psk pl e).
    + destruct (IH t) as [rs ->]. cbn [bind]. eauto.
    + apply IH.
Qed.

(* constant buffer length: k successive calls return the first k surfaced packets *)
Lemma read_seq_const : forall psk pl evs k,
  read_seq H psk (repeat pl k) evs = Ok (firstn k (flat_map (fun e => olist (surface H psk pl e)) evs)).
Proof.
  intros psk pl evs. induction evs as [|e rest IH]; intros k.
  - rewrite read_seq_nil. cbn. rewrite firstn_nil. reflexivity.
  - destruct k as [|k]; [reflexivity|]. cbn [repeat]. rewrite read_seq_cons. cbn [flat_map].
    destruct (surface H psk pl e) as [r|]; cbn [olist app].
    + rewrite IH. cbn [bind firstn]. reflexivity.
    + change (pl :: repeat pl k) with (repeat pl (S k)). apply IH.
Qed.

(* junk is invisible: a datagram of at most 8 bytes (no error) anywhere in the incoming sequence
   changes nothing of what any sequence of ReadFrom calls returns *)
Lemma junk_invisible : forall psk evs1 evs2 j plens, u_err j = None -> (length (u_data j) <= 8)%nat ->
  read_seq H psk plens (evs1 ++ j :: evs2) = read_seq H psk plens (evs1 ++ evs2).
Proof.
  intros psk evs1 evs2 j plens He Hl. revert plens.
  induction evs1 as [|e es IH]; intros plens; cbn [app].
  - destruct plens as [|pl t]; [reflexivity|]. rewrite read_seq_cons, surface_junk by assumption. reflexivity.
  - destruct plens as [|pl t]; [reflexivity|]. rewrite !read_seq_cons.
    destruct (surface H psk pl e); [rewrite IH; reflexivity|apply IH].
Qed.

(* error-free streams: what surfaces is the decoding of exactly the packets longer than 8 bytes *)
Definition recv (w : list byte * N) : uev := mkEv (fst w) (snd w) None.
Definition decoded (psk : list byte) (w : list byte * N) : rres :=
  let d := firstn 2048 (fst w) in mkR (length d - 8) (plain H psk d) (snd w) None.

Lemma drops_junk : forall psk pl ws k, (2040 <= pl)%nat ->
  read_seq H psk (repeat pl k) (map recv ws) =
  Ok (firstn k (map (decoded psk) (filter (fun w => Nat.ltb 8 (length (fst w))) ws))).
Proof.
  intros psk pl ws k Hp. rewrite read_seq_const. do 2 f_equal.
  induction ws as [|w t IH]; [reflexivity|]. cbn [map flat_map filter].
  rewrite IH. clear IH. unfold surface, recv, accepts. cbn [u_data u_addr u_err].
  assert (Hf: length (firstn 2048 (fst w)) = Nat.min 2048 (length (fst w))) by apply firstn_length.
  destruct (Nat.ltb 8 (length (fst w))) eqn:E1.
  - apply Nat.ltb_lt in E1.
    destruct (Nat.ltb 8 (length (firstn 2048 (fst w)))) eqn:E2; [|apply Nat.ltb_ge in E2; lia].
    destruct (Nat.leb (length (firstn 2048 (fst w)) - 8) pl) eqn:E3; [|apply Nat.leb_gt in E3; lia].
    reflexivity.
  - apply Nat.ltb_ge in E1.
    destruct (Nat.ltb 8 (length (firstn 2048 (fst w)))) eqn:E2; [apply Nat.ltb_lt in E2; lia|].
    reflexivity.
Qed.

(* ---- WriteTo ---- *)

Lemma write_to_ok : forall psk salt p uerr, length salt = 8%nat -> (length p <= 2040)%nat ->
  write_to H psk salt p uerr =
  Ok (salt ++ xor_cycle (H (psk ++ salt)) 0 p, match uerr with None => length p | Some _ => 0%nat end, uerr).
Proof.
  intros psk salt p uerr Hs Hp. unfold write_to. rewrite buf_size_eq.
  rewrite obfuscate_ok by lia. cbn [bind fst snd].
  rewrite firstn_all2; [reflexivity|]. rewrite app_length, xor_cycle_length. lia.
Qed.

Lemma write_to_oversize : forall psk salt p uerr, (2040 < length p)%nat ->
  write_to H psk salt p uerr = Ok ([], match uerr with None => length p | Some _ => 0%nat end, uerr).
Proof.
  intros psk salt p uerr Hp. unfold write_to. rewrite buf_size_eq.
  rewrite obfuscate_short by lia. reflexivity.
Qed.

Lemma write_to_counts : forall psk salt p uerr, exists wire,
  write_to H psk salt p uerr = Ok (wire, match uerr with None => length p | Some _ => 0%nat end, uerr).
Proof.
  intros psk salt p uerr. unfold write_to.
  destruct (obfuscate_total psk salt p udpBufferSize) as [r ->]. cbn [bind]. eauto.
Qed.

(* ---- transparency ---- *)

Lemma plain_wire : forall psk salt p, length salt = 8%nat ->
  plain H psk (salt ++ xor_cycle (H (psk ++ salt)) 0 p) = p.
Proof.
  intros psk salt p Hs. unfold plain.
  rewrite firstn_app, firstn_all2 by lia. replace (8 - length salt)%nat with 0%nat by lia.
  cbn [firstn]. rewrite app_nil_r.
  rewrite skipn_app, skipn_all2 by lia. replace (8 - length salt)%nat with 0%nat by lia.
  cbn [skipn app]. apply xor_cycle_invol.
Qed.

Lemma surface_wire : forall psk salt p plen addr, length salt = 8%nat ->
  (1 <= length p <= 2040)%nat -> (length p <= plen)%nat ->
  surface H psk plen (mkEv (salt ++ xor_cycle (H (psk ++ salt)) 0 p) addr None) =
  Some (mkR (length p) p addr None).
Proof.
  intros psk salt p plen addr Hs Hp Hpl. unfold surface. cbn [u_data u_addr u_err].
  set (w := salt ++ xor_cycle (H (psk ++ salt)) 0 p).
  assert (Hw: length w = (length p + 8)%nat) by (unfold w; rewrite app_length, xor_cycle_length; lia).
  rewrite firstn_all2 by lia. unfold accepts. rewrite Hw.
  destruct (Nat.ltb 8 (length p + 8)) eqn:E1; [|apply Nat.ltb_ge in E1; lia].
  destruct (Nat.leb (length p + 8 - 8) plen) eqn:E2; [|apply Nat.leb_gt in E2; lia].
  cbn [andb]. unfold w. rewrite plain_wire by assumption.
  replace (length p + 8 - 8)%nat with (length p) by lia. reflexivity.
Qed.

Lemma transparent : forall psk o salt p plen addr,
  new_obfs psk = Ok o -> length salt = 8%nat -> (1 <= length p <= 2040)%nat -> (length p <= plen)%nat ->
  exists wire,
    write_to H o salt p None = Ok (wire, length p, None) /\
    read_from H o plen [mkEv wire addr None] = Ok (Some (mkR (length p) p addr None, [])).
Proof.
  intros psk o salt p plen addr Hn Hs Hp Hpl.
  assert (o = psk) as ->.
  { unfold new_obfs in Hn. destruct (Nat.ltb (length psk) smPSKMinLen); congruence. }
  eexists. split; [apply write_to_ok; lia|].
  rewrite read_from_cons, surface_wire by assumption. reflexivity.
Qed.

(* ---- end to end: valid packets and junk, any mix ---- *)

Inductive net_item :=
| Sent (salt p : list byte) (addr : N)     (* written through a wrapper with the same key *)
| Junk (w : list byte) (addr : N).         (* anything of at most 8 bytes *)

Definition item_ok (pl : nat) (it : net_item) : Prop :=
  match it with
  | Sent salt p _ => length salt = 8%nat /\ (1 <= length p <= 2040)%nat /\ (length p <= pl)%nat
  | Junk w _ => (length w <= 8)%nat
  end.

Definition item_ev (psk : list byte) (it : net_item) : uev :=
  match it with
  | Sent salt p a =>
      match write_to H psk salt p None with
      | Ok (wire, _, _) => mkEv wire a None
      | _ => mkEv [] a None
      end
  | Junk w a => mkEv w a None
  end.

Definition item_out (it : net_item) : list rres :=
  match it with
  | Sent _ p a => [mkR (length p) p a None]
  | Junk _ _ => []
  end.

Lemma end_to_end : forall psk pl items k, Forall (item_ok pl) items ->
  read_seq H psk (repeat pl k) (map (item_ev psk) items) = Ok (firstn k (flat_map item_out items)).
Proof.
  intros psk pl items k Hok. rewrite read_seq_const. do 2 f_equal.
  induction Hok as [|it t Hit _ IH]; [reflexivity|]. cbn [map flat_map]. rewrite IH. f_equal.
  destruct it as [salt p a|w a]; cbn [item_ok item_ev item_out] in *.
  - destruct Hit as (Hs & Hp & Hpl). rewrite write_to_ok by lia.
    rewrite surface_wire by assumption. reflexivity.
  - rewrite surface_junk; [reflexivity|reflexivity|assumption].
Qed.

(* ---- concurrent readers ---- *)

Lemma run_readers_const : forall psk pl sched evs, exists log,
  run_readers H psk (fun _ => pl) sched evs = Ok (log, skipn (length sched) evs) /\
  map snd log = flat_map (fun e => olist (surface H psk pl e)) (firstn (length sched) evs).
Proof.
  intros psk pl sched. induction sched as [|rd s IH]; intros evs.
  - exists []. split; reflexivity.
  - destruct evs as [|e rest].
    + exists []. split; reflexivity.
    + cbn [run_readers]. rewrite read_iter_eq. cbn [bind].
      destruct (IH rest) as (log & -> & Hl). cbn [bind fst snd length skipn firstn flat_map].
      destruct (surface H psk pl e) as [r|]; eexists; (split; [reflexivity|]); cbn [map snd olist app]; rewrite Hl; reflexivity.
Qed.

Lemma surfaced_length : forall psk pl evs,
  (length (flat_map (fun e => olist (surface H psk pl e)) evs) <= length evs)%nat.
Proof.
  intros psk pl evs. induction evs as [|e t IH]; [cbn; lia|].
  cbn [flat_map]. rewrite app_length. destruct (surface H psk pl e); cbn [olist length]; lia.
Qed.

(* the surfaced sequence does not depend on which reader runs which iteration, and once the
   incoming queue is drained it is exactly what one sequential reader would have been given *)
Lemma schedule_independent : forall psk pl s1 s2 evs, length s1 = length s2 ->
  exists l1 l2 rest,
    run_readers H psk (fun _ => pl) s1 evs = Ok (l1, rest) /\
    run_readers H psk (fun _ => pl) s2 evs = Ok (l2, rest) /\
    map snd l1 = map snd l2.
Proof.
  intros psk pl s1 s2 evs Hl.
  destruct (run_readers_const psk pl s1 evs) as (l1 & E1 & M1).
  destruct (run_readers_const psk pl s2 evs) as (l2 & E2 & M2).
  exists l1, l2, (skipn (length s1) evs). rewrite E1, E2, <- Hl. repeat split. congruence.
Qed.

Lemma concurrent_as_sequential : forall psk pl sched evs, (length evs <= length sched)%nat ->
  exists log,
    run_readers H psk (fun _ => pl) sched evs = Ok (log, []) /\
    read_seq H psk (repeat pl (S (length evs))) evs = Ok (map snd log).
Proof.
  intros psk pl sched evs Hl.
  destruct (run_readers_const psk pl sched evs) as (log & E & M).
  exists log. rewrite skipn_all2 in E by lia. split; [exact E|].
  rewrite M, (firstn_all2 evs) by lia. rewrite read_seq_const.
  rewrite firstn_all2; [reflexivity|]. pose proof (surfaced_length psk pl evs). lia.
Qed.

(* ---- totality: no Go panic is reachable ---- *)

Lemma never_panics : forall psk salt p inp cap plens evs uerr,
  (exists r, obfuscate H psk salt p cap = Ok r) /\
  (exists r, deobfuscate H psk inp cap = Ok r) /\
  (exists r, write_to H psk salt p uerr = Ok r) /\
  (exists r, read_seq H psk plens evs = Ok r).
Proof.
  intros. split; [apply obfuscate_total|]. split; [rewrite deobfuscate_eq; eauto|].
  split; [destruct (write_to_counts psk salt p uerr) as [w ->]; eauto|apply read_seq_total].
Qed.

End Proofs.

(* ---- key length ---- *)

Lemma short_key_refused : forall psk, (length psk < 4)%nat -> new_obfs psk = Err EInvalid.
Proof.
  intros psk Hl. unfold new_obfs. rewrite psk_min_eq.
  destruct (Nat.ltb (length psk) 4) eqn:E; [reflexivity|]. apply Nat.ltb_ge in E. lia.
Qed.

Lemma key_accepted_iff : forall psk, new_obfs psk = Ok psk <-> (4 <= length psk)%nat.
Proof.
  intros psk. unfold new_obfs. rewrite psk_min_eq.
  destruct (Nat.ltb (length psk) 4) eqn:E.
  - apply Nat.ltb_lt in E. split; [discriminate|lia].
  - apply Nat.ltb_ge in E. split; auto.
Qed.


(* ---- the key rule is over BYTES ----
   A key is a list of bytes; new_obfs looks at their number only.  So the rule cannot depend on what the
   bytes spell when read as text (a multi-byte UTF-8 sequence is as many bytes as it has, not one
   character; bytes that are no UTF-8 at all, NULs and white space count like any other byte), and every
   key of 4 or more bytes gives a working socket pair. *)

Lemma key_refused_iff : forall psk, new_obfs psk = Err EInvalid <-> (length psk < 4)%nat.
Proof.
  intros psk. split; [|apply short_key_refused].
  unfold new_obfs. rewrite psk_min_eq.
  destruct (Nat.ltb (length psk) 4) eqn:E; [apply Nat.ltb_lt in E; auto|discriminate].
Qed.

Lemma key_rule_bytes_only : forall psk psk', length psk = length psk' ->
  (new_obfs psk = Ok psk <-> new_obfs psk' = Ok psk') /\
  (new_obfs psk = Err EInvalid <-> new_obfs psk' = Err EInvalid).
Proof.
  intros psk psk' Hl. split; [rewrite !key_accepted_iff; lia|].
  rewrite !key_refused_iff. lia.
Qed.


Lemma any_key_round_trips : forall (H : list byte -> list byte) psk salt p plen addr,
  (4 <= length psk)%nat -> length salt = 8%nat -> (1 <= length p <= 2040)%nat -> (length p <= plen)%nat ->
  new_obfs psk = Ok psk /\
  exists wire,
    write_to H psk salt p None = Ok (wire, length p, None) /\
    read_from H psk plen [mkEv wire addr None] = Ok (Some (mkR (length p) p addr None, [])).
Proof.
  intros H psk salt p plen addr Hk Hs Hp Hpl.
  assert (Hn : new_obfs psk = Ok psk) by (apply key_accepted_iff; exact Hk).
  split; [exact Hn|]. exact (transparent H psk psk salt p plen addr Hn Hs Hp Hpl).
Qed.

(* Not vacuous, and not the rule "at least 4 characters": count the characters of a key as a UTF-8
   reader does for well-formed text (every byte that is not a continuation byte 10xxxxxx starts one).
   The 4-byte keys c3 a4 c3 b6 (two characters) and f0 9f a6 8e (one character) are accepted by the
   model and would be refused by the character rule; with them the wire packet is the one hashlib
   computes for those key bytes. *)
Definition is_cont (b : byte) : bool := N.eqb (N.land (b2n b) 192) 128.
Definition chars (l : list byte) : nat := length (filter (fun b => negb (is_cont b)) l).
Definition new_obfs_chars (psk : list byte) : Res (list byte) :=
  if Nat.ltb (chars psk) smPSKMinLen then Err EInvalid else Ok psk.

Example key_rule_is_not_characters :
  let k2 := [xc3;xa4;xc3;xb6] in let k1 := [xf0;x9f;xa6;x8e] in
  (chars k2 = 2 /\ new_obfs k2 = Ok k2 /\ new_obfs_chars k2 = Err EInvalid) /\
  (chars k1 = 1 /\ new_obfs k1 = Ok k1 /\ new_obfs_chars k1 = Err EInvalid) /\
  (* a key of three bytes is refused under both rules, whatever it spells *)
  new_obfs [xe6;x97;xa5] = Err EInvalid /\ new_obfs [x00;x00;x00] = Err EInvalid.
Proof. vm_compute. repeat split. Qed.


(* ---- wire format with the real hash ---- *)

Lemma wire_format : forall psk salt p, length salt = 8%nat -> (length p <= 2040)%nat ->
  exists c,
    write_to blake2b256 psk salt p None = Ok (salt ++ c, length p, None) /\
    length c = length p /\
    length (blake2b256 (psk ++ salt)) = 32%nat /\
    forall i, (i < length p)%nat ->
      nth i c x00 = bxor (nth i p x00) (nth (i mod 32) (blake2b256 (psk ++ salt)) x00).
Proof.
  intros psk salt p Hs Hp. exists (xor_cycle (blake2b256 (psk ++ salt)) 0 p).
  split; [apply write_to_ok; assumption|]. split; [apply xor_cycle_length|].
  split; [apply blake2b256_length|].
  intros i Hi. rewrite xor_cycle_nth by assumption. rewrite idx_mod. reflexivity.
Qed.

(* non-vacuity: a concrete packet, computed in the kernel with the Gallina BLAKE2b *)
Example wire_example :
  write_to blake2b256 [x61;x62;x63;x64] [x01;x02;x03;x04;x05;x06;x07;x08] [x68;x69] None =
  Ok ([x01;x02;x03;x04;x05;x06;x07;x08;x55;xda], 2%nat, None).
Proof. vm_compute. reflexivity. Qed.

(* non-vacuity of the end-to-end statement: an empty datagram, a valid packet, 8 junk bytes, a second
   valid packet; two reads return the two payloads (evaluated with the Gallina BLAKE2b) *)
Example end_to_end_example :
  let items := [Junk [] 7; Sent [x01;x02;x03;x04;x05;x06;x07;x08] [x68;x69] 9;
                Junk [x00;x01;x02;x03;x04;x05;x06;x07] 7; Sent [x11;x12;x13;x14;x15;x16;x17;x18] [x21] 5] in
  Forall (item_ok 2048) items /\
  read_seq blake2b256 [x61;x62;x63;x64] (repeat 2048%nat 4) (map (item_ev blake2b256 [x61;x62;x63;x64]) items) =
  Ok [mkR 2 [x68;x69] 9 None; mkR 1 [x21] 5 None].
Proof.
  split; [|vm_compute; reflexivity].
  repeat constructor; cbn; lia.
Qed.

(* a 9-byte foreign datagram is a valid packet (salt + 1 byte) and does surface, as one byte *)
Example nine_bytes_surface :
  exists b, read_seq blake2b256 [x61;x62;x63;x64] [2048%nat]
              [mkEv [x00;x01;x02;x03;x04;x05;x06;x07;x08] 3 None] = Ok [mkR 1 [b] 3 None].
Proof. eexists. vm_compute. reflexivity. Qed.

(* The ReadFrom loop before repair 8224fef returned on n <= 0 whatever err was; with that
   iteration "datagrams of 0..8 bytes never surface" is false: the empty datagram surfaces as a
   0-byte packet. *)
Definition read_iter_old (H : list byte -> list byte) (psk : list byte) (plen : nat) (e : uev) : Res (option rres) :=
  let buf := firstn udpBufferSize (u_data e) in
  if Nat.leb (length buf) 0 then Ok (Some (mkR 0 [] (u_addr e) (u_err e)))
  else read_iter H psk plen e.

Lemma drops_junk_old_refuted : forall H psk plen, exists e r,
  u_err e = None /\ (length (u_data e) <= 8)%nat /\ read_iter_old H psk plen e = Ok (Some r) /\ r_err r = None.
Proof.
  intros H psk plen. exists (mkEv [] 1 None), (mkR 0 [] 1 None). cbn. repeat split; lia.
Qed.

(* wire image under keys that are not ASCII text (vectors computed with python hashlib.blake2b):
   the key enters the hash byte for byte *)
Example nonascii_key_wire_image :
  let salt := [x01;x02;x03;x04;x05;x06;x07;x08] in let p := [x68;x69;x00;xff] in
  write_to blake2b256 [xc3;xa4;xc3;xb6] salt p None = Ok (salt ++ [xa3;x89;x5e;x41], 4%nat, None) /\
  write_to blake2b256 [xf0;x9f;xa6;x8e] salt p None = Ok (salt ++ [x77;x9c;x5b;x92], 4%nat, None) /\
  read_from blake2b256 [xc3;xa4;xc3;xb6] 2048 [mkEv (salt ++ [xa3;x89;x5e;x41]) 7 None] = Ok (Some (mkR 4 p 7 None, [])).
Proof. vm_compute. repeat split. Qed.
