(* C14 proofs: lemmas about model/C14_Gecko.v. *)
From Hy Require Import model.C14_Gecko.
From Coq Require Import ZArith Lia ZifyBool ZifyNat ZifyN.
Local Open Scope Z_scope.
Ltac Zify.zify_post_hook ::= Z.div_mod_to_equations.

(* ------------------------------------------------------------------ decoder *)

Lemma decode_no_panic b : is_panic (decode_frame b) = false.
Proof.
  unfold decode_frame.
  repeat match goal with |- context [if ?c then _ else _] => destruct c end; reflexivity.
Qed.

(* ------------------------------------------------------------------ maps *)

Lemma keqb_spec a b : reflect (a = b) (keqb a b).
Proof.
  destruct a as [a1 a2], b as [b1 b2]. unfold keqb; simpl.
  destruct (N.eqb_spec a1 b1), (N.eqb_spec a2 b2); simpl; constructor; congruence.
Qed.

Definition pg (s : N) (p : list (N * Z)) : Z :=
  match aget N.eqb s p with Some c => c | None => 0 end.

Lemma pget_pg s st : pget s st = pg s (per st).
Proof. reflexivity. Qed.

Lemma pg_adel_same s p : pg s (adel N.eqb s p) = 0.
Proof. unfold pg. now rewrite (aget_adel_same N.eqb). Qed.

Lemma pg_adel_other s s' p : s <> s' -> pg s (adel N.eqb s' p) = pg s p.
Proof. intros H. unfold pg. now rewrite (aget_adel_other N.eqb N.eqb_spec). Qed.

Lemma pg_aset_same s c p : pg s (aset N.eqb s c p) = c.
Proof. unfold pg. now rewrite (aget_aset_same N.eqb N.eqb_spec). Qed.

Lemma pg_aset_other s s' c p : s <> s' -> pg s (aset N.eqb s' c p) = pg s p.
Proof. intros H. unfold pg. now rewrite (aget_aset_other N.eqb N.eqb_spec). Qed.

Definition srcp (s : N) : key -> bool := fun k => (fst k =? s)%N.
Definition cnt (s : N) (t : list (key * entry)) : nat := acount (srcp s) t.

Lemma count_src_cnt s st : count_src s st = cnt s (tbl st).
Proof. reflexivity. Qed.

Definition ind (b : bool) : nat := if b then 1%nat else 0%nat.

Lemma cnt_adel_present s k e t :
  NoDup (akeys t) -> aget keqb k t = Some e -> (ind (srcp s k) + cnt s (adel keqb k t) = cnt s t)%nat.
Proof. intros ND H. unfold cnt, ind. eapply (acount_adel_present keqb keqb_spec); eauto. Qed.

Lemma cnt_adel_absent s k t : aget keqb k t = None -> cnt s (adel keqb k t) = cnt s t.
Proof. intros H. unfold cnt. now rewrite (adel_absent keqb). Qed.

Lemma cnt_aset s k e t : cnt s (aset keqb k e t) = (ind (srcp s k) + cnt s (adel keqb k t))%nat.
Proof. unfold cnt, aset, ind. rewrite acount_cons. reflexivity. Qed.

(* ------------------------------------------------------------------ census invariant *)

Definition Inv (st : rstate) : Prop :=
  NoDup (akeys (tbl st)) /\ NoDup (akeys (per st)) /\
  (forall s, pget s st = Z.of_nat (count_src s st)) /\
  (forall s c, In (s, c) (per st) -> 0 < c).

Lemma Inv_init : Inv r_init.
Proof.
  unfold Inv, r_init; simpl. repeat split; try constructor; try tauto.
Qed.

Lemma tget_drop_same k st : tget k (drop_entry k st) = None.
Proof.
  unfold drop_entry. destruct (tget k st) eqn:E; auto.
  unfold tget; simpl. apply (aget_adel_same keqb).
Qed.

Lemma tget_drop_other k k' st : k <> k' -> tget k (drop_entry k' st) = tget k st.
Proof.
  intros H. unfold drop_entry. destruct (tget k' st) eqn:E; auto.
  unfold tget; simpl. now apply (aget_adel_other keqb keqb_spec).
Qed.

Lemma tget_drop_mono k k' st : tget k st = None -> tget k (drop_entry k' st) = None.
Proof.
  intros H. destruct (keqb_spec k k') as [->|N]; [apply tget_drop_same|].
  now rewrite tget_drop_other.
Qed.

Lemma Inv_drop k st : Inv st -> Inv (drop_entry k st).
Proof.
  intros (ND1 & ND2 & C & P). unfold drop_entry.
  destruct (tget k st) as [e|] eqn:E; [|repeat split; auto].
  unfold tget in E.
  assert (Hk : forall s, (ind (srcp s k) + cnt s (adel keqb k (tbl st)) = cnt s (tbl st))%nat)
    by (intros s; eapply cnt_adel_present; eauto).
  pose proof (C (fst k)) as Ck. rewrite pget_pg, count_src_cnt in Ck.
  pose proof (Hk (fst k)) as Hkk. unfold srcp, ind in Hkk. rewrite N.eqb_refl in Hkk.
  unfold Inv; cbn [tbl per]. repeat split.
  - now apply (NoDup_adel keqb).
  - destruct (pget (fst k) st - 1 <=? 0); [now apply (NoDup_adel N.eqb)|now apply (NoDup_aset N.eqb N.eqb_spec)].
  - intros s. rewrite pget_pg, count_src_cnt; simpl.
    specialize (Hk s). specialize (C s). rewrite pget_pg, count_src_cnt in C.
    unfold srcp, ind in Hk.
    rewrite pget_pg.
    destruct (N.eqb_spec (fst k) s) as [<-|Ns].
    + destruct (pg (fst k) (per st) - 1 <=? 0) eqn:Le.
      * rewrite pg_adel_same. lia.
      * rewrite pg_aset_same. lia.
    + destruct (pg (fst k) (per st) - 1 <=? 0) eqn:Le.
      * rewrite pg_adel_other by congruence. lia.
      * rewrite pg_aset_other by congruence. lia.
  - intros s c. rewrite pget_pg.
    destruct (pg (fst k) (per st) - 1 <=? 0) eqn:Le.
    + intros I. apply (adel_In N.eqb N.eqb_spec) in I. apply (P s c). tauto.
    + unfold aset. intros [I|I].
      * inversion I; subst. lia.
      * apply (adel_In N.eqb N.eqb_spec) in I. apply (P s c). tauto.
Qed.

Lemma pget_drop_le s k st : Inv st -> pget s (drop_entry k st) <= pget s st.
Proof.
  intros I. pose proof (Inv_drop k st I) as I'.
  destruct I as (ND1 & _ & C & _). destruct I' as (_ & _ & C' & _).
  rewrite C, C'. rewrite !count_src_cnt.
  unfold drop_entry. destruct (tget k st) as [e|] eqn:E; [|lia]. simpl.
  pose proof (cnt_adel_present s k e (tbl st) ND1 E). lia.
Qed.

Lemma len_drop_le k st : (length (tbl (drop_entry k st)) <= length (tbl st))%nat.
Proof.
  unfold drop_entry. destruct (tget k st); simpl; [apply (adel_length_le keqb)|lia].
Qed.

Lemma len_drop_lt k e st : tget k st = Some e -> (length (tbl (drop_entry k st)) < length (tbl st))%nat.
Proof.
  intros E. unfold drop_entry. rewrite E; simpl. eapply (adel_length_lt keqb); eauto.
Qed.

(* evictOldest *)
Lemma min_deadline_first m d :
  min_deadline m = Some d -> exists k e, first_with d m = Some k /\ aget keqb k m = Some e.
Proof.
  revert d. induction m as [|[k e] t IH]; simpl; [discriminate|].
  intros d H. destruct (min_deadline t) as [d'|] eqn:E.
  - inversion H; subst; clear H.
    destruct (e_deadline e =? Z.min (e_deadline e) d') eqn:Q.
    + exists k, e. split; auto. destruct (keqb_spec k k); congruence.
    + assert (Z.min (e_deadline e) d' = d') by lia. rewrite H.
      destruct (IH d' eq_refl) as (k1 & e1 & F & G). exists k1.
      destruct (keqb k1 k) eqn:K; eauto.
  - inversion H; subst. rewrite Z.eqb_refl. exists k, e. split; auto.
    destruct (keqb_spec k k); congruence.
Qed.

Lemma evict_is_drop choice st :
  evict_oldest choice st = st /\ tbl st = [] \/
  exists k e, tget k st = Some e /\ evict_oldest choice st = drop_entry k st.
Proof.
  unfold evict_oldest. destruct (min_deadline (tbl st)) as [d|] eqn:E.
  - right. destruct (min_deadline_first _ _ E) as (k1 & e1 & F & G). rewrite F.
    destruct (tget choice st) as [e|] eqn:T.
    + destruct (e_deadline e =? d); eauto.
    + eauto.
  - left. split; auto. destruct (tbl st) as [|[k e] t]; auto. simpl in E.
    destruct (min_deadline t); discriminate.
Qed.

Lemma Inv_evict choice st : Inv st -> Inv (evict_oldest choice st).
Proof.
  intros I. destruct (evict_is_drop choice st) as [[-> _]|(k & e & _ & ->)]; auto using Inv_drop.
Qed.

Lemma Inv_gc_loop l now st : Inv st -> Inv (gc_loop l now st).
Proof.
  revert st. induction l as [|[k e] t IH]; simpl; auto.
  intros st I. apply IH. destruct (e_deadline e <? now); auto using Inv_drop.
Qed.

(* creating and updating entries *)
Lemma Inv_create k e st :
  Inv st -> tget k st = None ->
  Inv (mkR (aset keqb k e (tbl st)) (aset N.eqb (fst k) (pget (fst k) st + 1) (per st))).
Proof.
  intros (ND1 & ND2 & C & P) A. unfold tget in A. unfold Inv; cbn [tbl per]. repeat split.
  - now apply (NoDup_aset keqb keqb_spec).
  - now apply (NoDup_aset N.eqb N.eqb_spec).
  - intros s. rewrite pget_pg, count_src_cnt; simpl. rewrite cnt_aset, cnt_adel_absent by auto.
    specialize (C s). rewrite pget_pg, count_src_cnt in C. rewrite pget_pg.
    unfold srcp, ind. destruct (N.eqb_spec (fst k) s) as [<-|Ns].
    + rewrite pg_aset_same. lia.
    + rewrite pg_aset_other by congruence. lia.
  - intros s c [I|I].
    + inversion I; subst. specialize (C (fst k)). lia.
    + apply (adel_In N.eqb N.eqb_spec) in I. apply (P s c). tauto.
Qed.

Lemma Inv_update k e e' st :
  Inv st -> tget k st = Some e -> Inv (mkR (aset keqb k e' (tbl st)) (per st)).
Proof.
  intros (ND1 & ND2 & C & P) A. unfold tget in A. unfold Inv; cbn [tbl per]. repeat split; auto.
  - now apply (NoDup_aset keqb keqb_spec).
  - intros s. rewrite pget_pg, count_src_cnt; simpl. rewrite cnt_aset.
    specialize (C s). rewrite pget_pg, count_src_cnt in C.
    pose proof (cnt_adel_present s k e (tbl st) ND1 A). lia.
Qed.

Lemma find_or_create_spec now choice src h st st2 e :
  Inv st -> find_or_create now choice src h st = Some (st2, e) ->
  Inv st2 /\ tget (src, h_mid h) st2 = Some e.
Proof.
  intros I. unfold find_or_create.
  destruct (tget (src, h_mid h) st) as [e0|] eqn:T.
  - destruct (e_total e0 =? h_tot h)%N; [|discriminate]. intros H; inversion H; subst. auto.
  - destruct (geckoMaxPerSource <=? pget src st); [discriminate|].
    intros H; inversion H; subst; clear H.
    set (st1 := if geckoMaxReassembly <=? zlen (tbl st) then evict_oldest choice st else st).
    assert (I1 : Inv st1) by (unfold st1; destruct (geckoMaxReassembly <=? zlen (tbl st)); auto using Inv_evict).
    assert (T1 : tget (src, h_mid h) st1 = None).
    { unfold st1. destruct (geckoMaxReassembly <=? zlen (tbl st)); auto.
      destruct (evict_is_drop choice st) as [[-> _]|(k & e & _ & ->)]; auto using tget_drop_mono. }
    split.
    + apply (Inv_create (src, h_mid h) _ st1 I1 T1).
    + unfold tget; simpl. destruct (keqb_spec (src, h_mid h) (src, h_mid h)); congruence.
Qed.

Lemma Inv_accept now choice src h payload st :
  Inv st -> Inv (fst (accept_chunk now choice src h payload st)).
Proof.
  intros I. unfold accept_chunk.
  destruct (find_or_create now choice src h st) as [[st2 e]|] eqn:F; [|auto].
  destruct (find_or_create_spec _ _ _ _ _ _ _ I F) as (I2 & T2).
  destruct (nth_error (e_chunks e) (N.to_nat (h_idx h))) as [[c|]|]; simpl; auto.
  match goal with |- Inv (fst (if ?c then _ else _)) => destruct c end; simpl.
  - eapply Inv_update; eauto.
  - apply Inv_drop. eapply Inv_update; eauto.
Qed.

Lemma Inv_on_packet rbuf now choice src dg st :
  Inv st -> Inv (fst (on_packet rbuf now choice src dg st)).
Proof.
  intros I. unfold on_packet.
  destruct (firstn (Z.to_nat geckoBufferSize) dg) as [|b0 t]; simpl; auto.
  destruct (N.land (b2n b0) 128 =? 0)%N; simpl; auto.
  destruct (decode_frame (b0 :: t)) as [[h pl]| |]; simpl; auto using Inv_accept.
Qed.

Lemma Inv_step rbuf st a : Inv st -> Inv (fst (step rbuf st a)).
Proof.
  intros I. destruct a; simpl.
  - now apply Inv_on_packet.
  - unfold gc_expired. now apply Inv_gc_loop.
Qed.

Lemma Inv_run rbuf l : forall st, Inv st -> Inv (fst (run rbuf st l)).
Proof.
  induction l as [|a t IH]; simpl; auto.
  intros st I. apply IH. now apply Inv_step.
Qed.

(* ------------------------------------------------------------------ bounds *)

Definition Bnd (st : rstate) : Prop :=
  Inv st /\ (forall s, pget s st <= 8) /\ zlen (tbl st) <= 4096.

Lemma Bnd_init : Bnd r_init.
Proof. split; [apply Inv_init|]. split; [intros s|]; vm_compute; congruence. Qed.

Lemma Bnd_drop k st : Bnd st -> Bnd (drop_entry k st).
Proof.
  intros (I & P & L). split; [now apply Inv_drop|]. split.
  - intros s. pose proof (pget_drop_le s k st I). specialize (P s). lia.
  - pose proof (len_drop_le k st). unfold zlen in *. lia.
Qed.

Lemma Bnd_evict choice st : Bnd st -> Bnd (evict_oldest choice st).
Proof.
  intros B. destruct (evict_is_drop choice st) as [[-> _]|(k & e & _ & ->)]; auto using Bnd_drop.
Qed.

Lemma Bnd_gc_loop l now st : Bnd st -> Bnd (gc_loop l now st).
Proof.
  revert st. induction l as [|[k e] t IH]; simpl; auto.
  intros st B. apply IH. destruct (e_deadline e <? now); auto using Bnd_drop.
Qed.

Lemma evict_len choice st :
  tbl st <> [] -> (length (tbl (evict_oldest choice st)) < length (tbl st))%nat.
Proof.
  intros NE. destruct (evict_is_drop choice st) as [[_ E]|(k & e & T & ->)]; [congruence|].
  eapply len_drop_lt; eauto.
Qed.

Lemma Bnd_find_or_create now choice src h st st2 e :
  Bnd st -> find_or_create now choice src h st = Some (st2, e) -> Bnd st2.
Proof.
  intros B F. pose proof B as (I & P & L).
  destruct (find_or_create_spec _ _ _ _ _ _ _ I F) as (I2 & _).
  split; auto. revert F. unfold find_or_create.
  destruct (tget (src, h_mid h) st) as [e0|] eqn:T.
  - destruct (e_total e0 =? h_tot h)%N; [|discriminate]. intros H; inversion H; subst. auto.
  - destruct (geckoMaxPerSource <=? pget src st) eqn:Cap; [discriminate|].
    unfold geckoMaxPerSource in Cap.
    intros H; inversion H; subst; clear H.
    set (st1 := if geckoMaxReassembly <=? zlen (tbl st) then evict_oldest choice st else st) in *.
    assert (B1 : Bnd st1) by (unfold st1; destruct (geckoMaxReassembly <=? zlen (tbl st)); auto using Bnd_evict).
    assert (L1 : zlen (tbl st1) < 4096).
    { unfold st1. destruct (geckoMaxReassembly <=? zlen (tbl st)) eqn:G; unfold geckoMaxReassembly in G.
      - assert (NE : tbl st <> []) by (intros E; rewrite E in G; cbn in G; lia).
        pose proof (evict_len choice st NE). unfold zlen in *. lia.
      - lia. }
    assert (P1 : pget src st1 <= pget src st).
    { unfold st1. destruct (geckoMaxReassembly <=? zlen (tbl st)); [|lia].
      destruct (evict_is_drop choice st) as [[-> _]|(k & e & _ & ->)]; [lia|]. now apply pget_drop_le. }
    destruct B1 as (I1 & PP1 & _).
    split.
    + intros s. rewrite pget_pg; cbn [per]. destruct (N.eq_dec s src) as [->|Ns].
      * rewrite pg_aset_same. lia.
      * rewrite pg_aset_other by auto. apply PP1.
    + cbn [tbl]. unfold aset, zlen. cbn [length].
      pose proof (adel_length_le keqb (src, h_mid h) (tbl st1)). unfold zlen in L1. lia.
Qed.

Lemma Bnd_update k e e' st :
  Bnd st -> tget k st = Some e -> Bnd (mkR (aset keqb k e' (tbl st)) (per st)).
Proof.
  intros (I & P & L) T. split; [eapply Inv_update; eauto|]. split; auto.
  cbn [tbl]. unfold aset, zlen in *. cbn [length].
  destruct I as (ND & _). rewrite (adel_length_present keqb keqb_spec k e (tbl st) ND T). lia.
Qed.

Lemma Bnd_accept now choice src h payload st :
  Bnd st -> Bnd (fst (accept_chunk now choice src h payload st)).
Proof.
  intros B. unfold accept_chunk.
  destruct (find_or_create now choice src h st) as [[st2 e]|] eqn:F; [|auto].
  pose proof (Bnd_find_or_create _ _ _ _ _ _ _ B F) as B2.
  destruct B as (I & _). destruct (find_or_create_spec _ _ _ _ _ _ _ I F) as (I2 & T2).
  destruct (nth_error (e_chunks e) (N.to_nat (h_idx h))) as [[c|]|]; simpl; auto.
  match goal with |- Bnd (fst (if ?c then _ else _)) => destruct c end; simpl.
  - eapply Bnd_update; eauto.
  - apply Bnd_drop. eapply Bnd_update; eauto.
Qed.

Lemma Bnd_step rbuf st a : Bnd st -> Bnd (fst (step rbuf st a)).
Proof.
  intros B. destruct a; simpl.
  - unfold on_packet.
    destruct (firstn (Z.to_nat geckoBufferSize) dg) as [|b0 t]; simpl; auto.
    destruct (N.land (b2n b0) 128 =? 0)%N; simpl; auto.
    destruct (decode_frame (b0 :: t)) as [[h pl]| |]; simpl; auto using Bnd_accept.
  - unfold gc_expired. now apply Bnd_gc_loop.
Qed.

Lemma Bnd_run rbuf l : forall st, Bnd st -> Bnd (fst (run rbuf st l)).
Proof.
  induction l as [|a t IH]; simpl; auto.
  intros st B. apply IH. now apply Bnd_step.
Qed.

(* the census, as a statement about what the tables contain *)
Definition census (st : rstate) : Prop :=
  NoDup (map fst (tbl st)) /\ NoDup (map fst (per st)) /\
  (forall s, pget s st = Z.of_nat (count_src s st)) /\
  (forall s c, In (s, c) (per st) -> 0 < c).

Lemma census_always rbuf acts : census (fst (run rbuf r_init acts)).
Proof. apply (Inv_run rbuf acts r_init Inv_init). Qed.

Lemma bounds_always rbuf acts :
  let st := fst (run rbuf r_init acts) in
  (forall s, (count_src s st <= 8)%nat /\ pget s st <= 8) /\ (length (tbl st) <= 4096)%nat.
Proof.
  destruct (Bnd_run rbuf acts r_init Bnd_init) as ((_ & _ & C & _) & P & L). cbv zeta.
  split.
  - intros s. specialize (P s). specialize (C s). lia.
  - unfold zlen in L. lia.
Qed.

(* ------------------------------------------------------------------ TTL sweep *)

Lemma tget_gc_loop_none k l now st : tget k st = None -> tget k (gc_loop l now st) = None.
Proof.
  revert st. induction l as [|[k1 e1] t IH]; simpl; auto.
  intros st H. apply IH. destruct (e_deadline e1 <? now); auto using tget_drop_mono.
Qed.

Definition hit (k : key) (now : Z) (l : list (key * entry)) : bool :=
  existsb (fun ke => keqb k (fst ke) && (e_deadline (snd ke) <? now)) l.

Lemma tget_gc_loop k l now st :
  tget k (gc_loop l now st) = if hit k now l then None else tget k st.
Proof.
  revert st. induction l as [|[k1 e1] t IH]; simpl; auto.
  intros st. destruct (e_deadline e1 <? now) eqn:D.
  - destruct (keqb_spec k k1) as [->|N]; simpl.
    + apply tget_gc_loop_none. apply tget_drop_same.
    + rewrite IH. now rewrite tget_drop_other.
  - rewrite andb_false_r. simpl. apply IH.
Qed.

Lemma hit_spec k now st :
  NoDup (akeys (tbl st)) ->
  hit k now (tbl st) = match tget k st with Some e => e_deadline e <? now | None => false end.
Proof.
  intros ND. destruct (hit k now (tbl st)) eqn:H.
  - unfold hit in H. apply existsb_exists in H. destruct H as ([k1 e1] & I & Q). simpl in Q.
    apply andb_prop in Q. destruct Q as (Q1 & Q2).
    destruct (keqb_spec k k1) as [->|]; [|discriminate].
    unfold tget. rewrite (In_aget keqb keqb_spec k1 e1 (tbl st) ND I). auto.
  - destruct (tget k st) as [e|] eqn:T; auto.
    destruct (e_deadline e <? now) eqn:D; auto.
    assert (hit k now (tbl st) = true); [|congruence].
    unfold hit. apply existsb_exists. exists (k, e). split.
    + now apply (aget_In keqb keqb_spec).
    + simpl. rewrite D. rewrite (eqb_refl keqb keqb_spec). reflexivity.
Qed.

Lemma gc_spec k now st :
  Inv st ->
  tget k (gc_expired now st) =
  match tget k st with Some e => if e_deadline e <? now then None else Some e | None => None end.
Proof.
  intros (ND & _). unfold gc_expired. rewrite tget_gc_loop, hit_spec by auto.
  destruct (tget k st) as [e|]; auto.
Qed.

(* ------------------------------------------------------------------ what a packet does to the table *)

Definition fresh (now : Z) (h : hdr) : entry :=
  mkE (repeat None (N.to_nat (h_tot h))) 0 (h_tot h) (now + geckoReassemblyTTLns).

Lemma find_or_create_own now choice src h st st2 e :
  find_or_create now choice src h st = Some (st2, e) ->
  (tget (src, h_mid h) st = Some e /\ st2 = st /\ e_total e = h_tot h) \/
  (tget (src, h_mid h) st = None /\ e = fresh now h /\ pget src st < geckoMaxPerSource).
Proof.
  unfold find_or_create. destruct (tget (src, h_mid h) st) as [e0|] eqn:T.
  - destruct (e_total e0 =? h_tot h)%N eqn:Q; [|discriminate]. intros H; inversion H; subst.
    left. repeat split; auto. now apply N.eqb_eq.
  - destruct (geckoMaxPerSource <=? pget src st) eqn:Cap; [discriminate|].
    intros H; inversion H; subst. right. repeat split; auto. lia.
Qed.

Lemma find_or_create_other now choice src h st st2 e k' :
  find_or_create now choice src h st = Some (st2, e) -> k' <> (src, h_mid h) ->
  tget k' st2 = tget k' st \/ tget k' st2 = None.
Proof.
  unfold find_or_create. destruct (tget (src, h_mid h) st) as [e0|] eqn:T.
  - destruct (e_total e0 =? h_tot h)%N; [|discriminate]. intros H; inversion H; subst. auto.
  - destruct (geckoMaxPerSource <=? pget src st); [discriminate|].
    intros H N; inversion H; subst; clear H.
    unfold tget at 1 3; cbn [tbl]. rewrite (aget_aset_other keqb keqb_spec) by auto.
    destruct (geckoMaxReassembly <=? zlen (tbl st)); auto.
    destruct (evict_is_drop choice st) as [[-> _]|(k & e & _ & ->)]; auto.
    fold (tget k' (drop_entry k st)).
    destruct (keqb_spec k' k) as [->|N2]; [right; apply tget_drop_same|left; now apply tget_drop_other].
Qed.

Lemma accept_other now choice src h payload st k' :
  k' <> (src, h_mid h) ->
  let st' := fst (accept_chunk now choice src h payload st) in
  tget k' st' = tget k' st \/ tget k' st' = None.
Proof.
  intros N. cbv zeta. unfold accept_chunk.
  destruct (find_or_create now choice src h st) as [[st2 e]|] eqn:F; [|auto].
  pose proof (find_or_create_other _ _ _ _ _ _ _ k' F N) as O.
  destruct (nth_error (e_chunks e) (N.to_nat (h_idx h))) as [[c|]|]; simpl; auto.
  match goal with |- context [if ?c then _ else _] => destruct c end; simpl.
  - unfold tget at 1 3; cbn [tbl]. now rewrite (aget_aset_other keqb keqb_spec) by auto.
  - rewrite tget_drop_other by auto.
    unfold tget at 1 3; cbn [tbl]. now rewrite (aget_aset_other keqb keqb_spec) by auto.
Qed.

(* the entry under the packet's own key afterwards: absent, or the old/fresh entry with one more
   chunk; the deadline is the old one, or now + TTL for a fresh entry *)
Lemma accept_own_deadline now choice src h payload st e' :
  Inv st ->
  tget (src, h_mid h) (fst (accept_chunk now choice src h payload st)) = Some e' ->
  match tget (src, h_mid h) st with
  | Some e => e_deadline e' = e_deadline e
  | None => e_deadline e' = now + geckoReassemblyTTLns
  end.
Proof.
  intros I. unfold accept_chunk.
  destruct (find_or_create now choice src h st) as [[st2 e]|] eqn:F.
  2:{ simpl. intros ->. auto. }
  destruct (find_or_create_spec _ _ _ _ _ _ _ I F) as (I2 & T2).
  assert (D : match tget (src, h_mid h) st with
              | Some e0 => e_deadline e = e_deadline e0
              | None => e_deadline e = now + geckoReassemblyTTLns end).
  { destruct (find_or_create_own _ _ _ _ _ _ _ F) as [(T & -> & _)|(T & -> & _)]; rewrite T; auto. }
  destruct (nth_error (e_chunks e) (N.to_nat (h_idx h))) as [[c|]|]; simpl.
  - rewrite T2. intros H; inversion H; subst. auto.
  - match goal with |- context [if ?c then _ else _] => destruct c end; simpl.
    + unfold tget at 1; cbn [tbl]. rewrite (aget_aset_same keqb keqb_spec).
      intros H; inversion H; subst. simpl. auto.
    + rewrite tget_drop_same. discriminate.
  - rewrite T2. intros H; inversion H; subst. auto.
Qed.

Lemma step_deadline rbuf st now src dg choice k e' :
  Inv st ->
  tget k (fst (step rbuf st (Packet now src dg choice))) = Some e' ->
  match tget k st with
  | Some e => e_deadline e' = e_deadline e
  | None => e_deadline e' = now + geckoReassemblyTTLns
  end.
Proof.
  intros I. simpl. unfold on_packet.
  assert (Same : tget k st = Some e' ->
                 match tget k st with Some e => e_deadline e' = e_deadline e
                                 | None => e_deadline e' = now + geckoReassemblyTTLns end)
    by (intros ->; auto).
  destruct (firstn (Z.to_nat geckoBufferSize) dg) as [|b0 t]; simpl; auto.
  destruct (N.land (b2n b0) 128 =? 0)%N; simpl; auto.
  destruct (decode_frame (b0 :: t)) as [[h pl]| |]; simpl; auto.
  destruct (keqb_spec k (src, h_mid h)) as [->|N].
  - now apply accept_own_deadline.
  - destruct (accept_other now choice src h pl st k N) as [-> | ->]; auto. discriminate.
Qed.

(* ------------------------------------------------------------------ decoder facts, no lock-out *)

Lemma decode_ok b h pl :
  decode_frame b = Ok (h, pl) ->
  (2 <= h_tot h <= 8)%N /\ (h_idx h < h_tot h)%N /\ 5 <= zlen b /\
  (N.land (b2n (nth 0 b x00)) 128 =? 0)%N = false /\
  h_mid h = b2n (nth 1 b x00) /\
  pl = skipn (Z.to_nat (5 + Z.of_N (h_pad h))) b /\ 5 + Z.of_N (h_pad h) <= zlen b.
Proof.
  unfold decode_frame, geckoHeaderSize, geckoFlagFragment, geckoMinFragmentChunks, geckoMaxFragmentChunks.
  destruct (zlen b <? 5) eqn:A; [discriminate|].
  destruct (N.land (b2n (nth 0 b x00)) 128 =? 0)%N eqn:B; [discriminate|].
  generalize (be_dec [nth 3 b x00; nth 4 b x00]). intros P.
  cbn [h_tot h_idx h_pad].
  match goal with |- context [if ?c then _ else _] => destruct c eqn:C end; [discriminate|].
  match goal with |- context [if ?c then _ else _] => destruct c eqn:D end; [discriminate|].
  match goal with |- context [if ?c then _ else _] => destruct c eqn:E end; [discriminate|].
  intros H; inversion H; subst; clear H. cbn [h_tot h_idx h_pad h_mid].
  repeat split; auto; lia.
Qed.

Lemma nth_error_repeat {A} (x : A) n i : (i < n)%nat -> nth_error (repeat x n) i = Some x.
Proof.
  revert i. induction n as [|n IH]; intros [|i] H; simpl; auto; try lia. apply IH. lia.
Qed.

Lemma accept_admits now choice src h payload st :
  Inv st -> (2 <= h_tot h)%N -> (h_idx h < h_tot h)%N ->
  tget (src, h_mid h) st = None -> (count_src src st < 8)%nat ->
  exists e, tget (src, h_mid h) (fst (accept_chunk now choice src h payload st)) = Some e /\
            snd (accept_chunk now choice src h payload st) = None.
Proof.
  intros I T2 IX A C. unfold accept_chunk.
  destruct (find_or_create now choice src h st) as [[st2 e]|] eqn:F.
  - destruct (find_or_create_own _ _ _ _ _ _ _ F) as [(T & _)|(_ & -> & _)]; [congruence|].
    assert (NE : nth_error (e_chunks (fresh now h)) (N.to_nat (h_idx h)) = Some None)
      by (unfold fresh; cbn [e_chunks]; apply nth_error_repeat; lia).
    rewrite NE. cbn [fresh e_received e_total].
    destruct (0 + 1 <? Z.of_N (h_tot h)) eqn:Q; [|lia]. cbn [fst snd].
    eexists. split; auto. unfold tget; cbn [tbl]. apply (aget_aset_same keqb keqb_spec).
  - exfalso. revert F. unfold find_or_create. rewrite A.
    destruct I as (_ & _ & CC & _). rewrite (CC src). unfold geckoMaxPerSource.
    destruct (8 <=? Z.of_nat (count_src src st)) eqn:Q; [lia|discriminate].
Qed.

Lemma accept_refuses now choice src h payload st :
  Inv st -> tget (src, h_mid h) st = None -> (8 <= count_src src st)%nat ->
  accept_chunk now choice src h payload st = (st, None).
Proof.
  intros I A C. unfold accept_chunk, find_or_create. rewrite A.
  destruct I as (_ & _ & CC & _). rewrite (CC src). unfold geckoMaxPerSource.
  destruct (8 <=? Z.of_nat (count_src src st)) eqn:Q; [auto|lia].
Qed.

Lemma no_lockout rbuf acts now src dg choice h pl :
  let st := fst (run rbuf r_init acts) in
  decode_frame (firstn 2048 dg) = Ok (h, pl) ->
  tget (src, h_mid h) st = None ->
  ((count_src src st < 8)%nat ->
     exists e, tget (src, h_mid h) (fst (step rbuf st (Packet now src dg choice))) = Some e) /\
  ((count_src src st >= 8)%nat ->
     step rbuf st (Packet now src dg choice) = (st, None)).
Proof.
  cbv zeta. intros D A.
  pose proof (Inv_run rbuf acts r_init Inv_init) as I.
  destruct (decode_ok _ _ _ D) as (T & IX & L & TB & _).
  simpl. unfold on_packet. change (Z.to_nat geckoBufferSize) with 2048%nat.
  destruct (firstn 2048 dg) as [|b0 t] eqn:FB; [cbn in L; lia|].
  cbn [nth] in TB. rewrite TB, D.
  split; intros C.
  - destruct (accept_admits now choice src h pl _ I (proj1 T) IX A C) as (e & E & _).
    exists e. exact E.
  - rewrite accept_refuses; auto.
Qed.
