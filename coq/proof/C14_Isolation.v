(* C14 proofs: sources do not interfere (cross-source interleaving).
   The receiver's table is keyed by (source name, message id).  Below the global cap, what the receiver
   returns for the datagrams of one source name, and what it keeps for that name, does not depend on the
   datagrams of any other name: they can be deleted from the history.  Source names are compared with
   decidable equality only (N.eqb); corr/C14_Corr.v derives them from net.Addr.String() injectively
   (src_name_inj below), so "another name" means "another String()". *)
From Hy Require Import lib.Harness model.C14_Gecko proof.C14_Gecko proof.C14_Recv corr.C14_Corr.
From Coq Require Import ZArith Lia ZifyBool ZifyNat ZifyN Permutation.
Local Open Scope Z_scope.
Ltac Zify.zify_post_hook ::= Z.div_mod_to_equations.

(* ------------------------------------------------------------------ names are strings *)

Lemma byte_eqb_eq a b : Byte.eqb a b = true <-> a = b.
Proof. split; [apply Byte.byte_dec_bl|apply Byte.byte_dec_lb]. Qed.

Lemma bytes_eqb_eq (a b : list byte) : bytes_eqb a b = true <-> a = b.
Proof.
  unfold bytes_eqb. revert b. induction a as [|x a IH]; intros [|y b]; simpl; split; intros H;
    try reflexivity; try discriminate.
  - apply andb_prop in H. destruct H as (L & F). apply andb_prop in F. destruct F as (X & F).
    apply byte_eqb_eq in X. subst y. f_equal. apply IH. now rewrite L, F.
  - inversion H; subst. destruct (IH b) as (_ & R). specialize (R eq_refl).
    apply andb_prop in R. destruct R as (L & F). rewrite L, F.
    destruct (byte_eqb_eq y y) as (_ & Y). now rewrite (Y eq_refl).
Qed.

(* find_name returns the first position of the string *)
Lemma find_name_spec nm l i0 r :
  find_name nm l i0 = Some r <->
  exists j, r = (i0 + N.of_nat j)%N /\ nth_error l j = Some nm /\
            forall j', (j' < j)%nat -> nth_error l j' <> Some nm.
Proof.
  revert i0. induction l as [|h t IH]; intros i0; simpl.
  - split; [discriminate|]. intros (j & _ & H & _). destruct j; discriminate.
  - destruct (bytes_eqb nm h) eqn:E.
    + apply bytes_eqb_eq in E. subst h. split.
      * intros H. inversion H; subst. exists 0%nat. split; [lia|]. split; [reflexivity|intros; lia].
      * intros (j & -> & Hj & Hmin). destruct j as [|j]; [f_equal; lia|].
        exfalso. apply (Hmin 0%nat); [lia|reflexivity].
    + assert (NE : nm <> h).
      { intros ->. destruct (bytes_eqb_eq h h) as (_ & R). rewrite R in E; congruence. }
      rewrite IH. split.
      * intros (j & -> & Hj & Hmin). exists (S j). split; [lia|]. split; [exact Hj|].
        intros [|j'] L; simpl; [congruence|]. apply Hmin. lia.
      * intros (j & -> & Hj & Hmin). destruct j as [|j]; [simpl in Hj; congruence|].
        exists j. split; [lia|]. split; [exact Hj|]. intros j' L. apply (Hmin (S j')). lia.
Qed.

(* two rows of a non-empty address table get the same model name exactly when their strings are equal;
   with the empty table (the harness's own addresses "s<number>") the name is the number *)
Lemma src_name_inj names i j a b :
  names <> [] -> src_name names i = Some a -> src_name names j = Some b ->
  (a = b <-> nth_error names (N.to_nat i) = nth_error names (N.to_nat j)).
Proof.
  intros NE. unfold src_name. destruct names as [|n0 nt]; [congruence|].
  destruct (nth_error (n0 :: nt) (N.to_nat i)) as [ni|] eqn:Ei; [|discriminate].
  destruct (nth_error (n0 :: nt) (N.to_nat j)) as [nj|] eqn:Ej; [|discriminate].
  intros Fi Fj. apply find_name_spec in Fi. apply find_name_spec in Fj.
  destruct Fi as (x & -> & Hx & Mx). destruct Fj as (y & -> & Hy & My).
  split.
  - intros E. assert (x = y) by lia. subst y. congruence.
  - intros E. inversion E; subst nj.
    destruct (Nat.lt_trichotomy x y) as [L|[->|L]]; [exfalso; now apply (My x)|reflexivity|exfalso; now apply (Mx y)].
Qed.

Lemma src_name_total names i :
  names <> [] -> (N.to_nat i < length names)%nat -> exists a, src_name names i = Some a /\ (a <= i)%N.
Proof.
  intros NE L. unfold src_name. destruct names as [|n0 nt]; [congruence|].
  destruct (nth_error (n0 :: nt) (N.to_nat i)) as [ni|] eqn:Ei; [|apply nth_error_None in Ei; lia].
  destruct (find_name ni (n0 :: nt) 0) as [r|] eqn:F.
  - exists r. split; auto. apply find_name_spec in F. destruct F as (x & -> & Hx & Mx).
    destruct (Nat.le_gt_cases x (N.to_nat i)) as [|G]; [lia|]. exfalso. now apply (Mx (N.to_nat i)).
  - exfalso. assert (C : forall l i0 k, nth_error l k = Some ni -> find_name ni l i0 <> None).
    { induction l as [|h t IH]; intros i0 [|k] Hk; simpl in *; try discriminate.
      - inversion Hk; subst. destruct (bytes_eqb_eq ni ni) as (_ & R). rewrite R; congruence.
      - destruct (bytes_eqb ni h); [congruence|]. now apply (IH _ k). }
    now apply (C _ 0%N _ Ei).
Qed.

(* ------------------------------------------------------------------ what one source sees of a state *)

Definition same_src (s : N) (st1 st2 : rstate) : Prop := forall m, tget (s, m) st1 = tget (s, m) st2.

Lemma same_src_refl s st : same_src s st st.
Proof. intros m; reflexivity. Qed.

Lemma same_src_trans s a b c : same_src s a b -> same_src s b c -> same_src s a c.
Proof. intros H1 H2 m. now rewrite H1. Qed.

Lemma NoDup_map_filter {A B} (f : A -> B) (p : A -> bool) l : NoDup (map f l) -> NoDup (map f (filter p l)).
Proof.
  induction l as [|a t IH]; simpl; auto. intros ND. inversion ND; subst.
  destruct (p a); simpl; auto. constructor; auto.
  intros I. apply H1. apply in_map_iff in I. destruct I as (x & E & I). apply filter_In in I.
  apply in_map_iff. exists x. tauto.
Qed.

Lemma In_keys_aget (t : list (key * entry)) k : In k (akeys t) <-> aget keqb k t <> None.
Proof.
  split.
  - intros I A. now apply (aget_None_notin keqb keqb_spec) in A.
  - intros A. destruct (in_dec (fun a b => reflect_dec _ _ (keqb_spec a b)) k (akeys t)) as [|N]; auto.
    exfalso. apply A. now apply (notin_aget_None keqb keqb_spec).
Qed.

(* the census of one source is determined by the lookups under that source *)
Lemma cnt_ext s t1 t2 :
  NoDup (akeys t1) -> NoDup (akeys t2) ->
  (forall m, aget keqb (s, m) t1 = aget keqb (s, m) t2) -> cnt s t1 = cnt s t2.
Proof.
  intros ND1 ND2 H. unfold cnt, acount.
  set (p := fun kv : key * entry => srcp s (fst kv)).
  rewrite <- (map_length fst (filter p t1)), <- (map_length fst (filter p t2)).
  apply Permutation_length. apply NoDup_Permutation; try (apply NoDup_map_filter; assumption).
  assert (Q : forall t k, In k (map fst (filter p t)) <-> (fst k = s /\ aget keqb k t <> None)).
  { intros t k. rewrite <- In_keys_aget. unfold akeys. rewrite !in_map_iff. split.
    - intros (x & E & I). apply filter_In in I. destruct I as (I & P). unfold p, srcp in P.
      subst k. split; [now apply N.eqb_eq|]. exists x; auto.
    - intros (E & x & Ex & I). exists x. split; auto. apply filter_In. split; auto.
      unfold p, srcp. rewrite Ex. now apply N.eqb_eq. }
  intros k. rewrite !Q. split; intros (E & A); split; auto; destruct k as [s' m]; simpl in E; subst s'.
  - now rewrite <- H.
  - now rewrite H.
Qed.

Lemma pget_same s st1 st2 : Inv st1 -> Inv st2 -> same_src s st1 st2 -> pget s st1 = pget s st2.
Proof.
  intros (ND1 & _ & C1 & _) (ND2 & _ & C2 & _) H. rewrite C1, C2, !count_src_cnt.
  f_equal. apply cnt_ext; auto.
Qed.

Lemma same_src_aset s mid e st1 st2 p1 p2 :
  same_src s st1 st2 ->
  same_src s (mkR (aset keqb (s, mid) e (tbl st1)) p1) (mkR (aset keqb (s, mid) e (tbl st2)) p2).
Proof.
  intros H m. unfold tget; cbn [tbl].
  destruct (N.eqb_spec m mid) as [->|N].
  - now rewrite !(aget_aset_same keqb keqb_spec).
  - rewrite !(aget_aset_other keqb keqb_spec) by congruence. apply H.
Qed.

Lemma same_src_drop s mid st1 st2 :
  same_src s st1 st2 -> same_src s (drop_entry (s, mid) st1) (drop_entry (s, mid) st2).
Proof.
  intros H m. destruct (N.eqb_spec m mid) as [->|N].
  - now rewrite !tget_drop_same.
  - rewrite !tget_drop_other by congruence. apply H.
Qed.

(* ------------------------------------------------------------------ one step *)

(* a chunk of the source itself: same result, same view, whatever else the two tables hold *)
Lemma accept_same s now choice1 choice2 h pl st1 st2 :
  Inv st1 -> Inv st2 -> same_src s st1 st2 -> zlen (tbl st1) < 4096 -> zlen (tbl st2) < 4096 ->
  snd (accept_chunk now choice1 s h pl st1) = snd (accept_chunk now choice2 s h pl st2) /\
  same_src s (fst (accept_chunk now choice1 s h pl st1)) (fst (accept_chunk now choice2 s h pl st2)).
Proof.
  intros I1 I2 H L1 L2. pose proof (pget_same s st1 st2 I1 I2 H) as P.
  unfold accept_chunk, find_or_create. rewrite P, (H (h_mid h)).
  destruct (tget (s, h_mid h) st2) as [e0|] eqn:T.
  - destruct (e_total e0 =? h_tot h)%N; [|split; auto].
    destruct (nth_error (e_chunks e0) (N.to_nat (h_idx h))) as [[c|]|]; cbn [fst snd]; try (split; auto; fail).
    match goal with |- context [if ?c then _ else _] => destruct c end; cbn [fst snd]; split; auto.
    + now apply same_src_aset.
    + apply same_src_drop. now apply same_src_aset.
  - destruct (geckoMaxPerSource <=? pget s st2); [split; auto|].
    unfold geckoMaxReassembly.
    destruct (4096 <=? zlen (tbl st1)) eqn:G1; [lia|]. destruct (4096 <=? zlen (tbl st2)) eqn:G2; [lia|].
    set (e := mkE (repeat None (N.to_nat (h_tot h))) 0 (h_tot h) (now + geckoReassemblyTTLns)).
    destruct (nth_error (e_chunks e) (N.to_nat (h_idx h))) as [[c|]|]; cbn [fst snd];
      try (split; [reflexivity|now apply same_src_aset]).
    match goal with |- context [if ?c then _ else _] => destruct c end; cbn [fst snd tbl per]; split; auto.
    + apply (same_src_aset s (h_mid h) _ (mkR (aset keqb (s, h_mid h) e (tbl st1)) (per st1)) (mkR (aset keqb (s, h_mid h) e (tbl st2)) (per st2))). now apply same_src_aset.
    + apply same_src_drop. apply (same_src_aset s (h_mid h) _ (mkR (aset keqb (s, h_mid h) e (tbl st1)) (per st1)) (mkR (aset keqb (s, h_mid h) e (tbl st2)) (per st2))). now apply same_src_aset.
Qed.

Lemma on_packet_same s rbuf now choice1 choice2 dg st1 st2 :
  Inv st1 -> Inv st2 -> same_src s st1 st2 -> zlen (tbl st1) < 4096 -> zlen (tbl st2) < 4096 ->
  snd (on_packet rbuf now choice1 s dg st1) = snd (on_packet rbuf now choice2 s dg st2) /\
  same_src s (fst (on_packet rbuf now choice1 s dg st1)) (fst (on_packet rbuf now choice2 s dg st2)).
Proof.
  intros I1 I2 H L1 L2. unfold on_packet.
  destruct (firstn (Z.to_nat geckoBufferSize) dg) as [|b0 t]; [split; auto|].
  destruct (N.land (b2n b0) 128 =? 0)%N; [split; auto|].
  destruct (decode_frame (b0 :: t)) as [[h pl]| |]; try (split; auto; fail).
  destruct (accept_same s now choice1 choice2 h pl st1 st2 I1 I2 H L1 L2) as (O & S).
  cbn [fst snd]. now rewrite O.
Qed.

(* a datagram of another source: the view of s is untouched (below the global cap) *)
Lemma on_packet_foreign s rbuf now choice src dg st :
  src <> s -> zlen (tbl st) < 4096 -> same_src s (fst (on_packet rbuf now choice src dg st)) st.
Proof.
  intros N L m. unfold on_packet.
  destruct (firstn (Z.to_nat geckoBufferSize) dg) as [|b0 t]; [reflexivity|].
  destruct (N.land (b2n b0) 128 =? 0)%N; [reflexivity|].
  destruct (decode_frame (b0 :: t)) as [[h pl]| |]; try reflexivity.
  cbn [fst]. apply accept_other_noevict; auto. congruence.
Qed.

Lemma gc_same s now st1 st2 :
  Inv st1 -> Inv st2 -> same_src s st1 st2 -> same_src s (gc_expired now st1) (gc_expired now st2).
Proof. intros I1 I2 H m. rewrite !gc_spec by auto. now rewrite H. Qed.

Lemma len_step rbuf st a : Inv st -> (length (tbl (fst (step rbuf st a))) <= S (length (tbl st)))%nat.
Proof.
  intros I. rewrite <- !(acount_true (V := entry)). destruct a as [now src dg choice|now]; cbn [step fst].
  - unfold on_packet.
    destruct (firstn (Z.to_nat geckoBufferSize) dg) as [|b0 t]; cbn [fst]; [lia|].
    destruct (N.land (b2n b0) 128 =? 0)%N; cbn [fst]; [lia|].
    destruct (decode_frame (b0 :: t)) as [[h pl]| |]; cbn [fst]; try lia.
    pose proof (acount_accept (fun _ => true) now choice src h pl st I) as A. cbn [ind] in A. lia.
  - unfold gc_expired. pose proof (acount_gc_loop (fun _ : key => true) (tbl st) now st). lia.
Qed.

(* ------------------------------------------------------------------ histories *)

Definition of_src (s : N) (a : action) : bool :=
  match a with Packet _ src _ _ => (src =? s)%N | Tick _ => true end.

(* the outputs at the positions of the actions that concern s *)
Fixpoint outs_of (s : N) (acts : list action) (outs : list (option (N * list byte)))
  : list (option (N * list byte)) :=
  match acts, outs with
  | a :: ta, o :: to => if of_src s a then o :: outs_of s ta to else outs_of s ta to
  | _, _ => []
  end.

Lemma isolation_gen s rbuf acts : forall st1 st2,
  Inv st1 -> Inv st2 -> same_src s st1 st2 ->
  zlen (tbl st1) + zlen acts < 4096 -> zlen (tbl st2) + zlen (filter (of_src s) acts) < 4096 ->
  outs_of s acts (snd (run rbuf st1 acts)) = snd (run rbuf st2 (filter (of_src s) acts)) /\
  same_src s (fst (run rbuf st1 acts)) (fst (run rbuf st2 (filter (of_src s) acts))).
Proof.
  induction acts as [|a t IH]; intros st1 st2 I1 I2 H L1 L2; [split; auto|].
  cbn [run filter outs_of snd fst].
  pose proof (len_step rbuf st1 a I1) as G1.
  pose proof (Inv_step rbuf st1 a I1) as J1.
  unfold zlen in *. cbn [length] in L1.
  revert L2. cbn [filter]. destruct (of_src s a) eqn:O; intros L2.
  - cbn [length] in L2. cbn [run snd fst].
    pose proof (len_step rbuf st2 a I2) as G2.
    pose proof (Inv_step rbuf st2 a I2) as J2.
    assert (S' : snd (step rbuf st1 a) = snd (step rbuf st2 a) /\
                 same_src s (fst (step rbuf st1 a)) (fst (step rbuf st2 a))).
    { destruct a as [now src dg choice|now]; cbn [of_src] in O; cbn [step fst snd].
      - apply N.eqb_eq in O. subst src.
        destruct (on_packet_same s rbuf now choice choice dg st1 st2 I1 I2 H) as (E & S'); unfold zlen; try lia.
        rewrite E. auto.
      - split; auto. now apply gc_same. }
    destruct S' as (E & S').
    destruct (IH (fst (step rbuf st1 a)) (fst (step rbuf st2 a)) J1 J2 S') as (EO & ES); try lia.
    split; [now rewrite E, EO|exact ES].
  - destruct a as [now src dg choice|now]; cbn [of_src] in O; [|discriminate].
    apply N.eqb_neq in O. cbn [step fst snd] in *.
    assert (S' : same_src s (fst (on_packet rbuf now choice src dg st1)) st2).
    { eapply same_src_trans; [|exact H]. apply on_packet_foreign; auto. unfold zlen; lia. }
    destruct (IH _ st2 J1 I2 S') as (EO & ES); try lia.
    split; auto.
Qed.

Lemma filter_len_Z {A} (p : A -> bool) l : zlen (filter p l) <= zlen l.
Proof. unfold zlen. induction l as [|a t IH]; simpl; [lia|]. destruct (p a); simpl; lia. Qed.

(* from any reachable state, below the global cap *)
Lemma source_isolation rbuf s acts0 acts :
  let st := fst (run rbuf r_init acts0) in
  zlen (tbl st) + zlen acts < 4096 ->
  let full := run rbuf st acts in
  let alone := run rbuf st (filter (of_src s) acts) in
  outs_of s acts (snd full) = snd alone /\
  (forall m, tget (s, m) (fst full) = tget (s, m) (fst alone)) /\
  pget s (fst full) = pget s (fst alone).
Proof.
  intros st L full alone.
  assert (I : Inv st) by (apply Inv_run, Inv_init).
  pose proof (filter_len_Z (of_src s) acts) as F.
  destruct (isolation_gen s rbuf acts st st I I (same_src_refl s st)) as (EO & ES); try lia.
  split; [exact EO|]. split; [exact ES|].
  apply pget_same; auto; apply Inv_run; auto.
Qed.

(* what a datagram returns is attributed to the source it came from: nothing is ever returned for s at
   the position of a datagram of another source *)
Lemma out_source rbuf st a o b s :
  snd (step rbuf st a) = Some (s, b) -> o = snd (step rbuf st a) -> of_src s a = true.
Proof.
  intros H _. destruct a as [now src dg choice|now]; cbn [step snd of_src] in *; auto.
  destruct (snd (on_packet rbuf now choice src dg st)); cbn in H; [|discriminate].
  inversion H; subst. apply N.eqb_refl.
Qed.

Lemma outs_attributed rbuf acts : forall st s b n,
  nth_error (snd (run rbuf st acts)) n = Some (Some (s, b)) ->
  exists a, nth_error acts n = Some a /\ of_src s a = true.
Proof.
  induction acts as [|a t IH]; intros st s b n H; cbn [run snd] in H.
  - destruct n; discriminate.
  - destruct n as [|n]; cbn [nth_error] in *.
    + inversion H. exists a. split; auto. eapply out_source; eauto.
    + eapply IH; eauto.
Qed.

(* the hypotheses are satisfiable and the statement has content: two sources, same message id, same chunk
   count, chunks interleaved; each gets its own packet, and deleting the other's datagrams changes nothing *)
Definition iso_f (a b : byte) (idx : N) : list byte := [x80; x07; n2b (idx * 16 + 2); x00; x00; a; b].
Definition iso_acts : list action :=
  [Packet 10 1%N (iso_f xc1 x01 0) (0%N, 0%N); Packet 11 2%N (iso_f xc2 x02 0) (0%N, 0%N);
   Packet 12 2%N (iso_f xc2 x03 1) (0%N, 0%N); Packet 13 1%N (iso_f xc1 x04 1) (0%N, 0%N)].

Example isolation_example :
  snd (run 2048 r_init iso_acts) =
    [None; None; Some (2%N, [xc2; x02; xc2; x03]); Some (1%N, [xc1; x01; xc1; x04])] /\
  snd (run 2048 r_init (filter (of_src 1%N) iso_acts)) = [None; Some (1%N, [xc1; x01; xc1; x04])] /\
  outs_of 1%N iso_acts (snd (run 2048 r_init iso_acts)) = [None; Some (1%N, [xc1; x01; xc1; x04])].
Proof. vm_compute. repeat split. Qed.
