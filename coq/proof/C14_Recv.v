(* C14 proofs, receiver side: reassembly is exact (no chimera, pass-through) over all histories. *)
From Hy Require Import model.C14_Gecko proof.C14_Gecko.
From Coq Require Import ZArith Lia ZifyBool ZifyNat ZifyN.
Local Open Scope Z_scope.
Ltac Zify.zify_post_hook ::= Z.div_mod_to_equations.

(* ------------------------------------------------------------------ slot lists *)

Fixpoint count_some (l : list (option (list byte))) : nat :=
  match l with
  | [] => 0
  | Some _ :: t => S (count_some t)
  | None :: t => count_some t
  end.

Lemma upd_length {A} i (x : A) l : length (upd i x l) = length l.
Proof. revert i. induction l as [|a t IH]; intros [|i]; simpl; auto. Qed.

Lemma nth_error_upd_same {A} i (x : A) l : (i < length l)%nat -> nth_error (upd i x l) i = Some x.
Proof. revert i. induction l as [|a t IH]; intros [|i] H; simpl in *; auto; try lia. apply IH. lia. Qed.

Lemma nth_error_upd_other {A} i j (x : A) l : i <> j -> nth_error (upd i x l) j = nth_error l j.
Proof.
  revert i j. induction l as [|a t IH]; intros [|i] [|j] H; simpl; auto; try congruence.
Qed.

Lemma count_some_le l : (count_some l <= length l)%nat.
Proof. induction l as [|[c|] t IH]; simpl; lia. Qed.

Lemma count_some_upd i c l :
  nth_error l i = Some None -> count_some (upd i (Some c) l) = S (count_some l).
Proof.
  revert i. induction l as [|a t IH]; intros [|i] H; simpl in *; try discriminate.
  - inversion H; subst. reflexivity.
  - destruct a; simpl; rewrite (IH i H); reflexivity.
Qed.

Lemma count_some_repeat n : count_some (repeat None n) = 0%nat.
Proof. induction n; simpl; auto. Qed.

Lemma full_eq l cs :
  length l = length cs -> count_some l = length l ->
  (forall i c, nth_error l i = Some (Some c) -> nth_error cs i = Some c) ->
  map opt_bytes l = cs.
Proof.
  revert cs. induction l as [|o t IH]; intros [|c0 cs] HL HC HP; simpl in *; try discriminate; auto.
  pose proof (count_some_le t) as Le.
  destruct o as [c|]; [|lia].
  f_equal.
  - specialize (HP 0%nat c eq_refl). simpl in HP. now inversion HP.
  - apply IH; try lia. intros i c' H. apply (HP (S i) c' H).
Qed.

Lemma incomplete_has_hole l : (count_some l < length l)%nat -> exists i, nth_error l i = Some None.
Proof.
  induction l as [|[c|] t IH]; simpl; intros H; try lia.
  - destruct IH as (i & Hi); [lia|]. exists (S i). exact Hi.
  - exists 0%nat. reflexivity.
Qed.

(* ------------------------------------------------------------------ one message under one key *)

Definition entry_ok (cs : list (list byte)) (e : entry) : Prop :=
  e_total e = N.of_nat (length cs) /\ length (e_chunks e) = length cs /\
  e_received e = Z.of_nat (count_some (e_chunks e)) /\
  (count_some (e_chunks e) < length cs)%nat /\
  (forall i c, nth_error (e_chunks e) i = Some (Some c) -> nth_error cs i = Some c).

Lemma fresh_ok now h cs :
  h_tot h = N.of_nat (length cs) -> (1 <= length cs)%nat -> entry_ok cs (fresh now h).
Proof.
  intros T L. unfold entry_ok, fresh; cbn [e_total e_chunks e_received].
  rewrite repeat_length, count_some_repeat, T, Nat2N.id. repeat split; auto; try lia.
  intros i c H. exfalso. revert i H. generalize (length cs). intros n.
  induction n as [|n IH]; intros [|i]; simpl; try discriminate. apply IH.
Qed.

(* the exact effect of acceptChunk on its own key, given that the frame belongs to message cs *)
Lemma accept_own now choice src h payload st cs :
  Inv st ->
  (tget (src, h_mid h) st = None \/ exists e, tget (src, h_mid h) st = Some e /\ entry_ok cs e) ->
  h_tot h = N.of_nat (length cs) -> nth_error cs (N.to_nat (h_idx h)) = Some payload ->
  let r := accept_chunk now choice src h payload st in
  (snd r = None /\
   (tget (src, h_mid h) (fst r) = None \/ exists e', tget (src, h_mid h) (fst r) = Some e' /\ entry_ok cs e')) \/
  (snd r = Some (concat cs) /\ tget (src, h_mid h) (fst r) = None).
Proof.
  intros I Own T P. cbv zeta.
  assert (IL : (N.to_nat (h_idx h) < length cs)%nat) by (apply nth_error_Some; congruence).
  unfold accept_chunk.
  destruct (find_or_create now choice src h st) as [[st2 e]|] eqn:F; cycle 1.
  { left. cbn [fst snd]. split; auto. }
  destruct (find_or_create_spec _ _ _ _ _ _ _ I F) as (I2 & T2).
  assert (EO : entry_ok cs e).
  { destruct (find_or_create_own _ _ _ _ _ _ _ F) as [(E & _ & _)|(_ & -> & _)].
    - destruct Own as [N|(e0 & E0 & O)]; congruence.
    - apply fresh_ok; auto. lia. }
  destruct EO as (E1 & E2 & E3 & E4 & E5).
  destruct (nth_error (e_chunks e) (N.to_nat (h_idx h))) as [[c|]|] eqn:NE.
  - left. cbn [fst snd]. split; auto. right. exists e. unfold entry_ok. repeat split; auto.
  - set (ch' := upd (N.to_nat (h_idx h)) (Some payload) (e_chunks e)).
    assert (C' : count_some ch' = S (count_some (e_chunks e))) by (apply count_some_upd; auto).
    assert (P' : forall i c, nth_error ch' i = Some (Some c) -> nth_error cs i = Some c).
    { intros i c. unfold ch'. destruct (Nat.eq_dec (N.to_nat (h_idx h)) i) as [<-|Ne].
      - rewrite nth_error_upd_same by lia. intros H; inversion H; subst. auto.
      - rewrite nth_error_upd_other by auto. apply E5. }
    cbn [e_received e_total e_chunks]. rewrite E1, E3.
    destruct (Z.of_nat (count_some (e_chunks e)) + 1 <? Z.of_N (N.of_nat (length cs))) eqn:Q.
    + left. cbn [fst snd]. split; auto. right. eexists. split.
      * unfold tget; cbn [tbl]. apply (aget_aset_same keqb keqb_spec).
      * unfold entry_ok; cbn [e_total e_chunks e_received]. fold ch'.
        unfold ch' at 1. rewrite upd_length. rewrite C'. repeat split; auto; lia.
    + right. cbn [fst snd]. split; [|apply tget_drop_same].
      f_equal. f_equal. fold ch'. apply full_eq; auto.
      * unfold ch'. now rewrite upd_length.
      * unfold ch' at 2. rewrite upd_length. lia.
  - exfalso. apply nth_error_None in NE. lia.
Qed.

(* ------------------------------------------------------------------ histories *)

(* M: the message (as its list of chunk payloads) travelling under each (source, message id) *)
Definition msgmap := key -> option (list (list byte)).

Definition Cons (M : msgmap) (st : rstate) : Prop :=
  forall k e cs, tget k st = Some e -> M k = Some cs -> entry_ok cs e.

(* a datagram that decodes as a frame under a key of M is a frame of that message *)
Definition conforms (M : msgmap) (a : action) : Prop :=
  match a with
  | Tick _ => True
  | Packet now src dg choice =>
      forall h pl, decode_frame (firstn 2048 dg) = Ok (h, pl) ->
      forall cs, M (src, h_mid h) = Some cs ->
        h_tot h = N.of_nat (length cs) /\ nth_error cs (N.to_nat (h_idx h)) = Some pl
  end.

(* what ReadFrom may return for one action *)
Definition out_ok (M : msgmap) (rbuf : nat) (a : action) (o : option (N * list byte)) : Prop :=
  match a with
  | Tick _ => o = None
  | Packet now src dg choice =>
      match firstn 2048 dg with
      | [] => o = None
      | b0 :: t =>
          if (N.land (b2n b0) 128 =? 0)%N then o = Some (src, firstn rbuf (b0 :: t))
          else match decode_frame (b0 :: t) with
               | Ok (h, pl) => forall cs, M (src, h_mid h) = Some cs ->
                                 o = None \/ o = Some (src, firstn rbuf (concat cs))
               | _ => o = None
               end
      end
  end.

Lemma Cons_init M : Cons M r_init.
Proof. intros k e cs H. discriminate. Qed.

Lemma step_cons M rbuf st a :
  Inv st -> Cons M st -> conforms M a ->
  Cons M (fst (step rbuf st a)) /\ out_ok M rbuf a (snd (step rbuf st a)).
Proof.
  intros I C CF. destruct a as [now src dg choice|now].
  - cbn [step out_ok conforms] in *. unfold on_packet. change (Z.to_nat geckoBufferSize) with 2048%nat.
    destruct (firstn 2048 dg) as [|b0 t] eqn:FB; cbn [fst snd option_map]; auto.
    destruct (N.land (b2n b0) 128 =? 0)%N eqn:TB; cbn [fst snd option_map]; auto.
    destruct (decode_frame (b0 :: t)) as [[h pl]|e|s] eqn:D; cbn [fst snd option_map]; auto.
    split.
    + intros k e cs Hk HM.
      destruct (keqb_spec k (src, h_mid h)) as [->|N].
      * destruct (CF h pl eq_refl cs HM) as (T & P).
        assert (Own : tget (src, h_mid h) st = None \/ exists e0, tget (src, h_mid h) st = Some e0 /\ entry_ok cs e0).
        { destruct (tget (src, h_mid h) st) as [e0|] eqn:E0; eauto. }
        destruct (accept_own now choice src h pl st cs I Own T P) as [(_ & [N|(e' & E' & O')])|(_ & N)]; congruence.
      * destruct (accept_other now choice src h pl st k N) as [E|E]; rewrite E in Hk; [eauto|discriminate].
    + intros cs HM. destruct (CF h pl eq_refl cs HM) as (T & P).
      assert (Own : tget (src, h_mid h) st = None \/ exists e0, tget (src, h_mid h) st = Some e0 /\ entry_ok cs e0).
      { destruct (tget (src, h_mid h) st) as [e0|] eqn:E0; eauto. }
      destruct (accept_own now choice src h pl st cs I Own T P) as [(-> & _)|(-> & _)]; cbn; auto.
  - cbn [step out_ok fst snd]. split; auto.
    intros k e cs Hk HM. rewrite gc_spec in Hk by auto.
    destruct (tget k st) as [e0|] eqn:E0; [|discriminate].
    destruct (e_deadline e0 <? now); [discriminate|]. inversion Hk; subst. eauto.
Qed.

Lemma run_cons M rbuf acts : forall st,
  Inv st -> Cons M st -> Forall (conforms M) acts ->
  Cons M (fst (run rbuf st acts)) /\ Forall2 (out_ok M rbuf) acts (snd (run rbuf st acts)).
Proof.
  induction acts as [|a t IH]; intros st I C F; cbn [run fst snd].
  - split; auto.
  - inversion F; subst.
    destruct (step_cons M rbuf st a I C H1) as (C1 & O1).
    destruct (IH (fst (step rbuf st a)) (Inv_step rbuf st a I) C1 H2) as (C2 & O2).
    split; auto.
Qed.

(* No chimera, pass-through, silent drop of junk - for every history from the empty state. *)
Lemma no_chimera M rbuf acts :
  Forall (conforms M) acts ->
  Forall2 (out_ok M rbuf) acts (snd (run rbuf r_init acts)).
Proof.
  intros F. apply (run_cons M rbuf acts r_init Inv_init (Cons_init M) F).
Qed.

(* ------------------------------------------------------------------ counting under a packet *)

Lemma acount_true {V} (t : list (key * V)) : acount (fun _ : key => true) t = length t.
Proof. unfold acount. induction t as [|a t IH]; simpl; auto. Qed.

Lemma acount_adel_le {V} (q : key -> bool) k (t : list (key * V)) :
  (acount q (adel keqb k t) <= acount q t)%nat.
Proof.
  unfold acount, adel. induction t as [|[k1 v] t IH]; simpl; auto.
  destruct (negb (keqb k k1)); simpl; destruct (q k1); simpl; lia.
Qed.

Lemma acount_aset (q : key -> bool) k (e : entry) t :
  NoDup (akeys t) ->
  (acount q (aset keqb k e t) <= acount q t + ind (q k))%nat /\
  (aget keqb k t <> None -> acount q (aset keqb k e t) = acount q t).
Proof.
  intros ND. unfold aset. rewrite acount_cons. cbn [fst].
  destruct (aget keqb k t) as [e0|] eqn:A.
  - pose proof (acount_adel_present keqb keqb_spec q k e0 t ND A) as H. unfold ind.
    split; [destruct (q k); lia|]. intros _. destruct (q k); lia.
  - rewrite (adel_absent keqb k t A). unfold ind. split; [destruct (q k); lia|]. congruence.
Qed.

Lemma acount_drop_le q k st : (acount q (tbl (drop_entry k st)) <= acount q (tbl st))%nat.
Proof.
  unfold drop_entry. destruct (tget k st); cbn [tbl]; [apply acount_adel_le|lia].
Qed.

Lemma acount_gc_loop q l now st : (acount q (tbl (gc_loop l now st)) <= acount q (tbl st))%nat.
Proof.
  revert st. induction l as [|[k e] t IH]; intros st; simpl; [lia|].
  etransitivity; [apply IH|]. destruct (e_deadline e <? now); [apply acount_drop_le|lia].
Qed.

Lemma acount_evict q choice st : (acount q (tbl (evict_oldest choice st)) <= acount q (tbl st))%nat.
Proof.
  destruct (evict_is_drop choice st) as [[-> _]|(k & e & _ & ->)]; [lia|apply acount_drop_le].
Qed.

Lemma acount_accept q now choice src h pl st :
  Inv st ->
  (acount q (tbl (fst (accept_chunk now choice src h pl st))) <= acount q (tbl st) + ind (q (src, h_mid h)))%nat.
Proof.
  intros I. unfold accept_chunk.
  destruct (find_or_create now choice src h st) as [[st2 e]|] eqn:F; [|cbn; lia].
  destruct (find_or_create_spec _ _ _ _ _ _ _ I F) as (I2 & T2).
  assert (A2 : (acount q (tbl st2) <= acount q (tbl st) + ind (q (src, h_mid h)))%nat).
  { revert F. unfold find_or_create. destruct (tget (src, h_mid h) st) as [e0|] eqn:T.
    - destruct (e_total e0 =? h_tot h)%N; [|discriminate]. intros H; inversion H; subst. lia.
    - destruct (geckoMaxPerSource <=? pget src st); [discriminate|].
      intros H; inversion H; subst; clear H. cbn [tbl].
      set (st1 := if geckoMaxReassembly <=? zlen (tbl st) then evict_oldest choice st else st).
      assert (I1 : Inv st1) by (unfold st1; destruct (geckoMaxReassembly <=? zlen (tbl st)); auto using Inv_evict).
      assert (L1 : (acount q (tbl st1) <= acount q (tbl st))%nat)
        by (unfold st1; destruct (geckoMaxReassembly <=? zlen (tbl st)); [apply acount_evict|lia]).
      destruct I1 as (ND1 & _).
      destruct (acount_aset q (src, h_mid h) (fresh now h) (tbl st1) ND1) as (Le & _).
      unfold fresh in Le. lia. }
  destruct I2 as (ND2 & _).
  assert (U : forall e', acount q (aset keqb (src, h_mid h) e' (tbl st2)) = acount q (tbl st2)).
  { intros e'. apply acount_aset; auto. unfold tget in T2. congruence. }
  destruct (nth_error (e_chunks e) (N.to_nat (h_idx h))) as [[c|]|]; cbn [fst]; auto.
  match goal with |- context [if ?c then _ else _] => destruct c end; cbn [fst tbl].
  - rewrite U. lia.
  - etransitivity; [apply acount_drop_le|]. cbn [tbl]. rewrite U. lia.
Qed.

Lemma accept_other_noevict now choice src h payload st k' :
  zlen (tbl st) < 4096 -> k' <> (src, h_mid h) ->
  tget k' (fst (accept_chunk now choice src h payload st)) = tget k' st.
Proof.
  intros L N. unfold accept_chunk.
  destruct (find_or_create now choice src h st) as [[st2 e]|] eqn:F; [|auto].
  assert (O : tget k' st2 = tget k' st).
  { revert F. unfold find_or_create. destruct (tget (src, h_mid h) st) as [e0|] eqn:T.
    - destruct (e_total e0 =? h_tot h)%N; [|discriminate]. intros H; inversion H; subst. auto.
    - destruct (geckoMaxPerSource <=? pget src st); [discriminate|].
      unfold geckoMaxReassembly. destruct (4096 <=? zlen (tbl st)) eqn:G; [lia|].
      intros H; inversion H; subst; clear H.
      unfold tget; cbn [tbl]. now rewrite (aget_aset_other keqb keqb_spec) by auto. }
  destruct (nth_error (e_chunks e) (N.to_nat (h_idx h))) as [[c|]|]; cbn [fst]; auto.
  match goal with |- context [if ?c then _ else _] => destruct c end; cbn [fst].
  - unfold tget; cbn [tbl]. rewrite (aget_aset_other keqb keqb_spec) by auto. exact O.
  - rewrite tget_drop_other by auto.
    unfold tget; cbn [tbl]. rewrite (aget_aset_other keqb keqb_spec) by auto. exact O.
Qed.

(* progress on the packet's own key when the source is not at its cap *)
Lemma accept_own_live now choice src h payload st cs :
  Inv st ->
  (tget (src, h_mid h) st = None \/ exists e, tget (src, h_mid h) st = Some e /\ entry_ok cs e) ->
  h_tot h = N.of_nat (length cs) -> nth_error cs (N.to_nat (h_idx h)) = Some payload ->
  (tget (src, h_mid h) st = None -> pget src st < 8) ->
  let r := accept_chunk now choice src h payload st in
  snd r = Some (concat cs) \/
  (snd r = None /\ exists e', tget (src, h_mid h) (fst r) = Some e' /\ entry_ok cs e' /\
     (exists c, nth_error (e_chunks e') (N.to_nat (h_idx h)) = Some (Some c)) /\
     (forall e j c, tget (src, h_mid h) st = Some e -> nth_error (e_chunks e) j = Some (Some c) ->
                    exists c', nth_error (e_chunks e') j = Some (Some c'))).
Proof.
  intros I Own T P Cap. cbv zeta.
  assert (IL : (N.to_nat (h_idx h) < length cs)%nat) by (apply nth_error_Some; congruence).
  unfold accept_chunk.
  destruct (find_or_create now choice src h st) as [[st2 e]|] eqn:F; cycle 1.
  { exfalso. revert F. unfold find_or_create.
    destruct (tget (src, h_mid h) st) as [e0|] eqn:E0.
    - destruct Own as [N|(e1 & E1 & O)]; [discriminate|]. inversion E1; subst.
      destruct O as (O1 & _). rewrite O1, T, N.eqb_refl. discriminate.
    - specialize (Cap eq_refl). unfold geckoMaxPerSource.
      destruct (8 <=? pget src st) eqn:Q; [lia|discriminate]. }
  destruct (find_or_create_spec _ _ _ _ _ _ _ I F) as (I2 & T2).
  assert (EO : entry_ok cs e /\
               (forall e0 j c, tget (src, h_mid h) st = Some e0 -> nth_error (e_chunks e0) j = Some (Some c) ->
                               nth_error (e_chunks e) j = Some (Some c))).
  { destruct (find_or_create_own _ _ _ _ _ _ _ F) as [(E & _ & _)|(E & -> & _)].
    - destruct Own as [N|(e0 & E0 & O)]; [congruence|]. split; [congruence|].
      intros e1 j c H1. rewrite E in H1. inversion H1; subst. auto.
    - split; [apply fresh_ok; auto; lia|]. intros e0 j c H1. congruence. }
  destruct EO as ((E1 & E2 & E3 & E4 & E5) & Mono).
  destruct (nth_error (e_chunks e) (N.to_nat (h_idx h))) as [[c|]|] eqn:NE.
  - right. cbn [fst snd]. split; auto. exists e. split; auto. split; [unfold entry_ok; repeat split; auto|].
    split; [eauto|]. intros e0 j c0 H1 H2. eauto.
  - set (ch' := upd (N.to_nat (h_idx h)) (Some payload) (e_chunks e)).
    assert (C' : count_some ch' = S (count_some (e_chunks e))) by (apply count_some_upd; auto).
    assert (P' : forall i c, nth_error ch' i = Some (Some c) -> nth_error cs i = Some c).
    { intros i c. unfold ch'. destruct (Nat.eq_dec (N.to_nat (h_idx h)) i) as [<-|Ne].
      - rewrite nth_error_upd_same by lia. intros H; inversion H; subst. auto.
      - rewrite nth_error_upd_other by auto. apply E5. }
    cbn [e_received e_total e_chunks]. rewrite E1, E3.
    destruct (Z.of_nat (count_some (e_chunks e)) + 1 <? Z.of_N (N.of_nat (length cs))) eqn:Q.
    + right. cbn [fst snd]. split; auto. eexists. split.
      { unfold tget; cbn [tbl]. apply (aget_aset_same keqb keqb_spec). }
      split.
      { unfold entry_ok; cbn [e_total e_chunks e_received]. fold ch'.
        unfold ch' at 1. rewrite upd_length. rewrite C'. repeat split; auto; lia. }
      cbn [e_chunks]. fold ch'. split.
      { exists payload. unfold ch'. apply nth_error_upd_same. lia. }
      intros e0 j c0 H1 H2. pose proof (Mono e0 j c0 H1 H2) as H3.
      unfold ch'. destruct (Nat.eq_dec (N.to_nat (h_idx h)) j) as [<-|Ne].
      * rewrite nth_error_upd_same by lia. eauto.
      * rewrite nth_error_upd_other by auto. eauto.
    + left. cbn [fst snd]. f_equal. f_equal. fold ch'. apply full_eq; auto.
      * unfold ch'. now rewrite upd_length.
      * unfold ch' at 2. rewrite upd_length. lia.
  - exfalso. apply nth_error_None in NE. lia.
Qed.

(* ------------------------------------------------------------------ delivery (liveness) *)

Section Live.
  Variables (rbuf : nat) (src mid : N) (cs : list (list byte)) (T : Z).
  Let k : key := (src, mid).
  Let n := length cs.
  Let M : msgmap := fun k' => if keqb k' k then Some cs else None.

  (* action a delivers chunk i of the message *)
  Definition ours (i : nat) (a : action) : Prop :=
    match a with
    | Packet now s dg _ => s = src /\ exists pad, decode_frame (firstn 2048 dg) =
                             Ok (mkHdr pad mid (N.of_nat i) (N.of_nat n), nth i cs [])
    | Tick _ => False
    end.

  (* no gc call later than T; every packet arrives no earlier than T - TTL *)
  Definition timely (a : action) : Prop :=
    match a with
    | Tick t => t <= T
    | Packet now _ _ _ => T <= now + geckoReassemblyTTLns
    end.

  (* frames of OTHER messages of the same source (they compete for its 8 slots) *)
  Definition fb (a : action) : bool :=
    match a with
    | Packet _ s dg _ =>
        (s =? src)%N && match decode_frame (firstn 2048 dg) with
                        | Ok (h, _) => negb (h_mid h =? mid)%N
                        | _ => false
                        end
    | Tick _ => false
    end.
  Definition foreign (l : list action) : nat := length (filter fb l).

  Definition others (st : rstate) : nat :=
    acount (fun k' : key => (fst k' =? src)%N && negb (keqb k' k)) (tbl st).

  Definition filled (st : rstate) (i : nat) : Prop :=
    exists e c, tget k st = Some e /\ nth_error (e_chunks e) i = Some (Some c).

  Definition own_ok (st : rstate) : Prop :=
    tget k st = None \/ exists e, tget k st = Some e /\ entry_ok cs e /\ T <= e_deadline e.

  Definition target : option (N * list byte) := Some (src, firstn rbuf (concat cs)).

  Lemma count_src_others st : tget k st = None -> count_src src st = others st.
  Proof.
    unfold tget, count_src, others, acount. intros A. f_equal.
    apply (aget_None_notin keqb keqb_spec) in A. unfold akeys in A.
    induction (tbl st) as [|[k1 e1] t IH]; simpl in *; auto.
    assert (N1 : k1 <> k) by tauto.
    destruct (keqb_spec k1 k) as [->|_]; [congruence|]. rewrite andb_true_r.
    destruct (fst k1 =? src)%N; simpl; rewrite IH; tauto.
  Qed.

  Definition gecko_of (dg : list byte) : option (hdr * list byte) :=
    match firstn 2048 dg with
    | [] => None
    | b0 :: tl => if (N.land (b2n b0) 128 =? 0)%N then None
                  else match decode_frame (b0 :: tl) with Ok x => Some x | _ => None end
    end.

  Lemma step_gecko now s dg choice st h pl :
    gecko_of dg = Some (h, pl) ->
    decode_frame (firstn 2048 dg) = Ok (h, pl) /\
    step rbuf st (Packet now s dg choice) =
      (fst (accept_chunk now choice s h pl st),
       option_map (fun o => (s, o)) (option_map (firstn rbuf) (snd (accept_chunk now choice s h pl st)))).
  Proof.
    unfold gecko_of. cbn [step]. unfold on_packet. change (Z.to_nat geckoBufferSize) with 2048%nat.
    destruct (firstn 2048 dg) as [|b0 tl]; [discriminate|].
    destruct (N.land (b2n b0) 128 =? 0)%N; [discriminate|].
    destruct (decode_frame (b0 :: tl)) as [[h' pl']| |]; try discriminate.
    intros H; inversion H; subst. split; reflexivity.
  Qed.

  Lemma step_nongecko now s dg choice st :
    gecko_of dg = None ->
    fst (step rbuf st (Packet now s dg choice)) = st /\ forall i, ~ ours i (Packet now s dg choice).
  Proof.
    unfold gecko_of. cbn [step ours]. unfold on_packet. change (Z.to_nat geckoBufferSize) with 2048%nat.
    destruct (firstn 2048 dg) as [|b0 tl] eqn:FB.
    - intros _. split; auto. intros i (_ & pad & D). discriminate.
    - destruct (N.land (b2n b0) 128 =? 0)%N eqn:TB.
      + intros _. split; auto. intros i (_ & pad & D). apply decode_ok in D.
        destruct D as (_ & _ & _ & D & _). cbn [nth] in D. congruence.
      + destruct (decode_frame (b0 :: tl)) as [[h' pl']| |]; try discriminate;
          intros _; (split; [reflexivity|]); intros i (_ & pad & D); discriminate.
  Qed.

  Hypothesis n2 : (2 <= n)%nat.

  Lemma live acts : forall st,
    Inv st -> own_ok st ->
    Forall (conforms M) acts -> Forall timely acts ->
    zlen (tbl st) + Z.of_nat (length acts) < 4096 ->
    (others st + foreign acts <= 7)%nat ->
    (forall i, (i < n)%nat -> ~ filled st i -> Exists (ours i) acts) ->
    Exists (fun o => o = target) (snd (run rbuf st acts)).
  Proof.
    induction acts as [|a rest IH]; intros st I Own CF TM LEN OTH MISS.
    - exfalso. destruct Own as [A|(e & E & O & _)].
      + assert (X : Exists (ours 0) []) by (apply MISS; [lia|]; intros (e & c & E & _); congruence).
        inversion X.
      + destruct O as (_ & O2 & _ & O4 & _). fold n in O2, O4.
        destruct (incomplete_has_hole (e_chunks e)) as (i & Hi); [lia|].
        assert (X : Exists (ours i) []).
        { apply MISS.
          - rewrite <- O2. apply nth_error_Some. congruence.
          - intros (e' & c & E' & H). rewrite E in E'. inversion E'; subst. congruence. }
        inversion X.
    - cbn [run snd]. inversion CF as [|? ? CFa CFr]; subst. inversion TM as [|? ? TMa TMr]; subst.
      cbn [length] in LEN.
      remember (fst (step rbuf st a)) as st1 eqn:Est1. remember (snd (step rbuf st a)) as o eqn:Eo.
      assert (I1 : Inv st1) by (rewrite Est1; apply Inv_step; auto).
      (* it is enough to establish the induction hypothesis' premises, or that o is the target *)
      enough (H : o = target \/
                  (own_ok st1 /\ zlen (tbl st1) <= zlen (tbl st) + 1 /\
                   (others st1 + foreign rest <= 7)%nat /\
                   (forall i, (i < n)%nat -> ~ filled st1 i -> Exists (ours i) rest))).
      { destruct H as [H|(H1 & H2 & H3 & H4)]; [now apply Exists_cons_hd|].
        apply Exists_cons_tl. apply IH; auto. lia. }
      destruct a as [now s dg choice|t].
      + (* Packet *)
        cbn [timely] in TMa. cbn [conforms] in CFa.
        assert (FR : (foreign (Packet now s dg choice :: rest) = ind (fb (Packet now s dg choice)) + foreign rest)%nat).
        { unfold foreign. cbn [filter]. destruct (fb (Packet now s dg choice)); reflexivity. }
        destruct (gecko_of dg) as [[h pl]|] eqn:G; cycle 1.
        { (* the packet changes nothing: empty, pass-through, undecodable *)
          destruct (step_nongecko now s dg choice st G) as (E & NO). rewrite <- Est1 in E.
          right. rewrite E. repeat split; auto; try lia.
          intros i Hi NF. specialize (MISS i Hi NF). inversion MISS; subst; auto. exfalso; eapply NO; eauto. }
        destruct (step_gecko now s dg choice st h pl G) as (D & ST).
        rewrite ST in Est1, Eo. cbn [fst snd] in Est1, Eo.
        assert (FB : forall pad i, decode_frame (firstn 2048 dg) = Ok (mkHdr pad mid (N.of_nat i) (N.of_nat n), nth i cs []) ->
                     h = mkHdr pad mid (N.of_nat i) (N.of_nat n)) by (intros pad i D'; congruence).
        assert (FBV : fb (Packet now s dg choice) = (s =? src)%N && negb (h_mid h =? mid)%N)
          by (unfold fb; now rewrite D).
        subst st1.
        set (r := accept_chunk now choice s h pl st) in Eo |- *.
        assert (LEN1 : zlen (tbl (fst r)) <= zlen (tbl st) + 1).
        { pose proof (acount_accept (fun _ => true) now choice s h pl st I) as A.
          rewrite !acount_true in A. unfold ind in A. unfold zlen, r. lia. }
        destruct (keqb_spec (s, h_mid h) k) as [EK|NK].
        * (* a frame under our key *)
          assert (HS : s = src) by (inversion EK; auto).
          assert (HM : h_mid h = mid) by (inversion EK; auto). subst s.
          assert (MK : M (src, h_mid h) = Some cs).
          { unfold M. rewrite HM. fold k. now rewrite (eqb_refl keqb keqb_spec). }
          destruct (CFa h pl D cs MK) as (TT & PP).
          assert (Own' : tget (src, h_mid h) st = None \/
                         exists e, tget (src, h_mid h) st = Some e /\ entry_ok cs e).
          { rewrite HM. fold k. destruct Own as [A|(e & E & O & _)]; eauto. }
          assert (Cap : tget (src, h_mid h) st = None -> pget src st < 8).
          { rewrite HM. fold k. intros A. destruct I as (_ & _ & CC & _). rewrite (CC src).
            rewrite (count_src_others st A). lia. }
          destruct (accept_own_live now choice src h pl st cs I Own' TT PP Cap)
            as [EM|(EN & e' & E' & O' & (c & FI) & MONO)].
          { left. fold r in EM. rewrite Eo, EM. reflexivity. }
          right. fold r in E'. rewrite HM in E', MONO. fold k in E', MONO.
          split; [|split; [exact LEN1|split]].
          -- right. exists e'. split; auto. split; auto.
             pose proof (accept_own_deadline now choice src h pl st e' I) as DL.
             fold r in DL. rewrite HM in DL. fold k in DL. specialize (DL E').
             destruct Own as [A|(e & E & _ & O3)].
             ++ rewrite A in DL. lia.
             ++ rewrite E in DL. lia.
          -- pose proof (acount_accept (fun k' : key => (fst k' =? src)%N && negb (keqb k' k)) now choice src h pl st I) as A.
             rewrite HM in A. fold k in A. rewrite (eqb_refl keqb keqb_spec), andb_false_r in A.
             fold r in A. unfold others. unfold ind in A. rewrite FR in OTH. unfold others in OTH. lia.
          -- intros i Hi NF.
             assert (NF0 : ~ filled st i).
             { intros (e0 & c0 & E0 & H0). apply NF. destruct (MONO e0 i c0 E0 H0) as (c' & Hc').
               exists e', c'. auto. }
             specialize (MISS i Hi NF0). inversion MISS as [? ? OU|]; subst; auto.
             exfalso. apply NF. destruct OU as (_ & pad & D'). pose proof (FB pad i D') as HH.
             rewrite HH in FI. cbn [h_idx] in FI. rewrite Nat2N.id in FI. exists e', c. auto.
        * (* a frame under another key *)
          assert (LT : zlen (tbl st) < 4096) by lia.
          assert (NK' : k <> (s, h_mid h)) by congruence.
          pose proof (accept_other_noevict now choice s h pl st k LT NK') as KEEP. fold r in KEEP.
          right. split; [|split; [exact LEN1|split]].
          -- destruct Own as [A|(e & E & O)]; [left|right; exists e]; rewrite KEEP; auto.
          -- pose proof (acount_accept (fun k' : key => (fst k' =? src)%N && negb (keqb k' k)) now choice s h pl st I) as A.
             fold r in A. unfold others. rewrite FR in OTH. unfold others in OTH. cbn [fst] in A.
             assert (IND : (ind ((s =? src)%N && negb (keqb (s, h_mid h) k)) <= ind (fb (Packet now s dg choice)))%nat).
             { rewrite FBV. destruct (N.eqb_spec s src) as [->|]; cbn [andb ind]; [|lia].
               destruct (keqb_spec (src, h_mid h) k) as [|_]; [congruence|].
               destruct (N.eqb_spec (h_mid h) mid) as [E|_]; [exfalso; apply NK; unfold k; congruence|].
               cbn. lia. }
             lia.
          -- intros i Hi NF.
             assert (NF0 : ~ filled st i).
             { intros (e0 & c0 & E0 & H0). apply NF. exists e0, c0. rewrite KEEP. auto. }
             specialize (MISS i Hi NF0). inversion MISS as [? ? OU|]; subst; auto.
             exfalso. destruct OU as (HS & pad & D'). pose proof (FB pad i D') as HH.
             apply NK. rewrite HS, HH. reflexivity.
      + (* Tick *)
        cbn [timely] in TMa. right. cbn [step fst] in Est1.
        assert (KEEP : tget k st1 = tget k st).
        { rewrite Est1. rewrite gc_spec by auto.
          destruct Own as [A|(e & E & _ & O3)]; [now rewrite A|].
          rewrite E. destruct (e_deadline e <? t) eqn:Q; [lia|reflexivity]. }
        split; [|split; [|split]].
        * destruct Own as [A|(e & E & O)]; [left|right; exists e]; rewrite KEEP; auto.
        * rewrite Est1. unfold gc_expired.
          pose proof (acount_gc_loop (fun _ => true) (tbl st) t st) as A. rewrite !acount_true in A.
          unfold zlen. lia.
        * rewrite Est1. unfold gc_expired, others.
          pose proof (acount_gc_loop (fun k' : key => (fst k' =? src)%N && negb (keqb k' k)) (tbl st) t st) as A.
          unfold foreign in *. cbn [filter fb] in OTH. unfold others in OTH. lia.
        * intros i Hi NF.
          assert (NF0 : ~ filled st i).
          { intros (e0 & c0 & E0 & H0). apply NF. exists e0, c0. rewrite KEEP. auto. }
          specialize (MISS i Hi NF0). inversion MISS as [? ? OU|]; subst; auto. destruct OU.
  Qed.
End Live.
