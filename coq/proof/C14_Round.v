(* C14 proofs: the sender's frames through the receiver, any arrival order. *)
From Hy Require Import model.C14_Gecko proof.C14_Gecko proof.C14_Sender proof.C14_Recv.
From Coq Require Import ZArith Lia ZifyBool ZifyNat ZifyN.
Local Open Scope Z_scope.

Definition one_msg (src mid : N) (cs : list (list byte)) : msgmap :=
  fun k' => if keqb k' (src, mid) then Some cs else None.

Lemma concat_elem_le (cs : list (list byte)) i : zlen (nth i cs []) <= zlen (concat cs).
Proof.
  unfold zlen. revert i. induction cs as [|c cs IH]; intros [|i]; cbn [nth concat]; try (cbn; lia).
  - rewrite app_length. lia.
  - rewrite app_length. specialize (IH i). lia.
Qed.

(* frames never exceed the receiver's read buffer for packets up to 2043 bytes *)
Lemma frames_fit c mid cs fs :
  cfg_ok c -> frames_ok c mid cs fs -> zlen (concat cs) <= 2043 ->
  forall f, In f fs -> zlen f <= 2048.
Proof.
  intros (A & B & C) (L & F) P f I.
  destruct (In_nth fs f [] I) as (i & Hi & <-).
  rewrite L in Hi. destruct (F i Hi) as (pad & _ & LF & R1 & R2).
  pose proof (concat_elem_le cs i).
  destruct (Z_le_gt_dec (13 + zlen (nth i cs [])) (c_max c)) as [Le|Gt].
  - specialize (R1 Le). lia.
  - rewrite R2 in LF by lia. lia.
Qed.

Lemma firstn_fit (f : list byte) : zlen f <= 2048 -> firstn 2048 f = f.
Proof. intros H. apply firstn_all2. unfold zlen in H. lia. Qed.

Lemma roundtrip c mid cs fs rbuf src T acts0 acts :
  frames_ok c mid cs fs -> (2 <= length cs)%nat -> (forall f, In f fs -> zlen f <= 2048) ->
  let st := fst (run rbuf r_init acts0) in
  tget (src, mid) st = None ->
  (forall now dg choice h pl, In (Packet now src dg choice) acts ->
     decode_frame (firstn 2048 dg) = Ok (h, pl) -> h_mid h = mid -> In dg fs) ->
  (forall f, In f fs -> exists now choice, In (Packet now src f choice) acts) ->
  Forall (timely T) acts ->
  zlen (tbl st) + Z.of_nat (length acts) < 4096 ->
  (others src mid st + foreign src mid acts <= 7)%nat ->
  let outs := snd (run rbuf st acts) in
  Exists (fun o => o = Some (src, firstn rbuf (concat cs))) outs /\
  Forall2 (out_ok (one_msg src mid cs) rbuf) acts outs.
Proof.
  intros (LF & FO) N2 FIT st ABS CONF ALL TM LEN OTH outs.
  assert (I : Inv st) by (apply Inv_run, Inv_init).
  assert (CF : Forall (conforms (one_msg src mid cs)) acts).
  { apply Forall_forall. intros [now s dg choice|t] IN; cbn [conforms]; auto.
    intros h pl D cs' HM. unfold one_msg in HM.
    destruct (keqb_spec (s, h_mid h) (src, mid)) as [E|]; [|discriminate].
    inversion HM; subst cs'. inversion E; subst s. 
    pose proof (CONF now dg choice h pl IN D H1) as INF.
    destruct (In_nth fs dg [] INF) as (i & Hi & <-).
    rewrite LF in Hi. destruct (FO i Hi) as (pad & DF & _).
    rewrite firstn_fit in D by (apply FIT; apply nth_In; lia).
    rewrite DF in D. inversion D; subst. cbn [h_tot h_idx]. split; auto.
    rewrite Nat2N.id. apply nth_error_nth'. lia. }
  split.
  - apply (live rbuf src mid cs T N2 acts st I); auto.
    + left. exact ABS.
    + intros i Hi _.
      assert (INF : In (nth i fs []) fs) by (apply nth_In; lia).
      destruct (ALL _ INF) as (now & choice & IN).
      apply Exists_exists. exists (Packet now src (nth i fs []) choice). split; auto.
      cbn [ours]. split; auto. destruct (FO i Hi) as (pad & DF & _). exists pad.
      rewrite firstn_fit by (apply FIT; auto). exact DF.
  - apply (run_cons (one_msg src mid cs) rbuf acts st I); auto.
    intros k e cs' HK HM. unfold one_msg in HM.
    destruct (keqb_spec k (src, mid)) as [->|]; [|discriminate]. congruence.
Qed.

(* wrappers over reachable states *)
Lemma ttl_sweep rbuf acts now k :
  let st := fst (run rbuf r_init acts) in
  tget k (fst (step rbuf st (Tick now))) =
  match tget k st with Some e => if e_deadline e <? now then None else Some e | None => None end.
Proof. exact (gc_spec k now _ (Inv_run rbuf acts r_init Inv_init)). Qed.

Lemma ttl_deadline rbuf acts now src dg choice k e' :
  let st := fst (run rbuf r_init acts) in
  tget k (fst (step rbuf st (Packet now src dg choice))) = Some e' ->
  match tget k st with
  | Some e => e_deadline e' = e_deadline e
  | None => e_deadline e' = now + 8000000000
  end.
Proof. exact (step_deadline rbuf _ now src dg choice k e' (Inv_run rbuf acts r_init Inv_init)). Qed.

(* with the gc loop ticking every TTL/2, the first tick after a deadline d comes no later than d + TTL/2 *)
Lemma tick_after_deadline t0 d :
  0 <= t0 <= d -> exists t, In t (ticks_between t0 (d + 4000000000)) /\ d < t <= d + 4000000000.
Proof.
  intros H. unfold ticks_between, geckoReassemblyTTLns. change (8000000000 / 2) with 4000000000.
  set (P := 4000000000).
  assert (HP : 0 < P) by (unfold P; lia).
  assert (Q1 : t0 / P <= d / P) by (apply Z.div_le_mono; lia).
  assert (Q2 : (d + P) / P = d / P + 1).
  { replace (d + P) with (d + 1 * P) by lia. rewrite Z.div_add by lia. reflexivity. }
  exists ((d / P + 1) * P). split.
  - apply in_map_iff. exists (Z.to_nat (d / P - t0 / P)). split.
    + rewrite Z2Nat.id by lia. f_equal. lia.
    + apply in_seq. rewrite Q2. lia.
  - pose proof (Z.div_mod d P ltac:(lia)). pose proof (Z.mod_pos_bound d P HP). lia.
Qed.

(* ------------------------------------------------------------------ non-vacuity *)

Definition ex_c := mkCfg 14 40.
Definition ex_p : list byte := [xc3; x01; x02; x03; x04].
Definition ex_o := mkOracle 0 (fun i => N.of_nat i + 7)%N (fun _ => [xaa; xbb; xcc]).
Definition ex_f0 : list byte := [x80; x00; x02; x00; x07; xaa; xbb; xcc; x00; x00; x00; x00; xc3; x01].
Definition ex_f1 : list byte := [x80; x00; x12; x00; x08; xaa; xbb; xcc; x00; x00; x00; x00; x00; x02; x03; x04].

(* counter 255 -> 256: the 8-bit message id wraps to 0; two chunks, padded into [14, 40] *)
Example ex_send : write_to ex_c 255 ex_p ex_o = Ok ([ex_f0; ex_f1], 256%N, 5).
Proof. vm_compute. reflexivity. Qed.

Example ex_cfg_ok : cfg_ok ex_c.
Proof. unfold cfg_ok, ex_c; cbn. lia. Qed.

(* reversed order, a short-header packet of another source in between, a gc tick afterwards *)
Definition ex_acts : list action :=
  [Packet 5 9 ex_f1 (0, 0)%N; Packet 6 4 [x01; x02] (0, 0)%N; Packet 7 9 ex_f0 (0, 0)%N; Tick 100].

(* the hypotheses of the round-trip theorem are satisfiable: it applies to this run *)
Example ex_roundtrip_applies :
  Exists (fun o => o = Some (9%N, ex_p)) (snd (run 2048 r_init ex_acts)) /\
  Forall2 (out_ok (one_msg 9 0 (split_spec ex_p 2)) 2048) ex_acts (snd (run 2048 r_init ex_acts)).
Proof.
  destruct (sender_spec ex_c 255 ex_p ex_o xc3 [x01; x02; x03; x04] ex_cfg_ok eq_refl eq_refl)
    as (fs & n & W & N & CC & FO).
  rewrite ex_send in W. inversion W; subst fs.
  assert (n = 2)%nat.
  { destruct FO as (L & _). rewrite split_spec_length in L. cbn in L. congruence. }
  subst n.
  pose proof (roundtrip ex_c _ (split_spec ex_p 2) [ex_f0; ex_f1] 2048 9%N 100 [] ex_acts FO) as R.
  cbv zeta in R. rewrite CC in R. apply R; clear R.
  - rewrite split_spec_length. lia.
  - intros f [<-|[<-|[]]]; unfold zlen; cbn; lia.
  - reflexivity.
  - intros now dg choice h pl IN D HM. cbn in IN.
    destruct IN as [E|[E|[E|[E|[]]]]]; inversion E; subst; cbn; auto.
  - intros f [<-|[<-|[]]].
    + exists 7, (0, 0)%N. cbn. auto.
    + exists 5, (0, 0)%N. cbn. auto.
  - repeat constructor; cbn; unfold geckoReassemblyTTLns; lia.
  - cbn. lia.
  - apply Nat.leb_le. vm_compute. reflexivity.
Qed.

(* two sources, reversed order, a duplicate after completion leaves a stale entry that only the
   TTL removes; each source's entry goes at the first tick later than its own deadline *)
Definition ex2_acts : list action :=
  [Packet 0 1 ex_f1 (0, 0)%N; Packet 1 2 ex_f1 (0, 0)%N; Packet 2 1 ex_f0 (0, 0)%N;
   Packet 3 1 ex_f0 (0, 0)%N; Tick 8000000002; Tick 8000000004].

Example ex2_outputs :
  snd (run 2048 r_init ex2_acts) = [None; None; Some (1%N, ex_p); None; None; None].
Proof. vm_compute. reflexivity. Qed.

Example ex2_table_sizes :
  map (fun k => length (tbl (fst (run 2048 r_init (firstn k ex2_acts))))) [2; 3; 4; 5; 6]%nat
  = [2; 1; 2; 1; 0]%nat.
Proof. vm_compute. reflexivity. Qed.

(* the per-source cap is reachable and then refuses: 9 first-chunks of distinct ids from one source *)
Example ex_cap :
  let acts := map (fun i => Packet (Z.of_nat i) 3 [x80; n2b (N.of_nat i); x02; x00; x00; x41] (0, 0)%N) (seq 0 9) in
  count_src 3 (fst (run 2048 r_init acts)) = 8%nat.
Proof. vm_compute. reflexivity. Qed.
