(* C14 proofs, sender side: padding range, frame codec round trip, split/concat, WriteTo shape. *)
From Hy Require Import model.C14_Gecko proof.C14_Gecko.
From Coq Require Import ZArith Lia ZifyBool ZifyNat ZifyN.
Local Open Scope Z_scope.
Ltac Zify.zify_post_hook ::= Z.div_mod_to_equations.

Definition cfg_ok (c : cfg) : Prop := 0 < c_min c /\ c_min c <= c_max c /\ c_max c <= 2048.

Lemma wrap_cfg_ok omin omax c : wrap_cfg omin omax = Some c -> cfg_ok c.
Proof.
  unfold wrap_cfg, cfg_ok, geckoBufferSize.
  match goal with |- context [if ?x then None else _] => destruct x eqn:E end; [discriminate|].
  intros H; inversion H; subst; clear H. cbn [c_min c_max]. lia.
Qed.

Lemma wrap_cfg_default : wrap_cfg 0 0 = Some (mkCfg 512 1200).
Proof. reflexivity. Qed.

(* ------------------------------------------------------------------ padding *)

Lemma rand_intn_spec n r : 1 <= n <= 4096 -> exists x, rand_intn n r = Ok x /\ 0 <= x < n.
Proof.
  intros H. unfold rand_intn. change (2 ^ 32) with 4294967296.
  destruct (n <=? 1) eqn:A; [exists 0; split; auto; lia|].
  assert (M : n mod 4294967296 = n) by (apply Z.mod_small; lia). rewrite M.
  destruct (n =? 0) eqn:B; [lia|].
  eexists; split; [reflexivity|]. apply Z.mod_pos_bound. lia.
Qed.

Lemma pad_len_spec c L r :
  cfg_ok c -> 0 <= L ->
  exists pl, pad_len c L r = Ok pl /\ Z.of_N pl <= 2048 /\
    (13 + L <= c_max c -> c_min c <= 13 + Z.of_N pl + L <= c_max c) /\
    (c_max c < 13 + L -> pl = 0%N).
Proof.
  intros (A & B & C) HL. unfold pad_len, smSaltLen, geckoHeaderSize.
  set (base := 8 + 5 + L). set (lo := Z.max (c_min c) base).
  destruct (c_max c <? lo) eqn:E.
  - exists 0%N. split; auto. split; [lia|]. split; intros; [lia|auto].
  - destruct (rand_intn_spec (c_max c - lo + 1) r) as (x & -> & Hx); [lia|].
    cbn [bind]. eexists; split; [reflexivity|].
    assert (M : (lo - base + x) mod 65536 = lo - base + x) by (apply Z.mod_small; lia).
    rewrite M. rewrite Z2N.id by lia. repeat split; intros; try lia.
Qed.

(* ------------------------------------------------------------------ frame codec *)

Lemma fit_length n l : length (fit n l) = n.
Proof. unfold fit. rewrite firstn_length, app_length, repeat_length. lia. Qed.

Lemma b2_ok idx tot :
  (idx < tot)%N -> (2 <= tot <= 8)%N ->
  let b := b2n (n2b (N.lor ((idx * 16) mod 256) (N.land tot 15))) in
  (b / 16 = idx)%N /\ N.land b 15 = tot.
Proof.
  intros A B.
  assert (T : (tot = 2 \/ tot = 3 \/ tot = 4 \/ tot = 5 \/ tot = 6 \/ tot = 7 \/ tot = 8)%N) by lia.
  assert (I : (idx = 0 \/ idx = 1 \/ idx = 2 \/ idx = 3 \/ idx = 4 \/ idx = 5 \/ idx = 6 \/ idx = 7)%N) by lia.
  repeat (destruct T as [T|T]); subst tot;
    repeat (destruct I as [I|I]); subst idx; try lia; vm_compute; auto.
Qed.

Definition hdr_ok (h : hdr) : Prop :=
  (h_pad h < 65536)%N /\ (h_mid h < 256)%N /\ (2 <= h_tot h <= 8)%N /\ (h_idx h < h_tot h)%N.

Lemma encode_ok h payload rnd :
  hdr_ok h ->
  exists f, encode_frame h payload (geckoHeaderSize + Z.of_N (h_pad h) + zlen payload) rnd = Ok f /\
            zlen f = 5 + Z.of_N (h_pad h) + zlen payload /\
            decode_frame f = Ok (h, payload).
Proof.
  intros (P & M & T & I). unfold encode_frame, geckoMinFragmentChunks, geckoMaxFragmentChunks, geckoHeaderSize.
  destruct ((Z.of_N (h_tot h) <? 2) || (8 <? Z.of_N (h_tot h))) eqn:A; [lia|].
  destruct (h_tot h <=? h_idx h)%N eqn:B; [lia|].
  rewrite Z.ltb_irrefl.
  eexists; split; [reflexivity|].
  set (X := N.lor ((h_idx h * 16) mod 256) (N.land (h_tot h) 15)).
  assert (L : zlen ([n2b geckoFlagFragment; n2b (h_mid h); n2b X] ++ be_enc 2 (h_pad h) ++
                    fit (N.to_nat (h_pad h)) rnd ++ payload) = 5 + Z.of_N (h_pad h) + zlen payload).
  { unfold zlen. rewrite !app_length, be_enc_length, fit_length. cbn [length]. lia. }
  split; [exact L|].
  unfold decode_frame. rewrite L. unfold geckoHeaderSize, geckoMinFragmentChunks, geckoMaxFragmentChunks.
  destruct (5 + Z.of_N (h_pad h) + zlen payload <? 5) eqn:C; [unfold zlen in C; lia|].
  cbn [app nth be_enc].
  change (b2n (n2b geckoFlagFragment)) with 128%N.
  change (N.land 128 geckoFlagFragment =? 0)%N with false. cbv iota.
  destruct (b2_ok (h_idx h) (h_tot h) I T) as (Q1 & Q2). fold X in Q1, Q2.
  rewrite Q1, Q2. rewrite b2n_n2b_small by lia.
  change [n2b (h_pad h / 256 ^ N.of_nat 1); n2b (h_pad h / 256 ^ N.of_nat 0)] with (be_enc 2 (h_pad h)).
  rewrite be_dec_enc_small by (change (256 ^ N.of_nat 2)%N with 65536%N; lia).
  cbn [h_tot h_idx h_pad h_mid]. rewrite A, B.
  destruct (5 + Z.of_N (h_pad h) + zlen payload <? 5 + Z.of_N (h_pad h)) eqn:D; [unfold zlen in D; lia|].
  destruct h as [pad mid idx tot]; cbn [h_tot h_idx h_pad h_mid] in *.
  f_equal. f_equal.
  replace (Z.to_nat (5 + Z.of_N pad)) with (5 + N.to_nat pad)%nat by lia.
  change (5 + N.to_nat pad)%nat with (S (S (S (S (S (N.to_nat pad)))))). cbn [skipn].
  rewrite skipn_app, fit_length, Nat.sub_diag. cbn [skipn].
  rewrite skipn_all2 by (rewrite fit_length; lia). reflexivity.
Qed.

(* ------------------------------------------------------------------ split / concat *)

Fixpoint cut (k csz : nat) (q : list byte) : list (list byte) :=
  match k with
  | O => []
  | S O => [q]
  | S k' => firstn csz q :: cut k' csz (skipn csz q)
  end.

Lemma cut_concat k csz q : (1 <= k)%nat -> concat (cut k csz q) = q.
Proof.
  revert q. induction k as [|k IH]; intros q H; [lia|].
  destruct k as [|k]; [simpl; apply app_nil_r|].
  change (cut (S (S k)) csz q) with (firstn csz q :: cut (S k) csz (skipn csz q)).
  cbn [concat]. rewrite IH by lia. apply firstn_skipn.
Qed.

Lemma cut_length k csz q : length (cut k csz q) = k.
Proof.
  revert q. induction k as [|k IH]; intros q; auto.
  destruct k as [|k]; auto.
  change (cut (S (S k)) csz q) with (firstn csz q :: cut (S k) csz (skipn csz q)).
  cbn [length]. now rewrite IH.
Qed.

Definition piece (csz k : nat) (q : list byte) (i : nat) : list byte :=
  if Nat.ltb i (k - 1) then firstn csz (skipn (i * csz) q) else skipn (i * csz) q.

Lemma skipn_add {A} a b (l : list A) : skipn (a + b) l = skipn a (skipn b l).
Proof.
  revert l. induction b as [|b IH]; intros l.
  - now rewrite Nat.add_0_r.
  - rewrite Nat.add_succ_r. destruct l as [|x l]; [now rewrite !skipn_nil|]. cbn [skipn]. apply IH.
Qed.

Lemma split_cut k csz q : (1 <= k)%nat -> map (piece csz k q) (seq 0 k) = cut k csz q.
Proof.
  revert q. induction k as [|k IH]; intros q H; [lia|].
  destruct k as [|k]; [reflexivity|].
  change (cut (S (S k)) csz q) with (firstn csz q :: cut (S k) csz (skipn csz q)).
  change (seq 0 (S (S k))) with (0%nat :: seq 1 (S k)). rewrite map_cons. f_equal.
  rewrite <- IH by lia. rewrite <- seq_shift, map_map. apply map_ext. intros i.
  unfold piece.
  replace (S i * csz)%nat with (i * csz + csz)%nat by lia. rewrite skipn_add.
  destruct (Nat.ltb_spec (S i) (S (S k) - 1)), (Nat.ltb_spec i (S k - 1)); auto; lia.
Qed.

Lemma split_spec_cut p n : (1 <= n)%nat -> split_spec p n = cut n (length p / n) p.
Proof. intros H. unfold split_spec. now apply (split_cut n (length p / n) p). Qed.

Lemma split_spec_concat p n : (1 <= n)%nat -> concat (split_spec p n) = p.
Proof. intros H. rewrite split_spec_cut by auto. now apply cut_concat. Qed.

Lemma split_spec_length p n : length (split_spec p n) = n.
Proof. unfold split_spec. now rewrite map_length, seq_length. Qed.

Lemma split_spec_nth p n i : (i < n)%nat -> nth i (split_spec p n) [] = piece (length p / n) n p i.
Proof.
  intros H. unfold split_spec.
  change (fun i0 : nat => if Nat.ltb i0 (n - 1) then firstn (length p / n) (skipn (i0 * (length p / n)) p)
                         else skipn (i0 * (length p / n)) p) with (piece (length p / n) n p).
  rewrite (nth_indep _ [] (piece (length p / n) n p 0)) by (rewrite map_length, seq_length; lia).
  rewrite map_nth, seq_nth by lia. reflexivity.
Qed.

Lemma chunk_at_spec p n i :
  (1 <= n)%nat -> (i < n)%nat ->
  chunk_at p (zlen p / Z.of_nat n) (Z.of_nat n) (Z.of_nat i) = Ok (nth i (split_spec p n) []).
Proof.
  intros Hn Hi. rewrite split_spec_nth by auto. unfold chunk_at, piece, zlen.
  rewrite <- Nat2Z.inj_div. set (csz := (length p / n)%nat).
  assert (Hc : (csz * n <= length p)%nat) by (unfold csz; rewrite Nat.mul_comm; apply Nat.mul_div_le; lia).
  destruct (Nat.ltb_spec i (n - 1)) as [Lt|Ge].
  - destruct (Z.of_nat i <? Z.of_nat n - 1) eqn:E; [|lia].
    assert (B : (i * csz + csz <= length p)%nat) by nia.
    match goal with |- (if ?c then _ else _) = _ => assert (Q : c = true) by nia; rewrite Q end.
    replace (Z.to_nat (Z.of_nat i * Z.of_nat csz + Z.of_nat csz - Z.of_nat i * Z.of_nat csz)) with csz by nia.
    replace (Z.to_nat (Z.of_nat i * Z.of_nat csz)) with (i * csz)%nat by nia. reflexivity.
  - destruct (Z.of_nat i <? Z.of_nat n - 1) eqn:E; [lia|].
    assert (B : (i * csz <= length p)%nat) by nia.
    match goal with |- (if ?c then _ else _) = _ => assert (Q : c = true) by nia; rewrite Q end.
    f_equal.
    replace (Z.to_nat (Z.of_nat i * Z.of_nat csz)) with (i * csz)%nat by nia.
    apply firstn_all2. rewrite skipn_length. nia.
Qed.

(* ------------------------------------------------------------------ writeFragmented / WriteTo *)

(* what the receiver needs to know about the frames of one message: frame i decodes to
   (pad_i, mid, i, n) with payload chunk i, it fits the receiver's read buffer, and its wire size
   (salt + frame) is inside [min, max] whenever the chunk can fit *)
Definition frames_ok (c : cfg) (mid : N) (cs fs : list (list byte)) : Prop :=
  length fs = length cs /\
  forall i, (i < length cs)%nat ->
    exists pad, decode_frame (nth i fs []) = Ok (mkHdr pad mid (N.of_nat i) (N.of_nat (length cs)), nth i cs []) /\
                zlen (nth i fs []) = 5 + Z.of_N pad + zlen (nth i cs []) /\
                (13 + zlen (nth i cs []) <= c_max c -> c_min c <= 8 + zlen (nth i fs []) <= c_max c) /\
                (c_max c < 13 + zlen (nth i cs []) -> pad = 0%N).

Lemma frag_loop_spec c p n mid o :
  cfg_ok c -> (2 <= n <= 8)%nat -> (mid < 256)%N ->
  forall todo i, (i + todo = n)%nat ->
  exists fs, frag_loop c p (zlen p / Z.of_nat n) (Z.of_nat n) mid o i todo = Ok fs /\
    length fs = todo /\
    forall j, (j < todo)%nat ->
      let ch := nth (i + j) (split_spec p n) [] in
      exists pad, decode_frame (nth j fs []) = Ok (mkHdr pad mid (N.of_nat (i + j)) (N.of_nat n), ch) /\
                  zlen (nth j fs []) = 5 + Z.of_N pad + zlen ch /\
                  (13 + zlen ch <= c_max c -> c_min c <= 8 + zlen (nth j fs []) <= c_max c) /\
                  (c_max c < 13 + zlen ch -> pad = 0%N).
Proof.
  intros Hc Hn Hm. induction todo as [|todo IH]; intros i Hi.
  - exists []. split; [reflexivity|]. split; auto. intros j Hj. lia.
  - cbn [frag_loop]. rewrite chunk_at_spec by lia. cbn [bind].
    set (ch := nth i (split_spec p n) []).
    destruct (pad_len_spec c (zlen ch) (o_pad o i) Hc) as (pl & -> & P1 & P2 & P3); [unfold zlen; lia|].
    cbn [bind].
    set (h := mkHdr pl mid (N.of_nat i mod 256) (Z.to_N (Z.of_nat n) mod 256)).
    assert (Hh : h = mkHdr pl mid (N.of_nat i) (N.of_nat n)).
    { unfold h. f_equal.
      - apply N.mod_small. lia.
      - replace (Z.to_N (Z.of_nat n)) with (N.of_nat n) by lia. apply N.mod_small. lia. }
    assert (HO : hdr_ok h) by (rewrite Hh; unfold hdr_ok; cbn; lia).
    destruct (encode_ok h ch (o_bytes o i) HO) as (f & E & LF & DF).
    replace (h_pad h) with pl in E by (rewrite Hh; reflexivity). rewrite E. cbn [bind].
    destruct (IH (S i)) as (rest & -> & LR & PR); [lia|]. cbn [bind].
    exists (f :: rest). split; [reflexivity|]. split; [cbn; lia|].
    intros j Hj. destruct j as [|j].
    + rewrite Nat.add_0_r. cbv zeta. fold ch. cbn [nth]. exists pl. rewrite <- Hh.
      replace (h_pad h) with pl in LF by (rewrite Hh; reflexivity).
      repeat split; auto; lia.
    + specialize (PR j). replace (S i + j)%nat with (i + S j)%nat in PR by lia.
      cbn [nth]. apply PR. lia.
Qed.

Lemma sender_spec c ctr p o b0 t :
  cfg_ok c -> p = b0 :: t -> (N.land (b2n b0) 128 =? 0)%N = false ->
  exists fs n,
    write_to c ctr p o = Ok (fs, ((ctr + 1) mod 2 ^ 32)%N, zlen p) /\
    (2 <= n <= 8)%nat /\
    concat (split_spec p n) = p /\
    frames_ok c (((ctr + 1) mod 2 ^ 32) mod 256)%N (split_spec p n) fs.
Proof.
  intros Hc -> Top. unfold write_to. rewrite Top. cbn [negb].
  unfold write_fragmented, random_fragment_chunks, geckoMaxFragmentChunks, geckoMinFragmentChunks.
  destruct (rand_intn_spec (8 - 2 + 1) (o_chunks o)) as (x & -> & Hx); [lia|]. cbn [bind].
  destruct (2 + x =? 0) eqn:Z0; [lia|].
  set (n := Z.to_nat (2 + x)).
  replace (2 + x) with (Z.of_nat n) by (unfold n; lia).
  destruct (frag_loop_spec c (b0 :: t) n (((ctr + 1) mod 2 ^ 32) mod 256)%N o Hc) with (todo := n) (i := 0%nat)
    as (fs & -> & LF & PF); [unfold n; lia| apply N.mod_lt; lia | lia |].
  cbn [bind]. exists fs, n. split; [reflexivity|]. split; [unfold n; lia|].
  split; [apply split_spec_concat; unfold n; lia|].
  unfold frames_ok. rewrite split_spec_length. split; auto.
Qed.

(* short-header and empty packets *)
Lemma sender_passthrough c ctr p o b0 t :
  p = b0 :: t -> (N.land (b2n b0) 128 =? 0)%N = true -> write_to c ctr p o = Ok ([p], ctr, zlen p).
Proof. intros -> H. unfold write_to. now rewrite H. Qed.

Lemma sender_empty c ctr o : write_to c ctr [] o = Ok ([], ctr, 0).
Proof. reflexivity. Qed.

(* every datagram size stays in range when it can *)
Lemma size_range c L r :
  cfg_ok c -> 0 <= L ->
  exists pl, pad_len c L r = Ok pl /\ (Z.of_N pl < 65536) /\
    (8 + 5 + L <= c_max c -> c_min c <= 8 + 5 + Z.of_N pl + L <= c_max c).
Proof.
  intros Hc HL. destruct (pad_len_spec c L r Hc HL) as (pl & E & A & B & _).
  exists pl. repeat split; auto; lia.
Qed.
