(* C14 proofs, sender side with inner write errors: what reaches the wire when the k-th inner write
   of a WriteTo fails, and the message ids of successive writes. *)
From Hy Require Import model.C14_Gecko proof.C14_Gecko proof.C14_Sender.
From Coq Require Import ZArith Lia ZifyBool ZifyNat ZifyN.
Local Open Scope Z_scope.
Ltac Zify.zify_post_hook ::= Z.div_mod_to_equations.

(* the loop with a fault, in terms of the fault-free loop *)
Definition cut_at (fail : option nat) (i : nat) (fs : list (list byte))
  : list (list byte) * option (list byte) :=
  match fail with
  | Some k => if (Nat.leb i k && Nat.ltb k (i + length fs))%bool
              then (firstn (k - i) fs, Some (nth (k - i) fs []))
              else (fs, None)
  | None => (fs, None)
  end.

Lemma frag_loop_f_spec c p cs chunks mid o fail :
  forall todo i fs,
    frag_loop c p cs chunks mid o i todo = Ok fs ->
    frag_loop_f c p cs chunks mid o fail i todo = Ok (cut_at fail i fs).
Proof.
  induction todo as [|todo IH]; intros i fs H.
  - cbn [frag_loop] in H. inversion H; subst. cbn [frag_loop_f].
    unfold cut_at. destruct fail as [k|]; auto. cbn [length].
    destruct (Nat.leb_spec i k), (Nat.ltb_spec k (i + 0)); cbn [andb]; auto; lia.
  - cbn [frag_loop] in H. cbn [frag_loop_f].
    destruct (chunk_at p cs chunks (Z.of_nat i)) as [chunk| |]; cbn [bind] in *; try discriminate.
    destruct (pad_len c (zlen chunk) (o_pad o i)) as [pl| |]; cbn [bind] in *; try discriminate.
    destruct (encode_frame _ chunk _ (o_bytes o i)) as [f| |]; cbn [bind] in *; try discriminate.
    destruct (frag_loop c p cs chunks mid o (S i) todo) as [rest| |] eqn:R; cbn [bind] in *; try discriminate.
    inversion H; subst fs; clear H.
    specialize (IH (S i) rest R).
    unfold fails_at, cut_at in *. destruct fail as [k|].
    + destruct (Nat.eqb_spec k i) as [->|Ne].
      * cbn [length]. rewrite Nat.sub_diag. cbn [firstn nth].
        destruct (Nat.leb_spec i i), (Nat.ltb_spec i (i + S (length rest))); cbn [andb]; auto; lia.
      * rewrite IH. cbn [bind length].
        destruct (Nat.leb_spec (S i) k), (Nat.ltb_spec k (S i + length rest)); cbn [andb fst snd];
          destruct (Nat.leb_spec i k), (Nat.ltb_spec k (i + S (length rest))); cbn [andb]; try lia; auto.
        replace (k - i)%nat with (S (k - S i)) by lia. cbn [firstn nth]. reflexivity.
    + rewrite IH. reflexivity.
Qed.

Definition ctr_next (ctr : N) : N := ((ctr + 1) mod 2 ^ 32)%N.

(* one long-header WriteTo with the fault at inner write k *)
Lemma write_error_spec c ctr p o k b0 t :
  cfg_ok c -> p = b0 :: t -> (N.land (b2n b0) 128 =? 0)%N = false ->
  exists fs n,
    (2 <= n <= 8)%nat /\ length fs = n /\
    concat (split_spec p n) = p /\
    frames_ok c (ctr_next ctr mod 256)%N (split_spec p n) fs /\
    write_to c ctr p o = Ok (fs, ctr_next ctr, zlen p) /\
    write_to_f c ctr p o None = Ok (mkW fs None (ctr_next ctr) (WDone (zlen p))) /\
    write_to_f c ctr p o (Some k) =
      Ok (if Nat.ltb k n
          then mkW (firstn k fs) (Some (nth k fs [])) (ctr_next ctr) WFail
          else mkW fs None (ctr_next ctr) (WDone (zlen p))).
Proof.
  intros Hc Hp Top.
  destruct (sender_spec c ctr p o b0 t Hc Hp Top) as (fs & n & W & Hn & Cc & FO).
  exists fs, n. split; auto.
  assert (LF : length fs = n) by (destruct FO as (L & _); now rewrite L, split_spec_length).
  split; auto. split; auto. split; [exact FO|]. split; [exact W|].
  subst p. unfold write_to in W. rewrite Top in W. cbn [negb] in W.
  unfold write_to_f. rewrite Top. cbn [negb].
  unfold write_fragmented in W. unfold write_fragmented_f.
  destruct (random_fragment_chunks (o_chunks o)) as [chunks| |]; cbn [bind] in *; try discriminate.
  destruct (chunks =? 0); try discriminate.
  destruct (frag_loop c (b0 :: t) (zlen (b0 :: t) / chunks) chunks _ o 0 (Z.to_nat chunks)) as [fs'| |] eqn:FL;
    cbn [bind] in W; try discriminate.
  inversion W; subst fs'; clear W.
  split.
  - rewrite (frag_loop_f_spec _ _ _ _ _ _ None _ _ _ FL). reflexivity.
  - rewrite (frag_loop_f_spec _ _ _ _ _ _ (Some k) _ _ _ FL). cbn [bind].
    unfold cut_at. rewrite Nat.sub_0_r, LF. cbn [Nat.leb andb plus].
    destruct (Nat.ltb k n); reflexivity.
Qed.

(* every WriteTo returns (no panic) and the counter moves by one exactly for long-header packets,
   whatever the inner conn did *)
Lemma write_to_f_ctr c ctr p o fail :
  cfg_ok c ->
  exists r, write_to_f c ctr p o fail = Ok r /\
            w_ctr r = if is_long p then ctr_next ctr else ctr.
Proof.
  intros Hc. destruct p as [|b0 t].
  - eexists; split; reflexivity.
  - destruct (N.land (b2n b0) 128 =? 0)%N eqn:Top.
    + unfold write_to_f, is_long. rewrite Top. cbn [negb].
      destruct (fails_at fail 0); eexists; split; reflexivity.
    + destruct fail as [k|].
      * destruct (write_error_spec c ctr (b0 :: t) o k b0 t Hc eq_refl Top)
          as (fs & n & _ & _ & _ & _ & _ & _ & E).
        rewrite E. eexists; split; [reflexivity|]. unfold is_long. rewrite Top. cbn [negb].
        destruct (Nat.ltb k n); reflexivity.
      * destruct (write_error_spec c ctr (b0 :: t) o 0%nat b0 t Hc eq_refl Top)
          as (fs & n & _ & _ & _ & _ & _ & E & _).
        rewrite E. eexists; split; [reflexivity|]. unfold is_long. now rewrite Top.
Qed.

Lemma count_long_cons w ws :
  count_long (w :: ws) = ((if is_long (wr_p w) then 1 else 0) + count_long ws)%N.
Proof. unfold count_long. cbn [filter]. destruct (is_long (wr_p w)); cbn [length]; lia. Qed.

Lemma ctr_next_add ctr a : (ctr_next ((ctr + a) mod 2 ^ 32) = (ctr + (a + 1)) mod 2 ^ 32)%N.
Proof.
  unfold ctr_next. change (2 ^ 32)%N with 4294967296%N.
  rewrite N.add_mod_idemp_l by lia. f_equal. lia.
Qed.

(* the counter after the i-th call of a run = start + number of long-header packets so far *)
Lemma send_run_ctr c :
  cfg_ok c ->
  forall ws ctr a,
  exists outs, send_run c ((ctr + a) mod 2 ^ 32)%N ws = Ok outs /\ length outs = length ws /\
    forall i d, (i < length ws)%nat ->
      w_ctr (nth i outs d) = ((ctr + (a + count_long (firstn (S i) ws))) mod 2 ^ 32)%N.
Proof.
  intros Hc. induction ws as [|w ws IH]; intros ctr a.
  - exists []. split; [reflexivity|]. split; auto. intros i d H. cbn in H. lia.
  - cbn [send_run].
    destruct (write_to_f_ctr c ((ctr + a) mod 2 ^ 32)%N (wr_p w) (wr_o w) (wr_fail w) Hc) as (r & -> & Cr).
    cbn [bind].
    assert (Cr' : w_ctr r = ((ctr + (a + (if is_long (wr_p w) then 1 else 0))) mod 2 ^ 32)%N).
    { rewrite Cr. destruct (is_long (wr_p w)); [apply ctr_next_add|]. now rewrite N.add_0_r. }
    rewrite Cr'.
    destruct (IH ctr (a + (if is_long (wr_p w) then 1 else 0))%N) as (outs & -> & L & P). cbn [bind].
    exists (r :: outs). split; [reflexivity|]. split; [cbn; lia|].
    intros i d Hi. destruct i as [|i].
    + cbn [nth firstn]. rewrite Cr', count_long_cons. change (count_long []) with 0%N.
      rewrite N.add_0_r. reflexivity.
    + cbn [nth]. rewrite P by (cbn in Hi; lia).
      change (firstn (S (S i)) (w :: ws)) with (w :: firstn (S i) ws).
      rewrite count_long_cons. f_equal. lia.
Qed.

Lemma send_run_total c ctr ws :
  cfg_ok c -> (ctr < 2 ^ 32)%N ->
  exists outs, send_run c ctr ws = Ok outs /\ length outs = length ws /\
    forall i d, (i < length ws)%nat ->
      w_ctr (nth i outs d) = ((ctr + count_long (firstn (S i) ws)) mod 2 ^ 32)%N.
Proof.
  intros Hc Hctr. destruct (send_run_ctr c Hc ws ctr 0%N) as (outs & E & L & P).
  rewrite N.add_0_r, N.mod_small in E by exact Hctr.
  exists outs. split; [exact E|]. split; [exact L|]. intros i d Hi. rewrite (P i d Hi). reflexivity.
Qed.

Lemma count_long_firstn_le n l : (count_long (firstn n l) <= count_long l)%N.
Proof.
  unfold count_long. rewrite <- (firstn_skipn n l) at 2. rewrite filter_app, app_length. lia.
Qed.

(* message ids: the i-th call, when it carries a long-header packet, used id
   (start + number of long-header packets up to and including it) mod 256 - whether or not it, or any
   earlier call, hit an inner write error; two long-header writes whose distance (counted in
   long-header writes) is not a multiple of 256 therefore used different ids. *)
Lemma ids_differ c ctr ws i j :
  cfg_ok c -> (ctr < 2 ^ 32)%N -> (i < j < length ws)%nat ->
  exists outs, send_run c ctr ws = Ok outs /\ length outs = length ws /\
    forall d,
      (w_ctr (nth i outs d) mod 256 = (ctr + count_long (firstn (S i) ws)) mod 256)%N /\
      (w_ctr (nth j outs d) mod 256 = (ctr + count_long (firstn (S j) ws)) mod 256)%N /\
      (((count_long (firstn (S j) ws) - count_long (firstn (S i) ws)) mod 256 <> 0)%N ->
       (w_ctr (nth i outs d) mod 256 <> w_ctr (nth j outs d) mod 256)%N).
Proof.
  intros Hc Hctr Hij.
  destruct (send_run_total c ctr ws Hc Hctr) as (outs & E & L & P).
  exists outs. split; auto. split; auto. intros d.
  rewrite (P i d) by lia. rewrite (P j d) by lia.
  assert (M : forall x, ((x mod 2 ^ 32) mod 256 = x mod 256)%N).
  { intros x. change (2 ^ 32)%N with 4294967296%N. lia. }
  rewrite !M. split; auto. split; auto.
  assert (Mono : (count_long (firstn (S i) ws) <= count_long (firstn (S j) ws))%N).
  { replace (firstn (S i) ws) with (firstn (S i) (firstn (S j) ws))
      by (rewrite firstn_firstn; f_equal; lia).
    apply count_long_firstn_le. }
  set (a := count_long (firstn (S i) ws)) in *. set (b := count_long (firstn (S j) ws)) in *.
  intros Hd Heq. apply Hd. clear Hd.
  replace (ctr + b)%N with ((ctr + a) + (b - a))%N in Heq by lia.
  revert Heq. generalize (ctr + a)%N (b - a)%N. intros x y Heq. lia.
Qed.

(* a failed write at position k >= 1 followed by any further long-header write: different ids *)
Example ids_differ_after_error :
  let c := mkCfg 20 60 in
  let o := mkOracle 1 (fun _ => 0%N) (fun _ => []) in
  let p := [xc0; x01; x02; x03; x04; x05; x06] in
  match send_run c 254 [mkWR p o (Some 1%nat); mkWR [x41] o None; mkWR p o None] with
  | Ok [a; s; b] =>
      length (w_wire a) = 1%nat /\ w_res a = WFail /\ w_res b = WDone 7 /\
      w_ctr a = 255%N /\ w_ctr s = 255%N /\ w_ctr b = 256%N /\
      map (fun f => nth 1 f x00) (w_wire a) = [xff] /\
      map (fun f => nth 1 f x00) (w_wire b) = [x00; x00; x00]
  | _ => False
  end.
Proof. vm_compute. repeat split. Qed.
