(* C15 proofs, part 4: the logged relay loop (model/C15_Copy.v). *)
From Hy Require Import model.C15_Stats model.C15_Sites model.C15_Copy.
From Coq Require Import ZArith Lia ZifyBool ZifyNat ZifyN.
Local Open Scope N_scope.

Lemma passes_inv r :
  passes r = true ->
  rs_err r = RNil /\ ((0 <? rs_n r) = false \/ ((0 <? rs_n r) = true /\ rs_ok r = true /\ rs_wok r = true)).
Proof.
  unfold passes. destruct (rs_err r); try discriminate. intro H. split; [reflexivity|].
  destruct (0 <? rs_n r); [right|left; reflexivity].
  cbn in H. apply andb_prop in H. destruct H; auto.
Qed.

(* a refused report ends the copy with errDisconnect wherever it is in the stream and whatever the Read
   returned next to the bytes; the refused chunk is not written and nothing happens after it *)
Lemma copy_refused_at : forall pre r post,
  forallb passes pre = true -> (0 <? rs_n r) = true -> rs_ok r = false ->
  copy_loop (pre ++ r :: post) = (CDisconnect, pass_trace pre ++ [ALog (rs_n r) false]).
Proof.
  induction pre as [|x pre IH]; intros r post Hp Hn Hok.
  - cbn [app copy_loop pass_trace]. rewrite Hn, Hok. reflexivity.
  - cbn [forallb] in Hp. apply andb_prop in Hp. destruct Hp as [Hx Hp].
    destruct (passes_inv _ Hx) as [He [Hz|[Hz [Ho Hw]]]];
      cbn [app copy_loop pass_trace]; rewrite Hz.
    + rewrite He. cbn [read_end]. rewrite (IH r post Hp Hn Hok). reflexivity.
    + rewrite Ho, Hw, He. cbn [negb read_end]. rewrite (IH r post Hp Hn Hok). reflexivity.
Qed.

(* ... and errDisconnect has no other source *)
Lemma copy_disconnect_inv : forall l,
  fst (copy_loop l) = CDisconnect ->
  exists pre r post, l = pre ++ r :: post /\ forallb passes pre = true /\
                     (0 <? rs_n r) = true /\ rs_ok r = false.
Proof.
  induction l as [|x t IH]; cbn [copy_loop]; intro H; [discriminate|].
  destruct (0 <? rs_n x) eqn:Hz.
  - destruct (rs_ok x) eqn:Ho; cbn [negb] in H.
    + destruct (rs_wok x) eqn:Hw; cbn [negb] in H; [|discriminate].
      destruct (rs_err x) eqn:He; cbn [read_end] in H; try discriminate.
      destruct (copy_loop t) as [res tr] eqn:Ht. cbn [fst] in H, IH.
      destruct (IH H) as (pre & r & post & -> & Hp & Hn & Hk).
      exists (x :: pre), r, post. repeat split; auto.
      cbn [forallb]. unfold passes at 1. rewrite He, Hz, Ho, Hw. exact Hp.
    + exists [], x, t. repeat split; auto.
  - destruct (rs_err x) eqn:He; cbn [read_end] in H; try discriminate.
    destruct (IH H) as (pre & r & post & -> & Hp & Hn & Hk).
    exists (x :: pre), r, post. repeat split; auto.
    cbn [forallb]. unfold passes at 1. rewrite He, Hz. exact Hp.
Qed.

Lemma copy_refused_iff l :
  fst (copy_loop l) = CDisconnect <->
  exists pre r post, l = pre ++ r :: post /\ forallb passes pre = true /\
                     (0 <? rs_n r) = true /\ rs_ok r = false.
Proof.
  split; [apply copy_disconnect_inv|].
  intros (pre & r & post & -> & Hp & Hn & Hk). rewrite (copy_refused_at _ _ _ Hp Hn Hk). reflexivity.
Qed.

Lemma pass_trace_no_refusal : forall l, refusals (pass_trace l) = O.
Proof.
  induction l as [|x t IH]; [reflexivity|]. cbn [pass_trace].
  destruct (0 <? rs_n x); cbn [app refusals]; exact IH.
Qed.

Lemma refusals_app : forall a b, refusals (a ++ b) = (refusals a + refusals b)%nat.
Proof.
  induction a as [|x a IH]; intro b; [reflexivity|].
  destruct x as [n [|]|n ok]; cbn [app refusals]; rewrite IH; reflexivity.
Qed.

(* every refusal the loop sees is answered: the trace of a run holds a refused report iff the run ends
   with errDisconnect, and then exactly one, as its last action *)
Lemma copy_trace_refusals : forall l,
  refusals (snd (copy_loop l)) = (if match fst (copy_loop l) with CDisconnect => true | _ => false end then 1 else 0)%nat.
Proof.
  induction l as [|x t IH]; [reflexivity|]. cbn [copy_loop].
  destruct (0 <? rs_n x).
  - destruct (rs_ok x); cbn [negb]; [|reflexivity].
    destruct (rs_wok x); cbn [negb]; [|reflexivity].
    destruct (rs_err x); cbn [read_end]; try reflexivity.
    destruct (copy_loop t) as [res tr]. cbn [fst snd refusals] in *. exact IH.
  - destruct (rs_err x); cbn [read_end]; try reflexivity. exact IH.
Qed.

(* what handleTCPRequest does with a relay whose copy direction played the script *)
Lemma relay_refused_closes pre r post :
  forallb passes pre = true -> (0 <? rs_n r) = true -> rs_ok r = false ->
  tcp_relay_action (pre ++ r :: post) false = CloseConn /\
  tcp_relay_action (pre ++ r :: post) false = site_action TcpUp false false /\
  tcp_relay_action (pre ++ r :: post) false = site_action TcpDown false false.
Proof.
  intros Hp Hn Hk. unfold tcp_relay_action. rewrite (copy_refused_at _ _ _ Hp Hn Hk). repeat split.
Qed.

Lemma relay_closes_only_refused l other :
  tcp_relay_action l other = CloseConn ->
  other = false /\ exists pre r post, l = pre ++ r :: post /\ forallb passes pre = true /\
                                      (0 <? rs_n r) = true /\ rs_ok r = false.
Proof.
  unfold tcp_relay_action, handle_tcp_request. destruct other; [discriminate|].
  intro H. split; [reflexivity|]. apply copy_disconnect_inv.
  destruct (fst (copy_loop l)); cbn in H; try discriminate. reflexivity.
Qed.

(* the variant that looks at the Read error first: a refused report on the chunk that came with io.EOF
   is swallowed - the kick is consumed (the trace holds the refusal), the copy returns nil, nothing is closed *)
Lemma eof_first_refuted :
  let l := [mkRs 100 RNil true true; mkRs 5 REOF false true] in
  copy_loop l = (CDisconnect, [ALog 100 true; AWrite 100 true; ALog 5 false]) /\
  copy_loop_eof_first l = (CNil, [ALog 100 true; AWrite 100 true; ALog 5 false]) /\
  refusals (snd (copy_loop_eof_first l)) = 1%nat /\
  handle_tcp_request (cperr_of (fst (copy_loop_eof_first l))) false = Forward /\
  tcp_relay_action l false = CloseConn.
Proof. vm_compute. repeat split. Qed.

(* the hypotheses are satisfiable at every kind of position: first = last chunk, the end of a longer stream
   (data + EOF, data + read failure), mid-stream *)
Example ex_positions :
  fst (copy_loop [mkRs 7 REOF false true]) = CDisconnect /\
  fst (copy_loop [mkRs 9 RNil true true; mkRs 0 RNil true true; mkRs 7 REOF false true]) = CDisconnect /\
  fst (copy_loop [mkRs 9 RNil true true; mkRs 7 RFail false false]) = CDisconnect /\
  fst (copy_loop [mkRs 9 RNil true true; mkRs 7 RNil false true; mkRs 3 REOF true true]) = CDisconnect /\
  fst (copy_loop [mkRs 9 RNil true true; mkRs 7 REOF true true]) = CNil.
Proof. vm_compute. repeat split. Qed.
