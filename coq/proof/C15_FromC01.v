(* C01 o C15 - proofs.  Every run of C01's server model emits LogOnlineState calls that satisfy the pairing
   hypothesis of C15_online_exact, and their balance per user is the number of connections that are
   authenticated as that user and whose handleClient has not run its tail.  Hence what GET /online of the C15
   stats object lists after any C01 run, whatever other operations the object performed in between. *)
From Coq Require Import List NArith ZArith Bool Lia.
From Hy Require model.C01_ServerAuth proof.C01_ServerAuth model.C15_Stats proof.C15_Stats.
From Hy Require Import model.C15_FromC01.
Import ListNotations.
Local Open Scope Z_scope.

Module AP := Hy.proof.C01_ServerAuth.
Module SP := Hy.proof.C15_Stats.

Definition bz (b : bool) : Z := if b then 1 else 0.

(* ------------------------------------------------------------------ the stats side: only the LogOnlineState calls count *)

Lemma balance_app i : forall a b, S.balance i (a ++ b) = S.balance i a + S.balance i b.
Proof.
  induction a as [|o a IH]; intro b; [reflexivity|].
  change ((o :: a) ++ b) with (o :: (a ++ b)). rewrite (SP.balance_cons i o (a ++ b)), (SP.balance_cons i o a), IH. lia.
Qed.

Lemma ups_app i : forall a b, S.ups i (a ++ b) = S.ups i a + S.ups i b.
Proof.
  induction a as [|o a IH]; intro b; [reflexivity|].
  change ((o :: a) ++ b) with (o :: (a ++ b)). rewrite (SP.ups_cons i o (a ++ b)), (SP.ups_cons i o a), IH. lia.
Qed.

Lemma balance_only_online i : forall ops, S.balance i (only_online ops) = S.balance i ops.
Proof.
  induction ops as [|o t IH]; [reflexivity|].
  destruct o; cbn [only_online filter is_online_op S.balance]; fold (only_online t); rewrite ?IH; reflexivity.
Qed.

Lemma ups_only_online i : forall ops, S.ups i (only_online ops) = S.ups i ops.
Proof.
  induction ops as [|o t IH]; [reflexivity|].
  destruct o as [| | |j b|]; [| | |destruct b|];
    cbn [only_online filter is_online_op S.ups]; fold (only_online t); rewrite ?IH; reflexivity.
Qed.

(* a prefix of the operations contains a prefix of the LogOnlineState calls *)
Lemma only_online_firstn : forall ops n, exists m, only_online (firstn n ops) = firstn m (only_online ops).
Proof.
  induction ops as [|o t IH]; intro n.
  - exists 0%nat. destruct n; reflexivity.
  - destruct n as [|n]; [exists 0%nat; reflexivity|].
    destruct (IH n) as [m Hm]. cbn [firstn only_online filter]. fold (only_online (firstn n t)). fold (only_online t).
    destruct (is_online_op o).
    + exists (S m). cbn [firstn]. now rewrite Hm.
    + exists m. exact Hm.
Qed.

Lemma paired_only_online i ops : S.paired i (only_online ops) -> S.paired i ops.
Proof.
  intros H n. destruct (only_online_firstn ops n) as [m Hm].
  rewrite <- balance_only_online, Hm. apply H.
Qed.

(* ------------------------------------------------------------------ counting live connections *)

Lemma existsb_eqb_In c l : existsb (N.eqb c) l = true <-> In c l.
Proof. exact (AP.existsb_eqb_In c l). Qed.

Lemma dedup_In c : forall l, In c (dedup l) <-> In c l.
Proof.
  induction l as [|x t IH]; [reflexivity|]. cbn [dedup].
  destruct (existsb (N.eqb x) t) eqn:E.
  - rewrite IH. split; [now right|]. intros [<-|H]; [now apply existsb_eqb_In|exact H].
  - cbn [In]. rewrite IH. reflexivity.
Qed.

Lemma dedup_NoDup : forall l, NoDup (dedup l).
Proof.
  induction l as [|x t IH]; [constructor|]. cbn [dedup].
  destruct (existsb (N.eqb x) t) eqn:E; [exact IH|].
  constructor; [|exact IH]. rewrite dedup_In. intro H. apply existsb_eqb_In in H. congruence.
Qed.

Section Count.
Variable enc : A.str -> S.id.

Lemma nlive_cons s i c cs : nlive enc s i (c :: cs) = bz (live enc s i c) + nlive enc s i cs.
Proof. unfold nlive. cbn [filter]. destruct (live enc s i c); cbn [length bz]; lia. Qed.

Lemma nlive_nonneg s i cs : 0 <= nlive enc s i cs.
Proof. unfold nlive. lia. Qed.

Lemma nlive_frame s s' i cs :
  (forall c, In c cs -> s' c = s c) -> nlive enc s' i cs = nlive enc s i cs.
Proof.
  induction cs as [|x cs IH]; intro H; [reflexivity|].
  rewrite !nlive_cons, IH by (intros c Hc; apply H; now right).
  unfold live. rewrite (H x (or_introl eq_refl)). reflexivity.
Qed.

(* a step changes the state of one connection only *)
Lemma nlive_step s s' i c cs :
  NoDup cs -> In c cs -> (forall c', c' <> c -> s' c' = s c') ->
  nlive enc s' i cs = nlive enc s i cs + bz (live enc s' i c) - bz (live enc s i c).
Proof.
  induction cs as [|x cs IH]; intros ND Hin Hfr; [destruct Hin|].
  inversion ND as [|? ? Hnx ND']; subst. rewrite !nlive_cons.
  destruct (N.eq_dec x c) as [->|Hne].
  - rewrite (nlive_frame s s' i cs); [lia|].
    intros c' Hc'. apply Hfr. intros ->. contradiction.
  - destruct Hin as [->|Hin]; [congruence|].
    rewrite (IH ND' Hin Hfr).
    assert (E : live enc s' i x = live enc s i x) by (unfold live; rewrite (Hfr x Hne); reflexivity).
    rewrite E. lia.
Qed.

Lemma nlive_init i cs : nlive enc A.init i cs = 0.
Proof. induction cs as [|x cs IH]; [reflexivity|]. rewrite nlive_cons, IH. reflexivity. Qed.

(* ------------------------------------------------------------------ one step of the server *)

Lemma online_ops_app (a b : list A.ev) : online_ops enc (a ++ b) = online_ops enc a ++ online_ops enc b.
Proof. unfold online_ops. apply flat_map_app. Qed.

Variable cfg : A.config.
Variable masq : A.request -> A.response.

(* what one atomic section tells the stats object: nothing or one call; its effect on the balance of user i is
   exactly the change of "the section's connection is live as user i" *)
Lemma step_online s a s' o i :
  AP.Inv s -> A.step cfg masq s a = Some (s', o) ->
  let ops := online_ops enc (map A.EObs o) in
  (ops = [] \/ exists j b, ops = [S.OOnline j b]) /\
  S.balance i ops = bz (live enc s' i (A.act_conn a)) - bz (live enc s i (A.act_conn a)) /\
  S.ups i ops <= 1.
Proof.
  intros HI H. destruct (HI (A.act_conn a)) as [_ [HJ [HK _]]].
  destruct a; cbn [A.act_conn] in *; AP.step_cases H; cbn zeta;
    unfold live; rewrite ?AP.upd_same;
    cbn [map online_ops flat_map online_op app S.balance S.ups A.authed A.closed A.auth_id];
    try (split; [left; reflexivity|split; [|lia]]; try lia;
         repeat match goal with E : _ = _ |- _ => rewrite E end; cbn [negb andb bz]; lia).
  - (* accepting verdict: the connection was neither authenticated nor closed *)
    assert (Ea : A.authed (s c) = false).
    { destruct (A.authed (s c)) eqn:Ea; [|reflexivity]. discriminate (HJ eq_refl). }
    assert (Ec : A.closed (s c) = false).
    { destruct (A.closed (s c)) eqn:Ec; [|reflexivity]. discriminate (HK eq_refl). }
    rewrite Ea, Ec. cbn [negb andb bz].
    split; [right; eauto|]. destruct (N.eqb i (enc id)); cbn [bz]; lia.
  - (* handleClient's tail on an authenticated connection *)
    repeat match goal with
           | E : A.authed (s c) = _ |- _ => rewrite E
           | E : A.closed (s c) = _ |- _ => rewrite E
           end. cbn [negb andb bz].
    split; [right; eauto|]. destruct (N.eqb i (enc (A.auth_id (s c)))); cbn [bz]; lia.
Qed.

(* ------------------------------------------------------------------ runs *)

Lemma run_online : forall acts s s' tr cs i,
  AP.Inv s -> NoDup cs -> Forall (fun a => In (A.act_conn a) cs) acts ->
  A.run cfg masq s acts = Some (s', tr) ->
  S.balance i (online_ops enc tr) = nlive enc s' i cs - nlive enc s i cs /\
  (forall n, 0 <= nlive enc s i cs + S.balance i (firstn n (online_ops enc tr))) /\
  S.ups i (online_ops enc tr) <= Z.of_nat (length acts).
Proof.
  induction acts as [|a t IH]; intros s s' tr cs i HI ND HF H; cbn [A.run] in H.
  - inversion H; subst. cbn [online_ops flat_map S.balance S.ups length]. split; [lia|]. split; [|lia].
    intro n. destruct n; cbn [firstn S.balance]; pose proof (nlive_nonneg s' i cs); lia.
  - destruct (A.step cfg masq s a) as [[s1 o]|] eqn:Es; [|discriminate].
    destruct (A.run cfg masq s1 t) as [[s2 tr2]|] eqn:Er; [|discriminate].
    inversion H; subst s' tr; clear H.
    inversion HF as [|? ? Hin HF']; subst.
    pose proof (AP.step_Inv cfg masq _ _ _ _ HI Es) as HI1.
    destruct (IH s1 s2 tr2 cs i HI1 ND HF' Er) as (B & P & U).
    destruct (step_online s a s1 o i HI Es) as (Sh & Sb & Su). cbv zeta in Sh, Sb, Su.
    pose proof (nlive_step s s1 i (A.act_conn a) cs ND Hin
                  (fun c' Hc' => AP.step_frame cfg masq _ _ _ _ c' Es Hc')) as Hn.
    change (A.EAct a :: map A.EObs o ++ tr2) with ([A.EAct a] ++ map A.EObs o ++ tr2).
    rewrite !online_ops_app. change (online_ops enc [A.EAct a]) with (@nil S.op). cbn [app].
    set (x := online_ops enc (map A.EObs o)) in *. set (y := online_ops enc tr2) in *.
    rewrite balance_app, ups_app. split; [lia|]. split.
    2:{ change (length (a :: t)) with (Datatypes.S (length t)). lia. }
    intro n. pose proof (nlive_nonneg s i cs) as N0.
    destruct Sh as [Ex|(j & b & Ex)]; rewrite Ex in *; cbn [app].
    + specialize (P n). cbn [S.balance] in Sb. lia.
    + destruct n as [|n]; [cbn [firstn S.balance]; lia|].
      cbn [firstn]. rewrite (SP.balance_cons i (S.OOnline j b) (firstn n y)). specialize (P n). lia.
Qed.

End Count.

(* ------------------------------------------------------------------ the two compositions *)

(* for every run of the server model: the LogOnlineState calls it makes are paired per user, their balance is the
   number of live authenticated connections of that user, and there are at most as many "online" calls as actions *)
Theorem online_from_c01_run enc cfg masq acts s tr i :
  A.run cfg masq A.init acts = Some (s, tr) ->
  S.paired i (online_ops enc tr) /\
  S.balance i (online_ops enc tr) = nlive enc s i (conns_of acts) /\
  S.ups i (online_ops enc tr) <= Z.of_nat (length acts).
Proof.
  intro H.
  assert (HF : Forall (fun a => In (A.act_conn a) (conns_of acts)) acts).
  { apply Forall_forall. intros a Ha. unfold conns_of. apply dedup_In. apply in_map. exact Ha. }
  destruct (run_online enc cfg masq acts A.init s tr (conns_of acts) i AP.Inv_init (dedup_NoDup _) HF H) as (B & P & U).
  rewrite nlive_init in B, P. split; [|split; [lia|exact U]].
  intro n. specialize (P n). lia.
Qed.

(* ... so the stats object, having performed those calls interleaved with ANY other operations, lists for every
   user exactly that number (no entry at zero) *)
Theorem listing_from_c01_run enc cfg masq acts s tr ops st rs i :
  A.run cfg masq A.init acts = Some (s, tr) ->
  only_online ops = online_ops enc tr ->
  S.run S.init_state ops = (st, rs) ->
  Z.of_nat (length acts) < SP.P63 ->
  let c := nlive enc s i (conns_of acts) in
  S.get i (S.online st) = (if c =? 0 then None else Some c) /\
  S.step st S.OGetOnline = (st, S.ROnline (S.online st)).
Proof.
  intros H Ho Hr Hl c.
  destruct (online_from_c01_run enc cfg masq acts s tr i H) as (P & B & U).
  assert (Pp : S.paired i ops) by (apply paired_only_online; rewrite Ho; exact P).
  assert (Up : S.ups i ops < SP.P63) by (rewrite <- ups_only_online, Ho; lia).
  destruct (SP.online_exact ops st rs i Hr Up Pp) as (_ & G & _).
  rewrite <- balance_only_online, Ho, B in G. split; [exact G|reflexivity].
Qed.

(* with an injective numbering, "live as user (enc id)" is "authenticated with the id string id and not closed" *)
Lemma live_injective enc s id c :
  (forall a b, enc a = enc b -> a = b) ->
  live enc s (enc id) c = authed_as s id c.
Proof.
  intro Hinj. unfold live, authed_as. f_equal.
  destruct (N.eqb_spec (enc id) (enc (A.auth_id (s c)))) as [E|E].
  - apply Hinj in E. subst id. symmetry. apply AP.str_eqb_refl.
  - destruct (A.str_eqb (A.auth_id (s c)) id) eqn:Q; [|reflexivity].
    apply AP.str_eqb_eq in Q. subst id. congruence.
Qed.

Lemma nlive_injective enc s id cs :
  (forall a b, enc a = enc b -> a = b) -> nlive enc s (enc id) cs = nauth s id cs.
Proof.
  intro Hinj. unfold nlive, nauth. f_equal. f_equal.
  induction cs as [|x cs IH]; [reflexivity|]. cbn [filter]. rewrite IH, (live_injective enc s id x Hinj). reflexivity.
Qed.

Theorem listing_counts_authenticated enc cfg masq acts s tr ops st rs id :
  (forall a b, enc a = enc b -> a = b) ->
  A.run cfg masq A.init acts = Some (s, tr) ->
  only_online ops = online_ops enc tr ->
  S.run S.init_state ops = (st, rs) ->
  Z.of_nat (length acts) < SP.P63 ->
  let c := nauth s id (conns_of acts) in
  S.step st S.OGetOnline = (st, S.ROnline (S.online st)) /\
  S.get (enc id) (S.online st) = (if c =? 0 then None else Some c).
Proof.
  intros Hinj H Ho Hr Hl c.
  destruct (listing_from_c01_run enc cfg masq acts s tr ops st rs (enc id) H Ho Hr Hl) as (G & Q).
  cbv zeta in G. rewrite (nlive_injective enc s id _ Hinj) in G. split; assumption.
Qed.

(* ------------------------------------------------------------------ non-vacuity *)

Section Example.
  Local Open Scope N_scope.
  Let cfg := A.mkCfg true false 0 0.
  Let masq := fun _ : A.request => A.mkResp 404 [] [].
  Let areq := A.mkReq ParamsC01.method_post ParamsC01.url_host ParamsC01.url_path [] [] 0.
  Let alice : A.str := [Byte.x61].
  Let bob : A.str := [Byte.x62].
  (* one-byte ids numbered by their byte *)
  Let enc (s : A.str) : S.id := match s with [b] => Byte.to_N b | _ => 0 end.
  (* alice on connections 1 and 3, bob on 2 (rejected once first), alice's first connection goes away;
     the stats object meanwhile accounts traffic, is asked for the listing and kicks somebody *)
  Let acts : list A.action :=
    [ A.HttpReq 1 areq []; A.AuthVerdict 1 true alice [];
      A.HttpReq 2 areq []; A.AuthVerdict 2 false [] []; A.HttpReq 2 areq []; A.AuthVerdict 2 true bob [];
      A.HttpReq 3 areq []; A.AuthVerdict 3 true alice []; A.HttpReq 3 areq [];
      A.ConnClosed 1 ].

  Example listing_example :
    exists s tr, A.run cfg masq A.init acts = Some (s, tr) /\
      online_ops enc tr = [S.OOnline 97 true; S.OOnline 98 true; S.OOnline 97 true; S.OOnline 97 false] /\
      conns_of acts = [2; 3; 1] /\
      nauth s alice (conns_of acts) = 1%Z /\ nauth s bob (conns_of acts) = 1%Z /\
      listing_after enc tr = [(97, 1%Z); (98, 1%Z)] /\
      S.online (fst (S.run S.init_state
         [S.OOnline 97 true; S.OLog 97 10 0; S.OOnline 98 true; S.OGetOnline; S.OOnline 97 true; S.OKick [98];
          S.OOnline 97 false; S.OTraffic true])) = [(97, 1%Z); (98, 1%Z)].
  Proof. eexists. eexists. split; [vm_compute; reflexivity|]. repeat split; vm_compute; reflexivity. Qed.
End Example.
