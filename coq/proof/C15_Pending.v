(* C15 proofs: request goroutines and the end of a connection (model/C15_Pending.v). *)
From Hy Require Import model.C15_Stats model.C15_Sites model.C15_Pending proof.C15_Stats proof.C15_Sites.
From Coq Require Import ZArith Lia List Bool.
Import ListNotations.
Local Open Scope N_scope.

(* In the code (waits = false) the request goroutines have no influence on the world of model/C15_Sites.v: a run
   with them is the run of its C15_Sites events. *)
Lemma pstep_pw secret p e :
  pw (fst (pstep false secret p e)) =
  match e with PW e0 => fst (wstep secret (pw p) e0) | _ => pw p end.
Proof.
  destruct e as [e0|slot k|slot k]; cbn [pstep].
  - destruct e0; cbn [andb]; destruct (wstep secret (pw p) _); reflexivity.
  - destruct (is_open slot (pw p)); reflexivity.
  - destruct (k <=? pend_at slot (pend p)); reflexivity.
Qed.

Lemma prun_projects secret : forall l p,
  pw (prun false secret p l) = wrun secret (pw p) (wevents l).
Proof.
  induction l as [|e t IH]; intros p; cbn [prun wevents flat_map]; [reflexivity|].
  rewrite IH, pstep_pw. destruct e; cbn [app wrun]; reflexivity.
Qed.

(* handleClient's continuation of a closed connection whose auth handlers are done is enabled and reports offline,
   whatever number of its request goroutines is still in flight. *)
Lemma offline_enabled secret p slot c :
  nth_error (conns (pw p)) slot = Some c ->
  c_open c = false -> c_busy c = false -> c_exited c = false -> c_flag c = true ->
  pstep false secret p (PW (EHandlerReturn slot)) =
    (mkPW (mkWorld (fst (do_online (logger (pw p)) (c_id c) false)) (upd slot unlist_conn (conns (pw p)))) (pend p), WUnit).
Proof.
  intros Hn Ho Hb He Hf. cbn [pstep andb wstep]. rewrite Hn, Ho, Hb, He, Hf. reflexivity.
Qed.

(* The census of model/C15_Sites.v, for runs with request goroutines: the listing is a function of the connections
   alone - [pend] does not occur in it. *)
Lemma census_with_requests secret l i :
  (Z.of_nat (List.length (wevents l)) < P63)%Z ->
  let p := prun false secret init_pworld l in
  let c := nlisted i (conns (pw p)) in
  get i (online (logger (pw p))) = (if (c =? 0)%Z then None else Some c) /\
  (nopen i (conns (pw p)) <= c)%Z /\
  (quiescent (conns (pw p)) -> c = nopen i (conns (pw p))).
Proof.
  intros Hlen p c. subst p c. rewrite prun_projects. cbn [pw init_pworld].
  destruct (census secret (wevents l) i Hlen) as (_ & Hg & _ & Hle & Hq & _). auto.
Qed.

(* The variant that waits for the request goroutines before it reports offline: the user stays listed with no live
   connection for as long as the dial hangs - handleClient's continuation is refused however often it is tried -
   and is dropped only when the dial returns; in the code the same run ends with the user gone from the listing
   while the request is still in its dial. *)
Lemma waits_refuted secret :
  let p := prun true secret init_pworld (stale_run 0) in
  nopen 0 (conns (pw p)) = 0%Z /\
  get 0 (online (logger (pw p))) = Some 1%Z /\
  (forall n, prun true secret p (repeat (PW (EHandlerReturn 0)) n) = p) /\
  get 0 (online (logger (pw (prun true secret p [PReqEnd 0 1; PW (EHandlerReturn 0)])))) = None /\
  let q := prun false secret init_pworld (stale_run 0) in
  get 0 (online (logger (pw q))) = None /\ pend_at 0 (pend q) = 1.
Proof.
  cbn. repeat split; auto.
  induction n as [|n IH]; [reflexivity|]. cbn [repeat prun]. exact IH.
Qed.
