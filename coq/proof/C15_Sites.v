(* C15 proofs, part 2: the report sites of core/server (model/C15_Sites.v). *)
From Hy Require Import model.C15_Stats model.C15_Sites proof.C15_Stats.
From Coq Require Import ZArith Lia ZifyBool ZifyNat ZifyN.
Local Open Scope N_scope.

(* ------------------------------------------------------------------ *)
(* 1. the sites                                                        *)
(* ------------------------------------------------------------------ *)

Lemma site_refused_closes st other :
  (is_tcp st = true -> other = false) -> site_action st false other = CloseConn.
Proof.
  destruct st; cbn; intro H; try reflexivity; rewrite H by reflexivity; reflexivity.
Qed.

Lemma site_accepted_forwards st other : site_action st true other = Forward.
Proof. destruct st, other; reflexivity. Qed.

Lemma site_closes_only_refused st ok other : site_action st ok other = CloseConn -> ok = false.
Proof. destruct st, ok, other; cbn; congruence. Qed.

(* ------------------------------------------------------------------ *)
(* 2. slots                                                            *)
(* ------------------------------------------------------------------ *)

Lemma nth_error_upd_eq f : forall k l c,
  nth_error l k = Some c -> nth_error (upd k f l) k = Some (f c).
Proof.
  induction k as [|k IH]; intros [|x t] c H; cbn in *; try discriminate.
  - inversion H; reflexivity.
  - apply IH; assumption.
Qed.

Lemma nth_error_upd_neq f : forall k j l, j <> k -> nth_error (upd k f l) j = nth_error l j.
Proof.
  induction k as [|k IH]; intros j [|x t] Hj; cbn; try reflexivity.
  - destruct j; [congruence|reflexivity].
  - destruct j; [reflexivity|]. cbn. apply IH. congruence.
Qed.

Lemma length_upd f : forall k l, length (upd k f l) = length l.
Proof.
  induction k as [|k IH]; intros [|x t]; cbn; try reflexivity. now rewrite IH.
Qed.

Lemma in_upd f : forall k l x,
  In x (upd k f l) -> In x l \/ exists c, nth_error l k = Some c /\ x = f c.
Proof.
  induction k as [|k IH]; intros [|y t] x H; cbn in *; try contradiction.
  - destruct H as [<-|H]; [right; eauto|left; auto].
  - destruct H as [<-|H]; [left; auto|].
    destruct (IH _ _ H) as [H1|H1]; [left; auto|right; exact H1].
Qed.

Local Open Scope Z_scope.

Lemma nlisted_bound i : forall l, 0 <= nlisted i l <= Z.of_nat (length l).
Proof.
  induction l as [|c t IH]; cbn [nlisted length]; [lia|].
  unfold b2z. destruct (_ && _); lia.
Qed.

Lemma nlisted_app i : forall a b, nlisted i (a ++ b) = nlisted i a + nlisted i b.
Proof. induction a as [|c t IH]; intro b; cbn [nlisted app]; [lia|]. rewrite IH. lia. Qed.

Lemma nopen_app i : forall a b, nopen i (a ++ b) = nopen i a + nopen i b.
Proof. induction a as [|c t IH]; intro b; cbn [nopen app]; [lia|]. rewrite IH. lia. Qed.

Lemma nlisted_upd i f : forall k l c,
  nth_error l k = Some c ->
  nlisted i (upd k f l) =
  nlisted i l - b2z ((c_id c =? i)%N && c_listed c) + b2z ((c_id (f c) =? i)%N && c_listed (f c)).
Proof.
  induction k as [|k IH]; intros [|x t] c H; cbn in *; try discriminate.
  - inversion H; subst. lia.
  - rewrite (IH _ _ H). lia.
Qed.

Lemma nopen_upd i f : forall k l c,
  nth_error l k = Some c ->
  nopen i (upd k f l) =
  nopen i l - b2z ((c_id c =? i)%N && c_live c) + b2z ((c_id (f c) =? i)%N && c_live (f c)).
Proof.
  induction k as [|k IH]; intros [|x t] c H; cbn in *; try discriminate.
  - inversion H; subst. lia.
  - rewrite (IH _ _ H). lia.
Qed.

Lemma quiescent_counts i : forall l, quiescent l -> nlisted i l = nopen i l.
Proof.
  induction l as [|c t IH]; intro Q; cbn [nlisted nopen]; [reflexivity|].
  rewrite IH by (intros x Hx; apply Q; right; exact Hx).
  rewrite (Q c) by (left; reflexivity). reflexivity.
Qed.

Lemma open_le_listed i : forall l,
  (forall c, In c l -> c_live c = true -> c_listed c = true) -> nopen i l <= nlisted i l.
Proof.
  induction l as [|c t IH]; intro Q; cbn [nlisted nopen]; [lia|].
  assert (nopen i t <= nlisted i t) by (apply IH; intros x Hx; apply Q; right; exact Hx).
  pose proof (Q c (or_introl eq_refl)) as Hc. unfold b2z.
  destruct (c_id c =? i)%N; cbn [andb]; [|lia].
  destruct (c_live c); [rewrite Hc by reflexivity; lia|destruct (c_listed c); lia].
Qed.

(* what holds of every connection record of a reachable world: an open connection's handleClient has
   not continued; while an auth handler is in flight nothing has been announced and handleClient
   waits (wg.Wait); with no handler in flight the flag handleClient reads says whether the
   connection was announced *)
Definition wfb (c : conn) : bool :=
  implb (c_open c) (negb (c_exited c)) &&
  (if c_busy c then negb (c_ann c) && negb (c_exited c) else Bool.eqb (c_flag c) (c_ann c)).

Definition wf_all (l : list conn) : Prop := forall c, In c l -> wfb c = true.

Lemma wf_live_listed c : wfb c = true -> c_live c = true -> c_listed c = true.
Proof. destruct c as [i [] [] [] [] []]; cbn; congruence. Qed.

Lemma wf_upd l k f :
  wf_all l -> (forall c, nth_error l k = Some c -> wfb c = true -> wfb (f c) = true) -> wf_all (upd k f l).
Proof.
  intros W F x Hx. destruct (in_upd _ _ _ _ Hx) as [H|(c & Hn & ->)]; [auto|].
  apply F; [exact Hn|]. apply W. eapply nth_error_In; exact Hn.
Qed.

Lemma wf_app l c : wf_all l -> wfb c = true -> wf_all (l ++ [c]).
Proof. intros W H x Hx. apply in_app_or in Hx. destruct Hx as [Hx|[<-|[]]]; auto. Qed.

Lemma wf_close c : wfb c = true -> wfb (close_conn c) = true.
Proof. destruct c as [i [] [] [] [] []]; cbn; congruence. Qed.

(* ------------------------------------------------------------------ *)
(* 3. a refused report                                                 *)
(* ------------------------------------------------------------------ *)

Lemma report_result secret w slot st n other c :
  nth_error (conns w) slot = Some c -> c_open c = true ->
  snd (wstep secret w (EReport slot st n other)) = WBool (negb (mem (c_id c) (kick (logger w)))).
Proof.
  intros Hn Ho. cbn [wstep]. rewrite Hn, Ho. unfold do_log.
  destruct (mem (c_id c) (kick (logger w))); cbn [negb]; destruct (site_action _ _ _); reflexivity.
Qed.

Lemma report_refused secret w slot st n other c w' :
  nth_error (conns w) slot = Some c -> c_open c = true ->
  (is_tcp st = true -> other = false) ->
  wstep secret w (EReport slot st n other) = (w', WBool false) ->
  conns w' = upd slot close_conn (conns w) /\
  stats (logger w') = stats (logger w) /\ online (logger w') = online (logger w) /\
  mem (c_id c) (kick (logger w)) = true /\ mem (c_id c) (kick (logger w')) = false.
Proof.
  intros Hn Ho Hoth H. cbn [wstep] in H. rewrite Hn, Ho in H.
  destruct (do_log (logger w) (c_id c) (site_tx st n) (site_rx st n)) as [s' r] eqn:Hl.
  destruct r as [ok| | |]; try (inversion H; fail).
  assert (Hok : ok = false).
  { destruct (site_action st ok other); inversion H; reflexivity. }
  subst ok. rewrite (site_refused_closes st other Hoth) in H. inversion H; subst w'; clear H.
  cbn [conns logger].
  destruct (refused_adds_nothing (logger w) (c_id c) (site_tx st n) (site_rx st n) s' Hl)
    as (H1 & H2 & H3 & H4).
  repeat split; assumption.
Qed.

Lemma report_accepted secret w slot st n other w' :
  wstep secret w (EReport slot st n other) = (w', WBool true) -> conns w' = conns w.
Proof.
  intro H. cbn [wstep] in H.
  destruct (nth_error (conns w) slot) as [c|]; [|inversion H].
  destruct (c_open c); [|inversion H].
  destruct (do_log _ _ _ _) as [s' r]. destruct r as [ok| | |]; try (inversion H; fail).
  destruct (site_action st ok other) eqn:Ha; inversion H; subst; [reflexivity|].
  apply site_closes_only_refused in Ha. discriminate.
Qed.

Lemma closed_reports_nothing secret w slot st n other c :
  nth_error (conns w) slot = Some c -> c_open c = false ->
  wstep secret w (EReport slot st n other) = (w, WNone).
Proof. intros Hn Ho. cbn [wstep]. rewrite Hn, Ho. reflexivity. Qed.

(* ------------------------------------------------------------------ *)
(* 4. the census invariant                                             *)
(* ------------------------------------------------------------------ *)

Definition census_inv (w : world) : Prop :=
  (forall i, listed i (online (logger w)) (nlisted i (conns w))) /\ wf_all (conns w).

Lemma census_init : census_inv init_world.
Proof. split; [intro i; apply listed_init|intros c []]. Qed.

Lemma wstep_length secret w e :
  Z.of_nat (length (conns (fst (wstep secret w e)))) <= Z.of_nat (length (conns w)) + 1.
Proof.
  destruct e as [i|slot i|slot st n other|slot|slot|r|i|slot ok|slot]; cbn [wstep].
  - cbn [fst conns]. rewrite app_length. cbn [length]. lia.
  - destruct (nth_error (conns w) slot) as [c|]; [|cbn; lia]. destruct (c_open c); cbn; lia.
  - destruct (nth_error (conns w) slot) as [c|]; [|cbn; lia].
    destruct (c_open c); [|cbn; lia].
    destruct (do_log _ _ _ _) as [s' r]. destruct r; try (cbn; lia).
    destruct (site_action _ _ _); cbn [fst conns]; rewrite ?length_upd; lia.
  - destruct (nth_error (conns w) slot) as [c|]; [|cbn; lia].
    destruct (c_open c); cbn [fst conns]; rewrite ?length_upd; lia.
  - destruct (nth_error (conns w) slot) as [c|]; [|cbn; lia].
    destruct (_ && _); [destruct (c_flag c)|]; cbn [fst conns]; rewrite ?length_upd; lia.
  - destruct (http_step secret (logger w) r) as [s' h]. cbn. lia.
  - cbn [fst conns]. rewrite app_length. cbn [length]. lia.
  - destruct (nth_error (conns w) slot) as [c|]; [|cbn; lia].
    destruct (_ && _); cbn [fst conns]; rewrite ?length_upd; lia.
  - destruct (nth_error (conns w) slot) as [c|]; [|cbn; lia].
    destruct (_ && _); cbn [fst conns]; rewrite ?length_upd; lia.
Qed.

(* the record invariant is kept by every event *)
Lemma wf_step secret w e : wf_all (conns w) -> wf_all (conns (fst (wstep secret w e))).
Proof.
  intro W. destruct e as [j|slot j|slot st n other|slot|slot|r|j|slot ok|slot]; cbn [wstep].
  - cbn [fst conns]. apply wf_app; [exact W|reflexivity].
  - destruct (nth_error (conns w) slot) as [c|]; [|exact W]. destruct (c_open c); exact W.
  - destruct (nth_error (conns w) slot) as [c|]; [|exact W].
    destruct (c_open c); [|exact W].
    destruct (do_log _ _ _ _) as [s' r]. destruct r; try exact W.
    destruct (site_action _ _ _); cbn [fst conns]; [exact W|].
    apply wf_upd; [exact W|]. intros x _. apply wf_close.
  - destruct (nth_error (conns w) slot) as [c|]; [|exact W].
    destruct (c_open c); [|exact W]. cbn [fst conns].
    apply wf_upd; [exact W|]. intros x _. apply wf_close.
  - destruct (nth_error (conns w) slot) as [c|] eqn:Hn; [|exact W].
    destruct (negb (c_open c) && negb (c_busy c) && negb (c_exited c)) eqn:G; [|exact W].
    destruct (c_flag c) eqn:F; cbn [fst conns]; (apply wf_upd; [exact W|]);
      intros x Hx Hw; rewrite Hn in Hx; inversion Hx; subst x; revert G F Hw;
      destruct c as [i [] [] [] [] []]; cbn; congruence.
  - destruct (http_step secret (logger w) r) as [s' h]. exact W.
  - cbn [fst conns]. apply wf_app; [exact W|reflexivity].
  - destruct (nth_error (conns w) slot) as [c|] eqn:Hn; [|exact W].
    destruct (c_busy c && negb (c_flag c)) eqn:G; [|exact W]. cbn [fst conns].
    apply wf_upd; [exact W|]. intros x Hx Hw. rewrite Hn in Hx; inversion Hx; subst x. revert G Hw.
    destruct ok; destruct c as [i [] [] [] [] []]; cbn; congruence.
  - destruct (nth_error (conns w) slot) as [c|] eqn:Hn; [|exact W].
    destruct (c_busy c && c_flag c) eqn:G; [|exact W]. cbn [fst conns].
    apply wf_upd; [exact W|]. intros x Hx Hw. rewrite Hn in Hx; inversion Hx; subst x. revert G Hw.
    destruct c as [i [] [] [] [] []]; cbn; congruence.
Qed.

(* an update that leaves the id and the "online notification outstanding" reading alone *)
Lemma nlisted_upd_same i f : forall k l,
  (forall c, c_id (f c) = c_id c /\ c_listed (f c) = c_listed c) ->
  nlisted i (upd k f l) = nlisted i l.
Proof.
  induction k as [|k IH]; intros [|x t] F; cbn [upd nlisted]; try reflexivity.
  - destruct (F x) as [-> ->]. reflexivity.
  - rewrite IH by exact F. reflexivity.
Qed.

Lemma close_same c : c_id (close_conn c) = c_id c /\ c_listed (close_conn c) = c_listed c.
Proof. split; reflexivity. Qed.

Lemma close_keeps_inv w slot s' :
  online s' = online (logger w) -> census_inv w ->
  census_inv (mkWorld s' (upd slot close_conn (conns w))).
Proof.
  intros Ho [I1 I2]. split; cbn [logger conns].
  - intro i. rewrite Ho. rewrite (nlisted_upd_same i close_conn) by apply close_same. apply I1.
  - apply wf_upd; [exact I2|]. intros x _. apply wf_close.
Qed.

Lemma census_step secret w e :
  census_inv w -> Z.of_nat (length (conns w)) + 1 < P63 -> census_inv (fst (wstep secret w e)).
Proof.
  intros [I1 I2] Hb. split; [|apply wf_step; exact I2].
  destruct e as [j|slot j|slot st n other|slot|slot|r|j|slot ok|slot]; cbn [wstep].
  - (* EAuth *)
    destruct (do_online (logger w) j true) as [s1 r] eqn:E. cbn [fst logger conns].
    intro i. rewrite nlisted_app. cbn [nlisted c_id]. unfold c_listed. cbn [c_ann c_exited negb andb].
    pose proof (nlisted_bound i (conns w)) as Hnb.
    assert (L := online_step (logger w) (OOnline j true) s1 r i _ E (I1 i)).
    cbn [live_count ups] in L.
    rewrite N.eqb_sym. destruct (i =? j)%N; cbn [andb b2z] in *.
    + replace (nlisted i (conns w) + (1 + 0)) with (nlisted i (conns w) + 1) by lia.
      apply L. lia.
    + replace (nlisted i (conns w) + (0 + 0)) with (nlisted i (conns w)) by lia.
      apply L. lia.
  - (* EAuthAgain *)
    destruct (nth_error (conns w) slot) as [c|]; [|assumption].
    destruct (c_open c); assumption.
  - (* EReport *)
    destruct (nth_error (conns w) slot) as [c|]; [|assumption].
    destruct (c_open c); [|assumption].
    destruct (do_log (logger w) (c_id c) (site_tx st n) (site_rx st n)) as [s' r] eqn:Hl.
    assert (Ho : online s' = online (logger w)).
    { unfold do_log in Hl. destruct (mem _ _); inversion Hl; reflexivity. }
    destruct r; try (cbn [fst logger conns]; intro i; rewrite Ho; apply I1).
    destruct (site_action st b other); cbn [fst logger conns]; intro i; rewrite Ho.
    + apply I1.
    + rewrite (nlisted_upd_same i close_conn) by apply close_same. apply I1.
  - (* EClientClose *)
    destruct (nth_error (conns w) slot) as [c|]; [|assumption].
    destruct (c_open c); [|assumption]. cbn [fst logger conns]. intro i.
    rewrite (nlisted_upd_same i close_conn) by apply close_same. apply I1.
  - (* EHandlerReturn *)
    destruct (nth_error (conns w) slot) as [c|] eqn:Hn; [|assumption].
    destruct (negb (c_open c) && negb (c_busy c) && negb (c_exited c)) eqn:G; [|assumption].
    assert (Hw : wfb c = true) by (apply I2; eapply nth_error_In; exact Hn).
    destruct (c_flag c) eqn:F.
    + assert (Hli : c_listed c = true).
      { revert G F Hw. destruct c as [i0 [] [] [] [] []]; cbn; congruence. }
      destruct (do_online (logger w) (c_id c) false) as [s1 r] eqn:E. cbn [fst logger conns].
      intro i. rewrite (nlisted_upd i unlist_conn _ _ _ Hn).
      replace (c_listed (unlist_conn c)) with false
        by (unfold c_listed; cbn [unlist_conn c_ann c_exited]; now rewrite Bool.andb_false_r).
      cbn [unlist_conn c_id].
      rewrite Hli, Bool.andb_false_r, Bool.andb_true_r.
      pose proof (nlisted_bound i (conns w)) as Hnb.
      pose proof (nlisted_bound i (upd slot unlist_conn (conns w))) as Hnb2.
      rewrite (nlisted_upd i unlist_conn _ _ _ Hn) in Hnb2.
      replace (c_listed (unlist_conn c)) with false in Hnb2
        by (unfold c_listed; cbn [unlist_conn c_ann c_exited]; now rewrite Bool.andb_false_r).
      cbn [unlist_conn c_id] in Hnb2.
      rewrite Hli, Bool.andb_false_r, Bool.andb_true_r in Hnb2.
      assert (L := online_step (logger w) (OOnline (c_id c) false) s1 r i _ E (I1 i)).
      cbn [live_count ups] in L. rewrite (N.eqb_sym (c_id c) i) in Hnb2 |- *.
      destruct (i =? c_id c)%N; cbn [b2z] in *.
      * replace (nlisted i (conns w) - 1 + 0) with (Z.max 0 (nlisted i (conns w) - 1)) by lia.
        apply L. lia.
      * replace (nlisted i (conns w) - 0 + 0) with (nlisted i (conns w)) by lia. apply L. lia.
    + (* the flag is not set: nothing was announced, nothing is reported *)
      assert (Hli : c_listed c = false).
      { revert G F Hw. destruct c as [i0 [] [] [] [] []]; cbn; congruence. }
      cbn [fst logger conns]. intro i. rewrite (nlisted_upd i unlist_conn _ _ _ Hn).
      replace (c_listed (unlist_conn c)) with false
        by (unfold c_listed; cbn [unlist_conn c_ann c_exited]; now rewrite Bool.andb_false_r).
      rewrite Hli, !Bool.andb_false_r. cbn [b2z].
      replace (nlisted i (conns w) - 0 + 0) with (nlisted i (conns w)) by lia. apply I1.
  - (* EHttp *)
    destruct (http_step secret (logger w) r) as [s' h] eqn:E. cbn [fst].
    pose proof (http_effects secret (logger w) r) as He. rewrite E in He. cbn [fst] in He.
    destruct He as [Ho _]. cbn [logger conns]. intro i; rewrite Ho; apply I1.
  - (* EAuthBegin: nothing announced yet *)
    cbn [fst logger conns]. intro i. rewrite nlisted_app. cbn [nlisted c_id]. unfold c_listed.
    cbn [c_ann c_exited negb andb]. rewrite Bool.andb_false_r. cbn [b2z].
    replace (nlisted i (conns w) + (0 + 0)) with (nlisted i (conns w)) by lia. apply I1.
  - (* EAuthDecide *)
    destruct (nth_error (conns w) slot) as [c|] eqn:Hn; [|assumption].
    destruct (c_busy c && negb (c_flag c)); [|assumption]. cbn [fst logger conns]. intro i.
    rewrite nlisted_upd_same; [apply I1|]. intro x. destruct ok; split; reflexivity.
  - (* EAnnounce *)
    destruct (nth_error (conns w) slot) as [c|] eqn:Hn; [|assumption].
    destruct (c_busy c && c_flag c) eqn:G; [|assumption].
    assert (Hw : wfb c = true) by (apply I2; eapply nth_error_In; exact Hn).
    assert (Hli : c_listed c = false /\ c_listed (announce_conn c) = true).
    { revert G Hw. destruct c as [i0 [] [] [] [] []]; cbn; try congruence; auto. }
    destruct Hli as [Hl0 Hl1].
    destruct (do_online (logger w) (c_id c) true) as [s1 r] eqn:E. cbn [fst logger conns].
    intro i. rewrite (nlisted_upd i announce_conn _ _ _ Hn). rewrite Hl0, Hl1.
    cbn [announce_conn c_id]. rewrite Bool.andb_false_r, Bool.andb_true_r.
    pose proof (nlisted_bound i (conns w)) as Hnb.
    assert (Hlen : nlisted i (conns w) + 1 < P63) by lia.
    assert (L := online_step (logger w) (OOnline (c_id c) true) s1 r i _ E (I1 i)).
    cbn [live_count ups] in L. rewrite (N.eqb_sym (c_id c) i).
    destruct (i =? c_id c)%N; cbn [b2z] in *.
    + replace (nlisted i (conns w) - 0 + 1) with (nlisted i (conns w) + 1) by lia. apply L. lia.
    + replace (nlisted i (conns w) - 0 + 0) with (nlisted i (conns w)) by lia. apply L. lia.
Qed.

Lemma census_run secret : forall evs w,
  census_inv w -> Z.of_nat (length (conns w)) + Z.of_nat (length evs) < P63 ->
  census_inv (wrun secret w evs).
Proof.
  induction evs as [|e t IH]; intros w I Hb; cbn [wrun]; [exact I|].
  cbn [length] in Hb. apply IH.
  - apply census_step; [exact I|lia].
  - pose proof (wstep_length secret w e). lia.
Qed.

Lemma wrun_app secret : forall a w b, wrun secret w (a ++ b) = wrun secret (wrun secret w a) b.
Proof. induction a as [|e t IH]; intros w b; cbn [wrun app]; [reflexivity|apply IH]. Qed.

Lemma wrun_length secret : forall evs w,
  Z.of_nat (length (conns (wrun secret w evs))) <= Z.of_nat (length (conns w)) + Z.of_nat (length evs).
Proof.
  induction evs as [|e t IH]; intro w; cbn [wrun length]; [lia|].
  pose proof (IH (fst (wstep secret w e))). pose proof (wstep_length secret w e). lia.
Qed.

(* the census: after any events, GET /online lists for every user exactly the connections
   whose handler has not returned; once every closed connection's handler has returned that
   is exactly the open connections *)
Lemma census secret evs i :
  Z.of_nat (length evs) < P63 ->
  let w := wrun secret init_world evs in
  let c := nlisted i (conns w) in
  0 <= c /\ get i (online (logger w)) = (if c =? 0 then None else Some c) /\
  snd (wstep secret w (EHttp (mkReq secret "GET" "/online" "" None))) =
    WHttp StatusOK (BOnline (online (logger w))) /\
  nopen i (conns w) <= c /\ (quiescent (conns w) -> c = nopen i (conns w)) /\
  (forall slot j, fst (wstep secret w (EAuthAgain slot j)) = w).
Proof.
  intros Hb w c.
  assert (I : census_inv w) by (apply census_run; [apply census_init|cbn; lia]).
  destruct I as [I1 I2]. destruct (I1 i) as [Hg Hc].
  split; [exact Hc|]. split; [exact Hg|]. split.
  - cbn [wstep]. unfold http_step, route. cbn [r_auth r_method r_path].
    rewrite String.eqb_refl. destruct (secret =? "")%string; reflexivity.
  - split; [apply open_le_listed; intros x Hx; apply wf_live_listed; apply I2; exact Hx|].
    split; [apply quiescent_counts|].
    intros slot j. cbn [wstep]. destruct (nth_error (conns w) slot) as [x|]; [|reflexivity].
    destruct (c_open x); reflexivity.
Qed.

(* the variant in which authMutex does not span check and act (model/C15_Sites.v auth_again_unlocked):
   one connection, two overlapping auth requests - the listing shows 2 for one connection, and 1 for
   ever after that connection is gone *)
Lemma auth_unlocked_refuted secret :
  let w0 := wrun secret init_world [EAuth 0%N] in
  let w1 := auth_again_unlocked w0 0 in
  let w2 := wrun secret w1 [EClientClose 0; EHandlerReturn 0] in
  nlisted 0%N (conns w1) = 1 /\ get 0%N (online (logger w1)) = Some 2 /\
  nopen 0%N (conns w2) = 0 /\ nlisted 0%N (conns w2) = 0 /\ get 0%N (online (logger w2)) = Some 1.
Proof. cbv. repeat split; reflexivity. Qed.

(* ------------------------------------------------------------------ *)
(* 5. kick => disconnect, end to end                                   *)
(* ------------------------------------------------------------------ *)

Lemma kick_disconnects secret evs slot c st n other :
  Z.of_nat (length evs) + 2 < P63 ->
  let w := wrun secret init_world evs in
  nth_error (conns w) slot = Some c -> c_open c = true -> c_ann c = true ->
  mem (c_id c) (kick (logger w)) = true ->
  (is_tcp st = true -> other = false) ->
  let i := c_id c in
  let w1 := fst (wstep secret w (EReport slot st n other)) in
  let w2 := fst (wstep secret w1 (EHandlerReturn slot)) in
  snd (wstep secret w (EReport slot st n other)) = WBool false /\
  is_open slot w1 = false /\
  wstep secret w1 (EReport slot st n other) = (w1, WNone) /\
  snd (wstep secret w1 (EHandlerReturn slot)) = WUnit /\
  nopen i (conns w2) = nopen i (conns w) - 1 /\
  (let k := nlisted i (conns w) - 1 in
   0 <= k /\ get i (online (logger w2)) = (if k =? 0 then None else Some k)) /\
  mem i (kick (logger w2)) = false /\ stats (logger w2) = stats (logger w) /\
  (forall j, j <> slot -> nth_error (conns w2) j = nth_error (conns w) j).
Proof.
  intros Hb w Hn Ho Han Hk Hoth i w1 w2.
  assert (I : census_inv w) by (apply census_run; [apply census_init|cbn; lia]).
  assert (Hw : wfb c = true) by (apply (proj2 I); eapply nth_error_In; exact Hn).
  assert (Hli : c_listed c = true).
  { apply wf_live_listed; [exact Hw|]. unfold c_live. now rewrite Ho, Han. }
  assert (Hfl : c_flag c = true /\ c_busy c = false /\ c_exited c = false).
  { revert Ho Han Hw. destruct c as [i0 [] [] [] [] []]; cbn; try congruence; auto. }
  destruct Hfl as (Hfl & Hbu & Hex).
  pose proof (report_result secret w slot st n other c Hn Ho) as Hr.
  rewrite Hk in Hr. cbn [negb] in Hr.
  destruct (wstep secret w (EReport slot st n other)) as [w1' r1] eqn:E1.
  cbn [snd] in Hr. subst r1. cbn [fst] in w1. subst w1.
  destruct (report_refused secret w slot st n other c w1' Hn Ho Hoth E1) as (Hc1 & Hs1 & Ho1 & _ & Hk1).
  assert (Hn1 : nth_error (conns w1') slot = Some (close_conn c)).
  { rewrite Hc1. apply nth_error_upd_eq. exact Hn. }
  assert (E2 : wstep secret w1' (EHandlerReturn slot) =
               (mkWorld (fst (do_online (logger w1') i false)) (upd slot unlist_conn (conns w1')), WUnit)).
  { cbn [wstep]. rewrite Hn1. cbn [close_conn c_open c_busy c_exited c_flag c_id negb]. rewrite Hbu, Hex, Hfl. reflexivity. }
  assert (I2 : census_inv w2).
  { subst w2. replace w1' with (fst (wstep secret w (EReport slot st n other))) by (rewrite E1; reflexivity).
    change (census_inv (wrun secret w [EReport slot st n other; EHandlerReturn slot])).
    subst w. rewrite <- wrun_app. apply census_run; [apply census_init|].
    rewrite app_length. cbn [length conns init_world]. lia. }
  assert (Hc2 : conns w2 = upd slot unlist_conn (upd slot close_conn (conns w))).
  { subst w2. rewrite E2. cbn [fst conns]. rewrite Hc1. reflexivity. }
  split; [reflexivity|]. split; [unfold is_open; rewrite Hn1; reflexivity|].
  split; [apply (closed_reports_nothing secret w1' slot st n other _ Hn1); reflexivity|].
  split; [rewrite E2; reflexivity|].
  assert (Hn1' : nth_error (upd slot close_conn (conns w)) slot = Some (close_conn c))
    by (apply nth_error_upd_eq; exact Hn).
  split.
  { rewrite Hc2. rewrite (nopen_upd i unlist_conn _ _ _ Hn1'), (nopen_upd i close_conn _ _ _ Hn).
    unfold c_live. cbn [unlist_conn close_conn c_id c_open c_ann]. fold i. rewrite N.eqb_refl, Ho, Han. cbn. lia. }
  assert (Hnl : nlisted i (conns w2) = nlisted i (conns w) - 1).
  { rewrite Hc2. rewrite (nlisted_upd i unlist_conn _ _ _ Hn1'), (nlisted_upd i close_conn _ _ _ Hn).
    unfold c_listed in Hli |- *. cbn [unlist_conn close_conn c_id c_ann c_exited]. fold i.
    rewrite N.eqb_refl, Hli, Han. cbn. lia. }
  split.
  { destruct (proj1 I2 i) as [Hg Hpos]. rewrite Hnl in Hg, Hpos. cbn zeta. split; assumption. }
  assert (Hl2 : logger w2 = fst (do_online (logger w1') i false)) by (subst w2; rewrite E2; reflexivity).
  split.
  { rewrite Hl2. unfold do_online. destruct (_ <=? _); cbn [fst kick]; exact Hk1. }
  split.
  { rewrite Hl2. unfold do_online. destruct (_ <=? _); cbn [fst stats]; exact Hs1. }
  intros j Hj. rewrite Hc2. rewrite !nth_error_upd_neq by exact Hj. reflexivity.
Qed.

(* ------------------------------------------------------------------ *)
(* 6. online / offline notifications are paired                        *)
(* ------------------------------------------------------------------ *)

(* the notifications a connection record stands for *)
Definition expected (c : conn) : list (id * bool) :=
  if c_ann c then (c_id c, true) :: (if c_exited c then [(c_id c, false)] else []) else [].

Definition lookup (l : list conn) (k : nat) : list (id * bool) :=
  match nth_error l k with Some c => expected c | None => [] end.

Definition at_slot (k : nat) (xs : list (id * bool)) : list note := map (pair k) xs.

Definition ops_of (xs : list (id * bool)) : list op := map (fun x => OOnline (fst x) (snd x)) xs.

Lemma conn_notes_app k a b : conn_notes k (a ++ b) = conn_notes k a ++ conn_notes k b.
Proof. unfold conn_notes. now rewrite filter_app, map_app. Qed.

Lemma conn_notes_at k j xs : conn_notes k (at_slot j xs) = if Nat.eqb j k then xs else [].
Proof.
  unfold conn_notes, at_slot. induction xs as [|x t IH]; cbn [map filter fst].
  - destruct (Nat.eqb j k); reflexivity.
  - destruct (Nat.eqb j k) eqn:E; cbn [map snd]; rewrite IH; reflexivity.
Qed.

Lemma note_ops_app a b : note_ops (a ++ b) = note_ops a ++ note_ops b.
Proof. unfold note_ops. apply map_app. Qed.

Lemma note_ops_at k xs : note_ops (at_slot k xs) = ops_of xs.
Proof. unfold note_ops, at_slot, ops_of. rewrite map_map. reflexivity. Qed.

Lemma ops_of_app a b : ops_of (a ++ b) = ops_of a ++ ops_of b.
Proof. unfold ops_of. apply map_app. Qed.

Lemma balance_app i : forall a b, balance i (a ++ b) = balance i a + balance i b.
Proof.
  induction a as [|o t IH]; intro b; cbn [app]; [cbn [balance]; lia|].
  rewrite balance_cons, (balance_cons i o t), IH. lia.
Qed.

Lemma bal_expected i c :
  balance i (ops_of (expected c)) = b2z ((c_id c =? i)%N && c_listed c).
Proof.
  unfold expected, c_listed. rewrite (N.eqb_sym (c_id c) i).
  destruct (c_ann c), (c_exited c); cbn [ops_of map fst snd balance negb andb];
    destruct (i =? c_id c)%N; cbn [andb b2z]; lia.
Qed.

Lemma apply_notes_app s a b : apply_notes s (a ++ b) = apply_notes (apply_notes s a) b.
Proof. unfold apply_notes. apply fold_left_app. Qed.

Lemma do_online_ext s1 s2 i b :
  online s1 = online s2 -> online (fst (do_online s1 i b)) = online (fst (do_online s2 i b)).
Proof.
  intro H. unfold do_online. rewrite H. destruct b; [reflexivity|].
  destruct (_ <=? _); reflexivity.
Qed.

Lemma apply_notes_ext : forall tr s1 s2,
  online s1 = online s2 -> online (apply_notes s1 tr) = online (apply_notes s2 tr).
Proof.
  induction tr as [|n t IH]; intros s1 s2 H; [exact H|].
  change (apply_notes s1 (n :: t)) with (apply_notes (fst (do_online s1 (fst (snd n)) (snd (snd n)))) t).
  change (apply_notes s2 (n :: t)) with (apply_notes (fst (do_online s2 (fst (snd n)) (snd (snd n)))) t).
  apply IH. apply do_online_ext. exact H.
Qed.

Lemma apply_notes_run : forall tr s, apply_notes s tr = fst (run s (note_ops tr)).
Proof.
  induction tr as [|n t IH]; intro s; [reflexivity|].
  change (apply_notes s (n :: t)) with (apply_notes (fst (do_online s (fst (snd n)) (snd (snd n)))) t).
  cbn [note_ops map]. rewrite run_cons. cbn [step].
  destruct (do_online s (fst (snd n)) (snd (snd n))) as [s1 r] eqn:E. cbn [fst].
  rewrite IH. unfold note_ops. destruct (run s1 _) as [s2 rs]. reflexivity.
Qed.

(* what one event does to the connection table, the notifications and the online map *)
Inductive shape (w w' : world) (ns : list note) : Prop :=
| ShSame : conns w' = conns w -> ns = [] -> online (logger w') = online (logger w) -> shape w w' ns
| ShNew c : conns w' = conns w ++ [c] -> c_exited c = false ->
    ns = at_slot (length (conns w)) (expected c) ->
    online (logger w') = online (apply_notes (logger w) ns) -> shape w w' ns
| ShUpd slot c f xs : nth_error (conns w) slot = Some c -> conns w' = upd slot f (conns w) ->
    expected (f c) = expected c ++ xs -> (length xs <= 1)%nat -> ns = at_slot slot xs ->
    online (logger w') = online (apply_notes (logger w) ns) -> shape w w' ns.

Lemma wstep_shape secret w e :
  wf_all (conns w) -> shape w (fst (wstep secret w e)) (wnote w e).
Proof.
  intro W. destruct e as [j|slot j|slot st n other|slot|slot|r|j|slot ok|slot]; cbn [wstep wnote].
  - (* EAuth *)
    apply (ShNew _ _ _ (mkConn j true true false true false)); reflexivity.
  - destruct (nth_error (conns w) slot) as [c|]; [|apply ShSame; reflexivity].
    destruct (c_open c); apply ShSame; reflexivity.
  - (* EReport *)
    destruct (nth_error (conns w) slot) as [c|] eqn:Hn; [|apply ShSame; reflexivity].
    destruct (c_open c); [|apply ShSame; reflexivity].
    destruct (do_log (logger w) (c_id c) (site_tx st n) (site_rx st n)) as [s' r] eqn:Hl.
    assert (Ho : online s' = online (logger w)).
    { unfold do_log in Hl. destruct (mem _ _); inversion Hl; reflexivity. }
    destruct r; try (apply ShSame; [reflexivity|reflexivity|exact Ho]).
    destruct (site_action st b other); cbn [fst].
    + apply ShSame; [reflexivity|reflexivity|exact Ho].
    + apply (ShUpd _ _ _ slot c close_conn []);
        [exact Hn|reflexivity| |cbn; lia|reflexivity|exact Ho].
      unfold expected. cbn [close_conn c_ann c_exited c_id]. now rewrite app_nil_r.
  - (* EClientClose *)
    destruct (nth_error (conns w) slot) as [c|] eqn:Hn; [|apply ShSame; reflexivity].
    destruct (c_open c); [|apply ShSame; reflexivity]. cbn [fst].
    apply (ShUpd _ _ _ slot c close_conn []);
      [exact Hn|reflexivity| |cbn; lia|reflexivity|reflexivity].
    unfold expected. cbn [close_conn c_ann c_exited c_id]. now rewrite app_nil_r.
  - (* EHandlerReturn *)
    destruct (nth_error (conns w) slot) as [c|] eqn:Hn; [|apply ShSame; reflexivity].
    assert (Hw : wfb c = true) by (apply W; eapply nth_error_In; exact Hn).
    destruct (negb (c_open c) && negb (c_busy c) && negb (c_exited c)) eqn:G;
      [|apply ShSame; reflexivity].
    destruct (c_flag c) eqn:F; cbn [fst andb].
    + apply (ShUpd _ _ _ slot c unlist_conn [(c_id c, false)]);
        [exact Hn|reflexivity| |cbn; lia|reflexivity|reflexivity].
      revert G F Hw. destruct c as [i0 [] [] [] [] []]; cbn; congruence.
    + apply (ShUpd _ _ _ slot c unlist_conn []);
        [exact Hn|reflexivity| |cbn; lia|reflexivity|reflexivity].
      revert G F Hw. destruct c as [i0 [] [] [] [] []]; cbn; congruence.
  - (* EHttp *)
    destruct (http_step secret (logger w) r) as [s' h] eqn:E. cbn [fst].
    pose proof (http_effects secret (logger w) r) as He. rewrite E in He. cbn [fst] in He.
    apply ShSame; [reflexivity|reflexivity|exact (proj1 He)].
  - (* EAuthBegin *)
    apply (ShNew _ _ _ (mkConn j true false true false false)); reflexivity.
  - (* EAuthDecide *)
    destruct (nth_error (conns w) slot) as [c|] eqn:Hn; [|apply ShSame; reflexivity].
    destruct (c_busy c && negb (c_flag c)); [|apply ShSame; reflexivity]. cbn [fst].
    apply (ShUpd _ _ _ slot c (if ok then store_conn else reject_conn) []);
      [exact Hn|reflexivity| |cbn; lia|reflexivity|reflexivity].
    destruct ok; unfold expected; cbn [store_conn reject_conn c_ann c_exited c_id]; now rewrite app_nil_r.
  - (* EAnnounce *)
    destruct (nth_error (conns w) slot) as [c|] eqn:Hn; [|apply ShSame; reflexivity].
    assert (Hw : wfb c = true) by (apply W; eapply nth_error_In; exact Hn).
    destruct (c_busy c && c_flag c) eqn:G; [|apply ShSame; reflexivity]. cbn [fst].
    apply (ShUpd _ _ _ slot c announce_conn [(c_id c, true)]);
      [exact Hn|reflexivity| |cbn; lia|reflexivity|reflexivity].
    revert G Hw. destruct c as [i0 [] [] [] [] []]; cbn; congruence.
Qed.

Definition pair_inv (w : world) (tr : list note) (s0 : state) : Prop :=
  (forall k, conn_notes k tr = lookup (conns w) k) /\
  (forall i, balance i (note_ops tr) = nlisted i (conns w)) /\
  (forall i, paired i (note_ops tr)) /\
  online (logger w) = online (apply_notes s0 tr).

Lemma paired_snoc i a b :
  paired i a -> (length b <= 1)%nat -> 0 <= balance i (a ++ b) -> paired i (a ++ b).
Proof.
  intros P Hb Hz n. rewrite firstn_app.
  destruct (n - length a)%nat as [|m] eqn:E.
  - cbn [firstn]. rewrite app_nil_r. apply P.
  - rewrite (firstn_all2 a) by lia. rewrite (firstn_all2 b) by lia. exact Hz.
Qed.

Lemma lookup_beyond l k : (length l <= k)%nat -> lookup l k = [].
Proof. intro H. unfold lookup. apply nth_error_None in H. now rewrite H. Qed.

Lemma pair_step w w' ns tr s0 :
  pair_inv w tr s0 -> shape w w' ns -> pair_inv w' (tr ++ ns) s0.
Proof.
  intros (P1 & P2 & P3 & P4) Sh.
  assert (Hon : online (logger w') = online (apply_notes (logger w) ns) ->
                online (logger w') = online (apply_notes s0 (tr ++ ns))).
  { intro H. rewrite H, apply_notes_app. apply apply_notes_ext. exact P4. }
  destruct Sh as [Hc -> Ho|c Hc Hex -> Ho|slot c f xs Hn Hc Hexp Hlen -> Ho].
  - rewrite app_nil_r. unfold pair_inv. rewrite Hc, Ho. repeat split; assumption.
  - (* a new connection *)
    assert (Hb2 : forall i, balance i (note_ops (tr ++ at_slot (length (conns w)) (expected c))) =
                            nlisted i (conns w')).
    { intro i. rewrite note_ops_app, balance_app, note_ops_at, bal_expected, P2, Hc, nlisted_app.
      cbn [nlisted]. lia. }
    split; [|split; [exact Hb2|split; [|apply Hon; exact Ho]]].
    + intro k. rewrite conn_notes_app, conn_notes_at, P1, Hc. unfold lookup.
      destruct (Nat.eqb_spec (length (conns w)) k) as [<-|Hne].
      * rewrite nth_error_app2 by lia. rewrite Nat.sub_diag. cbn [nth_error].
        assert (nth_error (conns w) (length (conns w)) = None) as -> by (apply nth_error_None; lia).
        reflexivity.
      * rewrite app_nil_r. destruct (Nat.lt_ge_cases k (length (conns w))) as [Hlt|Hge].
        -- rewrite nth_error_app1 by exact Hlt. reflexivity.
        -- assert (nth_error (conns w) k = None) as -> by (apply nth_error_None; exact Hge).
           assert (nth_error (conns w ++ [c]) k = None) as ->
             by (apply nth_error_None; rewrite app_length; cbn [length]; lia).
           reflexivity.
    + intro i. rewrite note_ops_app. apply paired_snoc; [apply P3| |].
      * rewrite note_ops_at. unfold ops_of, expected. rewrite map_length, Hex.
        destruct (c_ann c); cbn; lia.
      * rewrite <- note_ops_app, Hb2. apply nlisted_bound.
  - (* an update of one record *)
    assert (Hb2 : forall i, balance i (note_ops (tr ++ at_slot slot xs)) = nlisted i (conns w')).
    { intro i. rewrite note_ops_app, balance_app, note_ops_at, P2, Hc, (nlisted_upd i f _ _ _ Hn).
      rewrite <- !bal_expected, Hexp, ops_of_app, balance_app. lia. }
    split; [|split; [exact Hb2|split; [|apply Hon; exact Ho]]].
    + intro k. rewrite conn_notes_app, conn_notes_at, P1, Hc. unfold lookup.
      destruct (Nat.eqb_spec slot k) as [<-|Hne].
      * rewrite (nth_error_upd_eq f _ _ _ Hn), Hn. symmetry. exact Hexp.
      * rewrite nth_error_upd_neq by congruence. now rewrite app_nil_r.
    + intro i. rewrite note_ops_app. apply paired_snoc; [apply P3| |].
      * rewrite note_ops_at. unfold ops_of. rewrite map_length. exact Hlen.
      * rewrite <- note_ops_app, Hb2. apply nlisted_bound.
Qed.

Lemma pair_run secret : forall evs w tr s0,
  wf_all (conns w) -> pair_inv w tr s0 ->
  pair_inv (wrun secret w evs) (tr ++ wtrace secret w evs) s0.
Proof.
  induction evs as [|e t IH]; intros w tr s0 W P; cbn [wrun wtrace].
  - rewrite app_nil_r. exact P.
  - rewrite app_assoc. apply IH; [apply wf_step; exact W|].
    apply (pair_step w); [exact P|apply wstep_shape; exact W].
Qed.

Lemma pair_init : pair_inv init_world [] init_state.
Proof.
  split; [intro k; unfold lookup; cbn; now destruct k|].
  split; [reflexivity|]. split; [|reflexivity].
  intros i n. destruct n; cbn; lia.
Qed.

(* the pairing of notifications by core/server, for every event sequence: the stats object has seen
   exactly the trace; per connection the trace holds nothing, or one online, or one online followed by
   one offline (never an offline first or alone, never two of a kind); per user no prefix has more
   offline than online notifications (hypothesis `paired` of the online theorems), and the balance is
   the number of announced connections whose handleClient has not reported offline yet *)
Lemma notifications_paired secret evs :
  let w := wrun secret init_world evs in
  let tr := wtrace secret init_world evs in
  online (logger w) = online (fst (run init_state (note_ops tr))) /\
  (forall k, conn_notes k tr = [] \/
             exists i, conn_notes k tr = [(i, true)] \/ conn_notes k tr = [(i, true); (i, false)]) /\
  (forall i, paired i (note_ops tr)) /\
  (forall i, balance i (note_ops tr) = nlisted i (conns w) /\ 0 <= nlisted i (conns w)).
Proof.
  intros w tr.
  destruct (pair_run secret evs init_world [] init_state (fun c H => match H with end) pair_init)
    as (P1 & P2 & P3 & P4).
  cbn [app] in P1, P2, P3, P4. fold w in P1, P2, P4. fold tr in P1, P2, P3, P4.
  split; [rewrite <- apply_notes_run; exact P4|].
  split; [|split; [exact P3|intro i; split; [apply P2|apply nlisted_bound]]].
  intro k. rewrite P1. unfold lookup. destruct (nth_error (conns w) k) as [c|]; [|left; reflexivity].
  unfold expected. destruct (c_ann c); [|left; reflexivity].
  right. exists (c_id c). destruct (c_exited c); [right|left]; reflexivity.
Qed.

(* the connection closed while its auth was pending (the client gave up on a slow authenticator
   backend): handleClient cannot continue before the auth handler has returned, the handler announces
   unconditionally after storing the flag - online then offline, the user's other connection stays listed *)
Example ex_closed_while_auth_pending :
  let evs := [EAuth 0%N; EAuthBegin 0%N; EClientClose 1; EHandlerReturn 1; EAuthDecide 1 true;
              EHandlerReturn 1; EAnnounce 1; EHandlerReturn 1; EHandlerReturn 1] in
  wtrace "" init_world evs = [(0%nat, (0%N, true)); (1%nat, (0%N, true)); (1%nat, (0%N, false))] /\
  online (logger (wrun "" init_world evs)) = [(0%N, 1)] /\
  nopen 0%N (conns (wrun "" init_world evs)) = 1.
Proof. vm_compute. repeat split; reflexivity. Qed.

(* the variant in which the handler returns without announcing a client that went away, AFTER the flag
   was stored (model/C15_Sites.v return_unannounced): handleClient reads the flag and reports offline
   a connection nobody reported online; the decrement is taken from the user's other, live connection,
   which disappears from the listing *)
Lemma unannounced_return_refuted secret :
  let w0 := wrun secret init_world [EAuth 0%N; EAuthBegin 0%N; EClientClose 1; EAuthDecide 1 true] in
  let w1 := return_unannounced w0 1 in
  let w2 := fst (wstep secret w1 (EHandlerReturn 1)) in
  wnote w1 (EHandlerReturn 1) = [(1%nat, (0%N, false))] /\
  conn_notes 1 (wtrace secret init_world [EAuth 0%N; EAuthBegin 0%N; EClientClose 1; EAuthDecide 1 true]) = [] /\
  nopen 0%N (conns w2) = 1 /\ get 0%N (online (logger w2)) = None.
Proof. cbv. repeat split; reflexivity. Qed.

(* ------------------------------------------------------------------ *)
(* 7. non-vacuity                                                      *)
(* ------------------------------------------------------------------ *)

(* two users; user 0 has two connections; a kick of user 0; the next report of user 0 comes
   from an uploaded UDP datagram on its second connection: refused, that connection closed,
   the other two untouched; after the handler returned the census shows one connection each *)
Local Open Scope string_scope.

Definition ex_events : list wevent :=
  [EAuth 0%N; EAuth 1%N; EAuth 0%N; EReport 0 TcpUp 10 false; EReport 1 UdpDown 7 false;
   EHttp (mkReq "" "POST" "/kick" "" (Some [0%N]))].

Example ex_kick_disconnects :
  let w := wrun "" init_world ex_events in
  let w1 := fst (wstep "" w (EReport 2 UdpUp 5 false)) in
  let w2 := fst (wstep "" w1 (EHandlerReturn 2)) in
  snd (wstep "" w (EReport 2 UdpUp 5 false)) = WBool false /\
  map c_open (conns w1) = [true; true; false] /\
  online (logger w1) = [(0%N, 2); (1%N, 1)] /\
  online (logger w2) = [(0%N, 1); (1%N, 1)] /\
  snd (wstep "" w2 (EReport 0 TcpDown 3 false)) = WBool true /\
  stats (logger w2) = [(0%N, (10%N, 0%N)); (1%N, (0%N, 7%N))].
Proof. vm_compute. repeat split; reflexivity. Qed.
