(* C15 proofs, part 2: the report sites of core/server (model/C15_Sites.v). *)
From Hy Require Import model.C15_Stats model.C15_Sites proof.C15_Stats.
From Coq Require Import ZArith Lia ZifyBool ZifyNat ZifyN.
Local Open Scope N_scope.

(* ------------------------------------------------------------------ *)
(* 1. the sites                                                        *)
(* ------------------------------------------------------------------ *)

Lemma site_refused_closes st other :
  (is_tcp st = true -> other = false) -> site_action st false other = CloseConn.
Proof.
  destruct st; cbn; intro H; try reflexivity; rewrite H by reflexivity; reflexivity.
Qed.

Lemma site_accepted_forwards st other : site_action st true other = Forward.
Proof. destruct st, other; reflexivity. Qed.

Lemma site_closes_only_refused st ok other : site_action st ok other = CloseConn -> ok = false.
Proof. destruct st, ok, other; cbn; congruence. Qed.

(* ------------------------------------------------------------------ *)
(* 2. slots                                                            *)
(* ------------------------------------------------------------------ *)

Lemma nth_error_upd_eq f : forall k l c,
  nth_error l k = Some c -> nth_error (upd k f l) k = Some (f c).
Proof.
  induction k as [|k IH]; intros [|x t] c H; cbn in *; try discriminate.
  - inversion H; reflexivity.
  - apply IH; assumption.
Qed.

Lemma nth_error_upd_neq f : forall k j l, j <> k -> nth_error (upd k f l) j = nth_error l j.
Proof.
  induction k as [|k IH]; intros j [|x t] Hj; cbn; try reflexivity.
  - destruct j; [congruence|reflexivity].
  - destruct j; [reflexivity|]. cbn. apply IH. congruence.
Qed.

Lemma length_upd f : forall k l, length (upd k f l) = length l.
Proof.
  induction k as [|k IH]; intros [|x t]; cbn; try reflexivity. now rewrite IH.
Qed.

Lemma in_upd f : forall k l x,
  In x (upd k f l) -> In x l \/ exists c, nth_error l k = Some c /\ x = f c.
Proof.
  induction k as [|k IH]; intros [|y t] x H; cbn in *; try contradiction.
  - destruct H as [<-|H]; [right; eauto|left; auto].
  - destruct H as [<-|H]; [left; auto|].
    destruct (IH _ _ H) as [H1|H1]; [left; auto|right; exact H1].
Qed.

Local Open Scope Z_scope.

Lemma nlisted_bound i : forall l, 0 <= nlisted i l <= Z.of_nat (length l).
Proof.
  induction l as [|c t IH]; cbn [nlisted length]; [lia|].
  unfold b2z. destruct (_ && _); lia.
Qed.

Lemma nlisted_app i : forall a b, nlisted i (a ++ b) = nlisted i a + nlisted i b.
Proof. induction a as [|c t IH]; intro b; cbn [nlisted app]; [lia|]. rewrite IH. lia. Qed.

Lemma nopen_app i : forall a b, nopen i (a ++ b) = nopen i a + nopen i b.
Proof. induction a as [|c t IH]; intro b; cbn [nopen app]; [lia|]. rewrite IH. lia. Qed.

Lemma nlisted_upd i f : forall k l c,
  nth_error l k = Some c ->
  nlisted i (upd k f l) =
  nlisted i l - b2z ((c_id c =? i)%N && c_listed c) + b2z ((c_id (f c) =? i)%N && c_listed (f c)).
Proof.
  induction k as [|k IH]; intros [|x t] c H; cbn in *; try discriminate.
  - inversion H; subst. lia.
  - rewrite (IH _ _ H). lia.
Qed.

Lemma nopen_upd i f : forall k l c,
  nth_error l k = Some c ->
  nopen i (upd k f l) =
  nopen i l - b2z ((c_id c =? i)%N && c_open c) + b2z ((c_id (f c) =? i)%N && c_open (f c)).
Proof.
  induction k as [|k IH]; intros [|x t] c H; cbn in *; try discriminate.
  - inversion H; subst. lia.
  - rewrite (IH _ _ H). lia.
Qed.

Lemma quiescent_counts i : forall l, quiescent l -> nlisted i l = nopen i l.
Proof.
  induction l as [|c t IH]; intro Q; cbn [nlisted nopen]; [reflexivity|].
  rewrite IH by (intros x Hx; apply Q; right; exact Hx).
  rewrite (Q c) by (left; reflexivity). reflexivity.
Qed.

Lemma open_le_listed i : forall l,
  (forall c, In c l -> c_open c = true -> c_listed c = true) -> nopen i l <= nlisted i l.
Proof.
  induction l as [|c t IH]; intro Q; cbn [nlisted nopen]; [lia|].
  assert (nopen i t <= nlisted i t) by (apply IH; intros x Hx; apply Q; right; exact Hx).
  pose proof (Q c (or_introl eq_refl)) as Hc. unfold b2z.
  destruct (c_id c =? i)%N; cbn [andb]; [|lia].
  destruct (c_open c); [rewrite Hc by reflexivity; lia|destruct (c_listed c); lia].
Qed.

(* ------------------------------------------------------------------ *)
(* 3. a refused report                                                 *)
(* ------------------------------------------------------------------ *)

Lemma report_result secret w slot st n other c :
  nth_error (conns w) slot = Some c -> c_open c = true ->
  snd (wstep secret w (EReport slot st n other)) = WBool (negb (mem (c_id c) (kick (logger w)))).
Proof.
  intros Hn Ho. cbn [wstep]. rewrite Hn, Ho. unfold do_log.
  destruct (mem (c_id c) (kick (logger w))); cbn [negb]; destruct (site_action _ _ _); reflexivity.
Qed.

Lemma report_refused secret w slot st n other c w' :
  nth_error (conns w) slot = Some c -> c_open c = true ->
  (is_tcp st = true -> other = false) ->
  wstep secret w (EReport slot st n other) = (w', WBool false) ->
  conns w' = upd slot close_conn (conns w) /\
  stats (logger w') = stats (logger w) /\ online (logger w') = online (logger w) /\
  mem (c_id c) (kick (logger w)) = true /\ mem (c_id c) (kick (logger w')) = false.
Proof.
  intros Hn Ho Hoth H. cbn [wstep] in H. rewrite Hn, Ho in H.
  destruct (do_log (logger w) (c_id c) (site_tx st n) (site_rx st n)) as [s' r] eqn:Hl.
  destruct r as [ok| | |]; try (inversion H; fail).
  assert (Hok : ok = false).
  { destruct (site_action st ok other); inversion H; reflexivity. }
  subst ok. rewrite (site_refused_closes st other Hoth) in H. inversion H; subst w'; clear H.
  cbn [conns logger].
  destruct (refused_adds_nothing (logger w) (c_id c) (site_tx st n) (site_rx st n) s' Hl)
    as (H1 & H2 & H3 & H4).
  repeat split; assumption.
Qed.

Lemma report_accepted secret w slot st n other w' :
  wstep secret w (EReport slot st n other) = (w', WBool true) -> conns w' = conns w.
Proof.
  intro H. cbn [wstep] in H.
  destruct (nth_error (conns w) slot) as [c|]; [|inversion H].
  destruct (c_open c); [|inversion H].
  destruct (do_log _ _ _ _) as [s' r]. destruct r as [ok| | |]; try (inversion H; fail).
  destruct (site_action st ok other) eqn:Ha; inversion H; subst; [reflexivity|].
  apply site_closes_only_refused in Ha. discriminate.
Qed.

Lemma closed_reports_nothing secret w slot st n other c :
  nth_error (conns w) slot = Some c -> c_open c = false ->
  wstep secret w (EReport slot st n other) = (w, WNone).
Proof. intros Hn Ho. cbn [wstep]. rewrite Hn, Ho. reflexivity. Qed.

(* ------------------------------------------------------------------ *)
(* 4. the census invariant                                             *)
(* ------------------------------------------------------------------ *)

Definition census_inv (w : world) : Prop :=
  (forall i, listed i (online (logger w)) (nlisted i (conns w))) /\
  (forall c, In c (conns w) -> c_open c = true -> c_listed c = true).

Lemma census_init : census_inv init_world.
Proof. split; [intro i; apply listed_init|intros c []]. Qed.

Lemma wstep_length secret w e :
  Z.of_nat (length (conns (fst (wstep secret w e)))) <= Z.of_nat (length (conns w)) + 1.
Proof.
  destruct e as [i|slot i|slot st n other|slot|slot|r]; cbn [wstep].
  - cbn [fst conns]. rewrite app_length. cbn [length]. lia.
  - destruct (nth_error (conns w) slot) as [c|]; [|cbn; lia]. destruct (c_open c); cbn; lia.
  - destruct (nth_error (conns w) slot) as [c|]; [|cbn; lia].
    destruct (c_open c); [|cbn; lia].
    destruct (do_log _ _ _ _) as [s' r]. destruct r; try (cbn; lia).
    destruct (site_action _ _ _); cbn [fst conns]; rewrite ?length_upd; lia.
  - destruct (nth_error (conns w) slot) as [c|]; [|cbn; lia].
    destruct (c_open c); cbn [fst conns]; rewrite ?length_upd; lia.
  - destruct (nth_error (conns w) slot) as [c|]; [|cbn; lia].
    destruct (_ && _); cbn [fst conns]; rewrite ?length_upd; lia.
  - destruct (http_step secret (logger w) r) as [s' h]. cbn. lia.
Qed.

Lemma close_keeps_inv w slot s' :
  online s' = online (logger w) -> census_inv w ->
  census_inv (mkWorld s' (upd slot close_conn (conns w))).
Proof.
  intros Ho [I1 I2]. split; cbn [logger conns].
  - intro i. rewrite Ho.
    destruct (nth_error (conns w) slot) as [c|] eqn:Hn.
    + rewrite (nlisted_upd i close_conn _ _ _ Hn). cbn [close_conn c_id c_listed].
      replace (nlisted i (conns w) - _ + _) with (nlisted i (conns w)) by lia. apply I1.
    + replace (upd slot close_conn (conns w)) with (conns w); [apply I1|].
      clear -Hn. revert slot Hn. induction (conns w) as [|x t IH]; intros [|k] Hn; cbn in *;
        try reflexivity; try discriminate. now rewrite <- IH.
  - intros x Hx Hop. destruct (in_upd _ _ _ _ Hx) as [H|(c & _ & ->)]; [auto|].
    cbn in Hop. discriminate.
Qed.

Lemma census_step secret w e :
  census_inv w -> Z.of_nat (length (conns w)) + 1 < P63 -> census_inv (fst (wstep secret w e)).
Proof.
  intros [I1 I2] Hb. destruct e as [j|slot j|slot st n other|slot|slot|r]; cbn [wstep].
  - (* EAuth *)
    destruct (do_online (logger w) j true) as [s1 r] eqn:E. cbn [fst]. split; cbn [logger conns].
    + intro i. rewrite nlisted_app. cbn [nlisted c_id c_listed].
      pose proof (nlisted_bound i (conns w)) as Hnb.
      assert (L := online_step (logger w) (OOnline j true) s1 r i _ E (I1 i)).
      cbn [live_count ups] in L.
      rewrite N.eqb_sym. destruct (i =? j)%N; cbn [andb b2z] in *.
      * replace (nlisted i (conns w) + (1 + 0)) with (nlisted i (conns w) + 1) by lia.
        apply L. lia.
      * replace (nlisted i (conns w) + (0 + 0)) with (nlisted i (conns w)) by lia.
        apply L. lia.
    + intros c Hc Hop. apply in_app_or in Hc. destruct Hc as [Hc|[<-|[]]]; [auto|reflexivity].
  - (* EAuthAgain *)
    destruct (nth_error (conns w) slot) as [c|]; [|split; assumption].
    destruct (c_open c); split; assumption.
  - (* EReport *)
    destruct (nth_error (conns w) slot) as [c|]; [|split; assumption].
    destruct (c_open c); [|split; assumption].
    destruct (do_log (logger w) (c_id c) (site_tx st n) (site_rx st n)) as [s' r] eqn:Hl.
    assert (Ho : online s' = online (logger w)).
    { unfold do_log in Hl. destruct (mem _ _); inversion Hl; reflexivity. }
    destruct r; try (cbn [fst]; split; cbn [logger conns]; [intro i; rewrite Ho; apply I1|assumption]).
    destruct (site_action st b other); cbn [fst].
    + split; cbn [logger conns]; [intro i; rewrite Ho; apply I1|assumption].
    + apply close_keeps_inv; [exact Ho|split; assumption].
  - (* EClientClose *)
    destruct (nth_error (conns w) slot) as [c|]; [|split; assumption].
    destruct (c_open c); [|split; assumption]. cbn [fst].
    apply close_keeps_inv; [reflexivity|split; assumption].
  - (* EHandlerReturn *)
    destruct (nth_error (conns w) slot) as [c|] eqn:Hn; [|split; assumption].
    destruct (c_open c) eqn:Hop; cbn [negb andb]; [split; assumption|].
    destruct (c_listed c) eqn:Hli; [|split; assumption].
    destruct (do_online (logger w) (c_id c) false) as [s1 r] eqn:E. cbn [fst].
    split; cbn [logger conns].
    + intro i. rewrite (nlisted_upd i unlist_conn _ _ _ Hn). cbn [unlist_conn c_id c_listed].
      rewrite Hli, Bool.andb_false_r, Bool.andb_true_r.
      pose proof (nlisted_bound i (conns w)) as Hnb.
      pose proof (nlisted_bound i (upd slot unlist_conn (conns w))) as Hnb2.
      rewrite (nlisted_upd i unlist_conn _ _ _ Hn) in Hnb2. cbn [unlist_conn c_id c_listed] in Hnb2.
      rewrite Hli, Bool.andb_false_r, Bool.andb_true_r in Hnb2.
      assert (L := online_step (logger w) (OOnline (c_id c) false) s1 r i _ E (I1 i)).
      cbn [live_count ups] in L. rewrite (N.eqb_sym (c_id c) i) in Hnb2 |- *.
      destruct (i =? c_id c)%N; cbn [b2z] in *.
      * replace (nlisted i (conns w) - 1 + 0) with (Z.max 0 (nlisted i (conns w) - 1)) by lia.
        apply L. lia.
      * replace (nlisted i (conns w) - 0 + 0) with (nlisted i (conns w)) by lia. apply L. lia.
    + intros x Hx Hxo. destruct (in_upd _ _ _ _ Hx) as [H|(c0 & Hn0 & ->)]; [auto|].
      rewrite Hn in Hn0. inversion Hn0; subst c0. cbn in Hxo. congruence.
  - (* EHttp *)
    destruct (http_step secret (logger w) r) as [s' h] eqn:E. cbn [fst].
    pose proof (http_effects secret (logger w) r) as He. rewrite E in He. cbn [fst] in He.
    destruct He as [Ho _]. split; cbn [logger conns]; [intro i; rewrite Ho; apply I1|assumption].
Qed.

Lemma census_run secret : forall evs w,
  census_inv w -> Z.of_nat (length (conns w)) + Z.of_nat (length evs) < P63 ->
  census_inv (wrun secret w evs).
Proof.
  induction evs as [|e t IH]; intros w I Hb; cbn [wrun]; [exact I|].
  cbn [length] in Hb. apply IH.
  - apply census_step; [exact I|lia].
  - pose proof (wstep_length secret w e). lia.
Qed.

Lemma wrun_app secret : forall a w b, wrun secret w (a ++ b) = wrun secret (wrun secret w a) b.
Proof. induction a as [|e t IH]; intros w b; cbn [wrun app]; [reflexivity|apply IH]. Qed.

Lemma wrun_length secret : forall evs w,
  Z.of_nat (length (conns (wrun secret w evs))) <= Z.of_nat (length (conns w)) + Z.of_nat (length evs).
Proof.
  induction evs as [|e t IH]; intro w; cbn [wrun length]; [lia|].
  pose proof (IH (fst (wstep secret w e))). pose proof (wstep_length secret w e). lia.
Qed.

(* the census: after any events, GET /online lists for every user exactly the connections
   whose handler has not returned; once every closed connection's handler has returned that
   is exactly the open connections *)
Lemma census secret evs i :
  Z.of_nat (length evs) < P63 ->
  let w := wrun secret init_world evs in
  let c := nlisted i (conns w) in
  0 <= c /\ get i (online (logger w)) = (if c =? 0 then None else Some c) /\
  snd (wstep secret w (EHttp (mkReq secret "GET" "/online" "" None))) =
    WHttp StatusOK (BOnline (online (logger w))) /\
  nopen i (conns w) <= c /\ (quiescent (conns w) -> c = nopen i (conns w)) /\
  (forall slot j, fst (wstep secret w (EAuthAgain slot j)) = w).
Proof.
  intros Hb w c.
  assert (I : census_inv w) by (apply census_run; [apply census_init|cbn; lia]).
  destruct I as [I1 I2]. destruct (I1 i) as [Hg Hc].
  split; [exact Hc|]. split; [exact Hg|]. split.
  - cbn [wstep]. unfold http_step, route. cbn [r_auth r_method r_path].
    rewrite String.eqb_refl. destruct (secret =? "")%string; reflexivity.
  - split; [apply open_le_listed; exact I2|]. split; [apply quiescent_counts|].
    intros slot j. cbn [wstep]. destruct (nth_error (conns w) slot) as [x|]; [|reflexivity].
    destruct (c_open x); reflexivity.
Qed.

(* the variant in which authMutex does not span check and act (model/C15_Sites.v auth_again_unlocked):
   one connection, two overlapping auth requests - the listing shows 2 for one connection, and 1 for
   ever after that connection is gone *)
Lemma auth_unlocked_refuted secret :
  let w0 := wrun secret init_world [EAuth 0%N] in
  let w1 := auth_again_unlocked w0 0 in
  let w2 := wrun secret w1 [EClientClose 0; EHandlerReturn 0] in
  nlisted 0%N (conns w1) = 1 /\ get 0%N (online (logger w1)) = Some 2 /\
  nopen 0%N (conns w2) = 0 /\ nlisted 0%N (conns w2) = 0 /\ get 0%N (online (logger w2)) = Some 1.
Proof. cbv. repeat split; reflexivity. Qed.

(* ------------------------------------------------------------------ *)
(* 5. kick => disconnect, end to end                                   *)
(* ------------------------------------------------------------------ *)

Lemma kick_disconnects secret evs slot c st n other :
  Z.of_nat (length evs) + 2 < P63 ->
  let w := wrun secret init_world evs in
  nth_error (conns w) slot = Some c -> c_open c = true ->
  mem (c_id c) (kick (logger w)) = true ->
  (is_tcp st = true -> other = false) ->
  let i := c_id c in
  let w1 := fst (wstep secret w (EReport slot st n other)) in
  let w2 := fst (wstep secret w1 (EHandlerReturn slot)) in
  snd (wstep secret w (EReport slot st n other)) = WBool false /\
  is_open slot w1 = false /\
  wstep secret w1 (EReport slot st n other) = (w1, WNone) /\
  snd (wstep secret w1 (EHandlerReturn slot)) = WUnit /\
  nopen i (conns w2) = nopen i (conns w) - 1 /\
  (let k := nlisted i (conns w) - 1 in
   0 <= k /\ get i (online (logger w2)) = (if k =? 0 then None else Some k)) /\
  mem i (kick (logger w2)) = false /\ stats (logger w2) = stats (logger w) /\
  (forall j, j <> slot -> nth_error (conns w2) j = nth_error (conns w) j).
Proof.
  intros Hb w Hn Ho Hk Hoth i w1 w2.
  assert (I : census_inv w) by (apply census_run; [apply census_init|cbn; lia]).
  assert (Hli : c_listed c = true) by (apply (proj2 I); [eapply nth_error_In; exact Hn|exact Ho]).
  pose proof (report_result secret w slot st n other c Hn Ho) as Hr.
  rewrite Hk in Hr. cbn [negb] in Hr.
  destruct (wstep secret w (EReport slot st n other)) as [w1' r1] eqn:E1.
  cbn [snd] in Hr. subst r1. cbn [fst] in w1. subst w1.
  destruct (report_refused secret w slot st n other c w1' Hn Ho Hoth E1) as (Hc1 & Hs1 & Ho1 & _ & Hk1).
  assert (Hn1 : nth_error (conns w1') slot = Some (close_conn c)).
  { rewrite Hc1. apply nth_error_upd_eq. exact Hn. }
  assert (E2 : wstep secret w1' (EHandlerReturn slot) =
               (mkWorld (fst (do_online (logger w1') i false)) (upd slot unlist_conn (conns w1')), WUnit)).
  { cbn [wstep]. rewrite Hn1. cbn [close_conn c_open c_listed c_id negb]. rewrite Hli. reflexivity. }
  assert (I2 : census_inv w2).
  { subst w2. replace w1' with (fst (wstep secret w (EReport slot st n other))) by (rewrite E1; reflexivity).
    change (census_inv (wrun secret w [EReport slot st n other; EHandlerReturn slot])).
    subst w. rewrite <- wrun_app. apply census_run; [apply census_init|].
    rewrite app_length. cbn [length conns init_world]. lia. }
  assert (Hc2 : conns w2 = upd slot unlist_conn (upd slot close_conn (conns w))).
  { subst w2. rewrite E2. cbn [fst conns]. rewrite Hc1. reflexivity. }
  split; [reflexivity|]. split; [unfold is_open; rewrite Hn1; reflexivity|].
  split; [apply (closed_reports_nothing secret w1' slot st n other _ Hn1); reflexivity|].
  split; [rewrite E2; reflexivity|].
  assert (Hn1' : nth_error (upd slot close_conn (conns w)) slot = Some (close_conn c))
    by (apply nth_error_upd_eq; exact Hn).
  split.
  { rewrite Hc2. rewrite (nopen_upd i unlist_conn _ _ _ Hn1'), (nopen_upd i close_conn _ _ _ Hn).
    cbn [unlist_conn close_conn c_id c_open]. fold i. rewrite N.eqb_refl, Ho. cbn. lia. }
  assert (Hnl : nlisted i (conns w2) = nlisted i (conns w) - 1).
  { rewrite Hc2. rewrite (nlisted_upd i unlist_conn _ _ _ Hn1'), (nlisted_upd i close_conn _ _ _ Hn).
    cbn [unlist_conn close_conn c_id c_listed]. fold i. rewrite N.eqb_refl, Hli. cbn. lia. }
  split.
  { destruct (proj1 I2 i) as [Hg Hpos]. rewrite Hnl in Hg, Hpos. cbn zeta. split; assumption. }
  assert (Hl2 : logger w2 = fst (do_online (logger w1') i false)) by (subst w2; rewrite E2; reflexivity).
  split.
  { rewrite Hl2. unfold do_online. destruct (_ <=? _); cbn [fst kick]; exact Hk1. }
  split.
  { rewrite Hl2. unfold do_online. destruct (_ <=? _); cbn [fst stats]; exact Hs1. }
  intros j Hj. rewrite Hc2. rewrite !nth_error_upd_neq by exact Hj. reflexivity.
Qed.

(* ------------------------------------------------------------------ *)
(* 6. non-vacuity                                                      *)
(* ------------------------------------------------------------------ *)

(* two users; user 0 has two connections; a kick of user 0; the next report of user 0 comes
   from an uploaded UDP datagram on its second connection: refused, that connection closed,
   the other two untouched; after the handler returned the census shows one connection each *)
Local Open Scope string_scope.

Definition ex_events : list wevent :=
  [EAuth 0%N; EAuth 1%N; EAuth 0%N; EReport 0 TcpUp 10 false; EReport 1 UdpDown 7 false;
   EHttp (mkReq "" "POST" "/kick" "" (Some [0%N]))].

Example ex_kick_disconnects :
  let w := wrun "" init_world ex_events in
  let w1 := fst (wstep "" w (EReport 2 UdpUp 5 false)) in
  let w2 := fst (wstep "" w1 (EHandlerReturn 2)) in
  snd (wstep "" w (EReport 2 UdpUp 5 false)) = WBool false /\
  map c_open (conns w1) = [true; true; false] /\
  online (logger w1) = [(0%N, 2); (1%N, 1)] /\
  online (logger w2) = [(0%N, 1); (1%N, 1)] /\
  snd (wstep "" w2 (EReport 0 TcpDown 3 false)) = WBool true /\
  stats (logger w2) = [(0%N, (10%N, 0%N)); (1%N, (0%N, 7%N))].
Proof. vm_compute. repeat split; reflexivity. Qed.
