(* C15 proofs over model/C15_Stats.v.  The lemmas at the end carry exactly the statements of
   props/C15.v. *)
From Hy Require Import model.C15_Stats.
From Coq Require Import ZArith Lia ZifyBool ZifyNat ZifyN.
Ltac Zify.zify_post_hook ::= Z.div_mod_to_equations.
Local Open Scope N_scope.
Notation length := List.length (only parsing).

(* ------------------------------------------------------------------ *)
(* 1. Go maps as association lists                                     *)
(* ------------------------------------------------------------------ *)

Lemma get_set_eq {V} k (v : V) m : get k (set k v m) = Some v.
Proof.
  induction m as [|[k' v'] t IH]; cbn [set get].
  - now rewrite N.eqb_refl.
  - destruct (k <? k'); [cbn [get]; now rewrite N.eqb_refl|].
    destruct (N.eqb_spec k k') as [E|E]; cbn [get].
    + now rewrite N.eqb_refl.
    + destruct (N.eqb_spec k k'); [contradiction|exact IH].
Qed.

Lemma get_set_neq {V} k k2 (v : V) m : k2 <> k -> get k2 (set k v m) = get k2 m.
Proof.
  intro Hn. induction m as [|[k' v'] t IH]; cbn [set get].
  - destruct (N.eqb_spec k2 k); [contradiction|reflexivity].
  - destruct (k <? k').
    + cbn [get]. destruct (N.eqb_spec k2 k); [contradiction|reflexivity].
    + destruct (N.eqb_spec k k') as [E|E]; cbn [get].
      * subst k'. destruct (N.eqb_spec k2 k); [contradiction|reflexivity].
      * destruct (N.eqb_spec k2 k'); [reflexivity|exact IH].
Qed.

Lemma get_del_eq {V} k (m : list (id * V)) : get k (del k m) = None.
Proof.
  induction m as [|[k' v'] t IH]; cbn [del get]; [reflexivity|].
  destruct (N.eqb_spec k k') as [E|E]; [exact IH|].
  cbn [get]. destruct (N.eqb_spec k k'); [contradiction|exact IH].
Qed.

Lemma get_del_neq {V} k k2 (m : list (id * V)) : k2 <> k -> get k2 (del k m) = get k2 m.
Proof.
  intro Hn. induction m as [|[k' v'] t IH]; cbn [del get]; [reflexivity|].
  destruct (N.eqb_spec k k') as [E|E].
  - subst k'. destruct (N.eqb_spec k2 k); [contradiction|exact IH].
  - cbn [get]. destruct (N.eqb_spec k2 k'); [reflexivity|exact IH].
Qed.

Lemma mem_sdel_eq k l : mem k (sdel k l) = false.
Proof.
  unfold mem, sdel. induction l as [|x t IH]; cbn [filter existsb]; [reflexivity|].
  destruct (N.eqb_spec k x) as [E|E]; cbn [negb]; [exact IH|].
  cbn [existsb]. destruct (N.eqb_spec k x); [contradiction|exact IH].
Qed.

Lemma mem_sdel_neq k k2 l : k2 <> k -> mem k2 (sdel k l) = mem k2 l.
Proof.
  intro Hn. unfold mem, sdel. induction l as [|x t IH]; cbn [filter existsb]; [reflexivity|].
  destruct (N.eqb_spec k x) as [E|E]; cbn [negb].
  - subst x. destruct (N.eqb_spec k2 k); [contradiction|exact IH].
  - cbn [existsb]. now rewrite IH.
Qed.

Lemma mem_sadd k k2 l : mem k2 (sadd k l) = (k2 =? k) || mem k2 l.
Proof.
  unfold sadd. destruct (mem k l) eqn:E.
  - destruct (N.eqb_spec k2 k) as [->|]; [now rewrite E|reflexivity].
  - reflexivity.
Qed.

Lemma mem_fold_sadd k2 ids : forall l,
  mem k2 (fold_left (fun k i => sadd i k) ids l) = mem k2 l || mem k2 ids.
Proof.
  induction ids as [|x t IH]; intro l; cbn [fold_left].
  - cbn. now rewrite orb_false_r.
  - rewrite IH, mem_sadd. cbn [mem existsb]. fold (mem k2 t).
    destruct (k2 =? x), (mem k2 l), (mem k2 t); reflexivity.
Qed.

(* ------------------------------------------------------------------ *)
(* 2. runs                                                             *)
(* ------------------------------------------------------------------ *)

Lemma run_cons s o t :
  run s (o :: t) = let (s1, r) := step s o in let (s2, rs) := run s1 t in (s2, r :: rs).
Proof. reflexivity. Qed.

Lemma run_app a : forall s b,
  run s (a ++ b) =
  let (s1, r1) := run s a in let (s2, r2) := run s1 b in (s2, r1 ++ r2).
Proof.
  induction a as [|o t IH]; intros s b.
  - cbn [app run]. now destruct (run s b).
  - cbn [app]. rewrite !run_cons. destruct (step s o) as [s1 r]. rewrite IH.
    destruct (run s1 t) as [s2 rs]. now destruct (run s2 b).
Qed.

Lemma refused_adds_nothing s i tx rx s' :
  step s (OLog i tx rx) = (s', RBool false) ->
  stats s' = stats s /\ online s' = online s /\ mem i (kick s) = true /\ mem i (kick s') = false.
Proof.
  cbn [step]. unfold do_log. destruct (mem i (kick s)) eqn:E; intro H; inversion H; subst.
  cbn [stats online kick]. repeat split. apply mem_sdel_eq.
Qed.

(* ------------------------------------------------------------------ *)
(* 3. conservation                                                     *)
(* ------------------------------------------------------------------ *)

Lemma shown_set d i j e m :
  shown d i (set j e m) = if i =? j then dir d e else shown d i m.
Proof.
  unfold shown, entry_of. destruct (N.eqb_spec i j) as [->|Hn].
  - now rewrite get_set_eq.
  - now rewrite get_set_neq.
Qed.

Lemma dir_pair d a b : dir d (a, b) = if d then b else a.
Proof. now destruct d. Qed.

(* one step, seen through (cleared so far, shown now, accepted so far) for user i, direction d *)
Lemma conservation_mod : forall ops s s' rs d i,
  run s ops = (s', rs) ->
  (cleared_sum d i ops rs + shown d i (stats s')) mod W64 =
  (shown d i (stats s) + allowed_sum d i ops rs) mod W64.
Proof.
  induction ops as [|o t IH]; intros s s' rs d i H.
  - cbn in H. inversion H; subst. cbn [cleared_sum allowed_sum]. f_equal. lia.
  - rewrite run_cons in H. destruct (step s o) as [s1 r] eqn:Hs.
    destruct (run s1 t) as [s2 rs'] eqn:Hr. inversion H; subst s2 rs; clear H.
    specialize (IH _ _ _ d i Hr).
    destruct o as [j tx rx|c|ids|j b|]; cbn [step] in Hs.
    + unfold do_log in Hs. destruct (mem j (kick s)); inversion Hs; subst; clear Hs;
        cbn [cleared_sum allowed_sum stats] in *.
      * exact IH.
      * rewrite shown_set, dir_pair in IH. unfold add64 in IH.
        destruct (N.eqb_spec i j) as [->|Hn].
        -- unfold shown in *. destruct (entry_of j (stats s)) as [ea eb].
           destruct d; cbn [dir fst snd] in *; unfold W64 in *; lia.
        -- unfold W64 in *; lia.
    + unfold do_traffic in Hs. destruct c; inversion Hs; subst; clear Hs;
        cbn [cleared_sum allowed_sum stats] in *.
      * change (shown d i []) with (dir d (0, 0)) in IH. rewrite dir_pair in IH.
        destruct d; unfold W64 in *; lia.
      * exact IH.
    + unfold do_kick in Hs. inversion Hs; subst; clear Hs. cbn [cleared_sum allowed_sum stats] in *. exact IH.
    + unfold do_online in Hs. destruct b; [|destruct (_ <=? _)%Z]; inversion Hs; subst; clear Hs;
        cbn [cleared_sum allowed_sum stats] in *; exact IH.
    + unfold do_get_online in Hs. inversion Hs; subst; clear Hs. cbn [cleared_sum allowed_sum] in *. exact IH.
Qed.

Lemma conservation_exact : forall ops s s' rs d i,
  run s ops = (s', rs) ->
  shown d i (stats s) + allowed_sum d i ops rs < W64 ->
  cleared_sum d i ops rs + shown d i (stats s') = shown d i (stats s) + allowed_sum d i ops rs.
Proof.
  induction ops as [|o t IH]; intros s s' rs d i H Hlt.
  - cbn in H. inversion H; subst. cbn [cleared_sum allowed_sum]. lia.
  - rewrite run_cons in H. destruct (step s o) as [s1 r] eqn:Hs.
    destruct (run s1 t) as [s2 rs'] eqn:Hr. inversion H; subst s2 rs; clear H.
    specialize (IH _ _ _ d i Hr).
    destruct o as [j tx rx|c|ids|j b|]; cbn [step] in Hs.
    + unfold do_log in Hs. destruct (mem j (kick s)); inversion Hs; subst; clear Hs;
        cbn [cleared_sum allowed_sum stats] in *.
      * exact (IH Hlt).
      * rewrite shown_set, dir_pair in IH. unfold add64 in IH.
        destruct (N.eqb_spec i j) as [->|Hn].
        -- unfold shown in *. destruct (entry_of j (stats s)) as [ea eb].
           destruct d; cbn [dir fst snd] in *; unfold W64 in *.
           ++ rewrite N.mod_small in IH by lia. lia.
           ++ rewrite N.mod_small in IH by lia. lia.
        -- lia.
    + unfold do_traffic in Hs. destruct c; inversion Hs; subst; clear Hs;
        cbn [cleared_sum allowed_sum stats] in *.
      * change (shown d i []) with (dir d (0, 0)) in IH. rewrite dir_pair in IH.
        assert (E : (if d then 0 else 0) = 0) by now destruct d. rewrite E in IH. lia.
      * exact (IH Hlt).
    + unfold do_kick in Hs. inversion Hs; subst; clear Hs. cbn [cleared_sum allowed_sum stats] in *. exact (IH Hlt).
    + unfold do_online in Hs. destruct b; [|destruct (_ <=? _)%Z]; inversion Hs; subst; clear Hs;
        cbn [cleared_sum allowed_sum stats] in *; exact (IH Hlt).
    + unfold do_get_online in Hs. inversion Hs; subst; clear Hs. cbn [cleared_sum allowed_sum] in *. exact (IH Hlt).
Qed.

Lemma conservation : forall ops s' rs d i,
  run init_state ops = (s', rs) ->
  (cleared_sum d i ops rs + shown d i (stats s')) mod W64 = allowed_sum d i ops rs mod W64 /\
  (allowed_sum d i ops rs < W64 ->
   cleared_sum d i ops rs + shown d i (stats s') = allowed_sum d i ops rs).
Proof.
  intros ops s' rs d i H.
  assert (E0 : shown d i (stats init_state) = 0) by (now destruct d).
  split.
  - rewrite (conservation_mod _ _ _ _ d i H), E0. f_equal.
  - intro Hlt. rewrite (conservation_exact _ _ _ _ d i H); rewrite E0; lia.
Qed.

Lemma conservation_any_state : forall ops s s' rs d i,
  run s ops = (s', rs) ->
  (cleared_sum d i ops rs + shown d i (stats s')) mod W64 =
  (shown d i (stats s) + allowed_sum d i ops rs) mod W64 /\
  (shown d i (stats s) + allowed_sum d i ops rs < W64 ->
   cleared_sum d i ops rs + shown d i (stats s') = shown d i (stats s) + allowed_sum d i ops rs).
Proof.
  intros ops s s' rs d i H. split.
  - exact (conservation_mod ops s s' rs d i H).
  - exact (conservation_exact ops s s' rs d i H).
Qed.

(* a snapshot without clear changes nothing and shows the counters; a snapshot with clear
   shows the counters and leaves them empty, in one step *)
Lemma snapshot_step s c :
  step s (OTraffic c) =
  ((if c then mkState [] (kick s) (online s) else s), RStats (stats s)).
Proof. cbn [step]. unfold do_traffic. now destruct c. Qed.

(* ------------------------------------------------------------------ *)
(* 4. kick                                                             *)
(* ------------------------------------------------------------------ *)

Lemma kick_step s o s1 r i :
  step s o = (s1, r) -> mem i (kick s1) = kick_pending i (mem i (kick s)) [o].
Proof.
  destruct o as [j tx rx|c|ids|j b|]; cbn [step kick_pending]; intro H.
  - unfold do_log in H. destruct (mem j (kick s)) eqn:E; inversion H; subst; cbn [kick].
    + destruct (N.eqb_spec i j) as [->|Hn]; [apply mem_sdel_eq|now apply mem_sdel_neq].
    + destruct (N.eqb_spec i j) as [->|Hn]; [exact E|reflexivity].
  - unfold do_traffic in H. destruct c; inversion H; subst; reflexivity.
  - unfold do_kick in H. inversion H; subst. cbn [kick]. apply mem_fold_sadd.
  - unfold do_online in H. destruct b; [|destruct (_ <=? _)%Z]; inversion H; subst; reflexivity.
  - unfold do_get_online in H. inversion H; subst; reflexivity.
Qed.

Lemma kick_pending_cons i p o t :
  kick_pending i p (o :: t) = kick_pending i (kick_pending i p [o]) t.
Proof. destruct o; reflexivity. Qed.

Lemma kick_run : forall ops s s' rs i,
  run s ops = (s', rs) -> mem i (kick s') = kick_pending i (mem i (kick s)) ops.
Proof.
  induction ops as [|o t IH]; intros s s' rs i H.
  - cbn in H. inversion H; subst. reflexivity.
  - rewrite run_cons in H. destruct (step s o) as [s1 r] eqn:Hs.
    destruct (run s1 t) as [s2 rs'] eqn:Hr. inversion H; subst s2 rs; clear H.
    rewrite kick_pending_cons, <- (kick_step _ _ _ _ i Hs). exact (IH _ _ _ i Hr).
Qed.

Lemma log_result s i tx rx :
  snd (step s (OLog i tx rx)) = RBool (negb (mem i (kick s))).
Proof. cbn [step]. unfold do_log. now destruct (mem i (kick s)). Qed.

(* the complete characterisation: a report is refused iff a kick of that user has happened
   since the user's previous report *)
Lemma kick_exact : forall pre s s1 rs i tx rx,
  run s pre = (s1, rs) ->
  snd (step s1 (OLog i tx rx)) = RBool (negb (kick_pending i (mem i (kick s)) pre)).
Proof.
  intros pre s s1 rs i tx rx H. rewrite log_result. now rewrite (kick_run _ _ _ _ i H).
Qed.

Definition no_log (i : id) (l : list op) : Prop :=
  forall j tx rx, In (OLog j tx rx) l -> j <> i.
Definition no_kick (i : id) (l : list op) : Prop :=
  forall ids, In (OKick ids) l -> mem i ids = false.

Lemma kick_pending_true_no_log i : forall l, no_log i l -> kick_pending i true l = true.
Proof.
  induction l as [|o t IH]; intro H; [reflexivity|].
  assert (Ht : no_log i t) by (intros j a b Hin; apply (H j a b); now right).
  destruct o as [j tx rx|c|ids|j b|]; cbn [kick_pending]; auto.
  destruct (N.eqb_spec i j) as [->|Hn]; [|auto].
  exfalso. apply (H j tx rx); [now left|reflexivity].
Qed.

Lemma kick_pending_false_no_kick i : forall l, no_kick i l -> kick_pending i false l = false.
Proof.
  induction l as [|o t IH]; intro H; [reflexivity|].
  assert (Ht : no_kick i t) by (intros ids Hin; apply H; now right).
  destruct o as [j tx rx|c|ids|j b|]; cbn [kick_pending]; auto.
  - destruct (i =? j); auto.
  - rewrite (H ids) by now left. cbn. auto.
Qed.

Lemma kick_pending_app i : forall a p b,
  kick_pending i p (a ++ b) = kick_pending i (kick_pending i p a) b.
Proof.
  induction a as [|o t IH]; intros p b; [reflexivity|].
  cbn [app]. rewrite kick_pending_cons, IH, <- kick_pending_cons. reflexivity.
Qed.

Lemma nth_app_len {A} (a : list A) x b d : nth (length a) (a ++ x :: b) d = x.
Proof. induction a; cbn; auto. Qed.

Lemma run_length : forall ops s, length (snd (run s ops)) = length ops.
Proof.
  induction ops as [|o t IH]; intro s; [reflexivity|].
  rewrite run_cons. destruct (step s o) as [s1 r]. specialize (IH s1).
  destruct (run s1 t). cbn in *. now rewrite IH.
Qed.

(* the response to the operation at position |pre| of a run *)
Lemma resp_at pre o post s :
  nth (length pre) (snd (run s (pre ++ o :: post))) RUnit = snd (step (fst (run s pre)) o).
Proof.
  rewrite run_app. destruct (run s pre) as [s1 r1] eqn:E1. rewrite run_cons. cbn [fst].
  destruct (step s1 o) as [s2 r]. destruct (run s2 post) as [s3 r3]. cbn [snd fst].
  assert (L : length r1 = length pre) by (now rewrite <- (run_length pre s), E1).
  rewrite <- L. apply nth_app_len.
Qed.

(* Kick ids (i among them); anything but a report of i (further kicks of i included: they
   collapse); the next report of i is refused; anything but a kick or report of i; the report
   after that is accepted.  From every state. *)
Lemma kick_exactly_once s ids i mid1 a b mid2 c d post :
  mem i ids = true -> no_log i mid1 -> no_log i mid2 -> no_kick i mid2 ->
  let ops := OKick ids :: mid1 ++ OLog i a b :: mid2 ++ OLog i c d :: post in
  let rs := snd (run s ops) in
  nth (1 + length mid1) rs RUnit = RBool false /\
  nth (1 + length mid1 + 1 + length mid2) rs RUnit = RBool true.
Proof.
  intros Hin H1 H2 H3 ops rs. subst rs ops. split.
  - change (OKick ids :: mid1 ++ OLog i a b :: mid2 ++ OLog i c d :: post)
      with ((OKick ids :: mid1) ++ OLog i a b :: mid2 ++ OLog i c d :: post).
    change (1 + length mid1)%nat with (length (OKick ids :: mid1)).
    rewrite resp_at. destruct (run s (OKick ids :: mid1)) as [s1 r1] eqn:E. cbn [fst].
    rewrite (kick_exact _ _ _ _ i a b E). cbn [kick_pending]. rewrite Hin, orb_true_r.
    now rewrite kick_pending_true_no_log.
  - replace (OKick ids :: mid1 ++ OLog i a b :: mid2 ++ OLog i c d :: post)
      with ((OKick ids :: mid1 ++ OLog i a b :: mid2) ++ OLog i c d :: post)
      by (cbn [app]; now rewrite <- app_assoc).
    replace (1 + length mid1 + 1 + length mid2)%nat
      with (length (OKick ids :: mid1 ++ OLog i a b :: mid2))
      by (cbn [length]; rewrite app_length; cbn [length]; lia).
    rewrite resp_at. destruct (run s (OKick ids :: mid1 ++ OLog i a b :: mid2)) as [s1 r1] eqn:E.
    cbn [fst]. rewrite (kick_exact _ _ _ _ i c d E). cbn [kick_pending].
    rewrite kick_pending_app. cbn [kick_pending]. rewrite N.eqb_refl.
    now rewrite kick_pending_false_no_kick.
Qed.

(* a user nobody kicked is never refused *)
Lemma never_kicked_never_refused pre s i tx rx post :
  mem i (kick s) = false -> no_kick i pre ->
  nth (length pre) (snd (run s (pre ++ OLog i tx rx :: post))) RUnit = RBool true.
Proof.
  intros H0 Hk. rewrite resp_at. destruct (run s pre) as [s1 r1] eqn:E. cbn [fst].
  rewrite (kick_exact _ _ _ _ i tx rx E), H0. now rewrite kick_pending_false_no_kick.
Qed.

(* ------------------------------------------------------------------ *)
(* 5. online                                                           *)
(* ------------------------------------------------------------------ *)

Local Open Scope Z_scope.

Definition P63 : Z := 9223372036854775808.

Lemma wrap_int_small z : - P63 <= z < P63 -> wrap_int z = z.
Proof. unfold wrap_int, P63. intro H. lia. Qed.

(* entry of user i: absent at zero, otherwise the (positive) count *)
Definition listed (i : id) (m : list (id * Z)) (c : Z) : Prop :=
  get i m = (if c =? 0 then None else Some c) /\ 0 <= c.

Lemma listed_count i m c : listed i m c -> count_of i m = c.
Proof.
  unfold listed, count_of. intros [H Hc]. rewrite H. destruct (Z.eqb_spec c 0); lia.
Qed.

Lemma online_step s o s1 r i c :
  step s o = (s1, r) -> listed i (online s) c -> c + ups i [o] < P63 ->
  listed i (online s1) (live_count i c [o]).
Proof.
  intros H L Hb. pose proof (listed_count _ _ _ L) as Hc. destruct L as [Hg Hpos].
  destruct o as [j tx rx|cl|ids|j b|]; cbn [step live_count] in *.
  - unfold do_log in H. destruct (mem j (kick s)); inversion H; subst; cbn [online]; split; auto.
  - unfold do_traffic in H. destruct cl; inversion H; subst; cbn [online]; split; auto.
  - unfold do_kick in H. inversion H; subst; cbn [online]; split; auto.
  - unfold do_online in H. destruct (N.eqb_spec i j) as [<-|Hn].
    + rewrite Hc in H. clear Hc. destruct b.
      * inversion H; subst; clear H. cbn [online ups] in *. rewrite N.eqb_refl in Hb.
        rewrite wrap_int_small by (unfold P63 in *; lia). split; [|lia].
        rewrite get_set_eq. destruct (Z.eqb_spec (c + 1) 0); [lia|reflexivity].
      * rewrite wrap_int_small in H by (unfold P63 in *; cbn [ups] in Hb; lia).
        destruct (Z.leb_spec (c - 1) 0) as [Hle|Hgt]; inversion H; subst; clear H; cbn [online].
        -- replace (Z.max 0 (c - 1)) with 0 by lia. split; [|lia]. cbn. apply get_del_eq.
        -- replace (Z.max 0 (c - 1)) with (c - 1) by lia. split; [|lia].
           rewrite get_set_eq. destruct (Z.eqb_spec (c - 1) 0); [lia|reflexivity].
    + assert (Hg' : get i (online s1) = get i (online s)).
      { destruct b; [|destruct (_ <=? _)]; inversion H; subst; cbn [online];
          [apply get_set_neq|apply get_del_neq|apply get_set_neq]; assumption. }
      split; [now rewrite Hg'|assumption].
  - unfold do_get_online in H. inversion H; subst. split; auto.
Qed.

Lemma live_count_cons i c o t : live_count i c (o :: t) = live_count i (live_count i c [o]) t.
Proof. destruct o as [| | |j b|]; try reflexivity. cbn [live_count]. now destruct (i =? j)%N. Qed.

Lemma ups_cons i o t : ups i (o :: t) = ups i [o] + ups i t.
Proof. destruct o as [| | |j b|]; cbn [ups]; try lia. destruct b; lia. Qed.

Lemma ups_nonneg i l : 0 <= ups i l.
Proof.
  induction l as [|o t IH]; cbn [ups]; [lia|].
  destruct o as [| | |j b|]; try assumption. destruct b; [|assumption]. destruct (N.eqb i j); lia.
Qed.

Lemma live_count_step_bound i c o : 0 <= c -> 0 <= live_count i c [o] <= c + ups i [o].
Proof.
  intro Hc. destruct o as [| | |j b|]; cbn [live_count ups]; try lia.
  destruct (N.eqb i j); destruct b; lia.
Qed.

Lemma online_run : forall ops s s' rs i c,
  run s ops = (s', rs) -> listed i (online s) c -> c + ups i ops < P63 ->
  listed i (online s') (live_count i c ops).
Proof.
  induction ops as [|o t IH]; intros s s' rs i c H L Hb.
  - cbn in H. inversion H; subst. exact L.
  - rewrite run_cons in H. destruct (step s o) as [s1 r] eqn:Hs.
    destruct (run s1 t) as [s2 rs'] eqn:Hr. inversion H; subst s2 rs; clear H.
    rewrite ups_cons in Hb. pose proof (ups_nonneg i t) as Hu.
    pose proof (ups_nonneg i [o]) as Hu1.
    assert (L1 : listed i (online s1) (live_count i c [o])).
    { apply (online_step _ _ _ _ _ _ Hs L). lia. }
    rewrite live_count_cons. apply (IH _ _ _ _ _ Hr L1).
    destruct L as [_ Hc]. pose proof (live_count_step_bound i c o Hc). lia.
Qed.

Lemma balance_cons i o t : balance i (o :: t) = balance i [o] + balance i t.
Proof. destruct o as [| | |j b|]; cbn [balance]; lia. Qed.

(* when no prefix has seen more offline than online notifications, the clamped count is the
   plain difference *)
Lemma live_is_balance i : forall l c,
  (forall n, 0 <= c + balance i (firstn n l)) -> live_count i c l = c + balance i l.
Proof.
  induction l as [|o t IH]; intros c H.
  - cbn. lia.
  - rewrite live_count_cons, balance_cons.
    assert (H1 : live_count i c [o] = c + balance i [o]).
    { specialize (H 1%nat). cbn [firstn] in H.
      destruct o as [| | |j b|]; cbn [live_count balance] in *; try lia.
      destruct (N.eqb i j); [|lia]. destruct b; lia. }
    rewrite H1, IH; [lia|].
    intro n. specialize (H (S n)). cbn [firstn] in H. rewrite balance_cons in H. lia.
Qed.

Lemma listed_init i : listed i (online init_state) 0.
Proof. split; [reflexivity|lia]. Qed.

(* the general statement: whatever the notifications, the listing shows the clamped count,
   and never a non-positive entry *)
Lemma online_listing ops s' rs i :
  run init_state ops = (s', rs) -> ups i ops < P63 ->
  let c := live_count i 0 ops in
  0 <= c /\ get i (online s') = (if c =? 0 then None else Some c) /\
  (forall v, get i (online s') = Some v -> 0 < v).
Proof.
  intros H Hb c. destruct (online_run _ _ _ _ i 0 H (listed_init i)) as [Hg Hc]; [lia|].
  fold c in Hg, Hc. split; [exact Hc|]. split; [exact Hg|].
  intros v Hv. rewrite Hg in Hv. destruct (Z.eqb_spec c 0); [discriminate|]. inversion Hv. lia.
Qed.

(* the property's clause: under the pairing the server guarantees, the listing shows exactly
   #online - #offline, the entry is absent at zero, and the count is never negative *)
Lemma online_exact ops s' rs i :
  run init_state ops = (s', rs) -> ups i ops < P63 -> paired i ops ->
  let c := balance i ops in
  0 <= c /\ get i (online s') = (if c =? 0 then None else Some c) /\
  snd (step s' OGetOnline) = ROnline (online s') /\ fst (step s' OGetOnline) = s'.
Proof.
  intros H Hb Hp c.
  assert (E : live_count i 0 ops = c).
  { unfold c. rewrite live_is_balance; [lia|]. intro n. specialize (Hp n). lia. }
  destruct (online_listing _ _ _ i H Hb) as (Hc & Hg & _). rewrite E in Hc, Hg.
  repeat split; assumption.
Qed.

(* offline right after the matching online: the entry is gone, not stale *)
Lemma online_not_stale s i :
  match get i (online s) with Some v => 0 < v < P63 - 1 | None => True end ->
  let s2 := fst (step (fst (step s (OOnline i true))) (OOnline i false)) in
  get i (online s2) = get i (online s).
Proof.
  intro H. set (c := count_of i (online s)).
  assert (Hc : 0 <= c < P63 - 1 /\ get i (online s) = if c =? 0 then None else Some c).
  { unfold c, count_of. destruct (get i (online s)) as [v|].
    - split; [lia|]. destruct (Z.eqb_spec v 0); [lia|reflexivity].
    - unfold P63. split; [lia|reflexivity]. }
  destruct Hc as [Hc Hg].
  set (s1 := fst (step s (OOnline i true))).
  assert (E1 : count_of i (online s1) = c + 1).
  { subst s1. cbn [step]. unfold do_online. cbn [fst online]. fold c.
    rewrite wrap_int_small by (unfold P63 in *; lia). unfold count_of. now rewrite get_set_eq. }
  cbn zeta. cbn [step]. unfold do_online at 1. rewrite E1.
  rewrite wrap_int_small by (unfold P63 in *; lia).
  replace (c + 1 - 1) with c by lia. rewrite Hg.
  destruct (Z.leb_spec c 0) as [Hle|Hgt]; cbn [fst online].
  - rewrite get_del_eq. destruct (Z.eqb_spec c 0); [reflexivity|lia].
  - rewrite get_set_eq. destruct (Z.eqb_spec c 0); [lia|reflexivity].
Qed.

Local Close Scope Z_scope.

(* ------------------------------------------------------------------ *)
(* 6. the HTTP front is a thin layer over the object                   *)
(* ------------------------------------------------------------------ *)

(* how an object response appears to the caller *)
Definition view (r : resp) (x : cres) : Prop :=
  match r, x with
  | RBool b, XBool b' => b = b'
  | RUnit, XUnit => True
  | RUnit, XHttp st BEmpty => st = StatusOK
  | RStats m, XHttp st (BStats m') => st = StatusOK /\ m = m'
  | ROnline m, XHttp st (BOnline m') => st = StatusOK /\ m = m'
  | _, _ => False
  end.

(* responses that carry no data of the three maps *)
Definition inert (x : cres) : Prop :=
  match x with
  | XHttp _ BError | XHttp _ BIndex | XHttp _ BStreams => True
  | _ => False
  end.

Lemma call_refines secret s c :
  match call_op secret c with
  | Some o => fst (call_step secret s c) = fst (step s o) /\
              view (snd (step s o)) (snd (call_step secret s c))
  | None => fst (call_step secret s c) = s /\ inert (snd (call_step secret s c))
  end.
Proof.
  destruct c as [i tx rx|i b|r]; cbn [call_op call_step].
  - cbn [step]. unfold do_log. destruct (mem i (kick s)); cbn; auto.
  - cbn [step]. split; [reflexivity|]. unfold do_online.
    destruct b; [|destruct (_ <=? _)%Z]; cbn; exact I.
  - unfold http_op, http_step. destruct (route secret r).
    + cbn. auto.
    + cbn. auto.
    + cbn [step]. unfold do_traffic. destruct (parse_bool (r_clear r)); cbn; auto.
    + destruct (r_body r) as [ids|]; cbn; auto.
    + cbn. auto.
    + cbn. auto.
    + cbn. auto.
Qed.

Lemma unauthorized_inert secret s r :
  secret <> ""%string -> r_auth r <> secret ->
  http_step secret s r = (s, (StatusUnauthorized, BError)).
Proof.
  intros H1 H2. unfold http_step, route.
  destruct (String.eqb_spec secret ""); [contradiction|].
  destruct (String.eqb_spec (r_auth r) secret); [contradiction|]. reflexivity.
Qed.

(* only GET /traffic with a true `clear` resets counters, only POST /kick kicks *)
Lemma http_effects secret s r :
  let s' := fst (http_step secret s r) in
  online s' = online s /\
  (stats s' = stats s \/ (stats s' = [] /\ route secret r = RtTraffic /\ parse_bool (r_clear r) = true)) /\
  (kick s' = kick s \/ route secret r = RtKick).
Proof.
  unfold http_step. destruct (route secret r); cbn; auto.
  - unfold do_traffic. destruct (parse_bool (r_clear r)); cbn; [|auto].
    split; [reflexivity|]. split; [right; repeat split; reflexivity|left; reflexivity].
  - destruct (r_body r); cbn; auto.
Qed.

(* ------------------------------------------------------------------ *)
(* 7. non-vacuity                                                      *)
(* ------------------------------------------------------------------ *)

(* interleaved clears, a kick (doubled), a refused report, a counter that wraps *)
Definition ex_ops : list op :=
  [OLog 1 10 20; OKick [1; 1]; OTraffic true; OLog 1 5 5; OLog 1 7 8; OLog 2 1 1; OKick [2];
   OTraffic true; OLog 1 18446744073709551615 0; OLog 1 2 0; OLog 2 9 9; OLog 2 3 3; OTraffic false].

Example ex_run :
  snd (run init_state ex_ops) =
  [RBool true; RUnit; RStats [(1, (10, 20))]; RBool false; RBool true; RBool true; RUnit;
   RStats [(1, (7, 8)); (2, (1, 1))]; RBool true; RBool true; RBool false; RBool true;
   RStats [(1, (1, 0)); (2, (3, 3))]].
Proof. vm_compute. reflexivity. Qed.

Example ex_conservation_rx :
  let (s', rs) := run init_state ex_ops in
  allowed_sum true 1 ex_ops rs = 28 /\ cleared_sum true 1 ex_ops rs = 28 /\ shown true 1 (stats s') = 0 /\
  allowed_sum false 1 ex_ops rs = 18446744073709551634 /\
  cleared_sum false 1 ex_ops rs = 17 /\ shown false 1 (stats s') = 1.
Proof. vm_compute. repeat split; reflexivity. Qed.

Example ex_kick_hyps :
  mem 1 [1; 1] = true /\ no_log 1 [OTraffic true] /\ no_log 1 [OLog 2 1 1] /\ no_kick 1 [OLog 2 1 1; OKick [2]].
Proof.
  split; [reflexivity|]. repeat split.
  - intros j a b [H|[]]; discriminate.
  - intros j a b [H|[]]. inversion H. lia.
  - intros ids [H|[H|[]]]; [discriminate|]. inversion H. reflexivity.
Qed.

Example ex_paired : paired 1 [OOnline 1 true; OOnline 2 false; OOnline 1 true; OOnline 1 false] /\
  balance 1 [OOnline 1 true; OOnline 2 false; OOnline 1 true; OOnline 1 false] = 1%Z /\
  get 1 (online (fst (run init_state [OOnline 1 true; OOnline 2 false; OOnline 1 true; OOnline 1 false]))) = Some 1%Z.
Proof.
  split; [|split; reflexivity].
  intro n. do 5 (destruct n as [|n]; [vm_compute; discriminate|]). vm_compute. discriminate.
Qed.

(* without the pairing the plain difference is NOT what the code keeps: an offline notification
   for a user with no entry is absorbed, so the hypothesis of online_exact is needed *)
Example ex_unpaired :
  get 1 (online (fst (run init_state [OOnline 1 false; OOnline 1 true]))) = Some 1%Z /\
  balance 1 [OOnline 1 false; OOnline 1 true] = 0%Z.
Proof. split; reflexivity. Qed.
