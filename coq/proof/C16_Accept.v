(* C16 - the log acceptor of corr/C16_Corr.v is SOUND for the LTS of model/C16_Reconnect.v:
   every accepted boundary log is explained by the weak transition relation of model/C16_Trace.v,
   hence is the visible projection of a strict run from a start state, hence inherits every C16
   theorem (census, close-final, ...).  Completeness of the normal-form search is tested at the end
   against an exhaustive enumeration of the bounded runs of the LTS. *)
From Coq Require Import List Arith Bool Lia NArith.
Import ListNotations.
From Hy Require Import gen.ParamsC16 model.C16_Reconnect proof.C16_Reconnect corr.C16_Corr model.C16_Trace.

(* ------------------------------------------------------------------ decidable equalities are sound *)

Lemma retc_eqb_eq : forall a b, retc_eqb a b = true -> a = b.
Proof. destruct a, b; simpl; intros; congruence. Qed.

Lemma ev_eqb_eq : forall a b, ev_eqb a b = true -> a = b.
Proof.
  destruct a, b; simpl; intros H; try discriminate;
    try (apply Nat.eqb_eq in H; congruence); try reflexivity.
  - apply eqb_prop in H. congruence.
  - apply andb_prop in H. destruct H as [A B]. apply Nat.eqb_eq in A. apply retc_eqb_eq in B. congruence.
Qed.

Lemma list_eqb_eq : forall A (e : A -> A -> bool), (forall x y, e x y = true -> x = y) ->
  forall a b, list_eqb e a b = true -> a = b.
Proof.
  intros A e He. induction a as [|x s IH]; destruct b as [|y t]; simpl; intros H; try discriminate; auto.
  apply andb_prop in H. destruct H as [P Q]. f_equal; auto.
Qed.

(* ------------------------------------------------------------------ the weak relation *)

Lemma explains_app : forall s cl l1 s1 cl1, explains s cl l1 s1 cl1 ->
  forall l2 s2 cl2, explains s1 cl1 l2 s2 cl2 -> explains s cl (l1 ++ l2) s2 cl2.
Proof.
  induction 1; simpl; intros; auto.
  - eapply X_tau; eauto.
  - eapply X_vis; eauto.
Qed.

Lemma explains_split : forall s cl l s2 cl2, explains s cl l s2 cl2 ->
  forall l1 l2, l = l1 ++ l2 ->
  exists sm clm, explains s cl l1 sm clm /\ explains sm clm l2 s2 cl2.
Proof.
  induction 1; intros l1 l2 E.
  - symmetry in E. apply app_eq_nil in E. destruct E; subst.
    exists s, cl. split; constructor.
  - destruct (IHexplains _ _ E) as (sm & clm & A & B).
    exists sm, clm. split; auto. eapply X_tau; eauto.
  - destruct l1 as [|o1 l1].
    + simpl in E. subst l2. exists s, cl. split; [constructor|]. eapply X_vis; eauto.
    + simpl in E. inversion E; subst.
      destruct (IHexplains _ _ eq_refl) as (sm & clm & A & B).
      exists sm, clm. split; auto. eapply X_vis; eauto.
Qed.

Definition a_cl (a : astate) : bool := snd (fst a).
Definition aexp (a : astate) (l : list obs) (b : astate) : Prop :=
  explains (a_st a) (a_cl a) l (a_st b) (a_cl b).

Lemma hidden_one : forall s cl a s1, hidden_action a -> step true s a = Some (s1, []) ->
  explains s cl [] s1 cl.
Proof. intros. eapply X_tau; [eapply T_act; eauto|constructor]. Qed.

Lemma explains_nil_trans : forall s cl s1 cl1 s2 cl2,
  explains s cl [] s1 cl1 -> explains s1 cl1 [] s2 cl2 -> explains s cl [] s2 cl2.
Proof. intros. exact (explains_app _ _ _ _ _ H _ _ _ H0). Qed.

(* ------------------------------------------------------------------ the pieces of the acceptor *)

Lemma silent_in : forall s a s1, In s1 (silent s a) -> step true s a = Some (s1, []).
Proof.
  unfold silent. intros s a s1 H. destruct (step true s a) as [[x [|e r]]|]; simpl in H; try contradiction.
  destruct H as [H|[]]. subst. reflexivity.
Qed.

Lemma with_evs_in : forall s a evs s1, In s1 (with_evs s a evs) ->
  evs <> [] /\ step true s a = Some (s1, evs).
Proof.
  unfold with_evs. intros s a evs s1 H. destruct evs as [|e r]; [contradiction|].
  split; [discriminate|].
  destruct (step true s a) as [[x e1]|]; [|contradiction].
  destruct (list_eqb ev_eqb e1 (e :: r)) eqn:E; [|contradiction].
  destruct H as [H|[]]. subst. apply (list_eqb_eq _ _ ev_eqb_eq) in E. subst. reflexivity.
Qed.

Lemma post_enter_in : forall t g s1 cl s2, In s2 (post_enter t g s1) -> explains s1 cl [] s2 cl.
Proof.
  unfold post_enter. intros t g s1 cl s2 H. destruct (get_pc s1 g); try contradiction.
  - apply in_app_or in H. destruct H as [H|H].
    + destruct t; simpl in H; try contradiction; destruct H as [H|[]]; subst; constructor.
    + simpl in H. rewrite app_nil_r in H. apply in_app_or in H.
      destruct H as [H|H];
        match type of H with In _ (if ?b then _ else _) => destruct b end; try contradiction;
        apply silent_in in H; eapply hidden_one; eauto; exact I.
  - destruct (retc_eqb t0 t); [|contradiction]. destruct H as [H|[]]. subst. constructor.
Qed.

Lemma hidden_succ_in : forall a b, In b (hidden_succ a) -> aexp a [] b.
Proof.
  intros [[s cl] hs] b H. unfold hidden_succ in H. apply in_app_or in H. destruct H as [H|H].
  - apply in_flat_map in H. destruct H as (g & _ & H).
    destruct (get_pc s g); try contradiction.
    apply in_map_iff in H. destruct H as (x & E & H). subst b.
    apply in_flat_map in H. destruct H as (s1 & H1 & H2).
    apply silent_in in H1. unfold aexp, a_st, a_cl. simpl.
    eapply explains_nil_trans; [eapply hidden_one; eauto; exact I|].
    eapply post_enter_in; eauto.
  - destruct cl; [|contradiction]. apply in_map_iff in H. destruct H as (x & E & H). subst b.
    apply silent_in in H. unfold aexp, a_st, a_cl. simpl.
    eapply X_tau; [eapply T_close; eauto|constructor].
Qed.

Lemma fresh_of_in : forall new acc fr x, In x (fresh_of new acc fr) -> In x new \/ In x fr.
Proof.
  induction new as [|h t IH]; simpl; intros acc fr x H; auto.
  destruct (mem h acc || mem h fr).
  - destruct (IH _ _ _ H); auto.
  - destruct (IH _ _ _ H) as [A|A]; auto. apply in_app_or in A. destruct A as [A|[A|[]]]; auto.
Qed.

Lemma closure_in : forall (P : astate -> Prop),
  (forall y b, P y -> In b (hidden_succ y) -> P b) ->
  forall n front acc, (forall y, In y front -> P y) -> (forall y, In y acc -> P y) ->
  forall x, In x (closure n front acc) -> P x.
Proof.
  intros P HP. induction n as [|k IH]; simpl; intros front acc Hf Ha x H; auto.
  destruct (fresh_of (flat_map hidden_succ front) acc []) as [|f0 fr] eqn:E; auto.
  assert (Hfr : forall y, In y (f0 :: fr) -> P y).
  { intros y Hy. rewrite <- E in Hy. apply fresh_of_in in Hy. destruct Hy as [Hy|[]].
    apply in_flat_map in Hy. destruct Hy as (z & Hz & Hy). eapply HP; eauto. }
  eapply (IH (f0 :: fr) (acc ++ f0 :: fr)); eauto.
  intros y Hy. apply in_app_or in Hy. destruct Hy; auto.
Qed.

Lemma to_done_in : forall g s cl x, In x (to_done g s) -> explains s cl [] x cl.
Proof.
  unfold to_done. intros g s cl x H. destruct (get_pc s g); try contradiction.
  - apply in_app_or in H. destruct H as [H|H]; apply silent_in in H; eapply hidden_one; eauto; exact I.
  - destruct H as [H|[]]. subst. constructor.
Qed.

Lemma to_ret_in : forall g s cl x, In x (to_ret g s) -> explains s cl [] x cl.
Proof.
  unfold to_ret. intros g s cl x H.
  assert (G : In x (flat_map (fun y => silent y (Leave g)) (to_done g s)) -> explains s cl [] x cl).
  { intros H0. apply in_flat_map in H0. destruct H0 as (y & Hy & Hx).
    eapply explains_nil_trans; [eapply to_done_in; eauto|].
    apply silent_in in Hx. eapply hidden_one; eauto. exact I. }
  destruct (get_pc s g); auto. destruct H as [H|[]]. subst. constructor.
Qed.

Lemma one_vis : forall s cl o s1 cl1, vstep s cl o s1 cl1 -> explains s cl [o] s1 cl1.
Proof. intros. eapply X_vis; eauto. constructor. Qed.

Lemma pre_vis_post : forall s cl x o y cl1 z,
  explains s cl [] x cl -> vstep x cl o y cl1 -> explains y cl1 [] z cl1 -> explains s cl [o] z cl1.
Proof.
  intros. change [o] with ([] ++ [o] ++ []).
  eapply explains_app; eauto. eapply explains_app; eauto. apply one_vis; auto.
Qed.

Lemma apply_obs_in : forall o a b, In b (apply_obs o a) -> aexp a [o] b.
Proof.
  intros o [[s cl] hs] b H. unfold aexp, a_st, a_cl. destruct o; cbn [apply_obs] in H; cbn [fst snd].
  - contradiction.
  - (* OStart *)
    apply in_map_iff in H. destruct H as (x & E & H). subst b. simpl. apply silent_in in H.
    apply one_vis. constructor; auto.
  - (* OSec *)
    apply in_map_iff in H. destruct H as (x & E & H). subst b. simpl.
    apply in_app_or in H. destruct H as [H|H].
    + apply in_flat_map in H. destruct H as (f & _ & H).
      apply in_flat_map in H. destruct H as (s1 & H1 & H2).
      apply with_evs_in in H1. destruct H1 as [Ne S1].
      eapply pre_vis_post; [constructor|eapply V_enter; eauto|eapply post_enter_in; eauto].
    + apply in_flat_map in H. destruct H as (y & Hy & H).
      apply with_evs_in in H. destruct H as [Ne S1].
      eapply pre_vis_post; [eapply to_done_in; eauto|eapply V_leave; eauto|constructor].
  - (* OReq *)
    assert (G : past_first_section (get_pc s g) -> In b [(s, cl, hs)] ->
                explains s cl [OReq g] (fst (fst b)) (snd (fst b))).
    { intros P [E|[]]. subst b. simpl. apply one_vis. constructor; auto. }
    destruct (get_pc s g) eqn:Pc; try contradiction; try (apply G; simpl; auto; fail).
    destruct t; try contradiction. apply G; simpl; auto.
  - (* ORet *)
    apply in_map_iff in H. destruct H as (x & E & H). subst b. simpl.
    apply in_flat_map in H. destruct H as (y & Hy & H).
    destruct (step true y (Ret g)) as [[s1 e1]|] eqn:S1; [|contradiction].
    destruct e1 as [|e1 r1]; [contradiction|]. destruct e1; try contradiction.
    destruct r1; [|contradiction].
    destruct (Nat.eqb g g0 && retc_eqb t t0) eqn:E; [|contradiction].
    destruct H as [H|[]]. subst x.
    apply andb_prop in E. destruct E as [E1 E2]. apply Nat.eqb_eq in E1. apply retc_eqb_eq in E2. subst.
    eapply pre_vis_post; [eapply to_ret_in; eauto|eapply V_ret; eauto|constructor].
  - (* OKill *)
    destruct (step true s (Kill c)) as [[s1 e1]|] eqn:S1; [|contradiction].
    destruct H as [H|[]]. subst b. simpl. apply one_vis. constructor.
    simpl in S1. simpl. destruct (alive s c); inversion S1; subst. reflexivity.
  - (* OCloseBegin *)
    destruct cl; [contradiction|]. destruct H as [H|[]]. subst b. simpl. apply one_vis. constructor.
  - (* OCloseSec *)
    destruct cl; [|contradiction]. apply in_map_iff in H. destruct H as (x & E & H). subst b. simpl.
    apply with_evs_in in H. destruct H as [Ne S1]. apply one_vis. constructor; auto.
  - (* OCloseEnd *)
    destruct cl; [contradiction|]. destruct H as [H|[]]. subst b. simpl. apply one_vis. constructor.
  - (* OQuiet *)
    destruct (quiescent s) eqn:Q; simpl in H; [|contradiction].
    destruct (list_eqb Nat.eqb (open_sids s) opens) eqn:E; [|contradiction].
    destruct H as [H|[]]. subst b. simpl. apply one_vis. constructor; auto.
    apply (list_eqb_eq _ Nat.eqb); auto. intros x y Hxy. apply Nat.eqb_eq; auto.
Qed.

Lemma closure_sound : forall n S0 x, In x (closure n S0 S0) -> exists a, In a S0 /\ aexp a [] x.
Proof.
  intros n S0 x H.
  apply (closure_in (fun y => exists a, In a S0 /\ aexp a [] y)) with (n := n) (front := S0) (acc := S0); auto.
  - intros y b (a & Ia & Ea) Hb. exists a. split; auto.
    apply hidden_succ_in in Hb. unfold aexp in *. eapply explains_nil_trans; eauto.
  - intros y Hy. exists y. split; auto. constructor.
  - intros y Hy. exists y. split; auto. constructor.
Qed.

Lemma feed_in : forall S0 o b, In b (feed S0 o) -> exists a, In a S0 /\ aexp a [o] b.
Proof.
  unfold feed. intros S0 o b H. apply fresh_of_in in H. destruct H as [H|[]].
  apply in_flat_map in H. destruct H as (x & Hx & H).
  apply closure_sound in Hx. destruct Hx as (a & Ia & Ea). exists a. split; auto.
  apply apply_obs_in in H. unfold aexp in *.
  exact (explains_app _ _ _ _ _ Ea _ _ _ H).
Qed.

Lemma fold_feed_in : forall l S0 b, In b (fold_left feed l S0) -> exists a, In a S0 /\ aexp a l b.
Proof.
  induction l as [|o l IH]; simpl; intros S0 b H.
  - exists b. split; auto. constructor.
  - apply IH in H. destruct H as (a1 & I1 & E1). apply feed_in in I1. destruct I1 as (a & Ia & Ea).
    exists a. split; auto. unfold aexp in *. exact (explains_app _ _ _ _ _ Ea _ _ _ E1).
Qed.

Lemma nonempty_in : forall A (l : list A), match l with [] => false | _ => true end = true -> exists x, In x l.
Proof. intros A [|x l] H; [discriminate|]. exists x. left. auto. Qed.

Lemma all_closed_open_sids : forall s, all_closed s = true -> open_sids s = [].
Proof.
  unfold all_closed, open_sids. intros s. generalize 0. induction (socks s) as [|k t IH]; simpl; intros b H; auto.
  apply andb_prop in H. destruct H as [A B]. destruct (s_open k); [discriminate|]. auto.
Qed.

(* ------------------------------------------------------------------ soundness *)

Lemma accepts_sound : forall l, accepts l = true -> is_trace l.
Proof.
  intros [|o rest] H; [discriminate|]. destruct o; try discriminate. cbn [accepts] in H. destruct lz.
  - destruct evs; [|discriminate]. destruct ok; [|discriminate].
    apply nonempty_in in H. destruct H as (b & H). apply fold_feed_in in H.
    destruct H as (a & [Ia|[]] & Ea). subst a. unfold aexp in Ea. simpl in Ea.
    simpl. eauto.
  - apply existsb_exists in H. destruct H as (f & _ & H).
    destruct (reconnect init0 f) as [[s e1] err] eqn:R.
    apply andb_prop in H. destruct H as [E H]. apply (list_eqb_eq _ _ ev_eqb_eq) in E. subst e1.
    destruct err as [t|]; destruct ok; try discriminate.
    + apply andb_prop in H. destruct H as [A B]. destruct rest; [|discriminate].
      simpl. exists f, s, t. split; [|split; auto].
      * intros ->. vm_compute in R. discriminate.
      * apply all_closed_open_sids; auto.
    + assert (f = FOk) by (destruct f; auto; vm_compute in R; discriminate). subst f.
      apply nonempty_in in H. destruct H as (b & H). apply fold_feed_in in H.
      destruct H as (a & [Ia|[]] & Ea). subst a. unfold aexp in Ea. simpl in Ea.
      simpl. exists s. split; auto. eauto.
Qed.

(* ------------------------------------------------------------------ from the weak relation to strict runs *)

Definition b2n (b : bool) : nat := if b then 1 else 0.

Lemma explains_run : forall s cl l s2 cl2, explains s cl l s2 cl2 ->
  exists tr, run true s tr = Some s2 /\ proj s tr = erase l /\
             count_close tr + b2n cl2 = count_cbegin l + b2n cl.
Proof.
  induction 1.
  - exists []. repeat split; auto.
  - destruct IHexplains as (tr & R & P & C). destruct H.
    + exists (a :: tr). simpl. rewrite H1. repeat split; auto.
      * rewrite P. destruct a; simpl in H; try contradiction; reflexivity.
      * destruct a; simpl in H; try contradiction; exact C.
    + exists (Close :: tr). cbn [run proj]. rewrite H. repeat split; auto.
      unfold count_close in *. cbn [filter length]. simpl in C. simpl. lia.
  - destruct IHexplains as (tr & R & P & C). unfold erase. cbn [flat_map]. fold (erase l).
    destruct H.
    + exists (Start g :: tr). cbn [run proj]. rewrite H. repeat split; auto. rewrite P. reflexivity.
    + exists (Enter g f :: tr). cbn [run proj]. rewrite H1. repeat split; auto. rewrite P.
      destruct evs; [congruence|reflexivity].
    + exists (Leave g :: tr). cbn [run proj]. rewrite H1. repeat split; auto. rewrite P.
      destruct evs; [congruence|reflexivity].
    + exists tr. repeat split; auto.
    + exists (Ret g :: tr). cbn [run proj]. rewrite H. repeat split; auto. rewrite P. reflexivity.
    + exists (Kill c :: tr). cbn [run proj]. rewrite H. repeat split; auto. rewrite P. reflexivity.
    + exists tr. repeat split; auto. unfold count_cbegin in *. cbn [filter length]. simpl in C. simpl. lia.
    + exists (Close :: tr). cbn [run proj]. rewrite H1. repeat split; auto.
      * rewrite P. destruct evs; [congruence|reflexivity].
      * unfold count_close, count_cbegin in *. cbn [filter length]. simpl in C. simpl. lia.
    + exists tr. repeat split; auto.
    + exists tr. repeat split; auto.
Qed.

Lemma explains_head : forall s cl l0 s2 cl2, explains s cl l0 s2 cl2 -> forall o l, l0 = o :: l ->
  exists x clx y cly, explains s cl [] x clx /\ vstep x clx o y cly /\ explains y cly l s2 cl2.
Proof.
  induction 1; intros o0 l0 E; try discriminate.
  - destruct (IHexplains _ _ E) as (x & clx & y & cly & A & B & C).
    exists x, clx, y, cly. split; auto. eapply X_tau; eauto.
  - inversion E; subst. exists s, cl, s1, cl1. split; [constructor|]. auto.
Qed.

Lemma start_of_starts : forall lz evs s0, start_of lz evs s0 -> starts s0.
Proof. intros [|] evs s0 H; simpl in H; [destruct H; left; auto|right; eauto]. Qed.

Lemma accepted_ok_explained : forall lz evs rest, accepts (OInit lz evs true :: rest) = true ->
  exists s0 s cl, start_of lz evs s0 /\ explains s0 false rest s cl.
Proof.
  intros lz evs rest H. apply accepts_sound in H. simpl in H. destruct lz.
  - destruct evs; [|contradiction]. destruct H as (s & cl & H). exists init0, s, cl. simpl. auto.
  - destruct H as (s0 & R & s & cl & H). exists s0, s, cl. simpl. auto.
Qed.

(* every accepted log of a constructed client is the visible projection of a strict run of the LTS
   from a start state, with exactly one Close action per rc.Close() call that has been placed *)
Lemma accepted_is_run : forall lz evs rest, accepts (OInit lz evs true :: rest) = true ->
  exists s0 tr s, start_of lz evs s0 /\ starts s0 /\ run true s0 tr = Some s /\
                  proj s0 tr = erase rest /\ count_close tr <= count_cbegin rest.
Proof.
  intros lz evs rest H. destruct (accepted_ok_explained _ _ _ H) as (s0 & s & cl & S0 & X).
  destruct (explains_run _ _ _ _ _ X) as (tr & R & P & C).
  exists s0, tr, s. repeat split; auto.
  - eapply start_of_starts; eauto.
  - simpl in C. lia.
Qed.

Lemma accepted_failed_start : forall lz evs rest, accepts (OInit lz evs false :: rest) = true ->
  lz = false /\ rest = [] /\
  exists f s t, f <> FOk /\ reconnect init0 f = (s, evs, Some t) /\ open_sids s = [].
Proof.
  intros lz evs rest H. apply accepts_sound in H. simpl in H. destruct lz.
  - destruct evs; contradiction.
  - destruct rest; [|contradiction]. auto.
Qed.

(* ... and at every recorded quiescent point the run is in a quiescent state with exactly the recorded
   sockets open (so the census theorem applies to the recorded sockets) *)
Lemma accepted_quiet_point : forall lz evs l1 opens l2,
  accepts (OInit lz evs true :: l1 ++ OQuiet opens :: l2) = true ->
  exists s0 tr s, start_of lz evs s0 /\ starts s0 /\ run true s0 tr = Some s /\ proj s0 tr = erase l1 /\
                  quiescent s = true /\ open_sids s = opens /\
                  (opens = [] \/ exists c, cur s = Some c /\ opens = [c]).
Proof.
  intros lz evs l1 opens l2 H. destruct (accepted_ok_explained _ _ _ H) as (s0 & s & cl & S0 & X).
  destruct (explains_split _ _ _ _ _ X l1 _ eq_refl) as (sm & clm & A & B).
  destruct (explains_head _ _ _ _ _ B _ _ eq_refl) as (x & clx & y & cly & T & V & _).
  pose proof (explains_app _ _ _ _ _ A _ _ _ T) as A1. rewrite app_nil_r in A1.
  destruct (explains_run _ _ _ _ _ A1) as (tr & R & P & _).
  inversion V; subst.
  exists s0, tr, y. pose proof (start_of_starts _ _ _ S0) as St.
  repeat split; auto.
  destruct (at_most_one y (starts_reachable _ _ _ St R)) as (_ & O & _). exact O.
Qed.

(* ------------------------------------------------------------------ the monitors hold on accepted logs *)

Lemma tau_reach : forall s cl s1 cl1, tau s cl s1 cl1 -> reachable true s -> reachable true s1.
Proof. destruct 1; intros R; eapply R_step; eauto. Qed.

Lemma vstep_reach : forall s cl o s1 cl1, vstep s cl o s1 cl1 -> reachable true s -> reachable true s1.
Proof. destruct 1; intros R; auto; eapply R_step; eauto. Qed.

Lemma census_explains : forall s cl l s2 cl2, explains s cl l s2 cl2 -> reachable true s ->
  census_mon l = true.
Proof.
  induction 1; intros R.
  - reflexivity.
  - apply IHexplains. eapply tau_reach; eauto.
  - unfold census_mon. cbn [forallb]. apply andb_true_intro. split.
    + destruct H; auto. subst opens.
      destruct (at_most_one s R) as (_ & [O|(c & _ & O)] & _); rewrite O; reflexivity.
    + apply IHexplains. eapply vstep_reach; eauto.
Qed.

Lemma late_step : forall s a s1 evs g, closed s = true -> step true s a = Some (s1, evs) ->
  (get_pc s g = PStarted \/ get_pc s g = PRet TClosed) ->
  (get_pc s1 g = PStarted \/ get_pc s1 g = PRet TClosed) \/ (a = Ret g /\ evs = [ERet g TClosed]).
Proof.
  intros s a s1 evs g Hc S Hg.
  destruct a as [g0|g0 f|g0 w|g0|g0|c|]; simpl in S.
  - destruct (Nat.eq_dec g0 g) as [->|N].
    + destruct Hg as [Hg|Hg]; rewrite Hg in S; discriminate.
    + destruct (get_pc s g0); inversion S; subst. rewrite get_set_other by auto. auto.
  - rewrite Hc in S. destruct (Nat.eq_dec g0 g) as [->|N].
    + destruct Hg as [Hg|Hg]; rewrite Hg in S; [|discriminate]. inversion S; subst.
      rewrite get_set_same. auto.
    + destruct (get_pc s g0); inversion S; subst. rewrite get_set_other by auto. auto.
  - destruct (Nat.eq_dec g0 g) as [->|N].
    + destruct Hg as [Hg|Hg]; rewrite Hg in S; discriminate.
    + destruct (get_pc s g0); try discriminate.
      match type of S with (if ?b then _ else _) = _ => destruct b end; inversion S; subst.
      rewrite get_set_other by auto. auto.
  - destruct (Nat.eq_dec g0 g) as [->|N].
    + destruct Hg as [Hg|Hg]; rewrite Hg in S; discriminate.
    + destruct (get_pc s g0); try discriminate.
      destruct r; try (inversion S; subst; rewrite get_set_other by auto; auto; fail).
      destruct (is_cur s c); inversion S; subst; rewrite get_set_other by auto; auto.
  - destruct (Nat.eq_dec g0 g) as [->|N].
    + destruct Hg as [Hg|Hg]; rewrite Hg in S; [discriminate|]. inversion S; subst. auto.
    + destruct (get_pc s g0); inversion S; subst. rewrite get_set_other by auto. auto.
  - destruct (alive s c); inversion S; subst. auto.
  - destruct (cur s); inversion S; subst; auto.
Qed.

Definition late_ok (s : st) (late : list nat) : Prop :=
  forall g, In g late -> get_pc s g = PStarted \/ get_pc s g = PRet TClosed.

Definition cf_inv (begun after cl : bool) (s : st) (late : list nat) : Prop :=
  (begun = true -> cl = false -> closed s = true) /\
  (after = true -> closed s = true /\ late_ok s late) /\
  (after = false -> late = []).

(* a step that is not a return keeps the invariant; so does a return, for the other goroutines *)
Lemma cf_step : forall begun after cl s late a s1 evs,
  cf_inv begun after cl s late -> step true s a = Some (s1, evs) ->
  cf_inv begun after cl s1
         (match a with Ret g => filter (fun h => negb (Nat.eqb g h)) late | _ => late end).
Proof.
  intros begun after cl s late a s1 evs (I1 & I2 & I3) S. split; [|split].
  - intros B C. destruct (closed_step _ _ _ _ (I1 B C) S) as (A & _). exact A.
  - intros Af. destruct (I2 Af) as [Hc L]. destruct (closed_step _ _ _ _ Hc S) as (A & _). split; auto.
    intros g Hg.
    assert (Hg0 : In g late) by (destruct a; auto; apply filter_In in Hg; tauto).
    destruct (late_step _ _ _ _ g Hc S (L g Hg0)) as [X|[X _]]; auto.
    subst a. apply filter_In in Hg. destruct Hg as [_ Hg]. rewrite Nat.eqb_refl in Hg. discriminate.
  - intros Af. rewrite (I3 Af). destruct a; reflexivity.
Qed.

Lemma close_final_explains : forall s cl l s2 cl2, explains s cl l s2 cl2 -> reachable true s ->
  forall begun after late, cf_inv begun after cl s late -> close_final_mon begun after late l = true.
Proof.
  induction 1; intros R begun after late I.
  - reflexivity.
  - apply IHexplains; [eapply tau_reach; eauto|].
    destruct H as [s cl a s1 Ha Hs|s s1 Hs].
    + pose proof (cf_step _ _ _ _ _ _ _ _ I Hs) as J.
      destruct a; simpl in Ha; try contradiction; exact J.
    + pose proof (cf_step _ _ _ _ _ _ _ _ I Hs) as (J1 & J2 & J3). split; [|split]; auto.
      intros _ _. eapply close_sets_closed; eauto.
  - cbn [close_final_mon]. apply andb_true_intro. split.
    + destruct after; auto. destruct I as (I1 & I2 & I3). destruct (I2 eq_refl) as [Hc L].
      destruct H as [s cl g t s1 Hs|s cl g f evs s1 Ne Hs|s cl g evs s1 Ne Hs|s cl g Hp|s cl g t s1 Hs
                    |s cl c s1 Hs|s|s evs s1 Ne Hs|s|s cl opens Hq Ho]; auto.
      * destruct (closed_step _ _ _ _ Hc Hs) as (_ & _ & _ & _ & _ & E).
        change (existsb connect_event evs) with (existsb connect_ev evs). rewrite E. reflexivity.
      * destruct (closed_step _ _ _ _ Hc Hs) as (_ & _ & _ & _ & _ & E).
        change (existsb connect_event evs) with (existsb connect_ev evs). rewrite E. reflexivity.
      * destruct (existsb (Nat.eqb g) late) eqn:Ex; auto.
        apply existsb_exists in Ex. destruct Ex as (x & Ix & Ex). apply Nat.eqb_eq in Ex. subst x.
        simpl in Hs. destruct (L g Ix) as [P|P]; rewrite P in Hs; [discriminate|].
        inversion Hs; subst. reflexivity.
      * destruct (closed_step _ _ _ _ Hc Hs) as (_ & _ & _ & _ & _ & E).
        change (existsb connect_event evs) with (existsb connect_ev evs). rewrite E. reflexivity.
      * subst opens. destruct (closed_all_sockets_closed s R Hc) as [O _]. rewrite O. reflexivity.
    + apply IHexplains; [eapply vstep_reach; eauto|].
      destruct H as [s cl g t s1 Hs|s cl g f evs s1 Ne Hs|s cl g evs s1 Ne Hs|s cl g Hp|s cl g t s1 Hs
                    |s cl c s1 Hs|s|s evs s1 Ne Hs|s|s cl opens Hq Ho]; cbn [is_cbegin is_cend];
        rewrite ?andb_false_r, ?andb_true_r, ?orb_false_r, ?orb_true_r; auto.
      * (* start *)
        pose proof (cf_step _ _ _ _ _ _ _ _ I Hs) as (J1 & J2 & J3). cbn iota in J2, J3.
        destruct after; [|split; [|split]; auto].
        split; [|split]; auto; try discriminate. intros _. destruct (J2 eq_refl) as [Hc L]. split; auto.
        intros h [Hh|Hh]; auto. subst h. simpl in Hs. destruct (get_pc s g); inversion Hs; subst.
        rewrite get_set_same. auto.
      * exact (cf_step _ _ _ _ _ _ _ _ I Hs).
      * exact (cf_step _ _ _ _ _ _ _ _ I Hs).
      * exact (cf_step _ _ _ _ _ _ _ _ I Hs).
      * exact (cf_step _ _ _ _ _ _ _ _ I Hs).
      * destruct I as (I1 & I2 & I3). split; [|split]; auto. discriminate.
      * pose proof (cf_step _ _ _ _ _ _ _ _ I Hs) as (J1 & J2 & J3). split; [|split]; auto.
        intros _ _. eapply close_sets_closed; eauto.
      * destruct I as (I1 & I2 & I3). split; [|split]; auto.
        -- intros Af. destruct after; [auto|]. simpl in Af. split; [auto|].
           rewrite (I3 eq_refl). intros g [].
        -- intros Af. apply orb_false_elim in Af. destruct Af. auto.
Qed.

Lemma accepted_monitors : forall l, accepts l = true ->
  census_mon l = true /\ close_final_mon false false [] l = true.
Proof.
  intros l H. destruct l as [|o rest]; [discriminate|]. destruct o; try discriminate.
  destruct ok.
  - destruct (accepted_ok_explained _ _ _ H) as (s0 & s & cl & S0 & X).
    pose proof (R_start true _ (start_of_starts _ _ _ S0)) as R. split.
    + exact (census_explains _ _ _ _ _ X R).
    + cbn [close_final_mon is_cbegin is_cend orb andb].
      apply (close_final_explains _ _ _ _ _ X R). split; [|split]; auto; discriminate.
  - destruct (accepted_failed_start _ _ _ H) as (_ & E & _). subst rest. split; reflexivity.
Qed.

(* ------------------------------------------------------------------ what the cut into sections preserves *)

Lemma sec_evs_mk w w0 evs : sec_evs w (mk_sec w0 evs) = if Nat.eqb w0 w then evs else [].
Proof.
  unfold mk_sec. destruct (Nat.eqb w0 close_actor) eqn:E; cbn [sec_evs].
  - apply Nat.eqb_eq in E. subst w0. rewrite (Nat.eqb_sym w close_actor). reflexivity.
  - destruct (Nat.eqb w0 w) eqn:F; cbn; auto. apply Nat.eqb_eq in F. subst w0. rewrite E. reflexivity.
Qed.

Lemma is_sec_mk w evs : is_sec (mk_sec w evs) = true.
Proof. unfold mk_sec. destruct (Nat.eqb w close_actor); reflexivity. Qed.

Definition open_evs (w : nat) (open : option (nat * list ev)) : list ev :=
  match open with Some (w0, evs) => if Nat.eqb w0 w then evs else [] | None => [] end.

Lemma filter_plain l : plain l -> filter (fun o => negb (is_sec o)) l = l.
Proof. induction 1; cbn; auto. rewrite H. cbn. now rewrite IHForall. Qed.

Lemma sec_evs_plain w l : plain l -> flat_map (sec_evs w) l = [].
Proof. induction 1; cbn; auto. rewrite IHForall, app_nil_r. destruct x; try discriminate; reflexivity. Qed.

Lemma flush_obs open pend out : plain pend ->
  filter (fun o => negb (is_sec o)) (rev (flush open pend out)) =
  filter (fun o => negb (is_sec o)) (rev out) ++ rev pend.
Proof.
  intros P. assert (Pr : plain (rev pend)) by (apply Forall_rev; exact P).
  unfold flush. destruct open as [[w evs]|].
  - rewrite rev_app_distr. cbn [rev]. rewrite !filter_app. cbn [filter]. rewrite is_sec_mk. cbn.
    rewrite app_nil_r, (filter_plain _ Pr). reflexivity.
  - rewrite rev_app_distr, filter_app, (filter_plain _ Pr). reflexivity.
Qed.

Lemma flush_evs w open pend out : plain pend ->
  flat_map (sec_evs w) (rev (flush open pend out)) = flat_map (sec_evs w) (rev out) ++ open_evs w open.
Proof.
  intros P. assert (Pr : plain (rev pend)) by (apply Forall_rev; exact P).
  unfold flush. destruct open as [[w0 evs]|]; cbn [open_evs].
  - rewrite rev_app_distr. cbn [rev]. rewrite !flat_map_app. cbn [flat_map].
    rewrite sec_evs_mk, (sec_evs_plain _ _ Pr), !app_nil_r. reflexivity.
  - rewrite rev_app_distr, flat_map_app, (sec_evs_plain _ _ Pr), app_nil_r. reflexivity.
Qed.

Definition wfp (open : option (nat * list ev)) (pend : list obs) : Prop :=
  match open with None => pend = [] | Some _ => True end.

Lemma group_aux_obs : forall l open pend out, plain (log_obs l) -> plain pend -> wfp open pend ->
  filter (fun o => negb (is_sec o)) (group_aux l open pend out) =
  filter (fun o => negb (is_sec o)) (rev out) ++ rev pend ++ log_obs l.
Proof.
  induction l as [|r t IH]; intros open pend out Pl Pp Wf; cbn [group_aux].
  - rewrite flush_obs by auto. cbn. now rewrite app_nil_r.
  - destruct r as [o|w e].
    + cbn [log_obs flat_map app] in Pl |- *. inversion Pl as [|? ? Ho Pt]; subst. fold (log_obs t) in *.
      destruct open as [[w0 evs]|].
      * destruct (breaks w0 o).
        -- rewrite IH by (cbn; auto; constructor). cbn [rev]. rewrite filter_app, flush_obs by auto.
           cbn [filter]. rewrite Ho. cbn. rewrite <- ?app_assoc; rewrite <- ?app_assoc; reflexivity.
        -- rewrite IH by (cbn; auto; constructor; auto). cbn [rev]. rewrite <- ?app_assoc; rewrite <- ?app_assoc; reflexivity.
      * cbn in Wf; subst pend; cbn [rev app].
        rewrite IH by (cbn; auto; constructor). cbn [rev]. rewrite filter_app. cbn [filter]. rewrite Ho. cbn.
        rewrite <- ?app_assoc; rewrite <- ?app_assoc; reflexivity.
    + cbn [log_obs flat_map app] in Pl |- *. fold (log_obs t) in *.
      assert (Pn : plain []) by constructor.
      destruct open as [[w0 evs]|].
      * destruct (Nat.eqb w w0 && sec_continues evs e).
        -- destruct (sec_unfinished (evs ++ [e])).
           ++ apply IH; cbn; auto.
           ++ rewrite IH by (cbn; auto). cbn [rev app]. rewrite flush_obs by auto. rewrite <- ?app_assoc; rewrite <- ?app_assoc; reflexivity.
        -- destruct (sec_unfinished [e]).
           ++ rewrite IH by (cbn; auto). cbn [rev app]. rewrite flush_obs by auto. rewrite <- ?app_assoc; rewrite <- ?app_assoc; reflexivity.
           ++ rewrite IH by (cbn; auto). cbn [rev app]. rewrite filter_app, flush_obs by auto.
              cbn [filter]. rewrite is_sec_mk. cbn. rewrite app_nil_r. rewrite <- ?app_assoc; rewrite <- ?app_assoc; reflexivity.
      * cbn in Wf; subst pend; cbn [rev app].
        destruct (sec_unfinished [e]).
        -- rewrite IH by (cbn; auto). rewrite <- ?app_assoc; rewrite <- ?app_assoc; reflexivity.
        -- rewrite IH by (cbn; auto). cbn [rev app]. rewrite filter_app. cbn [filter]. rewrite is_sec_mk. cbn.
           rewrite app_nil_r. rewrite <- ?app_assoc; rewrite <- ?app_assoc; reflexivity.
Qed.

Lemma group_aux_evs w : forall l open pend out, plain (log_obs l) -> plain pend -> wfp open pend ->
  flat_map (sec_evs w) (group_aux l open pend out) =
  flat_map (sec_evs w) (rev out) ++ open_evs w open ++ actor_events w l.
Proof.
  induction l as [|r t IH]; intros open pend out Pl Pp Wf; cbn [group_aux].
  - rewrite flush_evs by auto. cbn. now rewrite app_nil_r.
  - destruct r as [o|w1 e].
    + cbn [log_obs flat_map app] in Pl. inversion Pl as [|? ? Ho Pt]; subst. fold (log_obs t) in *.
      cbn [actor_events flat_map app]. fold (actor_events w t).
      assert (So : sec_evs w o = []) by (destruct o; try discriminate; reflexivity).
      destruct open as [[w0 evs]|].
      * destruct (breaks w0 o).
        -- rewrite IH by (cbn; auto; constructor). cbn [rev open_evs app]. rewrite flat_map_app, flush_evs by auto.
           cbn [flat_map]. rewrite So. cbn. rewrite app_nil_r, <- !app_assoc. rewrite <- ?app_assoc; rewrite <- ?app_assoc; reflexivity.
        -- rewrite IH by (cbn; auto; constructor; auto). rewrite <- ?app_assoc; rewrite <- ?app_assoc; reflexivity.
      * cbn in Wf; subst pend; cbn [rev app].
        rewrite IH by (cbn; auto; constructor). cbn [rev open_evs app]. rewrite flat_map_app. cbn [flat_map].
        rewrite So. cbn. rewrite app_nil_r. rewrite <- ?app_assoc; rewrite <- ?app_assoc; reflexivity.
    + cbn [log_obs flat_map app] in Pl. fold (log_obs t) in *. cbn [actor_events flat_map]. fold (actor_events w t).
      assert (Pn : plain []) by constructor.
      destruct open as [[w0 evs]|].
      * destruct (Nat.eqb w1 w0 && sec_continues evs e) eqn:C.
        -- apply andb_prop in C. destruct C as [C _]. apply Nat.eqb_eq in C. subst w1.
           destruct (sec_unfinished (evs ++ [e])).
           ++ rewrite IH by (cbn; auto). cbn [open_evs]. destruct (Nat.eqb w0 w); cbn; rewrite <- ?app_assoc; rewrite <- ?app_assoc; reflexivity.
           ++ rewrite IH by (cbn; auto). cbn [open_evs app]. rewrite flush_evs by auto. cbn [open_evs].
              destruct (Nat.eqb w0 w); cbn; rewrite <- ?app_assoc; rewrite <- ?app_assoc; reflexivity.
        -- destruct (sec_unfinished [e]).
           ++ rewrite IH by (cbn; auto). rewrite flush_evs by auto. cbn [open_evs].
              destruct (Nat.eqb w0 w), (Nat.eqb w1 w); cbn; rewrite ?app_nil_r; rewrite <- ?app_assoc; rewrite <- ?app_assoc; reflexivity.
           ++ rewrite IH by (cbn; auto). cbn [rev open_evs app]. rewrite flat_map_app, flush_evs by auto.
              cbn [flat_map open_evs]. rewrite sec_evs_mk.
              destruct (Nat.eqb w0 w), (Nat.eqb w1 w); cbn; rewrite ?app_nil_r; rewrite <- ?app_assoc; rewrite <- ?app_assoc; reflexivity.
      * cbn in Wf; subst pend; cbn [rev app].
        destruct (sec_unfinished [e]).
        -- rewrite IH by (cbn; auto). cbn [open_evs]. destruct (Nat.eqb w1 w); cbn; rewrite ?app_nil_r; rewrite <- ?app_assoc; rewrite <- ?app_assoc; reflexivity.
        -- rewrite IH by (cbn; auto). cbn [rev open_evs app]. rewrite flat_map_app. cbn [flat_map]. rewrite sec_evs_mk.
           destruct (Nat.eqb w1 w); cbn; rewrite ?app_nil_r; rewrite <- ?app_assoc; rewrite <- ?app_assoc; reflexivity.
Qed.

Lemma group_preserves l : plain (log_obs l) ->
  filter (fun o => negb (is_sec o)) (group l) = log_obs l /\
  forall w, flat_map (sec_evs w) (group l) = actor_events w l.
Proof.
  intros P. unfold group. split.
  - rewrite group_aux_obs by (cbn; auto; constructor). reflexivity.
  - intros w. rewrite group_aux_evs by (cbn; auto; constructor). reflexivity.
Qed.

(* ------------------------------------------------------------------ completeness, tested

   The acceptor searches the unobserved sections in a normal form (hidden Enter in the closure, a
   Do that needs a live client right after its Enter, the others right before the Leave, a Leave
   that closes nothing right before the Ret), and prunes with the return value of each call.  That
   this loses no log of the LTS is not proved; it is tested exhaustively on the bounded runs
   enumerated by [dfs] (model/C16_Trace.v): every one of their logs is accepted. *)
Lemma acceptor_complete_bounded :
  map (fun r => snd r) complete_bounded = [[]; []; []; []; []] /\
  forallb (fun r => N.leb 5000 (fst r)) complete_bounded = true.
Proof. vm_compute. split; reflexivity. Qed.
