(* C16 - proofs about the kinds of connection loss (model/C16_Loss.v) *)
From Coq Require Import List Arith Bool Lia.
Import ListNotations.
From Hy Require Import gen.ParamsC16 model.C16_Reconnect proof.C16_Reconnect model.C16_Loss.

(* ------------------------------------------------------------------ the enum *)

Lemma kind_of_id_id : forall k, kind_of_id (kind_id k) = Some k.
Proof. destruct k; reflexivity. Qed.

Lemma all_kinds_complete : forall k, In k all_kinds.
Proof. destruct k; simpl; tauto. Qed.

Lemma kind_id_inj : forall a b, kind_id a = kind_id b -> a = b.
Proof.
  intros a b H. pose proof (kind_of_id_id a) as A. rewrite H, kind_of_id_id in A. congruence.
Qed.

(* ------------------------------------------------------------------ the oracle on this tree *)

(* total: every kind has a row *)
Lemma wrap_total : forall k, exists r, wrap_kind k = Some r.
Proof. destruct k; vm_compute; eauto. Qed.

(* the recoverable kinds are exactly {stream limit reached} *)
Lemma wrap_recoverable_iff : forall k, wrap_kind k = Some RRecov <-> k = KStreamLimit.
Proof.
  intros k; split.
  - destruct k; vm_compute; intros H; try reflexivity; discriminate.
  - intros ->. vm_compute. reflexivity.
Qed.

(* every terminal kind is wrapped as ClosedError, i.e. as the LTS classifies a dead connection *)
Lemma wrap_terminal_closed : forall k, terminal k = true ->
  wrap_kind k = Some RClosed /\ raw_of k = Some WDead /\ classify WDead = RClosed.
Proof. destruct k; intros T; try discriminate T; vm_compute; auto. Qed.

Lemma wrap_is_classify : forall k w, raw_of k = Some w -> wrap_kind k = Some (classify w).
Proof. destruct k; intros w H; inversion H; subst; vm_compute; reflexivity. Qed.

(* f(client) by kind is the Do step of the LTS on the raw outcome the kind stands for *)
Lemma do_kind_is_do : forall s g k w, raw_of k = Some w -> do_kind s g k = step true s (Do g w).
Proof.
  intros s g k w H. unfold do_kind. rewrite H, (wrap_is_classify k w H). cbn [step].
  destruct (get_pc s g); try reflexivity.
  destruct k; inversion H; subst; reflexivity.
Qed.

(* ------------------------------------------------------------------ one loss, two calls *)

Lemma get_pc_set_socks : forall s l g, get_pc (set_socks s l) g = get_pc s g.
Proof. reflexivity. Qed.

Lemma alive_new : forall cu n cl sk p a b d, alive (mkSt cu n cl (sk ++ [mkSock true 0 true false]) p a b d) (length sk) = true.
Proof.
  intros. unfold alive. cbn [socks]. rewrite nth_error_app2 by lia. rewrite Nat.sub_diag. reflexivity.
Qed.

(* A call on the client whose connection is lost, whatever the terminal kind: the loss is reported as
   ClosedError, the dead client is dropped and its socket closed, nothing else happens. *)
Lemma call_reports_loss : forall s g c f k, reachable true s ->
  get_pc s g = PIdle -> closed s = false -> cur s = Some c -> alive s c = false -> c < length (socks s) ->
  terminal k = true ->
  exists s2, krun s (call_dies g f k) = Some (s2, [ESockClose c; ERet g TClosed]) /\
             reachable true s2 /\
             cur s2 = None /\ closed s2 = false /\ get_pc s2 g = PIdle /\ open_sids s2 = [] /\
             count s2 = count s /\ ncfg s2 = ncfg s /\ nnew s2 = nnew s /\ length (socks s2) = length (socks s) /\
             (exists sk, nth_error (socks s2) c = Some sk /\ s_open sk = false /\ 1 <= s_closes sk).
Proof.
  intros s g c f k Re P Cl Cu Al Lt T.
  destruct (wrap_terminal_closed k T) as (W & Rw & _).
  (* the five steps, as LTS steps *)
  set (sa := set_pc s g PStarted).
  assert (S1 : step true s (Start g) = Some (sa, [])) by (cbn [step]; rewrite P; reflexivity).
  set (sb := set_pc sa g (PEntered c)).
  assert (S2 : step true sa (Enter g f) = Some (sb, [])).
  { cbn [step]. unfold sa. rewrite get_set_same. cbn [closed set_pc cur]. rewrite Cl, Cu. reflexivity. }
  set (sc := set_pc sb g (PDone c RClosed)).
  assert (S3 : step true sb (Do g WDead) = Some (sc, [])).
  { cbn [step]. unfold sb. rewrite get_set_same. unfold sa. rewrite !alive_set_pc. rewrite Al. reflexivity. }
  set (sd := set_pc (close_client (set_cur sc None) c) g (PRet TClosed)).
  assert (S4 : step true sc (Leave g) = Some (sd, [ESockClose c])).
  { cbn [step]. unfold sc. rewrite get_set_same. unfold is_cur, sb, sa. cbn [cur set_pc]. rewrite Cu, Nat.eqb_refl. reflexivity. }
  set (se := set_pc sd g PIdle).
  assert (S5 : step true sd (Ret g) = Some (se, [ERet g TClosed])).
  { cbn [step]. unfold sd. rewrite get_set_same. reflexivity. }
  assert (Re2 : reachable true se).
  { eapply R_step; [|exact S5]. eapply R_step; [|exact S4]. eapply R_step; [|exact S3].
    eapply R_step; [|exact S2]. eapply R_step; [exact Re|exact S1]. }
  exists se. split.
  - unfold call_dies. cbn [krun kstep]. rewrite S1, S2. rewrite (do_kind_is_do sb g k WDead Rw), S3, S4, S5.
    reflexivity.
  - split; [exact Re2|].
    assert (CuE : cur se = None) by reflexivity.
    split; [exact CuE|]. split; [exact Cl|]. split; [unfold se; apply get_set_same|].
    split.
    { destruct (at_most_one se Re2) as (_ & [E | (c' & C' & _)] & _); [exact E|]. rewrite CuE in C'. discriminate. }
    split; [reflexivity|]. split; [reflexivity|]. split; [reflexivity|].
    split; [cbn; apply length_modify|].
    destruct (nth_error (socks s) c) as [sk0|] eqn:N; [|apply nth_error_None in N; lia].
    exists (close_sock sk0). split.
    + cbn. rewrite nth_error_modify, Nat.eqb_refl, N. reflexivity.
    + split; [reflexivity|]. cbn. lia.
Qed.

(* The call after it: no client, so the first locked section reconnects (config evaluated once more, a
   fresh socket, count+1) and the call succeeds on the fresh connection; that socket is the only open one. *)
Lemma next_call_reconnects : forall s g, reachable true s ->
  get_pc s g = PIdle -> closed s = false -> cur s = None ->
  let sid := length (socks s) in
  exists s3, krun s (call_works g FOk) =
               Some (s3, [ECfg true; ENew sid; EConnected (S (count s)); ERet g TOk]) /\
             reachable true s3 /\
             cur s3 = Some sid /\ alive s3 sid = true /\ count s3 = S (count s) /\ ncfg s3 = S (ncfg s) /\
             nnew s3 = S (nnew s) /\ closed s3 = false /\ get_pc s3 g = PIdle /\
             (forall i sk, nth_error (socks s3) i = Some sk -> s_open sk = true -> i = sid).
Proof.
  intros s g Re P Cl Cu sid.
  set (sa := set_pc s g PStarted).
  assert (S1 : step true s (Start g) = Some (sa, [])) by (cbn [step]; rewrite P; reflexivity).
  set (sr := mkSt (Some sid) (S (count s)) (closed s) (socks s ++ [mkSock true 0 true false]) (pcs sa)
                  (S (ncfg s)) (S (nnew s)) (nclose s)).
  set (sb := set_pc sr g (PEntered sid)).
  assert (S2 : step true sa (Enter g FOk) = Some (sb, [ECfg true; ENew sid; EConnected (S (count s))])).
  { cbn [step]. unfold sa. rewrite get_set_same. cbn [closed set_pc cur]. rewrite Cl, Cu.
    unfold reconnect. cbn [cur set_pc]. rewrite Cu. reflexivity. }
  set (sc := set_pc sb g (PDone sid ROk)).
  assert (Alr : forall p q, alive (set_pc (set_pc sr g p) g q) sid = true).
  { intros. rewrite !alive_set_pc. unfold sr, sid. apply alive_new. }
  assert (S3 : step true sb (Do g WOk) = Some (sc, [])).
  { cbn [step]. unfold sb. rewrite get_set_same. rewrite alive_set_pc. unfold sr, sid. rewrite alive_new. reflexivity. }
  set (sd := set_pc sc g (PRet TOk)).
  assert (S4 : step true sc (Leave g) = Some (sd, [])).
  { cbn [step]. unfold sc. rewrite get_set_same. reflexivity. }
  set (se := set_pc sd g PIdle).
  assert (S5 : step true sd (Ret g) = Some (se, [ERet g TOk])).
  { cbn [step]. unfold sd. rewrite get_set_same. reflexivity. }
  assert (Re2 : reachable true se).
  { eapply R_step; [|exact S5]. eapply R_step; [|exact S4]. eapply R_step; [|exact S3].
    eapply R_step; [|exact S2]. eapply R_step; [exact Re|exact S1]. }
  exists se. split.
  - unfold call_works. cbn [krun kstep]. rewrite S1, S2, S3, S4, S5. reflexivity.
  - split; [exact Re2|].
    assert (CuE : cur se = Some sid) by reflexivity.
    split; [exact CuE|].
    split; [unfold se, sd, sc, sb; rewrite !alive_set_pc; unfold sr, sid; apply alive_new|].
    split; [reflexivity|]. split; [reflexivity|]. split; [reflexivity|]. split; [exact Cl|].
    split; [unfold se; apply get_set_same|].
    intros i sk N O. destruct (at_most_one se Re2) as (A & _). specialize (A i sk N O).
    rewrite CuE in A. congruence.
Qed.

(* Reconnect on loss for EVERY way a connection can die: from any state of any run in which goroutine g
   is idle and c is the live current client, the connection is lost with a terminal error of any kind k;
   the next call of g returns ClosedError and closes the dead socket (exactly one failing call), and the
   call after it succeeds on a fresh connection which is the only open socket, with count+1. *)
Lemma loss_of_every_kind_reconnects : forall s g c k f, reachable true s ->
  get_pc s g = PIdle -> closed s = false -> cur s = Some c -> alive s c = true -> terminal k = true ->
  let sid := length (socks s) in
  exists s1 s2 s3,
    step true s (Kill c) = Some (s1, [EKill c]) /\
    krun s1 (call_dies g f k) = Some (s2, [ESockClose c; ERet g TClosed]) /\
    cur s2 = None /\ open_sids s2 = [] /\ count s2 = count s /\ ncfg s2 = ncfg s /\
    krun s2 (call_works g FOk) = Some (s3, [ECfg true; ENew sid; EConnected (S (count s)); ERet g TOk]) /\
    cur s3 = Some sid /\ alive s3 sid = true /\ count s3 = S (count s) /\ ncfg s3 = S (ncfg s) /\
    (forall i sk, nth_error (socks s3) i = Some sk -> s_open sk = true -> i = sid).
Proof.
  intros s g c k f Re P Cl Cu Al T sid.
  set (s1 := set_socks s (modify (socks s) c kill_sock)).
  assert (K : step true s (Kill c) = Some (s1, [EKill c])) by (cbn [step]; rewrite Al; reflexivity).
  assert (Re1 : reachable true s1) by (eapply R_step; eauto).
  assert (Lt : c < length (socks s)) by (apply alive_lt; exact Al).
  assert (D : alive s1 c = false) by (eapply kill_makes_dead; eauto).
  assert (Lt1 : c < length (socks s1)) by (unfold s1; cbn; rewrite length_modify; exact Lt).
  destruct (call_reports_loss s1 g c f k Re1 P Cl Cu D Lt1 T)
    as (s2 & R2 & Re2 & Cu2 & Cl2 & P2 & O2 & Cn2 & Nc2 & Nn2 & Len2 & _).
  destruct (next_call_reconnects s2 g Re2 P2 Cl2 Cu2)
    as (s3 & R3 & _ & Cu3 & Al3 & Cn3 & Nc3 & _ & _ & _ & One).
  assert (Len : length (socks s2) = length (socks s)).
  { rewrite Len2. unfold s1. cbn. apply length_modify. }
  exists s1, s2, s3. rewrite Len in *. fold sid in R3, Cu3, Al3, One.
  assert (C1 : count s1 = count s) by reflexivity. assert (N1 : ncfg s1 = ncfg s) by reflexivity.
  rewrite C1 in Cn2. rewrite N1 in Nc2. rewrite Cn2 in R3, Cn3. rewrite Nc2 in Nc3.
  repeat split; auto.
Qed.

(* The hypotheses are satisfiable: an eager client, one successful call, then the loss. *)
Example loss_hypotheses_example :
  exists s, run true (fst (fst (reconnect init0 FOk))) [Start 0; Enter 0 FOk; Do 0 WOk; Leave 0; Ret 0] = Some s /\
            get_pc s 0 = PIdle /\ closed s = false /\ cur s = Some 0 /\ alive s 0 = true /\ terminal KReset = true.
Proof. eexists. vm_compute. repeat split. Qed.

