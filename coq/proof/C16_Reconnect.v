(* C16 - proofs about the LTS of model/C16_Reconnect.v *)
From Coq Require Import List Arith Bool Lia.
Import ListNotations.
From Hy Require Import gen.ParamsC16 model.C16_Reconnect.

(* ------------------------------------------------------------------ lists *)

Lemma nth_error_modify : forall A (f : A -> A) l i j,
  nth_error (modify l i f) j = if Nat.eqb j i then option_map f (nth_error l j) else nth_error l j.
Proof.
  induction l as [|h t IH]; intros i j; simpl.
  - destruct (Nat.eqb j i); destruct j; reflexivity.
  - destruct i, j; simpl; try reflexivity. apply IH.
Qed.

Lemma length_modify : forall A (f : A -> A) l i, length (modify l i f) = length l.
Proof. induction l; intros [|i]; simpl; auto. Qed.

Lemma nth_error_snoc : forall A (l : list A) x j,
  nth_error (l ++ [x]) j =
  if Nat.ltb j (length l) then nth_error l j else if Nat.eqb j (length l) then Some x else None.
Proof.
  intros. destruct (Nat.ltb j (length l)) eqn:E.
  - apply Nat.ltb_lt in E. apply nth_error_app1; auto.
  - apply Nat.ltb_ge in E. rewrite nth_error_app2 by auto.
    destruct (Nat.eqb j (length l)) eqn:E2.
    + apply Nat.eqb_eq in E2. subst. rewrite Nat.sub_diag. reflexivity.
    + apply Nat.eqb_neq in E2. destruct (j - length l) eqn:E3; [lia|]. simpl. destruct n; reflexivity.
Qed.

Lemma nth_error_lt : forall A (l : list A) i k, nth_error l i = Some k -> i < length l.
Proof. intros. apply nth_error_Some. congruence. Qed.

(* ------------------------------------------------------------------ invariant on the shared part *)

Definition sinv (cu : option nat) (cl : bool) (sk : list sock) (nc : nat) : Prop :=
  (forall i k, nth_error sk i = Some k -> s_open k = true -> cu = Some i) /\
  (forall c, cu = Some c -> c < length sk) /\
  (forall i k, nth_error sk i = Some k ->
     (s_open k = true -> s_closes k = 0) /\ (s_open k = false -> 1 <= s_closes k) /\
     (cu = Some i -> s_closes k <= nc) /\ s_closes k <= 1 + nc) /\
  (cl = true -> forall i k, nth_error sk i = Some k -> s_open k = false).

Definition inv (s : st) : Prop := sinv (cur s) (closed s) (socks s) (nclose s).

Lemma sinv_init : sinv None false [] 0.
Proof.
  repeat split; intros; try discriminate; destruct i; discriminate.
Qed.

Lemma sinv_kill : forall cu cl sk nc c,
  sinv cu cl sk nc -> sinv cu cl (modify sk c kill_sock) nc.
Proof.
  intros cu cl sk nc c (H1 & H2 & H3 & H4).
  repeat split; intros.
  - rewrite nth_error_modify in H. destruct (Nat.eqb i c).
    + destruct (nth_error sk i) eqn:E; inversion H; subst. eapply H1; eauto.
    + eapply H1; eauto.
  - rewrite length_modify. auto.
  - rewrite nth_error_modify in H. destruct (Nat.eqb i c).
    + destruct (nth_error sk i) eqn:E; inversion H; subst. simpl in *. apply (H3 _ _ E); auto.
    + apply (H3 _ _ H); auto.
  - rewrite nth_error_modify in H. destruct (Nat.eqb i c).
    + destruct (nth_error sk i) eqn:E; inversion H; subst. simpl in *. apply (H3 _ _ E); auto.
    + apply (H3 _ _ H); auto.
  - rewrite nth_error_modify in H. destruct (Nat.eqb i c).
    + destruct (nth_error sk i) eqn:E; inversion H; subst. simpl in *. apply (H3 _ _ E); auto.
    + apply (H3 _ _ H); auto.
  - rewrite nth_error_modify in H. destruct (Nat.eqb i c).
    + destruct (nth_error sk i) eqn:E; inversion H; subst. simpl in *. apply (H3 _ _ E); auto.
    + apply (H3 _ _ H); auto.
  - rewrite nth_error_modify in H0. destruct (Nat.eqb i c).
    + destruct (nth_error sk i) eqn:E; inversion H0; subst. simpl. eapply H4; eauto.
    + eapply H4; eauto.
Qed.

Ltac modc H :=
  rewrite nth_error_modify in H;
  match type of H with
  | context [Nat.eqb ?i ?c] =>
      let E := fresh "E" in
      destruct (Nat.eqb i c) eqn:E;
      [ apply Nat.eqb_eq in E;
        match type of H with
        | option_map _ (nth_error ?l ?j) = _ =>
            let En := fresh "En" in destruct (nth_error l j) eqn:En; inversion H; subst; clear H
        end
      | apply Nat.eqb_neq in E ]
  end.

(* rc.Close() with a current client *)
Lemma sinv_close_cur : forall cl sk nc c,
  sinv (Some c) cl sk nc -> sinv (Some c) true (modify sk c close_sock) (S nc).
Proof.
  intros cl sk nc c (H1 & H2 & H3 & H4).
  repeat split; intros.
  - modc H; simpl in *; try discriminate. eapply H1; eauto.
  - rewrite length_modify. auto.
  - modc H; simpl in *; try discriminate. apply (H3 _ _ H); auto.
  - modc H; simpl in *; try lia. apply (H3 _ _ H); auto.
  - modc H; simpl in *.
    + destruct (H3 _ _ En) as (_ & _ & Hc & _). specialize (Hc eq_refl). lia.
    + inversion H0; subst. congruence.
  - modc H; simpl in *.
    + destruct (H3 _ _ En) as (_ & _ & Hc & _). specialize (Hc eq_refl). lia.
    + destruct (H3 _ _ H) as (_ & _ & _ & Hc). lia.
  - modc H0; simpl; auto.
    destruct (s_open k) eqn:Eo; auto. apply (H1 _ _ H0) in Eo. congruence.
Qed.

(* rc.Close() without a current client *)
Lemma sinv_close_none : forall cl sk nc,
  sinv None cl sk nc -> sinv None true sk (S nc).
Proof.
  intros cl sk nc (H1 & H2 & H3 & H4).
  repeat split; intros; try discriminate.
  - eapply H1; eauto.
  - apply (H3 _ _ H); auto.
  - apply (H3 _ _ H); auto.
  - destruct (H3 _ _ H) as (_ & _ & _ & Hc). lia.
  - destruct (s_open k) eqn:Eo; auto. apply (H1 _ _ H0) in Eo. discriminate.
Qed.

(* second locked section: drop the current client and close it *)
Lemma sinv_drop : forall cl sk nc c,
  sinv (Some c) cl sk nc -> sinv None cl (modify sk c close_sock) nc.
Proof.
  intros cl sk nc c (H1 & H2 & H3 & H4).
  repeat split; intros; try discriminate.
  - modc H; simpl in *; try discriminate. apply (H1 _ _ H) in H0. congruence.
  - modc H; simpl in *; try discriminate. apply (H3 _ _ H); auto.
  - modc H; simpl in *; try lia. apply (H3 _ _ H); auto.
  - modc H; simpl in *.
    + destruct (H3 _ _ En) as (_ & _ & Hc & _). specialize (Hc eq_refl). lia.
    + apply (H3 _ _ H); auto.
  - modc H0; simpl; auto. eapply H4; eauto.
Qed.

(* reconnect(): handshake failed, connect() closed the new socket *)
Lemma sinv_hs_fail : forall sk nc,
  sinv None false sk nc -> sinv None false (sk ++ [mkSock false 1 false false]) nc.
Proof.
  intros sk nc (H1 & H2 & H3 & H4).
  repeat split; intros; try discriminate.
  - rewrite nth_error_snoc in H. destruct (Nat.ltb i (length sk)); [eapply H1; eauto|].
    destruct (Nat.eqb i (length sk)); inversion H; subst; discriminate.
  - rewrite nth_error_snoc in H. destruct (Nat.ltb i (length sk)); [apply (H3 _ _ H); auto|].
    destruct (Nat.eqb i (length sk)); inversion H; subst; discriminate.
  - rewrite nth_error_snoc in H. destruct (Nat.ltb i (length sk)); [apply (H3 _ _ H); auto|].
    destruct (Nat.eqb i (length sk)); inversion H; subst; simpl; lia.
  - rewrite nth_error_snoc in H. destruct (Nat.ltb i (length sk)); [apply (H3 _ _ H); auto|].
    destruct (Nat.eqb i (length sk)); inversion H; subst; simpl; lia.
Qed.

(* reconnect(): success *)
Lemma sinv_new_ok : forall sk nc,
  sinv None false sk nc -> sinv (Some (length sk)) false (sk ++ [mkSock true 0 true false]) nc.
Proof.
  intros sk nc (H1 & H2 & H3 & H4).
  repeat split; intros; try discriminate.
  - rewrite nth_error_snoc in H. destruct (Nat.ltb i (length sk)) eqn:E.
    + apply (H1 _ _ H) in H0. discriminate.
    + destruct (Nat.eqb i (length sk)) eqn:E2; inversion H; subst.
      apply Nat.eqb_eq in E2. subst. reflexivity.
  - inversion H; subst. rewrite app_length. simpl. lia.
  - rewrite nth_error_snoc in H. destruct (Nat.ltb i (length sk)); [apply (H3 _ _ H); auto|].
    destruct (Nat.eqb i (length sk)); inversion H; subst; reflexivity.
  - rewrite nth_error_snoc in H. destruct (Nat.ltb i (length sk)); [apply (H3 _ _ H); auto|].
    destruct (Nat.eqb i (length sk)); inversion H; subst; discriminate.
  - rewrite nth_error_snoc in H. destruct (Nat.ltb i (length sk)) eqn:E.
    + apply Nat.ltb_lt in E. inversion H0; subst. lia.
    + destruct (Nat.eqb i (length sk)); inversion H; subst; simpl; lia.
  - rewrite nth_error_snoc in H. destruct (Nat.ltb i (length sk)); [apply (H3 _ _ H); auto|].
    destruct (Nat.eqb i (length sk)); inversion H; subst; simpl; lia.
Qed.

Lemma sinv_cl_irrelevant_none : forall cl sk nc, sinv None cl sk nc -> sinv None false sk nc.
Proof.
  intros cl sk nc (H1 & H2 & H3 & H4). repeat split; intros; try discriminate.
  - eapply H1; eauto.
  - apply (H3 _ _ H); auto.
  - apply (H3 _ _ H); auto.
  - apply (H3 _ _ H); auto.
Qed.

(* ------------------------------------------------------------------ the invariant holds in every reachable state *)

Lemma inv_set_pc : forall s g p, inv (set_pc s g p) <-> inv s.
Proof. intros. unfold inv. simpl. tauto. Qed.

Lemma inv_reconnect : forall s f s1 evs err,
  inv s -> cur s = None -> closed s = false -> reconnect s f = (s1, evs, err) -> inv s1.
Proof.
  unfold inv, reconnect. intros s f s1 evs err H Hc Hcl R.
  rewrite Hc in R. rewrite Hc, Hcl in H.
  destruct f; inversion R; subst; clear R; simpl; rewrite ?Hc, ?Hcl; auto.
  - apply sinv_new_ok; auto.
  - apply sinv_hs_fail; auto.
Qed.

Lemma reconnect_closed : forall s f s1 evs err,
  reconnect s f = (s1, evs, err) -> closed s1 = closed s.
Proof.
  unfold reconnect. intros s f s1 evs err R.
  destruct (cur s); destruct f; inversion R; subst; reflexivity.
Qed.

Lemma inv_step : forall s a s1 evs, inv s -> step true s a = Some (s1, evs) -> inv s1.
Proof.
  intros s a s1 evs H S. destruct a; simpl in S.
  - (* Start *) destruct (get_pc s g); inversion S; subst. apply inv_set_pc; auto.
  - (* Enter *)
    destruct (get_pc s g); try discriminate.
    destruct (closed s) eqn:Hcl.
    + inversion S; subst. apply inv_set_pc; auto.
    + destruct (cur s) eqn:Hc.
      * inversion S; subst. apply inv_set_pc; auto.
      * destruct (reconnect s f) as [[s2 e2] err] eqn:R.
        assert (I2 : inv s2) by (eapply inv_reconnect; eauto).
        destruct err; [|destruct (cur s2)]; inversion S; subst; apply inv_set_pc; auto.
  - (* Do *)
    destruct (get_pc s g); try discriminate.
    match type of S with (if ?b then _ else _) = _ => destruct b end; inversion S; subst.
    apply inv_set_pc; auto.
  - (* Leave *)
    destruct (get_pc s g); try discriminate.
    destruct r; try (inversion S; subst; apply inv_set_pc; auto; fail).
    unfold is_cur in S. destruct (cur s) eqn:Hc.
    + destruct (Nat.eqb n c) eqn:E.
      * apply Nat.eqb_eq in E. subst. inversion S; subst. apply inv_set_pc.
        unfold inv in *. simpl. rewrite Hc in H. eapply sinv_drop; eauto.
      * inversion S; subst. apply inv_set_pc; auto.
    + inversion S; subst. apply inv_set_pc; auto.
  - (* Ret *) destruct (get_pc s g); inversion S; subst. apply inv_set_pc; auto.
  - (* Kill *)
    destruct (alive s c); inversion S; subst. unfold inv in *. simpl. apply sinv_kill; auto.
  - (* Close *)
    destruct (cur s) eqn:Hc; inversion S; subst; unfold inv in *; simpl; rewrite Hc in *.
    + eapply sinv_close_cur; eauto.
    + eapply sinv_close_none; eauto.
Qed.

Lemma inv_starts : forall s, starts s -> inv s.
Proof.
  intros s [E | [evs R]].
  - subst. apply sinv_init.
  - apply (inv_reconnect init0 FOk s evs None); try reflexivity; auto. apply sinv_init.
Qed.

Lemma reachable_inv : forall s, reachable true s -> inv s.
Proof.
  induction 1.
  - apply inv_starts; auto.
  - eapply inv_step; eauto.
Qed.

Lemma run_reachable : forall col tr s s1, reachable col s -> run col s tr = Some s1 -> reachable col s1.
Proof.
  induction tr as [|a t IH]; simpl; intros s s1 R H.
  - inversion H; subst; auto.
  - destruct (step col s a) as [[s2 e]|] eqn:S; try discriminate.
    eapply IH; [|eauto]. eapply R_step; eauto.
Qed.

(* ------------------------------------------------------------------ pcs *)

Lemma nth_upd_same : forall l g x, nth g (upd l g x) PIdle = x.
Proof. intros l g; revert l; induction g; destruct l; simpl; auto. Qed.

Lemma nth_upd_other : forall l g h x, g <> h -> nth h (upd l g x) PIdle = nth h l PIdle.
Proof.
  intros l g; revert l; induction g; destruct l; destruct h; simpl; intros; try congruence; auto.
  - destruct h; reflexivity.
  - rewrite IHg by congruence. destruct h; reflexivity.
Qed.

Lemma get_set_same : forall s g p, get_pc (set_pc s g p) g = p.
Proof. intros. unfold get_pc, set_pc. simpl. apply nth_upd_same. Qed.

Lemma get_set_other : forall s g h p, g <> h -> get_pc (set_pc s g p) h = get_pc s h.
Proof. intros. unfold get_pc, set_pc. simpl. apply nth_upd_other; auto. Qed.

(* ------------------------------------------------------------------ census *)

Lemma open_from_in : forall l b x, In x (open_from b l) ->
  b <= x /\ exists k, nth_error l (x - b) = Some k /\ s_open k = true.
Proof.
  induction l as [|h t IH]; simpl; intros b x H; [contradiction|].
  destruct (s_open h) eqn:E.
  - destruct H as [H|H].
    + subst. split; [lia|]. rewrite Nat.sub_diag. exists h. auto.
    + apply IH in H. destruct H as (L & k & N & O). split; [lia|].
      exists k. split; auto. replace (x - b) with (S (x - S b)) by lia. exact N.
  - apply IH in H. destruct H as (L & k & N & O). split; [lia|].
    exists k. split; auto. replace (x - b) with (S (x - S b)) by lia. exact N.
Qed.

Lemma open_from_complete : forall l b j k, nth_error l j = Some k -> s_open k = true ->
  In (b + j) (open_from b l).
Proof.
  induction l as [|h t IH]; intros b j k N O; destruct j; simpl in *; try discriminate.
  - inversion N; subst. rewrite O. left. lia.
  - replace (b + S j) with (S b + j) by lia.
    destruct (s_open h); [right|]; eapply IH; eauto.
Qed.

Lemma open_from_single : forall l b c, (forall x, In x (open_from b l) -> x = c) ->
  open_from b l = [] \/ open_from b l = [c].
Proof.
  induction l as [|h t IH]; simpl; intros b c H; auto.
  destruct (s_open h) eqn:E.
  - right. assert (b = c) by (apply H; left; auto). subst.
    destruct (open_from (S c) t) as [|y r] eqn:T; auto.
    assert (y = c) by (apply H; right; left; auto).
    assert (S c <= y) by (apply (open_from_in t (S c) y); rewrite T; left; auto). lia.
  - apply IH. auto.
Qed.

Lemma open_sids_spec : forall s x,
  In x (open_sids s) <-> exists k, nth_error (socks s) x = Some k /\ s_open k = true.
Proof.
  unfold open_sids. intros s x. split.
  - intros H. apply open_from_in in H. rewrite Nat.sub_0_r in H. tauto.
  - intros (k & N & O). apply (open_from_complete _ 0 x k); auto.
Qed.

Lemma at_most_one : forall s, reachable true s ->
  (forall i k, nth_error (socks s) i = Some k -> s_open k = true -> cur s = Some i) /\
  (open_sids s = [] \/ exists c, cur s = Some c /\ open_sids s = [c]) /\
  (forall i k, nth_error (socks s) i = Some k -> cur s <> Some i ->
     s_open k = false /\ 1 <= s_closes k).
Proof.
  intros s R. apply reachable_inv in R. destruct R as (H1 & H2 & H3 & H4).
  split; [exact H1|]. split.
  - destruct (cur s) as [c|] eqn:Hc.
    + destruct (open_from_single (socks s) 0 c) as [E|E].
      * intros x Hx. apply open_sids_spec in Hx. destruct Hx as (k & N & O).
        specialize (H1 _ _ N O). congruence.
      * left. exact E.
      * right. exists c. auto.
    + left. destruct (open_sids s) as [|x r] eqn:E; auto.
      assert (Hx : In x (open_sids s)) by (rewrite E; left; auto).
      apply open_sids_spec in Hx. destruct Hx as (k & N & O).
      specialize (H1 _ _ N O). discriminate.
  - intros i k N Hn. destruct (s_open k) eqn:O.
    + specialize (H1 _ _ N O). congruence.
    + split; auto. apply (H3 _ _ N); auto.
Qed.

Lemma closes_bound : forall s, reachable true s ->
  forall i k, nth_error (socks s) i = Some k ->
    s_closes k <= 1 + nclose s /\ (s_open k = true <-> s_closes k = 0).
Proof.
  intros s R i k N. apply reachable_inv in R. destruct R as (H1 & H2 & H3 & H4).
  destruct (H3 _ _ N) as (A & B & C & D). split; auto. split; auto.
  intros Z. destruct (s_open k); auto. specialize (B eq_refl). lia.
Qed.

(* ------------------------------------------------------------------ Close is final *)

Definition connect_ev (e : ev) : bool :=
  match e with ECfg _ | ENew _ | ENewErr | EConnected _ => true | _ => false end.

Lemma closed_step : forall s a s1 evs, closed s = true -> step true s a = Some (s1, evs) ->
  closed s1 = true /\ ncfg s1 = ncfg s /\ nnew s1 = nnew s /\ count s1 = count s /\
  length (socks s1) = length (socks s) /\ existsb connect_ev evs = false.
Proof.
  intros s a s1 evs Hc S. destruct a; simpl in S.
  - destruct (get_pc s g); inversion S; subst; simpl; auto 10.
  - destruct (get_pc s g); try discriminate. rewrite Hc in S. inversion S; subst; simpl; auto 10.
  - destruct (get_pc s g); try discriminate.
    match type of S with (if ?b then _ else _) = _ => destruct b end; inversion S; subst; simpl; auto 10.
  - destruct (get_pc s g); try discriminate.
    destruct r; try (inversion S; subst; simpl; auto 10; fail).
    destruct (is_cur s c); inversion S; subst; simpl; rewrite ?length_modify; auto 10.
  - destruct (get_pc s g); inversion S; subst; simpl; auto 10.
  - destruct (alive s c); inversion S; subst; simpl; rewrite ?length_modify; auto 10.
  - destruct (cur s); inversion S; subst; simpl; rewrite ?length_modify; auto 10.
Qed.

Lemma closed_run : forall tr s s1, closed s = true -> run true s tr = Some s1 ->
  closed s1 = true /\ ncfg s1 = ncfg s /\ nnew s1 = nnew s /\ count s1 = count s /\
  length (socks s1) = length (socks s).
Proof.
  induction tr as [|a t IH]; simpl; intros s s1 Hc H.
  - inversion H; subst; auto.
  - destruct (step true s a) as [[s2 e]|] eqn:S; try discriminate.
    destruct (closed_step _ _ _ _ Hc S) as (A & B & C & D & E & _).
    destruct (IH _ _ A H) as (A' & B' & C' & D' & E'). repeat split; congruence.
Qed.

Lemma close_sets_closed : forall s s1 evs, step true s Close = Some (s1, evs) -> closed s1 = true.
Proof. intros s s1 evs S. simpl in S. destruct (cur s); inversion S; subst; reflexivity. Qed.

Lemma closed_all_sockets_closed : forall s, reachable true s -> closed s = true ->
  open_sids s = [] /\ forall i k, nth_error (socks s) i = Some k -> s_open k = false /\ 1 <= s_closes k.
Proof.
  intros s R Hc. pose proof (reachable_inv _ R) as (H1 & H2 & H3 & H4).
  assert (A : forall i k, nth_error (socks s) i = Some k -> s_open k = false) by (apply H4; auto).
  split.
  - destruct (open_sids s) as [|x r] eqn:E; auto.
    assert (Hx : In x (open_sids s)) by (rewrite E; left; auto).
    apply open_sids_spec in Hx. destruct Hx as (k & N & O). rewrite (A _ _ N) in O. discriminate.
  - intros i k N. split; [eauto|]. apply (H3 _ _ N). eauto.
Qed.

Lemma closed_enter : forall s g f s1 evs, closed s = true ->
  step true s (Enter g f) = Some (s1, evs) -> evs = [] /\ get_pc s1 g = PRet TClosed.
Proof.
  intros s g f s1 evs Hc S. simpl in S. destruct (get_pc s g); try discriminate.
  rewrite Hc in S. inversion S; subst. split; auto. apply get_set_same.
Qed.

Lemma closed_not_alive : forall s c, reachable true s -> closed s = true -> alive s c = false.
Proof.
  intros s c R Hc. unfold alive. destruct (nth_error (socks s) c) eqn:N; auto.
  destruct (closed_all_sockets_closed _ R Hc) as (_ & A). destruct (A _ _ N) as (O & _).
  rewrite O. apply andb_false_r.
Qed.

Lemma closed_no_success : forall s g w, reachable true s -> closed s = true ->
  (w = WOk \/ w = WStreamLimit) -> step true s (Do g w) = None.
Proof.
  intros s g w R Hc Hw. simpl. destruct (get_pc s g); auto.
  rewrite (closed_not_alive _ c R Hc). destruct Hw; subst; reflexivity.
Qed.

(* ------------------------------------------------------------------ reconnect on loss *)

Lemma alive_lt : forall s c, alive s c = true -> c < length (socks s).
Proof.
  unfold alive. intros s c H. destruct (nth_error (socks s) c) eqn:N; try discriminate.
  eapply nth_error_lt; eauto.
Qed.

Lemma alive_modify_false : forall s c d f,
  (forall k, s_client (f k) && negb (s_dead (f k)) && s_open (f k) = true ->
             s_client k && negb (s_dead k) && s_open k = true) ->
  alive s c = false -> alive (set_socks s (modify (socks s) d f)) c = false.
Proof.
  unfold alive. intros s c d f Hf H. simpl. rewrite nth_error_modify.
  destruct (Nat.eqb c d); auto. destruct (nth_error (socks s) c); simpl; auto.
  destruct (s_client (f s0) && negb (s_dead (f s0)) && s_open (f s0)) eqn:E; auto.
  apply Hf in E. congruence.
Qed.

Lemma close_sock_mono : forall k,
  s_client (close_sock k) && negb (s_dead (close_sock k)) && s_open (close_sock k) = true ->
  s_client k && negb (s_dead k) && s_open k = true.
Proof. intros k. simpl. rewrite andb_false_r. discriminate. Qed.

Lemma kill_sock_mono : forall k,
  s_client (kill_sock k) && negb (s_dead (kill_sock k)) && s_open (kill_sock k) = true ->
  s_client k && negb (s_dead k) && s_open k = true.
Proof. intros k. simpl. rewrite andb_false_r. discriminate. Qed.

Lemma alive_set_pc : forall s g p c, alive (set_pc s g p) c = alive s c.
Proof. reflexivity. Qed.

Lemma alive_snoc : forall s c x cu n a b d e,
  c < length (socks s) ->
  alive (mkSt cu n a (socks s ++ [x]) b d e (nclose s)) c = alive s c.
Proof.
  intros. unfold alive. simpl. rewrite nth_error_snoc.
  apply Nat.ltb_lt in H. rewrite H. reflexivity.
Qed.

(* a connection that is lost (or closed) never serves again *)
Lemma dead_step : forall s a s1 evs c, c < length (socks s) -> alive s c = false ->
  step true s a = Some (s1, evs) -> alive s1 c = false /\ c < length (socks s1).
Proof.
  intros s a s1 evs c L A S. destruct a; simpl in S.
  - destruct (get_pc s g); inversion S; subst; auto.
  - destruct (get_pc s g); try discriminate.
    destruct (closed s); [inversion S; subst; auto|].
    destruct (cur s) eqn:Hc; [inversion S; subst; auto|].
    unfold reconnect in S. rewrite Hc in S.
    destruct f; simpl in S; inversion S; subst; clear S; rewrite alive_set_pc; simpl;
      rewrite ?app_length; simpl; split; try lia; auto.
    + unfold alive in *. simpl. rewrite nth_error_snoc. apply Nat.ltb_lt in L. rewrite L. auto.
    + unfold alive in *. simpl. rewrite nth_error_snoc. apply Nat.ltb_lt in L. rewrite L. auto.
  - destruct (get_pc s g); try discriminate.
    match type of S with (if ?b then _ else _) = _ => destruct b end; inversion S; subst; auto.
  - destruct (get_pc s g); try discriminate.
    destruct r; try (inversion S; subst; auto; fail).
    destruct (is_cur s c0); inversion S; subst; auto.
    rewrite alive_set_pc. simpl. rewrite length_modify. split; auto.
    apply (alive_modify_false (set_cur s None)); auto. apply close_sock_mono.
  - destruct (get_pc s g); inversion S; subst; auto.
  - destruct (alive s c0); inversion S; subst. simpl. rewrite length_modify. split; auto.
    apply alive_modify_false; auto. apply kill_sock_mono.
  - destruct (cur s); inversion S; subst; simpl; rewrite ?length_modify; split; auto.
    apply (alive_modify_false (mkSt (cur s) (count s) true (socks s) (pcs s) (ncfg s) (nnew s) (Datatypes.S (nclose s)))); auto.
    apply close_sock_mono.
Qed.

Lemma dead_run : forall tr s s1 c, c < length (socks s) -> alive s c = false ->
  run true s tr = Some s1 -> alive s1 c = false.
Proof.
  induction tr as [|a t IH]; simpl; intros s s1 c L A H.
  - inversion H; subst; auto.
  - destruct (step true s a) as [[s2 e]|] eqn:S; try discriminate.
    destruct (dead_step _ _ _ _ _ L A S). eapply IH; eauto.
Qed.

Lemma kill_makes_dead : forall s c s1 evs, step true s (Kill c) = Some (s1, evs) ->
  alive s1 c = false /\ c < length (socks s1) /\ evs = [EKill c] /\ cur s1 = cur s.
Proof.
  intros s c s1 evs S. simpl in S. destruct (alive s c) eqn:A; inversion S; subst.
  pose proof (alive_lt _ _ A) as L. simpl. rewrite length_modify. repeat split; auto.
  unfold alive in *. simpl. rewrite nth_error_modify, Nat.eqb_refl.
  destruct (nth_error (socks s) c); simpl; auto. rewrite andb_false_r. reflexivity.
Qed.

(* 1. after the connection c is lost, no call on c ever succeeds again *)
Lemma loss_is_observed : forall s c s1 evs tr s2 g,
  step true s (Kill c) = Some (s1, evs) -> run true s1 tr = Some s2 ->
  get_pc s2 g = PEntered c ->
  step true s2 (Do g WOk) = None /\ step true s2 (Do g WStreamLimit) = None /\
  exists s3, step true s2 (Do g WDead) = Some (s3, []) /\ get_pc s3 g = PDone c RClosed.
Proof.
  intros s c s1 evs tr s2 g K R P.
  destruct (kill_makes_dead _ _ _ _ K) as (A & L & _).
  pose proof (dead_run _ _ _ _ L A R) as A2.
  simpl. rewrite P, A2. simpl. repeat split; auto.
  eexists. split; [reflexivity|]. apply get_set_same.
Qed.

(* 2. the call that observed the loss returns ClosedError; if its client is still the current one it
      is dropped and closed; no config evaluation, no new socket *)
Lemma leave_closed : forall s g c s1 evs, reachable true s ->
  get_pc s g = PDone c RClosed -> step true s (Leave g) = Some (s1, evs) ->
  get_pc s1 g = PRet TClosed /\ cur s1 <> Some c /\ ncfg s1 = ncfg s /\ nnew s1 = nnew s /\
  count s1 = count s /\ length (socks s1) = length (socks s) /\
  (cur s = Some c -> cur s1 = None /\ evs = [ESockClose c] /\
                     exists k, nth_error (socks s1) c = Some k /\ s_open k = false) /\
  (cur s <> Some c -> cur s1 = cur s /\ evs = [] /\ socks s1 = socks s).
Proof.
  intros s g c s1 evs R P S. simpl in S. rewrite P in S. unfold is_cur in S.
  destruct (cur s) as [d|] eqn:Hc.
  - destruct (Nat.eqb d c) eqn:E.
    + apply Nat.eqb_eq in E. subst d. inversion S; subst; clear S.
      rewrite get_set_same. simpl. rewrite length_modify. repeat split; auto; try discriminate.
      * pose proof (reachable_inv _ R) as (_ & H2 & _). specialize (H2 _ Hc).
        destruct (nth_error (socks s) c) eqn:N; [|apply nth_error_None in N; lia].
        exists (close_sock s0). rewrite nth_error_modify, Nat.eqb_refl, N. auto.
      * congruence.
      * congruence.
      * congruence.
    + apply Nat.eqb_neq in E. inversion S; subst; clear S. rewrite get_set_same. simpl.
      repeat split; auto; try congruence.
  - inversion S; subst; clear S. rewrite get_set_same. simpl. repeat split; auto; try congruence.
Qed.

Lemma open_from_snoc_closed : forall l b x, s_open x = false ->
  open_from b (l ++ [x]) = open_from b l.
Proof.
  induction l as [|h t IH]; simpl; intros b x H.
  - rewrite H. reflexivity.
  - destruct (s_open h); rewrite IH; auto.
Qed.

Definition fault_ret (f : fault) : option retc :=
  match f with FOk => None | FCfgErr => Some TCfgErr | FNewErr => Some TNewErr | FHsErr => Some THsErr end.

(* 3. the next call finds no client: configFunc is evaluated again (exactly once), and on success a
      fresh socket becomes the current client and count+1 is reported *)
Lemma enter_reconnects : forall s g f s1 evs,
  get_pc s g = PStarted -> closed s = false -> cur s = None ->
  step true s (Enter g f) = Some (s1, evs) ->
  ncfg s1 = S (ncfg s) /\ hd_error evs = Some (ECfg (match f with FCfgErr => false | _ => true end)) /\
  match f with
  | FOk => cur s1 = Some (length (socks s)) /\ count s1 = S (count s) /\
           evs = [ECfg true; ENew (length (socks s)); EConnected (S (count s))] /\
           get_pc s1 g = PEntered (length (socks s)) /\ alive s1 (length (socks s)) = true /\
           length (socks s1) = S (length (socks s))
  | _ => cur s1 = None /\ count s1 = count s /\ open_sids s1 = open_sids s /\
         exists t, fault_ret f = Some t /\ get_pc s1 g = PRet t
  end.
Proof.
  intros s g f s1 evs P Hcl Hc S. simpl in S. rewrite P, Hcl, Hc in S.
  unfold reconnect in S. rewrite Hc in S.
  destruct f; simpl in S; inversion S; subst; clear S; rewrite ?get_set_same; simpl;
    repeat split; auto.
  - unfold alive. simpl. rewrite nth_error_snoc, Nat.ltb_irrefl, Nat.eqb_refl. reflexivity.
  - rewrite app_length. simpl. lia.
  - eexists; split; reflexivity.
  - eexists; split; reflexivity.
  - unfold open_sids. simpl. apply open_from_snoc_closed. reflexivity.
  - eexists; split; reflexivity.
Qed.

(* 4. results other than ClosedError change nothing but the caller's pc; a call that finds a client
      never evaluates the config *)
Lemma leave_recoverable : forall s g c r s1 evs,
  get_pc s g = PDone c r -> r <> RClosed -> step true s (Leave g) = Some (s1, evs) ->
  evs = [] /\ get_pc s1 g = PRet (ret_of r) /\ cur s1 = cur s /\ socks s1 = socks s /\
  ncfg s1 = ncfg s /\ nnew s1 = nnew s /\ count s1 = count s /\ closed s1 = closed s.
Proof.
  intros s g c r s1 evs P Hr S. simpl in S. rewrite P in S.
  destruct r; try congruence; inversion S; subst; rewrite get_set_same; simpl; repeat split; auto.
Qed.

Lemma enter_keeps_client : forall s g f c s1 evs,
  cur s = Some c -> step true s (Enter g f) = Some (s1, evs) ->
  evs = [] /\ ncfg s1 = ncfg s /\ nnew s1 = nnew s /\ count s1 = count s /\ socks s1 = socks s /\
  cur s1 = cur s.
Proof.
  intros s g f c s1 evs Hc S. simpl in S. destruct (get_pc s g); try discriminate.
  rewrite Hc in S. destruct (closed s); inversion S; subst; simpl; repeat split; auto.
Qed.

Lemma do_changes_pc_only : forall s g w s1 evs, step true s (Do g w) = Some (s1, evs) ->
  evs = [] /\ cur s1 = cur s /\ socks s1 = socks s /\ ncfg s1 = ncfg s /\ nnew s1 = nnew s /\
  count s1 = count s /\ closed s1 = closed s /\
  exists c, get_pc s g = PEntered c /\ get_pc s1 g = PDone c (classify w).
Proof.
  intros s g w s1 evs S. simpl in S. destruct (get_pc s g) eqn:P; try discriminate.
  match type of S with (if ?b then _ else _) = _ => destruct b end; inversion S; subst.
  simpl. repeat split; auto. exists c. split; auto. apply get_set_same.
Qed.

Lemma stream_limit_recoverable : classify WStreamLimit = RRecov.
Proof. reflexivity. Qed.

(* ------------------------------------------------------------------ statements in the form used by props/C16.v *)

Lemma starts_reachable : forall s0 tr s, starts s0 -> run true s0 tr = Some s -> reachable true s.
Proof. intros. eapply run_reachable; eauto. apply R_start; auto. Qed.

Lemma close_is_final : forall s s1 evs, reachable true s -> step true s Close = Some (s1, evs) ->
  forall tr s2, run true s1 tr = Some s2 ->
  closed s2 = true /\ open_sids s2 = [] /\
  (forall i k, nth_error (socks s2) i = Some k -> s_open k = false /\ 1 <= s_closes k) /\
  ncfg s2 = ncfg s /\ nnew s2 = nnew s /\ count s2 = count s /\ length (socks s2) = length (socks s) /\
  (forall g f s3 e3, step true s2 (Enter g f) = Some (s3, e3) -> e3 = [] /\ get_pc s3 g = PRet TClosed) /\
  (forall g, step true s2 (Do g WOk) = None /\ step true s2 (Do g WStreamLimit) = None).
Proof.
  intros s s1 evs R C tr s2 Run.
  assert (R1 : reachable true s1) by (eapply R_step; eauto).
  pose proof (close_sets_closed _ _ _ C) as C1.
  assert (R2 : reachable true s2) by (eapply run_reachable; eauto).
  destruct (closed_run _ _ _ C1 Run) as (A & B & D & E & F).
  assert (K : ncfg s1 = ncfg s /\ nnew s1 = nnew s /\ count s1 = count s /\ length (socks s1) = length (socks s)).
  { simpl in C. destruct (cur s); inversion C; subst; simpl; rewrite ?length_modify; auto. }
  destruct K as (K1 & K2 & K3 & K4).
  destruct (closed_all_sockets_closed _ R2 A) as (O1 & O2).
  repeat split; try congruence; auto.
  - apply (O2 _ _ H).
  - apply (O2 _ _ H).
  - eapply closed_enter; eauto.
  - eapply closed_enter; eauto.
  - apply closed_no_success; auto.
  - apply closed_no_success; auto.
Qed.

Lemma eager_failure_clean : forall f s evs err, f <> FOk -> reconnect init0 f = (s, evs, err) ->
  err = fault_ret f /\ err <> None /\ open_sids s = [] /\ cur s = None /\ count s = 0.
Proof.
  intros f s evs err Hf R. destruct f; try congruence; vm_compute in R; inversion R; subst;
    repeat split; try reflexivity; discriminate.
Qed.

(* ------------------------------------------------------------------ non-vacuity *)

(* two goroutines hold the same client when it dies: only the first second-section drops and closes
   it, the other one finds rc.client already changed; the next call reconnects with count 2 *)
Definition two_on_dead : list action :=
  [Start 0; Enter 0 FOk; Start 1; Enter 1 FOk; Kill 0; Do 0 WDead; Do 1 WDead;
   Leave 0; Start 2; Enter 2 FOk; Leave 1; Ret 0; Ret 1; Do 2 WOk; Leave 2; Ret 2].

Example two_on_dead_ok :
  exists s, run true init0 two_on_dead = Some s /\ quiescent s = true /\ open_sids s = [1] /\
            cur s = Some 1 /\ count s = 2 /\ ncfg s = 2 /\
            map s_closes (socks s) = [1; 0].
Proof. eexists. split; [vm_compute; reflexivity|]. repeat split. Qed.

(* the same schedule on the behaviour before the fix leaks socket 0 *)
Example two_on_dead_old :
  exists s, run false init0 two_on_dead = Some s /\ open_sids s = [0; 1].
Proof. eexists. split; [vm_compute; reflexivity|]. reflexivity. Qed.

(* the bound 1 + (number of Close calls) on the closes of one socket is reached: Close twice while a
   call is in flight, whose second locked section closes the client a third time *)
Example closes_bound_tight :
  exists s, run true init0 [Start 0; Enter 0 FOk; Close; Close; Do 0 WDead; Leave 0; Ret 0] = Some s /\
            map s_closes (socks s) = [3] /\ nclose s = 2 /\ open_sids s = [].
Proof. eexists. split; [vm_compute; reflexivity|]. repeat split. Qed.

(* failing reconnects of every kind, then success: three config evaluations more, count + 1 *)
Example failing_reconnects :
  exists s, run true init0 [Start 0; Enter 0 FCfgErr; Ret 0; Start 0; Enter 0 FNewErr; Ret 0;
                            Start 0; Enter 0 FHsErr; Ret 0; Start 0; Enter 0 FOk] = Some s /\
            ncfg s = 4 /\ nnew s = 3 /\ count s = 1 /\ open_sids s = [1] /\ map s_closes (socks s) = [1; 0].
Proof. eexists. split; [vm_compute; reflexivity|]. repeat split. Qed.

(* hypotheses of loss_is_observed / leave_closed / enter_reconnects are satisfiable in sequence *)
Example loss_then_reconnect :
  exists s, run true init0 [Start 0; Enter 0 FOk; Do 0 WOk; Leave 0; Ret 0; Kill 0;
                            Start 0; Enter 0 FOk; Do 0 WDead; Leave 0; Ret 0;
                            Start 0; Enter 0 FOk; Do 0 WOk; Leave 0; Ret 0] = Some s /\
            quiescent s = true /\ open_sids s = [1] /\ count s = 2 /\ ncfg s = 2.
Proof. eexists. split; [vm_compute; reflexivity|]. repeat split. Qed.

(* the behaviour before fix 17810d9 (second locked section drops the dead client without closing
   it): after one loss and one reconnect two factory sockets are open at a quiescent point *)
Definition old_witness : list action :=
  [Start 0; Enter 0 FOk; Do 0 WOk; Leave 0; Ret 0; Kill 0;
   Start 0; Enter 0 FOk; Do 0 WDead; Leave 0; Ret 0;
   Start 0; Enter 0 FOk; Do 0 WOk; Leave 0; Ret 0].

Lemma old_refuted :
  exists tr s, run false init0 tr = Some s /\ quiescent s = true /\ open_sids s = [0; 1].
Proof. exists old_witness. eexists. split; [vm_compute; reflexivity|]. split; reflexivity. Qed.
