(* C16 - why Enter (with the whole reconnect()) is one action of the LTS: in the variant that leaves
   rc.m while configFunc runs (model/C16_Split.v) the census and the finality of Close both fail. *)
From Coq Require Import List Arith Bool.
Import ListNotations.
From Hy Require Import gen.ParamsC16 model.C16_Reconnect model.C16_Split.

(* a second caller arrives while the first one evaluates the config: both build a connection, the
   later assignment overwrites the earlier client without closing it *)
Definition split_witness_two : list action2 :=
  [Old (Start 0); CfgBegin 0; Old (Start 1); CfgBegin 1;
   Build 1 FOk; Old (Do 1 WOk); Old (Leave 1); Old (Ret 1);
   Build 0 FOk; Old (Do 0 WOk); Old (Leave 0); Old (Ret 0)].

(* Close arrives while the first caller evaluates the config: a connection is built after Close *)
Definition split_witness_close : list action2 :=
  [Old (Start 0); CfgBegin 0; Old Close;
   Build 0 FOk; Old (Do 0 WOk); Old (Leave 0); Old (Ret 0)].

Lemma split_refuted :
  (exists s, run2 init2 split_witness_two = Some s /\ incfg s = [] /\ quiescent (base s) = true /\
             open_sids (base s) = [0; 1] /\ count (base s) = 2 /\ nclose (base s) = 0) /\
  (exists s, run2 init2 split_witness_close = Some s /\ incfg s = [] /\ quiescent (base s) = true /\
             closed (base s) = true /\ open_sids (base s) = [0] /\ nnew (base s) = 1).
Proof.
  split; eexists; (split; [vm_compute; reflexivity|]); repeat split.
Qed.
