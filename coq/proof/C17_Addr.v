(* C17 proofs, part 4: net.SplitHostPort (net.JoinHostPort h p) = (h, p); the port component survives the rewrite. *)
From Hy Require Import model.C17_Sniff proof.C17_Sniff.
From Coq Require Import ZArith Lia ZifyBool ZifyNat ZifyN.
Local Open Scope N_scope.

(* ---------- SplitHostPort (JoinHostPort h p) = (h, p) ---------- *)
Lemma idx_app_r c : forall a b, index_byte c a = None ->
  index_byte c (a ++ b) = match index_byte c b with Some j => Some (length a + j)%nat | None => None end.
Proof.
  induction a as [|x t IH]; intros b H; cbn in *.
  - destruct (index_byte c b); reflexivity.
  - destruct (Byte.eqb x c); [discriminate|].
    destruct (index_byte c t) eqn:E; [discriminate|]. rewrite (IH b eq_refl).
    destruct (index_byte c b); reflexivity.
Qed.

Lemma idx_cons_ne c x l : Byte.eqb x c = false ->
  index_byte c (x :: l) = match index_byte c l with Some j => Some (S j) | None => None end.
Proof. intros H. cbn. rewrite H. reflexivity. Qed.

Lemma last_none c : forall l, index_byte c l = None -> last_index_byte c l = None.
Proof.
  induction l as [|x t IH]; intros H; cbn in *; [reflexivity|].
  destruct (Byte.eqb x c); [discriminate|].
  destruct (index_byte c t); [discriminate|]. rewrite IH; reflexivity.
Qed.

Lemma last_app c : forall a b, index_byte c b = None -> last_index_byte c (a ++ c :: b) = Some (length a).
Proof.
  induction a as [|x t IH]; intros b H; cbn.
  - rewrite (last_none _ _ H). assert (E : Byte.eqb c c = true) by (apply Byte.byte_dec_lb; reflexivity).
    rewrite E. reflexivity.
  - rewrite (IH b H). reflexivity.
Qed.

Lemma idx_skipn_none c : forall n l, index_byte c l = None -> index_byte c (skipn n l) = None.
Proof.
  induction n as [|n IH]; intros l H; [exact H|].
  destruct l as [|x t]; [reflexivity|]. cbn in H. destruct (Byte.eqb x c); [discriminate|].
  destruct (index_byte c t) eqn:E; [discriminate|]. cbn. apply IH. exact E.
Qed.

Lemma last_tail_none c : forall l i, last_index_byte c l = Some i -> index_byte c (skipn (i + 1) l) = None.
Proof.
  induction l as [|x t IH]; intros i H; cbn in H; [discriminate|].
  destruct (last_index_byte c t) as [j|] eqn:E.
  - inversion H; subst. cbn. apply IH. reflexivity.
  - destruct (Byte.eqb x c); [|discriminate]. inversion H; subst. cbn.
    clear -E. induction t as [|y t' IHt]; [reflexivity|]. cbn in *.
    destruct (last_index_byte c t') eqn:E'; [discriminate|].
    destruct (Byte.eqb y c); [discriminate|]. rewrite IHt; reflexivity.
Qed.

Lemma skipn_skipn' {A} : forall m n (l : list A), skipn n (skipn m l) = skipn (m + n) l.
Proof.
  induction m as [|m IH]; intros n l; [reflexivity|].
  destruct l as [|x t]; [cbn; destruct n; reflexivity|]. cbn [skipn Nat.add]. apply IH.
Qed.

Definition no_byte (c : byte) (l : list byte) : Prop := index_byte c l = None.
Definition port_clean (p : list byte) : Prop :=
  no_byte ch_colon p /\ no_byte ch_lbr p /\ no_byte ch_rbr p.

Lemma has_false c l : has_byte c l = false <-> no_byte c l.
Proof. unfold has_byte, no_byte. destruct (index_byte c l); split; intros; congruence. Qed.

(* the port SplitHostPort returns contains no colon and no bracket *)
Lemma split_port_clean a h p : split_host_port a = Some (h, p) -> port_clean p.
Proof.
  unfold split_host_port. destruct (last_index_byte ch_colon a) as [i|] eqn:Hi; [|discriminate].
  pose proof (last_tail_none _ _ _ Hi) as Hc.
  destruct a as [|c0 t]; [discriminate|].
  destruct (Byte.eqb c0 ch_lbr).
  - destruct (index_byte ch_rbr (c0 :: t)) as [e|]; [|discriminate].
    destruct (Nat.eqb (e + 1) (length (c0 :: t))); [discriminate|].
    destruct (Nat.eqb (e + 1) i) eqn:Ei; [|discriminate]. apply Nat.eqb_eq in Ei.
    destruct (has_byte ch_lbr (skipn 1 (c0 :: t))) eqn:H1; [discriminate|].
    destruct (has_byte ch_rbr (skipn (e + 1) (c0 :: t))) eqn:H2; [discriminate|].
    intros H. inversion H; subst. apply has_false in H1. apply has_false in H2.
    repeat split; auto.
    + unfold no_byte. replace (e + 1 + 1)%nat with (S (e + 1)) by lia.
      change (skipn (S (e + 1)) (c0 :: t)) with (skipn (e + 1) (skipn 1 (c0 :: t))).
      apply idx_skipn_none. exact H1.
    + unfold no_byte. rewrite <- (skipn_skipn' (e + 1) 1). apply idx_skipn_none. exact H2.
  - destruct (has_byte ch_colon (firstn i (c0 :: t))); [discriminate|].
    destruct (has_byte ch_lbr (c0 :: t)) eqn:H1; [discriminate|].
    destruct (has_byte ch_rbr (c0 :: t)) eqn:H2; [discriminate|].
    intros H. inversion H; subst. apply has_false in H1. apply has_false in H2.
    repeat split; auto; apply idx_skipn_none; assumption.
Qed.

Lemma no_app c a b : no_byte c a -> no_byte c b -> no_byte c (a ++ b).
Proof. unfold no_byte. intros Ha Hb. rewrite (idx_app_r c a b Ha), Hb. reflexivity. Qed.

Lemma no_cons c x l : Byte.eqb x c = false -> no_byte c l -> no_byte c (x :: l).
Proof. unfold no_byte. intros Hx Hl. cbn. rewrite Hx, Hl. reflexivity. Qed.

Lemma split_join h p : no_byte ch_lbr h -> no_byte ch_rbr h -> port_clean p ->
  split_host_port (join_host_port h p) = Some (h, p).
Proof.
  intros Hl Hr (Pc & Pl & Pr). unfold join_host_port.
  destruct (has_byte ch_colon h) eqn:Hc.
  - (* [h]:p *)
    change ([ch_lbr] ++ h ++ [ch_rbr; ch_colon] ++ p) with (ch_lbr :: h ++ ch_rbr :: ch_colon :: p).
    set (J := ch_lbr :: h ++ ch_rbr :: ch_colon :: p).
    assert (Hlast : last_index_byte ch_colon J = Some (length h + 2)%nat).
    { unfold J. replace (ch_lbr :: h ++ ch_rbr :: ch_colon :: p) with ((ch_lbr :: h ++ [ch_rbr]) ++ ch_colon :: p)
        by (cbn; rewrite <- app_assoc; reflexivity).
      rewrite (last_app _ _ _ Pc). cbn. rewrite app_length. cbn. f_equal. lia. }
    unfold split_host_port. rewrite Hlast. unfold J at 1.
    assert (E0 : Byte.eqb ch_lbr ch_lbr = true) by reflexivity. rewrite E0. fold J.
    assert (Hidx : index_byte ch_rbr J = Some (length h + 1)%nat).
    { unfold J. rewrite idx_cons_ne by reflexivity. rewrite (idx_app_r _ _ _ Hr). cbn. f_equal. lia. }
    rewrite Hidx.
    assert (Hlen : length J = (length h + 3 + length p)%nat).
    { unfold J. cbn. rewrite app_length. cbn. lia. }
    rewrite Hlen.
    assert (E1 : Nat.eqb (length h + 1 + 1) (length h + 3 + length p) = false) by (apply Nat.eqb_neq; lia).
    assert (E2 : Nat.eqb (length h + 1 + 1) (length h + 2) = true) by (apply Nat.eqb_eq; lia).
    rewrite E1, E2.
    assert (H1 : has_byte ch_lbr (skipn 1 J) = false).
    { apply has_false. unfold J. cbn [skipn]. apply no_app; [exact Hl|].
      apply no_cons; [reflexivity|]. apply no_cons; [reflexivity|]. exact Pl. }
    rewrite H1.
    assert (Hsk : skipn (length h + 1) J = ch_rbr :: ch_colon :: p).
    { unfold J. replace (length h + 1)%nat with (S (length h)) by lia. cbn [skipn].
      rewrite skipn_app, skipn_all, Nat.sub_diag. reflexivity. }
    assert (H2 : has_byte ch_rbr (skipn (length h + 1 + 1) J) = false).
    { apply has_false. rewrite <- (skipn_skipn' (length h + 1) 1), Hsk. cbn [skipn].
      apply no_cons; [reflexivity|]. exact Pr. }
    rewrite H2. f_equal. f_equal.
    + unfold J. cbn [skipn]. replace (length h + 1 - 1)%nat with (length h) by lia.
      rewrite firstn_app, firstn_all, Nat.sub_diag. cbn. apply app_nil_r.
    + replace (length h + 2 + 1)%nat with ((length h + 1) + 2)%nat by lia.
      rewrite <- (skipn_skipn' (length h + 1) 2), Hsk. reflexivity.
  - (* h:p *)
    apply has_false in Hc.
    assert (Hlast : last_index_byte ch_colon (h ++ [ch_colon] ++ p) = Some (length h)).
    { cbn [app]. apply last_app. exact Pc. }
    unfold split_host_port. rewrite Hlast.
    destruct (h ++ [ch_colon] ++ p) as [|c0 t] eqn:Hj.
    { destruct h; discriminate. }
    assert (Hc0 : Byte.eqb c0 ch_lbr = false).
    { destruct h as [|x h']; cbn in Hj; inversion Hj; subst; [reflexivity|].
      unfold no_byte in Hl. cbn in Hl. destruct (Byte.eqb c0 ch_lbr); [discriminate|reflexivity]. }
    rewrite Hc0, <- Hj.
    assert (Hf : firstn (length h) (h ++ [ch_colon] ++ p) = h).
    { rewrite firstn_app, firstn_all, Nat.sub_diag. cbn. apply app_nil_r. }
    rewrite Hf.
    assert (H0 : has_byte ch_colon h = false) by (apply has_false; exact Hc). rewrite H0.
    assert (H1 : has_byte ch_lbr (h ++ [ch_colon] ++ p) = false).
    { apply has_false. apply no_app; [exact Hl|]. apply no_cons; [reflexivity|exact Pl]. }
    assert (H2 : has_byte ch_rbr (h ++ [ch_colon] ++ p) = false).
    { apply has_false. apply no_app; [exact Hr|]. apply no_cons; [reflexivity|exact Pr]. }
    rewrite H1, H2. f_equal. f_equal.
    replace (length h + 1)%nat with (length h + 1)%nat by lia.
    rewrite skipn_app. replace (length h + 1 - length h)%nat with 1%nat by lia.
    rewrite skipn_all2 by lia. reflexivity.
Qed.

(* the port component survives the rewrite: whenever the sniffed name has no bracket in it,
   SplitHostPort of the new address gives exactly (name, old port) *)
Lemma tcp_port_unchanged fuel consumer sni dl_fail s addr o ho p :
  sniff_tcp fuel consumer sni dl_fail s addr = Ok o ->
  split_host_port addr = Some (ho, p) ->
  o_addr o = addr \/
  exists h, o_addr o = join_host_port h p /\
    (has_byte ch_lbr h = false -> has_byte ch_rbr h = false -> split_host_port (o_addr o) = Some (h, p)).
Proof.
  intros H Hs. destruct (tcp_rewrite_only_host _ _ _ _ _ _ _ H) as [E|(h & ho' & p' & Hs' & Ha & _)]; auto.
  rewrite Hs in Hs'. inversion Hs'; subst. right. exists h. split; auto.
  intros Hl Hr. rewrite Ha. apply split_join; [apply has_false; exact Hl|apply has_false; exact Hr|].
  eapply split_port_clean; eauto.
Qed.
