(* C17 proofs, part 4: what assembleCryptoFrames returns consists of bytes that are present in the frames.
   Several frames are only ever assembled when, sorted by offset, each one starts exactly where the one before
   ends; the result then is the frames' data in offset order behind (offset of the lowest frame) zero bytes -
   no zero-filled hole between two frames. *)
From Hy Require Import model.C17_Sniff model.C17_Assemble proof.C17_Sniff proof.C17_Quic.
From Coq Require Import ZArith Lia ZifyBool ZifyNat ZifyN List Permutation.
Import ListNotations.

Lemma contiguous_chain : forall l prev, contiguous prev l = true -> chain (frame_end prev) l.
Proof.
  induction l as [|f t IH]; intros prev H; cbn [chain]; [exact I|].
  cbn [contiguous] in H. apply andb_true_iff in H. destruct H as [H1 H2].
  apply Z.eqb_eq in H1. split; [exact H1|].
  specialize (IH f H2). unfold frame_end in IH at 1. rewrite <- H1. exact IH.
Qed.

Lemma chain_last_end : forall l prev o, frame_end prev = o -> chain o l ->
  frame_end (last l prev) = (o + Z.of_nat (length (frames_data l)))%Z.
Proof.
  induction l as [|f t IH]; intros prev o Hp Hc.
  - cbn. lia.
  - cbn [chain] in Hc. destruct Hc as [Hf Ht].
    rewrite last_cons_default.
    rewrite (IH f (o + Z.of_nat (length (snd f)))%Z); [|unfold frame_end; lia|exact Ht].
    unfold frames_data. cbn [map concat]. rewrite app_length. fold (frames_data t). lia.
Qed.

Lemma copy_at_append : forall site pre src z,
  copy_at site (Z.of_nat (length pre)) src (pre ++ repeat x00 (length src + z)) = Ok (pre ++ src ++ repeat x00 z).
Proof.
  intros site pre src z. unfold copy_at.
  assert (Hl : length (pre ++ repeat x00 (length src + z)) = (length pre + (length src + z))%nat)
    by (rewrite app_length, repeat_length; reflexivity).
  destruct ((Z.of_nat (length pre) <? 0)%Z || (Z.of_nat (length (pre ++ repeat x00 (length src + z))) <? Z.of_nat (length pre))%Z) eqn:E.
  { apply orb_true_iff in E. destruct E as [E|E]; apply Z.ltb_lt in E; lia. }
  rewrite Nat2Z.id, Hl.
  replace (Nat.min (length src) (length pre + (length src + z) - length pre)) with (length src) by lia.
  f_equal.
  rewrite firstn_app, firstn_all, Nat.sub_diag, firstn_O, app_nil_r.
  rewrite firstn_all. f_equal. f_equal.
  rewrite skipn_app.
  replace (skipn (length pre + length src) pre) with (@nil byte) by (symmetry; apply skipn_all2; lia).
  replace (length pre + length src - length pre)%nat with (length src) by lia.
  rewrite repeat_app, skipn_app, repeat_length, Nat.sub_diag, skipn_O.
  rewrite skipn_all2 by (rewrite repeat_length; lia). reflexivity.
Qed.

Lemma copy_all_chain : forall fs pre, chain (Z.of_nat (length pre)) fs ->
  copy_all fs (pre ++ repeat x00 (length (frames_data fs))) = Ok (pre ++ frames_data fs).
Proof.
  induction fs as [|f t IH]; intros pre Hc.
  - cbn. reflexivity.
  - cbn [chain] in Hc. destruct Hc as [Hf Ht]. cbn [copy_all].
    unfold frames_data. cbn [map concat]. fold (frames_data t). rewrite app_length.
    rewrite Hf, copy_at_append. cbn [bind].
    rewrite app_assoc. rewrite (IH (pre ++ snd f)).
    + rewrite <- app_assoc. reflexivity.
    + rewrite app_length, Nat2Z.inj_add. exact Ht.
Qed.

Lemma copy_all_first_nonneg : forall f t data d, copy_all (f :: t) data = Ok d -> (0 <= fst f)%Z.
Proof.
  intros f t data d H. cbn [copy_all] in H. unfold copy_at in H.
  destruct ((fst f <? 0)%Z || (Z.of_nat (length data) <? fst f)%Z) eqn:E; [cbn in H; discriminate|].
  apply orb_false_iff in E. destruct E as [E _]. apply Z.ltb_ge in E. exact E.
Qed.

Section AssembleContent.
  Variable sort_frames : list (Z * list byte) -> list (Z * list byte).

  Lemma assemble_content frames d : assemble sort_frames frames = Ok (Some d) ->
    (exists f, frames = [f] /\ d = snd f) \/
    (exists f0 rest, (2 <= length frames)%nat /\ sort_frames frames = f0 :: rest /\
       (0 <= fst f0)%Z /\ chain (fst f0) (f0 :: rest) /\
       d = repeat x00 (Z.to_nat (fst f0)) ++ frames_data (f0 :: rest)).
  Proof.
    intros H. unfold assemble in H.
    destruct frames as [|f1 [|f2 r]]; [discriminate| left; exists f1; split; [reflexivity|congruence] |].
    right. set (fr := f1 :: f2 :: r) in *.
    destruct (sort_frames fr) as [|f0 rest] eqn:Hs; [discriminate|].
    destruct (contiguous f0 rest) eqn:Hc; [|discriminate]. cbn [negb] in H.
    set (lf := last (f0 :: rest) f0) in *.
    destruct (fst lf <? 0)%Z; [discriminate|].
    destruct (maxCryptoPayloadLen <? fst lf)%Z; [discriminate|].
    destruct ((frame_end lf <? 0)%Z || (maxCryptoPayloadLen <? frame_end lf)%Z); [discriminate|].
    destruct (frame_end lf <? 0)%Z; [discriminate|].
    destruct (copy_all (f0 :: rest) (repeat x00 (Z.to_nat (frame_end lf)))) as [d'| |] eqn:Hd; cbn [bind] in H; try discriminate.
    injection H as <-.
    pose proof (copy_all_first_nonneg _ _ _ _ Hd) as H0.
    assert (Hch : chain (fst f0) (f0 :: rest)).
    { cbn [chain]. split; [reflexivity|]. apply (contiguous_chain _ _ Hc). }
    assert (He : frame_end lf = (fst f0 + Z.of_nat (length (frames_data (f0 :: rest))))%Z).
    { unfold lf. rewrite last_cons_default.
      rewrite (chain_last_end rest f0 (frame_end f0) eq_refl (contiguous_chain _ _ Hc)).
      unfold frames_data. cbn [map concat]. rewrite app_length. unfold frame_end. lia. }
    exists f0, rest.
    split; [cbn; lia|]. split; [reflexivity|]. split; [exact H0|]. split; [exact Hch|].
    rewrite He in Hd.
    rewrite Z2Nat.inj_add, Nat2Z.id, repeat_app in Hd by lia.
    rewrite copy_all_chain in Hd.
    - congruence.
    - rewrite repeat_length, Z2Nat.id by lia. exact Hch.
  Qed.
End AssembleContent.
