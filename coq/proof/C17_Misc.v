(* C17 proofs, part 3: Sniffer.Check, the executable sort, refuted statements about the old code, non-vacuity examples. *)
From Hy Require Import model.C17_Sniff proof.C17_Sniff proof.C17_Quic.
From Coq Require Import ZArith Lia ZifyBool ZifyNat ZifyN Permutation.
Local Open Scope N_scope.

(* ---------- Sniffer.Check ---------- *)
Lemma check_filter is_ip atoi rw tcp udp isudp addr :
  sniff_check is_ip atoi rw tcp udp isudp addr = true <->
  exists host port n,
    (forall t, addr <> ch_at :: t) /\
    split_host_port addr = Some (host, port) /\
    (rw = true \/ is_ip host = true) /\
    atoi port = Some n /\
    match (if isudp then udp else tcp) with
    | None => True
    | Some u => port_contains u (Z.to_N (n mod 65536)%Z) = true
    end.
Proof.
  unfold sniff_check. split.
  - destruct addr as [|c t]; [discriminate|].
    destruct (Byte.eqb c ch_at) eqn:Ec; [discriminate|].
    destruct (split_host_port (c :: t)) as [[host port]|] eqn:Es; [|discriminate].
    destruct (negb rw && negb (is_ip host)) eqn:Ed; [discriminate|].
    destruct (atoi port) as [n|] eqn:Ea; [|discriminate].
    intros H. exists host, port, n.
    split; [intros t' E; inversion E; subst; vm_compute in Ec; discriminate|].
    split; [reflexivity|].
    split; [destruct rw; auto; destruct (is_ip host); auto; discriminate|].
    split; [exact Ea|].
    destruct (if isudp then udp else tcp); auto.
  - intros (host & port & n & Hat & Hs & Hd & Ha & Hp).
    destruct addr as [|c t]; [vm_compute in Hs; discriminate|].
    destruct (Byte.eqb c ch_at) eqn:Ec.
    { apply Byte.byte_dec_bl in Ec. subst. exfalso. eapply Hat; reflexivity. }
    rewrite Hs, Ha.
    assert (Ed : negb rw && negb (is_ip host) = false).
    { destruct Hd as [->| ->]; [reflexivity|]. apply andb_false_r. }
    rewrite Ed. destruct (if isudp then udp else tcp); auto.
Qed.

(* ---------- the executable sort is a permutation (so the hypothesis of the never-panics
   theorems is satisfiable, and satisfied by the model the correspondence check runs) ---------- *)
Lemma insert_frame_perm f : forall l, Permutation (insert_frame f l) (f :: l).
Proof.
  induction l as [|g t IH]; cbn; [reflexivity|].
  destruct (fst f <? fst g)%Z; [reflexivity|].
  rewrite IH. apply perm_swap.
Qed.

Lemma isort_frames_perm l : Permutation (isort_frames l) l.
Proof.
  unfold isort_frames.
  assert (H : forall l acc, Permutation (fold_left (fun acc f => insert_frame f acc) l acc) (l ++ acc)).
  { induction l0 as [|x t IH]; intros acc; cbn [fold_left]; [reflexivity|].
    rewrite IH, insert_frame_perm. cbn. symmetry. apply Permutation_middle. }
  rewrite H, app_nil_r. reflexivity.
Qed.

(* ---------- the two repaired defects, kept as refuted statements about the old code ---------- *)
Definition old_witness : list byte :=
  [xc0; x00; x00; x00; x01; x00; x00; x00; x19] ++ repeat xaa 25.

Lemma udp_in_place_refuted :
  exists hp aead sni sortf data addr o,
    sniff_udp hp aead sni sortf false true [data] 0 addr = Ok o /\ heap_get (u_heap o) 0 <> data.
Proof.
  exists (fun _ _ _ => repeat xff 16), (fun _ _ _ ct _ => (false, repeat x00 (length ct - 16))),
         (fun _ => None), isort_frames, old_witness, [].
  eexists. split; [vm_compute; reflexivity|]. vm_compute. discriminate.
Qed.

Lemma unprotect_legacy_check_refuted :
  exists hp aead sortf data,
    is_panic (read_crypto_payload hp aead sortf true false [data] 0) = true.
Proof.
  exists (fun _ _ _ => repeat xff 16), (fun _ _ _ ct _ => (false, repeat x00 (length ct - 16))),
         isort_frames, [x40; x00; x00; x00; x01; x00; x00; x00; x01; xaa].
  vm_compute. reflexivity.
Qed.

(* teeReader.Buffer() is append(Pre, buf...): a consumer whose first read asks for fewer than 3
   bytes and that then stops gets the probe bytes back out of order *)
Lemma tcp_small_first_read_refuted :
  exists consumer sni s addr o,
    sniff_tcp 2 consumer sni false s addr = Ok o /\ o_err o = false /\
    o_replay o ++ c17_unread (o_rest o) <> c17_unread s.
Proof.
  exists (fun hist => match hist with [] => CRead 1 | _ => CStop None end), (fun _ => None),
         [Ev [x47; x45; x54; x20; x2f] None], [].
  eexists. split; [vm_compute; reflexivity|]. split; [reflexivity|]. vm_compute. discriminate.
Qed.

(* ---------- non-vacuity ---------- *)
(* a TLS record declared 300 bytes long of which 120 arrive before the deadline fires, the rest
   afterwards: 125 bytes are handed back, 180 stay on the stream, the address is untouched *)
Definition ex_script : c17_script :=
  [Ev ([x16; x03; x01; x01; x2c] ++ repeat x41 120) (Some STimeout); Ev (repeat x42 180) None].

Example ex_tls_partial :
  forall fuel consumer sni,
  exists o, sniff_tcp fuel consumer sni false ex_script [x61; x3a; x31] = Ok o /\
    length (o_replay o) = 125%nat /\ length (c17_unread (o_rest o)) = 180%nat /\
    o_replay o ++ c17_unread (o_rest o) = c17_unread ex_script /\ o_addr o = [x61; x3a; x31].
Proof. intros. eexists. split; [vm_compute; reflexivity|]. vm_compute. repeat split. Qed.

(* a complete record whose ClientHello names a server: the host is rewritten, the port kept *)
Example ex_tls_rewrite :
  exists o, sniff_tcp 0 (fun _ => CStop None) (fun _ => Some [x68]) false
              [Ev [x16; x03; x01; x00; x02; x01] None; Ev [] None; Ev [x00; x99] None]
              [x31; x2e; x32; x2e; x33; x2e; x34; x3a; x34; x34; x33] = Ok o /\
    o_addr o = [x68; x3a; x34; x34; x33] /\ o_replay o = [x16; x03; x01; x00; x02; x01; x00] /\
    c17_unread (o_rest o) = [x99].
Proof. eexists. split; [vm_compute; reflexivity|]. vm_compute. repeat split. Qed.

Example ex_check :
  sniff_check (fun _ => true) (fun _ => Some 65616%Z) false (Some [(80, 80)]) None false
              [x31; x3a; x38; x30] = true.
Proof. reflexivity. Qed.

(* ---------- statements in the exact form props/C17.v uses ---------- *)
Lemma unprotect_never_panics : forall hp aead,
  (forall v d s, (5 <= length (hp v d s))%nat) ->
  (forall v d pn ct ad, (length (snd (aead v d pn ct ad)) <= length ct)%nat) ->
  forall ver dcid h b n off pnMax,
  is_panic (unprotect hp aead false ver dcid h b n off pnMax) = false.
Proof. intros hp aead H1 H2 ver dcid h b n off pnMax. eapply unprotect_np; eauto. Qed.

Lemma extract_frames_never_panics : forall r,
  match extract_frames (length r) r [] with
  | Ok frs => Forall (fun f => (0 <= fst f)%Z) frs
  | Err e => e <> EOther
  | Panic _ => False
  end.
Proof. intros r. exact (extract_frames_ok (length r) r [] (le_n _) (Forall_nil _)). Qed.

Lemma assemble_never_panics : forall sortf, (forall l, Permutation (sortf l) l) ->
  forall frames, Forall (fun f => (0 <= fst f)%Z) frames ->
  is_panic (assemble sortf frames) = false.
Proof. intros sortf H frames Hf. eapply assemble_np; eauto. Qed.

Lemma udp_never_panics : forall hp aead sni sortf,
  (forall v d s, (5 <= length (hp v d s))%nat) ->
  (forall v d pn ct ad, (length (snd (aead v d pn ct ad)) <= length ct)%nat) ->
  (forall l, Permutation (sortf l) l) ->
  forall h b addr,
  is_panic (read_crypto_payload hp aead sortf false false h b) = false /\
  is_panic (sniff_udp hp aead sni sortf false false h b addr) = false.
Proof.
  intros hp aead sni sortf H1 H2 H3 h b addr. split.
  - eapply read_crypto_payload_np; eauto.
  - eapply sniff_udp_np; eauto.
Qed.

Lemma parse_header_never_panics : forall data,
  is_panic (parse_long_header data) = false /\ is_panic (parse_initial_header data) = false.
Proof. intros data. split; [apply parse_long_header_np|apply parse_initial_header_np]. Qed.
