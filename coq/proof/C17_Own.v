(* C17 - ownership of the replay bytes: proofs. *)
From Hy Require Import lib.Bytes lib.Res model.C17_Sniff model.C17_Own proof.C17_Sniff.
From Coq Require Import List Lia Arith.
Import ListNotations.

Lemma heap_get_alloc_old : forall h v c, (c < length h)%nat -> heap_get (h ++ [v]) c = heap_get h c.
Proof. intros h v c H. unfold heap_get. apply app_nth1. exact H. Qed.

Lemma heap_get_alloc_new : forall h v, heap_get (h ++ [v]) (length h) = v.
Proof. intros h v. unfold heap_get. rewrite app_nth2 by lia. rewrite Nat.sub_diag. reflexivity. Qed.

(* what the server holds for every sniffed stream is a cell with exactly that stream's replay *)
Definition own_inv (replay_of : nat -> list byte) (st : own_st) : Prop :=
  Forall (fun x => let '(i, (c, n)) := x in
            (c < length (ow_heap st))%nat /\ heap_get (ow_heap st) c = replay_of i /\ n = length (replay_of i))
         (ow_slices st).

Lemma own_inv_step : forall replay_of st e,
  own_inv replay_of st -> own_inv replay_of (fst (own_step replay_of false st e)).
Proof.
  intros replay_of st e I. destruct e as [i|i]; cbn [own_step].
  - unfold heap_alloc. cbn [fst ow_heap ow_slices]. unfold own_inv in *. cbn [ow_heap ow_slices]. constructor.
    + rewrite app_length. cbn [length]. split; [lia|]. split; [apply heap_get_alloc_new|reflexivity].
    + eapply Forall_impl; [|exact I]. intros [j [c n]] (H1 & H2 & H3). rewrite app_length. cbn [length].
      split; [lia|]. split; [rewrite heap_get_alloc_old by exact H1; exact H2|exact H3].
  - destruct (own_lookup i (ow_slices st)) as [[c n]|]; exact I.
Qed.

Lemma own_lookup_inv : forall replay_of st i c n,
  own_inv replay_of st -> own_lookup i (ow_slices st) = Some (c, n) ->
  firstn n (heap_get (ow_heap st) c) = replay_of i.
Proof.
  intros replay_of st i c n I L. unfold own_lookup in L.
  destruct (find (fun x => Nat.eqb (fst x) i) (ow_slices st)) as [[j [c' n']]|] eqn:F; [|discriminate].
  injection L as -> ->. apply find_some in F. destruct F as [Hin Hj]. cbn [fst] in Hj. apply Nat.eqb_eq in Hj. subst j.
  unfold own_inv in I. rewrite Forall_forall in I. specialize (I _ Hin). cbn in I. destruct I as (_ & H2 & H3).
  rewrite H2, H3. apply firstn_all.
Qed.

Lemma own_run_fresh : forall replay_of evs st i b,
  own_inv replay_of st -> In (i, b) (own_run replay_of false st evs) -> b = replay_of i.
Proof.
  intros replay_of evs. induction evs as [|e t IH]; intros st i b I H; [destruct H|].
  cbn [own_run] in H. pose proof (own_inv_step replay_of st e I) as I'.
  destruct (own_step replay_of false st e) as [st' w] eqn:E. cbn [fst] in I'.
  destruct w as [[j b']|].
  - destruct H as [H|H]; [|eapply IH; eauto].
    injection H as -> ->. destruct e as [k|k]; cbn [own_step] in E.
    + unfold heap_alloc in E. discriminate.
    + destruct (own_lookup k (ow_slices st)) as [[c n]|] eqn:L; [|discriminate].
      injection E as <- <- <-. eapply own_lookup_inv; eauto.
  - eapply IH; eauto.
Qed.

Lemma own_init_inv : forall replay_of, own_inv replay_of own_init.
Proof. intros. constructor. Qed.

(* the code as it is: whatever the server's history, what a target is sent is its own stream's replay *)
Lemma replay_stable : forall replay_of evs i b,
  In (i, b) (own_run replay_of false own_init evs) -> b = replay_of i.
Proof. intros. eapply own_run_fresh; eauto using own_init_inv. Qed.

(* end to end with tcp_transparent: every stream i is some Sniffer.TCP call *)
Lemma replay_stable_transparent :
  forall (fuel : nat -> nat) (consumer : nat -> c17_consumer) (sni : nat -> list byte -> option (list byte))
         (dl_fail : nat -> bool) (s : nat -> c17_script) (addr : nat -> list byte) (o : nat -> tcp_out) evs i b,
  (forall j, first_read_big (consumer j)) ->
  (forall j, sniff_tcp (fuel j) (consumer j) (sni j) (dl_fail j) (s j) (addr j) = Ok (o j)) ->
  In (i, b) (own_run (fun j => o_replay (o j)) false own_init evs) ->
  o_err (o i) = false ->
  b ++ c17_unread (o_rest (o i)) = c17_unread (s i).
Proof.
  intros fuel consumer sni dl_fail s addr o evs i b Hc Hs Hin He.
  apply replay_stable in Hin. subst b.
  destruct (tcp_transparent _ _ _ _ _ _ _ (Hc i) (Hs i)) as [T _]. exact (T He).
Qed.

(* the pooled variant: A sniffed, B sniffed, A's replay written - the target of A receives B's bytes *)
Lemma pooled_refuted :
  exists replay_of evs i b, In (i, b) (own_run replay_of true own_init evs) /\ b <> replay_of i.
Proof.
  exists (fun i => match i with O => [x16; x03; x01] | _ => [x47; x45; x54; x20] end).
  exists [OSniff 0; OSniff 1; OWrite 0]. exists 0%nat. exists [x47; x45; x54].
  split; [vm_compute; left; reflexivity|discriminate].
Qed.
