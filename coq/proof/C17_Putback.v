(* C17 - proofs about the hooked path of handleTCPRequest (model/C17_Putback.v) over C06's relay LTS *)
From Hy Require Import lib.Bytes gen.ParamsC06 model.C06_Relay proof.C06_Relay model.C17_Putback.
From Coq Require Import List NArith ZArith Bool Lia ZifyBool ZifyNat ZifyN.
Import ListNotations.
Local Open Scope N_scope.

(* ------------------------------------------------------------------ traces on snoc *)
Lemma hexec_app s l1 l2 :
  hexec s (l1 ++ l2) = match hexec s l1 with Some q => hexec q l2 | None => None end.
Proof. revert s; induction l1 as [|a l1 IH]; intros s; cbn; auto. destruct (hstep s a); auto. Qed.
Lemma hexec_snoc s l a q :
  hexec s (l ++ [a]) = Some q -> exists s', hexec s l = Some s' /\ hstep s' a = Some q.
Proof.
  rewrite hexec_app. destruct (hexec s l) as [s'|]; [|discriminate]. cbn.
  destruct (hstep s' a) as [q'|] eqn:E; [|discriminate]. intros [= <-]. eauto.
Qed.

Lemma hrel_snoc tr a : hrel (tr ++ [a]) = hrel tr ++ match a with HARel x => [x] | _ => [] end.
Proof. unfold hrel. rewrite flat_map_app. cbn. rewrite app_nil_r. auto. Qed.
Lemma hooks_snoc tr a : hooks (tr ++ [a]) = hooks tr ++ match a with HAHook (Some p) => [p] | _ => [] end.
Proof. unfold hooks. rewrite flat_map_app. cbn. rewrite app_nil_r. auto. Qed.
Lemma hputw_snoc tr a : hputw (tr ++ [a]) = hputw tr ++ match a with HAPutWrite c nw _ => wrote c nw | _ => [] end.
Proof. unfold hputw. rewrite flat_map_app. cbn. rewrite app_nil_r. auto. Qed.
Lemma htarget_snoc tr a :
  htarget (tr ++ [a]) = htarget tr ++ match a with
                                      | HAPutWrite c nw _ => wrote c nw
                                      | HARel (ALoop Up (LWrite c nw _)) => wrote c nw
                                      | _ => []
                                      end.
Proof. unfold htarget. rewrite flat_map_app. cbn. rewrite app_nil_r. auto. Qed.

Lemma snkb_up_snoc l x :
  snkb Up (l ++ [x]) = snkb Up l ++ match x with ALoop Up (LWrite c nw _) => wrote c nw | _ => [] end.
Proof.
  unfold snkb. rewrite proj_snoc. destruct x as [| | |d y| | | |]; cbn; rewrite ?app_nil_r; auto.
  destruct d; cbn; rewrite ?app_nil_r; auto. rewrite lsnk_snoc. auto.
Qed.

Definition nopw (tr : list hact) : Prop := forall c nw ew, ~ In (HAPutWrite c nw ew) tr.
Lemma nopw_snoc tr a : nopw tr -> (forall c nw ew, a <> HAPutWrite c nw ew) -> nopw (tr ++ [a]).
Proof. intros H Ha c nw ew Hin. apply in_app_or in Hin as [Hin|[Hin|[]]]; [eapply H; eauto|eapply Ha; eauto]. Qed.

(* ------------------------------------------------------------------ the invariant *)
Definition pre_relay (tr : list hact) (s : hst) : Prop :=
  hrel tr = [] /\ nopw tr /\ hputw tr = [] /\ hputn s = 0.

Definition HInv (m : mode) (tr : list hact) (s : hst) : Prop :=
  exec (relay_init m) (hrel tr) = Some (hin s) /\
  htarget tr = hputw tr ++ snkb Up (hrel tr) /\
  match hp s with
  | HRelay =>
      exists put, hooks tr = [put] /\
        ((put = [] /\ nopw tr /\ hputw tr = [] /\ hputn s = 0) \/
         (put <> [] /\ exists nw ew,
             (forall c' nw' ew', In (HAPutWrite c' nw' ew') tr -> c' = put /\ nw' = nw /\ ew' = ew) /\
             In (HAPutWrite put nw ew) tr /\ hputw tr = wrote put nw /\ hputn s = to_u64 nw))
  | HDial put => hooks tr = [put] /\ pre_relay tr s
  | HPut put => put <> [] /\ hooks tr = [put] /\ pre_relay tr s
  | HReadReq | HCheck | HRespHook | HHookTCP | HUnhooked => hooks tr = [] /\ pre_relay tr s
  | HCloseOnly | HDone => (length (hooks tr) <= 1)%nat /\ pre_relay tr s
  end.

Lemma pre_relay_snoc tr s a s' :
  pre_relay tr s -> hputn s' = hputn s ->
  (forall x, a <> HARel x) -> (forall c nw ew, a <> HAPutWrite c nw ew) -> pre_relay (tr ++ [a]) s'.
Proof.
  intros (H1 & H2 & H3 & H4) Hn Hr Hp. unfold pre_relay.
  rewrite hrel_snoc, hputw_snoc, H1, H3, Hn.
  repeat split; auto.
  - destruct a; auto. exfalso; eapply Hr; eauto.
  - apply nopw_snoc; auto.
  - destruct a; auto. exfalso; eapply Hp; eauto.
Qed.

Ltac inv H := inversion H; subst; clear H.

Lemma hinv_step m tr s a s' : HInv m tr s -> hstep s a = Some s' -> HInv m (tr ++ [a]) s'.
Proof.
  intros (HE & HT & HP) Hs. unfold hstep in Hs.
  destruct (hp s) eqn:Ep; destruct a as [ok|b|msg|r|ok|c nw ew| |x]; try discriminate.
  - (* HReadReq *)
    inv Hs. destruct HP as [Hh Hpre].
    assert (Hpre' : pre_relay (tr ++ [HAReadReq ok]) (mkH (if ok then HCheck else HCloseOnly) (hin s) (hputn s))).
    { eapply pre_relay_snoc; eauto; intros; discriminate. }
    split; [|split].
    + rewrite hrel_snoc. cbn. rewrite app_nil_r. auto.
    + rewrite htarget_snoc, hputw_snoc, hrel_snoc. cbn. rewrite !app_nil_r. auto.
    + cbn. rewrite hooks_snoc, Hh. cbn. destruct ok; cbn; split; auto.
  - (* HCheck *)
    inv Hs. destruct HP as [Hh Hpre].
    assert (Hpre' : pre_relay (tr ++ [HACheck b]) (mkH (if b then HRespHook else HUnhooked) (hin s) (hputn s))).
    { eapply pre_relay_snoc; eauto; intros; discriminate. }
    split; [|split].
    + rewrite hrel_snoc. cbn. rewrite app_nil_r. auto.
    + rewrite htarget_snoc, hputw_snoc, hrel_snoc. cbn. rewrite !app_nil_r. auto.
    + cbn. rewrite hooks_snoc, Hh. cbn. destruct b; cbn; split; auto.
  - (* HRespHook *)
    destruct (beqb msg HookEnabled); [|discriminate]. inv Hs. destruct HP as [Hh Hpre].
    assert (Hpre' : pre_relay (tr ++ [HAWriteResp msg]) (mkH HHookTCP (hin s) (hputn s))).
    { eapply pre_relay_snoc; eauto; intros; discriminate. }
    split; [|split].
    + rewrite hrel_snoc. cbn. rewrite app_nil_r. auto.
    + rewrite htarget_snoc, hputw_snoc, hrel_snoc. cbn. rewrite !app_nil_r. auto.
    + cbn. rewrite hooks_snoc, Hh. cbn. split; auto.
  - (* HHookTCP *)
    destruct HP as [Hh Hpre]. destruct r as [put|]; inv Hs.
    + assert (Hpre' : pre_relay (tr ++ [HAHook (Some put)]) (mkH (HDial put) (hin s) (hputn s))).
      { eapply pre_relay_snoc; eauto; intros; discriminate. }
      split; [|split].
      * rewrite hrel_snoc. cbn. rewrite app_nil_r. auto.
      * rewrite htarget_snoc, hputw_snoc, hrel_snoc. cbn. rewrite !app_nil_r. auto.
      * cbn. rewrite hooks_snoc, Hh. cbn. split; auto.
    + assert (Hpre' : pre_relay (tr ++ [HAHook None]) (mkH HCloseOnly (hin s) (hputn s))).
      { eapply pre_relay_snoc; eauto; intros; discriminate. }
      split; [|split].
      * rewrite hrel_snoc. cbn. rewrite app_nil_r. auto.
      * rewrite htarget_snoc, hputw_snoc, hrel_snoc. cbn. rewrite !app_nil_r. auto.
      * cbn. rewrite hooks_snoc, Hh. cbn. split; auto.
  - (* HDial *)
    destruct HP as [Hh Hpre].
    assert (Hpre' : forall p, pre_relay (tr ++ [HADial ok]) (mkH p (hin s) (hputn s))).
    { intros p. eapply pre_relay_snoc; eauto; intros; discriminate. }
    assert (HE' : exec (relay_init m) (hrel (tr ++ [HADial ok])) = Some (hin s)).
    { rewrite hrel_snoc. cbn. rewrite app_nil_r. auto. }
    assert (HT' : htarget (tr ++ [HADial ok]) = hputw (tr ++ [HADial ok]) ++ snkb Up (hrel (tr ++ [HADial ok]))).
    { rewrite htarget_snoc, hputw_snoc, hrel_snoc. cbn. rewrite !app_nil_r. auto. }
    destruct ok; inv Hs.
    + destruct put as [|b0 put].
      * split; [|split]; auto. cbn. exists []. rewrite hooks_snoc, Hh. cbn. split; auto. left.
        destruct (Hpre' HRelay) as (_ & H2 & H3 & H4). auto.
      * split; [|split]; auto. cbn. rewrite hooks_snoc, Hh. cbn. split; [discriminate|]. split; auto.
    + split; [|split]; auto. cbn. rewrite hooks_snoc, Hh. cbn. split; auto.
  - (* HPut *)
    destruct (beqb c put) eqn:Eb; [|discriminate]. apply beqb_eq in Eb. subst c. inv Hs.
    destruct HP as (Hne & Hh & Hr & Hnp & Hpw & Hn).
    split; [|split].
    + rewrite hrel_snoc. cbn. rewrite app_nil_r. auto.
    + rewrite htarget_snoc, hputw_snoc, hrel_snoc. cbn. rewrite !app_nil_r, HT, Hr. cbn. rewrite !app_nil_r. auto.
    + cbn. exists put. rewrite hooks_snoc, Hh. cbn. split; auto. right. split; auto.
      exists nw, ew. repeat split.
      * apply in_app_or in H as [H|[H|[]]]; [exfalso; eapply Hnp; eauto|]. inv H. auto.
      * apply in_app_or in H as [H|[H|[]]]; [exfalso; eapply Hnp; eauto|]. inv H. auto.
      * apply in_app_or in H as [H|[H|[]]]; [exfalso; eapply Hnp; eauto|]. inv H. auto.
      * apply in_or_app. right. left. auto.
      * rewrite hputw_snoc, Hpw. auto.
  - (* HRelay *)
    destruct (step (hin s) x) as [i'|] eqn:Est; [|discriminate]. inv Hs.
    split; [|split].
    + rewrite hrel_snoc, exec_app, HE. cbn. rewrite Est. auto.
    + rewrite htarget_snoc, hputw_snoc, hrel_snoc, snkb_up_snoc, HT. cbn. rewrite !app_nil_r, <- app_assoc. auto.
    + cbn. destruct HP as (put & Hh & Hcase). exists put. rewrite hooks_snoc, Hh. cbn. split; auto.
      destruct Hcase as [(H1 & H2 & H3 & H4)|(H1 & nw & ew & H2 & H3 & H4 & H5)].
      * left. repeat split; auto. { apply nopw_snoc; auto. intros; discriminate. }
        rewrite hputw_snoc, H3. auto.
      * right. split; auto. exists nw, ew. repeat split; auto.
        -- apply in_app_or in H as [H|[H|[]]]; [eapply H2; eauto|discriminate].
        -- apply in_app_or in H as [H|[H|[]]]; [eapply H2; eauto|discriminate].
        -- apply in_app_or in H as [H|[H|[]]]; [eapply H2; eauto|discriminate].
        -- apply in_or_app. auto.
        -- rewrite hputw_snoc, H4. cbn. rewrite app_nil_r. auto.
  - (* HCloseOnly *)
    inv Hs. destruct HP as [Hh Hpre].
    assert (Hpre' : pre_relay (tr ++ [HACloseStream]) (mkH HDone (hin s) (hputn s))).
    { eapply pre_relay_snoc; eauto; intros; discriminate. }
    split; [|split].
    + rewrite hrel_snoc. cbn. rewrite app_nil_r. auto.
    + rewrite htarget_snoc, hputw_snoc, hrel_snoc. cbn. rewrite !app_nil_r. auto.
    + cbn. rewrite hooks_snoc. cbn. rewrite app_nil_r. split; auto.
Qed.

Lemma hinv m tr s : hexec (hinit m) tr = Some s -> HInv m tr s.
Proof.
  revert s. induction tr as [|a tr IH] using rev_ind; intros s He.
  - cbn in He. inv He. split; [|split]; cbn; auto. repeat split; auto. intros c nw ew [].
  - apply hexec_snoc in He as (s0 & He & Hs). eapply hinv_step; eauto.
Qed.

(* ------------------------------------------------------------------ the relay part is a run of C06's LTS *)
Definition accept_run3 : list act := [AReadReq true; ADial None; AWriteResp true Connected].

Lemma proj_app d a b : proj d (a ++ b) = proj d a ++ proj d b.
Proof. unfold proj. apply flat_map_app. Qed.

Lemma relay_as_full_run m rtr i :
  exec (relay_init m) rtr = Some i -> exec (init m) (accept_run3 ++ rtr) = Some i.
Proof. intros H. rewrite exec_app. unfold accept_run3. rewrite relay_init_reachable. auto. Qed.

Lemma relay_prefix m rtr i d : exec (relay_init m) rtr = Some i -> wok_tr rtr ->
  exists rest, srcb d rtr = snkb d rtr ++ rest.
Proof.
  intros He Hw. apply relay_as_full_run in He.
  assert (Hw' : wok_tr (accept_run3 ++ rtr)). { intros d'. rewrite proj_app. cbn. apply Hw. }
  destruct (run_prefix _ _ _ d He Hw') as (rest & Hr).
  unfold srcb, snkb in *. rewrite proj_app in Hr. cbn in Hr. eauto.
Qed.

Lemma relay_complete m rtr i d : exec (relay_init m) rtr = Some i -> wok_tr rtr ->
  (pcof i d = PRet GNil \/ pcof i d = PDone GNil) -> srcb d rtr = snkb d rtr.
Proof.
  intros He Hw Hp. apply relay_as_full_run in He.
  assert (Hw' : wok_tr (accept_run3 ++ rtr)). { intros d'. rewrite proj_app. cbn. apply Hw. }
  destruct (run_complete _ _ _ d He Hw' Hp) as (Hr & _).
  unfold srcb, snkb in *. rewrite proj_app in Hr. cbn in Hr. auto.
Qed.

(* ------------------------------------------------------------------ the direct write under the contract *)
Lemma wrote_all put nw ew :
  hwok_act (HAPutWrite put nw ew) -> ew = EN -> wrote put nw = put /\ to_u64 nw = u64 (blen put).
Proof.
  intros [H1 H2] ->. assert (Hnw : nw = Z.of_N (blen put)).
  { destruct (Z.ltb_spec nw (Z.of_N (blen put))) as [Hlt|Hge]; [exfalso; apply (H2 Hlt); auto|lia]. }
  subst nw. split.
  - apply wrote_full. lia.
  - unfold to_u64, u64. rewrite <- (N2Z.id (blen put mod 18446744073709551616)).
    f_equal. rewrite N2Z.inj_mod; lia.
Qed.

(* ------------------------------------------------------------------ theorems *)
(* the target's stream is the putback followed by a prefix of what the relay read from the client's stream *)
Lemma putback_then_relay m tr s put :
  hexec (hinit m) tr = Some s -> hwok tr -> hput_quiet tr -> In put (hooks tr) ->
  match hp s with
  | HRelay => htarget tr = put ++ snkb Up (hrel tr) /\ exists rest, srcb Up (hrel tr) = snkb Up (hrel tr) ++ rest
  | _ => htarget tr = []
  end.
Proof.
  intros He [Hwa Hwr] Hq Hin. destruct (hinv _ _ _ He) as (HE & HT & HP).
  destruct (hp s) eqn:Ep;
    try (destruct HP as [_ (Hr & _ & Hpw & _)]; rewrite HT, Hpw, Hr; reflexivity);
    try (destruct HP as (_ & _ & (Hr & _ & Hpw & _)); rewrite HT, Hpw, Hr; reflexivity).
  destruct HP as (put' & Hh & Hcase). rewrite Hh in Hin. destruct Hin as [<-|[]].
  split; [|eapply relay_prefix; eauto].
  destruct Hcase as [(-> & _ & Hpw & _)|(_ & nw & ew & _ & Hi & Hpw & _)].
  - rewrite HT, Hpw. auto.
  - rewrite HT, Hpw. f_equal.
    assert (Hc : hwok_act (HAPutWrite put' nw ew)). { rewrite Forall_forall in Hwa. apply Hwa; auto. }
    apply (wrote_all _ _ _ Hc). eapply Hq; eauto.
Qed.

(* ... and all of it once the Up direction has read the client's stream to its end and returned nil *)
Lemma putback_then_whole m tr s put :
  hexec (hinit m) tr = Some s -> hwok tr -> hput_quiet tr -> In put (hooks tr) ->
  (pcof (hin s) Up = PRet GNil \/ pcof (hin s) Up = PDone GNil) ->
  hp s = HRelay /\ htarget tr = put ++ srcb Up (hrel tr).
Proof.
  intros He Hw Hq Hin Hp. pose proof (putback_then_relay _ _ _ _ He Hw Hq Hin) as H.
  destruct (hinv _ _ _ He) as (HE & HT & HP). destruct Hw as [Hwa Hwr].
  destruct (hp s) eqn:Ep.
  all: try (exfalso;
            assert (Hr : hrel tr = []) by (unfold pre_relay in HP; tauto);
            rewrite Hr in HE; cbn in HE; injection HE as HE; rewrite <- HE in Hp; destruct m; cbn in Hp; destruct Hp; discriminate).
  destruct H as [H _]. split; auto. rewrite H. f_equal. symmetry. eapply relay_complete; eauto.
Qed.

(* no action of the relay happens before the putback has been handed to the target connection *)
Lemma relay_after_putback m pre x post s :
  hexec (hinit m) (pre ++ HARel x :: post) = Some s ->
  exists put, hooks pre = [put] /\ (put <> [] -> exists nw ew, In (HAPutWrite put nw ew) pre).
Proof.
  rewrite hexec_app. destruct (hexec (hinit m) pre) as [s1|] eqn:E1; [|discriminate]. cbn.
  destruct (hstep s1 (HARel x)) as [s2|] eqn:E2; [|discriminate]. intros _.
  destruct (hinv _ _ _ E1) as (_ & _ & HP). unfold hstep in E2.
  destruct (hp s1) eqn:Ep; try discriminate.
  destruct HP as (put & Hh & Hcase). exists put. split; auto. intros Hne.
  destruct Hcase as [(-> & _)|(_ & nw & ew & _ & Hi & _)]; [congruence|eauto].
Qed.

(* StreamStats.Tx *)
Lemma txsum_snoc l a : txsum (l ++ [a]) = txsum l + match a with ALoop _ (LLog tx _ _) => tx | _ => 0 end.
Proof.
  unfold txsum. induction l as [|b l IH]; cbn.
  - destruct a as [| | |d y| | | |]; try lia. destruct y; lia.
  - cbn in IH. rewrite IH. destruct b as [| | |d y| | | |]; try lia. destruct y; lia.
Qed.

Lemma u64_add_l a b : u64 (u64 a + b) = u64 (a + b).
Proof. unfold u64. rewrite N.add_mod_idemp_l; auto. discriminate. Qed.
Lemma u64_add_r a b : u64 (a + u64 b) = u64 (a + b).
Proof. unfold u64. rewrite N.add_mod_idemp_r; auto. discriminate. Qed.

Lemma step_stx s a s' : step s a = Some s' ->
  sTx s' = match a with ALoop _ (LLog tx _ _) => u64 (sTx s + tx) | _ => sTx s end.
Proof.
  destruct a as [ok|r|ok msg|d y|e| | |]; cbn; intros H.
  - destruct (par s); inv H; auto.
  - destruct (par s); inv H; auto.
  - destruct (par s); try discriminate.
    + destruct (ok && beqb msg Connected); inv H; auto.
    + destruct (negb ok && beqb msg msg0); inv H; auto.
  - destruct (lstep (md s) d (pcof s d) y); inv H. destruct d, y; cbn; auto.
  - destruct (par s); try discriminate. destruct (chan s); try discriminate.
    destruct (gerr_eqb e g); inv H; auto.
  - destruct (par s); inv H; auto.
  - destruct (par s); inv H; auto.
  - destruct (par s); inv H; auto.
Qed.

Lemma relay_stx m rtr i : exec (relay_init m) rtr = Some i -> sTx i = u64 (txsum rtr).
Proof.
  revert i. induction rtr as [|a l IH] using rev_ind; intros i He.
  - cbn in He. inv He. auto.
  - apply exec_snoc in He as (i0 & He & Hs). rewrite (step_stx _ _ _ Hs), txsum_snoc, (IH _ He).
    destruct a as [| | |d y| | | |]; rewrite ?N.add_0_r; try reflexivity.
    destruct y; rewrite ?N.add_0_r; try reflexivity.
    apply u64_add_l.
Qed.

Lemma stats_tx m tr s put :
  hexec (hinit m) tr = Some s -> hwok tr -> hput_quiet tr -> In put (hooks tr) -> hp s = HRelay ->
  hstats_tx s = u64 (blen put + txsum (hrel tr)).
Proof.
  intros He [Hwa Hwr] Hq Hin Ep. destruct (hinv _ _ _ He) as (HE & HT & HP). rewrite Ep in HP.
  destruct HP as (put' & Hh & Hcase). rewrite Hh in Hin. destruct Hin as [<-|[]].
  unfold hstats_tx. rewrite (relay_stx _ _ _ HE), u64_add_r.
  destruct Hcase as [(-> & _ & _ & ->)|(_ & nw & ew & _ & Hi & _ & ->)]; auto.
  assert (Hc : hwok_act (HAPutWrite put' nw ew)). { rewrite Forall_forall in Hwa. apply Hwa; auto. }
  destruct (wrote_all _ _ _ Hc (Hq _ _ _ Hi)) as [_ ->]. apply u64_add_l.
Qed.

(* ------------------------------------------------------------------ the error of the direct write is dropped *)
Definition put_err_run : list hact :=
  [HAReadReq true; HACheck true; HAWriteResp HookEnabled; HAHook (Some [x61; x62]); HADial true;
   HAPutWrite [x61; x62] 1 (EE 1);
   HARel (ALoop Up (LRead CopyBufSize [x63] EN)); HARel (ALoop Up (LLog 1 0 true));
   HARel (ALoop Up (LWrite [x63] 1 EN))].

Lemma put_err_run_ok : exists s, hexec (hinit Logged) put_err_run = Some s /\ hp s = HRelay /\
  hooks put_err_run = [[x61; x62]] /\ srcb Up (hrel put_err_run) = [x63] /\ htarget put_err_run = [x61; x63].
Proof. eexists. split; [vm_compute; reflexivity|]. repeat (split; [vm_compute; reflexivity|]). vm_compute; reflexivity. Qed.

Lemma put_err_run_wok : hwok put_err_run.
Proof.
  split.
  - repeat constructor; cbn; try lia. intros _; discriminate.
  - intros d. destruct d; cbn; repeat constructor; cbn; try lia.
Qed.

Lemma put_write_error_dropped : exists tr s put,
  hexec (hinit Logged) tr = Some s /\ hwok tr /\ hooks tr = [put] /\ hp s = HRelay /\
  ~ exists rest, put ++ srcb Up (hrel tr) = htarget tr ++ rest.
Proof.
  destruct put_err_run_ok as (s & H1 & H2 & H3 & H4 & H5).
  exists put_err_run, s, [x61; x62]. repeat split; auto using put_err_run_wok; try apply put_err_run_wok.
  rewrite H4, H5. intros (rest & Hr). cbn in Hr. discriminate.
Qed.

(* ------------------------------------------------------------------ staging through the copy buffer truncates *)
Lemma firstn_short (n : nat) (put rest : bytes) : (n < length put)%nat -> firstn n put ++ rest <> put ++ rest.
Proof.
  intros Hlt Heq. apply (f_equal (@length byte)) in Heq. rewrite !app_length, firstn_length in Heq. lia.
Qed.
Lemma staging_truncates put rest : CopyBufSize < blen put -> staged_head put ++ rest <> put ++ rest.
Proof.
  intros Hlt. unfold staged_head. apply firstn_short. unfold blen in Hlt.
  generalize dependent CopyBufSize. intros n Hn. lia.
Qed.

(* ------------------------------------------------------------------ non-vacuity *)
Definition put_run : list hact :=
  [HAReadReq true; HACheck true; HAWriteResp HookEnabled; HAHook (Some [x47; x45; x54]); HADial true;
   HAPutWrite [x47; x45; x54] 3 EN;
   HARel (ALoop Up (LRead CopyBufSize [x20; x2f] EN)); HARel (ALoop Up (LLog 2 0 true));
   HARel (ALoop Up (LWrite [x20; x2f] 2 EN));
   HARel (ALoop Up (LRead CopyBufSize [] EEOF)); HARel (ALoop Up (LReturn GNil)); HARel (AFirstReturn GNil);
   HARel ACloseTarget; HARel ACloseStream].

Lemma put_run_ok : exists s, hexec (hinit Logged) put_run = Some s /\ hp s = HRelay /\ par (hin s) = QDone /\
  hooks put_run = [[x47; x45; x54]] /\ htarget put_run = [x47; x45; x54; x20; x2f] /\ hstats_tx s = 5.
Proof. eexists. split; [vm_compute; reflexivity|]. repeat (split; [vm_compute; reflexivity|]). vm_compute; reflexivity. Qed.
