(* C17 proofs, part 2: Sniffer.UDP and the QUIC Initial code: the datagram buffer is never written; no slice/index/make can panic. *)
From Hy Require Import model.C17_Sniff proof.C17_Sniff.
From Coq Require Import ZArith Lia ZifyBool ZifyNat ZifyN Permutation.
Local Open Scope N_scope.

Ltac res_inv :=
  repeat match goal with
  | H : bind ?r _ = Ok _ |- _ =>
      let E := fresh "E" in destruct r eqn:E; cbn [bind] in H; try discriminate
  | H : (let '(_, _) := ?p in _) = Ok _ |- _ => destruct p
  end.

(* ---------- heap frame lemmas ---------- *)

Lemma heap_get_set_other : forall h b v i, i <> b -> heap_get (heap_set h b v) i = heap_get h i.
Proof.
  unfold heap_get. induction h as [|x t IH]; intros b v i Hn; [reflexivity|].
  destruct b as [|b']; destruct i as [|i']; cbn; try reflexivity; try lia.
  apply IH. lia.
Qed.

Lemma heap_set_length : forall h b v, length (heap_set h b v) = length h.
Proof. induction h as [|x t IH]; intros [|b] v; cbn; auto. Qed.

Lemma heap_get_alloc h v i : (i < length h)%nat -> heap_get (fst (heap_alloc h v)) i = heap_get h i.
Proof. intros H. unfold heap_alloc, heap_get. cbn. apply app_nth1. exact H. Qed.

Section QuicProofs.
  Variable hp : N -> list byte -> list byte -> list byte.
  Variable aead : N -> list byte -> Z -> list byte -> list byte -> bool * list byte.
  Variable sni : list byte -> option (list byte).
  Variable sort_frames : list (Z * list byte) -> list (Z * list byte).

  (* UnProtect writes only into the buffer it was given *)
  Lemma unprotect_frame lg ver dcid h b n off pnMax h' dec :
    unprotect hp aead lg ver dcid h b n off pnMax = Ok (h', dec) ->
    length h' = length h /\ forall i, i <> b -> heap_get h' i = heap_get h i.
  Proof.
    unfold unprotect. intros H.
    destruct ((if lg then _ else true) && _); [inversion H; subst; auto|].
    destruct (negb _); [discriminate|].
    res_inv.
    destruct (Nat.ltb _ _); [discriminate|].
    inversion H; subst. split; [apply heap_set_length|].
    intros i Hi. apply heap_get_set_other. exact Hi.
  Qed.

  Lemma read_crypto_payload_frame lg h b h' r :
    read_crypto_payload hp aead sort_frames lg false h b = Ok (h', r) ->
    forall i, (i < length h)%nat -> heap_get h' i = heap_get h i.
  Proof.
    unfold read_crypto_payload. intros H.
    destruct (parse_initial_header (heap_get h b)) as [[hd off]|e|s]; [|inversion H; subst; auto|discriminate].
    destruct (negb _); [inversion H; subst; auto|].
    destruct (_ || _); [inversion H; subst; auto|].
    destruct (_ <? _); [inversion H; subst; auto|].
    destruct (slice_to 20 _ _) as [pk|e|s] eqn:Esl; cbn [bind] in H; try discriminate.
    cbn [heap_alloc] in H.
    destruct (unprotect _ _ _ _ _ _ _ _ _ _) as [[h2 dec]|e|s] eqn:Eu; cbn [bind] in H; try discriminate.
    apply unprotect_frame in Eu. destruct Eu as [_ Hf].
    assert (Hkeep : forall i, (i < length h)%nat -> heap_get h2 i = heap_get h i).
    { intros i Hi. rewrite Hf by lia. apply (heap_get_alloc h pk i Hi). }
    destruct dec as [pt|]; [|inversion H; subst; auto].
    destruct (extract_frames _ _ _) as [frs|e|s]; [|inversion H; subst; auto|discriminate].
    res_inv. inversion H; subst. auto.
  Qed.

  Lemma sniff_udp_out lg ip h b addr o :
    sniff_udp hp aead sni sort_frames lg ip h b addr = Ok o ->
    exists h' pl, read_crypto_payload hp aead sort_frames lg ip h b = Ok (h', pl) /\ u_heap o = h' /\
      ((u_addr o = addr) \/
       exists p name ho port, pl = Some p /\ (4 <= length p)%nat /\ nth 0 p x00 = x01 /\
         sni p = Some name /\ name <> [] /\ split_host_port addr = Some (ho, port) /\
         u_addr o = join_host_port name port /\ u_err o = false) /\
      (u_err o = true -> u_addr o = addr /\ split_host_port addr = None).
  Proof.
    unfold sniff_udp. intros H.
    destruct (read_crypto_payload _ _ _ _ _ _ _) as [[h' pl]|e|s]; cbn [bind] in H; try discriminate.
    exists h', pl. split; auto.
    destruct pl as [p|]; [|inversion H; subst; cbn; repeat split; auto; discriminate].
    destruct p as [|b0 [|b1 [|b2 [|b3 rest]]]]; try (inversion H; subst; cbn; repeat split; auto; discriminate).
    destruct (negb (b2n b0 =? 1)) eqn:Hb0; [inversion H; subst; cbn; repeat split; auto; discriminate|].
    destruct (sni _) as [[|c0 nm]|] eqn:Hs; try (inversion H; subst; cbn; repeat split; auto; discriminate).
    unfold rewrite_addr in H. destruct (split_host_port addr) as [[ho port]|] eqn:Hsp;
      inversion H; subst; cbn [u_heap u_addr u_err]; repeat split; auto; try discriminate.
    right. exists (b0 :: b1 :: b2 :: b3 :: rest), (c0 :: nm), ho, port. repeat split; auto.
    - cbn. lia.
    - cbn. apply negb_false_iff, N.eqb_eq in Hb0. apply b2n_inj. rewrite Hb0. reflexivity.
    - discriminate.
  Qed.

  (* the datagram (and every other buffer that existed before the call) is byte-identical afterwards *)
  Lemma udp_packet_unmodified lg h b addr o :
    sniff_udp hp aead sni sort_frames lg false h b addr = Ok o ->
    forall i, (i < length h)%nat -> heap_get (u_heap o) i = heap_get h i.
  Proof.
    intros H. destruct (sniff_udp_out _ _ _ _ _ _ H) as (h' & pl & Hr & Hh & _). rewrite Hh.
    eapply read_crypto_payload_frame; eauto.
  Qed.
End QuicProofs.

(* ---------- never-panics ---------- *)

Lemma bind_np {A B} (r : Res A) (f : A -> Res B) :
  is_panic r = false -> (forall a, r = Ok a -> is_panic (f a) = false) -> is_panic (bind r f) = false.
Proof. destruct r; cbn; auto. Qed.

Lemma rd_byte_np r : is_panic (rd_byte r) = false.
Proof. destruct r; reflexivity. Qed.
Lemma rd_u32_np r : is_panic (rd_u32 r) = false.
Proof. unfold rd_u32. destruct (Nat.ltb _ _); reflexivity. Qed.
Lemma rd_cid_np n r : is_panic (rd_cid n r) = false.
Proof. unfold rd_cid. destruct n; [reflexivity|]. destruct r; [reflexivity|]. destruct (Nat.ltb _ _); reflexivity. Qed.
Lemma rd_varint_np r : is_panic (rd_varint r) = false.
Proof. unfold rd_varint. destruct (varint_read r); reflexivity. Qed.

Lemma parse_long_header_np r : is_panic (parse_long_header r) = false.
Proof.
  unfold parse_long_header.
  apply bind_np; [apply rd_byte_np|]. intros [typeByte r1] _.
  apply bind_np; [apply rd_u32_np|]. intros [ver r2] _.
  destruct (negb (ver =? 0) && _); [reflexivity|].
  apply bind_np; [apply rd_byte_np|]. intros [dlen r3] _.
  apply bind_np; [apply rd_cid_np|]. intros [dcid r4] _.
  apply bind_np; [apply rd_byte_np|]. intros [slen r5] _.
  apply bind_np; [apply rd_cid_np|]. intros [scid r6] _.
  apply bind_np.
  - destruct (_ =? _); [|reflexivity].
    apply bind_np; [apply rd_varint_np|]. intros [tokenLen r7] _.
    destruct (N.of_nat (length r7) <? tokenLen) eqn:E1; [reflexivity|].
    destruct (Nat.ltb (length r7) (N.to_nat tokenLen)) eqn:E2; [|reflexivity].
    apply N.ltb_ge in E1. apply Nat.ltb_lt in E2. lia.
  - intros [token r7] _.
    apply bind_np; [apply rd_varint_np|]. intros [plen r8] _. reflexivity.
Qed.

Lemma parse_initial_header_np data : is_panic (parse_initial_header data) = false.
Proof.
  unfold parse_initial_header. apply bind_np; [apply parse_long_header_np|].
  intros [h r] _. reflexivity.
Qed.

(* the header parser reports an offset inside the packet *)
Lemma rd_byte_len r b r' : rd_byte r = Ok (b, r') -> length r = S (length r').
Proof. destruct r; cbn; intros H; inversion H; reflexivity. Qed.

Lemma upd_byte_length : forall l i x, length (upd_byte i x l) = length l.
Proof. induction l as [|y t IH]; intros [|i] x; cbn; auto. Qed.

Lemma pnlen_bound (b : byte) : (1 <= N.to_nat (N.land (b2n b) 3 + 1) <= 4)%nat.
Proof. destruct b; cbn; lia. Qed.

Lemma pn_loop_ok mask off : forall cnt i pk pn,
  (i + cnt <= 4)%nat -> (off + 4 <= length pk)%nat -> (5 <= length mask)%nat ->
  exists pk' pn', pn_loop cnt i off mask pk pn = Ok (pk', pn') /\ length pk' = length pk.
Proof.
  induction cnt as [|c IH]; intros i pk pn Hi Hl Hm.
  - cbn. eauto.
  - cbn [pn_loop].
    destruct (index_at_ok 33 (off + i) pk) as (p & Hp & _); [lia|].
    destruct (index_at_ok 34 (1 + i) mask) as (m & Hmm & _); [lia|].
    rewrite Hp, Hmm. cbn [bind].
    destruct (IH (S i) (upd_byte (off + i) (bxor p m) pk)
                 (Z.lor (Z.shiftl pn 8) (Z.of_N (b2n (bxor p m))))) as (pk' & pn' & H1 & H2);
      try (rewrite ?upd_byte_length; lia).
    exists pk', pn'. rewrite H1. split; auto. rewrite H2. apply upd_byte_length.
Qed.

(* extractCryptoFrames *)
Lemma varint_read_shorter r v r' : varint_read r = Some (v, r') -> (length r' < length r)%nat.
Proof.
  unfold varint_read. destruct r as [|b0 t]; [discriminate|].
  destruct (Nat.ltb _ _); [discriminate|]. intros H. inversion H; subst.
  rewrite skipn_length. cbn. lia.
Qed.

Definition offs_ok (l : list (Z * list byte)) : Prop := Forall (fun f => (0 <= fst f)%Z) l.

Lemma extract_frames_ok : forall fuel r acc, (length r <= fuel)%nat -> offs_ok acc ->
  match extract_frames fuel r acc with
  | Ok frs => offs_ok frs
  | Err e => e <> EOther
  | Panic _ => False
  end.
Proof.
  induction fuel as [|f IH]; intros r acc Hf Ha.
  - destruct r; [exact Ha|cbn in Hf; lia].
  - destruct r as [|b0 t] eqn:Hr; [exact Ha|]. rewrite <- Hr in *.
    assert (Hne : r <> []) by (rewrite Hr; discriminate).
    replace (extract_frames (S f) r acc) with
      (ty <- rd_varint r ;; let '(typ, r) := ty in
          if (typ =? 0) || (typ =? 1) then extract_frames f r acc
          else if negb (typ =? 6) then Err EInvalid
          else
            ofs <- rd_varint r ;; let '(offset, r) := ofs in
            if 9223372036854775807 <? offset then Err EInvalid else
            dl <- rd_varint r ;; let '(dataLen, r) := dl in
            if maxCryptoFrameDataLen <? dataLen then Err ELimit
            else if N.of_nat (length r) <? dataLen then Err EShort
            else if Nat.ltb (length r) (N.to_nat dataLen) then Panic 40
            else extract_frames f (skipn (N.to_nat dataLen) r)
                                (acc ++ [(Z.of_N offset, firstn (N.to_nat dataLen) r)]))
      by (rewrite Hr; reflexivity).
    unfold rd_varint at 1. destruct (varint_read r) as [[typ r1]|] eqn:E1; cbn [bind]; [|discriminate].
    apply varint_read_shorter in E1.
    destruct ((typ =? 0) || (typ =? 1)); [apply IH; [lia|exact Ha]|].
    destruct (negb (typ =? 6)); [discriminate|].
    unfold rd_varint at 1. destruct (varint_read r1) as [[offset r2]|] eqn:E2; cbn [bind]; [|discriminate].
    apply varint_read_shorter in E2.
    destruct (9223372036854775807 <? offset); [discriminate|].
    unfold rd_varint at 1. destruct (varint_read r2) as [[dataLen r3]|] eqn:E3; cbn [bind]; [|discriminate].
    apply varint_read_shorter in E3.
    destruct (maxCryptoFrameDataLen <? dataLen); [discriminate|].
    destruct (N.of_nat (length r3) <? dataLen) eqn:E4; [discriminate|].
    destruct (Nat.ltb (length r3) (N.to_nat dataLen)) eqn:E5.
    { apply N.ltb_ge in E4. apply Nat.ltb_lt in E5. lia. }
    apply IH.
    + rewrite skipn_length. lia.
    + unfold offs_ok. apply Forall_app. split; [exact Ha|]. constructor; [cbn; lia|constructor].
Qed.

(* assembleCryptoFrames *)
Lemma last_cons_default {A} : forall (t : list A) g d, last (g :: t) d = last t g.
Proof.
  induction t as [|x t' IH]; intros g d; [reflexivity|].
  change (last (g :: x :: t') d) with (last (x :: t') d). rewrite (IH x d), (IH x g). reflexivity.
Qed.

Lemma frame_end_ge f : (fst f <= frame_end f)%Z.
Proof. unfold frame_end. lia. Qed.

Lemma contiguous_le : forall l prev, contiguous prev l = true ->
  forall f, In f (prev :: l) -> (fst f <= fst (last l prev))%Z.
Proof.
  induction l as [|g t IH]; intros prev Hc f Hin.
  - cbn in *. destruct Hin as [<-|[]]. lia.
  - cbn [contiguous] in Hc. apply andb_true_iff in Hc. destruct Hc as [Hg Ht].
    apply Z.eqb_eq in Hg.
    assert (Hlast : last (g :: t) prev = last t g) by apply last_cons_default.
    rewrite Hlast. destruct Hin as [<-|Hin].
    + pose proof (IH g Ht g (or_introl eq_refl)). pose proof (frame_end_ge prev). lia.
    + apply IH; auto.
Qed.

Lemma copy_all_ok : forall fs data,
  (forall f, In f fs -> (0 <= fst f <= Z.of_nat (length data))%Z) ->
  exists d, copy_all fs data = Ok d /\ length d = length data.
Proof.
  induction fs as [|f t IH]; intros data H.
  - cbn. eauto.
  - cbn [copy_all]. unfold copy_at.
    pose proof (H f (or_introl eq_refl)) as Hf.
    destruct ((fst f <? 0)%Z || (Z.of_nat (length data) <? fst f)%Z) eqn:E.
    { apply orb_true_iff in E. destruct E as [E|E]; [apply Z.ltb_lt in E|apply Z.ltb_lt in E]; lia. }
    cbn [bind].
    set (o := Z.to_nat (fst f)). set (n := Nat.min (length (snd f)) (length data - o)).
    assert (Hlen : length (firstn o data ++ firstn n (snd f) ++ skipn (o + n) data) = length data).
    { rewrite !app_length, !firstn_length, skipn_length. lia. }
    destruct (IH (firstn o data ++ firstn n (snd f) ++ skipn (o + n) data)) as (d & Hd & Hdl).
    { intros g Hg. rewrite Hlen. apply H. right. exact Hg. }
    exists d. split; auto. lia.
Qed.


Section AssembleNP.
  Variable sort_frames : list (Z * list byte) -> list (Z * list byte).
  Hypothesis sort_perm : forall l, Permutation (sort_frames l) l.

  Lemma assemble_np frames : offs_ok frames -> is_panic (assemble sort_frames frames) = false.
  Proof.
    intros Ho. unfold assemble.
    destruct frames as [|f1 [|f2 rest]]; try reflexivity.
    set (fr := f1 :: f2 :: rest) in *.
    pose proof (sort_perm fr) as Hp.
    destruct (sort_frames fr) as [|f0 fs'] eqn:Hs; [reflexivity|].
    destruct (contiguous f0 fs') eqn:Hc; [|reflexivity]. cbn [negb].
    set (lf := last (f0 :: fs') f0).
    destruct (fst lf <? 0)%Z eqn:E1; [reflexivity|].
    destruct (maxCryptoPayloadLen <? fst lf)%Z eqn:E2; [reflexivity|].
    destruct ((frame_end lf <? 0)%Z || (maxCryptoPayloadLen <? frame_end lf)%Z) eqn:E3; [reflexivity|].
    apply orb_false_iff in E3. destruct E3 as [E3 E4]. rewrite E3.
    apply Z.ltb_ge in E3.
    destruct (copy_all_ok (f0 :: fs') (repeat x00 (Z.to_nat (frame_end lf)))) as (d & Hd & _).
    { intros f Hin. rewrite repeat_length, Z2Nat.id by lia. split.
      - assert (Hin' : In f fr) by (eapply Permutation_in; eauto).
        unfold offs_ok in Ho. rewrite Forall_forall in Ho. apply Ho. exact Hin'.
      - pose proof (contiguous_le _ _ Hc f Hin) as Hle.
        assert (Hl : lf = last fs' f0) by (unfold lf; apply last_cons_default).
        rewrite <- Hl in Hle. pose proof (frame_end_ge lf). lia. }
    rewrite Hd. reflexivity.
  Qed.

End AssembleNP.

Section QuicNP.
  Variable hp : N -> list byte -> list byte -> list byte.
  Variable aead : N -> list byte -> Z -> list byte -> list byte -> bool * list byte.
  Variable sort_frames : list (Z * list byte) -> list (Z * list byte).
  (* AES block size: the mask has 16 bytes (5 are used) *)
  Hypothesis hp_len : forall v d s, (5 <= length (hp v d s))%nat.
  (* AEAD.Open(payload[:0], ..) never produces more than the ciphertext it was given *)
  Hypothesis aead_len : forall v d pn ct ad, (length (snd (aead v d pn ct ad)) <= length ct)%nat.
  Hypothesis sort_perm : forall l, Permutation (sort_frames l) l.

  Lemma unprotect_np ver dcid h b n off pnMax :
    is_panic (unprotect hp aead false ver dcid h b n off pnMax) = false.
  Proof.
    unfold unprotect. cbn [andb].
    set (pk := firstn n (heap_get h b)).
    destruct (N.of_nat (length pk) <? off + 4 + 16) eqn:Hlen; [reflexivity|].
    apply N.ltb_ge in Hlen.
    assert (Hl : (N.to_nat off + 20 <= length pk)%nat) by lia.
    assert (Hle : Nat.leb (N.to_nat off + 20) (length pk) = true) by (apply Nat.leb_le; exact Hl).
    rewrite Hle. cbn [negb].
    set (mask := hp ver dcid _).
    pose proof (hp_len ver dcid (firstn 16 (skipn (N.to_nat off + 4) pk))) as Hm. fold mask in Hm.
    destruct (index_at_ok 31 0 mask) as (m0 & Hm0 & _); [lia|].
    destruct (index_at_ok 32 0 pk) as (p0 & Hp0 & _); [lia|].
    rewrite Hm0, Hp0. cbn [bind].
    set (p0' := if 0 <? N.land (b2n p0) 128 then _ else _).
    pose proof (pnlen_bound p0') as Hpn.
    set (pnLen := N.to_nat (N.land (b2n p0') 3 + 1)) in *.
    destruct (pn_loop_ok mask (N.to_nat off) pnLen 0 (upd_byte 0 p0' pk) 0%Z) as (pk' & pn' & Hlp & Hlk);
      try (rewrite ?upd_byte_length; lia).
    rewrite Hlp. cbn [bind]. rewrite upd_byte_length in Hlk.
    rewrite slice_to_ok by lia. cbn [bind].
    rewrite slice_from_ok by lia. cbn [bind].
    set (payload := skipn (N.to_nat off + pnLen) pk').
    set (hdr := firstn (N.to_nat off + pnLen) pk').
    pose proof (aead_len ver dcid (decode_pn pnMax pn' (N.of_nat pnLen)) payload hdr) as Ha.
    destruct (aead ver dcid _ payload hdr) as [ok out]. cbn [snd] in Ha.
    apply Nat.ltb_ge in Ha. rewrite Ha. reflexivity.
  Qed.

  Lemma read_crypto_payload_np h b :
    is_panic (read_crypto_payload hp aead sort_frames false false h b) = false.
  Proof.
    unfold read_crypto_payload.
    pose proof (parse_initial_header_np (heap_get h b)) as Hp.
    destruct (parse_initial_header (heap_get h b)) as [[hd off]|e|s]; [|reflexivity|discriminate].
    destruct (negb _); [reflexivity|].
    destruct (_ || _); [reflexivity|].
    destruct (N.of_nat (length (heap_get h b)) <? off + h_length hd) eqn:El; [reflexivity|].
    apply N.ltb_ge in El.
    rewrite slice_to_ok by lia. cbn [bind heap_alloc].
    apply bind_np; [apply unprotect_np|]. intros [h2 dec] _.
    destruct dec as [pt|]; [|reflexivity].
    pose proof (extract_frames_ok (length pt) pt [] (le_n _) (Forall_nil _)) as He.
    destruct (extract_frames (length pt) pt []) as [frs|e|s]; [|reflexivity|contradiction].
    apply bind_np; [apply assemble_np; [exact sort_perm|exact He]|]. intros d _. reflexivity.
  Qed.

  Variable sni : list byte -> option (list byte).

  Lemma sniff_udp_np h b addr :
    is_panic (sniff_udp hp aead sni sort_frames false false h b addr) = false.
  Proof.
    unfold sniff_udp. apply bind_np; [apply read_crypto_payload_np|]. intros [h' pl] _.
    destruct pl as [p|]; [|reflexivity].
    destruct p as [|b0 [|b1 [|b2 [|b3 rest]]]]; try reflexivity.
    destruct (negb _); [reflexivity|].
    destruct (sni _) as [[|c nm]|]; try reflexivity.
    destruct (rewrite_addr _ _); reflexivity.
  Qed.
End QuicNP.
