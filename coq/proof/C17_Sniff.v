(* C17 proofs, part 1: the stream script, io.ReadFull, the teeReader and Sniffer.TCP; address helpers. *)
From Hy Require Import model.C17_Sniff.
From Coq Require Import ZArith Lia ZifyBool ZifyNat ZifyN.
Local Open Scope N_scope.

Lemma read_unread k s bs e s' :
  c17_read k s = (bs, e, s') -> bs ++ c17_unread s' = c17_unread s.
Proof.
  unfold c17_read. destruct s as [|[d er] rest]; intros H.
  - inversion H; subst. reflexivity.
  - destruct (Nat.ltb k (length d)) eqn:Hk.
    + inversion H; subst; clear H.
      unfold c17_unread. cbn [map concat ev_data]. rewrite app_assoc, firstn_skipn. reflexivity.
    + destruct er; inversion H; subst; clear H; unfold c17_unread; cbn [map concat ev_data]; reflexivity.
Qed.

Lemma read_len k s bs e s' : c17_read k s = (bs, e, s') -> (length bs <= k)%nat.
Proof.
  unfold c17_read. destruct s as [|[d er] rest]; intros H.
  - inversion H; subst. cbn. lia.
  - destruct (Nat.ltb k (length d)) eqn:Hk.
    + inversion H; subst. rewrite firstn_length. lia.
    + apply Nat.ltb_ge in Hk. destruct er; inversion H; subst; lia.
Qed.

Lemma read_full_f_spec fuel : forall k s got e s',
  c17_read_full_f fuel k s = (got, e, s') ->
  got ++ c17_unread s' = c17_unread s /\ (length got <= k)%nat /\ (e = None -> length got = k).
Proof.
  induction fuel as [|f IH]; intros k s got e s' H.
  - destruct k; cbn in H; inversion H; subst; cbn; repeat split; try lia; discriminate.
  - destruct k as [|k'].
    { cbn in H. inversion H; subst. cbn. repeat split; lia. }
    cbn [c17_read_full_f] in H.
    destruct (c17_read (S k') s) as [[bs e1] s1] eqn:Hr.
    pose proof (read_unread _ _ _ _ _ Hr) as Hu. pose proof (read_len _ _ _ _ _ Hr) as Hl.
    destruct (Nat.leb (S k') (length bs)) eqn:Hle.
    + apply Nat.leb_le in Hle. inversion H; subst. repeat split; auto; lia.
    + apply Nat.leb_gt in Hle. destruct e1 as [x|].
      * inversion H; subst. repeat split; auto; try lia. discriminate.
      * destruct (c17_read_full_f f (S k' - length bs) s1) as [[bs2 e2] s2] eqn:Hrec.
        inversion H; subst. apply IH in Hrec. destruct Hrec as (Ha & Hb & Hc).
        repeat split.
        -- rewrite <- app_assoc, Ha. exact Hu.
        -- rewrite app_length. lia.
        -- intros He. rewrite app_length, (Hc He). lia.
Qed.

Lemma read_full_spec k s got e s' :
  c17_read_full k s = (got, e, s') ->
  got ++ c17_unread s' = c17_unread s /\ (length got <= k)%nat /\ (e = None -> length got = k).
Proof. apply read_full_f_spec. Qed.

Lemma read_consumes k s bs s1 :
  c17_read k s = (bs, None, s1) -> (length bs < k)%nat -> (length s1 < length s)%nat.
Proof.
  unfold c17_read. destruct s as [|[d er] rest]; intros H Hl; [inversion H|].
  destruct (Nat.ltb k (length d)) eqn:Hk.
  - apply Nat.ltb_lt in Hk. inversion H; subst. rewrite firstn_length in Hl. lia.
  - destruct er; inversion H; subst. cbn. lia.
Qed.

(* the fuel of c17_read_full is enough: the out-of-fuel branch is never taken *)
Lemma read_full_fuel fuel : forall k s, (length s < fuel)%nat ->
  c17_read_full_f fuel k s = c17_read_full_f (S fuel) k s.
Proof.
  induction fuel as [|f IH]; intros k s Hf; [lia|].
  destruct k as [|k']; [reflexivity|].
  cbn [c17_read_full_f].
  destruct (c17_read (S k') s) as [[bs e1] s1] eqn:Hr.
  destruct (Nat.leb (S k') (length bs)) eqn:Hle; [reflexivity|].
  destruct e1; [reflexivity|].
  assert (Hs1 : (length s1 < f)%nat).
  { apply Nat.leb_gt in Hle. pose proof (read_consumes _ _ _ _ Hr Hle). lia. }
  rewrite (IH _ _ Hs1). reflexivity.
Qed.

(* ---------- teeReader / consumer ---------- *)

Lemma consumer_pre_empty o fuel : forall hist t t' h,
  t_pre t = [] -> run_consumer fuel o hist t = (t', h) ->
  t_pre t' = [] /\ exists sb, t_buf t' = t_buf t ++ sb /\ sb ++ c17_unread (t_s t') = c17_unread (t_s t).
Proof.
  induction fuel as [|f IH]; intros hist t t' h Hp H.
  - cbn in H. inversion H; subst. split; auto. exists []. rewrite app_nil_r. auto.
  - cbn [run_consumer] in H. destruct (o hist) as [k|hh].
    + unfold tee_read in H. rewrite Hp in H.
      destruct (c17_read k (t_s t)) as [[bs e] s'] eqn:Hr.
      apply IH in H; [|reflexivity]. destruct H as (H1 & sb & H2 & H3). cbn [t_buf t_s] in *.
      split; auto. exists (bs ++ sb). rewrite H2, <- !app_assoc. split; auto.
      rewrite H3. exact (read_unread _ _ _ _ _ Hr).
    + inversion H; subst. split; auto. exists []. rewrite app_nil_r. auto.
Qed.

Definition first_read_big (o : c17_consumer) : Prop :=
  match o [] with CRead k => (3 <= k)%nat | CStop _ => True end.

Lemma consumer_from_start o fuel pre s1 t' h :
  (length pre <= 3)%nat -> first_read_big o ->
  run_consumer fuel o [] (Tee pre [] s1) = (t', h) ->
  exists sb, tee_buffer t' = pre ++ sb /\ sb ++ c17_unread (t_s t') = c17_unread s1.
Proof.
  intros Hl Hb H. destruct fuel as [|f].
  - cbn in H. inversion H; subst. exists []. cbn. unfold tee_buffer. cbn. auto.
  - cbn [run_consumer] in H. unfold first_read_big in Hb. destruct (o []) as [k|hh].
    + unfold tee_read in H. cbn [t_pre t_buf t_s] in H.
      destruct pre as [|p0 pr] eqn:Hpre.
      * destruct (c17_read k s1) as [[bs e] s'] eqn:Hr.
        apply consumer_pre_empty in H; [|reflexivity]. destruct H as (H1 & sb & H2 & H3).
        cbn [t_buf t_s] in *. exists (bs ++ sb). unfold tee_buffer. rewrite H1, H2. cbn. split; auto.
        rewrite <- app_assoc, H3. exact (read_unread _ _ _ _ _ Hr).
      * rewrite <- Hpre in *. assert (Hn : Nat.min k (length pre) = length pre) by lia.
        rewrite Hn, firstn_all, skipn_all in H.
        apply consumer_pre_empty in H; [|reflexivity]. destruct H as (H1 & sb & H2 & H3).
        cbn [t_buf t_s] in *. exists sb. unfold tee_buffer. rewrite H1, H2. cbn. auto.
    + inversion H; subst. exists []. unfold tee_buffer. cbn. auto.
Qed.

Lemma consumer_answer o fuel : forall hist t t' host,
  run_consumer fuel o hist t = (t', Some host) -> exists hist', o hist' = CStop (Some host).
Proof.
  induction fuel as [|f IH]; intros hist t t' host H.
  - cbn in H. inversion H.
  - cbn [run_consumer] in H. destruct (o hist) as [k|hh] eqn:Ho.
    + destruct (tee_read k t) as [r t1]. eauto.
    + inversion H; subst. eauto.
Qed.

Lemma slice_to_ok site n l : (n <= length l)%nat -> slice_to site n l = Ok (firstn n l).
Proof. intros H. unfold slice_to. apply Nat.leb_le in H. rewrite H. reflexivity. Qed.
Lemma slice_from_ok site n l : (n <= length l)%nat -> slice_from site n l = Ok (skipn n l).
Proof. intros H. unfold slice_from. apply Nat.leb_le in H. rewrite H. reflexivity. Qed.
Lemma index_at_ok site n l : (n < length l)%nat -> exists b, index_at site n l = Ok b /\ nth_error l n = Some b.
Proof.
  intros H. unfold index_at. destruct (nth_error l n) eqn:E; eauto.
  apply nth_error_None in E. lia.
Qed.

Lemma pad_exact (got : list byte) k : length got = k -> got ++ repeat x00 (k - length got) = got.
Proof. intros H. rewrite H, Nat.sub_diag. cbn. apply app_nil_r. Qed.

(* contentLength := int(pre[3])<<8 | int(pre[4]) is below 65536 *)
Lemma content_length_bound b3 b4 : N.lor (N.shiftl (b2n b3) 8) (b2n b4) < 65536.
Proof.
  pose proof (b2n_lt b3). pose proof (b2n_lt b4).
  assert (Hl : N.shiftl (b2n b3) 8 < 2 ^ 16).
  { rewrite N.shiftl_mul_pow2. change (2 ^ 8) with 256. change (2 ^ 16) with 65536. lia. }
  destruct (N.eq_dec (N.lor (N.shiftl (b2n b3) 8) (b2n b4)) 0) as [E|E]; [rewrite E; lia|].
  apply N.log2_lt_pow2 with (b := 16); [lia|].
  rewrite N.log2_lor.
  apply N.max_lub_lt.
  - destruct (N.eq_dec (N.shiftl (b2n b3) 8) 0) as [E1|E1]; [rewrite E1; cbn; lia|].
    apply N.log2_lt_pow2; lia.
  - destruct (N.eq_dec (b2n b4) 0) as [E1|E1]; [rewrite E1; cbn; lia|].
    apply N.log2_lt_pow2; [lia|]. change (2 ^ 16) with 65536. lia.
Qed.

Section TcpSpec.
  Variable fuel : nat.
  Variable consumer : c17_consumer.
  Variable sni : list byte -> option (list byte).

  Definition rewritten_ok (s : c17_script) (addr : list byte) (o : tcp_out) : Prop :=
    exists h ho p, split_host_port addr = Some (ho, p) /\ o_addr o = join_host_port h p /\
      o_err o = false /\
      ((is_http (firstn 3 (c17_unread s)) = true /\
        exists hist host, consumer hist = CStop (Some host) /\ host <> [] /\ h = http_host_part host) \/
       (is_http (firstn 3 (c17_unread s)) = false /\ is_tls (firstn 3 (c17_unread s)) = true /\
        exists hd body, o_replay o = hd ++ body /\ length hd = 5%nat /\
          N.of_nat (length body) = N.lor (N.shiftl (b2n (nth 3 hd x00)) 8) (b2n (nth 4 hd x00)) /\
          sni body = Some h /\ h <> [])).

  Lemma sniff_tcp_spec dl_fail s addr :
    exists o, sniff_tcp fuel consumer sni dl_fail s addr = Ok o /\
      (o_err o = true -> o_addr o = addr /\ o_replay o = [] /\ (dl_fail = true \/ split_host_port addr = None)) /\
      (first_read_big consumer -> o_err o = false -> o_replay o ++ c17_unread (o_rest o) = c17_unread s) /\
      (o_addr o = addr \/ rewritten_ok s addr o).
  Proof.
    unfold sniff_tcp. destruct dl_fail.
    { eexists; split; [reflexivity|]. cbn. repeat split; auto; discriminate. }
    destruct (c17_read_full 3 s) as [[got e] s1] eqn:Hr1.
    apply read_full_spec in Hr1. destruct Hr1 as (Hu1 & Hl1 & He1).
    destruct e as [x|].
    { assert (Hsl : (length got <= length (got ++ repeat x00 (3 - length got)))%nat).
      { rewrite app_length. lia. }
      rewrite (slice_to_ok _ _ _ Hsl). cbn [bind].
      eexists; split; [reflexivity|]. cbn [o_err o_addr o_replay o_rest].
      repeat split; auto; try discriminate.
      intros _ _. rewrite firstn_app, firstn_all, Nat.sub_diag. cbn. rewrite app_nil_r. exact Hu1. }
    specialize (He1 eq_refl). rewrite (pad_exact _ _ He1).
    assert (Hpre : firstn 3 (c17_unread s) = got).
    { rewrite <- Hu1, firstn_app, He1, Nat.sub_diag, <- He1, firstn_all. cbn. apply app_nil_r. }
    destruct (is_http got) eqn:Hh.
    { (* HTTP *)
      destruct (run_consumer fuel consumer [] (Tee got [] s1)) as [t h] eqn:Hc.
      assert (Htr : first_read_big consumer -> tee_buffer t ++ c17_unread (t_s t) = c17_unread s).
      { intros Hb. assert (Hg3 : (length got <= 3)%nat) by lia.
        destruct (consumer_from_start _ _ _ _ _ _ Hg3 Hb Hc) as (sb & Hb1 & Hb2).
        rewrite Hb1, <- app_assoc, Hb2. exact Hu1. }
      destruct h as [[|c0 host']|].
      - eexists; split; [reflexivity|]. cbn. repeat split; auto; discriminate.
      - unfold rewrite_addr. destruct (split_host_port addr) as [[ho p]|] eqn:Hs.
        + eexists; split; [reflexivity|]. cbn [o_err o_addr o_replay o_rest].
          repeat split; auto; try discriminate.
          right. exists (http_host_part (c0 :: host')), ho, p. cbn [o_err o_addr o_replay].
          repeat split; auto.
          * left. rewrite Hpre. split; auto.
            destruct (consumer_answer _ _ _ _ _ _ Hc) as (hist' & Hh').
            exists hist', (c0 :: host'). repeat split; auto. discriminate.
        + eexists; split; [reflexivity|]. cbn. repeat split; auto; discriminate.
      - eexists; split; [reflexivity|]. cbn. repeat split; auto; discriminate. }
    destruct (is_tls got) eqn:Ht.
    2:{ eexists; split; [reflexivity|]. cbn [o_err o_addr o_replay o_rest].
        repeat split; auto; discriminate. }
    (* TLS *)
    rewrite slice_from_ok by (rewrite app_length; cbn; lia). cbn [bind].
    destruct (c17_read_full 2 s1) as [[got2 e2] s2] eqn:Hr2.
    apply read_full_spec in Hr2. destruct Hr2 as (Hu2 & Hl2 & He2).
    assert (Hu12 : (got ++ got2) ++ c17_unread s2 = c17_unread s).
    { rewrite <- app_assoc, Hu2. exact Hu1. }
    destruct e2 as [x|].
    { assert (Hsl : firstn (3 + length got2) (got ++ got2 ++ repeat x00 (2 - length got2)) = got ++ got2).
      { rewrite app_assoc. apply firstn_app_exact. rewrite app_length. lia. }
      rewrite slice_to_ok by (rewrite !app_length; lia). cbn [bind]. rewrite Hsl.
      eexists; split; [reflexivity|]. cbn [o_err o_addr o_replay o_rest].
      repeat split; auto; discriminate. }
    specialize (He2 eq_refl). rewrite (pad_exact _ _ He2).
    destruct (index_at_ok 4 3 (got ++ got2)) as (b3 & Hb3 & Hn3); [rewrite app_length; lia|].
    destruct (index_at_ok 4 4 (got ++ got2)) as (b4 & Hb4 & Hn4); [rewrite app_length; lia|].
    rewrite Hb3, Hb4. cbn [bind].
    set (cl := N.to_nat (N.lor (N.shiftl (b2n b3) 8) (b2n b4))).
    rewrite slice_from_ok by (rewrite !app_length; lia). cbn [bind].
    destruct (c17_read_full cl s2) as [[got3 e3] s3] eqn:Hr3.
    apply read_full_spec in Hr3. destruct Hr3 as (Hu3 & Hl3 & He3).
    assert (Hu123 : ((got ++ got2) ++ got3) ++ c17_unread s3 = c17_unread s).
    { rewrite <- app_assoc, Hu3. exact Hu12. }
    destruct e3 as [x|].
    { assert (Hsl : firstn (5 + length got3) ((got ++ got2) ++ got3 ++ repeat x00 (cl - length got3)) = (got ++ got2) ++ got3).
      { rewrite app_assoc. apply firstn_app_exact. rewrite !app_length. lia. }
      rewrite slice_to_ok by (rewrite !app_length; lia). cbn [bind]. rewrite Hsl.
      eexists; split; [reflexivity|]. cbn [o_err o_addr o_replay o_rest].
      repeat split; auto; discriminate. }
    specialize (He3 eq_refl). rewrite (pad_exact _ _ He3).
    assert (Hbody : skipn 5 ((got ++ got2) ++ got3) = got3).
    { apply skipn_app_exact. rewrite app_length. lia. }
    rewrite slice_from_ok by (rewrite !app_length; lia). cbn [bind]. rewrite Hbody.
    destruct (sni got3) as [[|c0 name']|] eqn:Hsni.
    - eexists; split; [reflexivity|]. cbn [o_err o_addr o_replay o_rest]. repeat split; auto; discriminate.
    - unfold rewrite_addr. destruct (split_host_port addr) as [[ho p]|] eqn:Hs.
      + eexists; split; [reflexivity|]. cbn [o_err o_addr o_replay o_rest].
        repeat split; auto; try discriminate.
        right. exists (c0 :: name'), ho, p. cbn [o_err o_addr o_replay].
        repeat split; auto.
        right. rewrite Hpre. repeat split; auto.
        exists (got ++ got2), got3. repeat split; auto.
        * rewrite app_length. lia.
        * assert (E3 : nth 3 (got ++ got2) x00 = b3) by (apply nth_error_nth; exact Hn3).
          assert (E4 : nth 4 (got ++ got2) x00 = b4) by (apply nth_error_nth; exact Hn4).
          rewrite E3, E4, He3. unfold cl. apply N2Nat.id.
        * discriminate.
      + eexists; split; [reflexivity|]. cbn. repeat split; auto; discriminate.
    - eexists; split; [reflexivity|]. cbn [o_err o_addr o_replay o_rest]. repeat split; auto; discriminate.
  Qed.
End TcpSpec.

(* ---------- theorems about Sniffer.TCP ---------- *)

Lemma tcp_never_panics fuel consumer sni dl_fail s addr :
  exists o, sniff_tcp fuel consumer sni dl_fail s addr = Ok o.
Proof. destruct (sniff_tcp_spec fuel consumer sni dl_fail s addr) as (o & H & _). eauto. Qed.

Lemma tcp_transparent fuel consumer sni dl_fail s addr o :
  first_read_big consumer ->
  sniff_tcp fuel consumer sni dl_fail s addr = Ok o ->
  (o_err o = false -> o_replay o ++ c17_unread (o_rest o) = c17_unread s) /\
  (o_err o = true -> o_addr o = addr /\ o_replay o = [] /\ (dl_fail = true \/ split_host_port addr = None)).
Proof.
  intros Hb H. destruct (sniff_tcp_spec fuel consumer sni dl_fail s addr) as (o' & H' & He & Ht & _).
  rewrite H in H'. inversion H'; subst o'. split; auto.
Qed.

Lemma tcp_rewrite_only_host fuel consumer sni dl_fail s addr o :
  sniff_tcp fuel consumer sni dl_fail s addr = Ok o ->
  o_addr o = addr \/ rewritten_ok consumer sni s addr o.
Proof.
  intros H. destruct (sniff_tcp_spec fuel consumer sni dl_fail s addr) as (o' & H' & _ & _ & Hr).
  rewrite H in H'. inversion H'; subst o'. exact Hr.
Qed.

Lemma tcp_untouched fuel consumer sni dl_fail s addr o :
  sniff_tcp fuel consumer sni dl_fail s addr = Ok o ->
  (is_http (firstn 3 (c17_unread s)) = false /\ is_tls (firstn 3 (c17_unread s)) = false) \/
  ((forall hist host, consumer hist <> CStop (Some host)) /\ (forall b, sni b = None)) \/
  split_host_port addr = None \/ dl_fail = true ->
  o_addr o = addr.
Proof.
  intros H Hc. destruct (sniff_tcp_spec fuel consumer sni dl_fail s addr) as (o' & H' & He & _ & Hr).
  rewrite H in H'. inversion H'; subst o'. clear H'.
  destruct Hr as [Hr|Hr]; auto.
  destruct Hr as (h & ho & p & Hs & Ha & Herr & Hd).
  destruct Hc as [[C1 C2]|[[C1 C2]|[C|C]]].
  - destruct Hd as [[D _]|[_ [D _]]]; congruence.
  - destruct Hd as [[_ (hist & host & D & _)]|[_ [_ (hd & body & _ & _ & _ & D & _)]]].
    + exfalso. eapply C1; eauto.
    + rewrite C2 in D. discriminate.
  - congruence.
  - subst dl_fail. unfold sniff_tcp in H. inversion H; subst. reflexivity.
Qed.

(* ---------- net.SplitHostPort: the port is the suffix after the last colon ---------- *)

Lemma last_index_split c : forall l i, last_index_byte c l = Some i ->
  l = firstn i l ++ c :: skipn (i + 1) l.
Proof.
  induction l as [|x t IH]; intros i H; cbn in H; [discriminate|].
  destruct (last_index_byte c t) as [j|] eqn:E.
  - inversion H; subst. cbn. f_equal. apply IH. reflexivity.
  - destruct (Byte.eqb x c) eqn:Ex; [|discriminate]. inversion H; subst.
    apply Byte.byte_dec_bl in Ex. subst. reflexivity.
Qed.

Lemma split_port_suffix a h p : split_host_port a = Some (h, p) ->
  exists pre, a = pre ++ ch_colon :: p.
Proof.
  unfold split_host_port. destruct (last_index_byte ch_colon a) as [i|] eqn:Hi; [|discriminate].
  pose proof (last_index_split _ _ _ Hi) as Hsp.
  destruct a as [|c0 t]; [discriminate|].
  intros H. assert (Hp : p = skipn (i + 1) (c0 :: t)).
  { destruct (Byte.eqb c0 ch_lbr).
    - destruct (index_byte ch_rbr (c0 :: t)) as [e|]; [|discriminate].
      destruct (Nat.eqb (e + 1) (length (c0 :: t))); [discriminate|].
      destruct (Nat.eqb (e + 1) i); [|discriminate].
      destruct (has_byte ch_lbr (skipn 1 (c0 :: t))); [discriminate|].
      destruct (has_byte ch_rbr (skipn (e + 1) (c0 :: t))); [discriminate|].
      inversion H; reflexivity.
    - destruct (has_byte ch_colon (firstn i (c0 :: t))); [discriminate|].
      destruct (has_byte ch_lbr (c0 :: t)); [discriminate|].
      destruct (has_byte ch_rbr (c0 :: t)); [discriminate|].
      inversion H; reflexivity. }
  subst p. eexists. exact Hsp.
Qed.

Lemma join_port_suffix h p : exists pre, join_host_port h p = pre ++ ch_colon :: p.
Proof.
  unfold join_host_port. destruct (has_byte ch_colon h).
  - exists ([ch_lbr] ++ h ++ [ch_rbr]). rewrite <- !app_assoc. reflexivity.
  - exists h. reflexivity.
Qed.

Lemma tcp_port_kept fuel consumer sni dl_fail s addr o ho p :
  sniff_tcp fuel consumer sni dl_fail s addr = Ok o ->
  split_host_port addr = Some (ho, p) ->
  exists pre, o_addr o = pre ++ ch_colon :: p.
Proof.
  intros H Hs. destruct (tcp_rewrite_only_host _ _ _ _ _ _ _ H) as [E|(h & ho' & p' & Hs' & Ha & _)].
  - rewrite E. eapply split_port_suffix; eauto.
  - rewrite Hs in Hs'. inversion Hs'; subst. rewrite Ha. apply join_port_suffix.
Qed.
