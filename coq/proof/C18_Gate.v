(* C18 proofs, part 2: the credential gates of the SOCKS5 and HTTP inbounds. *)
From Hy Require Import model.C18_Inbounds proof.C18_Streams.
From Coq Require Import ZArith Lia ZifyBool ZifyNat ZifyN.
Local Open Scope N_scope.

(* ---------- a trace monitor: every upstream open is covered by an accepted, authentic AuthFunc call ---------- *)
Fixpoint sgated (f : list byte -> list byte -> bool) (seen : bool) (l : list c18_sev) : bool :=
  match l with
  | [] => true
  | SAuth u p ok :: t => Bool.eqb ok (f u p) && sgated f (seen || ok) t
  | STcp _ _ _ :: t | SUdp :: t => seen && sgated f seen t
  | _ :: t => sgated f seen t
  end.

Lemma sgated_sound f : forall l seen, sgated f seen l = true ->
  forall pre e post, l = pre ++ e :: post -> c18_s_upstream e = true ->
  seen = true \/ exists u p, In (SAuth u p true) pre /\ f u p = true.
Proof.
  induction l as [|x t IH]; intros seen G pre e post E U.
  - destruct pre; discriminate.
  - destruct pre as [|y pre]; cbn [app] in E; injection E as -> ->.
    + destruct e; cbn in U; try discriminate; cbn in G; apply andb_prop in G; destruct G as [G _]; auto.
    + assert (forall seen', sgated f seen' (pre ++ e :: post) = true ->
              seen' = true \/ exists u p, In (SAuth u p true) pre /\ f u p = true) as K
        by (intros s' G'; eapply IH; eauto).
      destruct y; cbn in G;
        try (destruct (K _ G) as [->|(u & p & I & F)]; [auto | right; exists u, p; split; [right|]; auto]; fail).
      * apply andb_prop in G. destruct G as [G1 G2].
        destruct (K _ G2) as [S|(u' & p' & I & F)].
        -- apply orb_prop in S. destruct S as [->| ->]; [auto|].
           right. exists u, p. split; [left; reflexivity|]. apply eqb_prop in G1. auto.
        -- right; exists u', p'; split; [right|]; auto.
      * apply andb_prop in G. destruct G as [-> _]. auto.
      * apply andb_prop in G. destruct G as [-> _]. auto.
Qed.

Lemma sgated_app f : forall a b seen, sgated f seen (a ++ b) = true ->
  sgated f seen a = true.
Proof.
  induction a as [|x a IH]; intros b seen G; [reflexivity|].
  destruct x; cbn in *; eauto.
  - apply andb_prop in G. destruct G as [-> G]. cbn. eauto.
  - apply andb_prop in G. destruct G as [-> G]. cbn. eauto.
  - apply andb_prop in G. destruct G as [-> G]. cbn. eauto.
Qed.

(* negotiate: the events it produced are gated, and success under AuthFunc means an accepted call *)
Lemma negotiate_gated cfg f s ev r :
  sc_auth cfg = Some f -> c18_negotiate cfg s = (ev, r) ->
  forall rest, (match r with Some _ => sgated f true rest | None => sgated f false rest end) = true ->
  sgated f false (ev ++ rest) = true.
Proof.
  intros Hf. unfold c18_negotiate. rewrite Hf.
  repeat match goal with
  | |- context [match ?x with _ => _ end] =>
      tryif is_var x then fail else
      match type of x with
      | option _ => destruct x as [[? ?]|] eqn:?
      | bool => destruct x eqn:?
      end
  end; intros H; injection H as <- <-; intros rest G; cbn [app sgated orb andb]; auto;
  repeat match goal with H : f _ _ = _ |- _ => rewrite H end; cbn; auto.
Qed.

Lemma socks_gated cfg f s : sc_auth cfg = Some f -> sgated f false (c18_socks cfg s) = true.
Proof.
  intros Hf. unfold c18_socks.
  destruct (c18_negotiate cfg s) as [ev r] eqn:N.
  destruct r as [s1|]; [|eapply negotiate_gated; eauto].
  destruct (c18_request s1) as [[[[[cmd atyp] addr] port] s2]|]; [|eapply negotiate_gated; eauto].
  repeat match goal with
  | |- context [if ?x then _ else _] => destruct x eqn:?
  end; eapply negotiate_gated; eauto.
Qed.

Lemma socks_gate : forall cfg f s,
  sc_auth cfg = Some f ->
  forall pre e post, c18_socks cfg s = pre ++ e :: post -> c18_s_upstream e = true ->
  exists u p, In (SAuth u p true) pre /\ f u p = true.
Proof.
  intros cfg f s Hf pre e post E U.
  destruct (sgated_sound f _ false (socks_gated cfg f s Hf) pre e post E U) as [X|X]; [discriminate|exact X].
Qed.

(* every AuthFunc event in the trace is authentic *)
Lemma sgated_auth f : forall l seen, sgated f seen l = true ->
  forall u p ok, In (SAuth u p ok) l -> ok = f u p.
Proof.
  induction l as [|x t IH]; intros seen G u p ok I; [destruct I|].
  destruct I as [->|I].
  - cbn in G. apply andb_prop in G. destruct G as [G _]. now apply eqb_prop in G.
  - destruct x; cbn in G; try (eapply IH; eauto; fail);
      apply andb_prop in G; destruct G as [_ G]; eapply IH; eauto.
Qed.

Lemma socks_auth_authentic : forall cfg f s u p ok,
  sc_auth cfg = Some f -> In (SAuth u p ok) (c18_socks cfg s) -> ok = f u p.
Proof. intros. eapply sgated_auth; [eapply socks_gated; eauto|eauto]. Qed.

(* the client that does not offer USER/PASS *)
Lemma existsb_notin (ms : list byte) : ~ In x02 ms -> existsb (Byte.eqb x02) ms = false.
Proof.
  induction ms as [|m t IH]; intros H; [reflexivity|]. cbn [existsb].
  destruct (Byte.eqb x02 m) eqn:E.
  - apply Byte.byte_dec_bl in E. exfalso. apply H. left. auto.
  - cbn [orb]. apply IH. intros I. apply H. right. auto.
Qed.

Lemma socks_no_userpass_offer : forall cfg f s (ms tail : list byte),
  sc_auth cfg = Some f ->
  (1 <= length ms <= 255)%nat -> ~ In x02 ms ->
  concat s = x05 :: n2b (N.of_nat (length ms)) :: ms ++ tail ->
  c18_socks cfg s = [SReply [x05; xff]; SClose].
Proof.
  intros cfg f s ms tail Hf Hl Hn Hs.
  unfold c18_socks, c18_negotiate.
  pose proof (c18_read_full_spec s 2) as R. rewrite Hs in R.
  destruct (c18_read_full 2 s) as [[bb s1]|]; [|cbn in R; lia].
  destruct R as (-> & R2 & _). cbn [firstn skipn nth] in *.
  cbn [Byte.eqb negb]. change (Byte.eqb x05 x05) with true. cbn [negb].
  assert (B : c18_blen (n2b (N.of_nat (length ms))) = length ms).
  { unfold c18_blen. rewrite b2n_n2b_small by lia. lia. }
  destruct (Byte.eqb (n2b (N.of_nat (length ms))) x00) eqn:Z.
  { apply Byte.byte_dec_bl in Z. apply (f_equal b2n) in Z. rewrite b2n_n2b_small in Z by lia.
    change (b2n x00) with 0 in Z. lia. }
  rewrite B.
  pose proof (c18_read_full_spec s1 (length ms)) as R. rewrite R2 in R.
  destruct (c18_read_full (length ms) s1) as [[ms' s2]|]; [|rewrite app_length in R; lia].
  destruct R as (-> & _ & _). rewrite firstn_app, Nat.sub_diag, firstn_all. cbn [firstn]. rewrite app_nil_r.
  rewrite Hf. rewrite existsb_notin by auto. reflexivity.
Qed.

(* chunking independence of the whole SOCKS5 front end *)
Lemma socks_chunking : forall cfg s1 s2, concat s1 = concat s2 -> c18_socks cfg s1 = c18_socks cfg s2.
Proof.
  intros cfg s1 s2 H.
  assert (RF : forall n a b, concat a = concat b ->
            match c18_read_full n a, c18_read_full n b with
            | Some (r1, t1), Some (r2, t2) => r1 = r2 /\ concat t1 = concat t2
            | None, None => True
            | _, _ => False
            end) by (intros; now apply c18_read_full_chunking).
  assert (RQ : forall a b, concat a = concat b ->
            match c18_request a, c18_request b with
            | Some (c1, y1, a1, p1, t1), Some (c2, y2, a2, p2, t2) =>
                c1 = c2 /\ y1 = y2 /\ a1 = a2 /\ p1 = p2 /\ concat t1 = concat t2
            | None, None => True
            | _, _ => False
            end).
  { intros a b E. unfold c18_request.
    pose proof (RF 4%nat a b E) as R.
    destruct (c18_read_full 4 a) as [[bb a1]|], (c18_read_full 4 b) as [[bb' b1]|]; try tauto.
    destruct R as [<- E1].
    destruct (negb (Byte.eqb (nth 0 bb x00) x05)); [exact I|].
    assert (AR : match c18_addr_read (nth 3 bb x00) a1, c18_addr_read (nth 3 bb x00) b1 with
                 | Some (r1, t1), Some (r2, t2) => r1 = r2 /\ concat t1 = concat t2
                 | None, None => True
                 | _, _ => False
                 end).
    { unfold c18_addr_read.
      destruct (Byte.eqb (nth 3 bb x00) x01); [apply RF; auto|].
      destruct (Byte.eqb (nth 3 bb x00) x04); [apply RF; auto|].
      destruct (Byte.eqb (nth 3 bb x00) x03); [|exact I].
      pose proof (RF 1%nat a1 b1 E1) as R1.
      destruct (c18_read_full 1 a1) as [[dl a2]|], (c18_read_full 1 b1) as [[dl' b2]|]; try tauto.
      destruct R1 as [<- E2]. destruct (Byte.eqb (nth 0 dl x00) x00); [exact I|]. apply RF; auto. }
    destruct (c18_addr_read (nth 3 bb x00) a1) as [[ad a3]|], (c18_addr_read (nth 3 bb x00) b1) as [[ad' b3]|]; try tauto.
    destruct AR as [<- E3].
    pose proof (RF 2%nat a3 b3 E3) as R2.
    destruct (c18_read_full 2 a3) as [[po a4]|], (c18_read_full 2 b3) as [[po' b4]|]; try tauto.
    all: try (destruct R2 as [<- E4]; auto). }
  assert (NG : match c18_negotiate cfg s1, c18_negotiate cfg s2 with
               | (e1, Some t1), (e2, Some t2) => e1 = e2 /\ concat t1 = concat t2
               | (e1, None), (e2, None) => e1 = e2
               | _, _ => False
               end).
  { unfold c18_negotiate.
    pose proof (RF 2%nat s1 s2 H) as R.
    destruct (c18_read_full 2 s1) as [[bb a1]|], (c18_read_full 2 s2) as [[bb' b1]|]; try tauto.
    destruct R as [<- E1].
    destruct (negb (Byte.eqb (nth 0 bb x00) x05)); [reflexivity|].
    destruct (Byte.eqb (nth 1 bb x00) x00); [reflexivity|].
    pose proof (RF (c18_blen (nth 1 bb x00)) a1 b1 E1) as R.
    destruct (c18_read_full _ a1) as [[ms a2]|], (c18_read_full _ b1) as [[ms' b2]|]; try tauto.
    destruct R as [<- E2].
    destruct (negb (existsb _ ms)); [reflexivity|].
    destruct (sc_auth cfg) as [f|]; [|auto].
    pose proof (RF 2%nat a2 b2 E2) as R.
    destruct (c18_read_full 2 a2) as [[b2' a3]|], (c18_read_full 2 b2) as [[b2'' b3]|]; try tauto.
    destruct R as [<- E3].
    destruct (negb (Byte.eqb (nth 0 b2' x00) x01)); [reflexivity|].
    destruct (Byte.eqb (nth 1 b2' x00) x00); [reflexivity|].
    pose proof (RF (c18_blen (nth 1 b2' x00) + 1)%nat a3 b3 E3) as R.
    destruct (c18_read_full _ a3) as [[ub a4]|], (c18_read_full _ b3) as [[ub' b4]|]; try tauto.
    destruct R as [<- E4].
    destruct (Byte.eqb _ x00); [reflexivity|].
    pose proof (RF (c18_blen (nth (c18_blen (nth 1 b2' x00)) ub x00)) a4 b4 E4) as R.
    destruct (c18_read_full _ a4) as [[pw a5]|], (c18_read_full _ b4) as [[pw' b5]|]; try tauto.
    destruct R as [<- E5].
    destruct (f _ pw); auto. }
  unfold c18_socks.
  destruct (c18_negotiate cfg s1) as [e1 [t1|]], (c18_negotiate cfg s2) as [e2 [t2|]]; try tauto.
  - destruct NG as [<- E]. pose proof (RQ t1 t2 E) as Q.
    destruct (c18_request t1) as [[[[[c1 y1] a1] p1] u1]|], (c18_request t2) as [[[[[c2 y2] a2] p2] u2]|]; try tauto.
    destruct Q as (<- & <- & <- & <- & ->). reflexivity.
  - now subst.
Qed.

(* ---------- HTTP ---------- *)
(* monitor: each upstream open consumes one accepted, authentic AuthFunc call made since the last open *)
Fixpoint hgated (f : list byte -> list byte -> bool) (credit : bool) (l : list c18_hev) : bool :=
  match l with
  | [] => true
  | HAuth u p ok :: t => Bool.eqb ok (f u p) && hgated f ok t
  | HTcp _ :: t => credit && hgated f false t
  | _ :: t => hgated f credit t
  end.

Lemma hgated_weaken f : forall l, hgated f false l = true -> hgated f true l = true.
Proof.
  induction l as [|x t IH]; intros G; [reflexivity|].
  destruct x; cbn in *; auto. discriminate.
Qed.

(* handleRequest dials at most once, so one credit covers it *)
Lemma handle_request_gated f cfg r : forall rest,
  hgated f false rest = true ->
  hgated f true (fst (c18_handle_request cfg r) ++ rest) = true.
Proof.
  intros rest G. unfold c18_handle_request.
  repeat match goal with |- context [if ?x then _ else _] => destruct x end; cbn; auto using hgated_weaken.
Qed.

Lemma http_loop_gated cfg f tail : hc_auth cfg = Some f ->
  forall reqs, hgated f false (c18_http_loop cfg reqs tail) = true.
Proof.
  intros Hf. unfold c18_http_loop. induction reqs as [|r t IH]; [reflexivity|].
  cbn [c18_http_loop_g]. unfold c18_http_one, c18_gate_all, c18_h_authev. rewrite Hf.
  destruct (c18_basic_creds (hr_pauth r)) as [[u p]|]; [|reflexivity].
  destruct (f u p) eqn:F; cbn [negb]; [|cbn; rewrite F; reflexivity].
  destruct (c18_is_connect r).
  - unfold c18_handle_connect. destruct (hc_dial_ok cfg); cbn; rewrite F; reflexivity.
  - destruct (c18_handle_request cfg r) as [ev ka] eqn:HR.
    assert (K : forall rest, hgated f false rest = true -> hgated f true (ev ++ rest) = true).
    { intros rest G. pose proof (handle_request_gated f cfg r rest G) as X. rewrite HR in X. exact X. }
    destruct ka.
    + rewrite app_nil_r. cbn [app hgated]. rewrite F. cbn [Bool.eqb andb]. apply K. exact IH.
    + cbn [app hgated]. rewrite F. cbn [Bool.eqb andb]. apply K. reflexivity.
Qed.

Lemma hgated_sound f : forall l credit, hgated f credit l = true ->
  forall pre a post, l = pre ++ HTcp a :: post ->
  (credit = true /\ Forall (fun e => match e with HAuth _ _ _ | HTcp _ => False | _ => True end) pre) \/
  exists pre1 u p mid, pre = pre1 ++ HAuth u p true :: mid /\ f u p = true /\
                       Forall (fun e => match e with HAuth _ _ _ | HTcp _ => False | _ => True end) mid.
Proof.
  induction l as [|x t IH]; intros credit G pre a post E.
  - destruct pre; discriminate.
  - destruct pre as [|y pre]; cbn [app] in E; injection E as -> ->.
    + cbn in G. apply andb_prop in G. destruct G as [-> _]. left. split; auto.
    + destruct y; cbn in G.
      * apply andb_prop in G. destruct G as [G1 G2]. apply eqb_prop in G1.
        destruct (IH _ G2 pre a post eq_refl) as [[-> Fa]|(pre1 & u' & p' & mid & -> & F & Fa)].
        -- right. exists [], u, p, pre. repeat split; auto.
        -- right. exists (HAuth u p ok :: pre1), u', p', mid. repeat split; auto.
      * destruct (IH _ G pre a post eq_refl) as [[-> Fa]|(pre1 & u' & p' & mid & -> & F & Fa)].
        -- left. split; auto.
        -- right. exists (HReply status :: pre1), u', p', mid. repeat split; auto.
      * apply andb_prop in G. destruct G as [_ G2].
        destruct (IH _ G2 pre a post eq_refl) as [[C _]|(pre1 & u' & p' & mid & -> & F & Fa)]; [discriminate|].
        right. exists (HTcp addr :: pre1), u', p', mid. repeat split; auto.
      * destruct (IH _ G pre a post eq_refl) as [[-> Fa]|(pre1 & u' & p' & mid & -> & F & Fa)].
        -- left. split; auto.
        -- right. exists (HRelay b :: pre1), u', p', mid. repeat split; auto.
      * destruct (IH _ G pre a post eq_refl) as [[-> Fa]|(pre1 & u' & p' & mid & -> & F & Fa)].
        -- left. split; auto.
        -- right. exists (HClose :: pre1), u', p', mid. repeat split; auto.
Qed.

(* whole connection, any number of keep-alive requests, any chunking, any buffered part *)
Lemma http_gate : forall cfg f reqs h s,
  hc_auth cfg = Some f ->
  forall pre a post, c18_http cfg reqs h s = pre ++ HTcp a :: post ->
  exists pre1 u p mid, pre = pre1 ++ HAuth u p true :: mid /\ f u p = true /\
    Forall (fun e => match e with HAuth _ _ _ | HTcp _ => False | _ => True end) mid.
Proof.
  intros cfg f reqs h s Hf pre a post E. unfold c18_http in E.
  destruct (c18_bufio_split h s) as [[b rest]|].
  - destruct (hgated_sound f _ false (http_loop_gated cfg f _ Hf reqs) pre a post E) as [[C _]|X]; [discriminate|exact X].
  - destruct pre as [|? [|? ?]]; discriminate.
Qed.

(* a request without acceptable credentials: 407, close, nothing else - whatever follows on the wire *)
Lemma http_reject : forall cfg f r t tail,
  hc_auth cfg = Some f -> c18_auth_ok f (hr_pauth r) = false ->
  c18_http_loop cfg (r :: t) tail =
    (match c18_basic_creds (hr_pauth r) with Some (u, p) => [HAuth u p false] | None => [] end)
    ++ [HReply 407; HClose].
Proof.
  intros cfg f r t tail Hf Ha. unfold c18_http_loop. cbn [c18_http_loop_g].
  unfold c18_http_one, c18_gate_all, c18_h_authev, c18_auth_ok in *. rewrite Hf.
  destruct (c18_basic_creds (hr_pauth r)) as [[u p]|]; [rewrite Ha|]; reflexivity.
Qed.

(* the bufio reader hands over exactly what follows the header block *)
Lemma bufio_split_spec : forall s h b rest,
  c18_bufio_split h s = Some (b, rest) -> b ++ concat rest = skipn h (concat s) /\ (h <= length (concat s))%nat.
Proof.
  induction s as [|c t IH]; intros h b rest H.
  - destruct h; cbn in H; [injection H as <- <-; auto|discriminate].
  - destruct h as [|h']; [cbn in H; injection H as <- <-; cbn; split; [auto|lia]|].
    cbn [c18_bufio_split] in H. cbn [concat]. rewrite app_length.
    destruct (Nat.leb (S h') (length c)) eqn:E.
    + apply Nat.leb_le in E. injection H as <- <-.
      rewrite skipn_app. replace (S h' - length c)%nat with 0%nat by lia. cbn [skipn]. split; [auto|lia].
    + apply Nat.leb_gt in E. apply IH in H. destruct H as [H1 H2].
      rewrite skipn_app, (skipn_all2 (n:=S h') c) by lia. cbn [app]. split; [auto|lia].
Qed.

Lemma connect_pipelining : forall cfg r t h s,
  c18_is_connect r = true -> hc_dial_ok cfg = true ->
  (match hc_auth cfg with Some f => c18_auth_ok f (hr_pauth r) = true | None => True end) ->
  (h <= length (concat s))%nat ->
  exists aev, c18_http cfg (r :: t) h s =
              aev ++ [HTcp (c18_connect_addr r); HReply 200; HRelay (skipn h (concat s)); HClose] /\
              Forall (fun e => match e with HAuth _ _ true => True | _ => False end) aev.
Proof.
  intros cfg r t h s Hc Hd Ha Hh. unfold c18_http.
  destruct (c18_bufio_split h s) as [[b rest]|] eqn:B.
  - apply bufio_split_spec in B. destruct B as [B _].
    unfold c18_http_loop. cbn [c18_http_loop_g].
    unfold c18_http_one, c18_gate_all, c18_handle_connect, c18_h_authev, c18_auth_ok in *. rewrite Hc, Hd.
    rewrite c18_copy_all_spec. unfold c18_pre_remaining. cbn [pr_buf pr_conn]. rewrite B.
    destruct (hc_auth cfg) as [f|].
    + destruct (c18_basic_creds (hr_pauth r)) as [[u p]|]; [|discriminate]. rewrite Ha. cbn [negb].
      eexists. split; [reflexivity|]. repeat constructor.
    + cbn [negb]. exists []. split; [reflexivity|constructor].
  - exfalso. revert h Hh B. induction s as [|c s IH]; intros h Hh B.
    + destruct h; cbn in *; [discriminate|lia].
    + destruct h as [|h']; [discriminate|]. cbn [c18_bufio_split] in B. cbn [concat] in Hh. rewrite app_length in Hh.
      destruct (Nat.leb (S h') (length c)) eqn:E; [discriminate|]. apply Nat.leb_gt in E.
      eapply (IH (S h' - length c)%nat); [lia|exact B].
Qed.

(* the body framing a CONNECT declares does not influence anything the proxy does *)
Lemma connect_framing_irrelevant : forall cfg r fr t h s,
  c18_is_connect r = true -> c18_http cfg (c18_set_framing fr r :: t) h s = c18_http cfg (r :: t) h s.
Proof.
  intros cfg r fr t h s Hc. unfold c18_http. destruct (c18_bufio_split h s) as [[b rest]|]; [|reflexivity].
  unfold c18_http_loop. cbn [c18_http_loop_g].
  assert (E : c18_http_one c18_gate_all cfg (c18_set_framing fr r) (mkPre b rest) =
              c18_http_one c18_gate_all cfg r (mkPre b rest)).
  { destruct r as [m u fo sc uh ho p k st f0]. unfold c18_http_one, c18_set_framing, c18_is_connect in *.
    cbn [hr_method hr_uri hr_form hr_scheme hr_uhost hr_host hr_pauth hr_keepalive hr_status hr_framing] in *.
    rewrite Hc. reflexivity. }
  rewrite E. reflexivity.
Qed.

Lemma script_discard_spec : forall s k, concat (c18_script_discard k s) = skipn k (concat s).
Proof.
  induction s as [|c t IH]; intros k; [destruct k; reflexivity|].
  cbn [c18_script_discard concat]. rewrite skipn_app.
  destruct (Nat.leb k (length c)) eqn:E.
  - apply Nat.leb_le in E. replace (k - length c)%nat with 0%nat by lia. reflexivity.
  - apply Nat.leb_gt in E. rewrite IH, (skipn_all2 (n:=k) c) by lia. reflexivity.
Qed.

Lemma pre_discard_spec : forall k r, c18_pre_remaining (c18_pre_discard k r) = skipn k (c18_pre_remaining r).
Proof.
  intros k [b s]. unfold c18_pre_discard, c18_pre_remaining. cbn [pr_buf pr_conn]. rewrite skipn_app.
  destruct (Nat.leb k (length b)) eqn:E; cbn [pr_buf pr_conn].
  - apply Nat.leb_le in E. replace (k - length b)%nat with 0%nat by lia. reflexivity.
  - apply Nat.leb_gt in E. rewrite script_discard_spec, (skipn_all2 (n:=k) b) by lia. reflexivity.
Qed.

(* a dispatch that closed req.Body of a CONNECT (body.Close discards the declared body from the shared
   reader) would deliver the stream with its first k bytes missing - never the whole of a non-empty tail *)
Lemma connect_body_close_truncates : forall k tail,
  c18_copy_all (c18_pre_discard k tail) = skipn k (c18_pre_remaining tail) /\
  ((0 < k)%nat -> c18_pre_remaining tail <> [] -> c18_copy_all (c18_pre_discard k tail) <> c18_pre_remaining tail).
Proof.
  intros k tail. rewrite c18_copy_all_spec, pre_discard_spec. split; [reflexivity|].
  intros Hk Hne E. apply (f_equal (@length byte)) in E. rewrite skipn_length in E.
  destruct (c18_pre_remaining tail); [congruence|]. cbn [length] in E. lia.
Qed.

(* whatever sizes the relay reads with, through cachedConn the upstream-bound bytes come out in order *)
Lemma cached_reads_in_order : forall buffered rest sizes out r',
  c18_drain sizes (mkPre buffered rest) = (out, r') ->
  out ++ c18_pre_remaining r' = buffered ++ concat rest.
Proof. intros. apply c18_drain_spec in H. exact H. Qed.

(* ---------- constants of the wire grammar, regenerated from the Go packages on every run ---------- *)
From Hy Require Import gen.ParamsC18.
Lemma c18_params_ok :
  [C18_socks_ver; C18_socks_userpass_ver; C18_method_none; C18_method_userpass; C18_method_unsupported;
   C18_cmd_connect; C18_cmd_udp; C18_atyp_v4; C18_atyp_domain; C18_atyp_v6;
   C18_rep_success; C18_rep_server_failure; C18_rep_host_unreachable; C18_rep_cmd_not_supported;
   C18_userpass_ok; C18_userpass_fail; C18_lower_extra; C18_lower_extra_count]
  = [b2n x05; b2n x01; b2n x00; b2n x02; b2n xff;
     b2n x01; b2n x03; b2n x01; b2n x03; b2n x04;
     b2n x00; b2n x01; b2n x04; b2n x07;
     b2n x00; b2n x01; 304; 1].
Proof. reflexivity. Qed.

(* ---------- non-vacuity ---------- *)
Definition ex_cfg : c18_scfg :=
  mkSCfg (Some (fun u p => match u, p with [x75], [x70] => true | _, _ => false end)) false true true true.

(* greeting {02}, USER/PASS u/p, CONNECT 10.0.0.1:8080, two pipelined bytes - split into odd chunks *)
Example socks_ex_accept :
  c18_socks ex_cfg [[x05]; [x01; x02; x01]; []; [x01; x75; x01]; [x70; x05; x01; x00; x01; x0a; x00]; [x00; x01; x1f; x90; xaa]; [xbb]]
  = [SReply [x05; x02]; SAuth [x75] [x70] true; SReply [x01; x00]; STcp x01 [x0a; x00; x00; x01] [x1f; x90];
     SReply (c18_rep x00); SRelay [xaa; xbb]; SClose].
Proof. vm_compute. reflexivity. Qed.

(* wrong password: failure status, close, no upstream *)
Example socks_ex_reject :
  c18_socks ex_cfg [[x05; x01; x02; x01; x01; x75; x01; x71; x05; x01; x00; x01; x0a; x00; x00; x01; x1f; x90]]
  = [SReply [x05; x02]; SAuth [x75] [x71] false; SReply [x01; x01]; SClose].
Proof. vm_compute. reflexivity. Qed.

(* skipping the USER/PASS message: the request bytes are parsed as a (bad) USER/PASS message *)
Example socks_ex_skip :
  c18_socks ex_cfg [[x05; x01; x02]; [x05; x01; x00; x01; x0a; x00; x00; x01; x1f; x90]]
  = [SReply [x05; x02]; SClose].
Proof. vm_compute. reflexivity. Qed.

Definition ex_hcfg : c18_hcfg :=
  mkHCfg (Some (fun u p => match u, p with [x75], [x70] => true | _, _ => false end)) true.
Definition ex_a1 : list byte := [x61; x3a; x31].                      (* "a:1" *)
(* "bAsic dTpw" = u:p ; CONNECT a:1 with "xy" buffered and "z" still on the wire *)
Example http_ex_accept :
  c18_http ex_hcfg [mkHReq c18_s_connect ex_a1 FAuthority [] ex_a1 ex_a1
                           (Some [x62; x41; x73; x69; x63; x20; x64; x54; x70; x77]) false 200 (FrLen 2)]
           3 [[x00; x00]; [x00; x78; x79]; [x7a]]
  = [HAuth [x75] [x70] true; HTcp ex_a1; HReply 200; HRelay [x78; x79; x7a]; HClose].
Proof. vm_compute. reflexivity. Qed.

Example http_ex_reject :
  c18_http ex_hcfg [mkHReq c18_s_connect ex_a1 FAuthority [] ex_a1 ex_a1
                           (Some [x42; x61; x73; x69; x63; x20; x64; x54; x70; x78]) false 200 FrNone]
           3 [[x00; x00; x00; x78]]
  = [HAuth [x75] [x71] false; HReply 407; HClose].
Proof. vm_compute. reflexivity. Qed.

(* ---------- the gate, request by request and for every request-target form ---------- *)
Lemma handle_request_no_auth cfg r : forall u p ok, ~ In (HAuth u p ok) (fst (c18_handle_request cfg r)).
Proof.
  intros u p ok. unfold c18_handle_request.
  repeat match goal with |- context [if ?x then _ else _] => destruct x end; cbn; intuition discriminate.
Qed.

(* one turn of dispatch's loop: an upstream dial while handling request r means that r itself carried
   credentials, AuthFunc was called on exactly those, accepted them, and that call is the first thing
   that happened for r - whatever r's method, request-target, form, scheme and hosts are *)
Lemma http_one_gate : forall cfg f r tail a,
  hc_auth cfg = Some f ->
  In (HTcp a) (fst (c18_http_one c18_gate_all cfg r tail)) ->
  exists u p ev, c18_basic_creds (hr_pauth r) = Some (u, p) /\ f u p = true /\
                 fst (c18_http_one c18_gate_all cfg r tail) = HAuth u p true :: ev /\
                 (forall u' p' ok', ~ In (HAuth u' p' ok') ev).
Proof.
  intros cfg f r tail a Hf. unfold c18_http_one, c18_gate_all, c18_h_authev. rewrite Hf.
  destruct (c18_basic_creds (hr_pauth r)) as [[u p]|].
  - destruct (f u p) eqn:F; cbn [negb].
    + intros _. exists u, p.
      destruct (c18_is_connect r).
      * eexists. split; [reflexivity|]. split; [exact F|]. split; [reflexivity|].
        intros u' p' ok'. unfold c18_handle_connect.
        destruct (hc_dial_ok cfg); cbn; intuition discriminate.
      * destruct (c18_handle_request cfg r) as [ev ka] eqn:HR. cbn [fst app].
        eexists. split; [reflexivity|]. split; [exact F|]. split; [reflexivity|]. intros u' p' ok' I.
        apply in_app_or in I. destruct I as [I|I].
        -- apply (handle_request_no_auth cfg r u' p' ok'). rewrite HR. exact I.
        -- destruct ka; cbn in I; intuition discriminate.
    + cbn. intuition discriminate.
  - cbn. intuition discriminate.
Qed.

(* on the whole connection: if anything is dialled while or after r is handled, r's credentials were accepted *)
Lemma http_gate_every_form : forall cfg f method uri form scheme uhost host pauth ka st fr t tail a,
  hc_auth cfg = Some f ->
  In (HTcp a) (c18_http_loop cfg (mkHReq method uri form scheme uhost host pauth ka st fr :: t) tail) ->
  c18_auth_ok f pauth = true.
Proof.
  intros cfg f method uri form scheme uhost host pauth ka st fr t tail a Hf.
  unfold c18_http_loop. cbn [c18_http_loop_g]. unfold c18_http_one, c18_gate_all, c18_h_authev, c18_auth_ok.
  rewrite Hf. cbn [hr_pauth].
  destruct (c18_basic_creds pauth) as [[u p]|].
  - destruct (f u p); [reflexivity|]. cbn. intuition discriminate.
  - cbn. intuition discriminate.
Qed.

(* a plain (non-CONNECT) request without a scheme - origin-form, asterisk-form - never reaches an upstream,
   credentials or not, gate or not: handleRequest answers 400 *)
Lemma plain_no_scheme_no_dial : forall gated cfg r tail a,
  c18_is_connect r = false -> hr_scheme r = [] ->
  ~ In (HTcp a) (fst (c18_http_one gated cfg r tail)).
Proof.
  intros gated cfg r tail a Hc Hs. unfold c18_http_one, c18_h_authev.
  assert (HR : c18_handle_request cfg r = ([HReply 400], false)).
  { unfold c18_handle_request. rewrite Hs. reflexivity. }
  rewrite Hc, HR.
  destruct (gated r); [|cbn; intuition discriminate].
  destruct (hc_auth cfg) as [f|]; [|cbn; intuition discriminate].
  destruct (c18_basic_creds (hr_pauth r)) as [[u p]|]; [|cbn; intuition discriminate].
  destruct (f u p); cbn; intuition discriminate.
Qed.

(* ... but a CONNECT is handed to handleConnect whatever its target looks like: with an empty URL.Host
   (origin-form "CONNECT /x", empty target, "?q") it dials ":80" *)
Lemma connect_hostless_dials : forall gated cfg r tail,
  c18_is_connect r = true -> hr_uhost r = [] -> gated r = false ->
  fst (c18_http_one gated cfg r tail) = c18_handle_connect cfg r tail /\
  c18_connect_addr r = [x3a; x38; x30] /\
  In (HTcp [x3a; x38; x30]) (fst (c18_http_one gated cfg r tail)).
Proof.
  intros gated cfg r tail Hc Hu Hg. unfold c18_http_one. rewrite Hg, Hc. cbn [negb app fst].
  assert (A : c18_connect_addr r = [x3a; x38; x30]) by (unfold c18_connect_addr; rewrite Hu; reflexivity).
  repeat split; auto. unfold c18_handle_connect. rewrite A. left. reflexivity.
Qed.

(* An exemption of "requests that are not proxy requests" keyed on the parsed target (URL.Host empty) placed
   in front of the CONNECT branch is not harmless: a CONNECT in origin-form carries no credentials at all
   and is dialled.  (gated = the exempting variant; the code as it is gates every request.) *)
Definition c18_gate_hosted (r : c18_hreq) : bool := negb (c18_is_nil (hr_uhost r)).
Definition ex_connect_origin : c18_hreq :=
  mkHReq c18_s_connect [x2f; x78] FOrigin [] [] [] None false 200 FrNone.              (* CONNECT /x *)
Lemma hosted_exemption_refuted :
  c18_form_ok ex_connect_origin = true /\ hr_pauth ex_connect_origin = None /\
  c18_http_loop_g c18_gate_hosted ex_hcfg [ex_connect_origin] (mkPre [] [])
    = [HTcp [x3a; x38; x30]; HReply 200; HRelay []; HClose] /\
  c18_http_loop ex_hcfg [ex_connect_origin] (mkPre [] []) = [HReply 407; HClose].
Proof. vm_compute. repeat split; reflexivity. Qed.

(* the forms at work on the code as it is (accepted credentials "bAsic dTpw"): *)
Definition ex_good : option (list byte) := Some [x62; x41; x73; x69; x63; x20; x64; x54; x70; x77].
Definition ex_get : list byte := [x47; x45; x54].
Definition ex_hx : list byte := [x68; x2e; x78].                                       (* "h.x" *)
(* GET http://h.x/ : absolute-form, dialled at h.x:80 *)
Example http_ex_absolute :
  c18_http_loop ex_hcfg [mkHReq ex_get (c18_s_http ++ [x3a; x2f; x2f] ++ ex_hx ++ [x2f]) FAbsolute c18_s_http ex_hx ex_hx
                                ex_good false 204 FrNone] (mkPre [] [])
  = [HAuth [x75] [x70] true; HTcp (ex_hx ++ [x3a; x38; x30]); HReply 204; HClose].
Proof. vm_compute. reflexivity. Qed.
(* GET / with Host: h.x : origin-form, 400 and no dial although the credentials were accepted *)
Example http_ex_origin :
  c18_http_loop ex_hcfg [mkHReq ex_get [x2f] FOrigin [] [] ex_hx ex_good true 204 FrNone] (mkPre [] [])
  = [HAuth [x75] [x70] true; HReply 400; HClose].
Proof. vm_compute. reflexivity. Qed.
(* CONNECT [::1]:443 : authority-form with an IPv6 literal *)
Example http_ex_v6 :
  c18_connect_addr (mkHReq c18_s_connect [] FAuthority [] [x5b; x3a; x3a; x31; x5d; x3a; x34; x34; x33] [] None false 200 FrNone)
  = [x5b; x3a; x3a; x31; x5d; x3a; x34; x34; x33].
Proof. vm_compute. reflexivity. Qed.
