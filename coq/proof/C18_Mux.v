(* C18 proofs, part 3: the shared port as a transition system over the atomic sections of mux.go. *)
From Hy Require Import model.C18_Inbounds.
From Coq Require Import ZArith Lia ZifyBool ZifyNat ZifyN.

(* ---------- lists ---------- *)
Lemma upd_nth {A} : forall (l : list A) c x y c',
  nth_error l c = Some y ->
  nth_error (c18_upd c x l) c' = if Nat.eqb c c' then Some x else nth_error l c'.
Proof.
  induction l as [|h t IH]; intros c x y c' H.
  - destruct c; discriminate.
  - destruct c as [|c]; destruct c' as [|c']; cbn in *; auto. eapply IH; eauto.
Qed.

Lemma Forall_upd {A} (P : A -> Prop) : forall l c x, Forall P l -> P x -> Forall P (c18_upd c x l).
Proof.
  induction l as [|h t IH]; intros c x F Px; [destruct c; constructor|].
  inversion F; subst. destruct c; cbn; constructor; auto.
Qed.

Lemma Forall_nth {A} (P : A -> Prop) l c x : Forall P l -> nth_error l c = Some x -> P x.
Proof. intros F H. apply nth_error_In in H. rewrite Forall_forall in F. auto. Qed.

(* ---------- what one step can do to the connection table ---------- *)
Inductive ctrans (v : c18_ver) (m : c18_ms) (a : c18_act) (c : nat) : c18_cst -> c18_cst -> Prop :=
| ct_forward : a = AForward -> ctrans v m a c CHeld CDisp
| ct_drop x : a = AAlDrop -> x = (if v_d1 v then CClosed else CDropped) -> ctrans v m a c CHeld x
| ct_byte b : a = AFirstByte c b -> ctrans v m a c CDisp (CByte b)
| ct_rerr : a = AReadErr c -> ctrans v m a c CDisp CClosed
| ct_sel b s : a = ASelect c -> c18_slot m (c18_is_socks b) = Some s -> ctrans v m a c (CByte b) (CSel b s)
| ct_nosel b : a = ASelect c -> c18_slot m (c18_is_socks b) = None -> ctrans v m a c (CByte b) CClosed
| ct_hand b s : a = AHandoff c -> ctrans v m a c (CSel b s) (CHanded b s)
| ct_subclosed b s x : a = ASeesSubClosed c -> x = (if v_f5 v then CClosed else CLeaked) ->
                       ctrans v m a c (CSel b s) x
| ct_panic b s sx : a = ASendPanic c -> c18_get_sub m s = Some sx -> sb_upclosed sx = true ->
                    ctrans v m a c (CSel b s) CPanic.

Inductive cstep (v : c18_ver) (m : c18_ms) (a : c18_act) : list c18_cst -> list c18_cst -> Prop :=
| cs_same l : cstep v m a l l
| cs_new l : a = AIncoming -> cstep v m a l (l ++ [CHeld])
| cs_upd l c y x : nth_error l c = Some y -> ctrans v m a c y x -> cstep v m a l (c18_upd c x l).

Lemma upclose_conns m k : m_conns (c18_upclose_slot m k) = m_conns m.
Proof.
  unfold c18_upclose_slot. destruct (c18_slot m k); [|reflexivity].
  destruct (c18_get_sub m n); destruct k; reflexivity.
Qed.

Lemma step_conns v m a m' o : c18_mstep v m a = Some (m', o) -> cstep v m a (m_conns m) (m_conns m').
Proof.
  intros H. destruct a; cbn [c18_mstep] in H; unfold c18_get_conn, c18_get_sub in *.
  - (* AListen *)
    destruct (c18_slot m socks) as [s|] eqn:S.
    + destruct (c18_sub_is_closed m s).
      * cbn in H. destruct (v_d2 v && m_dying m); [injection H as <- <-; destruct socks; constructor|].
        destruct (m_closed m); injection H as <- <-; destruct socks; constructor.
      * injection H as <- <-. constructor.
    + destruct (v_d2 v && m_dying m); [injection H as <- <-; constructor|].
      destruct (m_closed m); injection H as <- <-; destruct socks; constructor.
  - destruct (nth_error (m_subs m) s); [injection H as <- <-; constructor|discriminate].
  - destruct (nth_error (m_subs m) s); [injection H as <- <-; constructor|discriminate].
  - destruct (m_al m); try discriminate. destruct (m_base_closed m); [discriminate|].
    injection H as <- <-. cbn. now constructor 2.
  - destruct (nth_error (m_conns m) c) as [[]|] eqn:E; try discriminate. injection H as <- <-.
    cbn. econstructor 3; eauto. now constructor.
  - destruct (nth_error (m_conns m) c) as [[]|] eqn:E; try discriminate. injection H as <- <-.
    cbn. econstructor 3; eauto. now constructor.
  - (* AForward *)
    destruct (m_al m) as [|c|] eqn:A; try discriminate. destruct (m_ml m); try discriminate.
    destruct (nth_error (m_conns m) c) as [[]|] eqn:E; try discriminate.
    injection H as <- <-. cbn. econstructor 3; eauto. now constructor.
  - (* AAlDrop *)
    destruct (m_al m) as [|c|] eqn:A; try discriminate.
    destruct (nth_error (m_conns m) c) as [[]|] eqn:E; try discriminate.
    destruct (m_closed m); [|discriminate]. injection H as <- <-. cbn. econstructor 3; eauto.
    constructor 2; auto.
  - destruct (m_al m); try discriminate. destruct (m_base_closed m); [|discriminate]. injection H as <- <-. constructor.
  - destruct (m_ml m); try discriminate. injection H as <- <-. constructor.
  - (* AMlSeeClose *)
    destruct (m_ml m) as [|sc hc| | | | |]; try discriminate.
    destruct (if socks then sc else hc) as [s|]; [|discriminate].
    destruct (c18_sub_is_closed m s); [|discriminate].
    destruct (c18_slot m socks) as [s'|]; injection H as <- <-; [|constructor].
    destruct (Nat.eqb s s'); destruct socks; constructor.
  - destruct (m_ml m); try discriminate. destruct (m_socks m), (m_http m); injection H as <- <-; constructor.
  - destruct (m_ml m); try discriminate. injection H as <- <-. constructor.
  - destruct (m_ml m); try discriminate. injection H as <- <-. cbn. rewrite !upclose_conns. constructor.
  - (* ASelect *)
    destruct (nth_error (m_conns m) c) as [[]|] eqn:E; try discriminate.
    destruct (c18_slot m (c18_is_socks b)) eqn:S; injection H as <- <-; cbn; econstructor 3; eauto.
    + now constructor 5.
    + now constructor 6.
  - (* AHandoff *)
    destruct (nth_error (m_conns m) c) as [[]|] eqn:E; try discriminate.
    destruct (nth_error (m_subs m) s) as [x|]; [|discriminate].
    destruct (sb_waiting x); [discriminate|]. destruct (sb_upclosed x); [discriminate|].
    injection H as <- <-. cbn. econstructor 3; eauto. now constructor.
  - (* ASeesSubClosed *)
    destruct (nth_error (m_conns m) c) as [[]|] eqn:E; try discriminate.
    destruct (c18_sub_is_closed m s); [|discriminate]. injection H as <- <-. cbn. econstructor 3; eauto.
    constructor 8; auto.
  - destruct (nth_error (m_subs m) s) as [x|]; [|discriminate].
    destruct (sb_waiting x); [discriminate|]. destruct (sb_closed x || sb_upclosed x); [|discriminate].
    injection H as <- <-. constructor.
  - (* ASendPanic *)
    destruct (nth_error (m_conns m) c) as [[]|] eqn:E; try discriminate.
    destruct (nth_error (m_subs m) s) as [x|] eqn:G; [|discriminate].
    destruct (sb_upclosed x) eqn:U; [|discriminate]. injection H as <- <-. cbn. econstructor 3; eauto.
    econstructor 9; eauto.
Qed.

(* ---------- consequences for one connection ---------- *)
Definition pre_select (x : option c18_cst) : Prop :=
  x = None \/ x = Some CHeld \/ x = Some CDisp \/ exists b, x = Some (CByte b).

(* once a target is chosen, the connection ends with that target or closed; (b, s) never change *)
Definition after_sel (b : byte) (s : nat) (x : option c18_cst) : Prop :=
  x = Some (CSel b s) \/ x = Some (CHanded b s) \/ x = Some CClosed \/ x = Some CLeaked \/ x = Some CPanic.

Lemma nth_app_new {A} (l : list A) x c y :
  nth_error (l ++ [x]) c = Some y -> nth_error l c = Some y \/ (nth_error l c = None /\ y = x).
Proof.
  intros H. destruct (Nat.lt_ge_cases c (length l)) as [L|L].
  - rewrite nth_error_app1 in H by auto. auto.
  - right. split; [now apply nth_error_None|]. rewrite nth_error_app2 in H by auto.
    destruct (c - length l)%nat as [|[|k]]; cbn in H; congruence.
Qed.

Lemma step_handed_stable v m a m' o c b s :
  c18_mstep v m a = Some (m', o) -> c18_get_conn m c = Some (CHanded b s) ->
  c18_get_conn m' c = Some (CHanded b s).
Proof.
  intros H G. apply step_conns in H. unfold c18_get_conn in *. inversion H as [l E1 E2|l Ha E1 E2|l c0 y x N T E1 E2].
  - congruence.
  - rewrite nth_error_app1; auto. apply nth_error_Some. congruence.
  - rewrite (upd_nth _ _ _ _ _ N). destruct (Nat.eqb c0 c) eqn:Q; [|auto].
    apply Nat.eqb_eq in Q. subst c0. rewrite N in G. injection G as ->. inversion T.
Qed.

Lemma step_after_sel v m a m' o c b s :
  c18_mstep v m a = Some (m', o) -> after_sel b s (c18_get_conn m c) -> after_sel b s (c18_get_conn m' c).
Proof.
  intros H G. apply step_conns in H. unfold c18_get_conn, after_sel in *.
  inversion H as [l E1 E2|l Ha E1 E2|l c0 y x N T E1 E2].
  - congruence.
  - assert (nth_error (m_conns m) c <> None) by (intuition congruence).
    rewrite nth_error_app1; auto. now apply nth_error_Some.
  - rewrite (upd_nth _ _ _ _ _ N). destruct (Nat.eqb c0 c) eqn:Q; [|auto].
    apply Nat.eqb_eq in Q. subst c0. rewrite N in G.
    destruct G as [G|[G|[G|[G|G]]]]; injection G as ->; inversion T; subst; auto;
      try (destruct (v_f5 v); auto; fail); auto 6.
Qed.

(* leaving the pre-selection stages towards a target happens only by ASelect, with the slot of the first byte *)
Lemma step_select v m a m' o c :
  c18_mstep v m a = Some (m', o) -> pre_select (c18_get_conn m c) ->
  pre_select (c18_get_conn m' c) \/ c18_get_conn m' c = Some CClosed \/ c18_get_conn m' c = Some CDropped \/
  exists b s, a = ASelect c /\ c18_get_conn m c = Some (CByte b) /\
              c18_slot m (c18_is_socks b) = Some s /\ c18_get_conn m' c = Some (CSel b s).
Proof.
  intros H G. apply step_conns in H. unfold c18_get_conn, pre_select in *.
  inversion H as [l E1 E2|l Ha E1 E2|l c0 y x N T E1 E2].
  - left. congruence.
  - left. destruct (nth_error (m_conns m ++ [CHeld]) c) as [y|] eqn:E; [|auto].
    apply nth_app_new in E. destruct E as [E|[_ ->]]; [|auto]. rewrite E in G. auto.
  - rewrite (upd_nth _ _ _ _ _ N). destruct (Nat.eqb c0 c) eqn:Q; [|auto].
    apply Nat.eqb_eq in Q. subst c0. rewrite N in G.
    inversion T; subst; try (left; eauto 6; fail); auto.
    + destruct (v_d1 v); auto.
    + right. right. right. exists b, s. auto.
    + exfalso. destruct G as [G|[G|[G|[b' G]]]]; discriminate.
    + exfalso. destruct G as [G|[G|[G|[b' G]]]]; discriminate.
    + exfalso. destruct G as [G|[G|[G|[b' G]]]]; discriminate.
Qed.

Lemma run_after_sel v : forall acts m m' c b s,
  c18_mrun v m acts = Some m' -> after_sel b s (c18_get_conn m c) -> after_sel b s (c18_get_conn m' c).
Proof.
  induction acts as [|a t IH]; intros m m' c b s R G; cbn in R.
  - injection R as <-. exact G.
  - destruct (c18_mstep v m a) as [[m1 o]|] eqn:S; [|discriminate].
    eapply IH; eauto. eapply step_after_sel; eauto.
Qed.

Lemma run_handed_stable v : forall acts m m' c b s,
  c18_mrun v m acts = Some m' -> c18_get_conn m c = Some (CHanded b s) ->
  c18_get_conn m' c = Some (CHanded b s).
Proof.
  induction acts as [|a t IH]; intros m m' c b s R G; cbn in R.
  - injection R as <-. exact G.
  - destruct (c18_mstep v m a) as [[m1 o]|] eqn:S; [|discriminate].
    eapply IH; eauto. eapply step_handed_stable; eauto.
Qed.

Lemma step_end_stable v m a m' o c x :
  x = CClosed \/ x = CDropped ->
  c18_mstep v m a = Some (m', o) -> c18_get_conn m c = Some x -> c18_get_conn m' c = Some x.
Proof.
  intros X H G. apply step_conns in H. unfold c18_get_conn in *.
  inversion H as [l E1 E2|l Ha E1 E2|l c0 y x0 N T E1 E2].
  - congruence.
  - rewrite nth_error_app1; auto. apply nth_error_Some. congruence.
  - rewrite (upd_nth _ _ _ _ _ N). destruct (Nat.eqb c0 c) eqn:Q; [|auto].
    apply Nat.eqb_eq in Q. subst c0. rewrite N in G. injection G as ->.
    destruct X as [->| ->]; inversion T.
Qed.

Lemma run_end_stable v : forall acts m m' c x,
  x = CClosed \/ x = CDropped ->
  c18_mrun v m acts = Some m' -> c18_get_conn m c = Some x -> c18_get_conn m' c = Some x.
Proof.
  induction acts as [|a t IH]; intros m m' c x X R G; cbn in R.
  - injection R as <-. exact G.
  - destruct (c18_mstep v m a) as [[m1 o]|] eqn:S; [|discriminate].
    eapply IH; eauto. eapply step_end_stable; eauto.
Qed.

Lemma mrun_app v : forall a1 a2 m, c18_mrun v m (a1 ++ a2) =
  match c18_mrun v m a1 with Some m1 => c18_mrun v m1 a2 | None => None end.
Proof.
  induction a1 as [|a t IH]; intros a2 m; cbn; [reflexivity|].
  destruct (c18_mstep v m a) as [[m1 o]|]; auto.
Qed.

(* a connection that ends up handed to s was routed, at the moment of its ASelect, by its first byte to
   the sub-listener registered for that protocol at that moment - and that is s *)
Lemma run_handed_origin v : forall acts m m' c b s,
  c18_mrun v m acts = Some m' -> pre_select (c18_get_conn m c) ->
  c18_get_conn m' c = Some (CHanded b s) ->
  exists acts1 acts2 m1,
    acts = acts1 ++ ASelect c :: acts2 /\ c18_mrun v m acts1 = Some m1 /\
    c18_get_conn m1 c = Some (CByte b) /\ c18_slot m1 (c18_is_socks b) = Some s.
Proof.
  induction acts as [|a t IH]; intros m m' c b s R P G; cbn in R.
  - injection R as <-. rewrite G in P. destruct P as [P|[P|[P|[b' P]]]]; discriminate.
  - destruct (c18_mstep v m a) as [[m1 o]|] eqn:S; [|discriminate].
    destruct (step_select _ _ _ _ _ c S P) as [P1|[P1|[P1|(b' & s' & -> & C1 & C2 & C3)]]].
    + destruct (IH _ _ _ _ _ R P1 G) as (a1 & a2 & m2 & -> & R1 & X).
      exists (a :: a1), a2, m2. split; [reflexivity|]. split; [cbn; rewrite S; exact R1|exact X].
    + exfalso. assert (K : c18_get_conn m' c = Some CClosed) by (eapply run_end_stable; eauto). congruence.
    + exfalso. assert (K : c18_get_conn m' c = Some CDropped) by (eapply run_end_stable; eauto). congruence.
    + assert (A : after_sel b' s' (c18_get_conn m' c)) by (eapply run_after_sel; eauto; left; auto).
      rewrite G in A. destruct A as [A|[A|[A|[A|A]]]]; try discriminate. injection A as -> ->.
      exists [], t, m. repeat split; auto.
Qed.

Lemma exactly_one_handler : forall v acts m c b s,
  c18_mrun v c18_m_init acts = Some m -> c18_get_conn m c = Some (CHanded b s) ->
  (exists acts1 acts2 m1,
      acts = acts1 ++ ASelect c :: acts2 /\ c18_mrun v c18_m_init acts1 = Some m1 /\
      c18_get_conn m1 c = Some (CByte b) /\ c18_slot m1 (c18_is_socks b) = Some s) /\
  (forall more m', c18_mrun v m more = Some m' -> c18_get_conn m' c = Some (CHanded b s)).
Proof.
  intros v acts m c b s R G. split.
  - eapply run_handed_origin; eauto. left. unfold c18_get_conn. cbn. destruct c; reflexivity.
  - intros more m' R'. eapply run_handed_stable; eauto.
Qed.

(* ---------- the code as it is now: no connection is dropped, leaked or hit by a panic ---------- *)
Definition good_conn (x : c18_cst) : Prop := x <> CDropped /\ x <> CLeaked /\ x <> CPanic.

Definition ml_inv (m : c18_ms) : Prop :=
  match m_ml m with
  | MLTop | MLCheck => m_dying m = false /\ m_closed m = false
  | MLSel sc hc => m_dying m = false /\ m_closed m = false /\
                   (sc <> None -> m_socks m <> None) /\ (hc <> None -> m_http m <> None)
  | MLExit0 | MLExit1 => m_socks m = None /\ m_http m = None /\ m_dying m = true
  | MLDone => m_dying m = true
  | MLPanic => False
  end.

Definition minv (m : c18_ms) : Prop :=
  Forall (fun x => sb_upclosed x = false) (m_subs m) /\ ml_inv m /\ Forall good_conn (m_conns m).

Lemma minv_init : minv c18_m_init.
Proof. repeat split; constructor. Qed.

Lemma upclose_none m k : c18_slot m k = None -> c18_upclose_slot m k = m.
Proof. unfold c18_upclose_slot. now intros ->. Qed.

Ltac gc := unfold good_conn; repeat split; discriminate.

Lemma minv_step m a m' o : minv m -> c18_mstep c18_now m a = Some (m', o) -> minv m'.
Proof.
  intros (IA & IB & IC) H.
  assert (CC : Forall good_conn (m_conns m')).
  { pose proof (step_conns _ _ _ _ _ H) as S.
    inversion S as [l E1 E2|l Ha E1 E2|l c0 y x N T E1 E2].
    - congruence.
    - apply Forall_app. split; [auto|constructor; [gc|constructor]].
    - apply Forall_upd; auto. inversion T; subst; cbn; try gc.
      (* ASendPanic is never enabled: no acceptChan is ever closed *)
      exfalso. unfold c18_get_sub in *.
      match goal with G : nth_error (m_subs m) _ = Some ?sx, U : sb_upclosed ?sx = true |- _ =>
        rewrite (Forall_nth _ _ _ _ IA G) in U; discriminate end. }
  split; [|split; [|exact CC]]; clear CC IC.
  - (* no acceptChan is closed by the cleanup *)
    destruct a; cbn [c18_mstep] in H; unfold c18_get_conn, c18_get_sub in *.
    + destruct (c18_slot m socks) as [s|].
      * destruct (c18_sub_is_closed m s); [|injection H as <- <-; auto].
        cbn in H. destruct (m_dying m); [injection H as <- <-; destruct socks; auto|].
        destruct (m_closed m); injection H as <- <-; destruct socks; cbn; auto;
          apply Forall_app; split; auto; repeat constructor.
      * cbn in H. destruct (m_dying m); [injection H as <- <-; auto|].
        destruct (m_closed m); injection H as <- <-; destruct socks; cbn; auto;
          apply Forall_app; split; auto; repeat constructor.
    + destruct (nth_error (m_subs m) s) eqn:G; [|discriminate]. injection H as <- <-. cbn.
      apply Forall_upd; auto. cbn. eapply (Forall_nth _ _ _ _ IA G).
    + destruct (nth_error (m_subs m) s) eqn:G; [|discriminate]. injection H as <- <-. cbn.
      apply Forall_upd; auto. cbn. eapply (Forall_nth _ _ _ _ IA G).
    + destruct (m_al m); try discriminate. destruct (m_base_closed m); [discriminate|]. injection H as <- <-. auto.
    + destruct (nth_error (m_conns m) c) as [[]|]; try discriminate. injection H as <- <-. auto.
    + destruct (nth_error (m_conns m) c) as [[]|]; try discriminate. injection H as <- <-. auto.
    + destruct (m_al m) as [|c|]; try discriminate. destruct (m_ml m); try discriminate.
      destruct (nth_error (m_conns m) c) as [[]|]; try discriminate. injection H as <- <-. auto.
    + destruct (m_al m) as [|c|]; try discriminate.
      destruct (nth_error (m_conns m) c) as [[]|]; try discriminate.
      destruct (m_closed m); [|discriminate]. injection H as <- <-. auto.
    + destruct (m_al m); try discriminate. destruct (m_base_closed m); [|discriminate]. injection H as <- <-. auto.
    + destruct (m_ml m); try discriminate. injection H as <- <-. auto.
    + destruct (m_ml m) as [|sc hc| | | | |]; try discriminate.
      destruct (if socks then sc else hc) as [s|]; [|discriminate].
      destruct (c18_sub_is_closed m s); [|discriminate].
      destruct (c18_slot m socks) as [s'|]; injection H as <- <-; [|auto].
      destruct (Nat.eqb s s'); destruct socks; auto.
    + destruct (m_ml m); try discriminate. destruct (m_socks m), (m_http m); injection H as <- <-; auto.
    + destruct (m_ml m); try discriminate. injection H as <- <-. auto.
    + destruct (m_ml m) eqn:ML; try discriminate. injection H as <- <-.
      unfold ml_inv in IB. rewrite ML in IB. destruct IB as (S1 & S2 & _).
      rewrite (upclose_none m false) by exact S2. rewrite (upclose_none m true) by exact S1. auto.
    + destruct (nth_error (m_conns m) c) as [[]|]; try discriminate.
      destruct (c18_slot m (c18_is_socks b)); injection H as <- <-; auto.
    + destruct (nth_error (m_conns m) c) as [[]|]; try discriminate.
      destruct (nth_error (m_subs m) s) as [x|] eqn:G; [|discriminate].
      destruct (sb_waiting x); [discriminate|]. destruct (sb_upclosed x); [discriminate|].
      injection H as <- <-. cbn. apply Forall_upd; auto.
    + destruct (nth_error (m_conns m) c) as [[]|]; try discriminate.
      destruct (c18_sub_is_closed m s); [|discriminate]. injection H as <- <-. auto.
    + destruct (nth_error (m_subs m) s) as [x|] eqn:G; [|discriminate].
      destruct (sb_waiting x); [discriminate|]. destruct (sb_closed x || sb_upclosed x); [|discriminate].
      injection H as <- <-. cbn. apply Forall_upd; auto. cbn. eapply (Forall_nth _ _ _ _ IA G).
    + destruct (nth_error (m_conns m) c) as [[]|]; try discriminate.
      destruct (nth_error (m_subs m) s) as [x|]; [|discriminate].
      destruct (sb_upclosed x); [|discriminate]. injection H as <- <-. auto.
  - (* mainLoop's control state against dying / closeChan / the slots *)
    unfold ml_inv in *.
    destruct a; cbn [c18_mstep] in H; unfold c18_get_conn, c18_get_sub in *.
    + (* AListen *)
      destruct (c18_slot m socks) as [s|] eqn:SL.
      * destruct (c18_sub_is_closed m s); [|injection H as <- <-; exact IB].
        cbn in H. destruct (m_dying m) eqn:D.
        -- injection H as <- <-. destruct socks; cbn; destruct (m_ml m); cbn in *; intuition congruence.
        -- destruct (m_closed m) eqn:C.
           ++ injection H as <- <-. destruct socks; cbn; destruct (m_ml m); cbn in *; intuition congruence.
           ++ injection H as <- <-. destruct socks; cbn; destruct (m_ml m); cbn in *; intuition congruence.
      * cbn in H. destruct (m_dying m) eqn:D;
          [injection H as <- <-; destruct (m_ml m); cbn in *; intuition congruence|].
        destruct (m_closed m) eqn:C; [injection H as <- <-; destruct (m_ml m); cbn in *; intuition congruence|].
        injection H as <- <-. destruct socks; cbn; destruct (m_ml m); cbn in *; intuition congruence.
    + destruct (nth_error (m_subs m) s); [|discriminate]. injection H as <- <-. exact IB.
    + destruct (nth_error (m_subs m) s); [|discriminate]. injection H as <- <-. exact IB.
    + destruct (m_al m); try discriminate. destruct (m_base_closed m); [discriminate|]. injection H as <- <-. exact IB.
    + destruct (nth_error (m_conns m) c) as [[]|]; try discriminate. injection H as <- <-. exact IB.
    + destruct (nth_error (m_conns m) c) as [[]|]; try discriminate. injection H as <- <-. exact IB.
    + destruct (m_al m) as [|c|]; try discriminate. destruct (m_ml m); try discriminate.
      destruct (nth_error (m_conns m) c) as [[]|]; try discriminate. injection H as <- <-. cbn. tauto.
    + destruct (m_al m) as [|c|]; try discriminate.
      destruct (nth_error (m_conns m) c) as [[]|]; try discriminate.
      destruct (m_closed m) eqn:C; [|discriminate]. injection H as <- <-. cbn.
      destruct (m_ml m); cbn in *; intuition congruence.
    + destruct (m_al m); try discriminate. destruct (m_base_closed m); [|discriminate]. injection H as <- <-. exact IB.
    + destruct (m_ml m); try discriminate. injection H as <- <-. cbn. intuition congruence.
    + (* AMlSeeClose *)
      destruct (m_ml m) as [|sc hc| | | | |]; try discriminate.
      destruct IB as (D & C & S1 & S2).
      destruct (if socks then sc else hc) as [s|] eqn:Q; [|discriminate].
      destruct (c18_sub_is_closed m s); [|discriminate].
      destruct (c18_slot m socks) as [s'|] eqn:SL.
      * injection H as <- <-. destruct (Nat.eqb s s'); destruct socks; cbn; auto.
      * exfalso. destruct socks; cbn in SL; subst; [apply S1|apply S2]; auto; discriminate.
    + destruct (m_ml m); try discriminate. destruct IB as [D C].
      destruct (m_socks m) eqn:S1, (m_http m) eqn:S2; injection H as <- <-; cbn; auto.
    + destruct (m_ml m); try discriminate. injection H as <- <-. cbn. exact IB.
    + destruct (m_ml m) eqn:ML; try discriminate. injection H as <- <-.
      destruct IB as (S1 & S2 & D).
      rewrite (upclose_none m false) by exact S2. rewrite (upclose_none m true) by exact S1. cbn. exact D.
    + destruct (nth_error (m_conns m) c) as [[]|]; try discriminate.
      destruct (c18_slot m (c18_is_socks b)); injection H as <- <-; exact IB.
    + destruct (nth_error (m_conns m) c) as [[]|]; try discriminate.
      destruct (nth_error (m_subs m) s) as [x|]; [|discriminate].
      destruct (sb_waiting x); [discriminate|]. destruct (sb_upclosed x); [discriminate|].
      injection H as <- <-. exact IB.
    + destruct (nth_error (m_conns m) c) as [[]|]; try discriminate.
      destruct (c18_sub_is_closed m s); [|discriminate]. injection H as <- <-. exact IB.
    + destruct (nth_error (m_subs m) s) as [x|]; [|discriminate].
      destruct (sb_waiting x); [discriminate|]. destruct (sb_closed x || sb_upclosed x); [|discriminate].
      injection H as <- <-. exact IB.
    + destruct (nth_error (m_conns m) c) as [[]|]; try discriminate.
      destruct (nth_error (m_subs m) s) as [x|]; [|discriminate].
      destruct (sb_upclosed x); [|discriminate]. injection H as <- <-. exact IB.
Qed.

Lemma minv_run : forall acts m m', minv m -> c18_mrun c18_now m acts = Some m' -> minv m'.
Proof.
  induction acts as [|a t IH]; intros m m' I R; cbn in R.
  - injection R as <-. exact I.
  - destruct (c18_mstep c18_now m a) as [[m1 o]|] eqn:S; [|discriminate].
    apply (IH m1 m'); [eapply minv_step; eauto|exact R].
Qed.

(* ---------- the statement about every run of the current code ---------- *)
Lemma handed_or_closed : forall acts m,
  c18_mrun c18_now c18_m_init acts = Some m ->
  m_ml m <> MLPanic /\
  forall c x, c18_get_conn m c = Some x ->
    x <> CDropped /\ x <> CLeaked /\ x <> CPanic /\
    (c18_c_terminal x = true -> c18_c_good_end x = true) /\
    (forall b, x = CByte b -> exists m', c18_mstep c18_now m (ASelect c) = Some (m', ONone)) /\
    (forall b s, x = CSel b s -> c18_sub_is_closed m s = true ->
       exists m', c18_mstep c18_now m (ASeesSubClosed c) = Some (m', ONone) /\
                  c18_get_conn m' c = Some CClosed) /\
    (x = CHeld -> m_closed m = true -> m_al m = ALHold c ->
       exists m', c18_mstep c18_now m AAlDrop = Some (m', ONone) /\ c18_get_conn m' c = Some CClosed).
Proof.
  intros acts m R. pose proof (minv_run _ _ _ minv_init R) as (IA & IB & IC). split.
  - unfold ml_inv in IB. intros E. rewrite E in IB. exact IB.
  - intros c x G. pose proof (Forall_nth _ _ _ _ IC G) as (G1 & G2 & G3).
    split; [exact G1|]. split; [exact G2|]. split; [exact G3|].
    split; [|split; [|split]].
    + destruct x; cbn; auto; congruence.
    + intros b ->. cbn [c18_mstep]. rewrite G. destruct (c18_slot m (c18_is_socks b)); eauto.
    + intros b s -> C. cbn [c18_mstep]. rewrite G, C. cbn. eexists. split; [reflexivity|].
      unfold c18_get_conn, c18_set_conn in *. cbn. rewrite (upd_nth _ _ _ _ _ G), Nat.eqb_refl. reflexivity.
    + intros -> C A. cbn [c18_mstep]. rewrite A, G, C. cbn. eexists. split; [reflexivity|].
      unfold c18_get_conn, c18_set_conn, c18_set_al in *. cbn. rewrite (upd_nth _ _ _ _ _ G), Nat.eqb_refl. reflexivity.
Qed.

(* the three earlier revisions of mux.go, each with the run that breaks the statement *)
Lemma old_dispatch_leaks :
  exists acts m, c18_mrun (mkVer false true true) c18_m_init acts = Some m /\ c18_get_conn m 0 = Some CLeaked.
Proof.
  exists [AListen true; AMlSnap; AIncoming; AForward; AFirstByte 0 x05; ASelect 0; ASubClose 0; ASeesSubClosed 0].
  eexists. split; [vm_compute; reflexivity|]. vm_compute. reflexivity.
Qed.

Lemma old_acceptloop_drops :
  exists acts m, c18_mrun (mkVer true false true) c18_m_init acts = Some m /\ c18_get_conn m 0 = Some CDropped.
Proof.
  exists [AListen true; AMlSnap; ASubClose 0; AMlSeeClose true; AMlCheck; AIncoming; AMlExitA; AAlDrop].
  eexists. split; [vm_compute; reflexivity|]. vm_compute. reflexivity.
Qed.

Lemma old_late_register_panics :
  exists acts m, c18_mrun (mkVer true true false) c18_m_init acts = Some m /\ c18_get_conn m 0 = Some CPanic.
Proof.
  exists [AListen true; AMlSnap; AIncoming; AForward; AMlSnap; ASubClose 0; AMlSeeClose true; AMlCheck;
          AListen true; AFirstByte 0 x05; ASelect 0; AMlExitA; AMlExitB; ASendPanic 0].
  eexists. split; [vm_compute; reflexivity|]. vm_compute. reflexivity.
Qed.

(* non-vacuity: both protocols, and a replaced sub-listener *)
Example mux_run_both :
  exists m, c18_mrun c18_now c18_m_init
      [AListen true; AListen false; AMlSnap; AIncoming; AForward; AMlSnap; AIncoming; AForward;
       AFirstByte 0 x05; AFirstByte 1 x47; ASelect 0; ASelect 1; ASubAccept 0; ASubAccept 1; AHandoff 1; AHandoff 0]
      = Some m /\ c18_get_conn m 0 = Some (CHanded x05 0) /\ c18_get_conn m 1 = Some (CHanded x47 1).
Proof. eexists. split; [vm_compute; reflexivity|]. split; vm_compute; reflexivity. Qed.

Example mux_run_replaced :
  exists m, c18_mrun c18_now c18_m_init
      [AListen true; AListen false; AMlSnap; ASubClose 0; AListen true; AMlSeeClose true; AMlCheck; AMlSnap;
       AIncoming; AForward; AFirstByte 0 x05; ASelect 0; ASubAccept 2; AHandoff 0]
      = Some m /\ c18_get_conn m 0 = Some (CHanded x05 2) /\ m_socks m = Some 2%nat.
Proof. eexists. split; [vm_compute; reflexivity|]. split; vm_compute; reflexivity. Qed.
