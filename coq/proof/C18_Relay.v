(* C18 proofs, relay phase: the two io.Copy loops of handleTCP / handleConnect as independent byte streams. *)
From Hy Require Import lib.Bytes model.C18_Relay.
From Coq Require Import ZArith Lia ZifyBool ZifyNat ZifyN.
Local Open Scope N_scope.

Ltac dm H := repeat match type of H with
  | context [match ?x with _ => _ end] => destruct x eqn:?; try discriminate
  | context [if ?x then _ else _] => destruct x eqn:?; try discriminate
  end.

Lemma rl_beqb_eq a : forall b, rl_beqb a b = true -> a = b.
Proof.
  induction a as [|x a IH]; intros [|y b]; cbn [rl_beqb]; try discriminate; auto.
  intros H. apply andb_true_iff in H as [H1 H2]. apply Byte.byte_dec_bl in H1. subst. f_equal. auto.
Qed.

Lemma rl_beqb_refl a : rl_beqb a a = true.
Proof. induction a as [|x a IH]; cbn [rl_beqb]; auto. rewrite IH. now rewrite (Byte.byte_dec_lb eq_refl). Qed.

Lemma rdir_eqb_refl d : rdir_eqb d d = true.
Proof. destruct d; reflexivity. Qed.

Lemma rdir_eqb_eq a b : rdir_eqb a b = true -> a = b.
Proof. destruct a, b; cbn; congruence. Qed.

Lemma rl_run_app k sh s l1 l2 :
  rl_run k sh s (l1 ++ l2) = match rl_run k sh s l1 with Some s' => rl_run k sh s' l2 | None => None end.
Proof. revert s. induction l1 as [|a l1 IH]; intros s; cbn [rl_run app]; auto. destruct (rl_step k sh s a); auto. Qed.

Lemma rl_run_snoc k sh s l a s' :
  rl_run k sh s (l ++ [a]) = Some s' -> exists s1, rl_run k sh s l = Some s1 /\ rl_step k sh s1 a = Some s'.
Proof.
  rewrite rl_run_app. destruct (rl_run k sh s l) as [s1|]; [|discriminate]. cbn [rl_run].
  destruct (rl_step k sh s1 a) as [s2|] eqn:E; [|discriminate]. intros [= <-]. eauto.
Qed.

Lemma rl_src_snoc d tr a :
  rl_src d (tr ++ [a]) = rl_src d tr ++ match a with RlRead d' _ c _ => if rdir_eqb d d' then c else [] | _ => [] end.
Proof. unfold rl_src. rewrite flat_map_app. cbn [flat_map]. now rewrite app_nil_r. Qed.

Lemma rl_snk_snoc d tr a :
  rl_snk d (tr ++ [a]) = rl_snk d tr ++ match a with RlWrite d' c nw _ => if rdir_eqb d d' then rl_wrote c nw else [] | _ => [] end.
Proof. unfold rl_snk. rewrite flat_map_app. cbn [flat_map]. now rewrite app_nil_r. Qed.

Lemma rl_last_snoc d tr a : forall acc,
  rl_last d (tr ++ [a]) acc = if rl_is_dir d a then Some a else rl_last d tr acc.
Proof.
  induction tr as [|b tr IH]; intros acc; cbn [rl_last app].
  - destruct (rl_is_dir d a); reflexivity.
  - apply IH.
Qed.

Lemma firstn_overwrite c buf : firstn (length c) (rl_overwrite c buf) = c.
Proof. unfold rl_overwrite. rewrite firstn_app, firstn_all, Nat.sub_diag. cbn [firstn]. apply app_nil_r. Qed.

(* ---- the two loops share nothing: a step of the other direction (or of the parent) leaves a direction's
   program counter and buffer alone, and a direction's own step looks at nothing else *)
Lemma rl_step_other k s a s' d : rl_step k false s a = Some s' -> rl_is_dir d a = false ->
  rl_pc_of d s' = rl_pc_of d s /\ rl_buf_of false d s' = rl_buf_of false d s.
Proof.
  intros H Hd. destruct s as [bu bd pu pd].
  destruct a as [d0 bl c er|d0 c nw ew|]; unfold rl_is_dir in Hd; cbn [rl_dir] in Hd.
  - destruct d, d0; cbn [rdir_eqb] in Hd; try discriminate;
      unfold rl_step in H; cbn [rl_pc_of rl_set_pc rl_set_buf rl_buf_of rl_pcU rl_pcD rl_bufU rl_bufD] in H;
      dm H; injection H as <-; cbn [rl_pc_of rl_set_pc rl_set_buf rl_buf_of rl_pcU rl_pcD rl_bufU rl_bufD]; auto.
  - destruct d, d0; cbn [rdir_eqb] in Hd; try discriminate;
      unfold rl_step in H; cbn [rl_pc_of rl_set_pc rl_set_buf rl_buf_of rl_pcU rl_pcD rl_bufU rl_bufD] in H;
      dm H; injection H as <-; cbn [rl_pc_of rl_set_pc rl_set_buf rl_buf_of rl_pcU rl_pcD rl_bufU rl_bufD]; auto.
  - unfold rl_step in H. dm H. injection H as <-. auto.
Qed.

Lemma rl_step_same k s a s' d t : rl_step k false s a = Some s' -> rl_is_dir d a = true ->
  rl_pc_of d t = rl_pc_of d s -> rl_buf_of false d t = rl_buf_of false d s ->
  exists t', rl_step k false t a = Some t' /\ rl_pc_of d t' = rl_pc_of d s' /\ rl_buf_of false d t' = rl_buf_of false d s'.
Proof.
  intros H Hd Hp Hb. destruct s as [bu bd pu pd], t as [bu' bd' pu' pd'].
  destruct a as [d0 bl c er|d0 c nw ew|]; unfold rl_is_dir in Hd; cbn [rl_dir] in Hd; try discriminate.
  - apply rdir_eqb_eq in Hd. subst d0.
    destruct d; cbn [rl_pc_of rl_buf_of rl_pcU rl_pcD rl_bufU rl_bufD] in Hp, Hb; subst;
      unfold rl_step in *; cbn [rl_pc_of rl_set_pc rl_set_buf rl_buf_of rl_pcU rl_pcD rl_bufU rl_bufD] in *;
      dm H; injection H as <-; eexists; split; try reflexivity;
      cbn [rl_pc_of rl_set_pc rl_set_buf rl_buf_of rl_pcU rl_pcD rl_bufU rl_bufD]; auto.
  - apply rdir_eqb_eq in Hd. subst d0.
    destruct d; cbn [rl_pc_of rl_buf_of rl_pcU rl_pcD rl_bufU rl_bufD] in Hp, Hb; subst;
      unfold rl_step in *; cbn [rl_pc_of rl_set_pc rl_set_buf rl_buf_of rl_pcU rl_pcD rl_bufU rl_bufD] in *;
      dm H; injection H as <-; eexists; split; try reflexivity;
      cbn [rl_pc_of rl_set_pc rl_set_buf rl_buf_of rl_pcU rl_pcD rl_bufU rl_bufD]; auto.
Qed.

Lemma rl_src_other d a tr : rl_is_dir d a = false -> rl_src d (a :: tr) = rl_src d tr.
Proof.
  intros H. unfold rl_src. cbn [flat_map]. destruct a as [d0 bl c er|d0 c nw ew|]; auto.
  unfold rl_is_dir in H. cbn [rl_dir] in H. now rewrite H.
Qed.
Lemma rl_snk_other d a tr : rl_is_dir d a = false -> rl_snk d (a :: tr) = rl_snk d tr.
Proof.
  intros H. unfold rl_snk. cbn [flat_map]. destruct a as [d0 bl c er|d0 c nw ew|]; auto.
  unfold rl_is_dir in H. cbn [rl_dir] in H. now rewrite H.
Qed.

(* removing every action of the other direction (and the parent's) from a run leaves a run in which
   direction d goes through the same states, reads the same bytes and writes the same bytes *)
Lemma rl_project k d tr : forall s t s',
  rl_run k false s tr = Some s' ->
  rl_pc_of d t = rl_pc_of d s -> rl_buf_of false d t = rl_buf_of false d s ->
  exists t', rl_run k false t (filter (rl_is_dir d) tr) = Some t' /\
             rl_pc_of d t' = rl_pc_of d s' /\ rl_buf_of false d t' = rl_buf_of false d s' /\
             rl_src d (filter (rl_is_dir d) tr) = rl_src d tr /\ rl_snk d (filter (rl_is_dir d) tr) = rl_snk d tr.
Proof.
  induction tr as [|a tr IH]; intros s t s' H Hp Hb; cbn [rl_run filter] in *.
  - injection H as <-. exists t. auto.
  - destruct (rl_step k false s a) as [s1|] eqn:E; [|discriminate].
    destruct (rl_is_dir d a) eqn:Ed.
    + destruct (rl_step_same _ _ _ _ _ _ E Ed Hp Hb) as (t1 & E1 & Hp1 & Hb1).
      destruct (IH _ _ _ H Hp1 Hb1) as (t' & R & P & B & S1 & S2).
      exists t'. cbn [rl_run]. rewrite E1. repeat split; auto.
      * unfold rl_src in *. cbn [flat_map]. now rewrite S1.
      * unfold rl_snk in *. cbn [flat_map]. now rewrite S2.
    + destruct (rl_step_other _ _ _ _ _ E Ed) as (Hp1 & Hb1).
      rewrite <- Hp1 in Hp. rewrite <- Hb1 in Hb.
      destruct (IH _ _ _ H Hp Hb) as (t' & R & P & B & S1 & S2).
      exists t'. rewrite rl_src_other, rl_snk_other by auto. auto.
Qed.

Lemma relay_direction_independent k d tr s :
  rl_run k false rl_init tr = Some s ->
  exists t, rl_run k false rl_init (filter (rl_is_dir d) tr) = Some t /\
            rl_pc_of d t = rl_pc_of d s /\ rl_buf_of false d t = rl_buf_of false d s /\
            rl_src d (filter (rl_is_dir d) tr) = rl_src d tr /\ rl_snk d (filter (rl_is_dir d) tr) = rl_snk d tr.
Proof. intros H. exact (rl_project k d tr _ _ _ H eq_refl eq_refl). Qed.

(* ---- one direction: invariant of every run, whatever the other direction and the parent do *)
Definition RInv (k : rl_kind) (d : rdir) (tr : list rl_act) (s : rl_st) : Prop :=
  exists rest, rl_src d tr = rl_snk d tr ++ rest /\
    match rl_pc_of d s with
    | PcRead => rest = []
    | PcWrite n er => rest <> [] /\ n = length rest /\ firstn n (rl_buf_of false d s) = rest /\
                      exists bl, rl_last d tr None = Some (RlRead d bl rest er)
    | PcRet TNil => k = KIoCopy -> rest = []
    | _ => True
    end.

Lemma rinv_step k d tr s a s' : RInv k d tr s -> rl_step k false s a = Some s' -> RInv k d (tr ++ [a]) s'.
Proof.
  intros (rest & HR & HP) H.
  destruct (rl_is_dir d a) eqn:Ed.
  2:{ destruct (rl_step_other _ _ _ _ _ H Ed) as (Hp & Hb). exists rest.
      rewrite rl_src_snoc, rl_snk_snoc, rl_last_snoc, Ed, Hp, Hb.
      split; [|exact HP].
      destruct a as [d0 bl c er|d0 c nw ew|]; unfold rl_is_dir in Ed; cbn [rl_dir] in Ed;
        rewrite ?Ed, ?app_nil_r; exact HR. }
  destruct a as [d0 bl c er|d0 c nw ew|]; unfold rl_is_dir in Ed; cbn [rl_dir] in Ed; try discriminate;
    apply rdir_eqb_eq in Ed; subst d0.
  - (* Read *)
    unfold rl_step in H. destruct (rl_pc_of d s) eqn:Epc; try discriminate. subst rest. rewrite app_nil_r in HR.
    destruct (bl <? N.of_nat (length c)) eqn:Ebl.
    + injection H as <-. exists c. rewrite rl_src_snoc, rl_snk_snoc, rdir_eqb_refl, app_nil_r, HR. split; auto.
      destruct d; cbn [rl_pc_of rl_set_pc rl_pcU rl_pcD]; exact I.
    + injection H as <-. exists c. rewrite rl_src_snoc, rl_snk_snoc, rdir_eqb_refl, app_nil_r, HR. split; auto.
      assert (Hpc : forall s0 p, rl_pc_of d (rl_set_pc d s0 p) = p) by (intros; destruct d; reflexivity).
      assert (Hbf : forall s0 p, rl_buf_of false d (rl_set_pc d s0 p) = rl_buf_of false d s0) by (intros; destruct d; reflexivity).
      assert (Hsb : forall s0 b, rl_buf_of false d (rl_set_buf false d s0 b) = b) by (intros; destruct d; reflexivity).
      rewrite Hpc.
      assert (HW : forall er', c <> [] ->
                 c <> [] /\ length c = length c /\
                 firstn (length c) (rl_buf_of false d (rl_set_pc d (rl_set_buf false d s (rl_overwrite c (rl_buf_of false d s))) (PcWrite (length c) er'))) = c /\
                 exists bl0, rl_last d (tr ++ [RlRead d bl c er']) None = Some (RlRead d bl0 c er')).
      { intros er' Hc. repeat split; auto.
        - rewrite Hbf, Hsb. apply firstn_overwrite.
        - exists bl. rewrite rl_last_snoc. unfold rl_is_dir. cbn [rl_dir]. now rewrite rdir_eqb_refl. }
      destruct c as [|x c].
      * destruct er; cbn [rl_after]; auto.
      * destruct k.
        -- apply HW. discriminate.
        -- destruct er; cbn [rl_after]; try exact I.
           ++ apply HW. discriminate.
           ++ intros; discriminate.
  - (* Write *)
    unfold rl_step in H. destruct (rl_pc_of d s) eqn:Epc; try discriminate.
    destruct HP as (Hne & Hn & Hbuf & _).
    destruct (rl_beqb c (firstn n (rl_buf_of false d s))) eqn:Eb; [|discriminate].
    apply rl_beqb_eq in Eb. rewrite Hbuf in Eb. subst c.
    exists (skipn (Z.to_nat nw) rest).
    rewrite rl_src_snoc, rl_snk_snoc, rdir_eqb_refl, app_nil_r, <- app_assoc. unfold rl_wrote. rewrite firstn_skipn.
    split; [exact HR|].
    assert (Hpc : forall s0 p, rl_pc_of d (rl_set_pc d s0 p) = p) by (intros; destruct d; reflexivity).
    injection H as <-. rewrite Hpc.
    destruct ew; try exact I.
    destruct ((nw <? 0)%Z || (Z.of_nat n <? nw)%Z) eqn:Ebad; try exact I.
    destruct (Z.of_nat n =? nw)%Z eqn:Enw; try exact I.
    assert (Hs : skipn (Z.to_nat nw) rest = []) by (apply skipn_all2; lia).
    destruct er; cbn [rl_after]; auto.
Qed.

Lemma rinv_init k d : RInv k d [] rl_init.
Proof. exists []. split; auto. destruct d; reflexivity. Qed.

Lemma rinv k d tr : forall s, rl_run k false rl_init tr = Some s -> RInv k d tr s.
Proof.
  induction tr as [|a tr IH] using rev_ind; intros s H.
  - cbn in H. injection H as <-. apply rinv_init.
  - apply rl_run_snoc in H as (s1 & H1 & H2). eapply rinv_step; eauto.
Qed.

(* what a direction's sink accepted is a prefix of what its source handed out: in order, nothing replaced,
   duplicated or invented - in every interleaving with the other direction *)
Lemma relay_prefix k d tr s : rl_run k false rl_init tr = Some s -> exists rest, rl_src d tr = rl_snk d tr ++ rest.
Proof. intros H. destruct (rinv k d tr s H) as (rest & HR & _). eauto. Qed.

(* while the loop is between Read and Write, and when it is back at Read, nothing is missing but the chunk in
   flight; a loop of io.Copy that ended on its source's EOF has delivered everything, the bytes that came
   together with the EOF included *)
Lemma relay_complete d tr s : rl_run KIoCopy false rl_init tr = Some s ->
  (rl_pc_of d s = PcRead \/ rl_pc_of d s = PcRet TNil) -> rl_snk d tr = rl_src d tr.
Proof.
  intros H Hp. destruct (rinv KIoCopy d tr s H) as (rest & HR & HP).
  destruct Hp as [Hp|Hp]; rewrite Hp in HP.
  - subst rest. now rewrite app_nil_r in HR.
  - rewrite (HP eq_refl), app_nil_r in HR. auto.
Qed.

(* every Write hands the sink exactly the chunk the SAME direction's last Read stored, whatever the other
   direction read or wrote in between *)
Lemma relay_write_is_last_read k d pre c nw ew s :
  rl_run k false rl_init (pre ++ [RlWrite d c nw ew]) = Some s ->
  exists bl er, rl_last d pre None = Some (RlRead d bl c er).
Proof.
  intros H. apply rl_run_snoc in H as (s1 & H1 & H2).
  destruct (rinv k d pre s1 H1) as (rest & _ & HP).
  unfold rl_step in H2. destruct (rl_pc_of d s1); try discriminate.
  destruct HP as (_ & _ & Hbuf & bl & HL).
  destruct (rl_beqb c (firstn n (rl_buf_of false d s1))) eqn:Eb; [|discriminate].
  apply rl_beqb_eq in Eb. rewrite Hbuf in Eb. subst c. eauto.
Qed.

(* the parent closes the conns only after a loop has left *)
Lemma relay_close_after_return k sh pre s :
  rl_run k sh rl_init (pre ++ [RlClose]) = Some s ->
  exists s1, rl_run k sh rl_init pre = Some s1 /\ (rl_is_ret (rl_pcU s1) || rl_is_ret (rl_pcD s1) = true).
Proof.
  intros H. apply rl_run_snoc in H as (s1 & H1 & H2). exists s1. split; auto.
  unfold rl_step in H2. destruct (rl_is_ret (rl_pcU s1) || rl_is_ret (rl_pcD s1)); [reflexivity|discriminate].
Qed.

(* ---- the hypotheses are satisfiable: a full-duplex run in which each direction's Write happens after the
   other direction's Read, data arrives together with EOF, and the parent closes afterwards *)
Definition ex_relay_run : list rl_act :=
  [RlRead DUp 32768 [x01; x02] RN; RlRead DDown 32768 [x09; x09; x09] REOF;
   RlWrite DUp [x01; x02] 2 RN; RlWrite DDown [x09; x09; x09] 3 RN; RlClose;
   RlRead DUp 32768 [] RE].

Lemma ex_relay_run_ok :
  exists s, rl_run KIoCopy false rl_init ex_relay_run = Some s /\
            rl_pcU s = PcRet TErr /\ rl_pcD s = PcRet TNil /\
            rl_snk DUp ex_relay_run = [x01; x02] /\ rl_snk DDown ex_relay_run = [x09; x09; x09].
Proof. eexists. split; [vm_compute; reflexivity|]. repeat split. Qed.

(* ---- refuted variants *)
(* ONE buffer for both loops: the upstream is handed the upstream's own bytes in place of the client's *)
Definition ex_shared_run : list rl_act :=
  [RlRead DUp 32768 [x01; x02] RN; RlRead DDown 32768 [x09; x09] RN; RlWrite DUp [x09; x09] 2 RN].

Lemma relay_shared_buffer_refuted :
  (exists s, rl_run KIoCopy true rl_init ex_shared_run = Some s) /\
  rl_src DUp ex_shared_run = [x01; x02] /\ rl_snk DUp ex_shared_run = [x09; x09] /\
  (~ exists rest, rl_src DUp ex_shared_run = rl_snk DUp ex_shared_run ++ rest) /\
  rl_run KIoCopy false rl_init ex_shared_run = None.
Proof.
  split; [eexists; vm_compute; reflexivity|]. repeat split.
  intros [rest H]. vm_compute in H. discriminate.
Qed.

(* a loop that tests the Read error before it forwards: bytes that arrive together with EOF are dropped while
   the loop reports a clean end *)
Definition ex_errfirst_run : list rl_act := [RlRead DUp 32768 [x47; x45; x54] REOF].

Lemma relay_errfirst_refuted :
  exists s, rl_run KErrFirst false rl_init ex_errfirst_run = Some s /\ rl_pc_of DUp s = PcRet TNil /\
            rl_src DUp ex_errfirst_run = [x47; x45; x54] /\ rl_snk DUp ex_errfirst_run = [].
Proof. eexists. split; [vm_compute; reflexivity|]. repeat split. Qed.
