(* C18 - the mux replay of corr/C18_Corr.v is SOUND for the mux LTS: every accepted history is a run of
   c18_mstep from the initial state whose visible actions are exactly the recorded stimuli and
   hand-offs, and at every recorded quiescent point the run is in a quiescent state whose connection
   states / sub-listener counters are the recorded ones.  So exactly_one_handler and handed_or_closed
   apply to every accepted recorded history. *)
From Hy Require Import lib.Harness model.C18_Inbounds corr.C18_Corr model.C18_Trace proof.C18_Streams proof.C18_Mux.
From Coq Require Import ZArith Lia.

Lemma first_enabled_some : forall m l m', first_enabled m l = Some m' ->
  exists a o, In a l /\ c18_mstep c18_now m a = Some (m', o).
Proof.
  induction l as [|a t IH]; cbn [first_enabled]; intros m' H; [discriminate|].
  destruct (c18_mstep c18_now m a) as [[m1 o]|] eqn:S.
  - injection H as <-. exists a, o. split; [left; reflexivity|exact S].
  - destruct (IH _ H) as (a' & o & I & S'). exists a', o. split; [right; exact I|exact S'].
Qed.

Lemma first_enabled_none : forall m l, first_enabled m l = None ->
  forall a, In a l -> c18_mstep c18_now m a = None.
Proof.
  induction l as [|a t IH]; cbn [first_enabled]; intros H x I; [contradiction|].
  destruct (c18_mstep c18_now m a) as [[m1 o]|] eqn:S; [discriminate|].
  destruct I as [<-|I]; auto.
Qed.

Lemma hidden_acts_own : forall m a, In a (hidden_acts m) -> c18_visible a = false.
Proof.
  intros m a H. unfold hidden_acts in H. apply in_app_or in H. destruct H as [H|H].
  - cbn in H. repeat (destruct H as [<-|H]; [reflexivity|]). contradiction.
  - apply in_app_or in H. destruct H as [H|H].
    + apply in_flat_map in H. destruct H as (c & _ & H). cbn in H.
      repeat (destruct H as [<-|H]; [reflexivity|]). contradiction.
    + apply in_map_iff in H. destruct H as (s & <- & _). reflexivity.
Qed.

Lemma own_hidden_or_disabled : forall m a, c18_visible a = false ->
  In a (hidden_acts m) \/ c18_mstep c18_now m a = None.
Proof.
  intros m a V.
  assert (C : forall c, (c < length (m_conns m))%nat \/ c18_get_conn m c = None).
  { intros c. destruct (Nat.lt_ge_cases c (length (m_conns m))); auto.
    right. apply nth_error_None. auto. }
  assert (Sb : forall s, (s < length (m_subs m))%nat \/ c18_get_sub m s = None).
  { intros s. destruct (Nat.lt_ge_cases s (length (m_subs m))); auto.
    right. apply nth_error_None. auto. }
  assert (Q : forall c x, (c < length (m_conns m))%nat -> In x [ASelect c; ASeesSubClosed c; ASendPanic c] ->
                          In x (hidden_acts m)).
  { intros c x L I. unfold hidden_acts. apply in_or_app. right. apply in_or_app. left.
    apply in_flat_map. exists c. split; auto. apply in_seq. lia. }
  destruct a; try discriminate V;
    try (left; unfold hidden_acts; apply in_or_app; left; cbn; tauto).
  - left. unfold hidden_acts. apply in_or_app. left. destruct socks; cbn; tauto.
  - destruct (C c) as [L|N]; [left; apply (Q c); cbn; auto|right; cbn; rewrite N; reflexivity].
  - destruct (C c) as [L|N]; [left; apply (Q c); cbn; auto|right; cbn; rewrite N; reflexivity].
  - destruct (Sb s) as [L|N]; [left|right; cbn; rewrite N; reflexivity].
    unfold hidden_acts. apply in_or_app. right. apply in_or_app. right.
    apply in_map. apply in_seq. lia.
  - destruct (C c) as [L|N]; [left; apply (Q c); cbn; auto|right; cbn; rewrite N; reflexivity].
Qed.

Definition settled (m : c18_ms) : Prop := first_enabled m (hidden_acts m) = None.

Lemma settled_own_disabled : forall m, settled m ->
  forall a, c18_visible a = false -> c18_mstep c18_now m a = None.
Proof.
  intros m H a V. destruct (own_hidden_or_disabled m a V) as [I|N]; auto.
  eapply first_enabled_none; eauto.
Qed.

Lemma settle_sound : forall f m m', settle f m = Some m' ->
  exists acts, c18_mrun c18_now m acts = Some m' /\ filter c18_visible acts = [] /\ settled m'.
Proof.
  induction f as [|f IH]; cbn [settle]; intros m m' H; [discriminate|].
  destruct (first_enabled m (hidden_acts m)) as [m1|] eqn:E.
  - destruct (first_enabled_some _ _ _ E) as (a & o & I & S).
    destruct (IH _ _ H) as (acts & R & F & Q).
    exists (a :: acts). cbn [c18_mrun filter]. rewrite S. split; auto. split; auto.
    rewrite (hidden_acts_own _ _ I). exact F.
  - injection H as <-. exists []. repeat split; auto.
Qed.

Lemma filter_app {A} (f : A -> bool) (l1 l2 : list A) : filter f (l1 ++ l2) = filter f l1 ++ filter f l2.
Proof. induction l1 as [|a t IH]; cbn; auto. destruct (f a); cbn; rewrite IH; auto. Qed.

Lemma do_handoffs_sound : forall hs m m', do_handoffs m hs = Some m' -> settled m ->
  exists acts, c18_mrun c18_now m acts = Some m' /\
               filter c18_visible acts = map (fun p => AHandoff (fst p)) hs /\ settled m'.
Proof.
  induction hs as [|[c s] t IH]; cbn [do_handoffs]; intros m m' H Q.
  - injection H as <-. exists []. repeat split; auto.
  - destruct (c18_get_conn m c) as [x|] eqn:G; [|discriminate]. destruct x; try discriminate.
    destruct (Nat.eqb s s0); [|discriminate].
    destruct (c18_mstep c18_now m (AHandoff c)) as [[m1 o]|] eqn:S; [|discriminate].
    destruct (settle 300 m1) as [m2|] eqn:St; [|discriminate].
    destruct (settle_sound _ _ _ St) as (a1 & R1 & F1 & Q2).
    destruct (IH _ _ H Q2) as (a2 & R2 & F2 & Q3).
    exists (AHandoff c :: a1 ++ a2). split; [|split]; auto.
    + cbn [c18_mrun]. rewrite S. rewrite mrun_app, R1. exact R2.
    + cbn [filter c18_visible map fst]. rewrite filter_app, F1, F2. reflexivity.
Qed.

Lemma concat_repeat_nil : forall z (t : c18_script), concat (repeat [] z ++ t) = concat t.
Proof. induction z; cbn; auto. Qed.

Lemma peek_first_byte : forall z b b' s', c18_mux_peek (repeat [] z ++ [[b]]) = Some (b', s') -> b' = b.
Proof.
  intros z b b' s' H. pose proof (detection_byte_is_first_byte (repeat [] z ++ [[b]])) as D.
  rewrite H in D. destruct D as [D _]. rewrite concat_repeat_nil in D. cbn in D. congruence.
Qed.

(* a recorded quiescent point of an accepted history *)
Definition at_wait (m : c18_ms) (conns : list N) (subs : list (N * N)) (bc : bool) : Prop :=
  snap_ok m conns subs bc = true /\ settled m /\ no_handoff_enabled m = true.

Lemma vis_step : forall m a m', vis m a = Some m' -> exists o, c18_mstep c18_now m a = Some (m', o).
Proof.
  unfold vis. intros m a m' H. destruct (c18_mstep c18_now m a) as [[m1 o]|]; [|discriminate].
  injection H as <-. eauto.
Qed.

(* one stimulus *)
Lemma replay_step : forall st t m, replay m (st :: t) = true ->
  exists acts m', c18_mrun c18_now m acts = Some m' /\ filter c18_visible acts = stim_acts1 st /\
                  replay m' t = true /\
                  match st with StWait _ conns subs bc => at_wait m' conns subs bc | _ => True end.
Proof.
  intros st t m H. destruct st; cbn [replay] in H.
  - destruct (c18_mstep c18_now m (AListen socks)) as [[m' o]|] eqn:S; [|discriminate].
    destruct o; [discriminate|]. apply andb_prop in H. destruct H as [_ H].
    exists [AListen socks], m'. cbn [c18_mrun]. rewrite S. repeat split; auto.
  - destruct (vis m (ASubClose s)) as [m'|] eqn:V; [|discriminate]. apply vis_step in V. destruct V as [o S].
    exists [ASubClose s], m'. cbn [c18_mrun]. rewrite S. repeat split; auto.
  - destruct (vis m (ASubAccept s)) as [m'|] eqn:V; [|discriminate]. apply vis_step in V. destruct V as [o S].
    exists [ASubAccept s], m'. cbn [c18_mrun]. rewrite S. repeat split; auto.
  - destruct (vis m AIncoming) as [m'|] eqn:V; [|discriminate]. apply vis_step in V. destruct V as [o S].
    exists [AIncoming], m'. cbn [c18_mrun]. rewrite S. repeat split; auto.
  - apply andb_prop in H. destruct H as [_ H]. exists [], m. repeat split; auto.
  - destruct (c18_mux_peek (repeat [] z ++ [[b]])) as [[b' s']|] eqn:P; [|discriminate].
    apply peek_first_byte in P. subst b'.
    destruct (vis m (AFirstByte c b)) as [m'|] eqn:V; [|discriminate]. apply vis_step in V. destruct V as [o S].
    exists [AFirstByte c b], m'. cbn [c18_mrun]. rewrite S. repeat split; auto.
  - destruct (c18_mux_peek (repeat [] z)); [discriminate|].
    destruct (vis m (AReadErr c)) as [m'|] eqn:V; [|discriminate]. apply vis_step in V. destruct V as [o S].
    exists [AReadErr c], m'. cbn [c18_mrun]. rewrite S. repeat split; auto.
  - destruct (settle 300 m) as [m1|] eqn:St; [|discriminate].
    destruct (do_handoffs m1 handoffs) as [m2|] eqn:Dh; [|discriminate].
    apply andb_prop in H. destruct H as [H R]. apply andb_prop in H. destruct H as [Nh Sn].
    destruct (settle_sound _ _ _ St) as (a1 & R1 & F1 & Q1).
    destruct (do_handoffs_sound _ _ _ Dh Q1) as (a2 & R2 & F2 & Q2).
    exists (a1 ++ a2), m2. rewrite mrun_app, R1, filter_app, F1, F2. repeat split; auto.
Qed.

Lemma replay_prefix : forall l1 l2 m, replay m (l1 ++ l2) = true ->
  exists acts m', c18_mrun c18_now m acts = Some m' /\ filter c18_visible acts = stim_acts l1 /\
                  replay m' l2 = true.
Proof.
  induction l1 as [|st t IH]; intros l2 m H.
  - exists [], m. repeat split; auto.
  - cbn [app] in H. destruct (replay_step _ _ _ H) as (a1 & m1 & R1 & F1 & H1 & _).
    destruct (IH _ _ H1) as (a2 & m2 & R2 & F2 & H2).
    exists (a1 ++ a2), m2. rewrite mrun_app, R1, filter_app, F1, F2. repeat split; auto.
Qed.

(* ------------------------------------------------------------------ soundness *)
Lemma replay_sound : forall l, replay c18_m_init l = true ->
  exists acts m, c18_mrun c18_now c18_m_init acts = Some m /\ filter c18_visible acts = stim_acts l.
Proof.
  intros l H. rewrite <- (app_nil_r l) in H. destruct (replay_prefix _ _ _ H) as (acts & m & R & F & _).
  exists acts, m. auto.
Qed.

Lemma no_handoff_none : forall m, no_handoff_enabled m = true -> forall c, c18_mstep c18_now m (AHandoff c) = None.
Proof.
  intros m H c. destruct (Nat.lt_ge_cases c (length (m_conns m))) as [L|G].
  - unfold no_handoff_enabled in H. rewrite forallb_forall in H.
    specialize (H c). destruct (c18_mstep c18_now m (AHandoff c)); auto.
    assert (false = true) by (apply H; apply in_seq; lia). discriminate.
  - cbn. assert (N : c18_get_conn m c = None) by (apply nth_error_None; auto). rewrite N. reflexivity.
Qed.

Lemma at_wait_quiet : forall m conns subs bc, at_wait m conns subs bc -> c18_quiet m.
Proof.
  intros m conns subs bc (_ & Q & Nh). split.
  - apply settled_own_disabled; auto.
  - apply no_handoff_none; auto.
Qed.

Lemma N_list_eqb_eq : forall a b, N_list_eqb a b = true -> a = b.
Proof.
  unfold N_list_eqb. induction a as [|x s IH]; destruct b as [|y t]; cbn [length combine forallb fst snd];
    intros H; try (cbn in H; discriminate); auto.
  apply andb_prop in H. destruct H as [L H]. apply andb_prop in H. destruct H as [E H].
  apply N.eqb_eq in E. f_equal; auto. apply IH. rewrite H. cbn in L. rewrite L. reflexivity.
Qed.

Lemma nth_error_map_inv {A B} (f : A -> B) : forall l n y, nth_error (map f l) n = Some y ->
  exists x, nth_error l n = Some x /\ y = f x.
Proof.
  induction l as [|a t IH]; destruct n; cbn; intros y H; try discriminate.
  - injection H as <-. eauto.
  - eauto.
Qed.

Lemma map_pair_eq {A} (f g : A -> N) : forall l (subs : list (N * N)),
  map f l = map fst subs -> map g l = map snd subs -> map (fun x => (f x, g x)) l = subs.
Proof.
  induction l as [|a t IH]; destruct subs as [|[u v] r]; cbn; intros F G; try discriminate; auto.
  injection F as -> F. injection G as -> G. f_equal; auto.
Qed.

(* every recorded quiescent point of an accepted history: the run so far, its (quiescent) state, the
   recorded snapshot IS the state's, and what the theorems about every run say of it *)
Lemma replay_snapshot : forall l1 hs conns subs bc l2,
  replay c18_m_init (l1 ++ StWait hs conns subs bc :: l2) = true ->
  exists acts m,
    c18_mrun c18_now c18_m_init acts = Some m /\
    filter c18_visible acts = stim_acts (l1 ++ [StWait hs conns subs bc]) /\
    c18_quiet m /\
    map conn_code (m_conns m) = conns /\
    map (fun x => (N.of_nat (sb_errs x), N.of_nat (sb_waiting x))) (m_subs m) = subs /\
    m_base_closed m = bc /\
    m_ml m <> MLPanic /\
    forall c code, nth_error conns c = Some code ->
      exists x, c18_get_conn m c = Some x /\ code = conn_code x /\
        x <> CDropped /\ x <> CLeaked /\ x <> CPanic /\
        (code = 0%N -> c18_c_terminal x = false) /\
        (code = 1%N -> x = CClosed) /\
        (forall s, code = (2 + N.of_nat s)%N -> exists b, x = CHanded b s) /\
        (forall b s, x = CHanded b s ->
           (exists acts1 acts2 m1,
              acts = acts1 ++ ASelect c :: acts2 /\ c18_mrun c18_now c18_m_init acts1 = Some m1 /\
              c18_get_conn m1 c = Some (CByte b) /\ c18_slot m1 (c18_is_socks b) = Some s) /\
           (forall more m', c18_mrun c18_now m more = Some m' -> c18_get_conn m' c = Some (CHanded b s))).
Proof.
  intros l1 hs conns subs bc l2 H.
  destruct (replay_prefix _ _ _ H) as (a1 & m1 & R1 & F1 & H1).
  destruct (replay_step _ _ _ H1) as (a2 & m & R2 & F2 & _ & W).
  assert (R : c18_mrun c18_now c18_m_init (a1 ++ a2) = Some m) by (rewrite mrun_app, R1; exact R2).
  exists (a1 ++ a2), m. split; [exact R|]. split.
  { unfold stim_acts. rewrite filter_app, flat_map_app, F1, F2. cbn [flat_map]. rewrite app_nil_r. reflexivity. }
  split; [eapply at_wait_quiet; eauto|].
  destruct W as (Sn & _ & _). unfold snap_ok in Sn.
  apply andb_prop in Sn. destruct Sn as [Sn Bc]. apply andb_prop in Sn. destruct Sn as [Sn Wt].
  apply andb_prop in Sn. destruct Sn as [Cn Er].
  apply N_list_eqb_eq in Cn. apply N_list_eqb_eq in Er. apply N_list_eqb_eq in Wt. apply eqb_prop in Bc.
  split; [exact Cn|]. split; [apply map_pair_eq; auto|]. split; [exact Bc|].
  destruct (handed_or_closed _ _ R) as [Ml Hc]. split; [exact Ml|].
  intros c code N. rewrite <- Cn in N. apply nth_error_map_inv in N. destruct N as (x & G & ->).
  exists x. split; [exact G|]. split; [reflexivity|].
  destruct (Hc _ _ G) as (X1 & X2 & X3 & _).
  split; [exact X1|]. split; [exact X2|]. split; [exact X3|].
  split; [|split; [|split]].
  - destruct x; cbn [conn_code c18_c_terminal]; intros E; try reflexivity; try congruence; try lia.
  - destruct x; cbn [conn_code]; intros E; try reflexivity; try congruence; try lia.
  - intros s0 E. destruct x; cbn [conn_code] in E; try lia; try congruence.
    exists b. f_equal. lia.
  - intros b s0 ->. apply (exactly_one_handler c18_now _ _ _ _ _ R G).
Qed.

(* the hypotheses are satisfiable: a history with a SOCKS hand-off, an HTTP connection parked without
   an Accept and closed when its sub-listener closes *)
Example replay_accepts_example :
  replay c18_m_init
    [StListen true 0; StListen false 0; StSubAccept 0; StIncoming;
     StWait [] [0%N] [(0%N,1%N);(0%N,0%N)] false;
     StFirstByte 0 2 x05; StWait [(0,0)%nat] [2%N] [(0%N,0%N);(0%N,0%N)] false;
     StIncoming; StWait [] [2%N;0%N] [(0%N,0%N);(0%N,0%N)] false;
     StFirstByte 1 0 x47; StWait [] [2%N;0%N] [(0%N,0%N);(0%N,0%N)] false;
     StSubClose 1; StWait [] [2%N;1%N] [(0%N,0%N);(0%N,0%N)] false] = true.
Proof. vm_compute. reflexivity. Qed.
