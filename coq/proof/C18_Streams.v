(* C18 proofs, part 1: streams - Read / ReadFull over a script, the prefix readers
   (cachedConn, connWithOneByte), io.Copy. *)
From Hy Require Import model.C18_Inbounds.
From Coq Require Import ZArith Lia ZifyBool ZifyNat ZifyN.
Local Open Scope N_scope.

Lemma c18_read_spec n s b eof s' :
  c18_read n s = (b, eof, s') ->
  b ++ concat s' = concat s /\ (eof = true -> s = [] /\ b = []) /\ (N.of_nat (length b) <= n).
Proof.
  unfold c18_read. destruct s as [|c t].
  - intros H; inversion H; subst. cbn. repeat split; auto. lia.
  - destruct (N.of_nat (length c) <=? n) eqn:E; intros H; inversion H; subst; cbn [concat].
    + repeat split; auto; try discriminate. lia.
    + rewrite app_assoc, firstn_skipn. repeat split; auto; try discriminate.
      rewrite firstn_length. lia.
Qed.

Lemma c18_pre_read_spec n r b eof r' :
  c18_pre_read n r = (b, eof, r') ->
  b ++ c18_pre_remaining r' = c18_pre_remaining r /\
  (eof = true -> c18_pre_remaining r = [] /\ b = []) /\ (N.of_nat (length b) <= n).
Proof.
  unfold c18_pre_read, c18_pre_remaining. destruct r as [buf conn]. cbn [pr_buf pr_conn].
  destruct buf as [|x buf].
  - destruct (c18_read n conn) as [[b0 e0] s0] eqn:E. cbn. intros H; inversion H; subst. cbn [pr_buf pr_conn app].
    apply c18_read_spec in E. destruct E as (E1 & E2 & E3). split; [exact E1|split; [|exact E3]].
    intros He. destruct (E2 He) as [-> ->]. split; reflexivity.
  - destruct (N.of_nat (length (x :: buf)) <=? n) eqn:E; intros H; inversion H; subst; cbn [pr_buf pr_conn].
    + repeat split; auto; try discriminate. lia.
    + rewrite app_assoc, firstn_skipn. repeat split; auto; try discriminate.
      rewrite firstn_length. lia.
Qed.

(* successive reads of ANY sizes (zeros included) hand out the remaining bytes in order: what was read,
   followed by what is still to be read, is what was there *)
Lemma c18_drain_spec sizes : forall r out r',
  c18_drain sizes r = (out, r') -> out ++ c18_pre_remaining r' = c18_pre_remaining r.
Proof.
  induction sizes as [|n t IH]; intros r out r'; cbn [c18_drain].
  - intros H; inversion H; subst. reflexivity.
  - destruct (c18_pre_read n r) as [[b eof] r1] eqn:E.
    apply c18_pre_read_spec in E. destruct E as (E1 & E2 & _).
    destruct eof.
    + intros H; inversion H; subst. exact E1.
    + destruct (c18_drain t r1) as [bs r2] eqn:D. intros H; inversion H; subst.
      rewrite <- app_assoc, (IH _ _ _ D). exact E1.
Qed.

(* a Read with a non-empty buffer makes progress unless the reader is at a zero-length chunk *)
Lemma c18_pre_read_progress n r b eof r' :
  c18_pre_read n r = (b, eof, r') -> 0 < n ->
  (b <> []) \/ eof = true \/ (pr_buf r = [] /\ exists t, pr_conn r = [] :: t /\ r' = mkPre [] t).
Proof.
  unfold c18_pre_read. destruct r as [buf conn]. cbn [pr_buf pr_conn]. intros H Hn.
  destruct buf as [|x buf].
  - unfold c18_read in H. destruct conn as [|c t].
    + injection H as <- <- <-. auto.
    + destruct (N.of_nat (length c) <=? n) eqn:E; injection H as <- <- <-.
      * destruct c as [|y c]; [right; right; split; auto; eexists; eauto | left; discriminate].
      * left. destruct c as [|y c]; cbn [length] in E; [lia|].
        destruct (N.to_nat n) eqn:Q; [lia|]. cbn. discriminate.
  - destruct (N.of_nat (length (x :: buf)) <=? n) eqn:E; injection H as <- <- <-.
    + left; discriminate.
    + left. destruct (N.to_nat n) eqn:Q; [lia|]. cbn. discriminate.
Qed.

(* io.Copy with enough Read calls moves everything *)
Lemma c18_copy_buf_pos : 0 < c18_copy_buf.
Proof. unfold c18_copy_buf. lia. Qed.
Global Opaque c18_copy_buf.

Lemma c18_pre_read_measure n r b r' :
  c18_pre_read n r = (b, false, r') -> 0 < n ->
  (length (pr_buf r') + length (pr_conn r') + length (concat (pr_conn r')) <
   length (pr_buf r) + length (pr_conn r) + length (concat (pr_conn r)))%nat.
Proof.
  unfold c18_pre_read. destruct r as [buf conn]. cbn [pr_buf pr_conn]. intros H Hn.
  destruct buf as [|x buf].
  - unfold c18_read in H. destruct conn as [|c t]; [discriminate|].
    destruct (N.of_nat (length c) <=? n) eqn:E; injection H as <- <-; cbn [pr_buf pr_conn concat length].
    + rewrite app_length. lia.
    + rewrite !app_length, skipn_length. lia.
  - destruct (N.of_nat (length (x :: buf)) <=? n) eqn:E; injection H as <- <-; cbn [pr_buf pr_conn length].
    + lia.
    + rewrite skipn_length. cbn [length] in *. lia.
Qed.

Lemma c18_copy_enough : forall fuel r,
  (length (pr_buf r) + length (pr_conn r) + length (concat (pr_conn r)) < fuel)%nat ->
  c18_copy fuel r = c18_pre_remaining r.
Proof.
  induction fuel as [|f IH]; intros r Hf; [lia|].
  cbn [c18_copy]. destruct (c18_pre_read c18_copy_buf r) as [[b eof] r1] eqn:E.
  pose proof (c18_pre_read_spec _ _ _ _ _ E) as (E1 & E2 & _).
  destruct eof.
  - destruct (E2 eq_refl) as [R ->]. now rewrite R.
  - rewrite IH; [exact E1|].
    pose proof (c18_pre_read_measure _ _ _ _ E c18_copy_buf_pos). lia.
Qed.

Lemma c18_copy_all_spec r : c18_copy_all r = c18_pre_remaining r.
Proof. unfold c18_copy_all, c18_copy_fuel. apply c18_copy_enough. lia. Qed.

(* io.ReadFull depends on the bytes only, not on how they are chunked *)
Lemma c18_read_full_spec : forall s n,
  match c18_read_full n s with
  | Some (r, s') => r = firstn n (concat s) /\ concat s' = skipn n (concat s) /\ (n <= length (concat s))%nat
  | None => (length (concat s) < n)%nat
  end.
Proof.
  induction s as [|c t IH]; intros n.
  - destruct n; cbn; [auto | lia].
  - destruct n as [|n']; [cbn; repeat split; auto; lia|].
    cbn [c18_read_full concat]. destruct (Nat.leb (length c) (S n')) eqn:E.
    + apply Nat.leb_le in E. specialize (IH (S n' - length c)%nat).
      destruct (c18_read_full (S n' - length c) t) as [[r s']|].
      * destruct IH as (-> & I2 & I3). rewrite app_length.
        rewrite firstn_app, skipn_app, (firstn_all2 (n:=S n') c) by lia.
        rewrite (skipn_all2 (n:=S n') c) by lia. cbn [app]. repeat split; auto. lia.
      * rewrite app_length. lia.
    + apply Nat.leb_gt in E. rewrite app_length.
      rewrite firstn_app, skipn_app.
      replace (S n' - length c)%nat with 0%nat by lia. cbn [firstn skipn concat]. rewrite app_nil_r.
      repeat split; auto. lia.
Qed.

Lemma c18_read_full_chunking s1 s2 n :
  concat s1 = concat s2 ->
  match c18_read_full n s1, c18_read_full n s2 with
  | Some (r1, t1), Some (r2, t2) => r1 = r2 /\ concat t1 = concat t2
  | None, None => True
  | _, _ => False
  end.
Proof.
  intros H. pose proof (c18_read_full_spec s1 n) as A. pose proof (c18_read_full_spec s2 n) as B.
  destruct (c18_read_full n s1) as [[r1 t1]|], (c18_read_full n s2) as [[r2 t2]|]; auto.
  - destruct A as (-> & A2 & _), B as (-> & B2 & _). rewrite A2, B2, H. auto.
  - destruct A as (_ & _ & A3). rewrite H in A3. lia.
  - destruct B as (_ & _ & B3). rewrite H in A. lia.
Qed.

(* the mux's peek (io.ReadFull of one byte) yields the stream's real first byte whatever the chunking,
   zero-length reads included, leaves the rest of the stream for the wrapper, and fails only on a
   stream without any byte *)
Lemma mux_peek_spec : forall s : c18_script,
  match c18_mux_peek s with
  | Some (b, s') => concat s = b :: concat s'
  | None => concat s = []
  end.
Proof.
  intros s. unfold c18_mux_peek. pose proof (c18_read_full_spec s 1) as H.
  destruct (c18_read_full 1 s) as [[r s']|].
  - destruct H as (Hr & Hs & Hl). destruct (concat s) as [|x l] eqn:E; [cbn in Hl; lia|].
    cbn in Hr, Hs. subst r. rewrite Hs. reflexivity.
  - destruct (concat s); [reflexivity | cbn in H; lia].
Qed.

Lemma detection_byte_is_first_byte : forall (s : c18_script),
  match c18_mux_peek s with
  | Some (b, s') =>
      concat s = b :: concat s' /\
      forall sizes out r', c18_drain sizes (mkPre [b] s') = (out, r') -> out ++ c18_pre_remaining r' = concat s
  | None => concat s = []
  end.
Proof.
  intros s. pose proof (mux_peek_spec s) as H.
  destruct (c18_mux_peek s) as [[b s']|]; [|exact H].
  split; [exact H|]. intros sizes out r' D. apply c18_drain_spec in D. rewrite D, H. reflexivity.
Qed.

Lemma first_byte_preserved : forall (b : byte) (stream : c18_script) (sizes : list N) out r',
  c18_drain sizes (mkPre [b] stream) = (out, r') ->
  out ++ c18_pre_remaining r' = b :: concat stream.
Proof. intros b stream sizes out r' H. apply c18_drain_spec in H. exact H. Qed.
