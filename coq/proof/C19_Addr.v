(* C19 proofs, part (d): the address list of a resolved hop address and the destinations of the
   hop LTS over it. *)
From Hy Require Import lib.Res lib.Bytes model.C19_PortUnion model.C19_Hop model.C19_Addr proof.C19_PortUnion proof.C19_Hop.
From Coq Require Import ZArith Bool Lia List Sorting.Sorted FinFun.
Import ListNotations.
Local Open Scope N_scope.

(* ---------- addrs() *)

Lemma addrs_ports a : map ua_port (addrs a) = ha_ports a.
Proof. unfold addrs. rewrite map_map. cbn [ua_port]. apply map_id. Qed.

Lemma addrs_length a : length (addrs a) = length (ha_ports a).
Proof. unfold addrs. apply map_length. Qed.

Lemma addrs_in a dst : In dst (addrs a) <-> exists p, In p (ha_ports a) /\ dst = mkUA (ha_ip a) p [].
Proof.
  unfold addrs. rewrite in_map_iff. split.
  - intros (p & <- & Hp). eauto.
  - intros (p & Hp & ->). eauto.
Qed.

Lemma addrs_nth a j dst : nth_error (addrs a) j = Some dst ->
  exists p, nth_error (ha_ports a) j = Some p /\ dst = mkUA (ha_ip a) p [].
Proof.
  unfold addrs. intros H. destruct (nth_error (ha_ports a) j) as [p|] eqn:E.
  - erewrite map_nth_error in H by exact E. inversion H; subst. eauto.
  - apply nth_error_None in E. assert (nth_error (map (fun p => mkUA (ha_ip a) p []) (ha_ports a)) j = None) as N0
      by (apply nth_error_None; rewrite map_length; exact E).
    rewrite N0 in H. discriminate.
Qed.

(* ---------- ResolveUDPHopAddr *)

Lemma resolve_ok split resolver a : resolve_hop_addr split resolver = inl a ->
  exists host portstr i z v,
    split = Some (host, portstr) /\ resolver host = Some (i, z) /\ parse_port_union portstr = Some v /\
    a = mkHA i (ports v) portstr.
Proof.
  unfold resolve_hop_addr. destruct split as [[host portstr]|]; [|discriminate].
  destruct (resolver host) as [[i z]|] eqn:Er; [|discriminate].
  destruct (parse_port_union portstr) as [v|] eqn:Ep; [|discriminate].
  intros H; inversion H; subst. exists host, portstr, i, z, v. auto.
Qed.

Lemma resolve_err split resolver e : resolve_hop_addr split resolver = inr e ->
  match e with
  | HESplit => split = None
  | HEResolve => exists host portstr, split = Some (host, portstr) /\ resolver host = None
  | HEPort => exists host portstr i z, split = Some (host, portstr) /\ resolver host = Some (i, z) /\
                                      parse_port_union portstr = None
  end.
Proof.
  unfold resolve_hop_addr. destruct split as [[host portstr]|].
  - destruct (resolver host) as [[i z]|] eqn:Er.
    + destruct (parse_port_union portstr) as [v|] eqn:Ep; [discriminate|].
      intros H; inversion H; subst. exists host, portstr, i, z. auto.
    + intros H; inversion H; subst. eauto.
  - intros H; inversion H; subst. reflexivity.
Qed.

(* a well-formed hop address resolves; Ports is the denoted set in ascending order, and addrs() is
   exactly one (server IP, port, no zone) per port of the set, in that order *)
Theorem resolve_spec host portstr resolver i z u :
  resolver host = Some (i, z) -> parse_raw portstr = Some u ->
  exists a, resolve_hop_addr (Some (host, portstr)) resolver = inl a /\
    ha_ip a = i /\ ha_portstr a = portstr /\ hop_ports portstr = Some (ha_ports a) /\
    ha_ports a <> [] /\ NoDup (ha_ports a) /\ StronglySorted N.lt (ha_ports a) /\
    (forall p, In p (ha_ports a) <-> denotes u p) /\
    addrs a = map (fun p => mkUA i p []) (ha_ports a) /\
    (forall dst, In dst (addrs a) <-> ua_ip dst = i /\ ua_zone dst = [] /\ denotes u (ua_port dst)) /\
    NoDup (addrs a).
Proof.
  intros Hr Hp. destruct (denotation portstr u Hp) as (v & Hv & _ & Hin & Hs & Hnd & _ & Hne & _).
  exists (mkHA i (ports v) portstr). unfold resolve_hop_addr. rewrite Hr, Hv.
  split; [reflexivity|]. cbn [ha_ip ha_ports ha_portstr].
  split; [reflexivity|]. split; [reflexivity|]. split; [unfold hop_ports; rewrite Hv; reflexivity|].
  split; [exact Hne|]. split; [exact Hnd|]. split; [exact Hs|]. split; [exact Hin|].
  split; [reflexivity|]. split.
  - intros dst. rewrite addrs_in. cbn [ha_ip ha_ports]. split.
    + intros (p & Hp' & ->). cbn [ua_ip ua_zone ua_port]. rewrite <- Hin. auto.
    + intros (H1 & H2 & H3). exists (ua_port dst). rewrite Hin. split; [exact H3|].
      destruct dst as [di dp dz]. cbn in *. subst. reflexivity.
  - unfold addrs. cbn [ha_ip ha_ports]. apply Injective_map_NoDup; [|exact Hnd].
    intros p q H. inversion H. reflexivity.
Qed.

(* ---------- net.IP.Equal *)

Lemma bytes_eq_refl a : bytes_eq a a = true.
Proof. induction a as [|x a IH]; simpl; [reflexivity|]. rewrite IH, andb_true_r. apply Byte.byte_dec_lb. reflexivity. Qed.

Lemma ip_equal_refl a : ip_equal a a = true.
Proof. unfold ip_equal. rewrite Nat.eqb_refl. apply bytes_eq_refl. Qed.

(* ---------- the LTS over the address list refines the hop LTS, write for write *)

Lemma map_erase_out o : map erase (map AOut o) = o.
Proof. rewrite map_map. cbn [erase]. apply map_id. Qed.

Lemma astep_erase az ce s a :
  step (map ua_port az) ce s a = (fst (astep az ce s a), map erase (snd (astep az ce s a))).
Proof.
  destruct a; try (cbn [astep]; destruct (step (map ua_port az) ce s _) as [s' o] eqn:E; cbn [fst snd];
                   rewrite map_erase_out; reflexivity).
  cbn [astep step]. destruct (closed s); [reflexivity|].
  destruct (nth_error az (idx s)) as [dst|] eqn:E.
  - erewrite map_nth_error by exact E. reflexivity.
  - assert (nth_error (map ua_port az) (idx s) = None) as -> by (apply nth_error_None; rewrite map_length; apply nth_error_None; exact E).
    reflexivity.
Qed.

Lemma arun_erase az ce l : forall s,
  run (map ua_port az) ce s l = (fst (arun az ce s l), map erase (snd (arun az ce s l))).
Proof.
  induction l as [|a t IH]; intros s; [reflexivity|].
  cbn [run arun]. rewrite (astep_erase az ce s a).
  destruct (astep az ce s a) as [s1 o1]. cbn [fst snd]. rewrite (IH s1).
  destruct (arun az ce s1 t) as [s2 o2]. cbn [fst snd]. rewrite map_app. reflexivity.
Qed.

(* a write's destination is an element of the address list: Addrs[addrIndex] *)
Lemma astep_write_in az ce s a k dst d :
  In (AOWrite k dst d) (snd (astep az ce s a)) -> In dst az.
Proof.
  destruct a; try (cbn [astep]; destruct (step (map ua_port az) ce s _) as [s' o]; cbn [snd];
                   rewrite in_map_iff; intros (x & Hx & _); discriminate).
  cbn [astep]. destruct (closed s); cbn [snd].
  - intros [H|[]]; discriminate.
  - destruct (nth_error az (idx s)) as [dst'|] eqn:E; cbn [snd].
    + intros [H|[H|[]]]; [|discriminate]. inversion H; subst. eapply nth_error_In; eauto.
    + intros [H|[]]; discriminate.
Qed.

Lemma arun_write_in az ce l : forall s k dst d,
  In (AOWrite k dst d) (snd (arun az ce s l)) -> In dst az.
Proof.
  induction l as [|a t IH]; intros s k dst d; [intros []|].
  cbn [arun]. destruct (astep az ce s a) as [s1 o1] eqn:E1. destruct (arun az ce s1 t) as [s2 o2] eqn:E2.
  cbn [snd]. rewrite in_app_iff. intros [H|H].
  - apply (astep_write_in az ce s a k dst d). rewrite E1. exact H.
  - apply (IH s1 k dst d). rewrite E2. exact H.
Qed.

(* every socket write of every run of a conn built from a resolved hop address goes to the server IP
   (the very bytes the resolver returned, no zone) on a port of the set; and it is a write of the
   port-level LTS, so everything proved there holds of it *)
Theorem writes_to_server host portstr resolver i z u a ce r0 s0 acts k dst d :
  resolver host = Some (i, z) -> parse_raw portstr = Some u ->
  resolve_hop_addr (Some (host, portstr)) resolver = inl a ->
  ainit (addrs a) true r0 = Ok s0 ->
  In (AOWrite k dst d) (snd (arun (addrs a) ce s0 acts)) ->
  dst = mkUA i (ua_port dst) [] /\ ip_equal (ua_ip dst) i = true /\ denotes u (ua_port dst) /\
  init (ha_ports a) true r0 = Ok s0 /\
  In (OSockWrite k (ua_port dst) d) (snd (run (ha_ports a) ce s0 acts)) /\
  exists pre post, acts = pre ++ AWrite d :: post /\
    let s := fst (run (ha_ports a) ce s0 pre) in
    closed s = false /\ k = cur s /\ S k = List.length (socks s) /\ sock_open (socks s) k = true /\
    nth_error (addrs a) (idx s) = Some dst.
Proof.
  intros Hr Hp Ha Hi Hin.
  destruct (resolve_spec host portstr resolver i z u Hr Hp) as (a' & Ha' & Hip & _ & _ & _ & _ & _ & Hden & _ & Hall & _).
  rewrite Ha in Ha'. inversion Ha'; subst a'. clear Ha'.
  pose proof (arun_write_in _ _ _ _ _ _ _ Hin) as Hd. apply Hall in Hd. destruct Hd as (H1 & H2 & H3).
  assert (Hi' : init (ha_ports a) true r0 = Ok s0) by (unfold ainit in Hi; rewrite addrs_ports in Hi; exact Hi).
  assert (Hw : In (OSockWrite k (ua_port dst) d) (snd (run (ha_ports a) ce s0 acts))).
  { pose proof (arun_erase (addrs a) ce acts s0) as E. rewrite addrs_ports in E. rewrite E. cbn [snd].
    change (OSockWrite k (ua_port dst) d) with (erase (AOWrite k dst d)). apply in_map. exact Hin. }
  split; [destruct dst as [di dp dz]; cbn in *; subst; reflexivity|].
  split; [rewrite H1; apply ip_equal_refl|]. split; [exact H3|]. split; [exact Hi'|]. split; [exact Hw|].
  destruct (writes_in_set _ ce r0 s0 acts k (ua_port dst) d Hi' Hw) as (_ & pre & post & E & Hc & Hk & Hl & Ho & Hn).
  exists pre, post. split; [exact E|]. cbn zeta. split; [exact Hc|]. split; [exact Hk|]. split; [exact Hl|]. split; [exact Ho|].
  destruct (nth_error (addrs a) (idx (fst (run (ha_ports a) ce s0 pre)))) as [dst'|] eqn:En.
  - destruct (addrs_nth a _ dst' En) as (p & Hp' & ->). rewrite Hn in Hp'. inversion Hp'; subst p.
    destruct dst as [di dp dz]. cbn in *. subst. reflexivity.
  - apply nth_error_None in En. rewrite addrs_length in En.
    assert (nth_error (ha_ports a) (idx (fst (run (ha_ports a) ce s0 pre))) = None) as N0 by (apply nth_error_None; exact En).
    rewrite N0 in Hn. discriminate.
Qed.

(* ---------- non-vacuity: an IPv6 server; two hops, three writes, three different ports, one IP *)
Definition ex_ip6 : ip := [x20; x01; x0d; xb8; x00; x00; x00; x00; x00; x00; x00; x00; x00; x00; x00; x01].
Definition ex_resolver (h : list byte) : option (ip * list byte) := Some (ex_ip6, [x6c; x6f]).

Example ex_v6_writes :
  match resolve_hop_addr (Some ([], [x35; x2c; x37; x2d; x38])) ex_resolver with     (* "5,7-8" *)
  | inl a =>
      addrs a = [mkUA ex_ip6 5 []; mkUA ex_ip6 7 []; mkUA ex_ip6 8 []] /\
      match ainit (addrs a) true 0 with
      | Ok s0 => snd (arun (addrs a) (fun _ => false) s0 [AWrite 1; AHop true 1; AWrite 2; AHop true 5; AWrite 3]) =
                 [AOWrite 0 (mkUA ex_ip6 5 []) 1; AOut (ORet RWrote);
                  AOut (OListen true);
                  AOWrite 1 (mkUA ex_ip6 7 []) 2; AOut (ORet RWrote);
                  AOut (OListen true); AOut (OSockClose 0 false);
                  AOWrite 2 (mkUA ex_ip6 8 []) 3; AOut (ORet RWrote)]
      | _ => False
      end
  | inr _ => False
  end.
Proof. vm_compute. split; reflexivity. Qed.

Example ex_ip_equal :
  ip_equal [x0a; x01; x02; x03] (v4_in_v6_prefix ++ [x0a; x01; x02; x03]) = true /\
  ip_equal (v4_in_v6_prefix ++ [x0a; x01; x02; x03]) [x0a; x01; x02; x03] = true /\
  ip_equal [] ex_ip6 = false /\ ip_equal ex_ip6 [] = false /\ ip_equal [x0a; x01; x02; x03] ex_ip6 = false /\
  ip_equal [x0a; x01; x02; x03] [x0a; x01; x02; x04] = false /\ ip_equal [] [] = true.
Proof. vm_compute. repeat split; reflexivity. Qed.
