(* C19 proofs, part (a'): the language accepted by ParsePortUnion, as a grammar. *)
From Hy Require Import lib.Bytes model.C19_PortUnion proof.C19_PortUnion.
From Coq Require Import ZArith Lia Bool.
Local Open Scope N_scope.

(* ---------- the accepted language, as structured expressions *)

Definition is_digit (c : byte) : bool := match digit c with Some _ => true | None => false end.
Definition dval (c : byte) : N := b2n c - 48.
Definition value_from (acc : N) (s : list byte) : N := fold_left (fun a c => a * 10 + dval c) s acc.
Definition value (s : list byte) : N := value_from 0 s.

Inductive pitem := PSingle (a : list byte) | PRange (a b : list byte).

Definition num_ok (a : list byte) : Prop := a <> [] /\ forallb is_digit a = true /\ value a <= 65535.
Definition pitem_ok (i : pitem) : Prop :=
  match i with PSingle a => num_ok a | PRange a b => num_ok a /\ num_ok b end.
Definition render_item (i : pitem) : list byte :=
  match i with PSingle a => a | PRange a b => a ++ c_dash :: b end.
Definition item_range (i : pitem) : range :=
  match i with
  | PSingle a => (value a, value a)
  | PRange a b => if value b <? value a then (value b, value a) else (value a, value b)   (* reversed: swapped *)
  end.

Fixpoint join (sep : byte) (l : list (list byte)) : list byte :=
  match l with
  | [] => []
  | x :: t => match t with [] => x | _ => x ++ sep :: join sep t end
  end.

Lemma beq_refl c : Byte.eqb c c = true.
Proof. now apply Byte.byte_dec_lb. Qed.

Lemma bytes_eq_iff a : forall b, bytes_eq a b = true <-> a = b.
Proof.
  induction a as [|x a IH]; intros [|y b]; simpl; split; intros H; try discriminate; auto.
  - apply andb_true_iff in H. destruct H as [H1 H2]. apply Byte.byte_dec_bl in H1. apply IH in H2. congruence.
  - inversion H; subst. apply andb_true_iff. split; [apply beq_refl|now apply IH].
Qed.

Lemma split_nonempty sep s : split_on sep s <> [].
Proof.
  destruct s as [|c t]; simpl; [discriminate|].
  destruct (split_on sep t); [discriminate|]. destruct (Byte.eqb c sep); discriminate.
Qed.

Lemma join_cons sep x y t : join sep (x :: y :: t) = x ++ sep :: join sep (y :: t).
Proof. reflexivity. Qed.

Lemma join_split sep s : join sep (split_on sep s) = s.
Proof.
  induction s as [|c t IH]; [reflexivity|].
  cbn [split_on]. destruct (split_on sep t) as [|h r] eqn:E.
  - exfalso. eapply split_nonempty; eauto.
  - destruct (Byte.eqb c sep) eqn:Ec.
    + apply Byte.byte_dec_bl in Ec. subst c. rewrite join_cons, IH. reflexivity.
    + destruct r as [|y r].
      * cbn [join] in *. now rewrite IH.
      * rewrite join_cons in *. rewrite <- IH. reflexivity.
Qed.

Definition nosep (sep : byte) (x : list byte) : Prop := existsb (Byte.eqb sep) x = false.

Lemma eqb_sym_false a b : Byte.eqb a b = false -> Byte.eqb b a = false.
Proof.
  intros H. destruct (Byte.eqb b a) eqn:E; auto. apply Byte.byte_dec_bl in E. subst.
  rewrite (beq_refl _) in H. discriminate.
Qed.

Lemma split_nosep sep x : nosep sep x -> split_on sep x = [x].
Proof.
  unfold nosep. induction x as [|c x IH]; [reflexivity|].
  cbn [existsb]. intros H. apply orb_false_iff in H. destruct H as [H1 H2].
  cbn [split_on]. rewrite (IH H2). now rewrite (eqb_sym_false _ _ H1).
Qed.

Lemma split_app sep x rest : nosep sep x -> split_on sep (x ++ sep :: rest) = x :: split_on sep rest.
Proof.
  unfold nosep. induction x as [|c x IH]; intros H.
  - cbn [app split_on]. destruct (split_on sep rest) as [|h r] eqn:E.
    + exfalso. eapply split_nonempty; eauto.
    + now rewrite (beq_refl _).
  - cbn [existsb] in H. apply orb_false_iff in H. destruct H as [H1 H2].
    rewrite <- app_comm_cons. cbn [split_on]. rewrite (IH H2). now rewrite (eqb_sym_false _ _ H1).
Qed.

Lemma split_join sep l : l <> [] -> Forall (nosep sep) l -> split_on sep (join sep l) = l.
Proof.
  induction l as [|x t IH]; [congruence|]. intros _ H. inversion H as [|? ? Hx Ht]; subst.
  destruct t as [|y t].
  - cbn [join]. now apply split_nosep.
  - rewrite join_cons, split_app by auto. f_equal. apply IH; [discriminate|auto].
Qed.

Lemma split_pieces_nosep sep s : Forall (nosep sep) (split_on sep s).
Proof.
  induction s as [|c t IH]; [repeat constructor|].
  cbn [split_on]. destruct (split_on sep t) as [|h r]; [repeat constructor|].
  inversion IH; subst. destruct (Byte.eqb c sep) eqn:E.
  - constructor; [reflexivity|]. constructor; auto.
  - constructor; auto. unfold nosep in *. cbn [existsb]. rewrite (eqb_sym_false _ _ E). auto.
Qed.

(* ---------- numbers *)

Lemma parse_digits_spec s : forall acc,
  parse_digits acc s = if forallb is_digit s then Some (value_from acc s) else None.
Proof.
  induction s as [|c s IH]; intros acc; [reflexivity|].
  cbn [parse_digits forallb]. unfold is_digit at 1. unfold value_from. cbn [fold_left].
  destruct (digit c) as [d|] eqn:E; [|reflexivity]. cbn [andb]. rewrite IH. unfold value_from.
  assert (d = dval c) as ->; [|reflexivity].
  unfold digit in E. unfold dval. destruct (_ && _); inversion E; reflexivity.
Qed.

Lemma parse_uint16_iff s v : parse_uint16 s = Some v <-> num_ok s /\ value s = v.
Proof.
  unfold parse_uint16, num_ok, value. destruct s as [|c s].
  - split; [discriminate|]. intros [[H _] _]. congruence.
  - rewrite parse_digits_spec. destruct (forallb is_digit (c :: s)).
    + destruct (value_from 0 (c :: s) <=? 65535) eqn:E.
      * apply N.leb_le in E. split.
        -- intros H; inversion H; subst. repeat split; auto. discriminate.
        -- intros [_ <-]. reflexivity.
      * apply N.leb_gt in E. split; [discriminate|]. intros [[_ [_ H]] _]. lia.
    + split; [discriminate|]. intros [[_ [H _]] _]. discriminate.
Qed.

Lemma digit_not c x : is_digit c = true -> is_digit x = false -> Byte.eqb x c = false.
Proof.
  intros H1 H2. destruct (Byte.eqb x c) eqn:E; auto. apply Byte.byte_dec_bl in E. subst. congruence.
Qed.

Lemma digits_nosep x a : is_digit x = false -> forallb is_digit a = true -> nosep x a.
Proof.
  intros Hx. unfold nosep. induction a as [|c a IH]; [reflexivity|].
  cbn [forallb existsb]. intros H. apply andb_true_iff in H. destruct H as [H1 H2].
  rewrite (digit_not c x H1 Hx). now apply IH.
Qed.

Lemma dash_not_digit : is_digit c_dash = false. Proof. reflexivity. Qed.
Lemma comma_not_digit : is_digit c_comma = false. Proof. reflexivity. Qed.

(* ---------- items *)

Lemma parse_item_render i : pitem_ok i -> parse_item (render_item i) = Some (item_range i).
Proof.
  destruct i as [a|a b]; cbn [pitem_ok render_item item_range]; unfold parse_item.
  - intros H. pose proof H as [_ [Hd _]].
    pose proof (digits_nosep _ _ dash_not_digit Hd) as Hn. unfold nosep in Hn. rewrite Hn.
    assert (parse_uint16 a = Some (value a)) as -> by (apply parse_uint16_iff; auto). reflexivity.
  - intros [Ha Hb]. pose proof Ha as [_ [Hda _]]. pose proof Hb as [_ [Hdb _]].
    assert (existsb (Byte.eqb c_dash) (a ++ c_dash :: b) = true) as ->.
    { rewrite existsb_app. cbn [existsb]. rewrite (beq_refl _). now rewrite orb_true_r. }
    rewrite split_app by (now apply digits_nosep).
    rewrite split_nosep by (now apply digits_nosep).
    assert (parse_uint16 a = Some (value a)) as -> by (apply parse_uint16_iff; auto).
    assert (parse_uint16 b = Some (value b)) as -> by (apply parse_uint16_iff; auto).
    destruct (value b <? value a); reflexivity.
Qed.

Lemma parse_item_inv x r : parse_item x = Some r ->
  exists i, pitem_ok i /\ render_item i = x /\ item_range i = r.
Proof.
  unfold parse_item. destruct (existsb (Byte.eqb c_dash) x).
  - pose proof (join_split c_dash x) as Hj.
    destruct (split_on c_dash x) as [|a [|b [|? ?]]]; try discriminate.
    destruct (parse_uint16 a) as [s|] eqn:Ea; [|discriminate].
    destruct (parse_uint16 b) as [e|] eqn:Eb; [|discriminate].
    apply parse_uint16_iff in Ea. apply parse_uint16_iff in Eb. destruct Ea as [Ha <-], Eb as [Hb <-].
    intros H. exists (PRange a b). split; [split; auto|]. split; [exact Hj|].
    cbn [item_range]. destruct (value b <? value a); inversion H; subst; reflexivity.
  - destruct (parse_uint16 x) as [p|] eqn:Ep; [|discriminate].
    apply parse_uint16_iff in Ep. destruct Ep as [Hx <-].
    intros H. inversion H; subst. exists (PSingle x). split; [exact Hx|]. split; reflexivity.
Qed.

Lemma parse_items_render items :
  Forall pitem_ok items -> parse_items (map render_item items) = Some (map item_range items).
Proof.
  induction 1 as [|i t Hi Ht IH]; [reflexivity|].
  cbn [map parse_items]. rewrite (parse_item_render i Hi), IH. reflexivity.
Qed.

Lemma parse_items_inv l : forall u, parse_items l = Some u ->
  exists items, Forall pitem_ok items /\ map render_item items = l /\ map item_range items = u.
Proof.
  induction l as [|x t IH]; intros u; cbn [parse_items].
  - intros H; inversion H; subst. exists []. repeat split; constructor.
  - destruct (parse_item x) as [r|] eqn:Er; [|discriminate].
    destruct (parse_items t) as [rs|]; [|discriminate].
    intros H; inversion H; subst.
    destruct (parse_item_inv x r Er) as (i & Hi & Hx & Hr).
    destruct (IH rs eq_refl) as (items & Hall & Hm & Hu).
    exists (i :: items). split; [constructor; auto|]. cbn [map]. now rewrite Hx, Hr, Hm, Hu.
Qed.

Lemma render_nocomma i : pitem_ok i -> nosep c_comma (render_item i).
Proof.
  destruct i as [a|a b]; cbn [pitem_ok render_item].
  - intros [_ [H _]]. now apply digits_nosep.
  - intros [[_ [Ha _]] [_ [Hb _]]]. unfold nosep. rewrite existsb_app. cbn [existsb].
    pose proof (digits_nosep _ _ comma_not_digit Ha) as H1. pose proof (digits_nosep _ _ comma_not_digit Hb) as H2.
    unfold nosep in H1, H2. rewrite H1, H2. reflexivity.
Qed.

Lemma render_head_digit i : pitem_ok i -> exists c t, render_item i = c :: t /\ is_digit c = true.
Proof.
  destruct i as [a|a b]; cbn [pitem_ok render_item].
  - intros [Hne [Hd _]]. destruct a as [|c a]; [congruence|]. exists c, a. split; auto.
    cbn [forallb] in Hd. now apply andb_true_iff in Hd.
  - intros [[Hne [Hd _]] _]. destruct a as [|c a]; [congruence|]. exists c, (a ++ c_dash :: b). split; auto.
    cbn [forallb] in Hd. now apply andb_true_iff in Hd.
Qed.

(* The accepted language: exactly the wildcards and the comma-separated lists of NUM | NUM-NUM with
   NUM a non-empty string of ASCII digits of value <= 65535; the listed ranges are those numbers. *)
Theorem parse_grammar s u :
  parse_raw s = Some u <->
  ((s = s_all \/ s = s_star) /\ u = [(0, 65535)]) \/
  (exists items, items <> [] /\ Forall pitem_ok items /\
                 s = join c_comma (map render_item items) /\ u = map item_range items).
Proof.
  unfold parse_raw. split.
  - destruct (bytes_eq s s_all || bytes_eq s s_star) eqn:Ew.
    + intros H; inversion H; subst. left. split; auto.
      apply orb_true_iff in Ew. destruct Ew as [Ew|Ew]; apply bytes_eq_iff in Ew; auto.
    + destruct (parse_items (split_on c_comma s)) as [v|] eqn:E; [|discriminate].
      destruct v as [|r v]; [discriminate|]. intros H; inversion H; subst. right.
      destruct (parse_items_inv _ _ E) as (items & Hall & Hm & Hu).
      exists items. split; [|split; [auto|split]].
      * intros ->. discriminate.
      * rewrite Hm. symmetry. apply join_split.
      * auto.
  - intros [[Hs ->]|(items & Hne & Hall & -> & ->)].
    + assert (bytes_eq s s_all || bytes_eq s s_star = true) as ->; [|reflexivity].
      apply orb_true_iff. destruct Hs as [->| ->]; [left|right]; now apply bytes_eq_iff.
    + assert (Hw : bytes_eq (join c_comma (map render_item items)) s_all ||
                   bytes_eq (join c_comma (map render_item items)) s_star = false).
      { destruct items as [|i t]; [congruence|]. inversion Hall; subst.
        destruct (render_head_digit i H1) as (c & tl & Hr & Hc).
        assert (exists tl', join c_comma (map render_item (i :: t)) = c :: tl') as [tl' ->].
        { cbn [map join]. rewrite Hr. destruct (map render_item t); eexists; reflexivity. }
        apply orb_false_iff. split.
        - unfold s_all. cbn [bytes_eq]. destruct (Byte.eqb c x61) eqn:E; auto.
          apply Byte.byte_dec_bl in E. subst. discriminate.
        - unfold s_star. cbn [bytes_eq]. destruct (Byte.eqb c x2a) eqn:E; auto.
          apply Byte.byte_dec_bl in E. subst. discriminate. }
      rewrite Hw. rewrite split_join.
      * rewrite (parse_items_render items Hall). destruct items; [congruence|reflexivity].
      * destruct items; [congruence|discriminate].
      * apply Forall_forall. intros x Hx. apply in_map_iff in Hx. destruct Hx as (i & <- & Hi).
        rewrite Forall_forall in Hall. apply render_nocomma. auto.
Qed.
