(* C19 proofs, part (b): invariants of the hop LTS over all action sequences. *)
From Hy Require Import lib.Res gen.ParamsC19 model.C19_Hop.
From Coq Require Import ZArith Bool Lia.
Local Open Scope nat_scope.

(* ---------- census helpers *)

Lemma close_sock_length k l : length (close_sock k l) = length l.
Proof.
  revert k. induction l as [|s t IH]; intros [|k]; simpl; auto.
Qed.

Lemma close_sock_nth k l j :
  nth_error (close_sock k l) j =
  if Nat.eqb j k then option_map (fun s => mkSock false (s_closes s + 1)) (nth_error l j)
  else nth_error l j.
Proof.
  revert k j. induction l as [|s t IH]; intros k j.
  - destruct k, j; simpl; try reflexivity; destruct (Nat.eqb _ _); reflexivity.
  - destruct k as [|k], j as [|j]; simpl; try reflexivity. apply IH.
Qed.

Lemma close_opt_length p l : length (close_opt p l) = length l.
Proof. destruct p; simpl; auto using close_sock_length. Qed.

(* what the census must say about socket k *)
Definition is_prev (s : st) (k : nat) : bool :=
  match prev s with Some p => Nat.eqb k p | None => false end.

Definition expected (s : st) (k : nat) : sock :=
  if negb (closed s) && (Nat.eqb k (cur s) || is_prev s k) then mkSock true 0 else mkSock false 1.

Record inv (ps : list N) (s : st) : Prop := {
  inv_len : length (socks s) = S (cur s);
  inv_prev : forall p, prev s = Some p -> p < cur s;
  inv_idx : idx s < length ps;
  inv_queue : length (queue s) <= packetQueueSize;
  inv_census : forall k, k <= cur s -> nth_error (socks s) k = Some (expected s k)
}.

Lemma init_inv ps ok r0 s : init ps ok r0 = Ok s -> inv ps s.
Proof.
  unfold init. destruct ok; cbn [negb]; [|discriminate].
  destruct ps as [|p ps]; [discriminate|]. remember (p :: ps) as pps.
  intros H; inversion H; subst s; clear H.
  constructor; cbn [socks cur prev idx queue].
  - reflexivity.
  - discriminate.
  - apply Nat.mod_upper_bound. subst pps. discriminate.
  - cbn. lia.
  - intros k Hk. assert (k = 0) by lia. subst. reflexivity.
Qed.

Lemma enqueue_same s k x :
  prev (enqueue s k x) = prev s /\ cur (enqueue s k x) = cur s /\ idx (enqueue s k x) = idx s /\
  closed (enqueue s k x) = closed s /\ socks (enqueue s k x) = socks s /\ armed (enqueue s k x) = armed s.
Proof. unfold enqueue. destruct (_ && _); simpl; auto 10. Qed.

Lemma inv_transfer ps s s' :
  inv ps s -> prev s' = prev s -> cur s' = cur s -> idx s' = idx s -> closed s' = closed s ->
  socks s' = socks s -> length (queue s') <= packetQueueSize -> inv ps s'.
Proof.
  intros [H1 H2 H3 H4 H5] Ep Ec Ei Ecl Es Hq.
  constructor; rewrite ?Ep, ?Ec, ?Ei, ?Es; auto.
  intros k Hk. rewrite H5 by auto. f_equal. unfold expected, is_prev. now rewrite Ep, Ec, Ecl.
Qed.

Lemma enqueue_queue_bound s k x :
  length (queue s) <= packetQueueSize -> length (queue (enqueue s k x)) <= packetQueueSize.
Proof.
  intros H. unfold enqueue.
  destruct (sock_open (socks s) k); cbn [andb]; auto.
  destruct (length (queue s) <? packetQueueSize) eqn:E; auto.
  apply Nat.ltb_lt in E. cbn [with_queue queue]. rewrite app_length. simpl. lia.
Qed.

Lemma step_inv ps ce s a : inv ps s -> inv ps (fst (step ps ce s a)).
Proof.
  intros I. pose proof I as [H1 H2 H3 H4 H5].
  destruct a as [ok r|d|k p|k|rid|rid pick|kd v|]; cbn [step].
  - (* hop *)
    destruct (closed s) eqn:Ecl; [exact I|].
    destruct ok; cbn [negb fst]; [|exact I].
    constructor; cbn [prev cur idx closed socks queue fst].
    + rewrite app_length, close_opt_length. simpl. lia.
    + intros p Hp. inversion Hp; subst. lia.
    + apply Nat.mod_upper_bound. lia.
    + exact H4.
    + intros k Hk. unfold expected, is_prev. cbn [prev cur closed negb andb].
      destruct (Nat.eqb k (length (socks s))) eqn:Ek.
      * apply Nat.eqb_eq in Ek. subst k.
        rewrite nth_error_app2 by (rewrite close_opt_length; lia).
        rewrite close_opt_length, Nat.sub_diag. reflexivity.
      * apply Nat.eqb_neq in Ek. assert (Hk' : k <= cur s) by lia.
        rewrite nth_error_app1 by (rewrite close_opt_length; lia).
        cbn [orb]. specialize (H5 k Hk'). unfold expected, is_prev in H5. rewrite Ecl in H5. cbn [negb andb] in H5.
        destruct (prev s) as [p|] eqn:Ep; cbn [close_opt].
        -- specialize (H2 p eq_refl). rewrite close_sock_nth.
           destruct (Nat.eqb k p) eqn:Ekp.
           ++ apply Nat.eqb_eq in Ekp. subst p. rewrite H5.
              assert (Nat.eqb k (cur s) = false) by (apply Nat.eqb_neq; lia). rewrite H. reflexivity.
           ++ rewrite H5. rewrite orb_false_r. reflexivity.
        -- rewrite H5. rewrite orb_false_r. reflexivity.
  - (* write *)
    destruct (closed s); [exact I|]. destruct (nth_error ps (idx s)); exact I.
  - (* arrive *)
    cbn [fst]. destruct (enqueue_same s k (IPkt p)) as (E1 & E2 & E3 & E4 & E5 & _).
    eapply inv_transfer; eauto. now apply enqueue_queue_bound.
  - cbn [fst]. destruct (enqueue_same s k ITimeout) as (E1 & E2 & E3 & E4 & E5 & _).
    eapply inv_transfer; eauto. now apply enqueue_queue_bound.
  - (* read begin *)
    destruct (closed s); [exact I|]. cbn [fst]. eapply inv_transfer; eauto.
  - (* read select *)
    destruct (negb (existsb (Nat.eqb rid) (armed s))); [exact I|].
    destruct (queue s) as [|x q] eqn:Eq.
    + destruct (closed s); [|exact I]. cbn [fst]. eapply inv_transfer; eauto. cbn. rewrite Eq. simpl. lia.
    + destruct (closed s && pick); cbn [fst]; eapply inv_transfer; eauto; cbn; rewrite ?Eq in *; simpl in *; lia.
  - (* set *)
    cbn [fst]. destruct kd; eapply inv_transfer; eauto.
  - (* close *)
    destruct (closed s) eqn:Ecl; [exact I|]. cbn [fst].
    constructor; cbn [prev cur idx closed socks queue]; auto.
    + rewrite close_sock_length, close_opt_length. exact H1.
    + intros k Hk. unfold expected. cbn [closed negb andb].
      specialize (H5 k Hk). unfold expected, is_prev in H5. rewrite Ecl in H5. cbn [negb andb] in H5.
      rewrite close_sock_nth.
      destruct (Nat.eqb k (cur s)) eqn:Ekc.
      * destruct (prev s) as [p|] eqn:Ep; cbn [close_opt].
        -- specialize (H2 p eq_refl). rewrite close_sock_nth.
           assert (Nat.eqb k p = false) by (apply Nat.eqb_eq in Ekc; apply Nat.eqb_neq; lia).
           rewrite H, H5. reflexivity.
        -- rewrite H5. reflexivity.
      * cbn [orb] in H5. destruct (prev s) as [p|] eqn:Ep; cbn [close_opt].
        -- rewrite close_sock_nth. destruct (Nat.eqb k p); rewrite H5; reflexivity.
        -- rewrite H5. reflexivity.
Qed.

Lemma run_cons ps ce s a t :
  run ps ce s (a :: t) = (fst (run ps ce (fst (step ps ce s a)) t), snd (step ps ce s a) ++ snd (run ps ce (fst (step ps ce s a)) t)).
Proof.
  cbn [run]. destruct (step ps ce s a) as [s1 o1]. cbn [fst snd]. destruct (run ps ce s1 t). reflexivity.
Qed.

Lemma run_inv ps ce l : forall s, inv ps s -> inv ps (fst (run ps ce s l)).
Proof.
  induction l as [|a t IH]; intros s I; [exact I|].
  rewrite run_cons. cbn [fst]. apply IH. now apply step_inv.
Qed.

(* a state is reachable when some action sequence leads to it from a successful construction *)
Definition reachable (ps : list N) (ce : nat -> bool) (s : st) : Prop :=
  exists r0 s0 acts, init ps true r0 = Ok s0 /\ s = fst (run ps ce s0 acts).

Lemma reachable_inv ps ce s : reachable ps ce s -> inv ps s.
Proof.
  intros (r0 & s0 & acts & Hi & ->). apply run_inv. eapply init_inv; eauto.
Qed.

Lemma run_app ps ce l1 : forall s l2,
  run ps ce s (l1 ++ l2) =
  (fst (run ps ce (fst (run ps ce s l1)) l2), snd (run ps ce s l1) ++ snd (run ps ce (fst (run ps ce s l1)) l2)).
Proof.
  induction l1 as [|a t IH]; intros s l2.
  - cbn [app]. cbn [run fst snd app]. now destruct (run ps ce s l2).
  - rewrite <- app_comm_cons, !run_cons, IH. cbn [fst snd]. now rewrite app_assoc.
Qed.

Lemma reachable_step ps ce s a : reachable ps ce s -> reachable ps ce (fst (step ps ce s a)).
Proof.
  intros (r0 & s0 & acts & Hi & ->). exists r0, s0, (acts ++ [a]). split; auto.
  rewrite run_app. cbn [fst]. rewrite run_cons. reflexivity.
Qed.

(* every output of a run is the output of one step taken from a reachable state *)
Lemma run_out_inv ps ce l : forall s o, In o (snd (run ps ce s l)) ->
  exists pre a, In o (snd (step ps ce (fst (run ps ce s pre)) a)) /\ exists post, l = pre ++ a :: post.
Proof.
  induction l as [|a t IH]; intros s o H; [destruct H|].
  rewrite run_cons in H. cbn [snd] in H. apply in_app_or in H. destruct H as [H|H].
  - exists [], a. split; [exact H|]. exists t. reflexivity.
  - destruct (IH _ _ H) as (pre & a' & H1 & post & ->).
    exists (a :: pre), a'. split.
    + rewrite run_cons. exact H1.
    + exists post. reflexivity.
Qed.

(* ---------- the open sockets are exactly {prev, cur} *)

Lemma open_iff ps s k : inv ps s ->
  (sock_open (socks s) k = true <-> closed s = false /\ (k = cur s \/ prev s = Some k)).
Proof.
  intros [H1 H2 H3 H4 H5]. unfold sock_open.
  destruct (Nat.le_gt_cases k (cur s)) as [Hk|Hk].
  - rewrite H5 by auto. unfold expected, is_prev.
    destruct (closed s); cbn [negb andb s_open].
    + split; [discriminate|intros [? _]; discriminate].
    + destruct (Nat.eqb k (cur s)) eqn:E1; cbn [orb].
      * apply Nat.eqb_eq in E1. cbn. intuition.
      * apply Nat.eqb_neq in E1. destruct (prev s) as [p|].
        -- destruct (Nat.eqb k p) eqn:E2; cbn [s_open].
           ++ apply Nat.eqb_eq in E2. subst. intuition.
           ++ apply Nat.eqb_neq in E2. split; [discriminate|].
              intros [_ [?|Hp]]; [contradiction|]. inversion Hp; subst; contradiction.
        -- cbn. split; [discriminate|]. intros [_ [?|?]]; [contradiction|discriminate].
  - assert (nth_error (socks s) k = None) as -> by (apply nth_error_None; lia).
    split; [discriminate|]. intros [_ [?|Hp]]; [lia|]. specialize (H2 _ Hp). lia.
Qed.

Lemma at_most_two ps s (l : list nat) : inv ps s ->
  NoDup l -> (forall k, In k l -> sock_open (socks s) k = true) -> length l <= 2.
Proof.
  intros I Hnd Hall.
  assert (Hincl : incl l [cur s; match prev s with Some p => p | None => cur s end]).
  { intros k Hk. apply Hall in Hk. apply (open_iff ps s k I) in Hk. destruct Hk as [_ [->|Hp]].
    - now left.
    - rewrite Hp. right. now left. }
  apply (NoDup_incl_length Hnd) in Hincl. simpl in Hincl. exact Hincl.
Qed.

Lemma closed_once_or_open ps s k x : inv ps s -> nth_error (socks s) k = Some x ->
  (s_open x = true /\ s_closes x = 0%N) \/ (s_open x = false /\ s_closes x = 1%N).
Proof.
  intros [H1 H2 H3 H4 H5] Hn.
  assert (Hk : k <= cur s).
  { assert (k < length (socks s)) by (apply nth_error_Some; congruence). lia. }
  rewrite H5 in Hn by auto. inversion Hn; subst. unfold expected.
  destruct (_ && _); cbn; auto.
Qed.

(* ---------- writes *)

Lemma write_spec ps ce s d : inv ps s ->
  (closed s = true /\ step ps ce s (AWrite d) = (s, [ORet RClosed])) \/
  (closed s = false /\ exists port, nth_error ps (idx s) = Some port /\ In port ps /\
     step ps ce s (AWrite d) = (s, [OSockWrite (cur s) port d; ORet RWrote]) /\
     S (cur s) = length (socks s) /\ sock_open (socks s) (cur s) = true).
Proof.
  intros I. pose proof I as [H1 H2 H3 H4 H5]. cbn [step].
  destruct (closed s) eqn:Ecl; [left; auto|right]. split; auto.
  destruct (nth_error ps (idx s)) as [port|] eqn:En.
  - exists port. split; auto. split; [eapply nth_error_In; eauto|]. split; auto. split; auto.
    apply (open_iff ps s (cur s) I). auto.
  - apply nth_error_None in En. lia.
Qed.

Lemma only_write_writes ps ce s a k port d :
  In (OSockWrite k port d) (snd (step ps ce s a)) -> a = AWrite d.
Proof.
  destruct a as [ok r|d'|k' p|k'|rid|rid pick|kd v|]; cbn [step].
  - destruct (closed s); [intros []|]. destruct ok; cbn [negb snd]; [|intros [H|[]]; discriminate].
    intros H. apply in_app_or in H. destruct H as [[H|[]]|H]; [discriminate|].
    apply in_app_or in H. destruct H as [H|H].
    + destruct (prev s); simpl in H; intuition discriminate.
    + unfold hop_sets in H.
      repeat (apply in_app_or in H; destruct H as [H|H]);
      match type of H with In _ (if ?c then _ else _) => destruct c end; simpl in H; intuition discriminate.
  - destruct (closed s); [intros [H|[]]; discriminate|].
    destruct (nth_error ps (idx s)); cbn [snd]; [|intros [H|[]]; discriminate].
    intros [H|[H|[]]]; [|discriminate]. inversion H; subst. reflexivity.
  - intros [].
  - intros [].
  - destruct (closed s); cbn [snd]; [intros [H|[]]; discriminate|intros []].
  - destruct (negb _); [intros []|]. destruct (queue s).
    + destruct (closed s); cbn [snd]; [intros [H|[]]; discriminate|intros []].
    + destruct (closed s && pick); cbn [snd]; intros [H|[]]; discriminate.
  - cbn [snd]. intros H. apply in_app_or in H. destruct H as [H|[H|[]]]; [|discriminate].
    destruct (prev s); simpl in H; intuition discriminate.
  - destruct (closed s); cbn [snd]; [intros [H|[]]; discriminate|].
    intros H. apply in_app_or in H. destruct H as [H|[H|[H|[]]]]; try discriminate.
    destruct (prev s); simpl in H; intuition discriminate.
Qed.

Theorem writes_in_set ps ce r0 s0 acts k port d :
  init ps true r0 = Ok s0 ->
  In (OSockWrite k port d) (snd (run ps ce s0 acts)) ->
  In port ps /\
  exists pre post, acts = pre ++ AWrite d :: post /\
    let s := fst (run ps ce s0 pre) in
    closed s = false /\ k = cur s /\ S k = length (socks s) /\ sock_open (socks s) k = true /\
    nth_error ps (idx s) = Some port.
Proof.
  intros Hi Hin. apply run_out_inv in Hin. destruct Hin as (pre & a & Hin & post & ->).
  pose proof (only_write_writes _ _ _ _ _ _ _ Hin) as ->.
  assert (I : inv ps (fst (run ps ce s0 pre))) by (apply run_inv; eapply init_inv; eauto).
  destruct (write_spec ps ce _ d I) as [[Hc Hs]|[Hc (port' & Hn & Hp & Hs & Hl & Ho)]]; rewrite Hs in Hin; cbn [snd] in Hin.
  - destruct Hin as [H|[]]; discriminate.
  - destruct Hin as [H|[H|[]]]; [|discriminate]. inversion H; subst.
    split; [assumption|]. exists pre, post. split; [reflexivity|]. cbn zeta. repeat split; assumption.
Qed.

(* ---------- the receive path *)

Lemma arrive_delivers ps ce s k x : inv ps s ->
  closed s = false -> (k = cur s \/ prev s = Some k) ->
  length (queue s) < packetQueueSize ->
  step ps ce s (AArrive k x) = (with_queue s (queue s ++ [IPkt x]), []).
Proof.
  intros I Hc Hk Hq. cbn [step]. unfold enqueue.
  assert (sock_open (socks s) k = true) as -> by (apply (open_iff ps s k I); auto).
  apply Nat.ltb_lt in Hq. rewrite Hq. reflexivity.
Qed.

Lemma arrive_on_closed_socket ps ce s k x :
  sock_open (socks s) k = false -> step ps ce s (AArrive k x) = (s, []).
Proof. intros H. cbn [step]. unfold enqueue. rewrite H. reflexivity. Qed.

Lemma read_fifo ps ce s rid pick x q :
  In rid (armed s) -> closed s = false -> queue s = x :: q ->
  step ps ce s (AReadSelect rid pick) =
  (with_armed (with_queue s q) (remove_rid rid (armed s)), [ORet (ret_of_item x)]).
Proof.
  intros Ha Hc Hq. cbn [step].
  assert (existsb (Nat.eqb rid) (armed s) = true) as ->.
  { apply existsb_exists. exists rid. split; auto. apply Nat.eqb_refl. }
  cbn [negb]. rewrite Hq, Hc. reflexivity.
Qed.

Lemma hop_closes_prev ps ce s r p : inv ps s -> closed s = false -> prev s = Some p ->
  let s' := fst (step ps ce s (AHop true r)) in
  prev s' = Some (cur s) /\ cur s' = length (socks s) /\
  sock_open (socks s') p = false /\ sock_open (socks s') (cur s) = true /\ sock_open (socks s') (cur s') = true /\
  forall x, step ps ce s' (AArrive p x) = (s', []).
Proof.
  intros I Hc Hp s'. assert (I' : inv ps s') by (apply step_inv; auto).
  pose proof I as [H1 H2 H3 H4 H5]. specialize (H2 p Hp).
  assert (Ep : prev s' = Some (cur s)) by (subst s'; cbn [step]; rewrite Hc; reflexivity).
  assert (Ec : cur s' = length (socks s)) by (subst s'; cbn [step]; rewrite Hc; reflexivity).
  assert (Ecl : closed s' = false) by (subst s'; cbn [step]; rewrite Hc; reflexivity).
  assert (Hpc : sock_open (socks s') p = false).
  { apply not_true_is_false. intros Ho. apply (open_iff ps s' p I') in Ho.
    destruct Ho as [_ [Ho|Ho]]; rewrite ?Ep, ?Ec in Ho; [lia|]. inversion Ho; lia. }
  repeat split; auto.
  - apply (open_iff ps s' (cur s) I'). auto.
  - apply (open_iff ps s' (cur s') I'). auto.
  - intros x. now apply arrive_on_closed_socket.
Qed.

(* FIFO, no loss, no duplication, over whole runs: the items accepted into the queue are exactly
   the items already returned by reads followed by the queue content *)
Definition accepted_of (s : st) (a : action) : list item :=
  match a with
  | AArrive k p => if sock_open (socks s) k && (length (queue s) <? packetQueueSize) then [IPkt p] else []
  | AArriveTimeout k => if sock_open (socks s) k && (length (queue s) <? packetQueueSize) then [ITimeout] else []
  | _ => []
  end.

Fixpoint accepted (ps : list N) (ce : nat -> bool) (s : st) (l : list action) : list item :=
  match l with
  | [] => []
  | a :: t => accepted_of s a ++ accepted ps ce (fst (step ps ce s a)) t
  end.

Definition returned_of (o : out) : list ret :=
  match o with
  | ORet (RPkt n) => [RPkt n]
  | ORet RTimeout => [RTimeout]
  | _ => []
  end.

Definition returned (outs : list out) : list ret := flat_map returned_of outs.

Lemma returned_app a b : returned (a ++ b) = returned a ++ returned b.
Proof. unfold returned. apply flat_map_app. Qed.

Lemma hop_sets_returned n s : returned (hop_sets n s) = [].
Proof.
  unfold hop_sets. rewrite !returned_app.
  repeat match goal with |- context [if ?c then _ else _] => destruct c end; reflexivity.
Qed.

Lemma step_fifo ps ce s a :
  map ret_of_item (queue s) ++ map ret_of_item (accepted_of s a) =
  returned (snd (step ps ce s a)) ++ map ret_of_item (queue (fst (step ps ce s a))).
Proof.
  destruct a as [ok r|d|k p|k|rid|rid pick|kd v|]; cbn [step accepted_of].
  - destruct (closed s); [cbn; now rewrite app_nil_r|].
    destruct ok; cbn [negb fst snd queue]; [|cbn; now rewrite app_nil_r].
    rewrite !returned_app, hop_sets_returned. destruct (prev s); cbn; now rewrite app_nil_r.
  - destruct (closed s); [cbn; now rewrite app_nil_r|].
    destruct (nth_error ps (idx s)); cbn; now rewrite app_nil_r.
  - unfold enqueue. destruct (_ && _); cbn; [now rewrite map_app|now rewrite app_nil_r].
  - unfold enqueue. destruct (_ && _); cbn; [now rewrite map_app|now rewrite app_nil_r].
  - destruct (closed s); cbn; now rewrite app_nil_r.
  - destruct (negb _); [cbn; now rewrite app_nil_r|].
    destruct (queue s) as [|x q] eqn:Eq.
    + destruct (closed s); cbn; rewrite ?Eq; reflexivity.
    + destruct (closed s && pick); cbn; rewrite ?Eq, ?app_nil_r; cbn; [reflexivity|].
      destruct x; reflexivity.
  - cbn [fst snd]. rewrite returned_app. destruct kd, (prev s); cbn; now rewrite app_nil_r.
  - destruct (closed s); cbn [fst snd queue]; [cbn; now rewrite app_nil_r|].
    rewrite returned_app. destruct (prev s), (ce (cur s)); cbn; now rewrite app_nil_r.
Qed.

Theorem run_fifo ps ce l : forall s,
  map ret_of_item (queue s) ++ map ret_of_item (accepted ps ce s l) =
  returned (snd (run ps ce s l)) ++ map ret_of_item (queue (fst (run ps ce s l))).
Proof.
  induction l as [|a t IH]; intros s.
  - cbn. now rewrite app_nil_r.
  - rewrite run_cons. cbn [accepted fst snd]. rewrite map_app, returned_app, app_assoc, (step_fifo ps ce s a).
    rewrite <- !app_assoc. f_equal. apply IH.
Qed.

(* ---------- Close *)

Lemma close_spec ps ce s : inv ps s -> closed s = false ->
  let s' := fst (step ps ce s AClose) in
  closed s' = true /\ length (socks s') = length (socks s) /\
  (forall k, k < length (socks s') -> nth_error (socks s') k = Some (mkSock false 1)) /\
  snd (step ps ce s AClose) =
    out_close_opt ce (prev s) ++ [OSockClose (cur s) (ce (cur s)); ORet (if ce (cur s) then RSockErr else RNil)].
Proof.
  intros I Hc s'. assert (I' : inv ps s') by (apply step_inv; auto).
  assert (Ecl : closed s' = true) by (subst s'; cbn [step]; rewrite Hc; reflexivity).
  split; auto. split.
  - subst s'. cbn [step]. rewrite Hc. cbn [fst socks]. now rewrite close_sock_length, close_opt_length.
  - split.
    + intros k Hk. destruct I' as [H1 H2 H3 H4 H5]. rewrite H5 by lia.
      unfold expected. rewrite Ecl. reflexivity.
    + cbn [step]. rewrite Hc. reflexivity.
Qed.

Lemma closed_all_closed ps s k : inv ps s -> closed s = true -> k < length (socks s) ->
  nth_error (socks s) k = Some (mkSock false 1).
Proof.
  intros [H1 H2 H3 H4 H5] Hc Hk. rewrite H5 by lia. unfold expected. rewrite Hc. reflexivity.
Qed.

Lemma closed_absorbing ps ce s : closed s = true ->
  (forall ok r, step ps ce s (AHop ok r) = (s, [])) /\
  (forall d, step ps ce s (AWrite d) = (s, [ORet RClosed])) /\
  (forall rid, step ps ce s (AReadBegin rid) = (s, [ORet RClosed])) /\
  step ps ce s AClose = (s, [ORet RNil]) /\
  (forall a, closed (fst (step ps ce s a)) = true /\ socks (fst (step ps ce s a)) = socks s /\
             prev (fst (step ps ce s a)) = prev s /\ cur (fst (step ps ce s a)) = cur s).
Proof.
  intros Hc. repeat split; intros; cbn [step]; rewrite ?Hc; try reflexivity.
  all: destruct a as [ok r|d|k p|k|rid|rid pick|kd v|]; cbn [step]; rewrite ?Hc; cbn [fst]; auto.
  all: try (unfold enqueue; destruct (_ && _); cbn; auto; fail).
  all: try (destruct (negb _); auto; destruct (queue s); cbn [andb]; try destruct pick; cbn; auto; fail).
  all: try (destruct kd; cbn; auto; fail).
Qed.

Lemma closed_stays ps ce l : forall s, closed s = true ->
  closed (fst (run ps ce s l)) = true /\ socks (fst (run ps ce s l)) = socks s /\
  forall o, In o (snd (run ps ce s l)) ->
    o <> OListen true /\ o <> OListen false /\ (forall k p d, o <> OSockWrite k p d) /\ forall k e, o <> OSockClose k e.
Proof.
  induction l as [|a t IH]; intros s Hc.
  - cbn. repeat split; auto; intros; contradiction.
  - rewrite run_cons. cbn [fst snd].
    destruct (closed_absorbing ps ce s Hc) as (Hh & Hw & Hr & Hcl & Hall).
    destruct (Hall a) as (Hc' & Hs' & _). destruct (IH _ Hc') as (IH1 & IH2 & IH3).
    split; auto. split; [congruence|].
    intros o Ho. apply in_app_or in Ho. destruct Ho as [Ho|Ho]; [|now apply IH3].
    destruct a as [ok r|d|k p|k|rid|rid pick|kd v|]; cbn [step] in Ho; rewrite ?Hc in Ho; cbn [snd] in Ho.
    + destruct Ho.
    + destruct Ho as [<-|[]]. repeat split; intros; discriminate.
    + destruct Ho.
    + destruct Ho.
    + destruct Ho as [<-|[]]. repeat split; intros; discriminate.
    + destruct (negb _); [destruct Ho|]. destruct (queue s); cbn [andb snd] in Ho.
      * destruct Ho as [<-|[]]. repeat split; intros; discriminate.
      * destruct pick; cbn [snd] in Ho; destruct Ho as [<-|[]]; repeat split; intros; discriminate.
    + apply in_app_or in Ho. destruct Ho as [Ho|[<-|[]]]; [|repeat split; intros; discriminate].
      destruct (prev s); [destruct Ho as [<-|[]]|destruct Ho]. repeat split; intros; discriminate.
    + destruct Ho as [<-|[]]. repeat split; intros; discriminate.
Qed.

(* ---------- socket faults: which sockets report an error from Close() changes nothing but the
   recorded result of those calls and the value Close returns *)

Lemma step_state_indep ps ce ce' s a : fst (step ps ce' s a) = fst (step ps ce s a).
Proof.
  destruct a as [ok r|d|k p|k|rid|rid pick|kd v|]; cbn [step]; try reflexivity.
  all: destruct (closed s); try reflexivity.
  all: try (destruct ok; reflexivity).
  all: try (destruct (nth_error ps (idx s)); reflexivity).
  all: destruct (negb _); try reflexivity; destruct (queue s); try reflexivity; cbn [andb]; destruct pick; reflexivity.
Qed.

Lemma run_state_indep ps ce ce' l : forall s, fst (run ps ce' s l) = fst (run ps ce s l).
Proof.
  induction l as [|a t IH]; intros s; [reflexivity|].
  rewrite !run_cons. cbn [fst]. rewrite (step_state_indep ps ce ce' s a). apply IH.
Qed.

Lemma reachable_indep ps ce ce' s : reachable ps ce s -> reachable ps ce' s.
Proof.
  intros (r0 & s0 & acts & Hi & ->). exists r0, s0, acts. split; [exact Hi|].
  symmetry. apply run_state_indep.
Qed.

(* Close with failing sockets: both sockets get their Close call, the closed flag is set (closeChan
   closed), every socket ever created ends up closed exactly once, the parked reads and the queue
   are untouched, and the caller gets currentConn's error (prevConn's is dropped) *)
Lemma close_spec_faults ps ce s : inv ps s -> closed s = false ->
  let s' := fst (step ps ce s AClose) in
  snd (step ps ce s AClose) =
    out_close_opt ce (prev s) ++ [OSockClose (cur s) (ce (cur s)); ORet (if ce (cur s) then RSockErr else RNil)] /\
  closed s' = true /\ length (socks s') = length (socks s) /\
  (forall k, k < length (socks s') -> nth_error (socks s') k = Some (mkSock false 1)) /\
  armed s' = armed s /\ queue s' = queue s /\ inv ps s'.
Proof.
  intros I Hc s'. destruct (close_spec ps ce s I Hc) as (H1 & H2 & H3 & H4).
  split; [exact H4|]. split; [exact H1|]. split; [exact H2|]. split; [exact H3|].
  subst s'. cbn [step]. rewrite Hc. cbn [fst armed queue]. split; [reflexivity|]. split; [reflexivity|].
  pose proof (step_inv ps ce s AClose I) as I'. cbn [step] in I'. rewrite Hc in I'. exact I'.
Qed.

(* a ReadFrom parked in its select: blocked while the conn is open and the queue empty ... *)
Lemma read_blocked ps ce s rid pick : closed s = false -> queue s = [] ->
  step ps ce s (AReadSelect rid pick) = (s, []).
Proof.
  intros Hc Hq. cbn [step]. destruct (negb _); [reflexivity|]. rewrite Hq, Hc. reflexivity.
Qed.

(* ... and always able to return once the conn is closed: with the closed error if the queue is
   empty (or the select picks closeChan), and it is no longer parked afterwards *)
Lemma read_woken ps ce s rid pick : closed s = true -> In rid (armed s) ->
  exists s' r, step ps ce s (AReadSelect rid pick) = (s', [ORet r]) /\ ~ In rid (armed s') /\
               closed s' = true /\ socks s' = socks s /\
               (queue s = [] \/ pick = true -> r = RClosed).
Proof.
  intros Hc Ha. cbn [step].
  assert (existsb (Nat.eqb rid) (armed s) = true) as ->.
  { apply existsb_exists. exists rid. split; auto. apply Nat.eqb_refl. }
  cbn [negb]. rewrite Hc.
  assert (Hrm : ~ In rid (remove_rid rid (armed s))).
  { unfold remove_rid. intros H. apply filter_In in H. destruct H as [_ H]. rewrite Nat.eqb_refl in H. discriminate. }
  destruct (queue s) as [|x q] eqn:Eq.
  - eexists. exists RClosed. split; [reflexivity|]. cbn [armed with_armed closed socks]. auto.
  - cbn [andb]. destruct pick.
    + eexists. exists RClosed. split; [reflexivity|]. cbn [armed with_armed closed socks]. auto.
    + eexists. exists (ret_of_item x). split; [reflexivity|]. cbn [armed with_armed with_queue closed socks].
      repeat split; auto. intros [H|H]; discriminate.
Qed.

(* ---------- hop interval *)
Local Open Scope Z_scope.

Lemma wrap64_small z : - 2 ^ 63 <= z < 2 ^ 63 -> wrap64 z = z.
Proof. intros H. unfold wrap64. rewrite Z.mod_small by lia. lia. Qed.

Lemma min_interval_pos : 0 < minHopInterval <= defaultHopInterval.
Proof. unfold minHopInterval, defaultHopInterval. lia. Qed.

Lemma normalized_spec mn mx :
  match normalized mn mx with
  | Some (a, b) => minHopInterval <= a <= b /\
                   ((mn = 0 /\ mx = 0 /\ a = defaultHopInterval /\ b = defaultHopInterval) \/
                    (mn <> 0 /\ mx <> 0 /\ a = mn /\ b = mx))
  | None => (mn = 0 /\ mx <> 0) \/ (mn <> 0 /\ mx = 0) \/ (mn <> 0 /\ mx <> 0 /\ (mx < mn \/ mn < minHopInterval))
  end.
Proof.
  pose proof min_interval_pos. unfold normalized.
  destruct (mn =? 0) eqn:E1, (mx =? 0) eqn:E2; cbn [andb orb]; try lia.
  destruct (mx <? mn) eqn:E3; [lia|]. destruct (mn <? minHopInterval) eqn:E4; lia.
Qed.

Lemma next_interval_range a b r :
  minHopInterval <= a <= b -> b < 2 ^ 63 ->
  exists v, next_interval a b r = Ok v /\ a <= v <= b.
Proof.
  pose proof min_interval_pos. intros H1 H2. unfold next_interval.
  destruct (a =? b) eqn:E; [exists a; split; [reflexivity|lia]|].
  rewrite (wrap64_small (b - a)) by lia. rewrite (wrap64_small (b - a + 1)) by lia.
  destruct (b - a + 1 <=? 0) eqn:E2; [lia|].
  pose proof (Z.mod_pos_bound r (b - a + 1)).
  exists (a + r mod (b - a + 1)). rewrite wrap64_small by lia. split; [reflexivity|lia].
Qed.

(* ---------- non-vacuity: a concrete history (two hops, a failed listen, a packet on the previous
   socket, Close, then operations on the closed conn); Close() of the even-numbered sockets reports
   an error: the hop discards socket 0's, Close discards nothing of socket 1 and returns socket 2's *)
Local Open Scope nat_scope.
Example ex_run :
  let ps := [443; 20000; 20001]%N in
  let ce := Nat.even in
  exists s0, init ps true 4 = Ok s0 /\
  run ps ce s0 [AHop true 2; AWrite 7; AHop false 0; AArrive 0 5; AHop true 1; AArrive 0 6; AArrive 1 8;
             AReadBegin 1; AReadSelect 1 false; ASet SRB 4096; AClose; AHop true 0; AWrite 1; AReadBegin 2; AClose] =
  (mkSt (Some 1) 2 1 true [mkSock false 1; mkSock false 1; mkSock false 1] [IPkt 8] 4096 0 0 0 0 [],
   [OListen true; OSockWrite 1 20001%N 7%N; ORet RWrote; OListen false; OListen true; OSockClose 0 true;
    ORet (RPkt 5); OSockSet 1 SRB 4096; OSockSet 2 SRB 4096; OSockClose 1 false; OSockClose 2 true; ORet RSockErr;
    ORet RClosed; ORet RClosed; ORet RNil]).
Proof. eexists. split; vm_compute; reflexivity. Qed.

Example ex_interval :
  normalized 0 0 = Some (defaultHopInterval, defaultHopInterval) /\
  normalized 5000000000 9000000000 = Some (5000000000, 9000000000)%Z /\
  normalized 4999999999 9000000000 = None /\ normalized 0 9000000000 = None /\
  normalized 9000000000 5000000000 = None /\
  next_interval 5000000000 9000000000 123456789012 = Ok 8456788982%Z.
Proof. vm_compute. repeat split; reflexivity. Qed.

(* all four fault outcomes of the two sockets Close has to close (socket 0, closed by the second
   hop, always reports an error): a read parked before Close is woken with the closed error, later
   hops open nothing, writes fail; only the value Close returns differs *)
Example ex_close_faults : forall ep ec,
  let ps := [443; 20000]%N in
  let ce := fun k => match k with 1 => ep | 2 => ec | _ => true end in
  exists s0, init ps true 0 = Ok s0 /\
  run ps ce s0 [AHop true 1; AHop true 0; AReadBegin 7; AReadSelect 7 false; AClose; AReadSelect 7 false;
                AHop true 1; AWrite 1; AReadBegin 8; AClose] =
  (mkSt (Some 1) 2 0 true [mkSock false 1; mkSock false 1; mkSock false 1] [] 0 0 0 0 0 [],
   [OListen true; OListen true; OSockClose 0 true; OSockClose 1 ep; OSockClose 2 ec;
    ORet (if ec then RSockErr else RNil); ORet RClosed; ORet RClosed; ORet RClosed; ORet RNil]).
Proof. intros [] []; eexists; split; vm_compute; reflexivity. Qed.

Lemma failed_listen_changes_nothing ps ce s r : fst (step ps ce s (AHop false r)) = s.
Proof. unfold step. destruct (closed s); reflexivity. Qed.
