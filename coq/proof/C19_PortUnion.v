(* C19 proofs, part (a): ParsePortUnion / Normalize / Ports / Contains. *)
From Hy Require Import lib.Bytes model.C19_PortUnion.
From Coq Require Import ZArith Lia Bool Sorting.Sorted.
Local Open Scope N_scope.

Ltac bool_to_prop :=
  repeat match goal with
  | H : _ && _ = true |- _ => apply andb_true_iff in H; destruct H
  | H : _ || _ = true |- _ => apply orb_true_iff in H
  | H : (_ <=? _) = true |- _ => apply N.leb_le in H
  | H : (_ <=? _) = false |- _ => apply N.leb_gt in H
  | H : (_ <? _) = true |- _ => apply N.ltb_lt in H
  | H : (_ <? _) = false |- _ => apply N.ltb_ge in H
  | H : (_ =? _) = true |- _ => apply N.eqb_eq in H
  | H : (_ =? _) = false |- _ => apply N.eqb_neq in H
  end.

Definition denotes (u : list range) (p : N) : Prop := exists r, In r u /\ fst r <= p <= snd r.

Lemma in_range_iff p r : in_range p r = true <-> fst r <= p <= snd r.
Proof.
  unfold in_range. rewrite andb_true_iff, !N.leb_le. tauto.
Qed.

Lemma contains_iff u p : contains u p = true <-> denotes u p.
Proof.
  unfold contains, denotes. rewrite existsb_exists.
  split; intros [r [Hin H]]; exists r; split; auto; now apply in_range_iff.
Qed.

(* ---------- sorting *)

Lemma insert_in x l r : In r (insert x l) <-> r = x \/ In r l.
Proof.
  induction l as [|y t IH]; simpl.
  - intuition.
  - destruct (range_ltb y x); simpl; rewrite ?IH; intuition.
Qed.

Lemma sort_in l r : In r (sort_ranges l) <-> In r l.
Proof.
  induction l as [|x t IH]; simpl; [tauto|].
  rewrite insert_in, IH. intuition.
Qed.

Definition fst_le (a b : range) : Prop := fst a <= fst b.

Lemma not_ltb_fst_le y x : range_ltb y x = false -> fst x <= fst y.
Proof.
  unfold range_ltb. destruct (fst y =? fst x) eqn:E; intros H; bool_to_prop; lia.
Qed.

Lemma ltb_fst_le y x : range_ltb y x = true -> fst y <= fst x.
Proof.
  unfold range_ltb. destruct (fst y =? fst x) eqn:E; intros H; bool_to_prop; lia.
Qed.

Lemma insert_sorted x l : StronglySorted fst_le l -> StronglySorted fst_le (insert x l).
Proof.
  induction 1 as [|y t Hs IH Hall]; simpl.
  - constructor; constructor.
  - destruct (range_ltb y x) eqn:E.
    + constructor; auto. apply Forall_forall. intros r Hr. apply insert_in in Hr.
      destruct Hr as [->|Hr].
      * now apply ltb_fst_le.
      * rewrite Forall_forall in Hall. now apply Hall.
    + apply not_ltb_fst_le in E. constructor.
      * constructor; auto.
      * constructor; [exact E|]. rewrite Forall_forall in *. intros r Hr.
        specialize (Hall r Hr). unfold fst_le in *. lia.
Qed.

Lemma sort_sorted l : StronglySorted fst_le (sort_ranges l).
Proof.
  induction l as [|x t IH]; simpl; [constructor|]. now apply insert_sorted.
Qed.

(* the lexicographic order too: the output of sort_ranges is the unique sorted arrangement *)
Lemma contains_sort u p : contains (sort_ranges u) p = contains u p.
Proof.
  apply eq_true_iff_eq. rewrite !contains_iff. unfold denotes.
  split; intros [r [Hin H]]; exists r; split; auto; now apply sort_in.
Qed.

(* ---------- the merge loop *)

Lemma merge_step_denotes p ls le cs ce :
  ls <= cs -> cs <= le + 1 ->
  in_range p (ls, if le <? ce then ce else le) = in_range p (ls, le) || in_range p (cs, ce).
Proof.
  intros H1 H2. apply eq_true_iff_eq. rewrite orb_true_iff, !in_range_iff. simpl.
  destruct (le <? ce) eqn:E; bool_to_prop; lia.
Qed.

Lemma merge_contains p l : forall last,
  StronglySorted fst_le l -> Forall (fst_le last) l ->
  contains (merge_from last l) p = in_range p last || contains l p.
Proof.
  induction l as [|c t IH]; intros last Hs Hall.
  - simpl. reflexivity.
  - inversion Hs as [|? ? Hs' Hc]; subst. inversion Hall as [|? ? Hlc Hall']; subst.
    cbn [merge_from]. destruct (fst c <=? snd last + 1) eqn:E.
    + assert (Hall2 : Forall (fst_le (fst last, if snd last <? snd c then snd c else snd last)) t).
      { eapply Forall_impl; [|exact Hall']. intros r Hr. unfold fst_le in *. cbn [fst]. exact Hr. }
      rewrite (IH _ Hs' Hall2).
      cbn [contains existsb]. rewrite orb_assoc. f_equal.
      destruct last as [ls le], c as [cs ce]. cbn [fst snd] in *.
      unfold fst_le in Hlc. cbn [fst] in Hlc. apply N.leb_le in E.
      now apply merge_step_denotes.
    + cbn [contains existsb]. fold (contains (merge_from c t) p). rewrite IH; auto.
Qed.

Theorem contains_normalize u p : contains (normalize u) p = contains u p.
Proof.
  unfold normalize. rewrite <- (contains_sort u p).
  pose proof (sort_sorted u) as Hs.
  destruct (sort_ranges u) as [|h t]; [reflexivity|].
  inversion Hs; subst. rewrite merge_contains; auto.
Qed.

(* ---------- normal form *)

Inductive nf : list range -> Prop :=
| nf_nil : nf []
| nf_one r : fst r <= snd r -> nf [r]
| nf_cons r1 r2 t : fst r1 <= snd r1 -> snd r1 + 1 < fst r2 -> nf (r2 :: t) -> nf (r1 :: r2 :: t).

Definition wf_range (r : range) : Prop := fst r <= snd r.

Lemma merge_head l : forall last, exists e t', merge_from last l = (fst last, e) :: t' /\ snd last <= e.
Proof.
  induction l as [|c t IH]; intros last.
  - exists (snd last), []. destruct last; simpl. split; [reflexivity|lia].
  - cbn [merge_from]. destruct (fst c <=? snd last + 1).
    + destruct (IH (fst last, if snd last <? snd c then snd c else snd last)) as [e [t' [H1 H2]]].
      exists e, t'. split; [exact H1|]. cbn [snd] in H2. destruct (snd last <? snd c) eqn:E; bool_to_prop; lia.
    + exists (snd last), (merge_from c t). destruct last; simpl. split; [reflexivity|lia].
Qed.

Lemma merge_nf l : forall last,
  wf_range last -> Forall wf_range l ->
  nf (merge_from last l).
Proof.
  induction l as [|c t IH]; intros last Hw Hall.
  - simpl. now constructor.
  - inversion Hall as [|? ? Hwc Hall']; subst. cbn [merge_from].
    destruct (fst c <=? snd last + 1) eqn:E.
    + apply IH; auto. unfold wf_range in *. cbn [fst snd].
      destruct (snd last <? snd c) eqn:E2; bool_to_prop; lia.
    + destruct (merge_head t c) as [e [t' [H1 H2]]].
      specialize (IH c Hwc Hall'). rewrite H1 in *.
      constructor; auto. cbn [fst]. bool_to_prop. lia.
Qed.

Theorem normalize_nf u : Forall wf_range u -> nf (normalize u).
Proof.
  intros H. unfold normalize.
  assert (Hs : Forall wf_range (sort_ranges u)).
  { rewrite Forall_forall in *. intros r Hr. apply H. now apply sort_in. }
  destruct (sort_ranges u) as [|h t]; [constructor|].
  inversion Hs; subst. now apply merge_nf.
Qed.

Lemma nf_tail r t : nf (r :: t) -> nf t.
Proof. inversion 1; subst; auto. constructor. Qed.

Lemma nf_later r t : nf (r :: t) -> Forall (fun r' => snd r + 1 < fst r') t.
Proof.
  revert r. induction t as [|r2 t IH]; intros r H; [constructor|].
  inversion H; subst. constructor; auto.
  specialize (IH r2 H5). eapply Forall_impl; [|exact IH].
  intros a Ha. cbn beta in *. inversion H5; subst; lia.
Qed.

(* ---------- Ports *)

Lemma seqN_in s n p : In p (seqN s n) <-> s <= p < s + N.of_nat n.
Proof.
  revert s. induction n as [|n IH]; intros s; cbn [seqN In].
  - lia.
  - rewrite IH. lia.
Qed.

Lemma seqN_sorted s n : StronglySorted N.lt (seqN s n).
Proof.
  revert s. induction n as [|n IH]; intros s; cbn [seqN]; constructor; auto.
  apply Forall_forall. intros p Hp. apply seqN_in in Hp. lia.
Qed.

Lemma range_ports_in r p : In p (range_ports r) <-> fst r <= p <= snd r.
Proof.
  unfold range_ports. destruct (snd r <? fst r) eqn:E; bool_to_prop.
  - simpl. lia.
  - rewrite seqN_in. lia.
Qed.

Theorem ports_in u p : In p (ports u) <-> denotes u p.
Proof.
  unfold ports, denotes. rewrite in_flat_map.
  split; intros [r [Hin H]]; exists r; split; auto; now apply range_ports_in.
Qed.

Lemma ss_app (a b : list N) :
  StronglySorted N.lt a -> StronglySorted N.lt b ->
  (forall x y, In x a -> In y b -> x < y) -> StronglySorted N.lt (a ++ b).
Proof.
  induction a as [|x a IH]; intros Ha Hb H; simpl; auto.
  inversion Ha; subst. constructor.
  - apply IH; auto. intros; apply H; simpl; auto.
  - apply Forall_app. split; auto. apply Forall_forall. intros y Hy. apply H; simpl; auto.
Qed.

Lemma range_ports_sorted r : StronglySorted N.lt (range_ports r).
Proof.
  unfold range_ports. destruct (snd r <? fst r); [constructor|apply seqN_sorted].
Qed.

Theorem ports_sorted v : nf v -> StronglySorted N.lt (ports v).
Proof.
  induction v as [|r t IH]; intros H; [constructor|].
  cbn [ports flat_map]. fold (ports t). apply ss_app.
  - apply range_ports_sorted.
  - apply IH. eapply nf_tail; eauto.
  - intros x y Hx Hy. apply range_ports_in in Hx. apply ports_in in Hy.
    destruct Hy as [r' [Hin Hr']]. pose proof (nf_later r t H) as Hl.
    rewrite Forall_forall in Hl. specialize (Hl r' Hin). lia.
Qed.

Lemma ss_lt_nodup (l : list N) : StronglySorted N.lt l -> NoDup l.
Proof.
  induction 1 as [|x l Hs IH Hall]; constructor; auto.
  intros Hin. rewrite Forall_forall in Hall. specialize (Hall x Hin). lia.
Qed.

(* ---------- the parser *)

Lemma parse_uint16_bound s v : parse_uint16 s = Some v -> v <= 65535.
Proof.
  unfold parse_uint16. destruct s; [discriminate|].
  destruct (parse_digits 0 (b :: s)) as [w|]; [|discriminate].
  destruct (w <=? 65535) eqn:E; [|discriminate]. intros H; inversion H; subst. now apply N.leb_le.
Qed.

Definition ok_range (r : range) : Prop := fst r <= snd r /\ snd r <= 65535.

Lemma parse_item_ok x r : parse_item x = Some r -> ok_range r.
Proof.
  unfold parse_item, ok_range. destruct (existsb (Byte.eqb c_dash) x).
  - destruct (split_on c_dash x) as [|a [|b [|? ?]]]; try discriminate.
    destruct (parse_uint16 a) as [s|] eqn:Ea; [|discriminate].
    destruct (parse_uint16 b) as [e|] eqn:Eb; [|discriminate].
    apply parse_uint16_bound in Ea. apply parse_uint16_bound in Eb.
    destruct (e <? s) eqn:E; intros H; inversion H; subst; cbn [fst snd]; bool_to_prop; lia.
  - destruct (parse_uint16 x) as [p|] eqn:Ep; [|discriminate].
    apply parse_uint16_bound in Ep. intros H; inversion H; subst; cbn [fst snd]. lia.
Qed.

Lemma parse_items_ok l : forall u, parse_items l = Some u -> Forall ok_range u /\ length u = length l.
Proof.
  induction l as [|x t IH]; intros u; cbn [parse_items].
  - intros H; inversion H; subst. split; [constructor|reflexivity].
  - destruct (parse_item x) as [r|] eqn:Er; [|discriminate].
    destruct (parse_items t) as [rs|]; [|discriminate].
    intros H; inversion H; subst. destruct (IH rs eq_refl) as [H1 H2]. split.
    + constructor; auto. eapply parse_item_ok; eauto.
    + simpl. now rewrite H2.
Qed.

Theorem parse_raw_ok s u : parse_raw s = Some u ->
  u <> [] /\ Forall ok_range u /\ parse_port_union s = Some (normalize u).
Proof.
  unfold parse_raw, parse_port_union.
  destruct (bytes_eq s s_all || bytes_eq s s_star).
  - intros H; inversion H; subst. split; [discriminate|]. split.
    + constructor; [|constructor]. unfold ok_range; cbn [fst snd]. lia.
    + reflexivity.
  - destruct (parse_items (split_on c_comma s)) as [v|] eqn:E; [|discriminate].
    destruct v as [|r v]; [discriminate|]. intros H; inversion H; subst.
    split; [discriminate|]. split; [|reflexivity].
    now apply parse_items_ok in E.
Qed.

Theorem parse_port_union_raw s v : parse_port_union s = Some v ->
  exists u, parse_raw s = Some u /\ v = normalize u.
Proof.
  unfold parse_raw, parse_port_union.
  destruct (bytes_eq s s_all || bytes_eq s s_star).
  - intros H; inversion H; subst. exists [(0, 65535)]. split; reflexivity.
  - destruct (parse_items (split_on c_comma s)) as [w|]; [|discriminate].
    destruct w as [|r w]; [discriminate|]. intros H; inversion H; subst. eauto.
Qed.

(* everything about one accepted expression *)
Theorem denotation s u : parse_raw s = Some u ->
  exists v, parse_port_union s = Some v /\
    (forall p, contains v p = true <-> denotes u p) /\
    (forall p, In p (ports v) <-> denotes u p) /\
    StronglySorted N.lt (ports v) /\ NoDup (ports v) /\
    nf v /\ ports v <> [] /\ (forall p, In p (ports v) -> p <= 65535).
Proof.
  intros H. destruct (parse_raw_ok s u H) as [Hne [Hok Hp]].
  exists (normalize u). split; [exact Hp|].
  assert (Hnf : nf (normalize u)).
  { apply normalize_nf. eapply Forall_impl; [|exact Hok]. intros r [Hr _]. exact Hr. }
  assert (Hin : forall p, In p (ports (normalize u)) <-> denotes u p).
  { intros p. rewrite ports_in, <- !contains_iff, contains_normalize. tauto. }
  split; [|split; [|split; [|split; [|split; [|split]]]]].
  - intros p. rewrite contains_normalize. apply contains_iff.
  - exact Hin.
  - now apply ports_sorted.
  - apply ss_lt_nodup. now apply ports_sorted.
  - exact Hnf.
  - destruct u as [|r u]; [congruence|]. inversion Hok as [|? ? [Hr1 Hr2] _]; subst.
    intros Hnil. assert (Hd : In (fst r) (ports (normalize (r :: u)))).
    { apply Hin. exists r. split; [now left|lia]. }
    rewrite Hnil in Hd. exact Hd.
  - intros p Hp'. apply Hin in Hp'. destruct Hp' as [r [Hr Hb]].
    rewrite Forall_forall in Hok. destruct (Hok r Hr). lia.
Qed.

Lemma parse_none_iff s : parse_port_union s = None <-> parse_raw s = None.
Proof.
  unfold parse_raw, parse_port_union.
  destruct (bytes_eq s s_all || bytes_eq s s_star); [split; discriminate|].
  destruct (parse_items (split_on c_comma s)) as [[|r w]|]; split; intros; try discriminate; reflexivity.
Qed.

Lemma hop_ports_denotes e u : parse_raw e = Some u ->
  exists ps, hop_ports e = Some ps /\ ps <> [] /\ NoDup ps /\ StronglySorted N.lt ps /\
             forall p, In p ps <-> denotes u p.
Proof.
  intros H. destruct (denotation e u H) as (v & Hp & _ & Hin & Hs & Hnd & _ & Hne & _).
  exists (ports v). unfold hop_ports. rewrite Hp. auto 6.
Qed.

(* ---------- non-vacuity: concrete expressions *)
From Coq Require Import Strings.String.
Definition bs (s : string) : list byte := list_byte_of_string s.

Example ex_expr :
  parse_raw (bs "20000-20010,20005-20020,0,65535,443") =
    Some [(20000, 20010); (20005, 20020); (0, 0); (65535, 65535); (443, 443)] /\
  parse_port_union (bs "20000-20010,20005-20020,0,65535,443") =
    Some [(0, 0); (443, 443); (20000, 20020); (65535, 65535)].
Proof. split; vm_compute; reflexivity. Qed.

Example ex_adjacent_reversed_zeros :
  parse_port_union (bs "10-20,21-30,40-35,0007,65534,65535") = Some [(7, 7); (10, 30); (35, 40); (65534, 65535)].
Proof. vm_compute; reflexivity. Qed.

Lemma wildcard_all : forall s, s = bs "all" \/ s = bs "*" ->
  parse_port_union s = Some [(0, 65535)] /\ forall p, contains [(0, 65535)] p = true <-> p <= 65535.
Proof.
  intros s Hs. split.
  - destruct Hs as [-> | ->]; vm_compute; reflexivity.
  - intros p. rewrite contains_iff. unfold denotes. split.
    + intros [r [[<-|[]] H]]. cbn [fst snd] in H. lia.
    + intros H. exists (0, 65535). split; [now left|cbn [fst snd]; lia].
Qed.

Lemma malformed_rejected :
  Forall (fun s => parse_port_union (bs s) = None)
    [""; "1-2-3"; "-5"; "5-"; "-"; ","; "65536"; "+1"; "1,,2"; ",1"; "1,"; " 1"; "1 "; "1_0"; "0x10"; "1e3";
     "all,1"; "ALL"; "**"; "1--2"; "99999999999999999999999999"; "18446744073709551616"; "1-+2"]%string.
Proof. repeat constructor. Qed.
