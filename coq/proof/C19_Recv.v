(* C19 proofs, part (c): the receiver goroutines.  The receiver of a socket stops only on a
   permanent error of that socket's ReadFrom; hence (sockets failing permanently only once closed)
   the receiver of every open socket is running in every reachable state, whatever happened before
   (overflows of the queue included), and an arrival on prev / cur with room in the queue is
   enqueued.  Every run of the extended machine projects to a run of the hop LTS. *)
From Hy Require Import lib.Res gen.ParamsC19 model.C19_Hop model.C19_Recv proof.C19_Hop.
From Coq Require Import ZArith Bool Lia.
Local Open Scope nat_scope.

(* ---------- list helpers *)

Lemma nth_true_lt (l : list bool) k : nth k l false = true -> k < length l.
Proof.
  revert k. induction l as [|b t IH]; intros [|k]; simpl; try discriminate; try lia.
  intros H. apply IH in H. lia.
Qed.

Lemma set_false_length k l : length (set_false k l) = length l.
Proof. revert k. induction l as [|b t IH]; intros [|k]; simpl; auto. Qed.

Lemma nth_set_false_other k j l : k <> j -> nth k (set_false j l) false = nth k l false.
Proof.
  revert k j. induction l as [|b t IH]; intros [|k] [|j] H; simpl; auto; try lia.
Qed.

Lemma nth_set_false_same k l : nth k (set_false k l) false = false.
Proof. revert k. induction l as [|b t IH]; intros [|k]; simpl; auto. Qed.

Lemma close_sock_open_back k j l : sock_open (close_sock j l) k = true -> sock_open l k = true.
Proof.
  unfold sock_open. rewrite close_sock_nth.
  destruct (Nat.eqb k j); destruct (nth_error l k); simpl; congruence.
Qed.

Lemma close_opt_open_back k p l : sock_open (close_opt p l) k = true -> sock_open l k = true.
Proof. destruct p; simpl; [apply close_sock_open_back|auto]. Qed.

(* ---------- what a step of the hop LTS does to the census *)

Definition creates (s : st) (a : action) : bool :=
  match a with AHop ok _ => negb (closed s) && ok | _ => false end.

Lemma step_socks_length ps ce s a :
  length (socks (fst (step ps ce s a))) = length (socks s) + (if creates s a then 1 else 0).
Proof.
  destruct a as [ok r|d|k p|k|rid|rid pick|kd v|]; cbn [step creates].
  - destruct (closed s); cbn [negb andb fst]; [lia|]. destruct ok; cbn [negb fst socks]; [|lia].
    rewrite app_length, close_opt_length. reflexivity.
  - destruct (closed s); cbn [fst]; [lia|]. destruct (nth_error ps (idx s)); cbn [fst]; lia.
  - cbn [fst]. destruct (enqueue_same s k (IPkt p)) as (_ & _ & _ & _ & E & _). rewrite E. lia.
  - cbn [fst]. destruct (enqueue_same s k ITimeout) as (_ & _ & _ & _ & E & _). rewrite E. lia.
  - destruct (closed s); cbn [fst with_armed socks]; lia.
  - destruct (negb _); cbn [fst]; [lia|]. destruct (queue s).
    + destruct (closed s); cbn [fst with_armed socks]; lia.
    + destruct (closed s && pick); cbn [fst with_armed with_queue socks]; lia.
  - cbn [fst]. destruct kd; cbn [set_fields socks]; lia.
  - destruct (closed s); cbn [fst socks]; [lia|]. rewrite close_sock_length, close_opt_length. lia.
Qed.

Lemma step_open_back ps ce s a k :
  k < length (socks s) -> sock_open (socks (fst (step ps ce s a))) k = true -> sock_open (socks s) k = true.
Proof.
  intros Hk.
  destruct a as [ok r|d|k' p|k'|rid|rid pick|kd v|]; cbn [step].
  - destruct (closed s); cbn [fst]; auto. destruct ok; cbn [negb fst socks]; auto.
    unfold sock_open at 1. rewrite nth_error_app1 by (rewrite close_opt_length; exact Hk).
    apply close_opt_open_back.
  - destruct (closed s); cbn [fst]; auto. destruct (nth_error ps (idx s)); cbn [fst]; auto.
  - cbn [fst]. destruct (enqueue_same s k' (IPkt p)) as (_ & _ & _ & _ & E & _). now rewrite E.
  - cbn [fst]. destruct (enqueue_same s k' ITimeout) as (_ & _ & _ & _ & E & _). now rewrite E.
  - destruct (closed s); cbn [fst with_armed socks]; auto.
  - destruct (negb _); cbn [fst]; auto. destruct (queue s).
    + destruct (closed s); cbn [fst with_armed socks]; auto.
    + destruct (closed s && pick); cbn [fst with_armed with_queue socks]; auto.
  - cbn [fst]. destruct kd; cbn [set_fields socks]; auto.
  - destruct (closed s); cbn [fst socks]; auto.
    intros H. apply close_sock_open_back in H. now apply close_opt_open_back in H.
Qed.

(* ---------- one step of the extended machine, in terms of the hop LTS *)

Definition act_of (a : xaction) : option action :=
  match a with
  | XAct b => Some b
  | XRecv k (RData p) => Some (AArrive k p)
  | XRecv k RTimeoutErr => Some (AArriveTimeout k)
  | XRecv k RPermErr => None
  end.

Definition rcv_of (a : xaction) : option nat :=
  match a with
  | XAct (AArrive k _) | XAct (AArriveTimeout k) | XRecv k _ => Some k
  | XAct _ => None
  end.

(* the actions of the hop LTS that an extended step performs *)
Definition proj_act (x : xst) (a : xaction) : list action :=
  match rcv_of a with
  | Some k => if recv_alive x k then match act_of a with Some b => [b] | None => [] end else []
  | None => match act_of a with Some b => [b] | None => [] end
  end.

Lemma recv_step_dead ps ce x k r : recv_alive x k = false -> recv_step ps ce x k r = x.
Proof. intros H. unfold recv_step. rewrite H. reflexivity. Qed.

Lemma xstep_shape ps ce x a :
  (base (fst (xstep ps ce x a)), snd (xstep ps ce x a)) = run ps ce (base x) (proj_act x a) /\
  alive (fst (xstep ps ce x a)) =
    match a with
    | XRecv k RPermErr => if recv_alive x k then set_false k (alive x) else alive x
    | XAct b => if creates (base x) b then alive x ++ [true] else alive x
    | _ => alive x
    end.
Proof.
  assert (R1 : forall b, run ps ce (base x) [b] = (fst (step ps ce (base x) b), snd (step ps ce (base x) b))).
  { intros b. rewrite run_cons. cbn [run fst snd]. now rewrite app_nil_r. }
  assert (Rv : forall k r b, act_of (XRecv k r) = Some b -> snd (step ps ce (base x) b) = []).
  { intros k r b. destruct r; cbn [act_of]; intros H; inversion H; reflexivity. }
  destruct a as [b|k r].
  - destruct b as [ok r|d|k p|k|rid|rid pick|kd v|]; unfold proj_act; cbn [xstep rcv_of act_of creates].
    + rewrite R1. destruct (step ps ce (base x) (AHop ok r)) as [s' o]. cbn [fst snd base alive]. auto.
    + rewrite R1. destruct (step ps ce (base x) (AWrite d)) as [s' o]. cbn [fst snd base alive]. auto.
    + cbn [fst snd]. unfold recv_step. destruct (recv_alive x k); cbn [negb base alive]; [rewrite R1|]; auto.
    + cbn [fst snd]. unfold recv_step. destruct (recv_alive x k); cbn [negb base alive]; [rewrite R1|]; auto.
    + rewrite R1. destruct (step ps ce (base x) (AReadBegin rid)) as [s' o]. cbn [fst snd base alive]. auto.
    + rewrite R1. destruct (step ps ce (base x) (AReadSelect rid pick)) as [s' o]. cbn [fst snd base alive]. auto.
    + rewrite R1. destruct (step ps ce (base x) (ASet kd v)) as [s' o]. cbn [fst snd base alive]. auto.
    + rewrite R1. destruct (step ps ce (base x) AClose) as [s' o]. cbn [fst snd base alive]. auto.
  - unfold proj_act. cbn [xstep rcv_of fst snd]. unfold recv_step.
    destruct (recv_alive x k); cbn [negb].
    + destruct r; cbn [act_of base alive]; rewrite ?R1; auto.
    + destruct r; cbn [run]; auto.
Qed.

Lemma xstep_base ps ce x a :
  (base (fst (xstep ps ce x a)), snd (xstep ps ce x a)) = run ps ce (base x) (proj_act x a).
Proof. apply xstep_shape. Qed.

Lemma proj_act_short x a : proj_act x a = [] \/ exists b, proj_act x a = [b].
Proof.
  unfold proj_act. destruct (rcv_of a); [destruct (recv_alive x n)|]; destruct (act_of a); eauto.
Qed.

Fixpoint proj (ps : list N) (ce : nat -> bool) (x : xst) (l : list xaction) : list action :=
  match l with
  | [] => []
  | a :: t => proj_act x a ++ proj ps ce (fst (xstep ps ce x a)) t
  end.

Lemma xrun_cons ps ce x a t :
  xrun ps ce x (a :: t) =
  (fst (xrun ps ce (fst (xstep ps ce x a)) t), snd (xstep ps ce x a) ++ snd (xrun ps ce (fst (xstep ps ce x a)) t)).
Proof.
  cbn [xrun]. destruct (xstep ps ce x a) as [x1 o1]. cbn [fst snd]. destruct (xrun ps ce x1 t). reflexivity.
Qed.

(* every run of the extended machine is a run of the hop LTS: same states, same boundary calls *)
Theorem xrun_refines ps ce l : forall x,
  run ps ce (base x) (proj ps ce x l) = (base (fst (xrun ps ce x l)), snd (xrun ps ce x l)).
Proof.
  induction l as [|a t IH]; intros x; [reflexivity|].
  cbn [proj]. rewrite run_app, xrun_cons. cbn [fst snd].
  rewrite <- (xstep_base ps ce x a). cbn [fst snd]. rewrite IH. reflexivity.
Qed.

(* ---------- reachability *)

Definition xreachable (ps : list N) (ce : nat -> bool) (x : xst) : Prop :=
  exists r0 x0 acts, xinit ps true r0 = Ok x0 /\ sockets_ok ps ce x0 acts = true /\ x = fst (xrun ps ce x0 acts).

Lemma xinit_ok ps r0 x0 : xinit ps true r0 = Ok x0 -> init ps true r0 = Ok (base x0) /\ alive x0 = [true].
Proof.
  unfold xinit. destruct (init ps true r0) as [s|e|n]; intros H; inversion H; subst. auto.
Qed.

Theorem xreachable_base ps ce x : xreachable ps ce x -> reachable ps ce (base x).
Proof.
  intros (r0 & x0 & acts & Hi & _ & ->). destruct (xinit_ok _ _ _ Hi) as [Hi' _].
  exists r0, (base x0), (proj ps ce x0 acts). split; [exact Hi'|].
  rewrite xrun_refines. reflexivity.
Qed.

(* ---------- the receiver of a socket stops only on a permanent error of that socket *)

Theorem recv_exit_only_on_error ps ce x k a :
  recv_alive x k = true -> recv_alive (fst (xstep ps ce x a)) k = false -> a = XRecv k RPermErr.
Proof.
  intros Ha Hd. unfold recv_alive in *. destruct (xstep_shape ps ce x a) as [_ E]. rewrite E in Hd. clear E.
  destruct a as [b|k' r].
  - destruct (creates (base x) b); [|congruence].
    rewrite app_nth1 in Hd by (now apply nth_true_lt). congruence.
  - destruct r; try congruence.
    destruct (recv_alive x k'); [|congruence].
    destruct (Nat.eq_dec k k') as [->|Hn]; [reflexivity|].
    rewrite nth_set_false_other in Hd by exact Hn. congruence.
Qed.

(* ---------- invariant: one receiver per socket, running while the socket is open *)

Definition xinv (x : xst) : Prop :=
  length (alive x) = length (socks (base x)) /\
  forall k, sock_open (socks (base x)) k = true -> recv_alive x k = true.

Lemma sock_open_lt l k : sock_open l k = true -> k < length l.
Proof.
  unfold sock_open. destruct (nth_error l k) eqn:E; [|discriminate]. intros _.
  apply nth_error_Some. congruence.
Qed.

Lemma run_one ps ce s b : fst (run ps ce s [b]) = fst (step ps ce s b).
Proof. rewrite run_cons. reflexivity. Qed.

Lemma xstep_inv ps ce x a : xinv x -> perm_ok x a = true -> xinv (fst (xstep ps ce x a)).
Proof.
  intros [L O] Hp. destruct (xstep_shape ps ce x a) as [B A].
  assert (Bs : base (fst (xstep ps ce x a)) = fst (run ps ce (base x) (proj_act x a))) by (now rewrite <- B).
  unfold xinv, recv_alive in *. rewrite A, Bs. clear A B Bs.
  destruct a as [b|k' r].
  - (* an action of the hop LTS, or an arrival *)
    assert (Hs : forall c, fst (run ps ce (base x) (proj_act x (XAct b))) = c ->
                 (c = base x /\ creates (base x) b = false) \/ c = fst (step ps ce (base x) b)).
    { intros c <-. unfold proj_act. destruct (rcv_of (XAct b)) as [k|] eqn:Er; cbn [act_of].
      - destruct (recv_alive x k); [right; apply run_one|left]. split; [reflexivity|].
        destruct b; try discriminate; reflexivity.
      - right. apply run_one. }
    destruct (Hs _ eq_refl) as [[-> Hc]| ->].
    + rewrite Hc. auto.
    + pose proof (step_socks_length ps ce (base x) b) as Hl.
      destruct (creates (base x) b).
      * split; [rewrite app_length, Hl, L; reflexivity|].
        intros k Hk. pose proof (sock_open_lt _ _ Hk) as Hlt. rewrite Hl in Hlt.
        destruct (Nat.eq_dec k (length (socks (base x)))) as [->|Hn].
        -- rewrite app_nth2 by lia. rewrite L, Nat.sub_diag. reflexivity.
        -- assert (Hk' : k < length (socks (base x))) by lia.
           rewrite app_nth1 by lia. apply O. eapply step_open_back; eauto.
      * split; [rewrite Hl, L; lia|].
        intros k Hk. pose proof (sock_open_lt _ _ Hk) as Hlt. rewrite Hl in Hlt.
        apply O. eapply step_open_back; eauto. lia.
  - (* one turn of socket k's loop *)
    unfold proj_act. cbn [rcv_of]. fold (recv_alive x k').
    destruct (recv_alive x k') eqn:Ea.
    + destruct r; cbn [act_of].
      * rewrite run_one. cbn [step fst]. destruct (enqueue_same (base x) k' (IPkt p)) as (_ & _ & _ & _ & E & _).
        rewrite E. auto.
      * rewrite run_one. cbn [step fst]. destruct (enqueue_same (base x) k' ITimeout) as (_ & _ & _ & _ & E & _).
        rewrite E. auto.
      * cbn [run fst]. split; [now rewrite set_false_length|].
        intros k Hk. cbn [perm_ok] in Hp.
        destruct (Nat.eq_dec k k') as [->|Hn]; [rewrite Hk in Hp; discriminate|].
        rewrite nth_set_false_other by exact Hn. now apply O.
    + destruct r; cbn [run fst]; auto.
Qed.

Lemma xrun_inv ps ce l : forall x, xinv x -> sockets_ok ps ce x l = true -> xinv (fst (xrun ps ce x l)).
Proof.
  induction l as [|a t IH]; intros x I H; [exact I|].
  cbn [sockets_ok] in H. apply andb_prop in H. destruct H as [H1 H2].
  rewrite xrun_cons. cbn [fst]. apply IH; [now apply xstep_inv|exact H2].
Qed.

Theorem xreachable_inv ps ce x : xreachable ps ce x -> xinv x.
Proof.
  intros (r0 & x0 & acts & Hi & Hs & ->). destruct (xinit_ok _ _ _ Hi) as [Hi' Ha].
  apply xrun_inv; [|exact Hs].
  unfold xinv, recv_alive. rewrite Ha.
  unfold init in Hi'. cbn [negb] in Hi'. destruct ps as [|p ps]; [discriminate|]. inversion Hi' as [Hb].
  cbn [socks length]. split; [reflexivity|].
  intros [|k]; cbn; [reflexivity|]. unfold sock_open. destruct k; discriminate.
Qed.

(* ---------- delivery: an arrival on prev / cur with room in the queue is enqueued; one that meets a
   full queue is dropped and changes nothing, in particular the receiver keeps running *)

Theorem recv_delivers ps ce x k p : xreachable ps ce x -> closed (base x) = false ->
  (k = cur (base x) \/ prev (base x) = Some k) ->
  recv_alive x k = true /\
  (length (queue (base x)) < packetQueueSize ->
     xstep ps ce x (XRecv k (RData p)) = (mkX (with_queue (base x) (queue (base x) ++ [IPkt p])) (alive x), [])) /\
  (length (queue (base x)) = packetQueueSize -> xstep ps ce x (XRecv k (RData p)) = (x, [])).
Proof.
  intros R Hc Hk. pose proof (xreachable_inv ps ce x R) as [_ O].
  pose proof (reachable_inv ps ce _ (xreachable_base ps ce x R)) as I.
  assert (Ho : sock_open (socks (base x)) k = true) by (apply (open_iff ps (base x) k I); auto).
  pose proof (O k Ho) as Ha. split; [exact Ha|]. split.
  - intros Hq. cbn [xstep]. unfold recv_step. rewrite Ha. cbn [negb].
    rewrite (arrive_delivers ps ce (base x) k p I Hc Hk Hq). reflexivity.
  - intros Hq. cbn [xstep]. unfold recv_step. rewrite Ha. cbn [negb step]. unfold enqueue.
    rewrite Hq, Nat.ltb_irrefl, andb_false_r. destruct x; reflexivity.
Qed.

(* ---------- non-vacuity: an overflow episode.  One hop; the reader falls behind until
   packetQueueSize packets from the previous socket sit unread; three more arrive on it and are
   dropped; the reader drains the queue; the next packet arriving on that same socket (no hop in
   between) is queued and read, and so is one on the current socket. *)
Definition ex_arrivals (k : nat) (p0 : N) (n : nat) : list xaction :=
  map (fun i => XRecv k (RData (p0 + N.of_nat i))) (seq 0 n).
Definition ex_reads (r0 n : nat) : list xaction :=
  flat_map (fun i => [XAct (AReadBegin (r0 + i)); XAct (AReadSelect (r0 + i) false)]) (seq 0 n).

Example ex_overflow :
  let ps := [443; 20000]%N in
  let acts := [XAct (AHop true 1)] ++ ex_arrivals 0 0 (packetQueueSize + 3) ++ ex_reads 0 packetQueueSize ++
              [XRecv 0 (RData 5000); XRecv 1 (RData 5001)] ++ ex_reads 2000 2 ++
              [XAct AClose; XRecv 0 RPermErr; XRecv 1 RPermErr; XRecv 1 (RData 9)] in
  exists x0, xinit ps true 0 = Ok x0 /\ sockets_ok ps (fun _ => false) x0 acts = true /\
    let r := xrun ps (fun _ => false) x0 acts in
    alive (fst r) = [false; false] /\ queue (base (fst r)) = [] /\
    length (returned (snd r)) = packetQueueSize + 2 /\
    skipn packetQueueSize (returned (snd r)) = [RPkt 5000; RPkt 5001] /\
    firstn 2 (returned (snd r)) = [RPkt 0; RPkt 1].
Proof. eexists. split; [reflexivity|]. vm_compute. repeat split; reflexivity. Qed.
