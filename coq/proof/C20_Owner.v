(* C20 proofs, socket ownership (model/C20_Owner.v). *)
From Hy Require Import model.C20_Punch proof.C20_Punch model.C20_Owner.
From Coq Require Import ZArith Lia.
Local Open Scope N_scope.

(* in order, each at most once *)
Inductive subseq {A} : list A -> list A -> Prop :=
| sub_nil : subseq [] []
| sub_take x a b : subseq a b -> subseq (x :: a) (x :: b)
| sub_skip x a b : subseq a b -> subseq a (x :: b).

Lemma subseq_refl {A} (l : list A) : subseq l l.
Proof. induction l; constructor; auto. Qed.

Lemma subseq_nil_l {A} (l : list A) : subseq [] l.
Proof. induction l; constructor; auto. Qed.

Lemma subseq_length {A} (a b : list A) : subseq a b -> (length a <= length b)%nat.
Proof. induction 1; cbn; lia. Qed.

Lemma subseq_in {A} (a b : list A) x : subseq a b -> In x a -> In x b.
Proof. induction 1; cbn; intuition. Qed.

Section OwnerProofs.
  Variable H : list byte -> list byte.
  Variable is_stun : list byte -> bool.
  Hypothesis H_nonempty : forall x, H x <> [].

  Notation ostep := (ostep H is_stun).
  Notation orun := (orun H is_stun).
  Notation foreign := (foreign H is_stun).

  Lemma foreign_spec ms g : foreign ms g = true ->
    is_stun (g_bytes g) = false /\ forall m, In m ms -> forall r, decode_punch H (g_bytes g) m <> Ok r.
  Proof.
    unfold C20_Owner.foreign. intros E. apply andb_prop in E. destruct E as [E1 E2].
    split. { now destruct (is_stun (g_bytes g)). }
    intros m Hin r D. rewrite forallb_forall in E2. specialize (E2 m Hin). rewrite D in E2. discriminate.
  Qed.

  (* a datagram the demultiplexer withholds is not foreign to a table that contains every registered metadata *)
  Lemma diverted_not_foreign ms (r : registry) g :
    (forall id m, In (id, m) r -> In m ms) ->
    is_stun (g_bytes g) = true \/ decodes_some H r (g_bytes g) ->
    foreign ms g = false.
  Proof.
    intros Sub D. destruct (foreign ms g) eqn:F; auto. exfalso.
    apply foreign_spec in F. destruct F as [F1 F2].
    destruct D as [D | (id & m & ty & pad & Hin & D)]; [congruence|].
    eapply F2; eauto.
  Qed.

  (* one QUIC-side read of a non-empty socket: the head leaves the queue, it is withheld iff the
     demultiplexer's condition holds, otherwise QUIC gets exactly it; nobody else gets anything *)
  Lemma read_quic_spec s g q pick : o_sock s = g :: q ->
    exists s' o, ostep s (ORead RQuic pick) = Ok (s', OOQuic o) /\
      o_sock s' = q /\ o_else s' = o_else s /\ o_dl s' = o_dl s /\ o_qerr s' = o_qerr s /\ o_ph s' = o_ph s /\
      d_reg (o_d s') = d_reg (o_d s) /\
      (diverted o = true <->
         is_stun (g_bytes g) = true \/ (addr_to_addrport (g_from g) <> None /\ decodes_some H (d_reg (o_d s)) (g_bytes g))) /\
      (diverted o = false -> o_quic s' = o_quic s ++ [g] /\ o_d s' = o_d s) /\
      (diverted o = true -> o_quic s' = o_quic s).
  Proof.
    intros Eq. cbn [C20_Owner.ostep]. rewrite Eq.
    destruct (divert_iff H is_stun H_nonempty (o_d s) (g_bytes g) (g_from g) pick) as (d' & o & E & Hiff & Hpass & _ & Hreg).
    rewrite E. cbn [bind fst snd].
    destruct o as [ok| | |ev|p from|e|e]; cbn [diverted] in *;
      try (do 2 eexists; split; [reflexivity|]; cbn [o_sock o_else o_dl o_qerr o_ph o_d o_quic];
           repeat split; auto; try tauto; try discriminate;
           try (intros _; destruct (Hpass eq_refl) as [X ->]; auto)).
    all: try (destruct (Hpass eq_refl) as [X _]; discriminate X).
  Qed.

  Lemma step_reg_metas s a s' o id m : step H is_stun s a = Ok (s', o) -> In (id, m) (d_reg s') ->
    In (id, m) (d_reg s) \/ exists id', a = AAdd id' m.
  Proof.
    intros E Hin. destruct a as [id' m'|id'|p from pick| |].
    - cbn [step] in E. destruct id' as [|c id']. { injection E as <- <-. auto. }
      destruct (decode_meta m') eqn:Em; try discriminate; injection E as <- <-; auto.
      cbn [d_reg] in Hin. unfold reg_add in Hin. destruct Hin as [X | X].
      + injection X as <- <-. right. eauto.
      + left. apply (remove_subset (c :: id') (d_reg s) (id, m)) in X. tauto.
    - cbn [step] in E. injection E as <- <-. cbn [d_reg] in Hin.
      left. apply (remove_subset id' (d_reg s) (id, m)) in Hin. tauto.
    - destruct (recv_spec H is_stun H_nonempty s p from pick) as (s2 & o2 & E2 & Hr & _).
      rewrite E in E2. injection E2 as -> ->. rewrite Hr in Hin. auto.
    - cbn [step] in E. destruct (d_ev s); injection E as <- <-; auto.
    - cbn [step] in E. destruct (d_stun s); injection E as <- <-; auto.
  Qed.

  Lemma ostep_total s a : exists s' o, ostep s a = Ok (s', o).
  Proof.
    destruct a as [g|r pick|r on| | |a'].
    - cbn. eauto.
    - cbn [C20_Owner.ostep]. destruct (o_sock s) as [|g q] eqn:Eq; [eauto|].
      destruct r.
      + destruct (read_quic_spec s g q pick Eq) as (s' & o & E & _).
        cbn [C20_Owner.ostep] in E. rewrite Eq in E. eauto.
      + destruct (is_stun (g_bytes g)); eauto.
      + destruct (step_total H is_stun H_nonempty (o_d s) (ARecv (g_bytes g) (g_from g) pick)) as (d' & o & E).
        rewrite E. cbn [bind fst snd]. destruct o; eauto.
    - cbn. eauto.
    - cbn. destruct (o_dl s); [destruct (o_ph s)|]; eauto.
    - cbn. eauto.
    - cbn [C20_Owner.ostep]. destruct a'; eauto;
        match goal with |- context [step H is_stun (o_d s) ?a] =>
          destruct (step_total H is_stun H_nonempty (o_d s) a) as (d' & o & E); rewrite E; cbn [bind]; eauto end.
  Qed.

  Lemma orun_app l1 : forall l2 s s1 o1 s2 o2,
    orun s l1 = Ok (s1, o1) -> orun s1 l2 = Ok (s2, o2) -> orun s (l1 ++ l2) = Ok (s2, o1 ++ o2).
  Proof.
    induction l1 as [|a l1 IH]; intros l2 s s1 o1 s2 o2 E1 E2.
    - cbn in E1. injection E1 as <- <-. exact E2.
    - cbn [C20_Owner.orun app] in *. destruct (ostep s a) as [[sa oa]| |] eqn:Ea; try discriminate.
      cbn [bind fst snd] in *. destruct (orun sa l1) as [[sb ob]| |] eqn:Eb; try discriminate.
      cbn [bind fst snd] in E1. injection E1 as <- <-.
      rewrite (IH l2 sa sb ob s2 o2 Eb E2). reflexivity.
  Qed.

  Lemma orun_total l : forall s, exists s' outs, orun s l = Ok (s', outs).
  Proof.
    induction l as [|a l IH]; intros s; [cbn; eauto|].
    destruct (ostep_total s a) as (sa & oa & Ea). destruct (IH sa) as (sb & ob & Eb).
    cbn [C20_Owner.orun]. rewrite Ea. cbn [bind fst snd]. rewrite Eb. cbn. eauto.
  Qed.

  (* ---------- a single reader ---------- *)
  (* Every history in which the QUIC side is the only party that reads the socket or touches its
     read deadline - datagrams arriving, attempts being registered and removed, events consumed, the
     hand-over, time passing, in any order.  ms: any table containing the metadata of every attempt
     registered at the start or during the history. *)
  Lemma single_reader_delivers l : forall s ms,
    forallb quic_only l = true ->
    (forall id m, In (id, m) (d_reg (o_d s)) -> In m ms) ->
    (forall m, In m (added l) -> In m ms) ->
    exists s' outs consumed del,
      orun s l = Ok (s', outs) /\
      o_sock s ++ arrivals l = consumed ++ o_sock s' /\
      o_quic s' = o_quic s ++ del /\ subseq del consumed /\
      filter (foreign ms) del = filter (foreign ms) consumed /\
      o_else s' = o_else s /\ o_dl s' = o_dl s /\ (o_dl s = false -> o_qerr s' = o_qerr s) /\
      (forall id m, In (id, m) (d_reg (o_d s')) -> In m ms).
  Proof.
    induction l as [|a l IH]; intros s ms Q Sub Add.
    { exists s, [], [], []. cbn. rewrite !app_nil_r. repeat split; auto. constructor. }
    cbn [forallb] in Q. apply andb_prop in Q. destruct Q as [Qa Ql].
    assert (Addl : forall m, In m (added l) -> In m ms).
    { intros m Hin. apply Add. unfold added. cbn [flat_map]. apply in_or_app. now right. }
    destruct a as [g|r pick|r on| | |a'].
    - (* OArrive *)
      set (s1 := mkO (o_ph s) (o_d s) (o_sock s ++ [g]) (o_quic s) (o_else s) (o_dl s) (o_qerr s)).
      destruct (IH s1 ms Ql Sub Addl) as (s' & outs & consumed & del & E & Hq & Hd & Hs & Hf & He & Hl & Hr & Hm).
      exists s', (OONone :: outs), consumed, del. cbn [C20_Owner.orun C20_Owner.ostep bind fst snd].
      fold s1. rewrite E. cbn [bind fst snd]. repeat split; auto.
      unfold arrivals. cbn [flat_map app]. fold (arrivals l). rewrite <- Hq. subst s1. cbn [o_sock].
      now rewrite <- app_assoc.
    - (* ORead *)
      destruct r; cbn in Qa; try discriminate.
      destruct (o_sock s) as [|g q] eqn:Eq.
      + destruct (IH s ms Ql Sub Addl) as (s' & outs & consumed & del & E & Hq & Hd & Hs & Hf & He & Hl & Hr & Hm).
        exists s', (OOBlocked :: outs), consumed, del. cbn [C20_Owner.orun C20_Owner.ostep]. rewrite Eq.
        cbn [bind fst snd]. rewrite E. cbn [bind fst snd]. rewrite Eq in Hq. repeat split; auto.
      + destruct (read_quic_spec s g q pick Eq) as (s1 & o & E1 & Hq1 & He1 & Hl1 & Hr1 & _ & Hreg1 & Hiff & Hpass & Hdiv).
        assert (Sub1 : forall id m, In (id, m) (d_reg (o_d s1)) -> In m ms) by (rewrite Hreg1; exact Sub).
        destruct (IH s1 ms Ql Sub1 Addl) as (s' & outs & consumed & del & E & Hq & Hd & Hs & Hf & He & Hl & Hr & Hm).
        destruct (diverted o) eqn:Dv.
        * (* withheld *)
          exists s', (OOQuic o :: outs), (g :: consumed), del. cbn [C20_Owner.orun]. rewrite E1.
          cbn [bind fst snd]. rewrite E. cbn [bind fst snd].
          assert (Fg : foreign ms g = false).
          { apply (diverted_not_foreign ms (d_reg (o_d s)) g Sub). pose proof (proj1 Hiff eq_refl) as X. tauto. }
          repeat split; auto.
          -- unfold arrivals. cbn [flat_map app]. fold (arrivals l). rewrite Hq1 in Hq. cbn [app]. now rewrite Hq.
          -- rewrite Hd, (Hdiv eq_refl). reflexivity.
          -- now constructor.
          -- cbn [filter]. rewrite Fg. exact Hf.
          -- congruence.
          -- congruence.
          -- intros X. rewrite <- Hr1. apply Hr. congruence.
        * (* handed to QUIC *)
          destruct (Hpass eq_refl) as [Hq2 _].
          exists s', (OOQuic o :: outs), (g :: consumed), (g :: del). cbn [C20_Owner.orun]. rewrite E1.
          cbn [bind fst snd]. rewrite E. cbn [bind fst snd].
          repeat split; auto.
          -- unfold arrivals. cbn [flat_map app]. fold (arrivals l). rewrite Hq1 in Hq. cbn [app]. now rewrite Hq.
          -- rewrite Hd, Hq2. now rewrite <- app_assoc.
          -- now constructor.
          -- cbn [filter]. destruct (foreign ms g); [now rewrite Hf | exact Hf].
          -- congruence.
          -- congruence.
          -- intros X. rewrite <- Hr1. apply Hr. congruence.
    - (* OSetDeadline *) cbn in Qa. discriminate.
    - (* OExpire *)
      destruct (ostep_total s OExpire) as (s1 & o1 & E1).
      assert (Same : o_sock s1 = o_sock s /\ o_quic s1 = o_quic s /\ o_else s1 = o_else s /\ o_dl s1 = o_dl s /\
                     o_d s1 = o_d s /\ (o_dl s = false -> o_qerr s1 = o_qerr s)).
      { cbn in E1. destruct (o_dl s) eqn:Dl; [destruct (o_ph s)|]; injection E1 as <- <-; cbn; repeat split; auto; discriminate. }
      destruct Same as (Sq & Squ & Se & Sl & Sd & Sr).
      assert (Sub1 : forall id m, In (id, m) (d_reg (o_d s1)) -> In m ms) by (rewrite Sd; exact Sub).
      destruct (IH s1 ms Ql Sub1 Addl) as (s' & outs & consumed & del & E & Hq & Hd & Hs & Hf & He & Hl & Hr & Hm).
      exists s', (o1 :: outs), consumed, del. cbn [C20_Owner.orun]. rewrite E1. cbn [bind fst snd]. rewrite E. cbn [bind fst snd].
      repeat split; auto; try congruence.
      + unfold arrivals. cbn [flat_map app]. fold (arrivals l). now rewrite <- Sq.
      + intros X. rewrite <- (Sr X). apply Hr. congruence.
    - (* OServe *)
      set (s1 := mkO PServing (o_d s) (o_sock s) (o_quic s) (o_else s) (o_dl s) (o_qerr s)).
      destruct (IH s1 ms Ql Sub Addl) as (s' & outs & consumed & del & E & Hq & Hd & Hs & Hf & He & Hl & Hr & Hm).
      exists s', (OONone :: outs), consumed, del. cbn [C20_Owner.orun C20_Owner.ostep bind fst snd].
      fold s1. rewrite E. cbn [bind fst snd]. repeat split; auto.
    - (* ODemux *)
      destruct (ostep_total s (ODemux a')) as (s1 & o1 & E1).
      assert (Same : o_sock s1 = o_sock s /\ o_quic s1 = o_quic s /\ o_else s1 = o_else s /\ o_dl s1 = o_dl s /\
                     o_qerr s1 = o_qerr s /\ (forall id m, In (id, m) (d_reg (o_d s1)) -> In m ms)).
      { cbn [C20_Owner.ostep] in E1.
        destruct a' as [id' m'|id'|p from pick| |];
          try (injection E1 as <- <-; repeat split; auto; fail);
          match type of E1 with context [step H is_stun (o_d s) ?a] =>
            destruct (step H is_stun (o_d s) a) as [[d' od]| |] eqn:Es; try discriminate;
            cbn [bind fst snd] in E1; injection E1 as <- <-; cbn [o_sock o_quic o_else o_dl o_qerr o_d];
            repeat split; auto; intros id m Hin;
            destruct (step_reg_metas _ _ _ _ id m Es Hin) as [X | (id2 & X)]; eauto end.
        all: try discriminate X.
        injection X as _ <-. apply Add. unfold added. cbn [flat_map]. now left. }
      destruct Same as (Sq & Squ & Se & Sl & Sr & Sub1).
      destruct (IH s1 ms Ql Sub1 Addl) as (s' & outs & consumed & del & E & Hq & Hd & Hs & Hf & He & Hl & Hr & Hm).
      exists s', (o1 :: outs), consumed, del. cbn [C20_Owner.orun]. rewrite E1. cbn [bind fst snd]. rewrite E. cbn [bind fst snd].
      repeat split; auto; try congruence.
      + assert (arrivals (ODemux a' :: l) = arrivals l) as -> by reflexivity. now rewrite <- Sq.
      + intros X. rewrite <- Sr. apply Hr. congruence.
  Qed.

  (* ---------- the runtime as written ---------- *)

  Lemma repeat_quic_only n : forallb quic_only (repeat (ODemux ATakeStun) n) = true.
  Proof. induction n; cbn; auto. Qed.

  (* once QUIC serves, a well-formed history of the runtime of server.go (re-registration and the
     per-connect refresh go through DiscoverWithDemux) has QUIC as the only reader of the socket *)
  Lemma rt_serving_quic_only h : rt_wf PServing h = true -> forallb quic_only (rt_trace site_how h) = true.
  Proof.
    induction h as [|e h IH]; intros W; [reflexivity|].
    unfold rt_trace. cbn [flat_map]. rewrite forallb_app. fold (rt_trace site_how h).
    destruct e as [st n| |a]; cbn [rt_wf] in W.
    - destruct st; cbn [site_phase] in W; try discriminate;
        cbn [rt_actions site_how discovery]; rewrite repeat_quic_only; now rewrite IH.
    - discriminate.
    - destruct a as [g|r pick|r on| | |a']; try discriminate; cbn [rt_actions forallb quic_only andb].
      + now apply IH.
      + destruct r; try discriminate. cbn. now apply IH.
      + now apply IH.
      + now apply IH.
  Qed.

  Lemma rt_wf_serving_no_serve x : forall y, rt_wf PServing (x ++ RtServe :: y) = false.
  Proof.
    induction x as [|e x IH]; intros y; [reflexivity|]. cbn [app rt_wf].
    destruct e as [st n| |a]; auto.
    - destruct (site_phase st); auto.
    - destruct a as [g|r pick|r on| | |a']; auto. destruct r; auto.
  Qed.

  (* the startup discovery, alone on the socket: whatever it reads, when it returns the deadline is
     cleared, QUIC has seen nothing and no QUIC-side read has failed *)
  Lemma direct_loop_startup n : forall s, o_ph s = PStartup ->
    exists s' outs, orun s (direct_loop n) = Ok (s', outs) /\
      o_ph s' = PStartup /\ o_dl s' = false /\ o_qerr s' = o_qerr s /\ o_quic s' = o_quic s /\ o_d s' = o_d s.
  Proof.
    induction n as [|n IH]; intros s Ph.
    - cbn. do 2 eexists. split; [reflexivity|]. cbn. auto.
    - cbn [direct_loop C20_Owner.orun].
      set (s1 := mkO (o_ph s) (o_d s) (o_sock s) (o_quic s) (o_else s) true (o_qerr s)).
      assert (E0 : ostep s (OSetDeadline RDirect true) = Ok (s1, OONone)) by reflexivity.
      rewrite E0. cbn [bind fst snd].
      assert (R : exists s2 o2, ostep s1 (ORead RDirect (fun _ => 0%nat)) = Ok (s2, o2) /\
                  o_ph s2 = PStartup /\ o_qerr s2 = o_qerr s /\ o_quic s2 = o_quic s /\ o_d s2 = o_d s).
      { cbn [C20_Owner.ostep]. subst s1. cbn [o_sock]. destruct (o_sock s) as [|g q].
        - do 2 eexists. split; [reflexivity|]. cbn. auto.
        - cbn [o_ph o_d o_quic o_else o_dl o_qerr]. destruct (is_stun (g_bytes g)); do 2 eexists; (split; [reflexivity|]); cbn; auto. }
      destruct R as (s2 & o2 & E2 & P2 & R2 & Q2 & D2). rewrite E2. cbn [bind fst snd].
      destruct (IH s2 P2) as (s' & outs & E & P & L & R & Q & D). rewrite E. cbn [bind fst snd].
      do 2 eexists. split; [reflexivity|]. repeat split; congruence.
  Qed.

  Lemma startup_runs post pre : forall s ms,
    rt_wf PStartup (pre ++ RtServe :: post) = true ->
    o_ph s = PStartup -> o_dl s = false ->
    (forall id m, In (id, m) (d_reg (o_d s)) -> In m ms) ->
    (forall m, In m (added (rt_trace site_how pre)) -> In m ms) ->
    exists s1 outs1, orun s (rt_trace site_how (pre ++ [RtServe])) = Ok (s1, outs1) /\
      o_ph s1 = PServing /\ o_dl s1 = false /\ o_qerr s1 = o_qerr s /\ o_quic s1 = o_quic s /\
      (forall id m, In (id, m) (d_reg (o_d s1)) -> In m ms) /\
      rt_wf PServing post = true.
  Proof.
    induction pre as [|e pre IH]; intros s ms W Ph Dl Sub Add.
    { cbn [app rt_wf] in W. cbn. do 2 eexists. split; [reflexivity|]. cbn. repeat split; auto. }
    cbn [app rt_wf] in W.
    assert (Addp : forall m, In m (added (rt_trace site_how pre)) -> In m ms).
    { intros m Hin. apply Add. unfold rt_trace, added in *. cbn [flat_map]. rewrite flat_map_app. apply in_or_app. now right. }
    assert (Go : forall s0 o0, orun s (rt_actions site_how e) = Ok (s0, o0) ->
                 o_ph s0 = PStartup -> o_dl s0 = false -> o_qerr s0 = o_qerr s -> o_quic s0 = o_quic s ->
                 (forall id m, In (id, m) (d_reg (o_d s0)) -> In m ms) ->
                 rt_wf PStartup (pre ++ RtServe :: post) = true ->
                 exists s1 outs1, orun s (rt_trace site_how ((e :: pre) ++ [RtServe])) = Ok (s1, outs1) /\
                   o_ph s1 = PServing /\ o_dl s1 = false /\ o_qerr s1 = o_qerr s /\ o_quic s1 = o_quic s /\
                   (forall id m, In (id, m) (d_reg (o_d s1)) -> In m ms) /\ rt_wf PServing post = true).
    { intros s0 o0 E0 P0 L0 R0 Q0 Sub0 W0.
      destruct (IH s0 ms W0 P0 L0 Sub0 Addp) as (s1 & outs1 & E1 & P1 & L1 & R1 & Q1 & Sub1 & W1).
      exists s1, (o0 ++ outs1). split.
      - cbn [app]. unfold rt_trace. cbn [flat_map]. apply (orun_app _ _ _ _ _ _ _ E0). exact E1.
      - repeat split; auto; congruence. }
    destruct e as [st n| |a].
    - destruct st; cbn [site_phase] in W; try discriminate.
      cbn [rt_actions site_how discovery] in Go.
      destruct (direct_loop_startup n s Ph) as (s0 & o0 & E0 & P0 & L0 & R0 & Q0 & D0).
      apply (Go s0 o0 E0 P0 L0 R0 Q0); auto. rewrite D0. exact Sub.
    - (* a second hand-over *) rewrite rt_wf_serving_no_serve in W. discriminate.
    - destruct a as [g|r pick|r on| | |a']; try discriminate.
      + apply (Go (mkO (o_ph s) (o_d s) (o_sock s ++ [g]) (o_quic s) (o_else s) (o_dl s) (o_qerr s)) [OONone]); auto.
      + destruct r; discriminate.
      + apply (Go s [OONone]); auto. cbn. rewrite Dl. reflexivity.
      + destruct (ostep_total s (ODemux a')) as (s0 & o0 & E0).
        assert (Same : o_ph s0 = o_ph s /\ o_quic s0 = o_quic s /\ o_dl s0 = o_dl s /\
                       o_qerr s0 = o_qerr s /\ (forall id m, In (id, m) (d_reg (o_d s0)) -> In m ms)).
        { cbn [C20_Owner.ostep] in E0.
          destruct a' as [id' m'|id'|p from pick| |];
            try (injection E0 as <- <-; repeat split; auto; fail);
            match type of E0 with context [step H is_stun (o_d s) ?a] =>
              destruct (step H is_stun (o_d s) a) as [[d' od]| |] eqn:Es; try discriminate;
              cbn [bind fst snd] in E0; injection E0 as <- <-; cbn [o_ph o_quic o_dl o_qerr o_d];
              repeat split; auto; intros id m Hin;
              destruct (step_reg_metas _ _ _ _ id m Es Hin) as [X | (id2 & X)]; eauto end.
          all: try discriminate X.
          injection X as _ <-. apply Add. unfold rt_trace, added. cbn [flat_map rt_actions app]. now left. }
        destruct Same as (P0 & Q0 & L0 & R0 & Sub0).
        apply (Go s0 [o0]); auto; try congruence.
        cbn [rt_actions C20_Owner.orun]. rewrite E0. reflexivity.
  Qed.

  (* The realm server runtime of app/cmd/server.go, every well-formed history: startup (discovery on
     the socket itself, nothing serves), the hand-over, then - in any order and any number of times -
     lost sessions with re-registration, per-connect refreshes, datagrams arriving, QUIC reading,
     punch attempts registered and removed, deadlines (none armed) passing.  From the hand-over on:
     everything QUIC's ReadFrom returned is, in order and at most once each, a datagram that left the
     socket; every datagram that left the socket and is neither STUN nor decodable under any
     metadata ever registered was returned to QUIC (exactly once, in order); nothing went to anybody
     else; no QUIC-side read failed. *)
  Lemma runtime_delivers pre post cap ms :
    rt_wf PStartup (pre ++ RtServe :: post) = true ->
    (forall m, In m (added (rt_trace site_how (pre ++ RtServe :: post))) -> In m ms) ->
    exists s1 outs1 s2 outs2 consumed,
      orun (o_init cap) (rt_trace site_how (pre ++ [RtServe])) = Ok (s1, outs1) /\
      orun s1 (rt_trace site_how post) = Ok (s2, outs2) /\
      o_quic s1 = [] /\
      o_sock s1 ++ arrivals (rt_trace site_how post) = consumed ++ o_sock s2 /\
      subseq (o_quic s2) consumed /\
      filter (foreign ms) (o_quic s2) = filter (foreign ms) consumed /\
      o_else s2 = o_else s1 /\ o_qerr s2 = 0%nat.
  Proof.
    intros W Add.
    assert (Add1 : forall m, In m (added (rt_trace site_how pre)) -> In m ms).
    { intros m Hin. apply Add. unfold rt_trace, added in *. rewrite !flat_map_app. apply in_or_app. now left. }
    assert (Add2 : forall m, In m (added (rt_trace site_how post)) -> In m ms).
    { intros m Hin. apply Add. unfold rt_trace, added in *. rewrite !flat_map_app. apply in_or_app. right.
      cbn [flat_map rt_actions app]. exact Hin. }
    destruct (startup_runs post pre (o_init cap) ms W eq_refl eq_refl) as (s1 & outs1 & E1 & P1 & L1 & R1 & Q1 & Sub1 & W1).
    { cbn. intros id m []. }
    { exact Add1. }
    destruct (single_reader_delivers (rt_trace site_how post) s1 ms (rt_serving_quic_only post W1) Sub1 Add2)
      as (s2 & outs2 & consumed & del & E2 & Hq & Hd & Hs & Hf & He & Hl & Hr & _).
    cbn in Q1, R1.
    exists s1, outs1, s2, outs2, consumed. rewrite Hd, Q1. cbn [app].
    repeat split; auto. rewrite (Hr L1). exact R1.
  Qed.

End OwnerProofs.

(* ---------- two readers ---------- *)
(* Concrete instance: no attempt registered, nothing is STUN.  Three QUIC-like datagrams arrive
   while QUIC serves and a discovery runs on the socket itself. *)
Definition own_from : addr := mkAddr true [x7f;x00;x00;x01] 40000%Z.
Definition own_q (k : byte) : dgram := mkDg [xc0; x00; x00; x00; x01; k] own_from.
Definition no_stun : list byte -> bool := fun _ => false.
Definition own_pick : list pev -> nat := fun _ => 0%nat.

(* the same arrivals, QUIC alone: all three delivered *)
Example single_reader_example :
  exists s' outs, orun sha256 no_stun (o_init 0) [OServe; OArrive (own_q x00); OArrive (own_q x01); OArrive (own_q x02);
                                                  ORead RQuic own_pick; ORead RQuic own_pick; ORead RQuic own_pick] = Ok (s', outs) /\
    o_quic s' = [own_q x00; own_q x01; own_q x02] /\ o_else s' = [] /\ o_sock s' = [] /\ o_qerr s' = 0%nat.
Proof. vm_compute. do 2 eexists. repeat split. Qed.

(* with a second reader the statement of single_reader_delivers fails: a foreign datagram leaves
   the socket and never reaches QUIC *)
Lemma two_readers_refuted :
  exists l s' outs,
    orun sha256 no_stun (o_init 0) l = Ok (s', outs) /\ o_sock s' = [] /\
    Forall (fun a => match a with ORead r _ => r = RQuic \/ r = RDirect | _ => True end) l /\
    exists g, In g (arrivals l) /\ foreign sha256 no_stun (added l) g = true /\
              ~ In g (o_quic s') /\ In g (o_else s').
Proof.
  exists [OServe; OArrive (own_q x00); OArrive (own_q x01); OArrive (own_q x02);
          ORead RQuic own_pick; ORead RDirect own_pick; ORead RQuic own_pick].
  do 2 eexists. split; [vm_compute; reflexivity|]. split; [reflexivity|]. split.
  { repeat (apply Forall_cons; [cbn; auto|]). apply Forall_nil. }
  exists (own_q x01). split; [cbn; auto|]. split; [reflexivity|]. split.
  - cbn. intros [X | [X | []]]; discriminate X.
  - cbn. auto.
Qed.

(* ... and the deadline that the second reader arms makes a QUIC-side read fail *)
Lemma foreign_deadline_refuted :
  exists l s' outs,
    orun sha256 no_stun (o_init 0) l = Ok (s', outs) /\ (0 < o_qerr s')%nat /\
    forallb quic_only (filter (fun a => match a with OSetDeadline _ _ => false | _ => true end) l) = true.
Proof.
  exists [OServe; OSetDeadline RDirect true; OExpire]. do 2 eexists.
  split; [vm_compute; reflexivity|]. split; [cbn; lia | reflexivity].
Qed.

(* the runtime with the re-registration refresh run on the socket itself (refreshAddrsDirect in
   registerWithBackoff): a well-formed history in which a foreign datagram that arrives while QUIC
   serves is lost to it *)
Definition site_how_direct_reregister : site_table :=
  fun s => match s with SiteStartup => HowDirect | SiteReRegister => HowDirect | SiteConnect => HowDemux end.

Lemma runtime_direct_reregister_refuted :
  exists pre post s2 outs,
    rt_wf PStartup (pre ++ RtServe :: post) = true /\
    orun sha256 no_stun (o_init 0) (rt_trace site_how_direct_reregister (pre ++ RtServe :: post)) = Ok (s2, outs) /\
    o_sock s2 = [] /\
    exists g, In g (arrivals (rt_trace site_how_direct_reregister post)) /\
              foreign sha256 no_stun [] g = true /\ ~ In g (o_quic s2) /\ In g (o_else s2).
Proof.
  exists [RtDiscover SiteStartup 1],
         [RtEnv (OArrive (own_q x00)); RtEnv (ORead RQuic own_pick); RtEnv (OArrive (own_q x01));
          RtDiscover SiteReRegister 1; RtEnv (OArrive (own_q x02)); RtEnv (ORead RQuic own_pick)].
  do 2 eexists. split; [reflexivity|]. split; [vm_compute; reflexivity|]. split; [reflexivity|].
  exists (own_q x01). split; [cbn; auto|]. split; [reflexivity|]. split.
  - cbn. intros [X | [X | []]]; discriminate X.
  - cbn. auto.
Qed.

(* the same history under the table of server.go as written: everything is delivered *)
Example runtime_example :
  exists s2 outs,
    orun sha256 no_stun (o_init 0)
         (rt_trace site_how ([RtDiscover SiteStartup 1] ++ RtServe ::
            [RtEnv (OArrive (own_q x00)); RtEnv (ORead RQuic own_pick); RtEnv (OArrive (own_q x01));
             RtDiscover SiteReRegister 1; RtEnv (OArrive (own_q x02)); RtEnv (ORead RQuic own_pick); RtEnv (ORead RQuic own_pick)])) = Ok (s2, outs) /\
    o_quic s2 = [own_q x00; own_q x01; own_q x02] /\ o_else s2 = [] /\ o_qerr s2 = 0%nat.
Proof. vm_compute. do 2 eexists. repeat split. Qed.
